// Package resp: a strict RESP2 request parser (what a Redis server accepts) and reply
// generators, used by the harness to play the backend nodes.
package resp

import (
	"strconv"

	"verifharness/rng"
)

// ParseRequests splits b into complete canonical requests; rest is the unparsed tail and ok is
// false if a protocol error (something Redis would reject) was met.
func ParseRequests(b []byte) (reqs [][][]byte, rest []byte, ok bool) {
	for len(b) > 0 {
		args, n, st := parseOne(b)
		if st == 0 { // incomplete
			return reqs, b, true
		}
		if st < 0 {
			return reqs, b, false
		}
		reqs = append(reqs, args)
		b = b[n:]
	}
	return reqs, b, true
}

func canon(p []byte) (int, bool) {
	if len(p) == 0 || len(p) > 18 {
		return 0, false
	}
	if p[0] == '0' && len(p) > 1 {
		return 0, false
	}
	n := 0
	for _, c := range p {
		if c < '0' || c > '9' {
			return 0, false
		}
		n = n*10 + int(c-'0')
	}
	return n, true
}

func line(b []byte) (l []byte, n int, st int) {
	for i := 0; i+1 < len(b); i++ {
		if b[i] == '\r' {
			if b[i+1] != '\n' {
				return nil, 0, -1
			}
			return b[:i], i + 2, 1
		}
		if b[i] == '\n' {
			return nil, 0, -1
		}
	}
	return nil, 0, 0
}

// parseOne: st 1 = ok, 0 = incomplete, -1 = protocol error.
func parseOne(b []byte) (args [][]byte, n int, st int) {
	l, k, st := line(b)
	if st != 1 {
		return nil, 0, st
	}
	if len(l) < 2 || l[0] != '*' {
		return nil, 0, -1
	}
	cnt, ok := canon(l[1:])
	if !ok || cnt < 1 {
		return nil, 0, -1
	}
	pos := k
	for i := 0; i < cnt; i++ {
		l, k, st := line(b[pos:])
		if st != 1 {
			return nil, 0, st
		}
		if len(l) < 2 || l[0] != '$' {
			return nil, 0, -1
		}
		ln, ok := canon(l[1:])
		if !ok {
			return nil, 0, -1
		}
		pos += k
		if len(b) < pos+ln+2 {
			return nil, 0, 0
		}
		if b[pos+ln] != '\r' || b[pos+ln+1] != '\n' {
			return nil, 0, -1
		}
		args = append(args, b[pos:pos+ln])
		pos += ln + 2
	}
	return args, pos, 1
}

func Bulk(v []byte) []byte {
	out := []byte{'$'}
	out = append(out, strconv.Itoa(len(v))...)
	out = append(out, '\r', '\n')
	out = append(out, v...)
	return append(out, '\r', '\n')
}

var Nil = []byte("$-1\r\n")

func Array(items ...[]byte) []byte {
	out := []byte{'*'}
	out = append(out, strconv.Itoa(len(items))...)
	out = append(out, '\r', '\n')
	for _, it := range items {
		out = append(out, it...)
	}
	return out
}

func Int(n int) []byte { return []byte(":" + strconv.Itoa(n) + "\r\n") }

var Errors = []string{
	"-ERR some error\r\n", "-WRONGTYPE Operation against a key holding the wrong kind of value\r\n",
	"-LOADING Redis is loading the dataset in memory\r\n", "-CLUSTERDOWN The cluster is down\r\n",
	"-TRYAGAIN Multiple keys request during rehashing of slot\r\n",
	"-CROSSSLOT Keys in request don't hash to the same slot\r\n",
	"-READONLY You can't write against a read only replica.\r\n", "-MASTERDOWN Link with MASTER is down\r\n",
	"-ERR\r\n", "-E\r\n", "-NOSCRIPT No matching script\r\n", "-BUSY Redis is busy\r\n", "-MISCONF x\r\n",
	"-OOM command not allowed when used memory > 'maxmemory'.\r\n",
}

func lineSafe(r *rng.R, n int) []byte {
	b := make([]byte, n)
	for i := range b {
		c := byte(r.U64())
		if c == '\r' || c == '\n' {
			c = '.'
		}
		b[i] = c
	}
	return b
}

// Value returns a random well-formed RESP2 value that is not a redirect or auth error.
func Value(r *rng.R, depth int) ([]byte, string) {
	k := r.Intn(9)
	if depth <= 0 && k >= 7 {
		k = r.Intn(7)
	}
	switch k {
	case 0:
		return []byte(r.Pick("+OK\r\n", "+PONG\r\n", "+QUEUED\r\n", "+OKAY\r\n", "+O\r\n", "+\r\n")), "status"
	case 1:
		return []byte("+" + string(lineSafe(r, r.Range(0, 20))) + "\r\n"), "status"
	case 2:
		return []byte(Errors[r.Intn(len(Errors))]), "error"
	case 3:
		return []byte(":" + r.Pick("0", "1", "-1", "42", "9223372036854775807", "-9223372036854775808") + "\r\n"), "integer"
	case 4:
		return Bulk(r.Bytes(r.Range(0, 40))), "bulk"
	case 5:
		return Bulk(r.Bytes(r.Pick9())), "bulk"
	case 6:
		return append([]byte(nil), Nil...), "null"
	case 7:
		n := r.Range(0, 5)
		var items [][]byte
		for i := 0; i < n; i++ {
			v, _ := Value(r, depth-1)
			items = append(items, v)
		}
		return Array(items...), "array"
	default:
		return []byte("*-1\r\n"), "nullarray"
	}
}
