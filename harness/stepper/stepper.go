// Package stepper drives the production event loop one event at a time (see core/verif_loop.go
// in /repo): client and backend connections are socketpair(2) ends; the harness holds the peer
// end of each, writes bytes into it and drains what the proxy wrote.
package stepper

import (
	"fmt"
	"sort"

	"golang.org/x/sys/unix"

	"rcproxy/core"
	"rcproxy/core/server"
)

type Peer struct {
	EOF     bool // the proxy has closed its end
	ProxyFd int  // the end registered in the event loop
	PeerFd  int  // the end the harness holds
	Addr    string
	Slave   bool
	Got     []byte // everything the proxy has written to this connection so far
	Seq     int
}

type Config struct {
	Limit       int
	Password    string
	TimeoutMs   int
	MaxConns    int
	DisableSlav bool
	RetryMs     int
	// Undialable lists backend addresses whose dial fails.
	Undialable map[string]bool
	// SmallSockBuf shrinks the send buffer of the proxy's end of every socketpair to the kernel
	// minimum, so that a peer that does not read makes the proxy's writes partial / EAGAIN.
	SmallSockBuf bool
	// WriteBufferCap overrides the static size of the outbound buffers (0: the production 64 KiB).
	WriteBufferCap int
}

type S struct {
	L        *core.VerifLoop
	Cfg      Config
	Clients  []*Peer
	Backends []*Peer // in dial order
	Dials    []string
	nextPort int
}

func New(cfg Config) (*S, error) {
	s := &S{Cfg: cfg, nextPort: 40000}
	server.VerifResetAuthCmd()
	h := server.NewListenServer(
		server.WithRedisPassword(cfg.Password),
		server.WithServerRetryTimeout(cfg.RetryMs),
		server.WithDisableRedisSlave(cfg.DisableSlav),
	)
	l, err := core.VerifNewLoop(h,
		core.WithRedisPasswd(cfg.Password),
		core.WithRedisRequestTimeout(cfg.TimeoutMs),
		core.WithRedisServerConnections(cfg.MaxConns),
		core.WithRedisMsgMaxLength(cfg.Limit),
	)
	if err != nil {
		return nil, err
	}
	s.L = l
	if cfg.WriteBufferCap > 0 {
		l.SetWriteBufferCap(cfg.WriteBufferCap)
	}
	return s, nil
}

func (s *S) Close() {
	s.L.Shutdown()
	for _, p := range s.Clients {
		unix.Close(p.PeerFd)
	}
	for _, p := range s.Backends {
		unix.Close(p.PeerFd)
	}
}

func (s *S) pair() (int, int, error) {
	fds, err := unix.Socketpair(unix.AF_UNIX, unix.SOCK_STREAM, 0)
	if err != nil {
		return 0, 0, err
	}
	unix.SetNonblock(fds[1], true)
	if s.Cfg.SmallSockBuf {
		unix.SetsockoptInt(fds[0], unix.SOL_SOCKET, unix.SO_SNDBUF, 1024)
	}
	return fds[0], fds[1], nil
}

// DrainSome reads at most max bytes the proxy has written to p (a slow reader).
func (s *S) DrainSome(p *Peer, max int) (n int) {
	buf := make([]byte, max)
	m, err := unix.Read(p.PeerFd, buf)
	if m > 0 {
		p.Got = append(p.Got, buf[:m]...)
		return m
	}
	if err != unix.EAGAIN && err != unix.EINTR {
		p.EOF = true
	}
	return 0
}

// AddPool registers a backend node; connections to it are created on demand by the proxy's own
// pool logic through the harness dialer.
func (s *S) AddPool(addr string, slave bool) {
	s.L.AddPool(addr, slave, s.Dial)
}

// Dial is installed as Pool.Dial: it hands the proxy one end of a fresh socketpair.
func (s *S) Dial(addr string, isSlave bool) (core.SConn, error) {
	s.Dials = append(s.Dials, addr)
	if s.Cfg.Undialable[addr] {
		return nil, fmt.Errorf("dial %s: refused", addr)
	}
	a, b, err := s.pair()
	if err != nil {
		return nil, err
	}
	s.nextPort++
	c, err := s.L.DialFD(a, "10.0.0.9", s.nextPort, isSlave)
	if err != nil {
		unix.Close(b)
		return nil, err
	}
	p := &Peer{ProxyFd: a, PeerFd: b, Addr: addr, Slave: isSlave, Seq: len(s.Backends)}
	s.Backends = append(s.Backends, p)
	s.Drain(p)
	return c, nil
}

// Connect opens a client connection from ip.
func (s *S) Connect(ip string) (*Peer, error) {
	a, b, err := s.pair()
	if err != nil {
		return nil, err
	}
	s.nextPort++
	p := &Peer{ProxyFd: a, PeerFd: b, Addr: ip, Seq: len(s.Clients)}
	s.Clients = append(s.Clients, p)
	if err := s.L.Accept(a, ip, s.nextPort); err != nil {
		return p, err
	}
	return p, nil
}

// Send writes bytes into the peer end and delivers one readable event per 64 KiB (the read
// buffer size), as epoll would.
func (s *S) Send(p *Peer, b []byte) error {
	for len(b) > 0 {
		n, err := unix.Write(p.PeerFd, b)
		if err == unix.EAGAIN || err == unix.EINTR {
			n = 0
		} else if err != nil {
			return err
		}
		b = b[n:]
		// level-triggered epoll would report the fd readable until it is drained: one read
		// event per 64 KiB (the proxy's read buffer), at least one
		events := n/65536 + 1
		for i := 0; i < events; i++ {
			if !s.L.IsOpen(p.ProxyFd) {
				return nil
			}
			// through the reactor's dispatcher (eventloop.callback), as epoll would deliver it
			if err := s.L.Event(p.ProxyFd, true, false); err != nil {
				return err
			}
		}
	}
	return nil
}

// SendCombined writes bytes to the proxy and delivers ONE epoll event that is readable and writable
// at once, through the reactor's dispatcher (eventloop.callback).
func (s *S) SendCombined(p *Peer, b []byte) error {
	if _, err := unix.Write(p.PeerFd, b); err != nil && err != unix.EAGAIN {
		return err
	}
	if !s.L.IsOpen(p.ProxyFd) {
		return nil
	}
	return s.L.Event(p.ProxyFd, true, true)
}

// SendNoEvent writes bytes without delivering the readable event.
func (s *S) SendNoEvent(p *Peer, b []byte) error {
	_, err := unix.Write(p.PeerFd, b)
	return err
}

// Drain collects whatever the proxy has written to p so far; it returns true if the proxy has
// closed the connection (EOF).
func (s *S) Drain(p *Peer) (eof bool) {
	buf := make([]byte, 1<<16)
	for {
		n, err := unix.Read(p.PeerFd, buf)
		if n > 0 {
			p.Got = append(p.Got, buf[:n]...)
			continue
		}
		if err == unix.EAGAIN || err == unix.EINTR {
			return p.EOF
		}
		p.EOF = true // n == 0 (EOF) or a hard error
		return true
	}
}

// RunTasks runs task rounds until the queue is empty (at most rounds rounds).
func (s *S) RunTasks(rounds int) int {
	total := 0
	for i := 0; i < rounds && s.L.TasksPending(); i++ {
		n, _ := s.L.RunTasks(256)
		total += n
	}
	return total
}

// BackendsOf returns the live connections to addr in dial order.
func (s *S) BackendsOf(addr string) []*Peer {
	var r []*Peer
	for _, p := range s.Backends {
		if p.Addr == addr {
			r = append(r, p)
		}
	}
	return r
}

func SortedKeys(m map[string]bool) []string {
	var ks []string
	for k := range m {
		ks = append(ks, k)
	}
	sort.Strings(ks)
	return ks
}
