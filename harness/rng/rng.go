// Package rng: one deterministic PRNG (splitmix64) from which every generated case derives.
// Case i of generator g under seed s uses New(s, g, i), so any disagreement replays exactly.
package rng

type R struct{ s uint64 }

func mix(x uint64) uint64 {
	x += 0x9e3779b97f4a7c15
	z := x
	z = (z ^ (z >> 30)) * 0xbf58476d1ce4e5b9
	z = (z ^ (z >> 27)) * 0x94d049bb133111eb
	return z ^ (z >> 31)
}

func New(seed uint64, gen string, idx int) *R {
	h := mix(seed)
	for i := 0; i < len(gen); i++ {
		h = mix(h ^ uint64(gen[i]))
	}
	h = mix(h ^ uint64(idx))
	return &R{h}
}

func (r *R) U64() uint64 {
	r.s += 0x9e3779b97f4a7c15
	z := r.s
	z = (z ^ (z >> 30)) * 0xbf58476d1ce4e5b9
	z = (z ^ (z >> 27)) * 0x94d049bb133111eb
	return z ^ (z >> 31)
}

// Intn returns a value in [0,n). n must be > 0.
func (r *R) Intn(n int) int { return int(r.U64() % uint64(n)) }

// Range returns a value in [lo,hi].
func (r *R) Range(lo, hi int) int { return lo + r.Intn(hi-lo+1) }

func (r *R) Bool() bool { return r.U64()&1 == 1 }

// Chance returns true with probability pct/100.
func (r *R) Chance(pct int) bool { return r.Intn(100) < pct }

func (r *R) Bytes(n int) []byte {
	b := make([]byte, n)
	for i := range b {
		b[i] = byte(r.U64())
	}
	return b
}

// Pick returns one of the given strings.
func (r *R) Pick(xs ...string) string { return xs[r.Intn(len(xs))] }

// Perm returns a random permutation of [0,n).
func (r *R) Perm(n int) []int {
	p := make([]int, n)
	for i := range p {
		p[i] = i
	}
	for i := n - 1; i > 0; i-- {
		j := r.Intn(i + 1)
		p[i], p[j] = p[j], p[i]
	}
	return p
}

// Pick9 returns a length that straddles a decimal digit-count boundary.
func (r *R) Pick9() int {
	xs := []int{9, 10, 11, 99, 100, 101, 999, 1000, 1001}
	return xs[r.Intn(len(xs))]
}
