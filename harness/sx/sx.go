// Package sx is the universal value format shared with the Coq model (Base/Sx.v):
//
//	number -?[0-9]+   bytes x<hex>   list ( v v ... )
package sx

import (
	"encoding/hex"
	"math/big"
	"strconv"
	"strings"
)

type V interface{ write(b *strings.Builder) }

type num struct{ s string }
type byt struct{ b []byte }
type lst struct{ l []V }

func N(n int64) V      { return num{strconv.FormatInt(n, 10)} }
func I(n int) V        { return num{strconv.Itoa(n)} }
func Big(n *big.Int) V { return num{n.String()} }
func B(b []byte) V     { c := make([]byte, len(b)); copy(c, b); return byt{c} }
func S(s string) V     { return byt{[]byte(s)} }
func L(vs ...V) V      { return lst{vs} }
func Bool(b bool) V {
	if b {
		return N(1)
	}
	return N(0)
}
func Strs(ss []string) V {
	vs := make([]V, len(ss))
	for i, s := range ss {
		vs[i] = S(s)
	}
	return L(vs...)
}
func Ints(xs []int) V {
	vs := make([]V, len(xs))
	for i, x := range xs {
		vs[i] = I(x)
	}
	return L(vs...)
}

func (n num) write(b *strings.Builder) { b.WriteString(n.s) }
func (x byt) write(b *strings.Builder) { b.WriteByte('x'); b.WriteString(hex.EncodeToString(x.b)) }
func (l lst) write(b *strings.Builder) {
	b.WriteByte('(')
	for i, v := range l.l {
		if i > 0 {
			b.WriteByte(' ')
		}
		v.write(b)
	}
	b.WriteByte(')')
}

func String(v V) string {
	var b strings.Builder
	v.write(&b)
	return b.String()
}

// Items returns the elements of a list value (nil for non-lists).
func Items(v V) []V {
	if l, ok := v.(lst); ok {
		return l.l
	}
	return nil
}
func Bytes(v V) []byte {
	if x, ok := v.(byt); ok {
		return x.b
	}
	return nil
}
func Int(v V) int64 {
	if x, ok := v.(num); ok {
		n, _ := strconv.ParseInt(x.s, 10, 64)
		return n
	}
	return 0
}

// Parse parses one value from s.
func Parse(s string) (V, error) {
	p := &parser{s: s}
	v, err := p.value()
	return v, err
}

type parser struct {
	s string
	i int
}

type perr string

func (e perr) Error() string { return string(e) }

func (p *parser) skip() {
	for p.i < len(p.s) && p.s[p.i] == ' ' {
		p.i++
	}
}

func (p *parser) value() (V, error) {
	p.skip()
	if p.i >= len(p.s) {
		return nil, perr("unexpected end")
	}
	switch p.s[p.i] {
	case '(':
		p.i++
		var items []V
		for {
			p.skip()
			if p.i >= len(p.s) {
				return nil, perr("unclosed list")
			}
			if p.s[p.i] == ')' {
				p.i++
				return lst{items}, nil
			}
			v, err := p.value()
			if err != nil {
				return nil, err
			}
			items = append(items, v)
		}
	case 'x':
		j := p.i + 1
		for j < len(p.s) && p.s[j] != ' ' && p.s[j] != ')' {
			j++
		}
		b, err := hex.DecodeString(p.s[p.i+1 : j])
		if err != nil {
			return nil, err
		}
		p.i = j
		return byt{b}, nil
	default:
		j := p.i
		for j < len(p.s) && p.s[j] != ' ' && p.s[j] != ')' {
			j++
		}
		t := p.s[p.i:j]
		p.i = j
		return num{t}, nil
	}
}
