//go:build verif

// topoprobe: adopts a long series of CLUSTER NODES texts that all list the same four healthy nodes
// (only slot boundaries move) through the production topology code and ticker, and reports the
// first round after which a node has lost its pool.
package main

import (
	"fmt"
	"os"
	"strconv"

	"rcproxy/core"
	"rcproxy/core/pkg/logging"
	"rcproxy/core/server"
)

func main() {
	logging.VerifSilence()
	rounds := 200000
	if len(os.Args) > 1 {
		rounds, _ = strconv.Atoi(os.Args[1])
	}
	h := server.NewListenServer()
	l, err := core.VerifNewLoop(h)
	if err != nil {
		panic(err)
	}
	defer l.Shutdown()
	nodes := []string{"10.1.0.1:7000", "10.1.0.2:7000", "10.1.0.3:7000", "10.1.0.4:7000"}
	for _, a := range nodes {
		l.AddPool(a, false, func(addr string, isSlave bool) (core.SConn, error) { return nil, fmt.Errorf("no dial") })
	}
	core.VerifSetInfo(func(addr string) (bool, bool, bool) { return false, true, false })
	for r := 0; r < rounds; r++ {
		cut := 1000 + r%3000
		text := ""
		bounds := []int{0, cut, 8192, 12288, 16384}
		for i, a := range nodes {
			flags := "master"
			if i == 0 {
				flags = "myself,master"
			}
			text += fmt.Sprintf("%040d %s@17000 %s - 0 1646637827924 5 connected %d-%d\n", i+1, a, flags, bounds[i], bounds[i+1]-1)
		}
		if err := core.VerifAdoptTopology(text); err != nil {
			fmt.Println("adopt error:", err)
			return
		}
		l.TickNoProbe()
		addrs, _ := core.VerifPools()
		if len(addrs) != len(nodes) {
			fmt.Printf("after adoption %d (all four nodes listed, healthy, masters): pools = %v\n", r, addrs)
			return
		}
	}
	fmt.Println("no pool lost in", rounds, "adoptions")
}
