// hmstress: churn a cornelk/hashmap the way the whitelist reload does and look for states in which
// iteration and lookup disagree.
package main

import (
	"fmt"
	"math/rand"
	"os"

	"github.com/cornelk/hashmap"
)

func main() {
	mode := os.Args[1]
	all := []string{"10.0.0.1", "10.0.0.2", "10.0.0.3", "127.0.0.1", "192.168.1.77", "10.0.0.10"}
	rand.Seed(1)
	var m hashmap.HashMap
	current := map[string]struct{}{}
	for round := 0; round < 200000; round++ {
		listed := map[string]struct{}{}
		for _, a := range all {
			if rand.Intn(100) < 45 {
				listed[a] = struct{}{}
				m.GetOrInsert(a, struct{}{})
			}
		}
		switch mode {
		case "iterdel":
			for kv := range m.Iter() {
				if _, keep := listed[kv.Key.(string)]; !keep {
					m.Del(kv.Key)
				}
			}
		case "collect":
			var drop []string
			for kv := range m.Iter() {
				if _, keep := listed[kv.Key.(string)]; !keep {
					drop = append(drop, kv.Key.(string))
				}
			}
			for _, k := range drop {
				m.Del(k)
			}
		}
		if mode == "ownkeys" {
			for k := range current {
				if _, keep := listed[k]; !keep {
					m.Del(k)
					delete(current, k)
				}
			}
			for k := range listed {
				current[k] = struct{}{}
			}
			for _, a := range all {
				_, has := m.Get(a)
				_, want := listed[a]
				if has != want {
					fmt.Printf("mode %s round %d: %s listed=%v Get=%v len=%d\n", mode, round, a, want, has, m.Len())
					return
				}
			}
			continue
		}
		seen := map[string]bool{}
		for kv := range m.Iter() {
			seen[kv.Key.(string)] = true
		}
		for _, a := range all {
			_, has := m.Get(a)
			_, want := listed[a]
			if has != want || seen[a] != want {
				fmt.Printf("mode %s round %d: %s listed=%v Get=%v Iter=%v len=%d\n", mode, round, a, want, has, seen[a], m.Len())
				return
			}
		}
	}
	fmt.Println("mode", mode, ": no disagreement in 200000 rounds")
}
