// implrun: runs the implementation (/repo's working tree, linked through `replace`) on
// generated inputs and writes, per suite, three line-aligned files:
//
//	cases.txt   "<entry> <input sx>"     (fed to the extracted model)
//	impl.out    "<output sx>"            (what the Go code did)
//	tags.txt    "<tag,tag,...>"          (shape tags for the input-distribution histogram)
package main

import (
	"bufio"
	"flag"
	"fmt"
	"os"
	"path/filepath"
	"sort"
	"strings"

	"verifharness/sx"
)

type Ctx struct {
	Seed  uint64
	Tier  string
	Only  string // "part:index": run only that history of a suite (replay of a crash of the process)
	dir   string
	cases *bufio.Writer
	impl  *bufio.Writer
	tags  *bufio.Writer
	n     int
}

func (c *Ctx) Quick() bool { return c.Tier != "thorough" }

// Begin is called before a history that drives the production loop starts: it records which one is
// running (a fault that kills the process - SIGSEGV, a fatal runtime error - cannot be caught; the
// check then reads this file and names the history), and tells whether the history is to be run.
func (c *Ctx) Begin(part string, i int) bool {
	id := fmt.Sprintf("%s:%d", part, i)
	if c.Only != "" && c.Only != id {
		return false
	}
	os.WriteFile(filepath.Join(c.dir, "progress.txt"), []byte(id+"\n"), 0o644)
	return true
}

// Safe runs the implementation for one case; a panic (the process would have died) becomes the
// observable (panic <message>) instead of killing the whole run.
func Safe(f func() sx.V) (out sx.V) {
	defer func() {
		if r := recover(); r != nil {
			msg := fmt.Sprint(r)
			if len(msg) > 200 {
				msg = msg[:200]
			}
			out = sx.L(sx.S("panic"), sx.S(msg))
		}
	}()
	return f()
}

// Emit records one case: the model entry to call, its input, and the implementation's output.
func (c *Ctx) Emit(entry string, in sx.V, out sx.V, tags ...string) {
	fmt.Fprintf(c.cases, "%s %s\n", entry, sx.String(in))
	fmt.Fprintf(c.impl, "%s\n", sx.String(out))
	fmt.Fprintf(c.tags, "%s\n", strings.Join(tags, ","))
	c.n++
}

var suites = map[string]func(*Ctx){}

func main() {
	suite := flag.String("suite", "", "suite name")
	seed := flag.Uint64("seed", 1, "PRNG seed")
	tier := flag.String("tier", "quick", "quick|thorough")
	dir := flag.String("dir", "", "output directory")
	replay := flag.String("replay", "", "replay a cases file: re-run the implementation on each '<entry> <input>' line")
	only := flag.String("only", "", "part:index - run only this history of the suite")
	list := flag.Bool("list", false, "list suites")
	flag.Parse()
	if *list {
		var names []string
		for k := range suites {
			names = append(names, k)
		}
		sort.Strings(names)
		fmt.Println(strings.Join(names, "\n"))
		return
	}
	if *dir == "" {
		fmt.Fprintln(os.Stderr, "implrun: -dir required")
		os.Exit(2)
	}
	if err := os.MkdirAll(*dir, 0o755); err != nil {
		fmt.Fprintln(os.Stderr, err)
		os.Exit(2)
	}
	open := func(name string) (*os.File, *bufio.Writer) {
		f, err := os.Create(filepath.Join(*dir, name))
		if err != nil {
			fmt.Fprintln(os.Stderr, err)
			os.Exit(2)
		}
		return f, bufio.NewWriterSize(f, 1<<20)
	}
	f1, w1 := open("cases.txt")
	f2, w2 := open("impl.out")
	f3, w3 := open("tags.txt")
	ctx := &Ctx{Seed: *seed, Tier: *tier, Only: *only, dir: *dir, cases: w1, impl: w2, tags: w3}
	if *replay != "" {
		replayFile(ctx, *replay)
	} else {
		fn, ok := suites[*suite]
		if !ok {
			fmt.Fprintf(os.Stderr, "implrun: unknown suite %q\n", *suite)
			os.Exit(2)
		}
		fn(ctx)
	}
	w1.Flush()
	w2.Flush()
	w3.Flush()
	f1.Close()
	f2.Close()
	f3.Close()
	fmt.Fprintf(os.Stderr, "implrun: suite=%s cases=%d\n", *suite, ctx.n)
}

// replayers: entry name -> function re-running the implementation on a given input
var replayers = map[string]func(in sx.V) sx.V{}

func replayFile(ctx *Ctx, path string) {
	f, err := os.Open(path)
	if err != nil {
		fmt.Fprintln(os.Stderr, err)
		os.Exit(2)
	}
	defer f.Close()
	sc := bufio.NewScanner(f)
	sc.Buffer(make([]byte, 1<<20), 1<<28)
	for sc.Scan() {
		line := sc.Text()
		if line == "" || line[0] == '#' {
			continue
		}
		sp := strings.IndexByte(line, ' ')
		if sp < 0 {
			continue
		}
		entry := line[:sp]
		in, err := sx.Parse(line[sp+1:])
		if err != nil {
			fmt.Fprintf(os.Stderr, "implrun: bad replay line: %v\n", err)
			os.Exit(2)
		}
		if fio, ok := replayersIO[entry]; ok {
			in2, out := fio(in)
			ctx.Emit(entry, in2, out, "replay")
			continue
		}
		fn, ok := replayers[entry]
		if !ok {
			fmt.Fprintf(os.Stderr, "implrun: no replayer for entry %q\n", entry)
			os.Exit(2)
		}
		ctx.Emit(entry, in, fn(in), "replay")
	}
}
