package main

import (
	"rcproxy/core"

	"verifharness/reqgen"
	"verifharness/resp"
	"verifharness/rng"
	"verifharness/sx"
)

func init() {
	suites["sdecode"] = suiteSDecode
	replayers["sdecode"] = func(in sx.V) sx.V { return runSDecode(sx.Bytes(in)) }
	replayers["initdecode"] = func(in sx.V) sx.V {
		it := sx.Items(in)
		return runInitDecode(int8(sx.Int(it[0])), sx.Bytes(it[1]))
	}
}

func runSDecode(b []byte) sx.V {
	d := core.VerifDecodeServer(1<<30, b)
	if d.Err == "nil" {
		return sx.L(sx.S("nil"), sx.N(int64(d.Type)), sx.I(d.Consumed))
	}
	return sx.L(sx.S(d.Err))
}

func runInitDecode(step int8, b []byte) sx.V {
	d := core.VerifInitDecode(step, b)
	st := 0
	if d.Status == core.Initialized {
		st = 1
	}
	return sx.L(sx.S(d.Err), sx.I(d.Consumed), sx.I(st))
}

func suiteSDecode(c *Ctx) {
	emit := func(b []byte, tags ...string) {
		c.Emit("sdecode", sx.B(b), Safe(func() sx.V { return runSDecode(b) }), tags...)
	}
	for _, s := range []string{"+OK\r\n", "+PONG\r\n", "+OKx\r\n", "-MOVED 1 a:1\r\n", "-ASK 1 a:1\r\n", "-MOVEDX\r\n",
		"-NOAUTH Authentication required.\r\n", "-ERR invalid password\r\n", "-ERR Client sent AUTH, but no password is set\r\n",
		"-ERR AUTH <password> called without any password configured for the default user. Are you sure your configuration is correct?\r\n",
		"$-1\r\n", "*-1\r\n", "*0\r\n", "$0\r\n\r\n", ":1\r\n", "*2\r\n$1\r\na\r\n*1\r\n:1\r\n", "$3\r\nab\r\n", "$1\r\nabc", "\r\n", "\n", "x\r\n",
		"$01\r\na\r\n", "*01\r\n:1\r\n", "$-2\r\n", "*-2\r\n", "$\r\n", "*\r\n", "+OK\n", "*1\r\n", "*1\r\n$2\r\na", "$1\r\n", "$1\r\na"} {
		emit([]byte(s), "corpus")
	}
	n := 1500
	if !c.Quick() {
		n = 40000
	}
	for i := 0; i < n; i++ {
		r := rng.New(c.Seed, "sdecode", i)
		v, kind := resp.Value(r, 4)
		switch r.Intn(6) {
		case 0, 1:
			emit(v, "value", kind)
		case 2:
			w, _ := resp.Value(r, 2)
			emit(append(append([]byte(nil), v...), w...), "value-pipelined", kind)
		case 3:
			emit(v[:r.Intn(len(v)+1)], "value-prefix", kind)
		default:
			m, how := reqgen.Mutate(r, v)
			emit(m, "mutated", how)
		}
	}
	// handshake decoder
	ok := "+OK\r\n"
	for step := int8(-1); step <= 3; step++ {
		for _, s := range []string{"", "+", "+O", "+OK", "+OK\r", ok, ok + "+", ok + "+OK\r", ok + ok, ok + ok + "+OK\r\n", ok + "$1\r\na\r\n",
			"-ERR invalid password\r\n", "-NOAUTH x\r\n", ok + "-ERR x\r\n", "$1\r\na\r\n", ":1\r\n", "+OKK\r\n", "+PONG\r\n", "*1\r\n"} {
			c.Emit("initdecode", sx.L(sx.I(int(step)), sx.S(s)), runInitDecode(step, []byte(s)), "handshake")
		}
	}
}
