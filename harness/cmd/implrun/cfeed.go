package main

import (
	"rcproxy/core"
	"rcproxy/core/codec"

	"verifharness/reqgen"
	"verifharness/rng"
	"verifharness/stepper"
	"verifharness/sx"
)

// cfeed: the production read path (unix.Read -> eventloop.cread -> conn.Peek/Discard ->
// CRespCodec.Decode -> leftover into the inbound ring buffer) fed with a client byte stream cut
// into chunks, against Model/ClientFeed.feed_all.  A recording EventHandler stands in for the
// request handler so that the observable is exactly what the loop extracted.

type recHandler struct {
	core.BuiltinEventEngine
	msgs []sx.V
}

func (h *recHandler) OnCReact(m *core.Msg, c core.CConn) ([]byte, core.Action) {
	d := core.VerifDescribeMsg(m)
	h.msgs = append(h.msgs, msgSx(d))
	if m.Type == codec.ReqQuit {
		return []byte("+OK\r\n"), core.Close
	}
	// returning a reply makes cread recycle the message, exactly as for locally answered requests
	return []byte{}, core.None
}

func init() {
	suites["cfeed"] = suiteCFeed
	replayers["cfeed"] = func(in sx.V) sx.V {
		it := sx.Items(in)
		var chunks [][]byte
		for _, c := range sx.Items(it[1]) {
			chunks = append(chunks, sx.Bytes(c))
		}
		return Safe(func() sx.V { return runCFeed(int(sx.Int(it[0])), chunks) })
	}
}

func runCFeed(limit int, chunks [][]byte) sx.V {
	h := &recHandler{}
	l, err := core.VerifNewLoop(h, core.WithRedisMsgMaxLength(limit))
	if err != nil {
		return sx.L(sx.S("setup-error"), sx.S(err.Error()))
	}
	st := &stepper.S{L: l}
	p, err := st.Connect("127.0.0.1")
	if err != nil {
		return sx.L(sx.S("setup-error"), sx.S(err.Error()))
	}
	for _, ch := range chunks {
		if len(ch) == 0 || !l.IsOpen(p.ProxyFd) {
			continue
		}
		if err := st.Send(p, ch); err != nil {
			break
		}
	}
	end := "closed"
	left := 0
	if l.IsOpen(p.ProxyFd) {
		end = "wait"
		left = l.Snapshot()[p.ProxyFd].Inbound
	}
	st.Close()
	return sx.L(sx.L(h.msgs...), sx.S(end), sx.I(left))
}

func suiteCFeed(c *Ctx) {
	emit := func(limit int, chunks [][]byte, tags ...string) {
		var cs []sx.V
		for _, ch := range chunks {
			cs = append(cs, sx.B(ch))
		}
		c.Emit("cfeed", sx.L(sx.I(limit), sx.L(cs...)), Safe(func() sx.V { return runCFeed(limit, chunks) }), tags...)
	}
	big := 6 * 1024 * 1024
	n := 250
	if !c.Quick() {
		n = 6000
	}
	for i := 0; i < n; i++ {
		r := rng.New(c.Seed, "cfeed", i)
		var stream []byte
		k := r.Range(1, 8)
		kind := "wf"
		for j := 0; j < k; j++ {
			enc := reqgen.Enc(reqgen.Valid(r, []string{"a", "b"}))
			if r.Chance(6) {
				enc, _ = reqgen.Mutate(r, enc)
				kind = "malformed"
			}
			stream = append(stream, enc...)
		}
		if r.Chance(15) {
			stream = stream[:r.Intn(len(stream)+1)]
			kind += "-truncated"
		}
		limit := big
		if r.Chance(20) {
			limit = r.Range(20, 80)
		}
		switch r.Intn(4) {
		case 0: // one chunk
			emit(limit, [][]byte{stream}, kind, "one-chunk")
		case 1: // one byte at a time
			if len(stream) > 400 {
				stream = stream[:400]
			}
			var cs [][]byte
			for _, b := range stream {
				cs = append(cs, []byte{b})
			}
			emit(limit, cs, kind, "bytewise")
		case 2: // two cuts
			if len(stream) < 2 {
				emit(limit, [][]byte{stream}, kind, "one-chunk")
				continue
			}
			a := r.Intn(len(stream))
			b := a + r.Intn(len(stream)-a)
			emit(limit, [][]byte{stream[:a], stream[a:b], stream[b:]}, kind, "two-cuts")
		default: // random chunking
			var cs [][]byte
			rest := stream
			for len(rest) > 0 {
				m := r.Range(1, 1+len(rest)/2+3)
				if m > len(rest) {
					m = len(rest)
				}
				cs = append(cs, rest[:m])
				rest = rest[m:]
			}
			emit(limit, cs, kind, "random-chunks")
		}
	}
	// exhaustive two-cut segmentation of a short pipeline
	r := rng.New(c.Seed, "cfeed-exh", 0)
	var stream []byte
	for j := 0; j < 3; j++ {
		stream = append(stream, reqgen.Enc(reqgen.ValidFor(r, []string{"get", "mget", "set"}[j], []string{"t"}))...)
	}
	step := 3
	if !c.Quick() {
		step = 1
	}
	if len(stream) > 150 {
		stream = stream[:150]
	}
	for a := 0; a <= len(stream); a += step {
		for b := a; b <= len(stream); b += step {
			emit(big, [][]byte{stream[:a], stream[a:b], stream[b:]}, "wf", "exhaustive-two-cuts")
		}
	}
	// a request larger than the 64 KiB read buffer, cut at buffer-size boundaries by the kernel
	large := reqgen.Enc([][]byte{[]byte("set"), []byte("k"), make([]byte, 200000)})
	emit(big, [][]byte{large, reqgen.Enc([][]byte{[]byte("get"), []byte("k")})}, "wf", "large")
	emit(big, [][]byte{large[:70000], large[70000:]}, "wf", "large")
}
