package main

import (
	"fmt"
	"math/rand"
	"sort"
	"strconv"
	"strings"
	"time"

	"golang.org/x/sys/unix"

	"rcproxy/core"
	"rcproxy/core/pkg/hashkit"

	"verifharness/resp"
	"verifharness/rng"
	"verifharness/stepper"
	"verifharness/sx"
)

// loop: histories of events through the production event loop (socketpairs, real poller, real
// task queue), against Model/Proxy.v.  The harness plays the clients and the backend nodes.

type world struct {
	s        *stepper.S
	cfg      worldCfg
	answered map[*stepper.Peer]int // requests already answered per backend connection
	shaken   map[*stepper.Peer]bool
	closedC  map[int]bool
	closedS  map[*stepper.Peer]bool
	reqSeq   map[int]int
	obs      []sx.V
	events   []sx.V
	tagset   map[string]bool
	wcap     int                      // pressure histories: the static size of the outbound buffers (0 = production)
	held     map[*stepper.Peer][]byte // second halves of split replies not yet delivered
	choices  bool                     // replica reads enabled: record which node each queued fragment was routed to
	dead     bool                     // the loop returned ErrEngineShutdown: the process would have ended here
	undial0  map[string]bool          // which nodes refused connections when the history began
}

type worldCfg struct {
	limit    int
	password string
	timeout  bool
	maxConns int
	nodes    []string // addresses
	undial   map[string]bool
	ranges   [][3]interface{} // lo, hi, addr
	single   bool             // clients send single-key requests only (layouts with two connections per node)
	hole     bool             // the layout leaves a slot unowned
}

const timeoutMs = 15

func newWorld(cfg worldCfg) (*world, error) {
	tm := 0
	if cfg.timeout {
		tm = timeoutMs
	}
	s, err := stepper.New(stepper.Config{Limit: cfg.limit, Password: cfg.password, TimeoutMs: tm, MaxConns: cfg.maxConns,
		DisableSlav: true, Undialable: cfg.undial})
	if err != nil {
		return nil, err
	}
	return newWorldOn(s, cfg)
}

// lastWorld is the world of the history being run: if the production loop never returns from an
// event, the watchdog of the suite reports the events recorded so far
var lastWorld *world

// guarded runs one history; a history that does not finish within the deadline means that the
// single event loop is stuck inside an event (in production: the whole proxy hangs).  The stuck
// goroutine cannot be stopped, so the suite ends after reporting it.
func guarded(f func() (sx.V, sx.V, []string)) (in sx.V, out sx.V, tags []string) {
	if loopWedged {
		return nil, nil, nil
	}
	type res struct {
		in, out sx.V
		tags    []string
	}
	ch := make(chan res, 1)
	lastWorld = nil
	go func() {
		defer func() {
			if r := recover(); r != nil {
				msg := fmt.Sprint(r)
				if len(msg) > 200 {
					msg = msg[:200]
				}
				var in sx.V = sx.L()
				if lastWorld != nil {
					in = lastWorld.inputSx()
				}
				ch <- res{in, sx.L(sx.S("panic"), sx.S(msg)), []string{"panic"}}
			}
		}()
		a, b, c := f()
		ch <- res{a, b, c}
	}()
	select {
	case r := <-ch:
		return r.in, r.out, r.tags
	case <-time.After(60 * time.Second):
		loopWedged = true
		var in sx.V = sx.L()
		if lastWorld != nil {
			in = lastWorld.inputSx()
		}
		return in, sx.L(sx.L(sx.S("event-loop-stuck"))), []string{"stuck"}
	}
}

func newWorldOn(s *stepper.S, cfg worldCfg) (*world, error) {
	for _, a := range cfg.nodes {
		s.AddPool(a, false)
	}
	var sets []core.VerifReplicaset
	for _, r := range cfg.ranges {
		sets = append(sets, core.VerifReplicaset{Master: r[2].(string), Ranges: [][2]int32{{int32(r[0].(int)), int32(r[1].(int))}}})
	}
	s.L.SetSlots(sets)
	w := &world{s: s, cfg: cfg, answered: map[*stepper.Peer]int{}, shaken: map[*stepper.Peer]bool{}, closedC: map[int]bool{}, closedS: map[*stepper.Peer]bool{},
		reqSeq: map[int]int{}, tagset: map[string]bool{}, undial0: map[string]bool{}}
	for a, u := range cfg.undial {
		w.undial0[a] = u
	}
	lastWorld = w
	return w, nil
}

func (w *world) backendName(p *stepper.Peer) (string, int) {
	k := 0
	for _, b := range w.s.Backends {
		if b == p {
			return p.Addr, k
		}
		if b.Addr == p.Addr {
			k++
		}
	}
	return p.Addr, -1
}

func (w *world) observe() sx.V {
	snap := w.s.L.Snapshot()
	var cs, ss []sx.V
	for i, c := range w.s.Clients {
		if w.s.Drain(c) {
			w.closedC[i] = true
		}
		st, ok := snap[c.ProxyFd]
		open := ok && st.Opened && !w.closedC[i]
		q := 0
		headDone := false
		if open {
			q = st.InMsgs
			headDone = len(st.MsgDone) > 0 && st.MsgDone[0]
		}
		cs = append(cs, sx.L(sx.I(i), sx.Bool(open), sx.I(q), sx.B(c.Got), sx.Bool(headDone)))
	}
	type named struct {
		addr string
		k    int
		p    *stepper.Peer
	}
	var ns []named
	for _, b := range w.s.Backends {
		a, k := w.backendName(b)
		ns = append(ns, named{a, k, b})
	}
	sort.SliceStable(ns, func(i, j int) bool {
		if ns[i].addr != ns[j].addr {
			return ns[i].addr < ns[j].addr
		}
		return ns[i].k < ns[j].k
	})
	for _, n := range ns {
		if w.s.Drain(n.p) {
			w.closedS[n.p] = true
		}
		st, ok := snap[n.p.ProxyFd]
		open := ok && st.Opened && !w.closedS[n.p]
		inq, outq := 0, 0
		if open {
			inq, outq = st.InFrags, st.OutFrags
		}
		ss = append(ss, sx.L(sx.S(n.addr), sx.I(n.k), sx.Bool(open), sx.I(inq), sx.I(outq), sx.B(n.p.Got)))
	}
	return sx.L(sx.L(cs...), sx.L(ss...))
}

func (w *world) record(ev sx.V) {
	if w.dead {
		return
	}
	w.events = append(w.events, ev)
	w.obs = append(w.obs, w.observe())
}

// pending requests of a backend connection: parsed from what it received (after the handshake)
func (w *world) received(p *stepper.Peer) [][][]byte {
	w.s.Drain(p)
	reqs, _, _ := resp.ParseRequests(p.Got)
	// drop the handshake commands
	var out [][][]byte
	for _, r := range reqs {
		n := strings.ToLower(string(r[0]))
		if n == "auth" || n == "readonly" {
			continue
		}
		out = append(out, r)
	}
	return out
}

func slotOfReq(a [][]byte) int32 {
	if len(a) < 2 {
		return 0
	}
	n := strings.ToLower(string(a[0]))
	if n == "cluster" {
		return 0
	}
	if (n == "eval" || n == "evalsha") && len(a) > 3 {
		return hashkit.Hash(string(a[3]))
	}
	return hashkit.Hash(string(a[1]))
}

// ---- the events ----
func (w *world) connect(ip string) {
	i := len(w.s.Clients)
	p, _ := w.s.Connect(ip)
	adm := w.s.L.IsOpen(p.ProxyFd)
	w.record(sx.L(sx.I(0), sx.I(i), sx.Bool(adm)))
}

func (w *world) clientData(c int, b []byte) {
	p := w.s.Clients[c]
	if w.closedC[c] || p.EOF || !w.s.L.IsOpen(p.ProxyFd) {
		return
	}
	var pre sx.V
	if w.choices {
		pre = w.observe()
	}
	w.s.Send(p, b)
	if w.choices {
		// replica reads: route draws a random number per fragment; what it chose shows in the write
		// queues before any write round runs.  The model is told the choices (it checks that route
		// could have made them) in an event of its own, ahead of the bytes.
		var ch []sx.V
		for _, bk := range w.s.Backends {
			if w.closedS[bk] || bk.EOF {
				continue // its descriptor number may belong to a newer connection by now
			}
			for _, q := range w.s.L.OutFragReqs(bk.ProxyFd) {
				ch = append(ch, sx.L(sx.B(q), sx.S(bk.Addr)))
			}
		}
		w.events = append(w.events, sx.L(sx.I(10), sx.L(ch...)))
		w.obs = append(w.obs, pre)
	}
	// how many connections have been dialled to each node so far (the order in which a request that
	// fails to route had reached its fragments is Go map order)
	counts := map[string]int{}
	for _, bk := range w.s.Backends {
		counts[bk.Addr]++
	}
	var totals []sx.V
	for _, a := range w.cfg.nodes {
		if counts[a] > 0 {
			totals = append(totals, sx.L(sx.S(a), sx.I(counts[a])))
		}
	}
	w.record(sx.L(sx.I(1), sx.I(c), sx.B(b), sx.L(totals...)))
}

// handshakes answers AUTH / READONLY of freshly dialled connections (a real node does so at once)
func (w *world) handshakes(r *rng.R) {
	for _, p := range w.s.Backends {
		if w.shaken[p] {
			continue
		}
		w.shaken[p] = true
		w.s.Drain(p)
		reqs, _, _ := resp.ParseRequests(p.Got)
		n := 0
		for _, q := range reqs {
			c := strings.ToLower(string(q[0]))
			if c == "auth" || c == "readonly" {
				n++
			}
		}
		if n == 0 {
			continue
		}
		out := []byte(strings.Repeat("+OK\r\n", n))
		if r != nil && r.Chance(30) {
			cut := r.Range(1, len(out)-1)
			w.backendData(p, out[:cut])
			w.backendData(p, out[cut:])
			w.tagset["split-handshake"] = true
		} else {
			w.backendData(p, out)
		}
	}
}

func (w *world) runTasks() {
	ev := w.runTasksEvent()
	w.record(ev)
}

// runTasksEvent runs the queued tasks and returns the event (2 orders) without recording it
func (w *world) runTasksEvent() sx.V {
	before := map[*stepper.Peer]int{}
	for _, b := range w.s.Backends {
		before[b] = len(w.received(b))
	}
	w.s.RunTasks(40)
	var orders []sx.V
	for _, b := range w.s.Backends {
		rs := w.received(b)
		if len(rs) > before[b] {
			var slots []sx.V
			for _, r := range rs[before[b]:] {
				slots = append(slots, sx.N(int64(slotOfReq(r))))
			}
			a, k := w.backendName(b)
			orders = append(orders, sx.L(sx.S(a), sx.I(k), sx.L(slots...)))
		}
	}
	return sx.L(sx.I(2), sx.L(orders...))
}

// probe: one ticker round.  OnTicker picks a node at random, takes a connection from its pool
// (dialling if need be) and schedules the CLUSTER NODES probe on it.  Which node it was shows in
// the dial record or in who receives the probe once the tasks have run.
func (w *world) probe(seed int64) {
	clusterCount := func(b *stepper.Peer) int {
		n := 0
		for _, r := range w.received(b) {
			if strings.ToLower(string(r[0])) == "cluster" {
				n++
			}
		}
		return n
	}
	pre := map[*stepper.Peer]int{}
	for _, b := range w.s.Backends {
		pre[b] = clusterCount(b)
	}
	dials0 := len(w.s.Dials)
	rand.Seed(seed)
	w.s.L.Tick()
	obs1 := w.observe()
	ev2 := w.runTasksEvent()
	obs2 := w.observe()
	addr := ""
	if len(w.s.Dials) > dials0 {
		addr = w.s.Dials[len(w.s.Dials)-1]
	} else {
		for _, b := range w.s.Backends {
			if clusterCount(b) > pre[b] {
				addr = b.Addr
			}
		}
	}
	if addr == "" {
		// nothing observable happened (the chosen pool gave no connection and did not dial)
		w.events = append(w.events, ev2)
		w.obs = append(w.obs, obs2)
		return
	}
	w.events = append(w.events, sx.L(sx.I(7), sx.S(addr)), ev2)
	w.obs = append(w.obs, obs1, obs2)
	w.tagset["probe"] = true
}

func (w *world) backendData(p *stepper.Peer, b []byte) {
	if w.closedS[p] || p.EOF || !w.s.L.IsOpen(p.ProxyFd) {
		return
	}
	a, k := w.backendName(p)
	if w.dead {
		return
	}
	if err := w.s.Send(p, b); err != nil && strings.Contains(err.Error(), "shutdown") {
		// Polling would return this error and the process would end: the history ends here
		w.events = append(w.events, sx.L(sx.I(3), sx.S(a), sx.I(k), sx.B(b)))
		w.obs = append(w.obs, sx.L(sx.S("shutdown")))
		w.dead = true
		w.tagset["proxy-shut-down"] = true
		return
	}
	w.record(sx.L(sx.I(3), sx.S(a), sx.I(k), sx.B(b)))
}

func (w *world) closeClient(c int) {
	p := w.s.Clients[c]
	if w.closedC[c] || p.EOF || !w.s.L.IsOpen(p.ProxyFd) {
		return
	}
	// the peer hangs up: the proxy's read returns 0
	unix.Shutdown(p.PeerFd, unix.SHUT_WR)
	w.s.L.Event(p.ProxyFd, true, false)
	w.closedC[c] = true
	w.record(sx.L(sx.I(4), sx.I(c)))
}

func (w *world) closeBackend(p *stepper.Peer) {
	if w.closedS[p] || p.EOF || !w.s.L.IsOpen(p.ProxyFd) {
		return
	}
	a, k := w.backendName(p)
	unix.Shutdown(p.PeerFd, unix.SHUT_WR)
	w.s.L.Event(p.ProxyFd, true, false)
	w.closedS[p] = true
	w.record(sx.L(sx.I(5), sx.S(a), sx.I(k)))
}

func (w *world) timeoutScan() {
	time.Sleep((timeoutMs + 6) * time.Millisecond)
	w.s.L.MsgTimeout()
	w.record(sx.L(sx.I(6)))
}

// ---- the fake backend: the reply is a pure function of the fragment and the answering node ----
func (w *world) replyFor(node string, a [][]byte) []byte {
	cmd := strings.ToLower(string(a[0]))
	key := ""
	if len(a) > 1 {
		key = string(a[1])
	}
	other := w.cfg.nodes[(indexOf(w.cfg.nodes, node)+1)%len(w.cfg.nodes)]
	switch {
	case cmd == "cluster":
		return []byte("$0\r\n\r\n")
	case cmd == "asking":
		return []byte("+OK\r\n")
	case len(a) > 1 && anyKeyContains(a[1:], "noauth"):
		// what a script can make a node say (redis.error_reply), or a node that wants a password the
		// proxy was not given: an error like any other for the client that asked
		return []byte("-NOAUTH Authentication required.\r\n")
	case strings.Contains(key, "err"):
		return []byte("-ERR bad " + strings.ReplaceAll(key, "\r\n", "") + "\r\n")
	case cmd == "mget" && anyKeyContains(a[1:], "err"):
		// the session oracle expects an MGET to fail when ANY of its keys carries the marker; two
		// keys with the same hash tag travel in one fragment, so look at all keys of the fragment
		return []byte("-ERR bad fragment\r\n")
	case strings.Contains(key, "movx"):
		return []byte("-MOVED " + strconv.Itoa(int(hashkit.Hash(key))) + " 9.9.9.9:1\r\n")
	case strings.Contains(key, "mov") && node == w.cfg.nodes[0]:
		return []byte("-MOVED " + strconv.Itoa(int(hashkit.Hash(key))) + " " + other + "\r\n")
	case strings.Contains(key, "ask") && node == w.cfg.nodes[0]:
		return []byte("-ASK " + strconv.Itoa(int(hashkit.Hash(key))) + " " + other + "\r\n")
	}
	switch cmd {
	case "mget":
		var items [][]byte
		for _, k := range a[1:] {
			if strings.Contains(string(k), "nil") {
				items = append(items, resp.Nil)
			} else {
				items = append(items, fakeValue(string(k)))
			}
		}
		return resp.Array(items...)
	case "del":
		return resp.Int(len(a) - 1)
	case "mset", "set":
		return []byte("+OK\r\n")
	case "get":
		return fakeValue(key)
	default:
		return resp.Bulk([]byte("R(" + cmd + "," + key + ")"))
	}
}

// the value a fake node holds for a key: V(<key>), 30 bytes longer for a key with the marker "big"
// (two such values in one MGET exceed a small reply limit although each fragment stays below it)
func fakeValue(key string) []byte {
	v := "V(" + key + ")"
	if strings.Contains(key, "big") {
		v += strings.Repeat("x", 30)
	}
	return resp.Bulk([]byte(v))
}

func anyKeyContains(keys [][]byte, sub string) bool {
	for _, k := range keys {
		if strings.Contains(string(k), sub) {
			return true
		}
	}
	return false
}

func indexOf(l []string, x string) int {
	for i, y := range l {
		if y == x {
			return i
		}
	}
	return 0
}

// answer up to n pending requests of backend p, optionally splitting the bytes into two reads; the
// second part is sometimes held back and delivered with the node's next answer, so that other events
// (requests routed to this node, task rounds, scans) fall between the two halves of one reply
func (w *world) answer(r *rng.R, p *stepper.Peer, n int) {
	rs := w.received(p)
	if w.held == nil {
		w.held = map[*stepper.Peer][]byte{}
	}
	out := append([]byte{}, w.held[p]...)
	delete(w.held, p)
	for i := 0; i < n && w.answered[p] < len(rs); i++ {
		out = append(out, w.replyFor(p.Addr, rs[w.answered[p]])...)
		w.answered[p]++
	}
	if len(out) == 0 {
		return
	}
	if r != nil && r.Chance(20) && len(out) > 2 {
		cut := r.Range(1, len(out)-1)
		w.backendData(p, out[:cut])
		if r.Chance(50) {
			w.held[p] = out[cut:]
			w.tagset["split-reply-held"] = true
		} else {
			w.backendData(p, out[cut:])
		}
		w.tagset["split-reply"] = true
	} else {
		w.backendData(p, out)
	}
}

// ---- request generation: every key carries the client and request number ----
func (w *world) nextRequest(r *rng.R, c int) []byte {
	w.reqSeq[c]++
	id := fmt.Sprintf("c%dr%d", c, w.reqSeq[c])
	key := func(sfx string) []byte {
		switch r.Intn(9) {
		case 0:
			return []byte("{h1}" + id + sfx)
		case 1:
			return []byte("{h2}" + id + sfx)
		case 2:
			return []byte("{h3}" + id + sfx)
		default:
			return []byte(id + sfx)
		}
	}
	bulk := func(args ...[]byte) []byte {
		out := []byte("*" + strconv.Itoa(len(args)) + "\r\n")
		for _, a := range args {
			out = append(out, resp.Bulk(a)...)
		}
		return out
	}
	kind := r.Intn(28)
	if w.cfg.single {
		// two connections per node: which connection a fragment of a split request takes depends on Go
		// map iteration order, so these layouts keep to single-key requests
		switch kind {
		case 3, 4, 5, 6, 7, 13, 22, 23:
			kind = 14
		}
	}
	switch kind {
	case 27: // a request whose answer is an authentication error of the node (a script can produce one at will)
		w.tagset["backend-auth-error"] = true
		switch r.Intn(5) {
		case 0, 1:
			return bulk([]byte(r.Pick("EVAL", "eval")), []byte("return redis.error_reply('NOAUTH Authentication required.')"), []byte("1"), key("noauth"))
		case 2:
			if !w.cfg.single {
				return bulk([]byte("del"), key("a"), key("bnoauth"), key("c"))
			}
		case 3:
			if !w.cfg.single {
				return bulk([]byte(r.Pick("mget", "mset")), key("anoauth"), key("b"))
			}
		}
		return bulk([]byte("get"), key("noauth"))
	case 24: // AUTH from a client: right password, wrong password, or no password configured
		w.tagset["local-reply"] = true
		w.tagset["auth"] = true
		return bulk([]byte(r.Pick("AUTH", "auth")), []byte(r.Pick("pw", "pw", "wrong", "")))
	case 25: // a script: routed by its first key (third argument), forwarded verbatim
		w.tagset["eval"] = true
		return bulk([]byte(r.Pick("EVAL", "eval", "evalsha")), []byte("return 1"), []byte("1"), key(""))
	case 26: // other single-key commands of the table, upper/lower case
		return bulk([]byte(r.Pick("INCR", "ttl", "LLEN", "hgetall", "Exists", "type")), key(""))
	case 22: // a split request one of whose fragments is redirected
		w.tagset["split-redirect"] = true
		mark := r.Pick("mov", "ask", "mov", "movx")
		switch r.Intn(3) {
		case 0:
			return bulk([]byte("mget"), key("a"), key("b"+mark), key("c"))
		case 1:
			return bulk([]byte("del"), key("a"+mark), key("b"), key("c"))
		default:
			return bulk([]byte("mset"), key("a"), []byte("1"), key("b"+mark), []byte("2"), key("c"), []byte("3"))
		}
	case 23:
		w.tagset["split-redirect"] = true
		return bulk([]byte("mget"), key("amov"), key("bmov"))
	case 0:
		w.tagset["local-reply"] = true
		return bulk([]byte("PING"))
	case 1:
		w.tagset["local-reply"] = true
		return bulk([]byte("nosuchcmd"), key(""))
	case 2:
		w.tagset["local-reply"] = true
		return bulk([]byte("get")) // wrong arity
	case 3, 4, 5:
		n := r.Range(2, 5)
		args := [][]byte{[]byte("MGET")}
		for i := 0; i < n; i++ {
			sfx := string(rune('a' + i))
			if r.Chance(10) {
				sfx += "nil"
			} else if r.Chance(15) {
				sfx += "big"
				w.tagset["big-value"] = true
			}
			args = append(args, key(sfx))
		}
		w.tagset["split"] = true
		return bulk(args...)
	case 6:
		w.tagset["split"] = true
		return bulk([]byte("del"), key("a"), key("b"), key("c"))
	case 7:
		w.tagset["split"] = true
		return bulk([]byte("mset"), key("a"), []byte("1"), key("b"), []byte("2"))
	case 8:
		w.tagset["backend-error"] = true
		return bulk([]byte("get"), key("err"))
	case 9:
		if r.Chance(35) {
			w.tagset["moved"] = true
			return bulk([]byte("get"), key("mov"))
		}
		if r.Chance(30) {
			w.tagset["ask"] = true
			return bulk([]byte("get"), key("ask"))
		}
		if w.cfg.single {
			return bulk([]byte("get"), key(""))
		}
		w.tagset["split"] = true
		return bulk([]byte("mget"), key("a"), key("berr"), key("c"))
	case 10:
		if r.Chance(30) {
			w.tagset["moved-unknown"] = true
			return bulk([]byte("get"), key("movx"))
		}
		return bulk([]byte("set"), key(""), []byte("v"))
	case 11:
		if r.Chance(25) {
			w.tagset["quit"] = true
			return bulk([]byte("quit"))
		}
		return bulk([]byte("set"), key(""), []byte("v"))
	case 12:
		// a key on an unowned slot, if the layout has one
		w.tagset["maybe-unowned"] = true
		return bulk([]byte("get"), []byte("{hole}"+id))
	case 13:
		w.tagset["maybe-unowned"] = true
		return bulk([]byte("mget"), key("a"), []byte("{hole}"+id))
	default:
		return bulk([]byte("get"), key(""))
	}
}

func init() {
	suites["loop"] = suiteLoop
}

func layouts(r *rng.R) worldCfg {
	nodes := []string{"10.1.0.1:7000", "10.1.0.2:7000", "10.1.0.3:7000"}
	cfg := worldCfg{limit: 1 << 20, maxConns: 1, nodes: nodes, undial: map[string]bool{}}
	// {hole} hashes to a slot we leave unowned in some layouts
	hole := int(hashkit.Hash("hole"))
	switch r.Intn(4) {
	case 0: // full coverage
		cfg.ranges = [][3]interface{}{{0, 5460, nodes[0]}, {5461, 10922, nodes[1]}, {10923, 16383, nodes[2]}}
	case 1: // a hole around the slot of {hole}
		cfg.ranges = [][3]interface{}{{0, hole - 1, nodes[0]}, {hole + 1, 16383, nodes[1]}}
		cfg.hole = true
	case 2: // third node cannot be dialled
		cfg.ranges = [][3]interface{}{{0, 5460, nodes[0]}, {5461, 10922, nodes[1]}, {10923, 16383, nodes[2]}}
		cfg.undial[nodes[2]] = true
	default: // two nodes only
		cfg.ranges = [][3]interface{}{{0, 8191, nodes[0]}, {8192, 16383, nodes[1]}}
		cfg.maxConns = 1
	}
	if r.Chance(25) {
		cfg.password = "pw"
	}
	if r.Chance(35) {
		cfg.timeout = true
	}
	if r.Chance(15) {
		cfg.limit = []int{60, 60, 100}[r.Intn(3)]
	}
	if r.Chance(20) {
		cfg.maxConns, cfg.single = 2, true
	}
	return cfg
}

func (w *world) inputSx() sx.V {
	var pools, ranges []sx.V
	for _, a := range w.cfg.nodes {
		pools = append(pools, sx.L(sx.S(a), sx.Bool(!w.undial0[a])))
	}
	for _, r := range w.cfg.ranges {
		ranges = append(ranges, sx.L(sx.I(r[0].(int)), sx.I(r[1].(int)), sx.S(r[2].(string))))
	}
	cfgv := []sx.V{sx.I(w.cfg.limit), sx.S(w.cfg.password), sx.Bool(w.cfg.timeout), sx.I(w.cfg.maxConns)}
	if w.wcap > 0 {
		cfgv = append(cfgv, sx.I(w.wcap)) // not a parameter of the model: buffers are FIFO for every threshold (C19)
	}
	return sx.L(sx.L(cfgv...), sx.L(pools...), sx.L(ranges...), sx.L(w.events...))
}

func runHistory(seed uint64, idx int, quick bool) (in sx.V, out sx.V, tags []string) {
	r := rng.New(seed, "loop", idx)
	cfg := layouts(r)
	w, err := newWorld(cfg)
	if err != nil {
		return sx.L(), sx.L(sx.S("setup-error")), nil
	}
	defer w.s.Close()
	if cfg.single {
		w.tagset["two-connections-per-node"] = true
	}
	nc := r.Range(1, 3)
	for i := 0; i < nc; i++ {
		w.connect("127.0.0.1")
	}
	steps := r.Range(5, 40)
	for i := 0; i < steps; i++ {
		switch r.Intn(20) {
		case 0, 1, 2, 3, 4, 5: // a client sends 1-3 requests, sometimes cut in two reads
			c := r.Intn(nc)
			var b []byte
			for k := r.Range(1, 3); k > 0; k-- {
				b = append(b, w.nextRequest(r, c)...)
			}
			if r.Chance(15) && len(b) > 2 {
				cut := r.Range(1, len(b)-1)
				w.clientData(c, b[:cut])
				w.clientData(c, b[cut:])
				w.tagset["split-request"] = true
			} else {
				w.clientData(c, b)
			}
			w.handshakes(r)
		case 6, 7, 8, 9:
			w.runTasks()
		case 10, 11, 12, 13, 14:
			if len(w.s.Backends) > 0 {
				w.runTasks()
				w.handshakes(r)
				p := w.s.Backends[r.Intn(len(w.s.Backends))]
				w.answer(r, p, r.Range(1, 3))
			}
		case 15:
			if r.Chance(40) {
				w.closeClient(r.Intn(nc))
				w.tagset["client-close"] = true
			}
		case 16:
			if len(w.s.Backends) > 0 && r.Chance(50) {
				w.closeBackend(w.s.Backends[r.Intn(len(w.s.Backends))])
				w.tagset["backend-close"] = true
			}
		case 18:
			if r.Chance(60) {
				w.probe(int64(r.U64() >> 1))
				w.handshakes(r)
			} else {
				w.runTasks()
			}
		case 19:
			// a node stops / starts accepting connections (what is connected stays connected).  Not in
			// the layout with an unowned slot: a request with one fragment on the unowned slot and one
			// on an unreachable node is answered with either error, whichever fragment Go's map order
			// reaches first - both are right, and the model has no oracle for that choice
			if r.Chance(50) && len(cfg.nodes) > 1 && !cfg.hole {
				a := cfg.nodes[r.Range(1, len(cfg.nodes)-1)]
				cfg.undial[a] = !cfg.undial[a]
				w.record(sx.L(sx.I(12), sx.S(a), sx.Bool(!cfg.undial[a])))
				w.tagset["dialability-changes"] = true
			} else {
				w.runTasks()
			}
		case 17:
			if cfg.timeout {
				w.runTasks()
				w.timeoutScan()
				w.tagset["timeout"] = true
			}
		default:
			w.runTasks()
		}
	}
	// quiesce: write everything, answer everything still pending (redirects need extra rounds)
	for round := 0; round < 6; round++ {
		w.runTasks()
		w.handshakes(nil)
		for _, p := range w.s.Backends {
			w.answer(nil, p, 1000)
		}
	}
	w.runTasks()
	for t := range w.tagset {
		tags = append(tags, t)
	}
	sort.Strings(tags)
	if len(tags) == 0 {
		tags = []string{"plain"}
	}
	return w.inputSx(), sx.L(w.obs...), tags
}

// runDeepHistory: one slow request at the head of a client's queue and more than iovMax (1024)
// completed replies behind it: the whole backlog must be flushed, in order, when the head completes.
func runDeepHistory(seed uint64, idx int) (in sx.V, out sx.V, tags []string) {
	r := rng.New(seed, "loop-deep", idx)
	nodes := []string{"10.1.0.1:7000", "10.1.0.2:7000", "10.1.0.3:7000"}
	cfg := worldCfg{limit: 1 << 20, maxConns: 1, nodes: nodes, undial: map[string]bool{}}
	cfg.ranges = [][3]interface{}{{0, 8191, nodes[0]}, {8192, 16383, nodes[1]}}
	w, err := newWorld(cfg)
	if err != nil {
		return sx.L(), sx.L(sx.S("setup-error")), nil
	}
	defer w.s.Close()
	w.connect("127.0.0.1")
	get := func(onFirst bool) []byte {
		w.reqSeq[0]++
		id := fmt.Sprintf("c0r%d", w.reqSeq[0])
		for j := 0; ; j++ {
			k := id + "x" + strconv.Itoa(j)
			if (int(hashkit.Hash(k)) <= 8191) == onFirst {
				return []byte("*2\r\n$3\r\nget\r\n" + string(resp.Bulk([]byte(k))))
			}
		}
	}
	n := 1024 + r.Range(1, 200)
	b := get(true)
	for i := 0; i < n; i++ {
		b = append(b, get(false)...)
	}
	w.clientData(0, b)
	w.runTasks()
	w.handshakes(nil)
	// the second node answers everything (in two or three reads), then the first node answers
	var second, first *stepper.Peer
	for _, p := range w.s.Backends {
		if p.Addr == nodes[1] {
			second = p
		} else if p.Addr == nodes[0] {
			first = p
		}
	}
	if second == nil || first == nil {
		return w.inputSx(), sx.L(sx.S("setup-error")), nil
	}
	w.answer(nil, second, r.Range(100, 900))
	w.answer(nil, second, 5000)
	w.answer(nil, first, 10)
	w.runTasks()
	return w.inputSx(), sx.L(w.obs...), []string{"deep-backlog"}
}

func suiteLoop(c *Ctx) {
	for i := range scripts {
		if !c.Begin("script", i) {
			continue
		}
		var in, out sx.V
		var tags []string
		in, out, tags = guarded(func() (sx.V, sx.V, []string) { return runScripted(i) })
		if in == nil {
			break
		}
		c.Emit("loop", in, out, tags...)
	}
	topoN := 60
	if !c.Quick() {
		topoN = 1500
	}
	for i := 0; i < topoN; i++ {
		if !c.Begin("topo", i) {
			continue
		}
		var in, out sx.V
		var tags []string
		in, out, tags = guarded(func() (sx.V, sx.V, []string) { return runTopoHistory(c.Seed, i) })
		if in == nil {
			break
		}
		c.Emit("loop", in, out, tags...)
	}
	deep := 1
	if !c.Quick() {
		deep = 6
	}
	for i := 0; i < deep; i++ {
		if !c.Begin("deep", i) {
			continue
		}
		var in, out sx.V
		var tags []string
		in, out, tags = guarded(func() (sx.V, sx.V, []string) { return runDeepHistory(c.Seed, i) })
		if in == nil {
			break
		}
		c.Emit("loop", in, out, tags...)
	}
	n := 300
	if !c.Quick() {
		n = 8000
	}
	for i := 0; i < n; i++ {
		if !c.Begin("loop", i) {
			continue
		}
		var in, out sx.V
		var tags []string
		in, out, tags = guarded(func() (sx.V, sx.V, []string) { return runHistory(c.Seed, i, c.Quick()) })
		if in == nil {
			break
		}
		c.Emit("loop", in, out, tags...)
	}
}
