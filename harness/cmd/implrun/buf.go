package main

// Suite buf (C19): operation sequences on the exported APIs of ring.Buffer, elastic.RingBuffer and
// elastic.Buffer; after every operation the result, Buffered(), the ring capacity and IsEmpty()
// are recorded.  The capacity of a ring taken from the sync.Pool is read through the verif hook
// and handed to the model with the operation that takes it.

import (
	"fmt"
	"runtime"
	"runtime/debug"

	"rcproxy/core/pkg/buffer/elastic"
	"rcproxy/core/pkg/buffer/ring"
	rbpool "rcproxy/core/pkg/pool/ringbuffer"

	"verifharness/rng"
	"verifharness/sx"
)

func init() {
	suites["buf"] = suiteBuf
	replayers["buf"] = func(in sx.V) sx.V { return Safe(func() sx.V { return bufRun(in) }) }
}

type bufTarget interface {
	write(p []byte) (sx.V, int64)
	writev(bs [][]byte) (sx.V, int64)
	writeByte(c byte) (sx.V, int64)
	readByte() sx.V
	peek(n int) sx.V
	discard(n int) sx.V
	read(k int) sx.V
	reset()
	obs() (int, int, bool)
	setWant(int64)
}

func chunks(bs ...[]byte) sx.V {
	var l []sx.V
	for _, b := range bs {
		if len(b) > 0 {
			l = append(l, sx.B(append([]byte{}, b...)))
		}
	}
	return sx.L(l...)
}

func b2i(b bool) int64 {
	if b {
		return 1
	}
	return 0
}

type tRing struct{ rb *ring.Buffer }

func (t *tRing) write(p []byte) (sx.V, int64)     { n, _ := t.rb.Write(p); return sx.N(int64(n)), -1 }
func (t *tRing) writev(bs [][]byte) (sx.V, int64) { panic("no writev on ring") }
func (t *tRing) writeByte(c byte) (res sx.V, cap0 int64) {
	defer func() {
		if r := recover(); r != nil {
			res = sx.L(sx.S("panic"))
		}
	}()
	_ = t.rb.WriteByte(c)
	return sx.N(0), -1
}
func (t *tRing) readByte() sx.V {
	b, err := t.rb.ReadByte()
	if err != nil {
		return sx.L(sx.S("empty"))
	}
	return sx.N(int64(b))
}
func (t *tRing) peek(n int) sx.V    { h, tl := t.rb.Peek(n); return chunks(h, tl) }
func (t *tRing) discard(n int) sx.V { d, _ := t.rb.Discard(n); return sx.N(int64(d)) }
func (t *tRing) read(k int) sx.V {
	p := make([]byte, k)
	n, err := t.rb.Read(p)
	if err != nil {
		return sx.L(sx.S("empty"))
	}
	return sx.B(p[:n])
}
func (t *tRing) reset()                { t.rb.Reset() }
func (t *tRing) obs() (int, int, bool) { return t.rb.Buffered(), t.rb.Len(), t.rb.IsEmpty() }

type tERing struct {
	rb   elastic.RingBuffer
	want int64
}

func (t *tERing) write(p []byte) (sx.V, int64) {
	inj := inject(t.rb.VerifPresent(), t.want)
	n, _ := t.rb.Write(p)
	return sx.N(int64(n)), taken(&t.rb, inj)
}
func (t *tERing) writev(bs [][]byte) (sx.V, int64) { panic("no writev on elastic ring") }
func (t *tERing) writeByte(c byte) (res sx.V, cap0 int64) {
	inj := inject(t.rb.VerifPresent(), t.want)
	defer func() {
		if r := recover(); r != nil {
			res, cap0 = sx.L(sx.S("panic")), taken(&t.rb, inj)
		}
	}()
	_ = t.rb.WriteByte(c)
	return sx.N(0), taken(&t.rb, inj)
}
func (t *tERing) readByte() sx.V {
	b, err := t.rb.ReadByte()
	if err != nil {
		return sx.L(sx.S("empty"))
	}
	return sx.N(int64(b))
}
func (t *tERing) peek(n int) sx.V    { h, tl := t.rb.Peek(n); return chunks(h, tl) }
func (t *tERing) discard(n int) sx.V { d, _ := t.rb.Discard(n); return sx.N(int64(d)) }
func (t *tERing) read(k int) sx.V {
	p := make([]byte, k)
	n, err := t.rb.Read(p)
	if err != nil {
		return sx.L(sx.S("empty"))
	}
	return sx.B(p[:n])
}
func (t *tERing) reset()                { t.rb.Reset() }
func (t *tERing) obs() (int, int, bool) { return t.rb.Buffered(), t.rb.Len(), t.rb.IsEmpty() }

type tEBuf struct {
	b    *elastic.Buffer
	want int64
}

func (t *tEBuf) write(p []byte) (sx.V, int64) {
	inj := inject(t.b.VerifRing().VerifPresent(), t.want)
	n, _ := t.b.Write(p)
	return sx.N(int64(n)), taken(t.b.VerifRing(), inj)
}
func (t *tEBuf) writev(bs [][]byte) (sx.V, int64) {
	tot := 0
	for _, b := range bs {
		tot += len(b)
	}
	_ = tot
	inj := inject(t.b.VerifRing().VerifPresent(), t.want)
	n, _ := t.b.Writev(bs)
	return sx.N(int64(n)), taken(t.b.VerifRing(), inj)
}
func (t *tEBuf) writeByte(c byte) (sx.V, int64) { panic("no WriteByte on elastic.Buffer") }
func (t *tEBuf) readByte() sx.V                 { panic("no ReadByte on elastic.Buffer") }
func (t *tEBuf) peek(n int) sx.V                { return chunks(t.b.Peek(n)...) }
func (t *tEBuf) discard(n int) sx.V             { d, _ := t.b.Discard(n); return sx.N(int64(d)) }
func (t *tEBuf) read(k int) sx.V {
	p := make([]byte, k)
	n, _ := t.b.Read(p)
	return sx.B(p[:n])
}
func (t *tEBuf) reset() { t.b.Reset(0) }
func (t *tEBuf) obs() (int, int, bool) {
	return t.b.Buffered(), t.b.VerifRing().Len(), t.b.IsEmpty()
}

// The ring of an elastic buffer comes from a sync.Pool.  Before every operation that may take it
// the pool is emptied; then either nothing is put in (the buffer gets ring.New(0)) or a ring of
// the wanted capacity is put in.  Afterwards the hook tells whether that ring was the one taken:
// the capacity is recorded with the operation (-1: none taken / fresh ring).
func inject(present bool, want int64) *ring.Buffer {
	if present {
		return nil
	}
	rbpool.VerifReset()
	if want <= 0 {
		return nil
	}
	rb := ring.New(int(want))
	rbpool.Put(rb)
	return rb
}

func taken(b *elastic.RingBuffer, inj *ring.Buffer) int64 {
	if inj == nil {
		return -1
	}
	if b.VerifRingIs(inj) {
		return int64(inj.Cap())
	}
	if b.VerifPresent() {
		panic("harness: the pool did not return the injected ring")
	}
	return -1
}

func (t *tRing) setWant(int64)    {}
func (t *tERing) setWant(w int64) { t.want = w }
func (t *tEBuf) setWant(w int64)  { t.want = w }

func newTarget(kind, param int) bufTarget {
	switch kind {
	case 0:
		return &tRing{ring.New(param)}
	case 1:
		return &tERing{}
	default:
		b, err := elastic.New(param)
		if err != nil {
			panic(err)
		}
		return &tEBuf{b: b}
	}
}

// bufRun executes the operations of an input (capacity fields are ignored on replay and
// re-read from the run); it returns the observations.
func bufRun(in sx.V) sx.V {
	_, obs := bufExec(in)
	return obs
}

// bufExec runs the operations and returns the input with the observed pooled capacities filled
// in, and the list of observations.
func bufExec(in sx.V) (sx.V, sx.V) {
	l := sx.Items(in)
	kind, param := int(sx.Int(l[0])), int(sx.Int(l[1]))
	t := newTarget(kind, param)
	var ops2, out []sx.V
	for _, op := range sx.Items(l[2]) {
		o := sx.Items(op)
		var res sx.V
		op2 := op
		if k := sx.Int(o[0]); (k == 0 || k == 5 || k == 6) && len(o) == 3 {
			t.setWant(sx.Int(o[2]))
		}
		switch sx.Int(o[0]) {
		case 0:
			r, c := t.write(sx.Bytes(o[1]))
			res, op2 = r, sx.L(sx.N(0), o[1], sx.N(c))
		case 1:
			res = t.peek(int(sx.Int(o[1])))
		case 2:
			res = t.discard(int(sx.Int(o[1])))
		case 3:
			res = t.read(int(sx.Int(o[1])))
		case 4:
			t.reset()
			res = sx.N(0)
		case 5:
			var bs [][]byte
			for _, b := range sx.Items(o[1]) {
				bs = append(bs, sx.Bytes(b))
			}
			r, c := t.writev(bs)
			res, op2 = r, sx.L(sx.N(5), o[1], sx.N(c))
		case 6:
			r, c := t.writeByte(byte(sx.Int(o[1])))
			res, op2 = r, sx.L(sx.N(6), o[1], sx.N(c))
		case 7:
			res = t.readByte()
		default:
			panic(fmt.Sprint("bad op ", sx.String(op)))
		}
		ops2 = append(ops2, op2)
		bu, cp, em := t.obs()
		out = append(out, sx.L(res, sx.N(int64(bu)), sx.N(int64(cp)), sx.N(b2i(em))))
		if sx.String(res) == sx.String(sx.L(sx.S("panic"))) {
			break
		}
	}
	return sx.L(l[0], l[1], sx.L(ops2...)), sx.L(out...)
}

func suiteBuf(c *Ctx) {
	// one P and no collection while a ring sits in the pool: sync.Pool then returns what was put
	runtime.GOMAXPROCS(1)
	debug.SetGCPercent(-1)
	defer debug.SetGCPercent(100)
	n := 400
	if !c.Quick() {
		n = 6000
	}
	for i := 0; i < n; i++ {
		r := rng.New(c.Seed, "buf", i)
		kind := r.Range(0, 2)
		param := 0
		var tags []string
		switch kind {
		case 0:
			param = []int{0, 0, 1, 2, 8, 64, 100, 1024, 4096, 5000}[r.Range(0, 9)]
			tags = append(tags, "ring")
		case 1:
			tags = append(tags, "elastic-ring")
		default:
			param = []int{1, 16, 64, 100, 1000, 1024, 4096, 8192}[r.Range(0, 7)]
			tags = append(tags, "elastic-buffer")
		}
		// profile: how big the writes are and how eagerly the queue is drained
		big := r.Range(0, 3) // 0 small, 1 medium, 2 large, 3 mixed
		drain := r.Range(10, 60)
		nops := r.Range(5, 45)
		fillNext := false // the next write fills the ring exactly
		var ctr byte
		data := func(ln int) []byte {
			b := make([]byte, ln)
			for j := range b {
				ctr++
				if ctr == 251 {
					ctr = 0
				}
				b[j] = ctr
			}
			return b
		}
		size := func(t bufTarget) int {
			bu, cp, _ := t.obs()
			free := cp - bu
			if fillNext {
				fillNext = false
				if free > 0 {
					return free
				}
			}
			if kind == 2 {
				// distances to the static/dynamic threshold as well
				if r.Chance(30) {
					d := param - bu
					if d < 0 {
						d = 0
					}
					v := d + r.Range(-1, 2)*r.Range(0, 1)
					if v < 0 {
						v = 0
					}
					return v
				}
			}
			switch {
			case r.Chance(12):
				return 0
			case r.Chance(20) && free >= 0: // exactly fill, or one off
				v := free + r.Range(-1, 1)
				if v < 0 {
					v = 0
				}
				return v
			}
			m := big
			if m == 3 {
				m = r.Range(0, 2)
			}
			switch m {
			case 0:
				return r.Range(1, 24)
			case 1:
				return r.Range(100, 1500)
			default:
				return r.Range(2500, 9000)
			}
		}
		// generate adaptively: the next operation looks at the live state (so that thresholds,
		// wrap-around and exact fills are hit), and the input records exactly what was done
		t := newTarget(kind, param)
		var ops []sx.V
		seen := map[string]bool{}
		var total int
		exec := func(op sx.V) bool {
			one, _ := bufExecOn(t, op)
			ops = append(ops, one)
			return true
		}
		_ = exec
		for k := 0; k < nops && total < 60000; k++ {
			bu, cp, _ := t.obs()
			var op sx.V
			switch {
			case r.Chance(drain):
				// draining side
				amt := 0
				// when the contents wrap around the end of the array: discard exactly up to the array end
				// (what a partial writev of the first chunk does), and the next operation fills the ring
				headLen := -1
				if pk := sx.Items(t.peek(-1)); len(pk) == 2 {
					headLen = len(sx.Bytes(pk[0]))
				}
				switch {
				case headLen > 0 && r.Chance(35):
					amt = headLen
					fillNext = true
					seen["discard-to-array-end"] = true
				case r.Chance(15):
					amt = bu
				case r.Chance(10):
					amt = bu + r.Range(1, 5)
				case r.Chance(10):
					amt = r.Range(-2, 0)
				case bu > 0:
					amt = r.Range(1, bu)
				}
				switch r.Range(0, 3) {
				case 0:
					op = sx.L(sx.N(1), sx.N(int64(amt)))
					seen["peek"] = true
				case 1, 2:
					// the production pattern: peek then discard what was "sent"
					op = sx.L(sx.N(2), sx.N(int64(amt)))
					seen["discard"] = true
				default:
					if amt < 0 {
						amt = 0
					}
					op = sx.L(sx.N(3), sx.N(int64(amt)))
					seen["read"] = true
				}
			case r.Chance(3):
				op = sx.L(sx.N(4))
				seen["reset"] = true
			case kind != 2 && r.Chance(8):
				if r.Bool() {
					op = sx.L(sx.N(6), sx.N(int64(r.Range(0, 255))), sx.N(wantCap(r)))
					seen["writebyte"] = true
				} else {
					op = sx.L(sx.N(7))
					seen["readbyte"] = true
				}
			case kind == 2 && r.Chance(45):
				nb := r.Range(0, 5)
				var bs []sx.V
				for j := 0; j < nb; j++ {
					ln := size(t)
					if r.Chance(50) {
						ln = ln / (nb + 1)
					}
					total += ln
					bs = append(bs, sx.B(data(ln)))
				}
				op = sx.L(sx.N(5), sx.L(bs...), sx.N(wantCap(r)))
				seen["writev"] = true
			default:
				ln := size(t)
				total += ln
				op = sx.L(sx.N(0), sx.B(data(ln)), sx.N(wantCap(r)))
				seen["write"] = true
			}
			wasWrap := false
			_ = cp
			one, _ := bufExecOn(t, op)
			ops = append(ops, one)
			_ = wasWrap
		}
		// replay the recorded sequence on a fresh buffer: this is the run that is compared (pooled
		// capacities are re-read; they are part of the input given to the model)
		in0 := sx.L(sx.N(int64(kind)), sx.N(int64(param)), sx.L(ops...))
		var in2 sx.V
		out := Safe(func() sx.V {
			a, o := bufExec(in0)
			in2 = a
			return o
		})
		if in2 == nil {
			in2 = in0
		}
		for k := range seen {
			tags = append(tags, k)
		}
		if total > 4096 {
			tags = append(tags, "over-4k")
		}
		c.Emit("buf", in2, out, tags...)
		if i%50 == 49 {
			rbpool.VerifReset()
			runtime.GC()
		}
	}
}

// wantCap: the capacity of the recycled ring offered to an operation that may take one (-1: the
// pool is empty and a fresh ring is made)
func wantCap(r *rng.R) int64 {
	if r.Chance(55) {
		return -1
	}
	return []int64{2, 64, 1000, 1024, 2048, 4096, 8192, 16384}[r.Range(0, 7)]
}

// bufExecOn applies one operation to a live target (used while generating) and returns the
// operation as recorded.
func bufExecOn(t bufTarget, op sx.V) (rec sx.V, res sx.V) {
	defer func() {
		if r := recover(); r != nil {
			rec, res = op, sx.L(sx.S("panic"))
		}
	}()
	o := sx.Items(op)
	if k := sx.Int(o[0]); (k == 0 || k == 5 || k == 6) && len(o) == 3 {
		t.setWant(sx.Int(o[2]))
	}
	switch sx.Int(o[0]) {
	case 0:
		r, _ := t.write(sx.Bytes(o[1]))
		return op, r
	case 1:
		return op, t.peek(int(sx.Int(o[1])))
	case 2:
		return op, t.discard(int(sx.Int(o[1])))
	case 3:
		return op, t.read(int(sx.Int(o[1])))
	case 4:
		t.reset()
		return op, sx.N(0)
	case 5:
		var bs [][]byte
		for _, b := range sx.Items(o[1]) {
			bs = append(bs, sx.Bytes(b))
		}
		r, _ := t.writev(bs)
		return op, r
	case 6:
		r, _ := t.writeByte(byte(sx.Int(o[1])))
		return op, r
	default:
		return op, t.readByte()
	}
}
