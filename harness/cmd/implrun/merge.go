package main

import (
	"fmt"
	"strings"

	"rcproxy/core"
	"rcproxy/core/pkg/hashkit"

	"verifharness/reqgen"
	"verifharness/resp"
	"verifharness/rng"
	"verifharness/stepper"
	"verifharness/sx"
)

// merge: one client sends one request through the production event loop; the harness plays the
// backend nodes, parses what each received with the strict parser, answers every fragment
// (values from a store, or an injected error) and releases the answers in a chosen order.
// Observable: what the client has received after each released answer.

func init() {
	suites["merge"] = suiteMerge
	replayers["merge"] = func(in sx.V) sx.V {
		it := sx.Items(in)
		var order []mreply
		for _, r := range sx.Items(it[2]) {
			x := sx.Items(r)
			order = append(order, mreply{int32(sx.Int(x[0])), sx.Bytes(x[1])})
		}
		return Safe(func() sx.V { return runMerge(int(sx.Int(it[0])), sx.Bytes(it[1]), order) })
	}
}

type mreply struct {
	slot int32
	rsp  []byte
}

func newMergeStepper(limit int) (*stepper.S, error) {
	s, err := stepper.New(stepper.Config{Limit: limit, MaxConns: 16})
	if err != nil {
		return nil, err
	}
	var sets []core.VerifReplicaset
	n := 4
	per := 16384 / n
	for i := 0; i < n; i++ {
		addr := fmt.Sprintf("node%d:7000", i)
		s.AddPool(addr, false)
		hi := int32((i+1)*per - 1)
		if i == n-1 {
			hi = 16383
		}
		sets = append(sets, core.VerifReplicaset{Master: addr, Ranges: [][2]int32{{int32(i * per), hi}}})
	}
	s.L.SetSlots(sets)
	return s, nil
}

// fragment on the wire: which backend connection got it, and its slot
type wireFrag struct {
	peer *stepper.Peer
	slot int32
	args [][]byte
}

func collectFrags(s *stepper.S) ([]wireFrag, bool) {
	var out []wireFrag
	for _, b := range s.Backends {
		s.Drain(b)
		reqs, rest, ok := resp.ParseRequests(b.Got)
		if !ok || len(rest) != 0 {
			return nil, false
		}
		for _, a := range reqs {
			key := ""
			if len(a) > 1 {
				key = string(a[1])
			}
			if strings.EqualFold(string(a[0]), "eval") || strings.EqualFold(string(a[0]), "evalsha") {
				if len(a) > 3 {
					key = string(a[3])
				}
			}
			out = append(out, wireFrag{b, hashkit.Hash(key), a})
		}
	}
	return out, true
}

// runMerge: order lists (slot, reply bytes) in release order.
func runMerge(limit int, req []byte, order []mreply) sx.V {
	s, err := newMergeStepper(limit)
	if err != nil {
		return sx.L(sx.S("setup-error"))
	}
	defer s.Close()
	c, _ := s.Connect("127.0.0.1")
	if err := s.Send(c, req); err != nil {
		return sx.L(sx.S("send-error"))
	}
	s.RunTasks(20)
	frags, ok := collectFrags(s)
	if !ok {
		return sx.L(sx.S("backend-received-malformed-request"))
	}
	bySlot := map[int32]wireFrag{}
	for _, f := range frags {
		bySlot[f.slot] = f
	}
	var obs []sx.V
	got := 0
	for _, r := range order {
		f, ok := bySlot[r.slot]
		if !ok {
			return sx.L(sx.S("no-fragment-for-slot"), sx.N(int64(r.slot)))
		}
		if err := s.Send(f.peer, r.rsp); err != nil {
			return sx.L(sx.S("reply-send-error"))
		}
		s.RunTasks(20)
		s.Drain(c)
		obs = append(obs, sx.B(c.Got[got:]))
		got = len(c.Got)
	}
	return sx.L(obs...)
}

// planMerge runs the request once to learn its fragments, and builds the replies.
func planMerge(r *rng.R, limit int, req []byte, errPct int) ([]mreply, string, bool) {
	s, err := newMergeStepper(limit)
	if err != nil {
		return nil, "", false
	}
	defer s.Close()
	c, _ := s.Connect("127.0.0.1")
	s.Send(c, req)
	s.RunTasks(20)
	frags, ok := collectFrags(s)
	if !ok || len(frags) == 0 {
		return nil, "", false
	}
	// one connection per fragment is needed for arbitrary release orders
	seen := map[*stepper.Peer]bool{}
	for _, f := range frags {
		if seen[f.peer] {
			return nil, "", false
		}
		seen[f.peer] = true
	}
	store := map[string][]byte{}
	val := func(k []byte) []byte {
		if v, ok := store[string(k)]; ok {
			return v
		}
		var v []byte
		switch r.Intn(6) {
		case 0:
			v = nil // absent
		case 1:
			v = []byte{}
		case 2:
			v = []byte("a\r\nb")
		case 3:
			v = []byte("$-1\r\n")
		default:
			v = r.Bytes(r.Range(1, 12))
		}
		if v == nil {
			store[string(k)] = nil
		} else {
			store[string(k)] = v
		}
		return v
	}
	kind := "ok"
	var reps []mreply
	for _, f := range frags {
		cmd := strings.ToLower(string(f.args[0]))
		var rsp []byte
		switch {
		case r.Chance(errPct):
			rsp = []byte(resp.Errors[r.Intn(len(resp.Errors))])
			kind = "with-error"
		case cmd == "mget":
			var items [][]byte
			for _, k := range f.args[1:] {
				v := val(k)
				if v == nil {
					items = append(items, resp.Nil)
				} else {
					items = append(items, resp.Bulk(v))
				}
			}
			rsp = resp.Array(items...)
		case cmd == "del":
			rsp = resp.Int(r.Range(0, len(f.args)-1))
		case cmd == "mset":
			rsp = []byte("+OK\r\n")
		default:
			rsp, _ = resp.Value(r, 3)
			if strings.HasPrefix(string(rsp), "-MOVED") || strings.HasPrefix(string(rsp), "-ASK") {
				rsp = []byte("+OK\r\n")
			}
		}
		reps = append(reps, mreply{f.slot, rsp})
	}
	return reps, kind, true
}

func permutations(n int) [][]int {
	if n == 0 {
		return [][]int{{}}
	}
	var out [][]int
	for _, p := range permutations(n - 1) {
		for i := 0; i <= len(p); i++ {
			q := append(append(append([]int{}, p[:i]...), n-1), p[i:]...)
			out = append(out, q)
		}
	}
	return out
}

func suiteMerge(c *Ctx) {
	n := 90
	if !c.Quick() {
		n = 2500
	}
	emit := func(limit int, req []byte, reps []mreply, perm []int, tags ...string) {
		var order []mreply
		var osx []sx.V
		for _, i := range perm {
			order = append(order, reps[i])
			osx = append(osx, sx.L(sx.N(int64(reps[i].slot)), sx.B(reps[i].rsp)))
		}
		c.Emit("merge", sx.L(sx.I(limit), sx.B(req), sx.L(osx...)), Safe(func() sx.V { return runMerge(limit, req, order) }), tags...)
	}
	for i := 0; i < n; i++ {
		r := rng.New(c.Seed, "merge", i)
		name := r.Pick("mget", "mget", "del", "mset", "get", "set")
		if r.Chance(10) {
			names := reqgen.Names()
			name = names[r.Intn(len(names))]
			if name == "ping" || name == "quit" || name == "auth" {
				name = "get"
			}
		}
		args := reqgen.ValidFor(r, name, []string{"a", "b", "c", "d", "e"}[:r.Range(0, 5)])
		req := reqgen.Enc(args)
		limit := 1 << 20
		if r.Chance(12) {
			limit = r.Range(30, 200)
		}
		errPct := 0
		if r.Chance(35) {
			errPct = 35
		}
		reps, kind, ok := planMerge(r, limit, req, errPct)
		if !ok {
			continue
		}
		tag := fmt.Sprintf("frags-%d", len(reps))
		if len(reps) > 4 {
			tag = "frags-5+"
		}
		if len(reps) <= 4 && (c.Quick() && len(reps) <= 3 || !c.Quick()) {
			for _, p := range permutations(len(reps)) {
				emit(limit, req, reps, p, name, kind, tag, "all-orders")
			}
		} else {
			k := 4
			if !c.Quick() {
				k = 20
			}
			for j := 0; j < k; j++ {
				emit(limit, req, reps, r.Perm(len(reps)), name, kind, tag, "random-orders")
			}
		}
	}
	// single-key requests answered with replies that sit next to the ones the server decoder singles
	// out (a status that begins with OK / PONG but is longer, errors that begin like MOVED / ASK /
	// NOAUTH without being them, values that look like other types): the reply must pass unchanged.
	// Error lines that BEGIN with "-MOVED" or "-ASK" are redirects for the server decoder whatever
	// follows ("-MOVEDX ..", "-ASKING": prefix test without the separating space, modelled as such
	// in Model/ServerCodec.v and run in the sdecode suite); like the generated values above they are
	// not part of this suite, whose model has no redirects (the loop suite has them).
	edge := []string{"+OK\r\n", "+OKAY\r\n", "+OK 3 fields updated\r\n", "+OK \r\n", "+OKOK\r\n", "+ok\r\n", "+O\r\n", "+\r\n",
		"+PONG\r\n", "+PONGX\r\n", "+PONG 1\r\n", "+QUEUED\r\n", "+Background saving started\r\n",
		"-ERR MOVED 1 a:1\r\n", "-ERR ASK 1 a:1\r\n", "-MOVE\r\n", "-AS\r\n", "-NOAUTHX\r\n", "-ERR\r\n", "-\r\n",
		":0\r\n", ":-1\r\n", ":9223372036854775807\r\n", "$-1\r\n", "*-1\r\n", "$0\r\n\r\n", "*0\r\n",
		"$5\r\n+OKAY\r\n", "$4\r\n+OK\r\r\n", "$3\r\n+OK\r\n", "*1\r\n+OK\r\n", "*2\r\n+OKAY\r\n$-1\r\n", "*1\r\n*1\r\n+OK x\r\n"}
	reqs := [][]string{{"get", "k"}, {"set", "k", "v"}, {"eval", "return 1", "1", "k"}, {"hgetall", "k"}, {"mget", "k"}, {"del", "k"}, {"mset", "k", "v"}}
	for _, q := range reqs {
		var args [][]byte
		for _, a := range q {
			args = append(args, []byte(a))
		}
		req := reqgen.Enc(args)
		for _, e := range edge {
			if (q[0] == "mget" || q[0] == "del" || q[0] == "mset") && e[0] != '+' {
				// the split commands have a reply shape of their own (an array of bulks / nulls, a count
				// between 0 and the number of keys, +OK): what the oracle says about other replies to them
				// (`:-1`, a count above the number of keys, arrays of statuses) is not about any node's
				// behaviour; they get the status lines only
				continue
			}
			if q[0] == "mset" && strings.HasPrefix(e, "+OK") && e != "+OK\r\n" {
				// no node answers MSET with a status that merely begins with OK; the server decoder takes
				// the prefix for the acknowledgement (Model/ServerCodec.v), the oracle's convention
				// "anything but +OK is a failed fragment" does not speak about such replies
				continue
			}
			reps := []mreply{{hashkit.Hash("k"), []byte(e)}}
			emit(1<<20, req, reps, []int{0}, q[0], "reply-edge", "frags-1x")
		}
	}
}
