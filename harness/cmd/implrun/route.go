package main

import (
	"fmt"
	"math/rand"
	"time"

	"rcproxy/core"
	"rcproxy/core/codec"
	"rcproxy/core/server"

	"verifharness/rng"
	"verifharness/stepper"
	"verifharness/sx"
)

// route: listenServer.route on generated replica sets with every pool/ban state, for every command
// type; rand.Intn is made reproducible with rand.Seed, and the value it returns for every possible
// argument is recorded as the oracle the model receives.

type rep struct {
	addr            string
	pool, ban, lift bool
}

func init() {
	suites["route"] = suiteRoute
	replayers["route"] = func(in sx.V) sx.V {
		it := sx.Items(in)
		var reps []rep
		for _, r := range sx.Items(it[3]) {
			x := sx.Items(r)
			reps = append(reps, rep{string(sx.Bytes(x[0])), sx.Int(x[1]) != 0, sx.Int(x[2]) != 0, sx.Int(x[3]) != 0})
		}
		// the recorded ks cannot be forced onto math/rand; replay recomputes them from a fixed seed
		out, _ := runRoute(sx.Int(it[0]) != 0, codec.Command(sx.Int(it[1])), string(sx.Bytes(it[2])), reps, 12345)
		return out
	}
	replayers["onsopened"] = func(in sx.V) sx.V {
		it := sx.Items(in)
		return runOnSOpened(string(sx.Bytes(it[0])), sx.Int(it[1]) != 0)
	}
}

func runRoute(disable bool, t codec.Command, master string, reps []rep, seed int64) (sx.V, []int) {
	s, err := stepper.New(stepper.Config{Limit: 1 << 20, MaxConns: 1, DisableSlav: disable})
	if err != nil {
		return sx.L(sx.S("setup-error")), nil
	}
	defer s.Close()
	s.AddPool(master, false)
	var slaves []string
	for _, r := range reps {
		slaves = append(slaves, r.addr)
		if r.pool {
			s.AddPool(r.addr, true)
			p := core.EngineGlobal.ProxyPool[r.addr]
			p.AutoBanFlag = r.ban
			if r.lift {
				p.LiftBanTime = time.Now().Add(-time.Hour)
			} else {
				p.LiftBanTime = time.Now().Add(time.Hour)
			}
		}
	}
	s.L.SetSlots([]core.VerifReplicaset{{Master: master, Slaves: slaves, Ranges: [][2]int32{{0, 16383}}}})
	// k_n = what rand.Intn(n) returns as the first call after Seed(seed)
	var ks []int
	for n := 1; n <= len(reps)+1; n++ {
		rand.Seed(seed)
		ks = append(ks, rand.Intn(n))
	}
	rand.Seed(seed)
	h := server.NewListenServer(server.WithDisableRedisSlave(disable))
	addr, isSlave := server.VerifRoute(h, t, 77)
	var bans []sx.V
	for _, r := range reps {
		if r.pool {
			bans = append(bans, sx.Bool(core.EngineGlobal.ProxyPool[r.addr].AutoBanFlag))
		} else {
			bans = append(bans, sx.Bool(r.ban))
		}
	}
	return sx.L(sx.S(addr), sx.Bool(isSlave), sx.L(bans...)), ks
}

type stubS struct {
	core.SConn
	slave  bool
	step   int8
	status core.InitializeStatus
}

func (s *stubS) IsSlave() bool                                { return s.slave }
func (s *stubS) SetInitializeStep(n int8)                     { s.step = n }
func (s *stubS) SetInitializeStatus(st core.InitializeStatus) { s.status = st }
func (s *stubS) Fd() int                                      { return 9 }
func (s *stubS) LocalAddr() string                            { return "l" }
func (s *stubS) RemoteAddr() string                           { return "r" }

func runOnSOpened(pw string, slave bool) sx.V {
	h := server.NewListenServer(server.WithRedisPassword(pw))
	l, err := core.VerifNewLoop(h, core.WithRedisPasswd(pw)) // OnBoot builds the AUTH command
	if err != nil {
		return sx.L(sx.S("setup-error"))
	}
	defer l.Shutdown()
	st := &stubS{slave: slave}
	out, _ := h.OnSOpened(st)
	return sx.L(sx.B(out), sx.I(int(st.step)))
}

func suiteRoute(c *Ctx) {
	n := 1200
	if !c.Quick() {
		n = 30000
	}
	// every command type of the table + the markers, on a few fixed sets; then random sets
	// the command types of the table (the write marker itself is not a command)
	var types []codec.Command
	for t := codec.UNKNOWN + 1; t < codec.ReqTooLarge; t++ {
		if _, ok := codec.CommandType2Str[t]; ok {
			types = append(types, t)
		}
	}
	emit := func(disable bool, t codec.Command, master string, reps []rep, seed int64, tags ...string) {
		var rs []sx.V
		for _, r := range reps {
			rs = append(rs, sx.L(sx.S(r.addr), sx.Bool(r.pool), sx.Bool(r.ban), sx.Bool(r.lift)))
		}
		var out sx.V
		var ks []int
		out = Safe(func() sx.V { o, k := runRoute(disable, t, master, reps, seed); ks = k; return o })
		d := 0
		if disable {
			d = 1
		}
		live := 0
		for _, r := range reps {
			if r.pool && !(r.ban && r.lift) {
				live++
			}
		}
		c.Emit("route", sx.L(sx.I(d), sx.N(int64(t)), sx.S(master), sx.L(rs...), sx.Ints(ks)), out,
			append(tags, fmt.Sprintf("live-%d", live))...)
	}
	two := []rep{{"r1:1", true, false, false}, {"r2:1", true, false, false}}
	three := []rep{{"r1:1", true, true, true}, {"r2:1", true, false, false}, {"r3:1", true, true, false}}
	for _, t := range types {
		for seed := int64(0); seed < 4; seed++ {
			emit(false, t, "m:1", two, seed, "table")
			emit(false, t, "m:1", three, seed, "table")
		}
		emit(true, t, "m:1", two, 0, "table", "replicas-off")
		emit(false, t, "m:1", nil, 0, "table")
	}
	for i := 0; i < n; i++ {
		r := rng.New(c.Seed, "route", i)
		k := r.Range(0, 4)
		var reps []rep
		for j := 0; j < k; j++ {
			reps = append(reps, rep{fmt.Sprintf("r%d:1", j), r.Chance(85), r.Chance(30), r.Bool()})
		}
		t := types[r.Intn(len(types))]
		if r.Chance(60) {
			t = []codec.Command{codec.ReqGet, codec.ReqMget, codec.ReqHget, codec.ReqZrange, codec.ReqExists}[r.Intn(5)]
		}
		emit(r.Chance(10), t, "m:1", reps, int64(r.U64()%1000000), "random")
	}
	for _, pw := range []string{"", "p", "secret", "a\r\nb", string(make([]byte, 10)), string(make([]byte, 100))} {
		for _, sl := range []bool{false, true} {
			s := 0
			if sl {
				s = 1
			}
			c.Emit("onsopened", sx.L(sx.S(pw), sx.I(s)), Safe(func() sx.V { return runOnSOpened(pw, sl) }), "handshake")
		}
	}
}
