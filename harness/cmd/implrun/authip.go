package main

import (
	"fmt"
	"os"
	"path/filepath"
	"strings"
	"time"

	"rcproxy/core/authip"

	"verifharness/rng"
	"verifharness/stepper"
	"verifharness/sx"
)

// authip: (a) histories of whitelist file versions loaded through the production parse path
// (yaml file on disk -> parseAuthIp), then admission of probe addresses through the production
// OnCOpened on a stepper connection; (b) the real fsnotify watcher: in-place write, rewrite by
// rename, remove + create, with the admitted set polled for up to 3 s after each edit.

type ipver struct {
	enable bool
	ips    []string
	// how the file says it: a key that is left out means "false" / "no addresses" (enable is then
	// false and ips empty in this record: the model sees the meaning, the loader sees the file)
	noEnable bool
	noList   bool
	// a file that cannot be loaded (a typo): the reload fails, the admitted set stays what it was,
	// and the NEXT good version must still be picked up
	broken bool
}

func yamlOf(v ipver) string {
	var b strings.Builder
	if v.broken {
		return "enable: true\nip_white_list: [\"10.0.0.1\"\n"
	}
	if v.noEnable && v.noList {
		return "# whitelist switched off\n"
	}
	if !v.noEnable {
		fmt.Fprintf(&b, "enable: %v\n", v.enable)
	}
	if !v.noList {
		fmt.Fprintf(&b, "ip_white_list:\n")
		for _, ip := range v.ips {
			fmt.Fprintf(&b, "  - %q\n", ip)
		}
	}
	return b.String()
}

func init() {
	suites["authip"] = suiteAuthIp
	replayers["authip"] = func(in sx.V) sx.V {
		it := sx.Items(in)
		var vs []ipver
		for _, v := range sx.Items(it[0]) {
			x := sx.Items(v)
			var ips []string
			for _, ip := range sx.Items(x[1]) {
				ips = append(ips, string(sx.Bytes(ip)))
			}
			vs = append(vs, ipver{enable: sx.Int(x[0]) != 0, ips: ips})
		}
		var probes []string
		for _, p := range sx.Items(it[1]) {
			probes = append(probes, string(sx.Bytes(p)))
		}
		return runAuthIp(vs, probes, "load")
	}
}

func scratchDir() string {
	base := os.Getenv("VERIF_SCRATCH")
	if base == "" {
		base = os.TempDir()
	}
	d := filepath.Join(base, fmt.Sprintf("verif-authip-%d", os.Getpid()))
	os.MkdirAll(d, 0o755)
	return d
}

// admitted: connect from remote through the production accept path and see whether the proxy
// keeps the connection (and sends nothing).
func admitted(remoteIP string) bool {
	s, err := stepper.New(stepper.Config{Limit: 1 << 20, MaxConns: 1})
	if err != nil {
		return false
	}
	defer s.Close()
	p, _ := s.Connect(remoteIP)
	open := s.L.IsOpen(p.ProxyFd)
	s.Drain(p)
	return open && len(p.Got) == 0
}

func runAuthIp(vs []ipver, probes []string, mode string) sx.V {
	authip.VerifReset()
	dir := scratchDir()
	defer os.RemoveAll(dir)
	f := filepath.Join(dir, "authip.yaml")
	for _, v := range vs {
		os.WriteFile(f, []byte(yamlOf(v)), 0o644)
		if err := authip.VerifLoad(f); err != nil {
			return sx.L(sx.S("load-error"), sx.S(err.Error()))
		}
	}
	en, ips := authip.VerifDump()
	var adm []sx.V
	for _, p := range probes {
		ip := p
		if i := strings.IndexByte(p, ':'); i >= 0 {
			ip = p[:i]
		}
		adm = append(adm, sx.Bool(admitted(ip)))
	}
	authip.VerifReset()
	return sx.L(sx.Bool(en), sx.Strs(ips), sx.L(adm...))
}

var watcherStarted = false
var watchDir string

// runWatcher: the real watcher; edits applied by the given method; returns the admitted set as
// seen up to 3 s after the last edit (the first poll at which it equals want, else the last poll).
func runWatcher(vs []ipver, methods []string, probes []string) sx.V {
	f := filepath.Join(watchDir, "authip.yaml")
	var last ipver
	for i, v := range vs {
		if !v.broken {
			last = v
		}
		switch methods[i] {
		case "inplace":
			os.WriteFile(f, []byte(yamlOf(v)), 0o644)
		case "rename":
			tmp := filepath.Join(watchDir, ".authip.yaml.tmp")
			os.WriteFile(tmp, []byte(yamlOf(v)), 0o644)
			os.Rename(tmp, f)
		case "recreate":
			os.Remove(f)
			os.WriteFile(f, []byte(yamlOf(v)), 0o644)
		}
		time.Sleep(30 * time.Millisecond)
	}
	want := func(p string) bool {
		if !last.enable {
			return true
		}
		for _, ip := range last.ips {
			if ip == p {
				return true
			}
		}
		return false
	}
	var got []bool
	deadline := time.Now().Add(3 * time.Second)
	for {
		got = got[:0]
		all := true
		for _, p := range probes {
			g := authip.IpMap.Validate(p)
			got = append(got, g)
			if g != want(p) {
				all = false
			}
		}
		if all || time.Now().After(deadline) {
			break
		}
		time.Sleep(50 * time.Millisecond)
	}
	en, ips := authip.VerifDump()
	var adm []sx.V
	for _, g := range got {
		adm = append(adm, sx.Bool(g))
	}
	return sx.L(sx.Bool(en), sx.Strs(ips), sx.L(adm...))
}

func suiteAuthIp(c *Ctx) {
	pool := []string{"10.0.0.1", "10.0.0.2", "10.0.0.3", "127.0.0.1", "192.168.1.77", "10.0.0.10"}
	gen := func(r *rng.R) ipver {
		var ips []string
		for _, ip := range pool {
			if r.Chance(45) {
				ips = append(ips, ip)
			}
		}
		// duplicate lines (a hand-edited file): none, one, or several, anywhere in the list
		if r.Chance(40) && len(ips) > 0 {
			for d := r.Range(1, 4); d > 0; d-- {
				at := r.Intn(len(ips) + 1)
				dup := ips[r.Intn(len(ips))]
				ips = append(ips[:at], append([]string{dup}, ips[at:]...)...)
			}
		}
		v := ipver{enable: r.Chance(80), ips: ips}
		// a version that leaves a key out: the setting falls back to its default, it does not keep
		// the value of the previous version
		if r.Chance(12) {
			v.noEnable, v.enable = true, false
		}
		if r.Chance(10) {
			v.noList, v.ips = true, nil
		}
		return v
	}
	probes := []string{"10.0.0.1:5000", "10.0.0.2:6000", "10.0.0.3:1", "127.0.0.1:40000", "192.168.1.77:9", "10.0.0.10:1", "10.0.0.9:1", "10.0.0.1"}
	enc := func(vs []ipver, probes []string) sx.V {
		var vsx []sx.V
		for _, v := range vs {
			vsx = append(vsx, sx.L(sx.Bool(v.enable), sx.Strs(v.ips)))
		}
		return sx.L(sx.L(vsx...), sx.Strs(probes))
	}
	n := 60
	if !c.Quick() {
		n = 1500
	}
	// corpus: the repaired defects
	corpus := [][]ipver{
		{{enable: true, ips: []string{"10.0.0.1", "10.0.0.2"}}, {enable: true, ips: []string{"10.0.0.1"}}},
		{{enable: true, ips: []string{"10.0.0.1"}}, {enable: false, ips: []string{"10.0.0.2"}}, {enable: true, ips: []string{"10.0.0.3"}}},
		{{enable: false, ips: []string{"10.0.0.1"}}},
		{{enable: true}},
	}
	for _, vs := range corpus {
		c.Emit("authip", enc(vs, probes), Safe(func() sx.V { return runAuthIp(vs, probes, "load") }), "corpus", "load")
	}
	for i := 0; i < n; i++ {
		r := rng.New(c.Seed, "authip", i)
		k := r.Range(1, 10)
		var vs []ipver
		removal := false
		for j := 0; j < k; j++ {
			v := gen(r)
			if j > 0 && len(v.ips) < len(vs[j-1].ips) {
				removal = true
			}
			vs = append(vs, v)
		}
		tag := "adds-only"
		if removal {
			tag = "with-removal"
		}
		c.Emit("authip", enc(vs, probes), Safe(func() sx.V { return runAuthIp(vs, probes, "load") }), "load", tag)
	}
	// the real watcher (started once per process)
	authip.VerifReset()
	watchDir = scratchDir() + "-w"
	os.MkdirAll(watchDir, 0o755)
	defer os.RemoveAll(watchDir)
	os.WriteFile(filepath.Join(watchDir, "authip.yaml"), []byte(yamlOf(ipver{})), 0o644)
	if err := authip.LoopIPWhiteList(watchDir, "authip.yaml"); err != nil {
		c.Emit("authip", enc(nil, nil), sx.L(sx.S("watcher-error"), sx.S(err.Error())), "watch")
		return
	}
	wn := 6
	if !c.Quick() {
		wn = 60
	}
	plain := []string{"10.0.0.1", "10.0.0.2", "10.0.0.3", "127.0.0.1", "192.168.1.77", "10.0.0.10", "10.0.0.9"}
	// keys that disappear from the file between two versions, through the watcher (one loader object
	// lives across reloads there)
	wcorpus := [][]ipver{
		{{enable: true, ips: []string{"10.0.0.1"}}, {noEnable: true, ips: []string{"10.0.0.1"}}},
		{{enable: true, ips: []string{"10.0.0.1", "10.0.0.2"}}, {enable: true, noList: true}},
		{{enable: true, ips: []string{"10.0.0.3"}}, {noEnable: true, noList: true}},
		{{enable: true, ips: []string{"10.0.0.1"}}, {broken: true}, {enable: true, ips: []string{"10.0.0.2"}}},
		{{enable: true, ips: []string{"10.0.0.2"}}, {broken: true}, {broken: true}, {enable: false, ips: []string{"10.0.0.3"}}},
	}
	for i, vs := range wcorpus {
		vs := vs
		ms := []string{"inplace", []string{"inplace", "rename", "recreate"}[i%3], "rename", "inplace"}[:len(vs)]
		c.Emit("authip", enc(vs[len(vs)-1:], plain), Safe(func() sx.V { return runWatcher(vs, ms, plain) }), "watch", "corpus", "key-left-out")
	}
	for i := 0; i < wn; i++ {
		r := rng.New(c.Seed, "authip-watch", i)
		k := r.Range(1, 3)
		var vs []ipver
		var ms []string
		for j := 0; j < k; j++ {
			if j > 0 && r.Chance(25) { // a version with a typo in between
				vs = append(vs, ipver{broken: true})
				ms = append(ms, []string{"inplace", "rename", "recreate"}[(i+j+1)%3])
			}
			vs = append(vs, gen(r))
			ms = append(ms, []string{"inplace", "rename", "recreate"}[(i+j)%3])
		}
		// the model sees only the last version (a reload replaces everything); probes are bare ips
		c.Emit("authip", enc(vs[len(vs)-1:], plain), Safe(func() sx.V { return runWatcher(vs, ms, plain) }), "watch", ms[len(ms)-1])
	}
}
