package main

import (
	"sort"
	"strconv"
	"strings"

	"rcproxy/core"
	"rcproxy/core/codec"
	"rcproxy/core/pkg/logging"

	"verifharness/reqgen"
	"verifharness/rng"
	"verifharness/sx"
)

func init() {
	logging.VerifSilence()
	suites["cdecode"] = suiteCDecode
	replayers["cdecode"] = func(in sx.V) sx.V {
		it := sx.Items(in)
		return Safe(func() sx.V { return runCDecode(int(sx.Int(it[0])), sx.Bytes(it[1])) })
	}
}

func msgSx(d core.VerifCDecode) sx.V {
	type fr struct {
		slot int32
		key  string
		req  []byte
	}
	var frs []fr
	for i := range d.Slots {
		frs = append(frs, fr{d.Slots[i], d.FragKeys[i], d.FragReqs[i]})
	}
	sort.Slice(frs, func(i, j int) bool { return frs[i].slot < frs[j].slot })
	var body []sx.V
	for _, f := range frs {
		body = append(body, sx.L(sx.N(int64(f.slot)), sx.S(f.key), sx.B(f.req)))
	}
	return sx.L(sx.N(int64(d.Type)), sx.Strs(d.Keys), sx.L(body...))
}

func runCDecode(limit int, b []byte) sx.V {
	d := core.VerifDecodeClient(limit, b)
	switch d.Outcome {
	case "ok":
		m := sx.Items(msgSx(d))
		return sx.L(append([]sx.V{sx.S("ok"), sx.I(d.Consumed)}, m...)...)
	default:
		return sx.L(sx.S(d.Outcome))
	}
}

func typeTag(b []byte, limit int) string {
	d := core.VerifDecodeClient(limit, b)
	if d.Outcome != "ok" {
		return "out-" + d.Outcome
	}
	switch d.Type {
	case codec.UNKNOWN:
		return "t-unknown"
	case codec.ReqTooLarge:
		return "t-toolarge"
	case codec.ReqWrongArgumentsNumber:
		return "t-wrongargs"
	case codec.ReqMget, codec.ReqDel, codec.ReqMset:
		if len(d.Slots) > 1 {
			return "t-split-multi"
		}
		return "t-split-one"
	case codec.ReqPing, codec.ReqQuit, codec.ReqAuth:
		return "t-local"
	}
	return "t-single"
}

func suiteCDecode(c *Ctx) {
	emit := func(limit int, b []byte, tags ...string) {
		out := Safe(func() sx.V { return runCDecode(limit, b) })
		tt := "out-panic"
		if !strings.HasPrefix(sx.String(out), "(x70616e6963") {
			tt = typeTag(b, limit)
		}
		c.Emit("cdecode", sx.L(sx.I(limit), sx.B(b)), out, append(tags, tt)...)
	}
	big := 6 * 1024 * 1024
	// corpus: the witnesses of repaired defects and boundary literals, run first
	for _, s := range []string{
		"*0\r\n", "*-1\r\n", "*\r\n", "*9223372036854775808\r\n", "*2\r\n$3\r\nget\r\n$-1\r\n",
		"*02\r\n$3\r\nget\r\n$1\r\na\r\n", "*2\r\n$03\r\nget\r\n$1\r\na\r\n",
		"*2\r\n$18446744073709551619\r\nget\r\n$1\r\na\r\n", "*2\r\n$-1\r\n$1\r\na\r\n",
		"\r\n*1\r\n$4\r\nping\r\n", "\n", "x\n", "*1\n$4\r\nping\r\n", "PING\r\n", "*1\r\n$4\r\nPING\r\n",
		"*1\r\n$4\r\nquit\r\n", "*2\r\n$4\r\nAUTH\r\n$2\r\npw\r\n", "*1\r\n$0\r\n\r\n", "*1\r\n$0\r\n",
		"*3\r\n$3\r\nSET\r\n$1\r\nk\r\n$0\r\n\r\n", "*2\r\n$3\r\nget\r\n$1\r\na\r\nX", "*2\r\n$3\r\nget\r\n$1\r\nab\r\n",
		"*4\r\n$4\r\neval\r\n$1\r\ns\r\n$1\r\n1\r\n$1\r\nk\r\n", "*3\r\n$4\r\neval\r\n$1\r\ns\r\n$1\r\n0\r\n",
		"*3\r\n$4\r\nmset\r\n$1\r\na\r\n$1\r\nb\r\n", "*4\r\n$4\r\nmset\r\n$1\r\na\r\n$1\r\nb\r\n$1\r\nc\r\n",
		"*3\r\n$4\r\nMGET\r\n$6\r\n}{abc}\r\n$3\r\nabc\r\n",
	} {
		emit(big, []byte(s), "corpus")
		emit(30, []byte(s), "corpus")
	}
	// every command x letter case x argument counts 0..6 and a few large counts
	for _, name := range reqgen.Names() {
		for cs := 0; cs < 3; cs++ {
			for _, n := range []int{0, 1, 2, 3, 4, 5, 6, 9, 10} {
				r := rng.New(c.Seed, "cdecode-table-"+name, cs*100+n)
				args := [][]byte{reqgen.MixCase(r, name)}
				for i := 0; i < n; i++ {
					args = append(args, reqgen.Key(r, []string{"t1", "t2"}))
				}
				emit(big, reqgen.Enc(args), "table")
			}
		}
	}
	// unsupported names, near misses
	for i, name := range []string{"keys", "scan", "flushall", "multi", "exec", "subscribe", "info", "cluster", "select",
		"ge", "gett", "", "get ", "\xff\xfe", "GET\x00", "mgets", "delx", "pin", "randomkey", "object", "bitop", "rename"} {
		r := rng.New(c.Seed, "cdecode-unsup", i)
		for n := 0; n < 3; n++ {
			args := [][]byte{reqgen.MixCase(r, name)}
			for k := 0; k < n; k++ {
				args = append(args, reqgen.Arg(r))
			}
			emit(big, reqgen.Enc(args), "unsupported")
		}
	}
	n := 1500
	if !c.Quick() {
		n = 40000
	}
	for i := 0; i < n; i++ {
		r := rng.New(c.Seed, "cdecode", i)
		tags := []string{"ta", "tb", "tc"}[:r.Range(0, 3)]
		enc := reqgen.Enc(reqgen.Valid(r, tags))
		limit := big
		// sizes around a small limit
		if r.Chance(25) {
			limit = len(enc) + r.Range(-2, 2)
		}
		switch r.Intn(10) {
		case 0, 1, 2: // alone
			emit(limit, enc, "valid-alone")
		case 3, 4: // followed by more pipeline (complete or partial)
			next := reqgen.Enc(reqgen.Valid(r, tags))
			if r.Bool() {
				next = next[:r.Intn(len(next)+1)]
			}
			emit(limit, append(append([]byte(nil), enc...), next...), "valid-pipelined")
		case 5: // a proper prefix
			emit(limit, enc[:r.Intn(len(enc))], "prefix")
		default:
			m, how := reqgen.Mutate(r, enc)
			if r.Chance(30) {
				m = append(m, reqgen.Enc(reqgen.Valid(r, tags))...)
			}
			emit(limit, m, "mutated", how)
		}
	}
	// key lists longer than the number of slots (16390 keys: some slot gets two keys whatever the
	// hash, every fragment map grows well past its first size, the argument count exceeds every
	// slot-count-sized hint).  The run evaluates decode_fast (proved equal to decode), which needs
	// seconds for such a request: MGET in both tiers, DEL and MSET at full size in the thorough tier
	for _, cmd := range []string{"mget", "del", "mset"} {
		nk := 16390
		if c.Quick() && cmd != "mget" {
			nk = 500
		}
		args := [][]byte{[]byte(cmd)}
		for i := 0; i < nk; i++ {
			args = append(args, []byte("k"+strconv.Itoa(i)))
			if cmd == "mset" {
				args = append(args, []byte("v"))
			}
		}
		emit(big, reqgen.Enc(args), "long-key-list")
	}
	// every prefix of a few requests
	for i := 0; i < 12; i++ {
		r := rng.New(c.Seed, "cdecode-prefixes", i)
		enc := reqgen.Enc(reqgen.Valid(r, []string{"t"}))
		if len(enc) > 160 {
			continue
		}
		for k := 0; k <= len(enc); k++ {
			emit(big, enc[:k], "all-prefixes")
		}
	}
}
