package main

// Replayers for the entries whose inputs are histories: the recorded events are executed again on
// a fresh world.  What the run itself contributes to the input (wire order inside one request,
// dial totals, pooled capacities) is recorded again, so the replayed case is consistent.

import (
	"verifharness/stepper"
	"verifharness/sx"
)

// replayersIO return the (possibly re-recorded) input together with the output.
var replayersIO = map[string]func(in sx.V) (sx.V, sx.V){}

func init() {
	replayersIO["loop"] = func(in sx.V) (sx.V, sx.V) {
		var in2, out sx.V
		o := Safe(func() sx.V { in2, out = replayLoop(in, false); return out })
		if in2 == nil {
			in2 = in
		}
		return in2, o
	}
	replayersIO["loopfinal"] = func(in sx.V) (sx.V, sx.V) {
		var in2, out sx.V
		o := Safe(func() sx.V { in2, out = replayLoop(in, true); return out })
		if in2 == nil {
			in2 = in
		}
		return in2, o
	}
	replayers["cparse"] = func(in sx.V) sx.V {
		return Safe(func() sx.V {
			l := sx.Items(in)
			var known []string
			for _, k := range sx.Items(l[1]) {
				known = append(known, string(sx.Bytes(k)))
			}
			return runCParse(infosOf(l[0]), known, string(sx.Bytes(l[2])))
		})
	}
	replayers["cluster"] = func(in sx.V) sx.V {
		return Safe(func() sx.V {
			l := sx.Items(in)
			var pools [][2]string
			for _, p := range sx.Items(l[1]) {
				f := sx.Items(p)
				role := "0"
				if sx.Int(f[1]) != 0 {
					role = "1"
				}
				pools = append(pools, [2]string{string(sx.Bytes(f[0])), role})
			}
			var events []string
			for _, e := range sx.Items(l[2]) {
				f := sx.Items(e)
				if sx.Int(f[0]) == 1 {
					events = append(events, "t")
				} else {
					events = append(events, "m"+string(sx.Bytes(f[1])))
				}
			}
			return runCluster(infosOf(l[0]), pools, events)
		})
	}
}

func infosOf(v sx.V) []infoEnt {
	var infos []infoEnt
	for _, e := range sx.Items(v) {
		f := sx.Items(e)
		infos = append(infos, infoEnt{string(sx.Bytes(f[0])), sx.Int(f[1]) != 0, sx.Int(f[2]) != 0, sx.Int(f[3]) != 0})
	}
	return infos
}

func replayLoop(in sx.V, pressure bool) (sx.V, sx.V) {
	l := sx.Items(in)
	c := sx.Items(l[0])
	cfg := worldCfg{limit: int(sx.Int(c[0])), password: string(sx.Bytes(c[1])), timeout: sx.Int(c[2]) != 0, maxConns: int(sx.Int(c[3])), undial: map[string]bool{}}
	wcap := 0
	if len(c) > 4 {
		wcap = int(sx.Int(c[4]))
	}
	for _, p := range sx.Items(l[1]) {
		f := sx.Items(p)
		a := string(sx.Bytes(f[0]))
		cfg.nodes = append(cfg.nodes, a)
		if sx.Int(f[1]) == 0 {
			cfg.undial[a] = true
		}
	}
	for _, r := range sx.Items(l[2]) {
		f := sx.Items(r)
		cfg.ranges = append(cfg.ranges, [3]interface{}{int(sx.Int(f[0])), int(sx.Int(f[1])), string(sx.Bytes(f[2]))})
	}
	var w0 *world
	var err error
	if pressure {
		s, e := stepper.New(stepper.Config{Limit: cfg.limit, MaxConns: 1, DisableSlav: true, Undialable: cfg.undial, SmallSockBuf: true, WriteBufferCap: wcap})
		if e != nil {
			return in, sx.L(sx.S("setup-error"))
		}
		w0, err = newWorldOn(s, cfg)
		if err == nil {
			w0.wcap = wcap
		}
	} else {
		w0, err = newWorld(cfg)
	}
	if err != nil {
		return in, sx.L(sx.S("setup-error"))
	}
	w := &pworld{world: w0, parsed: map[*stepper.Peer]int{}}
	defer func() {
		if !loopWedged {
			w.s.Close()
		}
	}()
	backend := func(addr string, k int) *stepper.Peer {
		n := 0
		for _, b := range w.s.Backends {
			if b.Addr == addr {
				if n == k {
					return b
				}
				n++
			}
		}
		return nil
	}
	ok := true
	for _, e := range sx.Items(l[3]) {
		if !ok {
			break
		}
		f := sx.Items(e)
		switch sx.Int(f[0]) {
		case 0:
			if pressure {
				p, _ := w.s.Connect("127.0.0.1")
				w.quietRecord(sx.L(sx.I(0), f[1], sx.Bool(w.s.L.IsOpen(p.ProxyFd))))
			} else {
				w.connect("127.0.0.1")
			}
		case 1:
			if pressure {
				ok = w.send(int(sx.Int(f[1])), sx.Bytes(f[2]))
			} else {
				w.clientData(int(sx.Int(f[1])), sx.Bytes(f[2]))
			}
		case 2:
			if pressure {
				ok = w.tasks()
			} else {
				w.runTasks()
			}
		case 3:
			p := backend(string(sx.Bytes(f[1])), int(sx.Int(f[2])))
			if p == nil {
				continue
			}
			if pressure {
				b := sx.Bytes(f[3])
				a, k := w.backendName(p)
				ok = guard(func() { w.s.Send(p, b) })
				w.quietRecord(sx.L(sx.I(3), sx.S(a), sx.I(k), sx.B(b)))
			} else {
				w.backendData(p, sx.Bytes(f[3]))
			}
		case 4:
			w.closeClient(int(sx.Int(f[1])))
		case 5:
			if p := backend(string(sx.Bytes(f[1])), int(sx.Int(f[2]))); p != nil {
				w.closeBackend(p)
			}
		case 6:
			w.timeoutScan()
		case 12:
			a := string(sx.Bytes(f[1]))
			w.cfg.undial[a] = sx.Int(f[2]) == 0
			w.record(sx.L(sx.I(12), sx.S(a), sx.Bool(!w.cfg.undial[a])))
		case 7:
			// the ticker's probe: the node is chosen by math/rand, which a replay cannot steer; the
			// round is run and recorded as it happens
			w.probe(int64(len(w.events)))
		case 9:
			t := &topo{}
			role := map[string]bool{}
			var order []string
			for _, n := range sx.Items(f[1]) {
				x := sx.Items(n)
				role[string(sx.Bytes(x[0]))] = sx.Int(x[1]) != 0
				order = append(order, string(sx.Bytes(x[0])))
			}
			idx := map[string]int{}
			for i, a := range order {
				idx[a] = i
				t.nodes = append(t.nodes, tnode{addr: a, present: true, slave: role[a], lo: 1, hi: 0})
			}
			firstMaster := 0
			for i := range t.nodes {
				if !t.nodes[i].slave {
					firstMaster = i
					break
				}
			}
			for i := range t.nodes {
				if t.nodes[i].slave {
					t.nodes[i].master = firstMaster
				}
			}
			for _, rg := range sx.Items(f[2]) {
				x := sx.Items(rg)
				i := idx[string(sx.Bytes(x[2]))]
				t.nodes[i].lo, t.nodes[i].hi = int(sx.Int(x[0])), int(sx.Int(x[1]))
			}
			w.applyTopology(t)
		case 8:
			// (8 0 c n) a client reads up to n bytes; (8 1 addr k n) a backend does
			var p *stepper.Peer
			var n int
			if sx.Int(f[1]) == 0 {
				if i := int(sx.Int(f[2])); i < len(w.s.Clients) {
					p = w.s.Clients[i]
				}
				n = int(sx.Int(f[3]))
			} else {
				p = backend(string(sx.Bytes(f[2])), int(sx.Int(f[3])))
				n = int(sx.Int(f[4]))
			}
			if p != nil {
				ok = w.drain(p, n)
			}
		}
	}
	if pressure {
		if !ok {
			return w.inputSx(), stuckOut()
		}
		return w.inputSx(), sx.L(w.observeFinal())
	}
	return w.inputSx(), sx.L(w.obs...)
}
