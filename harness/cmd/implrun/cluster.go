package main

import (
	"fmt"
	"strconv"
	"strings"
	"time"

	"rcproxy/core"

	"verifharness/rng"
	"verifharness/sx"
)

// cluster: CLUSTER NODES texts through the production parse (cparse) and histories of probe
// replies through the production refresh goroutine + ticker (cluster), with a scripted INFO oracle.

type infoEnt struct {
	addr             string
	loading, up, err bool
}

type noTickHandler struct{ core.BuiltinEventEngine }

func init() {
	suites["cluster"] = suiteCluster
}

var probeSlots = []int{0, 1, 100, 2999, 3000, 5460, 5461, 8191, 8192, 10922, 10923, 12000, 16382, 16383}

func infoFunc(infos []infoEnt) core.VerifInfoFunc {
	return func(addr string) (bool, bool, bool) {
		for _, e := range infos {
			if e.addr == addr {
				return e.loading, e.up, e.err
			}
		}
		return false, true, false
	}
}

func nodeSx(n core.VerifNode) sx.V {
	var sl []sx.V
	for _, s := range n.Slots {
		sl = append(sl, sx.L(sx.N(int64(s[0])), sx.N(int64(s[1]))))
	}
	return sx.L(sx.S(n.Name), sx.S(n.Addr), sx.Bool(n.Slave), sx.S(n.MasterId), sx.L(sl...))
}

func runCParse(infos []infoEnt, known []string, text string) sx.V {
	nodes, ok := core.VerifClusterParse(text, known, infoFunc(infos))
	if !ok {
		return sx.L(sx.I(0), sx.L())
	}
	var ns []sx.V
	for _, n := range nodes {
		ns = append(ns, nodeSx(n))
	}
	return sx.L(sx.I(1), sx.L(ns...))
}

func dumpCluster() sx.V {
	st := core.VerifClusterDump()
	var servers, sets, pools, owners []sx.V
	for _, n := range st.Servers {
		servers = append(servers, nodeSx(n))
	}
	for _, s := range st.Sets {
		sets = append(sets, sx.Strs(s))
	}
	addrs, slave := core.VerifPools()
	for i := range addrs {
		pools = append(pools, sx.L(sx.S(addrs[i]), sx.Bool(slave[i])))
	}
	for _, s := range probeSlots {
		m, sl, ok := core.VerifSlotOwner(int32(s))
		if ok {
			owners = append(owners, sx.L(sx.I(s), sx.S(m), sx.Strs(sl)))
		} else {
			owners = append(owners, sx.L(sx.I(s)))
		}
	}
	// the addresses OnTicker picks the node to probe from: after a ticker round, the pool addresses
	return sx.L(sx.L(servers...), sx.L(sets...), sx.Bool(st.Changed), sx.L(pools...), sx.L(owners...), sx.Strs(core.VerifProxyAddrs()))
}

func waitDrained() bool {
	deadline := time.Now().Add(1500 * time.Millisecond)
	for core.VerifClusterChanLen() > 0 {
		if time.Now().After(deadline) {
			return false
		}
		time.Sleep(50 * time.Microsecond)
	}
	return true
}

// events: "m<bytes>" = a probe reply, "t" = a ticker round
func runCluster(infos []infoEnt, pools [][2]string, events []string) sx.V {
	l, err := core.VerifNewLoop(&noTickHandler{})
	if err != nil {
		return sx.L(sx.S("setup-error"))
	}
	defer l.Shutdown()
	for _, p := range pools {
		l.AddPool(p[0], p[1] == "1", nil)
	}
	core.VerifSetInfo(infoFunc(infos))
	loop := core.VerifStartClusterLoop()
	ended := func() (sx.V, bool) {
		select {
		case <-loop.Done:
			if loop.Panic != "" {
				return sx.L(sx.S("refresh-goroutine-panicked"), sx.S(loop.Panic)), true
			}
			return sx.L(sx.S("refresh-goroutine-ended")), true
		default:
			return nil, false
		}
	}
	var obs []sx.V
	for _, e := range events {
		if e[0] == 't' {
			l.Tick()
			obs = append(obs, dumpCluster())
			continue
		}
		// hand the reply over, then a skipped dummy: once the dummy has been taken from the channel
		// the reply before it has been processed completely
		if !core.VerifClusterSend([]byte(e[1:])) || !waitDrained() {
			if o, dead := ended(); dead {
				return sx.L(append(obs, o)...)
			}
			obs = append(obs, sx.L(sx.S("refresh-loop-not-reading")))
			return sx.L(obs...)
		}
		if !core.VerifClusterSend([]byte("+")) || !waitDrained() {
			if o, dead := ended(); dead {
				return sx.L(append(obs, o)...)
			}
			obs = append(obs, sx.L(sx.S("refresh-loop-not-reading")))
			return sx.L(obs...)
		}
		time.Sleep(20 * time.Microsecond)
		if o, dead := ended(); dead {
			return sx.L(append(obs, o)...)
		}
		obs = append(obs, dumpCluster())
	}
	return sx.L(obs...)
}

// ---- generators ----
type gnode struct {
	name, addr, flags, master, link string
	slots                           []string
	cols                            int
}

func (n gnode) line() string {
	parts := []string{n.name, n.addr, n.flags, n.master, "0", "1646637827924", "5", n.link}
	parts = append(parts, n.slots...)
	if n.cols > 0 && n.cols < len(parts) {
		parts = parts[:n.cols]
	}
	return strings.Join(parts, " ")
}

func genTopology(r *rng.R, variant int) ([]gnode, []infoEnt) {
	nm := r.Range(1, 4)
	bounds := []int{0, 3000, 5461, 8192, 10923, 16384}
	var nodes []gnode
	var infos []infoEnt
	ip := func(i int) string { return fmt.Sprintf("10.%d.0.%d", variant%3, i) }
	for i := 0; i < nm; i++ {
		lo, hi := bounds[i], bounds[i+1]-1
		if i == nm-1 {
			hi = 16383
		}
		n := gnode{name: fmt.Sprintf("m%02d%036d", i, variant%2), addr: ip(i) + ":7000@17000", flags: "master", master: "-", link: "connected"}
		switch r.Intn(8) {
		case 0:
			n.slots = []string{strconv.Itoa(lo) + "-" + strconv.Itoa((lo+hi)/2), strconv.Itoa((lo+hi)/2+1) + "-" + strconv.Itoa(hi)}
		case 1:
			// a slot in migration: the migrating node lists [slot->-dst], the importing node [slot-<-src]
			switch r.Intn(3) {
			case 0:
				n.slots = []string{strconv.Itoa(lo) + "-" + strconv.Itoa(hi), "[" + strconv.Itoa(lo) + "->-abc]"}
			case 1:
				n.slots = []string{strconv.Itoa(lo) + "-" + strconv.Itoa(hi), "[" + strconv.Itoa((lo+hi)/2) + "-<-abc]"}
			default:
				n.slots = []string{"[" + strconv.Itoa(hi) + "-<-abc]", strconv.Itoa(lo) + "-" + strconv.Itoa(hi), "[" + strconv.Itoa(lo) + "->-def]"}
			}
		case 2:
			n.slots = []string{strconv.Itoa(lo), strconv.Itoa(lo+1) + "-" + strconv.Itoa(hi)}
		default:
			n.slots = []string{strconv.Itoa(lo) + "-" + strconv.Itoa(hi)}
		}
		if i == 0 {
			n.flags = "myself,master"
		}
		nodes = append(nodes, n)
		for k := 0; k < r.Range(0, 2); k++ {
			s := gnode{name: fmt.Sprintf("s%02d%d%035d", i, k, 0), addr: ip(10+i*3+k) + ":7000@17000", flags: "slave", master: n.name, link: "connected"}
			if r.Chance(15) { // replica follows another master in this variant
				s.master = fmt.Sprintf("m%02d%036d", (i+1)%nm, variant%2)
			}
			nodes = append(nodes, s)
			if r.Chance(20) {
				infos = append(infos, infoEnt{strings.Split(s.addr, "@")[0], r.Chance(50), r.Chance(50), r.Chance(20)})
			}
		}
	}
	// damage some lines
	for i := range nodes {
		switch r.Intn(24) {
		case 0:
			nodes[i].flags += ",fail"
		case 1:
			nodes[i].flags += ",fail?"
		case 2:
			nodes[i].flags = "handshake"
		case 3:
			nodes[i].flags += ",noaddr"
		case 4:
			nodes[i].link = "disconnected"
		case 5:
			nodes[i].cols = r.Range(3, 8)
		case 6:
			nodes[i].addr = r.Pick(":7000", "10.0.0.1", "10.0.0.1:", "10.0.0.1:x7", "host.example:7000", "10.0.0.1:+7000@1", "[::1]:7000")
		case 7:
			if len(nodes[i].slots) > 0 {
				nodes[i].slots[0] = r.Pick("0-20000", "16384", "99999999999", "5-", "-5", "a-b", "7-3", "100", "16383")
			}
		case 8:
			nodes[i].flags = r.Pick("", "myself", "master,slave", "slave,master")
		}
	}
	return nodes, infos
}

func textOf(nodes []gnode, r *rng.R) string {
	var lines []string
	for _, n := range nodes {
		lines = append(lines, n.line())
	}
	if r.Chance(20) {
		lines = append(lines, "")
	}
	if r.Chance(10) {
		lines = append(lines, "garbage line")
	}
	return strings.Join(lines, "\n") + "\n"
}

func bulk(text string) string { return "$" + strconv.Itoa(len(text)) + "\r\n" + text + "\r\n" }

func suiteCluster(c *Ctx) {
	n := 250
	if !c.Quick() {
		n = 6000
	}
	infoSx := func(infos []infoEnt) sx.V {
		var v []sx.V
		for _, e := range infos {
			v = append(v, sx.L(sx.S(e.addr), sx.Bool(e.loading), sx.Bool(e.up), sx.Bool(e.err)))
		}
		return sx.L(v...)
	}
	for i := 0; i < n; i++ {
		r := rng.New(c.Seed, "cparse", i)
		nodes, infos := genTopology(r, i)
		text := textOf(nodes, r)
		var known []string
		for _, nd := range nodes {
			if r.Chance(40) {
				known = append(known, strings.Split(nd.addr, "@")[0])
			}
		}
		c.Emit("cparse", sx.L(infoSx(infos), sx.Strs(known), sx.S(text)),
			Safe(func() sx.V { return runCParse(infos, known, text) }), "parse", fmt.Sprintf("nodes-%d", len(nodes)))
	}
	hn := 60
	if !c.Quick() {
		hn = 1500
	}
	unusable := []string{"+OK\r\n", "$-1\r\n", "-ERR unknown command 'cluster'\r\n", "+\r", "$5\r\nab\ncd\r\n",
		"$200000\r\n" + strings.Repeat("x", 200000) + "\r\n", "-LOADING Redis is loading\r\n", "+PONG\r\n", "$0\r\n\r\n"}
	for i := 0; i < hn; i++ {
		r := rng.New(c.Seed, "cluster", i)
		var events []string
		var infos []infoEnt
		k := r.Range(2, 8)
		kinds := map[string]bool{}
		base, binfo := genTopology(r, i)
		base0 := append([]gnode{}, base...)
		infos = append(infos, binfo...)
		for j := 0; j < k; j++ {
			switch r.Intn(9) {
			case 8: // slots that were owned become unowned: the last master fails, or the table loses its top / bottom slot
				which := r.Intn(3)
				for x := range base {
					if !strings.Contains(base[x].flags, "master") || len(base[x].slots) == 0 {
						continue
					}
					last := base[x].slots[len(base[x].slots)-1]
					if which == 0 && strings.HasSuffix(last, "-16383") {
						base[x].flags += ",fail"
						kinds["unclaim"] = true
						break
					}
					if which == 1 && strings.HasSuffix(last, "-16383") {
						base[x].slots[len(base[x].slots)-1] = strings.TrimSuffix(last, "16383") + "16382"
						kinds["unclaim"] = true
						break
					}
					if which == 2 && strings.HasPrefix(base[x].slots[0], "0-") {
						base[x].slots[0] = "1-" + strings.TrimPrefix(base[x].slots[0], "0-")
						kinds["unclaim"] = true
						break
					}
				}
				events = append(events, "m"+bulk(textOf(base, r)), "t")
			case 7: // failover: a master and one of its replicas swap roles (same addresses)
				for x := range base {
					if base[x].flags == "slave" {
						for y := range base {
							if strings.Contains(base[y].flags, "master") && base[y].name == base[x].master && len(base[y].slots) > 0 {
								base[x].flags, base[x].slots, base[x].master = "master", base[y].slots, "-"
								base[y].flags, base[y].slots, base[y].master = "slave", nil, base[x].name
								infos = append(infos, infoEnt{strings.Split(base[y].addr, "@")[0], false, true, false})
								kinds["failover"] = true
								break
							}
						}
						if kinds["failover"] {
							break
						}
					}
				}
				events = append(events, "m"+bulk(textOf(base, r)))
				if r.Chance(70) { // otherwise the next description arrives before the ticker has applied this one
					events = append(events, "t")
				} else {
					kinds["untick"] = true
				}
			case 0:
				events = append(events, "m"+unusable[r.Intn(len(unusable))])
				kinds["unusable"] = true
			case 1:
				events = append(events, "t")
			case 2: // replica re-parented, nothing else changes
				for x := range base {
					if base[x].flags == "slave" {
						for y := range base {
							if strings.Contains(base[y].flags, "master") && base[y].name != base[x].master {
								base[x].master = base[y].name
								kinds["reparent"] = true
								break
							}
						}
						break
					}
				}
				events = append(events, "m"+bulk(textOf(base, r)))
				if r.Chance(70) { // otherwise the next description arrives before the ticker has applied this one
					events = append(events, "t")
				} else {
					kinds["untick"] = true
				}
			case 3: // a different topology
				nb, ni := genTopology(r, i+j+1)
				base = nb
				infos = append(infos, ni...)
				events = append(events, "m"+bulk(textOf(base, r)))
				if r.Chance(70) { // otherwise the next description arrives before the ticker has applied this one
					events = append(events, "t")
				} else {
					kinds["untick"] = true
				}
				kinds["change"] = true
			default:
				events = append(events, "m"+bulk(textOf(base, r)))
				if r.Chance(70) {
					events = append(events, "t")
				}
			}
		}
		events = append(events, "t") // the last description is applied
		// configured seed addresses: one foreign address, and sometimes nodes of the first topology
		// with a role that may be wrong (a seed that is really a replica starts as a master pool)
		pools := [][2]string{{"10.9.9.9:7000", "0"}}
		for _, nd := range base0 {
			if r.Chance(25) && len(pools) < 3 {
				pools = append(pools, [2]string{strings.Split(nd.addr, "@")[0], r.Pick("0", "1")})
				kinds["seed-is-node"] = true
			}
		}
		var evsx []sx.V
		for _, e := range events {
			if e[0] == 't' {
				evsx = append(evsx, sx.L(sx.I(1)))
			} else {
				evsx = append(evsx, sx.L(sx.I(0), sx.S(e[1:])))
			}
		}
		var tags []string
		for kd := range kinds {
			tags = append(tags, kd)
		}
		if len(tags) == 0 {
			tags = []string{"plain"}
		}
		var poolsx []sx.V
		for _, p := range pools {
			role := 0
			if p[1] == "1" {
				role = 1
			}
			poolsx = append(poolsx, sx.L(sx.S(p[0]), sx.I(role)))
		}
		c.Emit("cluster", sx.L(infoSx(infos), sx.L(poolsx...), sx.L(evsx...), sx.Ints(probeSlots)),
			Safe(func() sx.V { return runCluster(infos, pools, events) }), append([]string{"history"}, tags...)...)
	}
}
