package main

// Suite pressure (C10, C12, C19 users): histories in which peers do not read what the proxy writes.
// The proxy's end of every socketpair has a minimal send buffer, so writes to a non-reading client
// or backend are partial and the remainder sits in the connection's outbound buffer until the peer
// drains and a writable event arrives.  Only the FINAL state is compared with the model (which
// delivers bytes at once): after everybody has drained, every byte stream must be what the model
// says, whatever the interleaving of partial writes was.

import (
	"fmt"
	"sort"
	"strconv"
	"time"

	"rcproxy/core/pkg/hashkit"

	"verifharness/resp"
	"verifharness/rng"
	"verifharness/stepper"
	"verifharness/sx"
)

func init() {
	suites["pressure"] = suitePressure
}

var loopWedged bool

// guard runs one loop event; an event that does not return within the deadline means the single
// event loop is stuck (in production: the whole proxy).
func guard(f func()) bool {
	if loopWedged {
		return false
	}
	done := make(chan struct{})
	go func() { f(); close(done) }()
	select {
	case <-done:
		return true
	case <-time.After(4 * time.Second):
		loopWedged = true
		return false
	}
}

type pworld struct {
	*world
	r      *rng.R
	parsed map[*stepper.Peer]int // bytes of Got already handed to the fake node
}

func bigValue(tag string, n int) []byte {
	b := make([]byte, n)
	for i := range b {
		b[i] = "0123456789abcdefghijklmnopqrstuvwxyz"[(i+len(tag)*7+int(tag[len(tag)-1]))%36]
	}
	return b
}

// a request whose key lands on node `node` of a two-node layout (0-8191 / 8192-16383)
func keyOn(id string, first bool) string {
	for j := 0; ; j++ {
		k := id + "x" + strconv.Itoa(j)
		if (int(hashkit.Hash(k)) <= 8191) == first {
			return k
		}
	}
}

func (w *pworld) quietRecord(ev sx.V) { w.events = append(w.events, ev) }

func (w *pworld) send(c int, b []byte) bool {
	p := w.s.Clients[c]
	if w.closedC[c] || p.EOF || !w.s.L.IsOpen(p.ProxyFd) {
		return true
	}
	ok := guard(func() { w.s.Send(p, b) })
	counts := map[string]int{}
	for _, bk := range w.s.Backends {
		counts[bk.Addr]++
	}
	var totals []sx.V
	for _, a := range w.cfg.nodes {
		if counts[a] > 0 {
			totals = append(totals, sx.L(sx.S(a), sx.I(counts[a])))
		}
	}
	w.quietRecord(sx.L(sx.I(1), sx.I(c), sx.B(b), sx.L(totals...)))
	return ok
}

func (w *pworld) tasks() bool {
	ok := guard(func() { w.s.RunTasks(40) })
	w.quietRecord(sx.L(sx.I(2), sx.L()))
	return ok
}

// drain: the peer reads some of what is waiting, then the loop gets its writable event
func (w *pworld) drain(p *stepper.Peer, max int) bool {
	isClient := false
	for i, c := range w.s.Clients {
		if c == p {
			isClient = true
			w.quietRecord(sx.L(sx.I(8), sx.I(0), sx.I(i), sx.I(max)))
		}
	}
	if !isClient {
		a, k := w.backendName(p)
		w.quietRecord(sx.L(sx.I(8), sx.I(1), sx.S(a), sx.I(k), sx.I(max)))
	}
	w.s.DrainSome(p, max)
	return w.writable(p)
}

// the loop's writable event for the connection of p
func (w *pworld) writable(p *stepper.Peer) bool {
	if !p.EOF && w.s.L.IsOpen(p.ProxyFd) {
		return guard(func() { w.s.L.Event(p.ProxyFd, false, true) })
	}
	return true
}

// drainOnly: the peer reads, the loop has not seen the writable event yet (epoll reports it in a
// later round): whatever the loop writes to this connection meanwhile must queue up behind the
// backlog it still holds
func (w *pworld) drainOnly(p *stepper.Peer, max int) {
	a, k := w.backendName(p)
	w.quietRecord(sx.L(sx.I(8), sx.I(1), sx.S(a), sx.I(k), sx.I(max)))
	w.s.DrainSome(p, max)
}

// the fake node answers the complete requests it has READ so far and not answered yet
func (w *pworld) answerRead(p *stepper.Peer, n int) bool {
	reqs, _, _ := resp.ParseRequests(p.Got)
	var rs [][][]byte
	for _, r := range reqs {
		rs = append(rs, r)
	}
	var out []byte
	for i := 0; i < n && w.answered[p] < len(rs); i++ {
		a := rs[w.answered[p]]
		key := ""
		if len(a) > 1 {
			key = string(a[1])
		}
		switch string(a[0]) {
		case "get":
			out = append(out, resp.Bulk([]byte("V("+key+")"))...)
		default:
			out = append(out, []byte("+OK\r\n")...)
		}
		w.answered[p]++
	}
	if len(out) == 0 || p.EOF || !w.s.L.IsOpen(p.ProxyFd) {
		return true
	}
	a, k := w.backendName(p)
	ok := guard(func() { w.s.Send(p, out) })
	w.quietRecord(sx.L(sx.I(3), sx.S(a), sx.I(k), sx.B(out)))
	return ok
}

func stuckOut() sx.V { return sx.L(sx.L(sx.S("event-loop-stuck"))) }

func runPressure(seed uint64, idx int) (in sx.V, out sx.V, tags []string) {
	r := rng.New(seed, "pressure", idx)
	nodes := []string{"10.1.0.1:7000", "10.1.0.2:7000", "10.1.0.3:7000"}
	cfg := worldCfg{limit: 1 << 20, maxConns: 1, nodes: nodes, undial: map[string]bool{}}
	cfg.ranges = [][3]interface{}{{0, 8191, nodes[0]}, {8192, 16383, nodes[1]}}
	tm := 0
	// the ring-to-list threshold of the outbound buffers: the production 64 KiB, or small so that
	// the spill is reached with a few requests
	wcap := []int{0, 2048, 4096, 4096, 8192}[r.Intn(5)]
	s, err := stepper.New(stepper.Config{Limit: cfg.limit, TimeoutMs: tm, MaxConns: 1, DisableSlav: true, Undialable: cfg.undial, SmallSockBuf: true, WriteBufferCap: wcap})
	if err != nil {
		return sx.L(), sx.L(sx.S("setup-error")), nil
	}
	w0, err := newWorldOn(s, cfg)
	if err != nil {
		return sx.L(), sx.L(sx.S("setup-error")), nil
	}
	w0.wcap = wcap
	w := &pworld{world: w0, r: r, parsed: map[*stepper.Peer]int{}}
	defer func() {
		if !loopWedged {
			w.s.Close()
		}
	}()
	tagset := map[string]bool{}
	if wcap > 0 {
		tagset["small-static-buffer"] = true
	}
	nc := r.Range(1, 2)
	for i := 0; i < nc; i++ {
		p, _ := w.s.Connect("127.0.0.1")
		w.quietRecord(sx.L(sx.I(0), sx.I(i), sx.Bool(w.s.L.IsOpen(p.ProxyFd))))
	}
	nextReq := func(c int) []byte {
		w.reqSeq[c]++
		id := fmt.Sprintf("c%dr%d", c, w.reqSeq[c])
		onFirst := r.Chance(60)
		switch r.Intn(7) {
		case 6: // answered by the proxy itself: written at once when nothing older is pending for the client
			tagset["local-reply"] = true
			return []byte(r.Pick("*1\r\n$4\r\nPING\r\n", "*1\r\n$3\r\nget\r\n", "*2\r\n$9\r\nnosuchcmd\r\n$1\r\nx\r\n"))
		case 0, 1: // a large write
			tagset["big-request"] = true
			return []byte("*3\r\n$3\r\nset\r\n" + string(resp.Bulk([]byte(keyOn(id, onFirst)))) + string(resp.Bulk(bigValue(id, r.Range(1500, 9000)))))
		case 2, 3: // a read with a large reply
			tagset["big-reply"] = true
			// the reply convention is V(<key>): a long key gives a long reply
			return []byte("*2\r\n$3\r\nget\r\n" + string(resp.Bulk([]byte(keyOn(id+"P"+string(bigValue(id, r.Range(2500, 8000))), onFirst)))))
		default:
			return []byte("*2\r\n$3\r\nget\r\n" + string(resp.Bulk([]byte(keyOn(id, onFirst)))))
		}
	}
	ok := true
	steps := r.Range(6, 30)
	scenario := r.Intn(5) // 4: a client that never reads sends garbage at the end
	for i := 0; i < steps && ok; i++ {
		switch r.Intn(14) {
		case 13:
			// one read full of requests the proxy answers itself, from a client that is not reading: the
			// replies fill its socket, the first write that finds it full (EAGAIN with an empty backlog)
			// parks the reply - and the rest of that read must still be served
			c := r.Intn(nc)
			if !(scenario == 4 && c == 0) {
				var b []byte
				// wrong arity: a 43-byte reply each; 150-300 of them overflow the minimal socket buffer
				// (the model's cost grows with the square of what a client has received, so not more)
				for k := r.Range(150, 300); k > 0; k-- {
					w.reqSeq[c]++
					b = append(b, []byte("*1\r\n$3\r\nget\r\n")...)
				}
				ok = w.send(c, b)
				tagset["read-full-of-local-replies"] = true
			}
		case 12:
			// every pending request is answered while the client reads nothing (its replies pile up in the
			// ring and the overflow list); the client then reads a little - one writable event drains part
			// of the backlog - and sends a request the proxy answers itself: that reply goes through the
			// direct write path and must queue up behind the backlog
			c := r.Intn(nc)
			if !(scenario == 4 && c == 0) {
				for round := 0; round < 4 && ok; round++ {
					ok = w.tasks()
					for _, p := range w.s.Backends {
						if ok {
							ok = w.drain(p, 1<<16)
						}
						if ok {
							ok = w.answerRead(p, 1000)
						}
					}
				}
				if ok {
					ok = w.drain(w.s.Clients[c], r.Range(1000, 30000))
				}
				if ok {
					w.reqSeq[c]++
					ok = w.send(c, []byte("*1\r\n$4\r\nPING\r\n"))
				}
				tagset["local-reply-behind-backlog"] = true
			}
		case 0, 1, 2, 3, 4:
			c := r.Intn(nc)
			var b []byte
			for k := r.Range(1, 4); k > 0; k-- {
				b = append(b, nextReq(c)...)
			}
			ok = w.send(c, b)
		case 5, 6:
			ok = w.tasks()
		case 7, 8:
			// a backend reads a little of what the proxy has written to it, and answers what it has
			if len(w.s.Backends) > 0 {
				ok = w.tasks()
				p := w.s.Backends[r.Intn(len(w.s.Backends))]
				if ok {
					ok = w.drain(p, r.Range(1, 6000))
				}
				if ok {
					ok = w.answerRead(p, r.Range(1, 3))
				}
				tagset["slow-backend"] = true
			}
		case 10:
			// a backend reads part of its backlog; before the loop handles the writable event, clients
			// send more requests and a task round writes them
			if len(w.s.Backends) > 0 {
				ok = w.tasks()
				p := w.s.Backends[r.Intn(len(w.s.Backends))]
				if ok {
					w.drainOnly(p, r.Range(1, 20000))
					for k := r.Range(1, 3); k > 0 && ok; k-- {
						c := r.Intn(nc)
						ok = w.send(c, nextReq(c))
					}
				}
				if ok {
					ok = w.tasks()
				}
				if ok {
					ok = w.writable(p)
				}
				tagset["late-writable"] = true
			}
		case 11:
			// a client with replies piled up reads what has reached its socket and, in the same breath,
			// sends more requests: the loop sees ONE event, readable and writable.  The dispatcher must
			// flush the backlog (the socket has room again) - it must not serve the new bytes only
			c := r.Intn(nc)
			p := w.s.Clients[c]
			if !(scenario == 4 && c == 0) && !w.closedC[c] && !p.EOF && w.s.L.IsOpen(p.ProxyFd) {
				before := w.s.L.Snapshot()[p.ProxyFd].Outbound
				n0 := len(p.Got)
				w.s.DrainSome(p, 1<<22)
				drained := len(p.Got) - n0
				b := nextReq(c)
				ok = guard(func() { w.s.SendCombined(p, b) })
				counts := map[string]int{}
				for _, bk := range w.s.Backends {
					counts[bk.Addr]++
				}
				var totals []sx.V
				for _, a := range w.cfg.nodes {
					if counts[a] > 0 {
						totals = append(totals, sx.L(sx.S(a), sx.I(counts[a])))
					}
				}
				w.quietRecord(sx.L(sx.I(1), sx.I(c), sx.B(b), sx.L(totals...)))
				n1 := len(p.Got)
				w.s.DrainSome(p, 1<<22)
				w.quietRecord(sx.L(sx.I(11), sx.I(c), sx.I(before), sx.I(drained), sx.I(len(p.Got)-n1)))
				if before > 0 {
					tagset["readable-and-writable"] = true
				}
			}
		case 9:
			// a client reads a little (unless it is the one that never reads)
			c := r.Intn(nc)
			if !(scenario == 4 && c == 0) {
				ok = w.drain(w.s.Clients[c], r.Range(1, 5000))
				tagset["slow-client"] = true
			}
		default:
			if len(w.s.Backends) > 0 {
				p := w.s.Backends[r.Intn(len(w.s.Backends))]
				ok = w.drain(p, 1<<16)
				if ok {
					ok = w.answerRead(p, r.Range(1, 4))
				}
			}
		}
	}
	if ok && scenario == 4 {
		// let replies pile up behind client 0, which has read nothing, then client 0 sends garbage:
		// it must be closed at once, and the loop must go on serving
		for round := 0; round < 8 && ok; round++ {
			ok = w.tasks()
			for _, p := range w.s.Backends {
				if ok {
					ok = w.drain(p, 1<<16)
				}
				if ok {
					ok = w.answerRead(p, 1000)
				}
			}
		}
		if ok {
			ok = w.send(0, []byte("hello\r\n"))
		}
		tagset["garbage-from-non-reading-client"] = true
	}
	// quiesce: everybody reads everything; writable events; nodes answer; until nothing moves
	for round := 0; round < 200 && ok; round++ {
		moved := false
		if w.s.L.TasksPending() {
			ok = w.tasks()
			moved = true
		}
		peers := append(append([]*stepper.Peer{}, w.s.Clients...), w.s.Backends...)
		for _, p := range peers {
			before := len(p.Got)
			for ok {
				n0 := len(p.Got)
				ok = w.drain(p, 1<<16)
				if len(p.Got) == n0 {
					break
				}
			}
			if len(p.Got) != before {
				moved = true
			}
		}
		for _, p := range w.s.Backends {
			before := w.answered[p]
			if ok {
				ok = w.answerRead(p, 1000)
			}
			if w.answered[p] != before {
				moved = true
			}
		}
		if !moved {
			break
		}
	}
	for t := range tagset {
		tags = append(tags, t)
	}
	sort.Strings(tags)
	if len(tags) == 0 {
		tags = []string{"plain"}
	}
	if !ok {
		return w.inputSx(), stuckOut(), append(tags, "stuck")
	}
	fin := w.observeFinal()
	return w.inputSx(), sx.L(fin), tags
}

// observeFinal: the observation of the loop suite, with the byte stream of closed clients blanked
// (a client closed while it was not reading has received a prefix only)
func (w *pworld) observeFinal() sx.V {
	o := w.observe()
	items := sx.Items(o)
	var cs []sx.V
	for _, c := range sx.Items(items[0]) {
		f := sx.Items(c)
		if sx.Int(f[1]) == 0 {
			cs = append(cs, sx.L(f[0], f[1], f[2], sx.B(nil), f[4]))
		} else {
			cs = append(cs, c)
		}
	}
	return sx.L(sx.L(cs...), items[1])
}

func suitePressure(c *Ctx) {
	n := 60
	if !c.Quick() {
		n = 1500
	}
	for i := 0; i < n && !loopWedged; i++ {
		if !c.Begin("pressure", i) {
			continue
		}
		var in, out sx.V
		var tags []string
		o := Safe(func() sx.V { in, out, tags = runPressure(c.Seed, i); return out })
		if in == nil {
			in = sx.L()
		}
		c.Emit("loopfinal", in, o, tags...)
	}
}
