package main

// Topology histories of the loop suite: four nodes; while clients have requests in flight the
// ticker applies new topologies (slot migration, removal of a node, demotion of a master to a
// replica of another, promotion back) that were adopted from CLUSTER NODES texts by the production
// topology code.  Requests on connections of removed / re-roled nodes must be answered with an
// error, later requests follow the new slot table.

import (
	"fmt"
	"os"
	"sort"
	"strings"

	"rcproxy/core"

	"verifharness/rng"
	"verifharness/sx"
)

type tnode struct {
	addr    string
	present bool
	slave   bool
	master  int // index of its master when slave
	lo, hi  int // slot range when master (lo > hi: none)
}

type topo struct{ nodes []tnode }

func (t *topo) text() string {
	var lines []string
	for i, n := range t.nodes {
		if !n.present {
			continue
		}
		id := fmt.Sprintf("%040d", i+1)
		flags, master, slots := "master", "-", ""
		if n.slave {
			flags, master = "slave", fmt.Sprintf("%040d", n.master+1)
		} else if n.lo <= n.hi {
			slots = fmt.Sprintf(" %d-%d", n.lo, n.hi)
		}
		if len(lines) == 0 {
			flags = "myself," + flags
		}
		lines = append(lines, fmt.Sprintf("%s %s@1%s %s %s 0 1646637827924 5 connected%s", id, n.addr, n.addr[strings.LastIndexByte(n.addr, ':')+1:], flags, master, slots))
	}
	return strings.Join(lines, "\n") + "\n"
}

// the event the model sees: every usable node with its role, and the ranges of the masters
func (t *topo) event() sx.V {
	var ns, rs []sx.V
	for _, n := range t.nodes {
		if !n.present {
			continue
		}
		ns = append(ns, sx.L(sx.S(n.addr), sx.Bool(n.slave)))
	}
	idx := make([]int, 0)
	for i, n := range t.nodes {
		if n.present && !n.slave && n.lo <= n.hi {
			idx = append(idx, i)
		}
	}
	sort.Slice(idx, func(a, b int) bool { return t.nodes[idx[a]].lo < t.nodes[idx[b]].lo })
	for _, i := range idx {
		n := t.nodes[i]
		rs = append(rs, sx.L(sx.I(n.lo), sx.I(n.hi), sx.S(n.addr)))
	}
	return sx.L(sx.I(9), sx.L(ns...), sx.L(rs...))
}

func (t *topo) masters() []int {
	var m []int
	for i, n := range t.nodes {
		if n.present && !n.slave && n.lo <= n.hi {
			m = append(m, i)
		}
	}
	sort.Slice(m, func(a, b int) bool { return t.nodes[m[a]].lo < t.nodes[m[b]].lo })
	return m
}

func (t *topo) usable() int {
	k := 0
	for _, n := range t.nodes {
		if n.present {
			k++
		}
	}
	return k
}

// mutate changes the topology in one of the ways a cluster does; it returns a tag, or "" if it
// found nothing to do
func (t *topo) mutate(r *rng.R) string {
	ms := t.masters()
	switch r.Intn(4) {
	case 0: // migration: the boundary between two neighbouring masters moves
		if len(ms) >= 2 {
			i := r.Intn(len(ms) - 1)
			a, b := &t.nodes[ms[i]], &t.nodes[ms[i+1]]
			if b.hi-a.lo >= 2 {
				cut := a.lo + r.Range(0, b.hi-a.lo-1)
				a.hi, b.lo = cut, cut+1
				return "migrate"
			}
		}
	case 1: // a master leaves the cluster: its range goes to a neighbour
		if len(ms) >= 2 && t.usable() >= 4 {
			i := r.Intn(len(ms))
			gone := &t.nodes[ms[i]]
			var heir *tnode
			if i > 0 {
				heir = &t.nodes[ms[i-1]]
				heir.hi = gone.hi
			} else {
				heir = &t.nodes[ms[1]]
				heir.lo = gone.lo
			}
			gone.present = false
			for j := range t.nodes { // its replicas follow the heir
				if t.nodes[j].present && t.nodes[j].slave && t.nodes[j].master == ms[i] {
					for k := range t.nodes {
						if &t.nodes[k] == heir {
							t.nodes[j].master = k
						}
					}
				}
			}
			return "remove-node"
		}
	case 2: // failover: a master becomes the replica of a neighbour, which takes its range
		if len(ms) >= 2 {
			i := r.Intn(len(ms))
			j := i - 1
			if i == 0 {
				j = 1
			}
			d, h := &t.nodes[ms[i]], &t.nodes[ms[j]]
			if i > 0 {
				h.hi = d.hi
			} else {
				h.lo = d.lo
			}
			d.slave, d.master, d.lo, d.hi = true, ms[j], 1, 0
			return "demote"
		}
	default: // a replica is promoted and takes the upper half of its master's range
		for i := range t.nodes {
			n := &t.nodes[i]
			if n.present && n.slave {
				m := &t.nodes[n.master]
				if m.present && !m.slave && m.hi-m.lo >= 2 {
					mid := (m.lo + m.hi) / 2
					n.slave, n.lo, n.hi = false, mid+1, m.hi
					m.hi = mid
					return "promote"
				}
			}
		}
	}
	return ""
}

func (w *world) applyTopology(t *topo) {
	core.VerifSetInfo(func(addr string) (bool, bool, bool) { return false, true, false })
	if err := core.VerifAdoptTopology(t.text()); err != nil {
		panic("harness: topology text rejected: " + err.Error())
	}
	w.s.L.TickNoProbe()
	if os.Getenv("VERIF_TOPO_DIAG") != "" {
		want := map[string]bool{}
		for _, n := range t.nodes {
			if n.present {
				want[n.addr] = true
			}
		}
		addrs, _ := core.VerifPools()
		st := core.VerifClusterDump()
		if len(addrs) != len(want) {
			var sv []string
			for _, n := range st.Servers {
				sv = append(sv, n.Addr)
			}
			fmt.Fprintf(os.Stderr, "TOPO-DIAG: pools %v, adopted servers %v, wanted %v, changed flag %v\ntext:\n%s\n", addrs, sv, want, st.Changed, t.text())
		}
	}
	w.record(t.event())
}

func runTopoHistory(seed uint64, idx int) (in sx.V, out sx.V, tags []string) {
	r := rng.New(seed, "loop-topo", idx)
	nodes := []string{"10.1.0.1:7000", "10.1.0.2:7000", "10.1.0.3:7000", "10.1.0.4:7000"}
	cfg := worldCfg{limit: 1 << 20, maxConns: 1, nodes: nodes, undial: map[string]bool{}}
	cfg.ranges = [][3]interface{}{{0, 4095, nodes[0]}, {4096, 8191, nodes[1]}, {8192, 12287, nodes[2]}, {12288, 16383, nodes[3]}}
	if r.Chance(30) {
		cfg.timeout = true
	}
	if r.Chance(30) {
		// two connections per node (single-key requests only, see the loop suite): a pool that is
		// closed or re-created by the ticker then holds a rotated list of several connections
		cfg.maxConns, cfg.single = 2, true
	}
	w, err := newWorld(cfg)
	if err != nil {
		return sx.L(), sx.L(sx.S("setup-error")), nil
	}
	defer w.s.Close()
	if cfg.single {
		w.tagset["two-connections-per-node"] = true
	}
	t := &topo{}
	for i, a := range nodes {
		t.nodes = append(t.nodes, tnode{addr: a, present: true, lo: i * 4096, hi: i*4096 + 4095})
	}
	// the topology code has to know the initial table too (otherwise the first application would
	// find every pool "changed"): adopt it before any traffic
	w.applyTopology(t)
	nc := r.Range(1, 3)
	for i := 0; i < nc; i++ {
		w.connect("127.0.0.1")
	}
	steps := r.Range(8, 40)
	for i := 0; i < steps; i++ {
		switch r.Intn(20) {
		case 0, 1, 2, 3, 4, 5, 6:
			c := r.Intn(nc)
			var b []byte
			for k := r.Range(1, 3); k > 0; k-- {
				b = append(b, w.nextRequest(r, c)...)
			}
			w.clientData(c, b)
			w.handshakes(r)
		case 7, 8, 9:
			w.runTasks()
		case 10, 11, 12, 13:
			if len(w.s.Backends) > 0 {
				w.runTasks()
				w.handshakes(r)
				p := w.s.Backends[r.Intn(len(w.s.Backends))]
				w.answer(r, p, r.Range(1, 3))
			}
		case 14, 15, 16:
			if tag := t.mutate(r); tag != "" {
				w.applyTopology(t)
				w.tagset[tag] = true
			}
		case 17:
			w.probe(int64(r.U64() >> 1))
			w.handshakes(r)
		case 18:
			if cfg.timeout {
				w.runTasks()
				w.timeoutScan()
				w.tagset["timeout"] = true
			}
		default:
			w.runTasks()
		}
	}
	for round := 0; round < 6; round++ {
		w.runTasks()
		w.handshakes(nil)
		for _, p := range w.s.Backends {
			w.answer(nil, p, 1000)
		}
	}
	w.runTasks()
	for tg := range w.tagset {
		tags = append(tags, tg)
	}
	tags = append(tags, "topology")
	sort.Strings(tags)
	return w.inputSx(), sx.L(w.obs...), tags
}
