package main

// Scripted histories of the loop suite: short fixed scenarios, each the distilled trigger of a
// seeded change that the random histories caught only with some luck.  They run first, on a
// two-node layout (node 0 owns 0-8191, node 1 owns 8192-16383; node 0 answers keys with the markers
// mov / ask by a redirect to node 1), through the same world / model / oracle as every other history.

import (
	"sort"
	"strconv"

	"rcproxy/core/pkg/hashkit"

	"verifharness/stepper"
	"verifharness/sx"
)

type script struct {
	name     string
	timeout  bool
	password string
	run      func(w *world)
}

// a key for client c, request n, with a marker suffix, owned by node 0 (first) or node 1
func skey(c, n int, sfx string, first bool) []byte {
	for j := 0; ; j++ {
		k := "c" + strconv.Itoa(c) + "r" + strconv.Itoa(n) + "n" + strconv.Itoa(j) + sfx // the marker last: "mov" + "x.." would read as movx
		if (int(hashkit.Hash(k)) <= 8191) == first {
			return []byte(k)
		}
	}
}

func sreq(args ...[]byte) []byte {
	out := []byte("*" + strconv.Itoa(len(args)) + "\r\n")
	for _, a := range args {
		out = append(out, []byte("$"+strconv.Itoa(len(a))+"\r\n")...)
		out = append(out, a...)
		out = append(out, '\r', '\n')
	}
	return out
}

func (w *world) node(addr string) *stepper.Peer {
	for _, p := range w.s.Backends {
		if p.Addr == addr && !w.closedS[p] && !p.EOF {
			return p
		}
	}
	return nil
}

func (w *world) answerNode(addr string, n int) {
	if p := w.node(addr); p != nil {
		w.answer(nil, p, n)
	}
}

// a key of client c, request n, ending in the marker, that hashes to slot 0 (slot 0 is an ordinary slot)
func slotZeroKey(c, n int, sfx string) []byte {
	for j := 0; ; j++ {
		k := "c" + strconv.Itoa(c) + "r" + strconv.Itoa(n) + "z" + strconv.Itoa(j) + sfx
		if hashkit.Hash(k) == 0 {
			return []byte(k)
		}
	}
}

var scripts = []script{
	{name: "redirects-for-slot-zero", run: func(w *world) {
		n0, n1 := w.cfg.nodes[0], w.cfg.nodes[1]
		w.clientData(0, sreq([]byte("get"), slotZeroKey(0, 1, "mov")))
		w.clientData(1, sreq([]byte("get"), slotZeroKey(1, 1, "ask")))
		w.runTasks()
		w.answerNode(n0, 2) // -MOVED 0 node1, -ASK 0 node1
		w.runTasks()
		w.answerNode(n1, 5)
	}},
	{name: "redirect-then-timeout", timeout: true, run: func(w *world) {
		n0, n1 := w.cfg.nodes[0], w.cfg.nodes[1]
		w.clientData(0, sreq([]byte("get"), skey(0, 1, "mov", true)))
		w.runTasks()
		w.answerNode(n0, 1) // -MOVED to node 1
		w.runTasks()        // re-sent; node 1 stays silent
		w.timeoutScan()
		w.clientData(0, sreq([]byte("get"), skey(0, 2, "", false)))
		w.runTasks()
		w.answerNode(n1, 5)
	}},
	{name: "two-clients-expire-in-one-scan", timeout: true, run: func(w *world) {
		n0 := w.cfg.nodes[0]
		w.clientData(0, sreq([]byte("get"), skey(0, 1, "", true)))
		w.clientData(1, sreq([]byte("get"), skey(1, 1, "", true)))
		w.runTasks()
		w.timeoutScan()
		w.timeoutScan()
		w.clientData(0, sreq([]byte("get"), skey(0, 2, "", true)))
		w.runTasks()
		w.answerNode(n0, 5)
	}},
	{name: "del-count-then-error-then-del", run: func(w *world) {
		n0, n1 := w.cfg.nodes[0], w.cfg.nodes[1]
		w.clientData(0, sreq([]byte("del"), skey(0, 1, "a", true), skey(0, 1, "berr", false)))
		w.runTasks()
		w.answerNode(n0, 1) // :1
		w.answerNode(n1, 1) // an error
		w.clientData(0, sreq([]byte("del"), skey(0, 2, "a", true), skey(0, 2, "b", false)))
		w.runTasks()
		w.answerNode(n1, 1)
		w.answerNode(n0, 1)
	}},
	{name: "handshake-answer-in-two-reads", password: "pw", run: func(w *world) {
		n0 := w.cfg.nodes[0]
		w.clientData(0, sreq([]byte("get"), skey(0, 1, "", true)))
		w.runTasks()
		p := w.node(n0)
		if p == nil {
			return
		}
		w.shaken[p] = true
		w.backendData(p, []byte("+O"))
		w.clientData(1, sreq([]byte("get"), skey(1, 1, "", true)))
		w.runTasks()
		w.backendData(p, []byte("K\r\n"))
		w.answerNode(n0, 5)
	}},
	{name: "late-reply-after-timeout", timeout: true, run: func(w *world) {
		n0 := w.cfg.nodes[0]
		w.clientData(0, sreq([]byte("get"), skey(0, 1, "", true)))
		w.runTasks()
		w.timeoutScan()
		w.answerNode(n0, 1) // late
		w.clientData(0, sreq([]byte("get"), skey(0, 2, "", true)))
		w.runTasks()
		w.answerNode(n0, 5)
	}},
	{name: "sibling-error-then-late-redirect", run: func(w *world) {
		n0, n1 := w.cfg.nodes[0], w.cfg.nodes[1]
		w.clientData(0, sreq([]byte("del"), skey(0, 1, "amov", true), skey(0, 1, "berr", false)))
		w.runTasks()
		w.answerNode(n1, 1) // the error completes the request
		w.answerNode(n0, 1) // the late -MOVED of the sibling
		w.clientData(0, sreq([]byte("get"), skey(0, 2, "", true)))
		w.runTasks()
		w.answerNode(n0, 5)
		w.answerNode(n1, 5)
	}},
	{name: "local-reply-behind-pending-then-two-outstanding", run: func(w *world) {
		n0 := w.cfg.nodes[0]
		w.clientData(0, append(sreq([]byte("get"), skey(0, 1, "", true)), sreq([]byte("get"))...))
		w.runTasks()
		w.answerNode(n0, 5)
		w.clientData(1, append(sreq([]byte("get"), skey(1, 1, "", true)), sreq([]byte("get"), skey(1, 2, "", true))...))
		w.runTasks()
		w.answerNode(n0, 5)
	}},
	{name: "client-leaves-with-request-in-flight", run: func(w *world) {
		n0, n1 := w.cfg.nodes[0], w.cfg.nodes[1]
		w.clientData(0, sreq([]byte("get"), skey(0, 1, "", true)))
		w.runTasks()
		w.closeClient(0)
		w.clientData(1, append(sreq([]byte("get"), skey(1, 1, "", true)), sreq([]byte("get"), skey(1, 2, "", false))...))
		w.runTasks()
		w.answerNode(n1, 5) // the younger request of client 1 first
		w.answerNode(n0, 1) // the reply for the client that left
		w.answerNode(n0, 5)
	}},
}

func runScripted(idx int) (in sx.V, out sx.V, tags []string) {
	sc := scripts[idx]
	nodes := []string{"10.1.0.1:7000", "10.1.0.2:7000", "10.1.0.3:7000"}
	cfg := worldCfg{limit: 1 << 20, maxConns: 1, nodes: nodes, undial: map[string]bool{}, timeout: sc.timeout, password: sc.password}
	cfg.ranges = [][3]interface{}{{0, 8191, nodes[0]}, {8192, 16383, nodes[1]}}
	w, err := newWorld(cfg)
	if err != nil {
		return sx.L(), sx.L(sx.S("setup-error")), nil
	}
	defer w.s.Close()
	w.connect("127.0.0.1")
	w.connect("127.0.0.1")
	w.reqSeq[0], w.reqSeq[1] = 9, 9
	sc.run(w)
	for round := 0; round < 6; round++ {
		w.runTasks()
		w.handshakes(nil)
		for _, p := range w.s.Backends {
			w.answer(nil, p, 1000)
		}
	}
	w.runTasks()
	w.tagset["scripted"] = true
	w.tagset["script-"+sc.name] = true
	for t := range w.tagset {
		tags = append(tags, t)
	}
	sort.Strings(tags)
	return w.inputSx(), sx.L(w.obs...), tags
}
