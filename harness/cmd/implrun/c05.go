package main

import (
	"rcproxy/core/pkg/hashkit"

	"verifharness/rng"
	"verifharness/sx"
)

func init() {
	suites["c05"] = suiteC05
	replayers["hash"] = func(in sx.V) sx.V { return sx.N(int64(hashkit.Hash(string(sx.Bytes(in))))) }
}

func braceTag(k []byte) string {
	o, c := -1, -1
	for i, b := range k {
		if b == '{' && o < 0 {
			o = i
		}
		if b == '}' && c < 0 {
			c = i
		}
	}
	switch {
	case o < 0 && c < 0:
		return "nobrace"
	case o < 0:
		return "close-only"
	case c < 0:
		return "open-only"
	case c < o:
		return "close-before-open"
	case c == o+1:
		return "empty-tag"
	default:
		return "tag"
	}
}

func suiteC05(c *Ctx) {
	emit := func(k []byte, src string) {
		c.Emit("hash", sx.B(k), sx.N(int64(hashkit.Hash(string(k)))), src, braceTag(k))
	}
	// (i) exhaustive strings over { '{', '}', 'a' } up to length L
	L := 7
	if !c.Quick() {
		L = 9
	}
	alpha := []byte{'{', '}', 'a'}
	var rec func(prefix []byte)
	rec = func(prefix []byte) {
		emit(prefix, "exhaustive")
		if len(prefix) == L {
			return
		}
		for _, a := range alpha {
			rec(append(append([]byte{}, prefix...), a))
		}
	}
	rec(nil)
	// (ii) every single-byte key, and every byte value at both positions of a two-byte key
	for b := 0; b < 256; b++ {
		emit([]byte{byte(b)}, "onebyte")
		emit([]byte{0xA5, byte(b)}, "twobyte")
		emit([]byte{byte(b), 0x5A}, "twobyte")
	}
	// (iii) random binary keys, brace density swept 0..50 %
	n := 3000
	if !c.Quick() {
		n = 60000
	}
	for i := 0; i < n; i++ {
		r := rng.New(c.Seed, "c05", i)
		ln := r.Range(0, 300)
		if r.Chance(40) {
			ln = r.Range(0, 24)
		}
		dens := r.Range(0, 50)
		k := make([]byte, ln)
		for j := range k {
			switch {
			case r.Chance(dens):
				if r.Bool() {
					k[j] = '{'
				} else {
					k[j] = '}'
				}
			default:
				k[j] = byte(r.U64())
			}
		}
		emit(k, "random")
	}
}
