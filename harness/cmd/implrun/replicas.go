package main

// Suite replicas (C04, C20): event-loop histories with replica reads ENABLED.  The event-loop model
// routes to masters only (the choice among replicas is the route model of C04/C20), so these
// histories are judged by the specification oracle alone: every request must reach the master of
// the owning set or - reads only - one of its replicas; a connection to a replica must have been
// switched to read-only mode before its first request; replies in order, one each, as in C01.

import (
	"sort"

	"rcproxy/core"

	"verifharness/rng"
	"verifharness/stepper"
	"verifharness/sx"
)

func init() {
	suites["replicas"] = suiteReplicas
}

func runReplicaHistory(seed uint64, idx int) (in sx.V, out sx.V, tags []string) {
	r := rng.New(seed, "replicas", idx)
	masters := []string{"10.1.0.1:7000", "10.1.0.2:7000", "10.1.0.3:7000"}
	reps := map[string][]string{}
	cfg := worldCfg{limit: 1 << 20, maxConns: 1, nodes: nil, undial: map[string]bool{}}
	if r.Chance(30) {
		cfg.password = "pw"
	}
	bounds := []int{0, 5461, 10923, 16384}
	for i, m := range masters {
		cfg.nodes = append(cfg.nodes, m)
		cfg.ranges = append(cfg.ranges, [3]interface{}{bounds[i], bounds[i+1] - 1, m})
		for k := 0; k < r.Range(0, 2); k++ {
			a := "10.2." + string(rune('0'+i)) + "." + string(rune('1'+k)) + ":7000"
			reps[m] = append(reps[m], a)
			cfg.nodes = append(cfg.nodes, a)
		}
	}
	s, err := stepper.New(stepper.Config{Limit: cfg.limit, Password: cfg.password, MaxConns: 1, DisableSlav: false, Undialable: cfg.undial})
	if err != nil {
		return sx.L(), sx.L(sx.S("setup-error")), nil
	}
	isRep := map[string]bool{}
	for _, l := range reps {
		for _, a := range l {
			isRep[a] = true
		}
	}
	for _, a := range cfg.nodes {
		s.AddPool(a, isRep[a])
	}
	var sets []core.VerifReplicaset
	for i, m := range masters {
		sets = append(sets, core.VerifReplicaset{Master: m, Slaves: reps[m], Ranges: [][2]int32{{int32(bounds[i]), int32(bounds[i+1] - 1)}}})
	}
	s.L.SetSlots(sets)
	w := &world{s: s, cfg: cfg, answered: map[*stepper.Peer]int{}, shaken: map[*stepper.Peer]bool{}, closedC: map[int]bool{}, closedS: map[*stepper.Peer]bool{},
		reqSeq: map[int]int{}, tagset: map[string]bool{}, choices: true}
	lastWorld = w
	defer w.s.Close()
	nc := r.Range(1, 3)
	for i := 0; i < nc; i++ {
		w.connect("127.0.0.1")
	}
	steps := r.Range(8, 40)
	for i := 0; i < steps; i++ {
		switch r.Intn(16) {
		case 0, 1, 2, 3, 4, 5, 6:
			c := r.Intn(nc)
			var b []byte
			for k := r.Range(1, 3); k > 0; k-- {
				b = append(b, w.nextRequest(r, c)...)
			}
			w.clientData(c, b)
			w.handshakes(r)
		case 7, 8, 9:
			w.runTasks()
		case 10, 11, 12, 13:
			if len(w.s.Backends) > 0 {
				w.runTasks()
				w.handshakes(r)
				p := w.s.Backends[r.Intn(len(w.s.Backends))]
				w.answer(r, p, r.Range(1, 3))
			}
		case 14:
			if len(w.s.Backends) > 0 && r.Chance(40) {
				w.closeBackend(w.s.Backends[r.Intn(len(w.s.Backends))])
				w.tagset["backend-close"] = true
			}
		default:
			w.runTasks()
		}
	}
	for round := 0; round < 6; round++ {
		w.runTasks()
		w.handshakes(nil)
		for _, p := range w.s.Backends {
			w.answer(nil, p, 1000)
		}
	}
	w.runTasks()
	nrep := 0
	for _, b := range w.s.Backends {
		if isRep[b.Addr] {
			nrep++
		}
	}
	if nrep > 0 {
		w.tagset["replica-used"] = true
	}
	for t := range w.tagset {
		tags = append(tags, t)
	}
	sort.Strings(tags)
	// the input: as for the loop suite, with the replicas of each range's master
	var pools, ranges []sx.V
	for _, a := range cfg.nodes {
		pools = append(pools, sx.L(sx.S(a), sx.Bool(true), sx.Bool(isRep[a])))
	}
	for i, m := range masters {
		ranges = append(ranges, sx.L(sx.I(bounds[i]), sx.I(bounds[i+1]-1), sx.S(m), sx.Strs(reps[m])))
	}
	in = sx.L(sx.L(sx.I(cfg.limit), sx.S(cfg.password), sx.Bool(false), sx.I(1)), sx.L(pools...), sx.L(ranges...), sx.L(w.events...))
	return in, sx.L(w.obs...), tags
}

func suiteReplicas(c *Ctx) {
	n := 120
	if !c.Quick() {
		n = 3000
	}
	for i := 0; i < n; i++ {
		if !c.Begin("replicas", i) {
			continue
		}
		var in, out sx.V
		var tags []string
		in, out, tags = guarded(func() (sx.V, sx.V, []string) { return runReplicaHistory(c.Seed, i) })
		if in == nil {
			break
		}
		c.Emit("loop", in, out, tags...)
	}
}
