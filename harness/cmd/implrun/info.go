package main

// Suite info (C14): INFO payloads through the production client (redis.Dial + conn.Info) against a
// loopback fake node that answers INFO with the payload as a bulk string.

import (
	"bufio"
	"fmt"
	"net"
	"strings"
	"sync"

	"rcproxy/core/pkg/redis"

	"verifharness/rng"
	"verifharness/sx"
)

func init() {
	suites["info"] = suiteInfo
	replayers["info"] = func(in sx.V) sx.V { return Safe(func() sx.V { return infoRun(sx.Bytes(in)) }) }
}

var (
	infoOnce sync.Once
	infoAddr string
	infoMu   sync.Mutex
	infoText []byte
)

// the fake node: reads one command (array of bulk strings) and answers it with the current payload
func infoServer() {
	ln, err := net.Listen("tcp", "127.0.0.1:0")
	if err != nil {
		panic(err)
	}
	infoAddr = ln.Addr().String()
	go func() {
		for {
			c, err := ln.Accept()
			if err != nil {
				return
			}
			go func(c net.Conn) {
				defer c.Close()
				br := bufio.NewReader(c)
				for {
					line, err := br.ReadString('\n')
					if err != nil {
						return
					}
					var n int
					if _, err := fmt.Sscanf(strings.TrimSpace(line), "*%d", &n); err != nil {
						return
					}
					for i := 0; i < 2*n; i++ {
						if _, err := br.ReadString('\n'); err != nil {
							return
						}
					}
					infoMu.Lock()
					p := append([]byte{}, infoText...)
					infoMu.Unlock()
					fmt.Fprintf(c, "$%d\r\n", len(p))
					c.Write(p)
					c.Write([]byte("\r\n"))
				}
			}(c)
		}
	}()
}

func infoRun(msg []byte) sx.V {
	infoOnce.Do(infoServer)
	infoMu.Lock()
	infoText = msg
	infoMu.Unlock()
	c, err := redis.Dial(infoAddr, "")
	if err != nil {
		panic(err)
	}
	defer c.Close()
	i, err := c.Info()
	if err != nil {
		return sx.L(sx.S("err"))
	}
	return sx.L(sx.Bool(i.Loading), sx.S(i.MasterLinkStatus), sx.S(i.Version))
}

func suiteInfo(c *Ctx) {
	n := 250
	if !c.Quick() {
		n = 4000
	}
	keys := []string{"loading", "master_link_status", "redis_version", "async_loading", "loading_start_time",
		"loading_total_bytes", "role", "master_host", "master_link_down_since_seconds", "slave_read_only",
		"redis_version_extra", "xloading", "connected_clients", "aof_enabled", "rdb_last_bgsave_status",
		"master_last_io_seconds_ago", "replica_announced", "loading ", "LOADING", "used_memory"}
	vals := []string{"0", "1", "up", "down", "7.0.11", "6.2.6", "", " 0", "0 ", " up ", "00", "-1", "ok", "slave", "master", "127.0.0.1", "1700000000"}
	for i := 0; i < n; i++ {
		r := rng.New(c.Seed, "info", i)
		var b strings.Builder
		var tags []string
		switch {
		case r.Chance(4):
			tags = append(tags, "empty")
		case r.Chance(4):
			b.WriteString("-ERR unknown command\r\n")
			tags = append(tags, "error-text")
		default:
			style := "redis7"
			if r.Chance(35) {
				style = "redis6"
			}
			tags = append(tags, style)
			b.WriteString("# Server\r\n")
			nf := r.Range(0, 14)
			seen := map[string]bool{}
			for j := 0; j < nf; j++ {
				if r.Chance(10) {
					b.WriteString("\r\n# " + []string{"Replication", "Persistence", "Clients", "Stats"}[r.Range(0, 3)] + "\r\n")
					continue
				}
				k := keys[r.Range(0, len(keys)-1)]
				if style == "redis6" && (k == "async_loading" || k == "replica_announced") {
					k = "role"
				}
				if r.Chance(30) {
					k = []string{"loading", "master_link_status", "redis_version"}[r.Range(0, 2)]
				}
				v := vals[r.Range(0, len(vals)-1)]
				switch k {
				case "loading", "async_loading":
					if r.Chance(70) {
						v = []string{"0", "1"}[r.Range(0, 1)]
					}
				case "master_link_status":
					if r.Chance(70) {
						v = []string{"up", "down"}[r.Range(0, 1)]
					}
				}
				seen[k] = true
				b.WriteString(k + ":" + v + "\r\n")
			}
			for _, k := range []string{"loading", "async_loading", "master_link_status"} {
				if seen[k] {
					tags = append(tags, "has-"+k)
				}
			}
			if r.Chance(8) { // something that is not a field: no claim from the oracle, model only
				b.WriteString("garbage without colon\r\n")
				tags = append(tags, "non-field-line")
			}
			if r.Chance(6) { // lone LF / CR inside
				b.WriteString("x:1\ny:2\r")
				tags = append(tags, "lone-lf")
			}
		}
		msg := []byte(b.String())
		c.Emit("info", sx.B(msg), Safe(func() sx.V { return infoRun(msg) }), tags...)
	}
}
