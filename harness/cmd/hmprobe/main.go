//go:build verif

// hmprobe: one long edit history of the whitelist file through the production reload code
// (parseAuthIp); reports the first version after which admission differs from the file.
package main

import (
	"fmt"
	"math/rand"
	"os"
	"path/filepath"

	"rcproxy/core/authip"
	"rcproxy/core/pkg/logging"
)

func main() {
	logging.VerifSilence()
	dir, _ := os.MkdirTemp(os.Getenv("VERIF_SCRATCH"), "hm")
	defer os.RemoveAll(dir)
	file := filepath.Join(dir, "authip.yaml")
	all := []string{"10.0.0.1", "10.0.0.2", "10.0.0.3", "127.0.0.1", "192.168.1.77", "10.0.0.10"}
	rand.Seed(7)
	for round := 0; round < 400000; round++ {
		listed := map[string]bool{}
		y := "enable: true\nip_white_list:\n"
		for _, a := range all {
			if rand.Intn(100) < 45 {
				listed[a] = true
				y += "  - " + a + "\n"
			}
		}
		os.WriteFile(file, []byte(y), 0o644)
		if err := authip.VerifLoad(file); err != nil {
			fmt.Println("load error", err)
			return
		}
		for _, a := range all {
			if authip.IpMap.Validate(a) != listed[a] {
				fmt.Printf("after version %d: %s admitted=%v, listed=%v\n", round, a, authip.IpMap.Validate(a), listed[a])
				return
			}
		}
	}
	fmt.Println("no disagreement in 400000 versions")
}
