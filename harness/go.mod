module verifharness

go 1.17

require (
	github.com/cornelk/hashmap v1.0.1
	golang.org/x/sys v0.0.0-20220908164124-27713097b956
	rcproxy v0.0.0
)

require (
	github.com/beorn7/perks v1.0.1 // indirect
	github.com/cespare/xxhash/v2 v2.1.2 // indirect
	github.com/dchest/siphash v1.1.0 // indirect
	github.com/fsnotify/fsnotify v1.6.0 // indirect
	github.com/golang/protobuf v1.5.2 // indirect
	github.com/lestrrat-go/file-rotatelogs v2.4.0+incompatible // indirect
	github.com/lestrrat-go/strftime v1.0.6 // indirect
	github.com/matttproud/golang_protobuf_extensions v1.0.1 // indirect
	github.com/petar/GoLLRB v0.0.0-20210522233825-ae3b015fd3e9 // indirect
	github.com/pkg/errors v0.9.1 // indirect
	github.com/prometheus/client_golang v1.13.0 // indirect
	github.com/prometheus/client_model v0.2.0 // indirect
	github.com/prometheus/common v0.37.0 // indirect
	github.com/prometheus/procfs v0.8.0 // indirect
	github.com/sirupsen/logrus v1.7.0 // indirect
	google.golang.org/protobuf v1.28.1 // indirect
	gopkg.in/yaml.v3 v3.0.1 // indirect
)

replace rcproxy => /repo
