module verifharness

go 1.17

require rcproxy v0.0.0

replace rcproxy => /repo
