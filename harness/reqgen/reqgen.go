// Package reqgen generates RESP requests: structured, mostly valid inputs plus mutations.
package reqgen

import (
	"sort"
	"strconv"

	"rcproxy/core/codec"

	"verifharness/rng"
)

// Names returns every supported command name, sorted.
func Names() []string {
	var ns []string
	for k := range codec.CommandStr2Type {
		ns = append(ns, k)
	}
	sort.Strings(ns)
	return ns
}

func Bulk(a []byte) []byte {
	out := []byte{'$'}
	out = append(out, strconv.Itoa(len(a))...)
	out = append(out, '\r', '\n')
	out = append(out, a...)
	out = append(out, '\r', '\n')
	return out
}

// Enc is the canonical RESP encoding of a request.
func Enc(args [][]byte) []byte {
	out := []byte{'*'}
	out = append(out, strconv.Itoa(len(args))...)
	out = append(out, '\r', '\n')
	for _, a := range args {
		out = append(out, Bulk(a)...)
	}
	return out
}

// Arg returns an argument: short ascii, empty, binary, CRLF-bearing, or a length that
// straddles a digit-count boundary.
func Arg(r *rng.R) []byte {
	switch r.Intn(12) {
	case 0:
		return []byte{}
	case 1:
		return r.Bytes(r.Range(1, 12))
	case 2:
		return []byte("a\r\nb")
	case 3:
		return []byte("$3\r\nfoo\r\n")
	case 4:
		return r.Bytes(r.Pick9())
	case 5:
		return []byte("*1\r\n")
	case 6:
		return []byte{0, 0, 0}
	default:
		n := r.Range(1, 8)
		b := make([]byte, n)
		for i := range b {
			b[i] = byte('a' + r.Intn(26))
		}
		return b
	}
}

// Key returns a key; with tagPool non-empty keys often share a hash tag (forced slot collisions).
func Key(r *rng.R, tagPool []string) []byte {
	switch {
	case len(tagPool) > 0 && r.Chance(55):
		t := tagPool[r.Intn(len(tagPool))]
		return []byte("{" + t + "}" + string(Arg(r)))
	case r.Chance(10):
		return []byte{}
	case r.Chance(10):
		return []byte("}{" + r.Pick("a", "b", "c") + "}")
	default:
		return Arg(r)
	}
}

// MixCase randomly changes the letter case of an ascii name.
func MixCase(r *rng.R, name string) []byte {
	b := []byte(name)
	mode := r.Intn(3)
	for i := range b {
		if b[i] >= 'a' && b[i] <= 'z' {
			if mode == 1 || (mode == 2 && r.Bool()) {
				b[i] -= 32
			}
		}
	}
	return b
}

// ArityOK returns an argument count accepted for the command.
func ArityOK(r *rng.R, name string) int {
	t := codec.CommandStr2Type[name]
	switch na := codec.CommandType2ArgsNumber[t]; na {
	case codec.NargsInf:
		return r.Range(1, 5)
	case codec.NargsEvenInf:
		return 2 * r.Range(1, 4)
	default:
		return int(na)
	}
}

// Valid returns a well-formed, supported request with a correct argument count.
func Valid(r *rng.R, tagPool []string) [][]byte {
	names := Names()
	name := names[r.Intn(len(names))]
	if r.Chance(35) {
		name = r.Pick("mget", "del", "mset", "get", "set", "eval", "ping")
	}
	return ValidFor(r, name, tagPool)
}

func ValidFor(r *rng.R, name string, tagPool []string) [][]byte {
	n := ArityOK(r, name)
	switch name {
	case "mget", "del":
		n = r.Range(1, 12)
		if r.Chance(10) {
			n = r.Range(13, 200)
		}
	case "mset":
		n = 2 * r.Range(1, 8)
	case "eval", "evalsha":
		n = r.Range(3, 6)
	}
	args := [][]byte{MixCase(r, name)}
	for i := 0; i < n; i++ {
		switch {
		case name == "mget" || name == "del" || (name == "mset" && i%2 == 0) || i == 0:
			args = append(args, Key(r, tagPool))
		default:
			args = append(args, Arg(r))
		}
	}
	return args
}

var hostileNums = []string{"0", "-1", "-0", "+1", "00", "01", "007", "2147483648", "9223372036854775807",
	"9223372036854775808", "18446744073709551616", "18446744073709551619", "99999999999999999999999",
	"", "-", "1a", "a", " 1", "1 ", "-2", "999999999999999999", "1000000000000000000"}

// Mutate damages a valid encoding in one of many ways; the tag says how.
func Mutate(r *rng.R, enc []byte) ([]byte, string) {
	b := append([]byte(nil), enc...)
	switch r.Intn(11) {
	case 0: // replace the multibulk count
		i := indexCRLF(b, 0)
		return append(append([]byte("*"), hostileNums[r.Intn(len(hostileNums))]...), b[i:]...), "mut-count"
	case 1: // replace a bulk length
		pos := nthDollar(b, r.Intn(4))
		if pos < 0 {
			return b, "mut-none"
		}
		j := indexCRLF(b, pos)
		out := append([]byte(nil), b[:pos+1]...)
		out = append(out, hostileNums[r.Intn(len(hostileNums))]...)
		return append(out, b[j:]...), "mut-bulklen"
	case 2: // wrong type marker
		pos := nthDollar(b, r.Intn(3))
		if pos < 0 {
			pos = 0
		}
		b[pos] = "+-:*$#x"[r.Intn(7)]
		return b, "mut-marker"
	case 3: // drop a CR
		for i := range b {
			if b[i] == '\r' && r.Chance(40) {
				return append(b[:i:i], b[i+1:]...), "mut-dropcr"
			}
		}
		return b, "mut-none"
	case 4: // drop an LF
		for i := range b {
			if b[i] == '\n' && r.Chance(40) {
				return append(b[:i:i], b[i+1:]...), "mut-droplf"
			}
		}
		return b, "mut-none"
	case 5: // truncate
		if len(b) == 0 {
			return b, "mut-none"
		}
		return b[:r.Intn(len(b))], "mut-trunc"
	case 6: // inline command
		return []byte(r.Pick("PING\r\n", "GET a\r\n", "\r\n", "\n", "x\n", "QUIT\r\n")), "mut-inline"
	case 7: // random bytes
		return r.Bytes(r.Range(1, 40)), "mut-random"
	case 8: // flip one byte
		if len(b) == 0 {
			return b, "mut-none"
		}
		b[r.Intn(len(b))] ^= byte(1 << uint(r.Intn(8)))
		return b, "mut-flip"
	case 9: // empty line in front
		return append([]byte(r.Pick("\r\n", "\n", "\r", " ")), b...), "mut-leading"
	default: // swap the terminator of a bulk
		for i := len(b) - 2; i >= 0; i-- {
			if b[i] == '\r' && b[i+1] == '\n' && r.Chance(50) {
				b[i], b[i+1] = r.Bytes(1)[0], r.Bytes(1)[0]
				return b, "mut-terminator"
			}
		}
		return b, "mut-none"
	}
}

func indexCRLF(b []byte, from int) int {
	for i := from; i+1 < len(b); i++ {
		if b[i] == '\r' && b[i+1] == '\n' {
			return i
		}
	}
	return len(b)
}

func nthDollar(b []byte, n int) int {
	// positions of '$' that start a line
	var ps []int
	for i := range b {
		if b[i] == '$' && (i == 0 || b[i-1] == '\n') {
			ps = append(ps, i)
		}
	}
	if len(ps) == 0 {
		return -1
	}
	return ps[n%len(ps)]
}
