(* C20 — Reads are spread over all healthy replicas of the owning master.
   Only theorem statements; proofs in Proofs/RouteProofs.v. *)
From RcProxy Require Import Base.Bytes Base.Dec Gen.Generated Spec.RouteSpec Model.Route Proofs.RouteProofs.
Open Scope N_scope.

(* with replica reads enabled, for a read command (not a cursor scan), the node chosen is the
   k-th live replica where k is the value rand.Intn(|live|) returns: the map k -> replica is the
   identity on the list of live replicas, hence surjective and injective; with a uniform k every
   live replica is chosen with probability 1/|live| *)
Theorem C20_choice_is_kth_live : forall ty master slaves,
  ty <= ReqWriteCmdStart -> ty <> ReqHscan -> ty <> ReqSscan -> ty <> ReqZscan ->
  forall k, (k < length (live_slaves slaves))%nat ->
    route false ty master slaves (fun _ => k) = (nth k (live_slaves slaves) [], true).
Proof. intros. apply route_spreads; auto. Qed.
Print Assumptions C20_choice_is_kth_live.

Theorem C20_every_live_replica_serves : forall ty master slaves r,
  ty <= ReqWriteCmdStart -> ty <> ReqHscan -> ty <> ReqSscan -> ty <> ReqZscan ->
  In r slaves -> live r = true ->
  exists k, (k < length (live_slaves slaves))%nat /\
            route false ty master slaves (fun _ => k) = (r_addr r, true).
Proof. intros. apply every_live_replica_chosen; auto. Qed.
Print Assumptions C20_every_live_replica_serves.

(* writes are unaffected: always the master, whatever the random value *)
Theorem C20_writes_unaffected : forall ty master slaves rnd,
  ReqWriteCmdStart < ty -> route false ty master slaves rnd = (master, false).
Proof. intros. apply route_master_when. auto. Qed.
Print Assumptions C20_writes_unaffected.

(* the witness that refuted the pre-fix code (the choice was made inside the loop, so the second
   healthy replica was never chosen for any k): now k = 1 selects it *)
Example C20_witness :
  let r1 := {| r_addr := bs "r1:1"; r_pool := true; r_ban := false; r_lift_before_now := false |} in
  let r2 := {| r_addr := bs "r2:1"; r_pool := true; r_ban := false; r_lift_before_now := false |} in
  route false ReqGet (bs "m:1") [r1; r2] (fun _ => 1%nat) = (bs "r2:1", true) /\
  route false ReqGet (bs "m:1") [r1; r2] (fun _ => 0%nat) = (bs "r1:1", true).
Proof. split; vm_compute; reflexivity. Qed.
