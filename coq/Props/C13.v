(* C13 — MOVED and ASK redirects are followed transparently and terminate.
   Only theorem statements; proofs in Proofs/ProxyProofs.v. *)
From RcProxy Require Import Base.Bytes Base.Dec Gen.Generated Spec.RespGrammar
  Model.RespBuf Model.ClientCodec Model.ServerCodec Model.Route Model.Proxy Proofs.ProxyProofs Props.C01 Props.C09.
Open Scope N_scope.

(* a MOVED (or ASK) reply for a fragment that is still open, naming a node the proxy has a pool for
   and can connect to: the fragment is queued again at the tail of that node's connection, nothing is
   written to the client, no request changes *)
Theorem C13_redirect_requeues : forall st s sv f inq' mid slot ty rsp p st1 s2,
  lookup s (servers st) = Some sv -> ps_inq sv = f :: inq' -> f = FReq mid slot ->
  let st0 := set_inflight (set_server st s {| ps_open := ps_open sv; ps_addr := ps_addr sv; ps_slave := ps_slave sv;
                 ps_initializing := ps_initializing sv; ps_step := ps_step sv; ps_left := ps_left sv;
                 ps_outq := ps_outq sv; ps_inq := inq'; ps_got := ps_got sv; ps_written := ps_written sv;
                 ps_taken := S (ps_taken sv) |}) (remove_first_inflight s f (inflight st)) in
  let stm := mark_moved st0 mid slot in
  frag_done st0 mid slot = false -> (ty = RspMoved \/ ty = RspAsk) ->
  find_pool stm (parse_moved ty rsp) = Some p -> pool_get stm p = (st1, Some s2) ->
  let st2 := if N.eqb ty RspAsk then enqueue_out st1 s2 (FProbe true) else st1 in
  on_reply st s ty rsp = ROk (enqueue_out st2 s2 f) /\
  clients (enqueue_out st2 s2 f) = clients st /\
  (forall x, msg_done (enqueue_out st2 s2 f) x = msg_done st x /\ msg_rsp (enqueue_out st2 s2 f) x = msg_rsp st x).
Proof. exact redirect_requeues. Qed.
Print Assumptions C13_redirect_requeues.

(* what is queued on the named node's connection: the request alone for MOVED; ASKING and then the
   request, next to each other at the tail, for ASK (FProbe true is the ownerless ASKING command: its
   +OK is consumed like a topology probe's reply and reaches no client) *)
Theorem C13_redirect_queue : forall st1 s2 f ty sv, lookup s2 (servers st1) = Some sv ->
  let st2 := if N.eqb ty RspAsk then enqueue_out st1 s2 (FProbe true) else st1 in
  exists sv', lookup s2 (servers (enqueue_out st2 s2 f)) = Some sv' /\
              ps_outq sv' = ps_outq sv ++ (if N.eqb ty RspAsk then [FProbe true; f] else [f]) /\
              ps_got sv' = ps_got sv /\ ps_inq sv' = ps_inq sv.
Proof. exact redirect_queue. Qed.
Print Assumptions C13_redirect_queue.

(* ... and the bytes the next write round sends for that pair: the ASKING command, then the request *)
Theorem C13_asking_then_request : forall st f,
  concat (map (frag_req st) [FProbe true; f]) = ReqAsking ++ frag_req st f.
Proof. exact asking_wire. Qed.
Print Assumptions C13_asking_then_request.

(* the final node's reply is delivered once, in pipeline order: C01's theorem covers every history
   that contains redirects; and every event terminates (each step is a total function; its loops run
   on fuel that provably suffices: one byte, one task or one fragment is consumed per iteration) *)
Theorem C13_order_kept : forall cfg pools slots evs st cid cl,
  run (init_state cfg pools slots) evs = ROk st -> lookup cid (clients st) = Some cl ->
  map fst (pc_hist cl) = seq 0 (length (pc_hist cl)) /\ pc_got cl = concat (map snd (pc_hist cl)).
Proof. intros. destruct (replies_in_order _ _ _ _ _ _ _ H H0) as (A & B & _). auto. Qed.
Print Assumptions C13_order_kept.

(* MOVED and ASK end to end on concrete histories: the client sees only the final node's reply; the
   importing node of an ASK redirect receives ASKING immediately followed by the request, and its +OK
   for ASKING reaches no client. *)
Definition w_srv_got (r : result pst) (s : nat) : bytes :=
  match r with ROk st => match lookup s (servers st) with Some sv => ps_got sv | None => [] end | _ => bs "!" end.

Example C13_moved_witness :
  let evs := [EConnect 0 true; EClientData 0 (enc_request [bs "get"; bs "a"]) []; ETasks [];
              EServerData 0 (bs "-MOVED 15495 n1:1" ++ crlf); ETasks []; EServerData 1 (enc_bulk (bs "A"))] in
  w_got (run (init_state w_cfg w2_pools w2_slots) evs) 0 = enc_bulk (bs "A") /\
  w_srv_got (run (init_state w_cfg w2_pools w2_slots) evs) 1 = enc_request [bs "get"; bs "a"].
Proof. cbv zeta. split; vm_compute; reflexivity. Qed.

Example C13_ask_witness :
  let evs := [EConnect 0 true; EClientData 0 (enc_request [bs "get"; bs "a"]) []; ETasks [];
              EServerData 0 (bs "-ASK 15495 n1:1" ++ crlf); ETasks []] in
  let evs2 := evs ++ [EServerData 1 (bs "+OK" ++ crlf); EServerData 1 (enc_bulk (bs "A"))] in
  (* what the importing node n1 receives *)
  w_srv_got (run (init_state w_cfg w2_pools w2_slots) evs) 1 = enc_request [bs "ASKING"] ++ enc_request [bs "get"; bs "a"] /\
  (* nothing reaches the client before the final reply, and then exactly that reply *)
  w_got (run (init_state w_cfg w2_pools w2_slots) evs) 0 = [] /\
  w_got (run (init_state w_cfg w2_pools w2_slots) evs2) 0 = enc_bulk (bs "A").
Proof. cbv zeta. repeat split; vm_compute; reflexivity. Qed.
