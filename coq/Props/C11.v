(* C11 — Backend errors reach the client as errors, never as success or a crash.
   Only theorem statements; proofs in Proofs/MergeProofs.v, Proofs/ServerCodecProofs.v. *)
From RcProxy Require Import Base.Bytes Base.Dec Gen.Generated Spec.RespGrammar Spec.RespValue
  Model.RespBuf Model.Commands Model.Crc16 Model.ClientCodec Model.ServerCodec
  Proofs.ClientCodecProofs Proofs.ServerCodecProofs Proofs.SplitProofs Proofs.MergeProofs.
From Coq Require Import Permutation.
Open Scope N_scope.

(* every error line a node can send that is not a redirect/auth error is framed exactly and
   classified as an error reply, for every error text *)
Theorem C11_error_framed : forall s rest, line_ok s -> acted_on_error s = false ->
  sdecode (enc_value (RError s) ++ rest) = SReply RspError (length (enc_value (RError s))).
Proof.
  intros s rest Hs Ha. rewrite sdecode_enc by exact Hs. f_equal.
  unfold type_of, classify_error. unfold acted_on_error in Ha.
  apply orb_false_iff in Ha as [Ha H6]. apply orb_false_iff in Ha as [Ha H5].
  apply orb_false_iff in Ha as [Ha H4]. apply orb_false_iff in Ha as [Ha H3].
  apply orb_false_iff in Ha as [H1 H2].
  rewrite H1, H2, H3, H4, H5, H6. reflexivity.
Qed.
Print Assumptions C11_error_framed.

(* single-key requests: the client receives the backend's bytes verbatim (for an error: the error) *)
Theorem C11_single_verbatim : forall sigma limit m s rty rsp f,
  sm_type m <> ReqMget -> sm_type m <> ReqDel -> sm_type m <> ReqMset ->
  get_frag (sm_frags m) s = Some f -> sf_done f = false -> (Z.of_nat (length rsp) <= limit)%Z ->
  exists m', merge_step sigma limit m s rty rsp = Fine (Some m') /\ sm_done m' = true /\ sm_rsp m' = rsp.
Proof.
  intros sigma limit m s rty rsp f H1 H2 H3 Hg Hd Hl.
  destruct (default_reply sigma limit m s rty rsp f H1 H2 H3 Hg Hd) as (m' & E & D & R).
  exists m'. split; [exact E|]. split; [exact D|]. rewrite R.
  destruct (Z.ltb_spec limit (Z.of_nat (length rsp))); [lia | reflexivity].
Qed.
Print Assumptions C11_single_verbatim.

(* split MGET: ANY reply that is not an array - every error - on ANY fragment, at any point while
   the request is still open, completes the whole request with an error reply; no crash, no stall *)
Theorem C11_mget_error : forall sigma limit m s rty rsp f,
  sm_type m = ReqMget -> get_frag (sm_frags m) s = Some f -> sf_done f = false -> rty <> RspMultibulk ->
  exists m', merge_step sigma limit m s rty rsp = Fine (Some m')
             /\ sm_done m' = true /\ hd 0 (sm_rsp m') = 45 (* '-' *) /\ all_done m'.
Proof.
  intros. destruct (mget_error_reply sigma limit m s rty rsp f) as (m' & E & D & P & A); try assumption.
  exists m'. repeat split; try assumption. apply proxy_error_is_error, P.
Qed.
Print Assumptions C11_mget_error.

Theorem C11_del_error : forall sigma limit m s rty rsp f,
  sm_type m = ReqDel -> get_frag (sm_frags m) s = Some f -> sf_done f = false -> rty <> RspInteger ->
  exists m', merge_step sigma limit m s rty rsp = Fine (Some m')
             /\ sm_done m' = true /\ hd 0 (sm_rsp m') = 45 /\ all_done m'.
Proof.
  intros. destruct (del_error_reply sigma limit m s rty rsp f) as (m' & E & D & P & A); try assumption.
  exists m'. repeat split; try assumption. apply proxy_error_is_error, P.
Qed.
Print Assumptions C11_del_error.

(* split MSET: if any node answers anything but OK (in any arrival order) the reply is an error *)
Theorem C11_mset_error : forall sigma limit ks rty rep (order : list (N * list bytes)) g0,
  (forall g, (Z.of_nat (length (rep g)) <= limit)%Z) ->
  Permutation order (group_by sigma (fun k => k) ks) ->
  In g0 (group_by sigma (fun k => k) ks) -> rty g0 <> RspOk ->
  exists m, run_replies sigma limit (mset_of sigma ks rty []) (map (fun g => (fst g, rty g, rep g)) order) = Fine m
            /\ sm_done m = true /\ sm_rsp m = ErrUnKnown.
Proof.
  intros sigma limit ks rty rep order g0 Hlim Hperm Hin Hne.
  assert (Hnonempty : group_by sigma (fun k : bytes => k) ks <> []) by (intro E; rewrite E in Hin; contradiction).
  destruct (mset_any_order sigma limit ks rty rep Hlim order Hperm Hnonempty) as (P' & Hrun).
  exists (mset_fin sigma ks rty P'). split; [exact Hrun|]. split; [reflexivity|].
  unfold mset_fin, mset_state. cbn [sm_rsp].
  assert (forallb (okf rty) (group_by sigma (fun k : bytes => k) ks) = false) as ->; [|reflexivity].
  apply not_true_is_false. intro Hall. rewrite forallb_forall in Hall. specialize (Hall g0 Hin).
  unfold okf in Hall. apply N.eqb_eq in Hall. contradiction.
Qed.
Print Assumptions C11_mset_error.

(* exactly once: after the request has been completed (by an error or otherwise), every later
   reply for any of its fragments is discarded and changes nothing *)
Theorem C11_exactly_once : forall sigma limit m rs,
  all_done m -> (forall s t b, In (s, t, b) rs -> exists f, get_frag (sm_frags m) s = Some f) ->
  run_replies sigma limit m rs = Fine m.
Proof. exact run_after_done. Qed.
Print Assumptions C11_exactly_once.

(* the witnesses of the two repaired defects: an error on one DEL fragment used to be counted as
   -1 (":0" for the client); an error on an MGET fragment used to panic the process *)
Example C11_witnesses :
  let ks := [bs "a"; bs "b"] in
  let err := bs "-LOADING Redis is loading the dataset in memory" ++ crlf in
  let gs := group_by Hash (fun k => k) ks in
  length gs = 2%nat /\
  (match run_replies Hash 1000 (del_of Hash ks (fun _ => 1) [])
           [(fst (nth 0 gs (0, [])), RspError, err); (fst (nth 1 gs (0, [])), RspInteger, del_reply 1)] with
   | Fine m => sm_rsp m | _ => [] end) = ErrUnKnown /\
  (match run_replies Hash 1000 (mget_of Hash ks (fun _ => None) [])
           [(fst (nth 0 gs (0, [])), RspError, err)] with
   | Fine m => sm_rsp m | _ => [] end) = ErrUnKnownMget.
Proof. cbv zeta. repeat split; vm_compute; reflexivity. Qed.
