(* C17 — Only supported, well-formed, size-limited requests are forwarded (request side).
   Only theorem statements; proofs in Proofs/CommandsProofs.v, Proofs/ClassifyProofs.v. *)
From RcProxy Require Import Base.Bytes Base.Dec Gen.Generated Spec.RespGrammar Spec.CommandSpec
  Model.RespBuf Model.Commands Model.Crc16 Model.ClientCodec
  Model.ServerCodec Proofs.ClientCodecProofs Proofs.CommandsProofs Proofs.ClassifyProofs Proofs.MergeProofs.
Open Scope N_scope.

(* DATA (re-proved against the tables translated from commands.go and docs/command.md on every
   run): the set of names the proxy recognises is exactly the documented "Yes" rows, plus auth *)
Theorem C17_supported_is_documented :
  forall name, (exists t, assoc_b name CommandStr2Type = Some t) <-> In name supported_names.
Proof. exact supported_is_documented. Qed.
Print Assumptions C17_supported_is_documented.

Theorem C17_tables_agree :
  forall name t, assoc_b name CommandStr2Type = Some t ->
    (exists s, assoc_n t CommandType2Str = Some s) /\ (exists a, assoc_n t CommandType2ArgsNumber = Some a).
Proof. exact tables_agree. Qed.
Print Assumptions C17_tables_agree.

(* command names are compared case-insensitively *)
Theorem C17_case_insensitive : forall name name' n,
  to_lower name = to_lower name' -> transform2type name n = transform2type name' n.
Proof. exact transform2type_case. Qed.
Print Assumptions C17_case_insensitive.

(* LOGIC: for every canonical request, whatever follows it in the pipeline, the decoder consumes
   exactly the request's own bytes (so the following requests are unaffected) and classifies it by
   the specification: too large iff ITS OWN encoded size exceeds the limit; else unknown iff the
   lower-cased name is not in the table; else wrong arity iff the arity rule fails; else served *)
Theorem C17_classify : forall limit name args rest, wf_req name args ->
  exists m, decode limit (enc_request (name :: args) ++ rest) = DOk m (length (enc_request (name :: args)))
    /\ class_of_type (cm_type m) = spec_class limit name args.
Proof.
  intros limit name args rest Hwf. exists (build_msg limit name args).
  split; [apply decode_complete, Hwf | apply build_msg_class].
Qed.
Print Assumptions C17_classify.

(* in particular the classification does not depend on what else is buffered *)
Corollary C17_independent_of_pipeline : forall limit name args rest rest' m m' n n', wf_req name args ->
  decode limit (enc_request (name :: args) ++ rest) = DOk m n ->
  decode limit (enc_request (name :: args) ++ rest') = DOk m' n' -> m = m' /\ n = n'.
Proof.
  intros limit name args rest rest' m m' n n' Hwf H1 H2.
  rewrite decode_complete in H1, H2 by exact Hwf. split; congruence.
Qed.
Print Assumptions C17_independent_of_pipeline.

(* REPLY side: a backend reply larger than the limit is replaced by the size error (single-key),
   and so is an assembled MGET reply larger than the limit *)
Theorem C17_reply_too_large : forall sigma limit m s rty rsp f,
  sm_type m <> ReqMget -> sm_type m <> ReqDel -> sm_type m <> ReqMset ->
  get_frag (sm_frags m) s = Some f -> sf_done f = false -> (limit < Z.of_nat (length rsp))%Z ->
  exists m', merge_step sigma limit m s rty rsp = Fine (Some m') /\ sm_done m' = true /\ sm_rsp m' = ErrMsgRspTooLarge.
Proof.
  intros sigma limit m s rty rsp f H1 H2 H3 Hg Hd Hl.
  destruct (default_reply sigma limit m s rty rsp f H1 H2 H3 Hg Hd) as (m' & E & D & R).
  exists m'. split; [exact E|]. split; [exact D|]. rewrite R.
  destruct (Z.ltb_spec limit (Z.of_nat (length rsp))); [reflexivity | lia].
Qed.
Print Assumptions C17_reply_too_large.

Theorem C17_mget_reply_too_large : forall sigma limit ks rho P,
  (limit < Z.of_nat (length (final_mget ks rho)))%Z ->
  sm_rsp (mget_fin sigma limit ks rho P) = ErrMsgRspTooLarge.
Proof.
  intros. unfold mget_fin. destruct (Z.ltb_spec limit (Z.of_nat (length (final_mget ks rho)))); [reflexivity | lia].
Qed.
Print Assumptions C17_mget_reply_too_large.

(* non-vacuity, and the witness that refuted the pre-fix code: with limit 100, a 21-byte GET
   followed by five more is served (the old size test looked at all 126 buffered bytes) *)
Example C17_witness :
  wf_req (bs "GET") [bs "k3"] /\ length (enc_request [bs "GET"; bs "k3"]) = 21%nat /\
  spec_class 100 (bs "GET") [bs "k3"] = CServed ReqGet /\
  cm_type (build_msg 100 (bs "GET") [bs "k3"]) = ReqGet.
Proof.
  split; [|split; [|split]]; [|vm_compute; reflexivity..].
  unfold wf_req, small. split; [vm_compute; reflexivity|]. split; [|vm_compute; reflexivity].
  constructor; [vm_compute; reflexivity | constructor].
Qed.

From RcProxy Require Model.ClientCodecFast Proofs.ClientCodecFastProofs.
(* the correspondence run evaluates `decode_fast` (Model/ClientCodecFast.v: linear-time readers, so that
   requests with more keys than slots are affordable on every run); it is `decode` on every input *)
Theorem C17_evaluated_decoder_is_the_model : forall limit b,
  RcProxy.Model.ClientCodecFast.decode_fast limit b = decode limit b.
Proof. exact RcProxy.Proofs.ClientCodecFastProofs.decode_fast_eq. Qed.
Print Assumptions C17_evaluated_decoder_is_the_model.
