(* C16 — A timed-out request gets one timeout error and the connection stays usable.
   Only theorem statements; proofs in Proofs/ProxyProofs.v. *)
From RcProxy Require Import Base.Bytes Base.Dec Gen.Generated Spec.RespGrammar
  Model.RespBuf Model.ClientCodec Model.ServerCodec Model.Route Model.Proxy Proofs.ProxyProofs Props.C01 Props.C09.
Open Scope N_scope.

(* the timeout scan: every fragment in the expiry list ends up done, and every request that still had
   an un-done fragment in it is completed with the timeout error as its reply - for any list of
   expired fragments, in any state *)
Theorem C16_timeout_completes : forall l st s mid slot,
  In (s, FReq mid slot) l -> msg_exists st mid ->
  frag_done (expire st l) mid slot = true /\
  (frag_done st mid slot = false -> timed_out (expire st l) mid).
Proof. exact timeout_completes. Qed.
Print Assumptions C16_timeout_completes.

(* exactly one, in its pipeline position: the timeout error is the request's reply (sm_rsp) and
   replies reach the client only through the ordered flush - C01's theorem covers every history that
   contains timeout scans *)
Theorem C16_in_position : forall cfg pools slots evs st cid cl,
  run (init_state cfg pools slots) evs = ROk st -> lookup cid (clients st) = Some cl ->
  map fst (pc_hist cl) = seq 0 (length (pc_hist cl)) /\ pc_got cl = concat (map snd (pc_hist cl)).
Proof. intros. destruct (replies_in_order _ _ _ _ _ _ _ H H0) as (A & B & _). auto. Qed.
Print Assumptions C16_in_position.

(* a backend reply that arrives after the request was completed is discarded: it changes neither
   any client nor any request *)
Theorem C16_late_reply_discarded : forall st s sv mid slot inq' ty rsp,
  lookup s (servers st) = Some sv -> ps_inq sv = FReq mid slot :: inq' -> frag_done st mid slot = true ->
  exists st', on_reply st s ty rsp = ROk st' /\ clients st' = clients st /\ msgs st' = msgs st.
Proof. exact late_reply_dropped. Qed.
Print Assumptions C16_late_reply_discarded.

(* the connection stays usable: the head-of-queue clause (C09) holds after a timeout scan as after
   any other event, so requests behind the timed-out one are delivered as soon as they complete *)
Theorem C16_queue_not_blocked : forall st, CInvG st None -> CInvG (timeout_scan st) None.
Proof. exact timeout_scan_inv. Qed.
Print Assumptions C16_queue_not_blocked.

(* witness of the repaired defect: "GET a; GET b", b answered, a stalls; after the scan the client has
   the timeout error for a followed by b's reply (it used to get only the error, out of order, and
   the queue stayed blocked); a's late reply is dropped and a new request is served *)
Definition w_cfg_t := {| cf_limit := 1000; cf_password := []; cf_timeout := true; cf_max_active := 1; cf_replica_reads := false; cf_reps := [] |}.
Example C16_witness :
  w_got (run (init_state w_cfg_t w2_pools w2_slots)
           [EConnect 0 true; EClientData 0 (enc_request [bs "get"; bs "a"] ++ enc_request [bs "get"; bs "b"]) []; ETasks [];
            EServerData 1 (enc_bulk (bs "B")); ETimeout;
            EServerData 0 (enc_bulk (bs "late")); EClientData 0 (enc_request [bs "get"; bs "a"]) []; ETasks [];
            EServerData 0 (enc_bulk (bs "A2"))]) 0
  = ErrMsgRequestTimeout ++ enc_bulk (bs "B") ++ enc_bulk (bs "A2").
Proof. vm_compute. reflexivity. Qed.
