(* C14 — Routing table converges to the latest valid CLUSTER NODES description.
   Only theorem statements; proofs in Proofs/ClusterProofs.v. *)
From RcProxy Require Import Base.Bytes Base.Dec Gen.Generated Model.RespBuf Model.Cluster Proofs.ClusterProofs Model.Info Proofs.InfoProofs.
From RcProxy Require Model.Proxy Proofs.ProxyRouteProofs.
Open Scope N_scope.

(* the refresh loop survives EVERY probe reply, for every history: it never ends and never panics *)
Theorem C14_loop_never_dies : forall info msgs st, run_history info msgs st <> None.
Proof. exact history_total. Qed.
Print Assumptions C14_loop_never_dies.

(* unusable replies - too short, +OK, nil, a header that is not a length (every error line),
   oversized - leave the state exactly as it was ... *)
Theorem C14_unusable_keeps_state : forall st info msg,
  classify_probe msg = PSkip -> loop_step st info msg = Some st.
Proof. exact skip_keeps_state. Qed.
Print Assumptions C14_unusable_keeps_state.

Theorem C14_unusable_kinds : forall msg,
  (length msg < 3)%nat \/ has_prefix msg (bs "+OK") = true \/ has_prefix msg (bs "$-1") = true ->
  classify_probe msg = PSkip.
Proof. exact unusable_kinds. Qed.
Print Assumptions C14_unusable_kinds.

Theorem C14_unusable_header : forall msg i,
  index_byte msg LF = Some i ->
  (snd (parse_len (firstn (i - 2) (skipn 1 msg))) <> None \/
   (163840 < fst (parse_len (firstn (i - 2) (skipn 1 msg))))%Z) ->
  classify_probe msg = PSkip.
Proof. exact unusable_header. Qed.
Print Assumptions C14_unusable_header.

(* ... so does a text with fewer than three usable nodes ... *)
Theorem C14_too_few_nodes : forall st info text,
  parse_nodes (map cn_addr (cs_servers st)) info text = None -> update_cluster st info text = st.
Proof. exact too_few_nodes_keeps_state. Qed.
Print Assumptions C14_too_few_nodes.

(* ... and any number of them never prevents a later reply from being adopted *)
Theorem C14_unusable_do_not_block : forall info skipped good st,
  Forall (fun m => classify_probe m = PSkip) skipped ->
  run_history info (skipped ++ [good]) st = loop_step st info good.
Proof. exact unusable_do_not_block. Qed.
Print Assumptions C14_unusable_do_not_block.

(* which nodes are used: every node of an adopted description comes from a line with at least 8
   columns whose flags contain none of noaddr / handshake / fail (so also fail?), that is a master
   or a slave, whose link is not disconnected, whose address and slots parse; a node not known
   before must answer INFO, and a new replica must be neither loading nor have its master link
   down; and there are at least three such nodes *)
Theorem C14_node_rules : forall known info text nodes n,
  parse_nodes known info text = Some nodes -> In n nodes ->
  (3 <= length nodes)%nat /\ exists line, In line (split_on 10 text) /\ usable_line known info line n.
Proof. exact parsed_nodes_are_usable. Qed.
Print Assumptions C14_node_rules.

(* an adopted, changed description replaces servers and replica sets *)
Theorem C14_adopt : forall st info text nodes,
  parse_nodes (map cn_addr (cs_servers st)) info text = Some nodes ->
  (length nodes <> length (cs_servers st) \/ fingerprint nodes <> cs_last st) ->
  update_cluster st info text
  = {| cs_servers := set_server nodes; cs_sets := set_replicaset nodes; cs_last := fingerprint nodes; cs_changed := true |}.
Proof. exact adopt_changed. Qed.
Print Assumptions C14_adopt.

(* the slot table the ticker builds from the replica sets: a slot is served by a set that claims
   it; unclaimed slots have no owner; with disjoint claims the owner is THE claiming set *)
Theorem C14_table_sound : forall sets slot rs,
  table_lookup sets slot = Some rs -> In rs sets /\ covers rs slot = true.
Proof. exact table_lookup_sound. Qed.
Print Assumptions C14_table_sound.

Theorem C14_table_unclaimed : forall sets slot,
  table_lookup sets slot = None <-> forall rs, In rs sets -> covers rs slot = false.
Proof. exact table_lookup_none. Qed.
Print Assumptions C14_table_unclaimed.

Theorem C14_table_unique : forall sets slot rs,
  In rs sets -> covers rs slot = true ->
  (forall rs', In rs' sets -> covers rs' slot = true -> rs' = rs) -> table_lookup sets slot = Some rs.
Proof. exact table_lookup_unique. Qed.
Print Assumptions C14_table_unique.

(* replicas are attached to the master whose node id they follow; masters are the master nodes *)
Theorem C14_replica_sets : forall nodes m ss,
  In (m, ss) (set_replicaset nodes) ->
  In m nodes /\ cn_slave m = false /\
  forall s, In s ss -> In s nodes /\ cn_slave s = true /\ cn_masterid s = cn_name m.
Proof. exact replica_sets_sound. Qed.
Print Assumptions C14_replica_sets.

(* slot numbers of every parsed node lie in 0..16383, so the table write cannot go out of range *)
Theorem C14_slots_in_range : forall xs n, new_cluster_node xs = Some n ->
  Forall (fun r => (0 <= fst r)%Z /\ (snd r < 16384)%Z) (cn_slots n).
Proof. exact node_slots_in_range. Qed.
Print Assumptions C14_slots_in_range.

(* after the ticker the pools are exactly the addresses of the adopted nodes *)
Theorem C14_pools : forall pools servers a,
  In a (map fst (tick_pools pools servers)) <-> In a (map cn_addr servers).
Proof. exact tick_pools_addresses. Qed.
Print Assumptions C14_pools.

(* the witnesses of the repaired defects *)
Example C14_witnesses :
  (* "+OK" then a valid text: the text is adopted (the loop used to end at "+OK") *)
  classify_probe (bs "+OK" ++ crlf) = PSkip /\
  (* an empty bulk / integer / empty array no longer panics the goroutine *)
  classify_probe (bs "$0" ++ crlf ++ crlf) = PSkip /\ classify_probe (bs ":1" ++ crlf) = PSkip /\
  (* a slot beyond 16383 makes the line unusable instead of crashing the ticker *)
  parse_slot (bs "0-20000") = None /\ parse_slot (bs "16384") = None /\ parse_slot (bs "16383") = Some (16383, 16383)%Z /\
  (* re-parenting a replica changes the fingerprint *)
  (let m1 := {| cn_name := bs "m1"; cn_addr := bs "a:1"; cn_slave := false; cn_masterid := bs "-"; cn_slots := [(0, 100)%Z] |} in
   let m2 := {| cn_name := bs "m2"; cn_addr := bs "b:1"; cn_slave := false; cn_masterid := bs "-"; cn_slots := [(101, 200)%Z] |} in
   let s x := {| cn_name := bs "s"; cn_addr := bs "c:1"; cn_slave := true; cn_masterid := x; cn_slots := [] |} in
   beqb (fingerprint [m1; m2; s (bs "m1")]) (fingerprint [m1; m2; s (bs "m2")]) = false).
Proof. cbv zeta. repeat split; vm_compute; reflexivity. Qed.

(* the INFO probe of a node not yet known (loading / master link, which decide whether a replica is
   adopted): on a text made of key:value fields the reader computes the exact-key lookup - the last
   field whose key IS loading / master_link_status / redis_version; fields with other keys
   (async_loading, loading_start_time, ...) never change the three values *)
Theorem C14_info_exact_keys : forall fields, Forall wf_field fields ->
  info_of_lines (map field_line fields) = spec_info (map field_line fields).
Proof. exact info_exact_keys. Qed.
Print Assumptions C14_info_exact_keys.

Theorem C14_info_other_field_irrelevant : forall i k v, ~ In 58 k ->
  k <> bs "loading" -> k <> bs "master_link_status" -> k <> bs "redis_version" ->
  info_line i (k ++ 58 :: v) = i.
Proof. exact other_field_irrelevant. Qed.
Print Assumptions C14_info_other_field_irrelevant.

Example C14_info_witness :
  let text := bs "# Server" ++ [13; 10] ++ bs "redis_version:7.0.11" ++ [13; 10] ++ bs "loading:0" ++ [13; 10]
              ++ bs "async_loading:0" ++ [13; 10] ++ bs "master_link_status:up" ++ [13; 10] in
  match parse_info text with
  | Some i => in_loading i = false /\ in_link i = bs "up" /\ in_version i = bs "7.0.11" /\ info_usable_replica i = true
  | None => False
  end.
Proof. vm_compute. repeat split. Qed.

(* the event-loop model (Model/Proxy.v, event ETopology) and the ticker model of this property say the
   same thing about the pools that exist: kept when the node is still there with the same role,
   re-created empty when the role changed, dropped when the node left; the ticker model adds the
   pools of nodes that are new *)
Theorem C14_ticker_agrees_with_event_loop_model : forall pools servers,
  tick_pools (map ProxyRouteProofs.pool_key pools) servers =
  map ProxyRouteProofs.pool_key (concat (map (Proxy.topology_pool (map ProxyRouteProofs.node_key servers)) pools)) ++
  map ProxyRouteProofs.node_key (filter (fun n => negb (memb (cn_addr n) (map Proxy.pp_addr pools))) servers).
Proof. exact ProxyRouteProofs.ticker_models_agree. Qed.
Print Assumptions C14_ticker_agrees_with_event_loop_model.
