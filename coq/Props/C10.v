(* C10 — Requests from one client reach each node in the order sent.
   Only theorem statements; proofs in Proofs/ProxyOrderProofs.v (with ProxyServerProofs / ProxyWireProofs). *)
From RcProxy Require Import Base.Bytes Base.Dec Gen.Generated Spec.RespGrammar
  Model.RespBuf Model.ClientCodec Model.ServerCodec Model.Route Model.Proxy
  Proofs.ProxyProofs Proofs.ProxyServerProofs Proofs.ProxyWireProofs Proofs.ProxyOrderProofs Props.C01 Props.C09.
Open Scope N_scope.

(* For EVERY history (any number of clients, any pipelines, any interleaving of client reads, write
   rounds, backend replies, closes, timeouts) and every backend connection: the request numbers of
   one client's fragments - those already on the wire, in wire order, followed by those still
   waiting to be written - never decrease.  Fragments that were redirected (MOVED/ASK) are re-sent
   later by design and are excluded; fragments of ONE request (equal numbers) may be written in any
   order.  With one connection per node this is the order in which the node receives them. *)
Theorem C10_per_connection_order : forall cfg pools slots evs st s sv cid,
  run (init_state cfg pools slots) evs = ROk st -> lookup s (servers st) = Some sv ->
  sorted (seqs st cid (map fst (ps_written sv) ++ ps_outq sv)).
Proof. exact per_connection_order. Qed.
Print Assumptions C10_per_connection_order.

(* element-wise: earlier on the connection means an earlier (or the same) request of that client.
   Hence a pipelined write followed by a read of the same key - both single-fragment requests
   routed to the same master connection - reaches the node write first. *)
Theorem C10_earlier_on_wire_is_earlier_request : forall cfg pools slots evs st s sv cid l1 f2 l2 f1 l3 x1 x2,
  run (init_state cfg pools slots) evs = ROk st -> lookup s (servers st) = Some sv ->
  map fst (ps_written sv) ++ ps_outq sv = l1 ++ f2 :: l2 ++ f1 :: l3 ->
  okey st f2 = Some (cid, x2) -> okey st f1 = Some (cid, x1) -> (x2 <= x1)%nat.
Proof. exact earlier_on_wire_is_earlier_request. Qed.
Print Assumptions C10_earlier_on_wire_is_earlier_request.

(* what is on the wire IS that sequence of requests (C03's wire identity): the bytes the node has
   received are the handshake followed by the recorded requests in this order *)
Theorem C10_wire_is_the_record : forall cfg pools slots evs st s sv,
  run (init_state cfg pools slots) evs = ROk st -> lookup s (servers st) = Some sv ->
  ps_got sv = handshake_of st sv ++ concat (map snd (ps_written sv)).
Proof. intros. destruct (wire_identity _ _ _ _ _ _ _ H H0) as (A & _). exact A. Qed.
Print Assumptions C10_wire_is_the_record.

Theorem C10_step_invariant : forall st e st', OW st -> step st e = ROk st' -> OW st'.
Proof. exact step_ow. Qed.
Print Assumptions C10_step_invariant.

(* non-vacuity: SET k v; GET k pipelined in one read - the node receives the SET first and the
   client gets +OK then the value *)
Example C10_witness :
  let evs := [EConnect 0 true; EClientData 0 (enc_request [bs "set"; bs "k"; bs "v"] ++ w_get) []; ETasks [];
              EServerData 0 (StatusOK ++ enc_bulk (bs "v"))] in
  match run (init_state w_cfg w_pools w_slots) evs with
  | ROk st => match lookup 0%nat (servers st) with
              | Some sv => ps_got sv = enc_request [bs "set"; bs "k"; bs "v"] ++ w_get /\
                           seqs st 0 (map fst (ps_written sv) ++ ps_outq sv) = [0%nat; 1%nat]
              | None => False end
  | _ => False
  end /\
  w_got (run (init_state w_cfg w_pools w_slots) evs) 0 = StatusOK ++ enc_bulk (bs "v").
Proof. cbv zeta. split; [vm_compute; split; reflexivity | vm_compute; reflexivity]. Qed.
