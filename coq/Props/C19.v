(* C19 — I/O buffers behave as exact FIFO byte queues.
   Only theorem statements; proofs in Proofs/RingProofs.v, Proofs/BufferProofs.v, Proofs/BufferSeqProofs.v. *)
From RcProxy Require Import Base.Bytes Model.Buffers Spec.FifoSpec Proofs.RingProofs Proofs.BufferProofs Proofs.BufferSeqProofs
  Model.ConnOut Proofs.ConnOutProofs.
From Coq Require Import Arith.
Local Open Scope nat_scope.

(* For EVERY sequence of operations (Write, Writev, Peek(n) incl. n <= 0, Discard, Read, Reset; any
   sizes, any initial capacity, any capacity of a recycled ring, wrap-around, growth below and
   above the 4 KiB threshold), as long as fewer than 2^31 bytes are written in total:
   every result equals the ideal queue's, Buffered() is the exact length, IsEmpty() is exact. *)
Theorem C19_ring_is_a_fifo : forall size ops, small_size (written ops) ->
  conforms ring_step ring_buffered rg_empty (ring_new size) [] ops.
Proof. intros size ops H. apply ring_conforms; [apply view_new | exact H]. Qed.
Print Assumptions C19_ring_is_a_fifo.

(* the pooled ring of a connection's inbound side (taken on first use, returned when drained) *)
Theorem C19_elastic_ring_is_a_fifo : forall ops, small_size (written ops) ->
  conforms er_step er_buffered er_is_empty None [] ops.
Proof. intros ops H. apply er_conforms; [reflexivity | exact H]. Qed.
Print Assumptions C19_elastic_ring_is_a_fifo.

(* the outbound ring-then-list buffer, for every static threshold: Peek hands out whole chunks -
   the oldest bytes, at least as many as asked for, all of them for n <= 0 (what eventloop.write
   asks) - everything else is exact; bytes spilled to the list never overtake bytes in the ring *)
Theorem C19_elastic_buffer_is_a_fifo : forall maxb ops, small_size (written ops) ->
  eb_conforms (eb_new maxb) [] ops.
Proof. intros maxb ops H. apply eb_conforms_all; [apply eb_new_view | exact H]. Qed.
Print Assumptions C19_elastic_buffer_is_a_fifo.

(* the single steps, in terms of the abstraction "contents, oldest first" *)
Theorem C19_ring_write : forall rb c p, rview rb c -> small_size (length c + length p) -> rview (ring_write rb p) (c ++ p).
Proof. exact ring_write_spec. Qed.
Print Assumptions C19_ring_write.

Theorem C19_ring_peek : forall rb c pos n h t, rview rb c -> ring_peek rb pos n = (h, t) ->
  h ++ t = if pos then firstn n c else c.
Proof. exact ring_peek_spec. Qed.
Print Assumptions C19_ring_peek.

Theorem C19_ring_discard : forall rb c n d rb', rview rb c -> ring_discard rb n = (d, rb') ->
  d = Nat.min n (length c) /\ rview rb' (skipn n c).
Proof. exact ring_discard_spec. Qed.
Print Assumptions C19_ring_discard.

(* growth never loses or reorders bytes and always makes room (capacity computation included) *)
Theorem C19_grow_capacity : forall size newcap, small_size newcap -> newcap <= grow_cap size newcap.
Proof. exact grow_cap_ge. Qed.
Print Assumptions C19_grow_capacity.

(* WriteByte (repaired defect: it ran past the slice on a full ring of 4 KiB or more) *)
Theorem C19_write_byte : forall rb c x, rview rb c -> small_size (length c + 1) ->
  exists rb', ring_write_byte rb x = Some rb' /\ rview rb' (c ++ [x]).
Proof. exact ring_write_byte_spec. Qed.
Print Assumptions C19_write_byte.

Theorem C19_read_byte : forall rb c, rview rb c ->
  match c with
  | [] => ring_read_byte rb = (None, rb)
  | x :: c' => exists rb', ring_read_byte rb = (Some x, rb') /\ rview rb' c'
  end.
Proof. exact ring_read_byte_spec. Qed.
Print Assumptions C19_read_byte.

(* The users (conn.write, conn.writev, eventloop.write): for every sequence of writes, vectored
   writes and writable events, and EVERY behaviour of the kernel (each write(2)/writev(2) accepts
   any number of the bytes offered, 0 = EAGAIN): the bytes the kernel has accepted followed by the
   backlog are exactly the bytes handed to the connection, in order.  Consequently a reply of any
   size reaches a slow reader complete and uncorrupted once the backlog has drained. *)
Theorem C19_conn_conservation : forall ops c total, coview c total -> small_size (length total + length (co_total ops)) ->
  coview (fold_left co_step ops c) (total ++ co_total ops).
Proof. exact conn_conservation. Qed.
Print Assumptions C19_conn_conservation.

Theorem C19_drained_means_delivered : forall ops maxb, small_size (length (co_total ops)) ->
  eb_is_empty (co_buf (fold_left co_step ops (co_init maxb))) = true ->
  co_sock (fold_left co_step ops (co_init maxb)) = co_total ops.
Proof. exact drained_means_delivered. Qed.
Print Assumptions C19_drained_means_delivered.

(* non-vacuity: a ring of 8 bytes that wraps, fills exactly, grows, and is drained in pieces *)
Example C19_witness :
  let ops := [OWrite [1;2;3;4;5;6]%N 0; ODiscard 4; OWrite [7;8;9;10;11;12]%N 0;     (* wraps, exactly full *)
              OPeek true 3; OWrite [13]%N 0;                                           (* grows *)
              ORead 5; OPeek false 0] in
  small_size (written ops) /\
  map snd (fst (fold_left (fun acc op => let '(out, rb) := acc in let '(rb', r) := ring_step rb op in (out ++ [(rb', r)], rb'))
                          ops ([], ring_new 8)))
  = [RCount 6; RCount 4; RCount 6; RBytes [5;6;7]%N; RCount 1; RBytes [5;6;7;8;9]%N; RBytes [10;11;12;13]%N].
Proof. cbv zeta. split; [vm_compute; reflexivity | vm_compute; reflexivity]. Qed.
