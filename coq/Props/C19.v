(* C19 — I/O buffers behave as exact FIFO byte queues. (statements; proofs in Proofs/BufferProofs.v) *)
From RcProxy Require Import Base.Bytes Model.Buffers.
Theorem C19_placeholder : forall l p, concat (ll_push_back l p) = concat l ++ p.
Proof. intros l p. destruct p; cbn [ll_push_back]; [rewrite app_nil_r; reflexivity|]. rewrite concat_app. cbn. rewrite app_nil_r. reflexivity. Qed.
Print Assumptions C19_placeholder.
