(* C12 — No client input can crash the proxy, disturb others or reach a backend malformed
   (decoder side).  Only theorem statements; proofs in Proofs/ClientCodecProofs.v,
   Proofs/FeedProofs.v, Proofs/ClassifyProofs.v. *)
From RcProxy Require Import Base.Bytes Base.Dec Gen.Generated Spec.RespGrammar
  Model.RespBuf Model.Commands Model.Crc16 Model.ClientCodec Model.ClientFeed
  Proofs.ClientCodecProofs Proofs.FeedProofs Proofs.ClassifyProofs Proofs.GrammarProofs.
From RcProxy Require Model.ServerCodec Model.Proxy Proofs.ProxyProofs Props.C01 Props.C09.
Open Scope N_scope.

(* (a) whatever bytes arrive, the decoder never produces the (nil, nil) result that kills the
   process, and its loops terminate: the outcome is wait / close / a decoded request *)
Theorem C12_decoder_total : forall limit b, decode limit b <> DCrash /\ decode limit b <> DHang.
Proof. exact decode_no_crash. Qed.
Print Assumptions C12_decoder_total.

Theorem C12_read_loop_total : forall limit chunks, snd (feed_all limit chunks) <> FStuck.
Proof.
  intros limit chunks. rewrite feed_all_concat. apply extract_not_stuck. lia.
Qed.
Print Assumptions C12_read_loop_total.

(* (b) for EVERY byte string the decoder accepts, every fragment it builds for forwarding is a
   request a Redis server accepts: "*n" with n >= 1, bulk strings with canonical non-negative
   lengths, nothing else *)
Theorem C12_forwarded_wellformed : forall limit b m n,
  decode limit b = DOk m n ->
  forall slot req, In (slot, req) (body_reqs m) -> redis_accepts req.
Proof.
  intros limit b m n H slot req Hin.
  destruct (decode_sound _ _ _ _ H) as (name & args & _ & _ & _ & ->).
  eapply build_msg_accept, Hin.
Qed.
Print Assumptions C12_forwarded_wellformed.

(* and what it accepted was itself a canonical request: nothing non-canonical is ever let through *)
Theorem C12_accepted_is_canonical : forall limit b m n,
  decode limit b = DOk m n -> redis_accepts (firstn n b).
Proof.
  intros limit b m n H. destruct (decode_sound _ _ _ _ H) as (name & args & _ & Hb & Hn & _).
  exists (name :: args). split; [discriminate|]. rewrite Hb, Hn. apply RespBufProofs.firstn_exact.
Qed.
Print Assumptions C12_accepted_is_canonical.

(* the executable recogniser the oracles run on the implementation's forwarded bytes accepts every
   request of the grammar; hence its "None" on some bytes means a Redis server rejects them *)
Theorem C12_recogniser_complete : forall args, args <> [] -> strict_request (enc_request args) = Some args.
Proof. exact strict_request_enc. Qed.
Print Assumptions C12_recogniser_complete.

(* the witnesses of the repaired defects: each of these now closes the offending connection *)
Example C12_witnesses :
  decode 1000 (bs "*0" ++ crlf) = DClose /\
  decode 1000 (bs "*-1" ++ crlf) = DClose /\
  decode 1000 (bs "*2" ++ crlf ++ enc_bulk (bs "get") ++ bs "$-1" ++ crlf) = DClose /\
  decode 1000 (bs "*02" ++ crlf ++ enc_bulk (bs "get") ++ enc_bulk (bs "a")) = DClose /\
  decode 1000 (bs "*2" ++ crlf ++ bs "$18446744073709551619" ++ crlf ++ bs "get" ++ crlf ++ enc_bulk (bs "a")) = DClose /\
  decode 1000 (crlf ++ enc_request [bs "ping"]) = DClose /\
  ~ redis_accepts (bs "*2" ++ crlf ++ enc_bulk (bs "get") ++ bs "$-1" ++ crlf).
Proof.
  repeat split; try (vm_compute; reflexivity).
  apply strict_none_not_accepted. vm_compute. reflexivity.
Qed.

(* event-loop side: nothing a node answers to a CLIENT's request can stop the proxy - not even the
   authentication errors, which a script can make a node say at will (EVAL "return
   redis.error_reply('NOAUTH ...')").  Such an answer is fatal only where it answers the proxy's own
   commands: the handshake (connection still initializing) or the topology probe.  (A genuine defect
   was repaired here: any -NOAUTH / -ERR invalid password reply used to shut the proxy down.) *)
Theorem C12_client_reply_never_shuts_down : forall st s sv mid slot inq' ty rsp,
  Proxy.lookup s (Proxy.servers st) = Some sv -> Proxy.ps_inq sv = Proxy.FReq mid slot :: inq' ->
  Proxy.ps_initializing sv = false ->
  Proxy.on_reply st s ty rsp <> Proxy.RShutdown.
Proof. exact ProxyProofs.client_reply_never_shuts_down. Qed.
Print Assumptions C12_client_reply_never_shuts_down.

Example C12_scripted_auth_error_is_handed_on :
  let evs := [Proxy.EConnect 0 true; Proxy.EConnect 1 true;
              Proxy.EClientData 0 (enc_request [bs "get"; bs "a"]) []; Proxy.ETasks [];
              Proxy.EServerData 0 (bs "-NOAUTH Authentication required." ++ crlf);
              Proxy.EClientData 1 (enc_request [bs "get"; bs "a"]) []; Proxy.ETasks [];
              Proxy.EServerData 0 (enc_bulk (bs "A"))] in
  C01.w_got (Proxy.run (Proxy.init_state C01.w_cfg C09.w2_pools C09.w2_slots) evs) 0 = bs "-NOAUTH Authentication required." ++ crlf /\
  C01.w_got (Proxy.run (Proxy.init_state C01.w_cfg C09.w2_pools C09.w2_slots) evs) 1 = enc_bulk (bs "A").
Proof. cbv zeta. split; vm_compute; reflexivity. Qed.

From RcProxy Require Model.ClientCodecFast Proofs.ClientCodecFastProofs.
(* the cdecode correspondence run of this check evaluates `decode_fast` (Model/ClientCodecFast.v,
   linear-time readers); it is the decoder model `decode` on every input *)
Theorem C12_evaluated_decoder_is_the_model : forall limit b,
  RcProxy.Model.ClientCodecFast.decode_fast limit b = RcProxy.Model.ClientCodec.decode limit b.
Proof. exact RcProxy.Proofs.ClientCodecFastProofs.decode_fast_eq. Qed.
Print Assumptions C12_evaluated_decoder_is_the_model.
