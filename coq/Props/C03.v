(* C03 — A client never receives a reply produced for a different request.
   Only theorem statements; proofs in Proofs/ProxyServerProofs.v, Proofs/ProxyWireProofs.v, Proofs/ProxyProofs.v. *)
From RcProxy Require Import Base.Bytes Base.Dec Gen.Generated Spec.RespGrammar
  Model.RespBuf Model.ClientCodec Model.ServerCodec Model.Route Model.Proxy
  Proofs.ProxyProofs Proofs.ProxyServerProofs Proofs.ProxyWireProofs Props.C01.
Open Scope N_scope.

(* (1) Correlation on every backend connection, for EVERY history (any clients, pipelines, closes
   mid-flight, unroutable keys, timeouts, redirects, reconnects): the node has received the
   handshake and then exactly the recorded requests, in order; the fragments awaiting a reply are
   exactly the recorded ones not yet answered, in that order - so the i-th reply consumed on the
   connection is given to the fragment whose request was the i-th on the wire; and every recorded
   request IS the request of its fragment, a fragment of a request that exists. *)
Theorem C03_positional_correlation : forall cfg pools slots evs st s sv,
  run (init_state cfg pools slots) evs = ROk st -> lookup s (servers st) = Some sv ->
  ps_got sv = handshake_of st sv ++ concat (map snd (ps_written sv)) /\
  (ps_open sv = true -> ps_inq sv = map fst (skipn (ps_taken sv) (ps_written sv))) /\
  (ps_taken sv <= length (ps_written sv))%nat /\
  Forall (fun e => match fst e with
                   | FProbe a => snd e = if a then ReqAsking else ReqClusterNodes
                   | FReq mid slot => exists m, lookup mid (msgs st) = Some m /\ snd e = frag_req st (FReq mid slot)
                   end) (ps_written sv).
Proof. exact wire_identity. Qed.
Print Assumptions C03_positional_correlation.

(* (2) A reply changes only the request of the fragment it is matched with, and writes only to the
   client that owns that request: every other request and every other client connection is
   untouched by the step. *)
Theorem C03_reply_touches_only_its_request : forall st s sv mid slot inq' ty rsp st' m,
  lookup s (servers st) = Some sv -> ps_inq sv = FReq mid slot :: inq' ->
  lookup mid (msgs st) = Some m ->
  on_reply st s ty rsp = ROk st' ->
  (forall x, x <> mid -> lookup x (msgs st') = lookup x (msgs st)) /\
  (forall x, x <> pm_client m -> lookup x (clients st') = lookup x (clients st)).
Proof. exact reply_frame. Qed.
Print Assumptions C03_reply_touches_only_its_request.

(* (3) What a client receives is the replies of ITS requests, by position (C01's theorem): each
   queued request is owned by the client in whose queue it sits. *)
Theorem C03_queue_ownership : forall cfg pools slots evs st cid cl mid,
  run (init_state cfg pools slots) evs = ROk st -> lookup cid (clients st) = Some cl -> pc_open cl = true ->
  In mid (pc_queue cl) -> exists m, lookup mid (msgs st) = Some m /\ pm_client m = cid.
Proof.
  intros cfg pools slots evs st cid cl mid Hrun Hl Ho Hin.
  pose proof (run_inv evs _ _ (init_inv cfg pools slots) Hrun) as [H1 _].
  destruct (H1 cid cl Hl) as [_ _ C _ _]. destruct (C Ho) as (_ & _ & D). apply D, Hin.
Qed.
Print Assumptions C03_queue_ownership.

(* the invariants are inductive over single events *)
Theorem C03_step_invariants : forall st e st', SInv st -> WInv st -> step st e = ROk st' -> SInv st' /\ WInv st'.
Proof. intros st e st' A B E. split; [eapply step_sinv | eapply step_winv]; eassumption. Qed.
Print Assumptions C03_step_invariants.

(* non-vacuity, and the witness of a repaired defect: "MGET a b" with slot of b unowned used to
   answer the error at once while the fragment for a was already queued; its late reply was then
   delivered for the NEXT request.  Two clients; c0's split request fails to route, c1's GET gets
   only its own reply. *)
Definition w3_pools := [ {| pp_addr := bs "n0:1"; pp_slave := false; pp_conns := []; pp_closed := false; pp_dialable := true |} ].
Definition w3_srv_got (r : result pst) (s : nat) : bytes :=
  match r with ROk st => match lookup s (servers st) with Some sv => ps_got sv | None => [] end | _ => bs "!" end.
Definition w3_slots := [ (0%Z, 8000%Z, bs "n0:1") ].      (* slots above 8000 are unowned *)
Example C03_witness :
  let evs := [EConnect 0 true; EConnect 1 true;
              EClientData 0 (enc_request [bs "mget"; bs "b"; bs "a"]) [];     (* slot(a)=15495 unowned, slot(b)=3300 *)
              EClientData 1 (enc_request [bs "get"; bs "b"]) []; ETasks [];
              EServerData 0 (enc_bulk (bs "B"))] in
  w_got (run (init_state w_cfg w3_pools w3_slots) evs) 0 = ErrUnKnownSlot /\
  w_got (run (init_state w_cfg w3_pools w3_slots) evs) 1 = enc_bulk (bs "B") /\
  w3_srv_got (run (init_state w_cfg w3_pools w3_slots) evs) 0 = enc_request [bs "get"; bs "b"].
Proof. cbv zeta. repeat split; vm_compute; reflexivity. Qed.
