(* C09 — Completed replies are delivered promptly, not withheld by later requests.
   Only theorem statements; proofs in Proofs/ProxyProofs.v. *)
From RcProxy Require Import Base.Bytes Base.Dec Gen.Generated Spec.RespGrammar
  Model.RespBuf Model.ClientCodec Model.ServerCodec Model.Route Model.Proxy Proofs.ProxyProofs Props.C01.
Open Scope N_scope.

(* For EVERY history of events and every open client connection: at the end of each event the head
   of the client's queue is NOT a completed request - a reply that has become deliverable (the
   request and every earlier one are complete) has been written in the very event that completed
   it, no matter how many younger requests the client keeps sending.  The wall-clock bound itself
   (epoll latency, scheduling) is runtime behaviour outside the model. *)
Theorem C09_no_completed_head : forall cfg pools slots evs st cid cl,
  run (init_state cfg pools slots) evs = ROk st -> lookup cid (clients st) = Some cl -> pc_open cl = true ->
  match pc_queue cl with m :: _ => msg_done st m = false | [] => True end.
Proof. exact no_completed_head. Qed.
Print Assumptions C09_no_completed_head.

(* the flush writes exactly the completed prefix and leaves a queue whose head is not completed *)
Theorem C09_flush_restores : forall st c cl, lookup c (clients st) = Some cl -> pc_open cl = true ->
  CInvG st (Some c) -> CInvG (flush_done st c) None.
Proof. exact flush_done_inv. Qed.
Print Assumptions C09_flush_restores.

(* witness of the repaired defect: two requests on two nodes; the first node answers while the second
   stalls: the first reply is delivered at once (it used to wait for the second) *)
Definition w2_pools := [ {| pp_addr := bs "n1:1"; pp_slave := false; pp_conns := []; pp_closed := false; pp_dialable := true |};
                         {| pp_addr := bs "n2:1"; pp_slave := false; pp_conns := []; pp_closed := false; pp_dialable := true |} ].
Definition w2_slots := [ (0%Z, 8000%Z, bs "n1:1"); (8001%Z, 16383%Z, bs "n2:1") ].

Example C09_witness :
  (* slot of "a" is 15495 (n2), slot of "b" is 3300 (n1); n2 was dialled first: it is connection 0 *)
  w_got (run (init_state w_cfg w2_pools w2_slots)
           [EConnect 0 true; EClientData 0 (enc_request [bs "get"; bs "a"] ++ enc_request [bs "get"; bs "b"]) []; ETasks [];
            EServerData 0 (enc_bulk (bs "A"))]) 0 = enc_bulk (bs "A").
Proof. vm_compute. reflexivity. Qed.
