(* C09 — Completed replies are delivered promptly, not withheld by later requests.
   Only theorem statements; proofs in Proofs/ProxyProofs.v. *)
From RcProxy Require Import Base.Bytes Base.Dec Gen.Generated Spec.RespGrammar
  Model.RespBuf Model.ClientCodec Model.ServerCodec Model.Route Model.Proxy Proofs.ProxyProofs Proofs.ProxyDrainProofs Props.C01.
Open Scope N_scope.

(* For EVERY history of events and every open client connection: at the end of each event the head
   of the client's queue is NOT a completed request - a reply that has become deliverable (the
   request and every earlier one are complete) has been written in the very event that completed
   it, no matter how many younger requests the client keeps sending.  The wall-clock bound itself
   (epoll latency, scheduling) is runtime behaviour outside the model. *)
Theorem C09_no_completed_head : forall cfg pools slots evs st cid cl,
  run (init_state cfg pools slots) evs = ROk st -> lookup cid (clients st) = Some cl -> pc_open cl = true ->
  match pc_queue cl with m :: _ => msg_done st m = false | [] => True end.
Proof. exact no_completed_head. Qed.
Print Assumptions C09_no_completed_head.

(* the flush writes exactly the completed prefix and leaves a queue whose head is not completed *)
Theorem C09_flush_restores : forall st c cl, lookup c (clients st) = Some cl -> pc_open cl = true ->
  CInvG st (Some c) -> CInvG (flush_done st c) None.
Proof. exact flush_done_inv. Qed.
Print Assumptions C09_flush_restores.

(* the backend side of promptness: when the event that delivers bytes to a backend connection ends,
   nothing decodable is left in that connection's buffer - every reply that has arrived completely
   has been taken (and, by the theorem above, delivered if it completed the head request); only an
   incomplete reply, or an incomplete handshake answer, waits for more bytes *)
Theorem C09_backend_replies_consumed : forall st s b st', step st (EServerData s b) = ROk st' ->
  forall sv, lookup s (servers st') = Some sv -> ps_open sv = true ->
    sdecode (ps_left sv) = SWait \/ (ps_initializing sv = true /\ init_decode (ps_step sv) (ps_left sv) = IWait).
Proof. exact server_data_drains. Qed.
Print Assumptions C09_backend_replies_consumed.

(* the decoder consumes at least one byte per reply, so the read loop's fuel (one more than the bytes
   at hand) always suffices *)
Theorem C09_reply_decoder_consumes : forall b ty n, sdecode b = SReply ty n -> (1 <= n <= length b)%nat.
Proof. exact sdecode_consumes. Qed.
Print Assumptions C09_reply_decoder_consumes.

(* witness of the repaired defect: two requests on two nodes; the first node answers while the second
   stalls: the first reply is delivered at once (it used to wait for the second) *)
Definition w2_pools := [ {| pp_addr := bs "n1:1"; pp_slave := false; pp_conns := []; pp_closed := false; pp_dialable := true |};
                         {| pp_addr := bs "n2:1"; pp_slave := false; pp_conns := []; pp_closed := false; pp_dialable := true |} ].
Definition w2_slots := [ (0%Z, 8000%Z, bs "n1:1"); (8001%Z, 16383%Z, bs "n2:1") ].

Example C09_witness :
  (* slot of "a" is 15495 (n2), slot of "b" is 3300 (n1); n2 was dialled first: it is connection 0 *)
  w_got (run (init_state w_cfg w2_pools w2_slots)
           [EConnect 0 true; EClientData 0 (enc_request [bs "get"; bs "a"] ++ enc_request [bs "get"; bs "b"]) []; ETasks [];
            EServerData 0 (enc_bulk (bs "A"))]) 0 = enc_bulk (bs "A").
Proof. vm_compute. reflexivity. Qed.

(* a redirect and the reply of the next request arrive in ONE read: the reply behind the redirect is
   consumed and delivered in the same event (b before a, whose fragment travels to the other node) *)
Example C09_reply_behind_a_redirect :
  let evs := [EConnect 0 true; EConnect 1 true;
              EClientData 0 (enc_request [bs "get"; bs "a"]) []; EClientData 1 (enc_request [bs "get"; bs "{a}x"]) []; ETasks [];
              EServerData 0 (bs "-MOVED 15495 n1:1" ++ crlf ++ enc_bulk (bs "X"))] in
  w_got (run (init_state w_cfg w2_pools w2_slots) evs) 1 = enc_bulk (bs "X") /\
  w_got (run (init_state w_cfg w2_pools w2_slots) evs) 0 = [].
Proof. cbv zeta. split; vm_compute; reflexivity. Qed.
