(* C07 — Split multi-key replies are reassembled correctly in any arrival order.
   Only theorem statements; proofs in Proofs/MergeProofs.v. *)
From RcProxy Require Import Base.Bytes Base.Dec Gen.Generated Spec.RespGrammar Spec.RespValue
  Model.RespBuf Model.Commands Model.Crc16 Model.ClientCodec Model.ServerCodec
  Proofs.ClientCodecProofs Proofs.SplitProofs Proofs.MergeProofs.
From Coq Require Import Permutation.
Open Scope N_scope.

(* MGET.  For ANY slot function, key list (duplicates, empty keys, any bytes), store rho (absent
   keys, empty values, values containing CR/LF) and ANY arrival order of the per-slot replies:
   after the last reply the request is complete and its reply is one element per requested key,
   in request order, each rendered exactly as the owning node returned it. *)
Theorem C07_mget : forall sigma limit ks rho (order : list (N * list bytes)),
  small_store rho -> (Z.of_nat (length ks) < 10 ^ 18)%Z ->
  (forall s gk, In (s, gk) (group_by sigma (fun k => k) ks) -> (Z.of_nat (length (mget_reply rho gk)) <= limit)%Z) ->
  Permutation order (group_by sigma (fun k => k) ks) -> group_by sigma (fun k => k) ks <> [] ->
  exists P', run_replies sigma limit (mget_of sigma ks rho [])
               (map (fun g => (fst g, RspMultibulk, mget_reply rho (snd g))) order)
             = Fine (mget_fin sigma limit ks rho P').
Proof. intros. eapply mget_any_order; eassumption. Qed.
Print Assumptions C07_mget.

(* what "mget_fin" is: done, and the assembled array (or the size error when it exceeds the limit) *)
Theorem C07_mget_result : forall sigma limit ks rho P,
  sm_done (mget_fin sigma limit ks rho P) = true /\
  sm_rsp (mget_fin sigma limit ks rho P) =
    (if (limit <? Z.of_nat (length (final_mget ks rho)))%Z then ErrMsgRspTooLarge
     else [42] ++ itoa_nat (length ks) ++ crlf ++ concat (map (render rho) ks)).
Proof.
  intros. unfold mget_fin. destruct (limit <? Z.of_nat (length (final_mget ks rho)))%Z; split; reflexivity.
Qed.
Print Assumptions C07_mget_result.

(* nothing is delivered before the last fragment has answered *)
Theorem C07_mget_not_early : forall sigma limit ks rho pre post,
  small_store rho -> (Z.of_nat (length ks) < 10 ^ 18)%Z ->
  (forall s gk, In (s, gk) (group_by sigma (fun k => k) ks) -> (Z.of_nat (length (mget_reply rho gk)) <= limit)%Z) ->
  Permutation (pre ++ post) (group_by sigma (fun k => k) ks) -> post <> [] ->
  exists P, run_replies sigma limit (mget_of sigma ks rho [])
              (map (fun g => (fst g, RspMultibulk, mget_reply rho (snd g))) pre)
            = Fine (mget_of sigma ks rho P).     (* sm_done = false by definition of mget_of *)
Proof. intros. eapply mget_not_done_early; eassumption. Qed.
Print Assumptions C07_mget_not_early.

(* DEL: the reply is the sum of the per-node counts, in any arrival order *)
Theorem C07_del : forall sigma limit ks cnt (order : list (N * list bytes)),
  (Z.of_nat (length ks) < 10 ^ 18)%Z ->
  (forall s gk, In (s, gk) (group_by sigma (fun k => k) ks) -> cnt s <= N.of_nat (length gk)) ->
  (forall s, (Z.of_nat (length (del_reply (cnt s))) <= limit)%Z) ->
  Permutation order (group_by sigma (fun k => k) ks) -> group_by sigma (fun k => k) ks <> [] ->
  exists m, run_replies sigma limit (del_of sigma ks cnt [])
              (map (fun g => (fst g, RspInteger, del_reply (cnt (fst g)))) order) = Fine m
            /\ sm_done m = true
            /\ sm_rsp m = [58] ++ itoa (sumN (map cnt (map fst (group_by sigma (fun k => k) ks)))) ++ crlf.
Proof.
  intros sigma limit ks cnt order Hks Hcnt Hlim Hperm Hne.
  destruct (del_any_order sigma limit ks cnt Hks Hcnt Hlim order Hperm Hne) as (P' & Hrun & Hsum).
  exists (del_fin sigma ks cnt P'). split; [exact Hrun|]. split; [reflexivity|].
  unfold del_fin, del_state, del_reply. cbn [sm_rsp]. rewrite Hsum. reflexivity.
Qed.
Print Assumptions C07_del.

(* MSET: OK if and only if every node answered OK, in any arrival order *)
Theorem C07_mset : forall sigma limit ks rty rep (order : list (N * list bytes)),
  (forall g, (Z.of_nat (length (rep g)) <= limit)%Z) ->
  Permutation order (group_by sigma (fun k => k) ks) -> group_by sigma (fun k => k) ks <> [] ->
  exists m, run_replies sigma limit (mset_of sigma ks rty []) (map (fun g => (fst g, rty g, rep g)) order) = Fine m
            /\ sm_done m = true
            /\ sm_rsp m = (if forallb (fun g => N.eqb (rty g) RspOk) (group_by sigma (fun k => k) ks)
                           then StatusOK else ErrUnKnown).
Proof.
  intros sigma limit ks rty rep order Hlim Hperm Hne.
  destruct (mset_any_order sigma limit ks rty rep Hlim order Hperm Hne) as (P' & Hrun).
  exists (mset_fin sigma ks rty P'). split; [exact Hrun|]. split; reflexivity.
Qed.
Print Assumptions C07_mset.

(* the result does not depend on the order in which the nodes answer *)
Corollary C07_order_independent : forall sigma limit ks rho order order',
  small_store rho -> (Z.of_nat (length ks) < 10 ^ 18)%Z ->
  (forall s gk, In (s, gk) (group_by sigma (fun k => k) ks) -> (Z.of_nat (length (mget_reply rho gk)) <= limit)%Z) ->
  Permutation order (group_by sigma (fun k => k) ks) -> Permutation order' order ->
  group_by sigma (fun k => k) ks <> [] ->
  exists m m',
    run_replies sigma limit (mget_of sigma ks rho []) (map (fun g => (fst g, RspMultibulk, mget_reply rho (snd g))) order) = Fine m /\
    run_replies sigma limit (mget_of sigma ks rho []) (map (fun g => (fst g, RspMultibulk, mget_reply rho (snd g))) order') = Fine m' /\
    sm_rsp m = sm_rsp m' /\ sm_done m = true /\ sm_done m' = true.
Proof.
  intros sigma limit ks rho order order' Hr Hk Hl Hp Hp' Hne.
  destruct (mget_any_order sigma limit ks rho Hr Hk Hl order Hp Hne) as (P1 & H1).
  destruct (mget_any_order sigma limit ks rho Hr Hk Hl order' (Permutation_trans Hp' Hp) Hne) as (P2 & H2).
  exists (mget_fin sigma limit ks rho P1), (mget_fin sigma limit ks rho P2).
  split; [exact H1|]. split; [exact H2|].
  destruct (C07_mget_result sigma limit ks rho P1) as [D1 R1], (C07_mget_result sigma limit ks rho P2) as [D2 R2].
  rewrite R1, R2. auto.
Qed.
Print Assumptions C07_order_independent.

(* the initial state used above is the one a decoded MGET becomes *)
Theorem C07_initial_state : forall sigma ks rho body,
  smsg_of {| cm_type := ReqMget; cm_keys := ks; cm_body := body |} (group_by sigma (fun k => k) ks)
  = mget_of sigma ks rho [].
Proof. intros. unfold smsg_of, mget_of, mget_state, FS. cbn [cm_type cm_keys length]. reflexivity. Qed.
Print Assumptions C07_initial_state.

(* non-vacuity: three keys on two slots, one absent, one with CR/LF in its value; both orders *)
Example C07_witness :
  let ks := [bs "{t}a"; bs "x"; bs "{t}b"] in
  let rho := fun k => if beqb k (bs "x") then None else Some (k ++ crlf) in
  let gs := group_by Hash (fun k => k) ks in
  length gs = 2%nat /\
  (match run_replies Hash 1000 (mget_of Hash ks rho []) (map (fun g => (fst g, RspMultibulk, mget_reply rho (snd g))) gs) with
   | Fine m => sm_rsp m | _ => [] end)
  = (match run_replies Hash 1000 (mget_of Hash ks rho []) (map (fun g => (fst g, RspMultibulk, mget_reply rho (snd g))) (rev gs)) with
   | Fine m => sm_rsp m | _ => [] end)
  /\ (match run_replies Hash 1000 (mget_of Hash ks rho []) (map (fun g => (fst g, RspMultibulk, mget_reply rho (snd g))) gs) with
   | Fine m => sm_rsp m | _ => [] end)
     = bs "*3" ++ crlf ++ enc_bulk (bs "{t}a" ++ crlf) ++ bs "$-1" ++ crlf ++ enc_bulk (bs "{t}b" ++ crlf).
Proof. cbv zeta. split; [|split]; vm_compute; reflexivity. Qed.
