(* C02 — Single-key requests and their replies pass through byte-exact (codec side).
   Only theorem statements; proofs in Proofs/ClassifyProofs.v, Proofs/ServerCodecProofs.v,
   Proofs/MergeProofs.v. *)
From RcProxy Require Import Base.Bytes Base.Dec Gen.Generated Spec.RespGrammar Spec.RespValue
  Model.RespBuf Model.Commands Model.Crc16 Model.ClientCodec Model.ServerCodec
  Proofs.ClientCodecProofs Proofs.ClassifyProofs Proofs.ServerCodecProofs Proofs.MergeProofs.
Open Scope N_scope.

(* REQUEST: for every command that is not MGET/DEL/MSET, any argument bytes (binary, empty,
   CR/LF-bearing, any size below 10^18) and whatever follows in the pipeline, the single fragment
   built for the backend is the client's own request with only the letter case of the command
   name changed, and it sits on the slot of the command's key *)
Theorem C02_request : forall limit name args rest,
  wf_req name args -> single_like (transform2type name (Z.of_nat (length args))) = true ->
  exists m key,
    decode limit (enc_request (name :: args) ++ rest) = DOk m (length (enc_request (name :: args))) /\
    cm_body m = [(Hash key, {| cf_key := key; cf_req := enc_request (to_lower name :: args) |})] /\
    (key = nth 0 args [] \/ key = nth 2 args []).
Proof.
  intros limit name args rest Hwf Hs.
  destruct (build_msg_single limit name args Hs) as (key & Hb & Hk).
  exists (build_msg limit name args), key. split; [apply decode_complete, Hwf | auto].
Qed.
Print Assumptions C02_request.

(* the encoding differs from the client's only inside the command name *)
Theorem C02_request_same_length : forall name args,
  length (enc_request (to_lower name :: args)) = length (enc_request (name :: args)).
Proof.
  intros. rewrite !enc_request_shape, !enc_bulk_shape, !app_length, length_to_lower. reflexivity.
Qed.
Print Assumptions C02_request_same_length.

(* REPLY framing: every well-formed RESP2 value (status, error, integer, bulk, null, arbitrarily
   nested arrays, null array) is recognised as exactly one reply that consumes exactly its own
   bytes, whatever follows it in the stream *)
Theorem C02_reply_framed : forall v rest, wf_value v ->
  sdecode (enc_value v ++ rest) = SReply (type_of v) (length (enc_value v)).
Proof. intros. apply sdecode_enc. assumption. Qed.
Print Assumptions C02_reply_framed.

(* REPLY content: the bytes handed to the client are the backend's bytes, unchanged, whenever
   they fit the size limit *)
Theorem C02_reply_verbatim : forall sigma limit m s v f,
  sm_type m <> ReqMget -> sm_type m <> ReqDel -> sm_type m <> ReqMset ->
  get_frag (sm_frags m) s = Some f -> sf_done f = false ->
  (Z.of_nat (length (enc_value v)) <= limit)%Z ->
  exists m', merge_step sigma limit m s (type_of v) (enc_value v) = Fine (Some m')
             /\ sm_done m' = true /\ sm_rsp m' = enc_value v.
Proof.
  intros sigma limit m s v f H1 H2 H3 Hg Hd Hl.
  destruct (default_reply sigma limit m s (type_of v) (enc_value v) f H1 H2 H3 Hg Hd) as (m' & E & D & R).
  exists m'. split; [exact E|]. split; [exact D|]. rewrite R.
  destruct (Z.ltb_spec limit (Z.of_nat (length (enc_value v)))); [lia | reflexivity].
Qed.
Print Assumptions C02_reply_verbatim.

(* HANDSHAKE: with a password and/or on a replica connection the first one or two "+OK" replies
   are swallowed exactly - also when they arrive split across reads - so that the first user
   reply starts at the right byte *)
Theorem C02_handshake_swallowed : forall step rest, (step = 1 \/ step = 2)%Z ->
  init_decode step (concat (repeat ok_reply (Z.to_nat step)) ++ rest)
  = IDone (length (concat (repeat ok_reply (Z.to_nat step)))).
Proof. intros. apply init_decode_done. assumption. Qed.
Print Assumptions C02_handshake_swallowed.

Theorem C02_handshake_split : forall step p q, (step = 1 \/ step = 2)%Z ->
  concat (repeat ok_reply (Z.to_nat step)) = p ++ q -> p <> [] -> q <> [] -> init_decode step p = IWait.
Proof. exact init_decode_prefix_waits. Qed.
Print Assumptions C02_handshake_split.

(* non-vacuity: a nested value with binary bulk, null, status and error *)
Example C02_witness :
  let v := RArray [RBulk (bs "a" ++ crlf ++ [0; 255]); RNull; RArray [RInt (bs "-3"); RStatus (bs "OK")]; RError (bs "ERR x"); RNullArray] in
  wf_value v /\ sdecode (enc_value v ++ bs "+PONG") = SReply RspMultibulk (length (enc_value v)).
Proof.
  cbv zeta. split; [|vm_compute; reflexivity].
  cbn [wf_value]. unfold line_ok. repeat split; try (vm_compute; reflexivity);
    intro H; repeat (destruct H as [H|H]; [discriminate H|]); exact H.
Qed.

From RcProxy Require Model.ClientCodecFast Proofs.ClientCodecFastProofs.
(* the cdecode correspondence run of this check evaluates `decode_fast` (Model/ClientCodecFast.v,
   linear-time readers); it is the decoder model `decode` on every input *)
Theorem C02_evaluated_decoder_is_the_model : forall limit b,
  RcProxy.Model.ClientCodecFast.decode_fast limit b = RcProxy.Model.ClientCodec.decode limit b.
Proof. exact RcProxy.Proofs.ClientCodecFastProofs.decode_fast_eq. Qed.
Print Assumptions C02_evaluated_decoder_is_the_model.
