(* C06 — Multi-key requests are split into one exact per-slot fragment each.
   Only theorem statements; proofs in Proofs/SplitProofs.v, Proofs/ClassifyProofs.v. *)
From RcProxy Require Import Base.Bytes Base.Dec Gen.Generated Spec.RespGrammar Spec.SplitSpec
  Model.RespBuf Model.Commands Model.Crc16 Model.ClientCodec
  Proofs.ClientCodecProofs Proofs.SplitProofs Proofs.ClassifyProofs.
From Coq Require Import Permutation ZifyNat ZifyN ZifyBool.
Open Scope N_scope.

(* the splitter is correct for ANY slot function (so C06 does not depend on C05) and ANY key list:
   one fragment per distinct slot, each the canonical encoding of the command on exactly the keys
   of that slot, in original order *)
Theorem C06_split_generic_keys : forall sigma name keys, wf_split1 sigma name keys (frags1 sigma name keys).
Proof. exact split1_correct. Qed.
Print Assumptions C06_split_generic_keys.

Theorem C06_split_generic_pairs : forall sigma kvs, wf_split2 sigma kvs (frags2 sigma kvs).
Proof. exact split2_correct. Qed.
Print Assumptions C06_split_generic_pairs.

(* taken together the groups hold every key occurrence exactly once and nothing else *)
Theorem C06_partition : forall sigma keys,
  Permutation (concat (map snd (group_by sigma (fun k : bytes => k) keys))) keys.
Proof. exact split1_partition. Qed.
Print Assumptions C06_partition.

(* end to end through the decoder: a client stream carrying MGET / DEL / MSET (any letter case,
   any keys and values, anything following it in the pipeline) is decoded into exactly these
   fragments, with the proxy's real slot function *)
Theorem C06_mget : forall limit name keys rest,
  wf_req name keys -> transform2type name (Z.of_nat (length keys)) = ReqMget ->
  exists m, decode limit (enc_request (name :: keys) ++ rest) = DOk m (length (enc_request (name :: keys)))
    /\ cm_keys m = keys /\ wf_split1 Hash (bs "mget") keys (body_reqs m).
Proof.
  intros limit name keys rest Hwf Ht. exists (build_msg limit name keys).
  destruct (build_msg_mget limit name keys Ht) as [Hk Hb].
  split; [apply decode_complete, Hwf|]. split; [exact Hk|]. rewrite Hb. apply split1_correct.
Qed.
Print Assumptions C06_mget.

Theorem C06_del : forall limit name keys rest,
  wf_req name keys -> transform2type name (Z.of_nat (length keys)) = ReqDel ->
  exists m, decode limit (enc_request (name :: keys) ++ rest) = DOk m (length (enc_request (name :: keys)))
    /\ cm_keys m = keys /\ wf_split1 Hash (bs "del") keys (body_reqs m).
Proof.
  intros limit name keys rest Hwf Ht. exists (build_msg limit name keys).
  destruct (build_msg_del limit name keys Ht) as [Hk Hb].
  split; [apply decode_complete, Hwf|]. split; [exact Hk|]. rewrite Hb. apply split1_correct.
Qed.
Print Assumptions C06_del.

Theorem C06_mset : forall limit name args rest,
  wf_req name args -> transform2type name (Z.of_nat (length args)) = ReqMset ->
  exists m, decode limit (enc_request (name :: args) ++ rest) = DOk m (length (enc_request (name :: args)))
    /\ flat (pairs args) = args                     (* the arguments ARE these key/value pairs *)
    /\ cm_keys m = map fst (pairs args)
    /\ wf_split2 Hash (pairs args) (body_reqs m).
Proof.
  intros limit name args rest Hwf Ht. exists (build_msg limit name args).
  destruct (build_msg_mset limit name args Ht) as [Hk Hb].
  split; [apply decode_complete, Hwf|]. split.
  - apply pairs_flat. destruct (mset_even name (Z.of_nat (length args)) (Nat2Z.is_nonneg _) Ht) as [_ He].
    rewrite Z.even_spec in He. destruct He as [k Hk2]. apply Nat.even_spec. exists (Z.to_nat k).
    assert (0 <= k)%Z by lia. apply Nat2Z.inj. rewrite Hk2, Nat2Z.inj_mul, Z2Nat.id by lia. reflexivity.
  - split; [exact Hk|]. rewrite Hb. apply split2_correct.
Qed.
Print Assumptions C06_mset.

(* non-vacuity: a concrete MGET with a slot collision ({t}a and {t}b share a slot), a duplicate
   and an empty key meets the premises *)
Example C06_witness :
  let keys := [bs "{t}a"; bs "x"; bs "{t}b"; bs "x"; []] in
  wf_req (bs "MgEt") keys /\ transform2type (bs "MgEt") (Z.of_nat (length keys)) = ReqMget
  /\ length (frags1 Hash (bs "mget") keys) = 3%nat.
Proof.
  cbv zeta. split; [|split; vm_compute; reflexivity].
  unfold wf_req, small. rewrite DecProofs.pow10_18 || idtac.
  split; [vm_compute; reflexivity|]. split; [repeat constructor; vm_compute; reflexivity | vm_compute; reflexivity].
Qed.

From RcProxy Require Model.ClientCodecFast Proofs.ClientCodecFastProofs.
(* the correspondence run evaluates `decode_fast` (Model/ClientCodecFast.v: linear-time readers, so that
   requests with more keys than slots are affordable on every run); it is `decode` on every input *)
Theorem C06_evaluated_decoder_is_the_model : forall limit b,
  RcProxy.Model.ClientCodecFast.decode_fast limit b = decode limit b.
Proof. exact RcProxy.Proofs.ClientCodecFastProofs.decode_fast_eq. Qed.
Print Assumptions C06_evaluated_decoder_is_the_model.
