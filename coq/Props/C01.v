(* C01 — Replies arrive in request order, exactly one per request.
   Only theorem statements; proofs in Proofs/ProxyProofs.v. *)
From RcProxy Require Import Base.Bytes Base.Dec Gen.Generated Spec.RespGrammar
  Model.RespBuf Model.ClientCodec Model.ServerCodec Model.Route Model.Proxy Proofs.ProxyProofs.
Open Scope N_scope.

(* For EVERY history of events - any number of clients, any pipelines (forwarded single-key, split
   multi-key, locally answered, rejected, QUIT), any cut of the byte streams into reads, any order
   of backend replies, redirects, backend and client closes, timeout scans - and for every client
   connection: the bytes the client has received are exactly
        reply(request 0) ++ reply(request 1) ++ ... ++ reply(request k-1)
   for some k: the log pc_hist holds one entry per answered request, numbered 0..k-1 in order,
   and the socket content is the concatenation of its replies - nothing duplicated, dropped,
   reordered, and no stray bytes.  While the connection is open the queue holds exactly the
   requests k .. sent-1, in order. *)
Theorem C01_replies_in_order : forall cfg pools slots evs st cid cl,
  run (init_state cfg pools slots) evs = ROk st -> lookup cid (clients st) = Some cl ->
  map fst (pc_hist cl) = seq 0 (length (pc_hist cl)) /\
  pc_got cl = concat (map snd (pc_hist cl)) /\
  (pc_open cl = true -> pc_sent cl = (length (pc_hist cl) + length (pc_queue cl))%nat /\
                        map (seq_of st) (pc_queue cl) = seq (length (pc_hist cl)) (length (pc_queue cl))).
Proof. exact replies_in_order. Qed.
Print Assumptions C01_replies_in_order.

(* the invariant behind it is inductive over single events *)
Theorem C01_step_invariant : forall st e st', CInvG st None -> step st e = ROk st' -> CInvG st' None.
Proof. exact step_inv. Qed.
Print Assumptions C01_step_invariant.

(* non-vacuity, and the witnesses of two repaired defects: "GET k; PING" used to return +PONG before
   the GET's reply; "GET k; QUIT" used to lose the GET's reply.  One node owning every slot. *)
Definition w_cfg := {| cf_limit := 1000; cf_password := []; cf_timeout := false; cf_max_active := 1; cf_replica_reads := false; cf_reps := [] |}.
Definition w_pools := [ {| pp_addr := bs "n1:1"; pp_slave := false; pp_conns := []; pp_closed := false; pp_dialable := true |} ].
Definition w_slots := [ (0%Z, 16383%Z, bs "n1:1") ].
Definition w_get := enc_request [bs "get"; bs "k"].
Definition w_got (r : result pst) (c : nat) : bytes :=
  match r with ROk st => match lookup c (clients st) with Some cl => pc_got cl | None => [] end | _ => bs "!" end.

Example C01_witness :
  w_got (run (init_state w_cfg w_pools w_slots)
           [EConnect 0 true; EClientData 0 (w_get ++ enc_request [bs "PING"]) []; ETasks []]) 0 = []
  /\ w_got (run (init_state w_cfg w_pools w_slots)
           [EConnect 0 true; EClientData 0 (w_get ++ enc_request [bs "PING"]) []; ETasks [];
            EServerData 0 (enc_bulk (bs "v"))]) 0 = enc_bulk (bs "v") ++ StatusPONG
  /\ w_got (run (init_state w_cfg w_pools w_slots)
           [EConnect 0 true; EClientData 0 (w_get ++ enc_request [bs "quit"]) []; ETasks [];
            EServerData 0 (enc_bulk (bs "v"))]) 0 = enc_bulk (bs "v") ++ StatusOK.
Proof. repeat split; vm_compute; reflexivity. Qed.
