(* C08 — Request framing is independent of TCP segmentation.
   Only theorem statements; proofs in Proofs/ClientCodecProofs.v and Proofs/FeedProofs.v. *)
From RcProxy Require Import Base.Bytes Base.Dec Gen.Generated Spec.RespGrammar
  Model.RespBuf Model.Commands Model.Crc16 Model.ClientCodec Model.ClientFeed
  Proofs.ClientCodecProofs Proofs.FeedProofs.
Open Scope N_scope.

(* For EVERY byte stream, well-formed or not, and every way of cutting it into reads (empty
   chunks included): the requests extracted, their classification, the forwarded fragments and the
   final state (waiting with which leftover / closed) depend only on the concatenation. *)
Theorem C08_all_streams : forall limit chunks,
  feed_all limit chunks = extract_all limit (concat chunks).
Proof. exact feed_all_concat. Qed.
Print Assumptions C08_all_streams.

(* For every well-formed pipeline and every segmentation of it: exactly the encoded requests are
   recognised, in order, none lost, duplicated or altered (up to a QUIT, which closes the
   connection), and nothing is left over. *)
Theorem C08_full : forall limit rs chunks,
  Forall wf_pair rs -> concat chunks = concat (map enc_pair rs) ->
  feed_all limit chunks
  = (map (msg_of limit) (fst (upto_quit limit rs)),
     if snd (upto_quit limit rs) then FClosed else FWait []).
Proof.
  intros limit rs chunks Hwf Hc. rewrite feed_all_concat, Hc. apply extract_pipeline, Hwf.
Qed.
Print Assumptions C08_full.

(* A proper prefix of a valid request is never an error (and never a shorter request): the
   decoder just waits for the rest. *)
Theorem C08_prefix_waits : forall limit name args p q,
  wf_req name args -> enc_request (name :: args) = p ++ q -> q <> [] -> decode limit p = DWait.
Proof. exact prefix_waits. Qed.
Print Assumptions C08_prefix_waits.

(* the building blocks: a decision, once made, is not changed by bytes that arrive later *)
Theorem C08_ok_stable : forall limit b e m n, decode limit b = DOk m n -> decode limit (b ++ e) = DOk m n.
Proof. exact decode_ok_stable. Qed.
Print Assumptions C08_ok_stable.

Theorem C08_close_stable : forall limit b e, decode limit b = DClose -> decode limit (b ++ e) = DClose.
Proof. exact decode_close_stable. Qed.
Print Assumptions C08_close_stable.

(* non-vacuity: a two-request pipeline cut inside the first length header *)
Example C08_witness :
  let rs := [(bs "SET", [bs "k"; bs "v\r\n"]); (bs "get", [bs "k"])] in
  let s := concat (map enc_pair rs) in
  Forall wf_pair rs /\
  fst (feed_all 1000 [firstn 1 s; firstn 9 (skipn 1 s); skipn 10 s]) = map (msg_of 1000) rs.
Proof.
  cbv zeta. split.
  - repeat constructor; vm_compute; reflexivity.
  - vm_compute. reflexivity.
Qed.

From RcProxy Require Model.ClientCodecFast Proofs.ClientCodecFastProofs.
(* the cdecode correspondence run of this check evaluates `decode_fast` (Model/ClientCodecFast.v,
   linear-time readers); it is the decoder model `decode` on every input *)
Theorem C08_evaluated_decoder_is_the_model : forall limit b,
  RcProxy.Model.ClientCodecFast.decode_fast limit b = RcProxy.Model.ClientCodec.decode limit b.
Proof. exact RcProxy.Proofs.ClientCodecFastProofs.decode_fast_eq. Qed.
Print Assumptions C08_evaluated_decoder_is_the_model.
