(* C04 — Requests are routed to the replica set owning the key's slot, by role; handshake first.
   Only theorem statements; proofs in Proofs/RouteProofs.v. *)
From RcProxy Require Import Base.Bytes Base.Dec Gen.Generated Spec.RespGrammar Spec.RouteSpec Spec.CommandSpec
  Model.Route Proofs.CommandsProofs Proofs.RouteProofs
  Model.ClientCodec Model.Proxy Proofs.ProxyOrderProofs Proofs.ProxyRouteProofs.
Open Scope N_scope.

(* for every replica-set (master, replicas with any pool/ban state), every command type, either
   setting of replica reads and every outcome of the random choice: the chosen node is the set's
   master, or one of its replicas that has a pool and is considered live;
stated with rand.Intn's contract (0 <= k < n) *)
Theorem C04_member : forall disable ty master slaves rnd,
  (forall n, (0 < n)%nat -> (rnd n < n)%nat) ->
  (snd (route disable ty master slaves rnd) = false /\ fst (route disable ty master slaves rnd) = master) \/
  (snd (route disable ty master slaves rnd) = true /\
   exists r, In r slaves /\ r_addr r = fst (route disable ty master slaves rnd) /\ live r = true).
Proof.
  intros disable ty master slaves rnd Hr.
  pose proof (route_member disable ty master slaves rnd) as H.
  destruct (route disable ty master slaves rnd) as [addr is_slave] eqn:E. cbn [fst snd].
  destruct H as [H|[H|(Hs & _ & Hbad)]]; [left; exact H | right; exact H|].
  exfalso. destruct (live_slaves slaves) as [|a ls] eqn:El.
  - unfold route in E. rewrite El in E. destruct disable; [inversion E; congruence|].
    destruct (ReqWriteCmdStart <? ty); [inversion E; congruence|].
    destruct (_ || _ || _)%bool; inversion E; congruence.
  - specialize (Hr (length (a :: ls)) ltac:(simpl; lia)). lia.
Qed.
Print Assumptions C04_member.

(* writes, cursor scans and scripts go to the master; so does everything when replica reads are off *)
Theorem C04_master_when : forall disable ty master slaves rnd,
  disable = true \/ ReqWriteCmdStart < ty \/ ty = ReqHscan \/ ty = ReqSscan \/ ty = ReqZscan ->
  route disable ty master slaves rnd = (master, false).
Proof. exact route_master_when. Qed.
Print Assumptions C04_master_when.

(* DATA (re-proved on every run against the command table of commands.go): the only commands a
   replica can ever be asked to serve are read-only ones; every other command, and EVAL/EVALSHA,
   sit after the write marker; HSCAN/SSCAN/ZSCAN are the three named exceptions *)
Theorem C04_only_reads_reach_replicas :
  forall name t, assoc_b name CommandStr2Type = Some t -> t < ReqWriteCmdStart -> In name readonly_commands.
Proof. exact reads_before_marker_are_readonly. Qed.
Print Assumptions C04_only_reads_reach_replicas.

Theorem C04_writes_after_marker : forall name t,
  assoc_b name CommandStr2Type = Some t -> ~ In name readonly_commands -> ReqWriteCmdStart < t.
Proof. exact writes_after_marker. Qed.
Print Assumptions C04_writes_after_marker.

Theorem C04_scripts_and_scans :
  ReqWriteCmdStart < ReqEval /\ ReqWriteCmdStart < ReqEvalsha /\
  assoc_b (bs "eval") CommandStr2Type = Some ReqEval /\ assoc_b (bs "evalsha") CommandStr2Type = Some ReqEvalsha /\
  assoc_b (bs "hscan") CommandStr2Type = Some ReqHscan /\ assoc_b (bs "sscan") CommandStr2Type = Some ReqSscan /\
  assoc_b (bs "zscan") CommandStr2Type = Some ReqZscan.
Proof. exact scripts_and_scans_go_to_master. Qed.
Print Assumptions C04_scripts_and_scans.


(* ... and delivery, at the level of the event loop, for EVERY history (including histories in
   which the ticker applies new topologies while requests are in flight): a fragment written to (or
   queued for) a backend connection - unless a node redirected it there - is on a connection to the
   node the request's routing record names for the fragment's slot (routed); C04_routing_record:
   that record is the routing plan computed when the request arrived; C04_plan_by_role: a plan names,
   for a slot, the master of the set that owns the slot in the table in force or - only for a read
   that may go to a replica, only with replica reads enabled - one of that set's replicas that has
   a pool; C04_plan_is_the_slot_table: with replica reads off it is exactly the slot table; the connections a pool holds go to that pool's address (also after reconnects,
   rotation, eviction of dead connections and topology changes). *)
Theorem C04_delivered_to_the_owner : forall cfg pools slots evs st s sv mid slot,
  Forall (fun p => pp_conns p = []) pools ->
  run (init_state cfg pools slots) evs = ROk st -> lookup s (servers st) = Some sv ->
  In (FReq mid slot) (map fst (ps_written sv) ++ ps_outq sv) ->
  okey st (FReq mid slot) <> None ->
  routed st mid slot (ps_addr sv).
Proof. exact delivered_to_the_owner. Qed.
Print Assumptions C04_delivered_to_the_owner.

Theorem C04_routing_record : forall st c m st1 targets,
  (N.eqb (cm_type m) UNKNOWN || (Sentinel <=? cm_type m))%bool = false ->
  N.eqb (cm_type m) ReqTooLarge = false -> N.eqb (cm_type m) ReqWrongArgumentsNumber = false ->
  N.eqb (cm_type m) ReqPing = false -> N.eqb (cm_type m) ReqQuit = false -> N.eqb (cm_type m) ReqAuth = false ->
  resolve st (route_plan st (cm_type m) (by_slot (cm_body m))) = (st1, inl targets) ->
  exists pm, lookup (next_mid st1) (msgs (on_request st c m)) = Some pm /\
             pm_route pm = route_plan st (cm_type m) (by_slot (cm_body m)).
Proof. exact routing_record_is_the_slot_table. Qed.
Print Assumptions C04_routing_record.

Theorem C04_plan_by_role : forall st ty body slot a, In (slot, Some a) (route_plan st ty body) ->
  exists m, slot_master st slot = Some m /\
    (a = m \/
     (In a (replicas_of (cfg st) m) /\ has_pool st a = true /\ cf_replica_reads (cfg st) = true /\
      ty <= ReqWriteCmdStart /\ ty <> ReqHscan /\ ty <> ReqSscan /\ ty <> ReqZscan)).
Proof. exact plan_by_role. Qed.
Print Assumptions C04_plan_by_role.

Theorem C04_plan_is_the_slot_table : forall st ty body, cf_replica_reads (cfg st) = false ->
  (forall slot, slot_master st slot <> Some []) ->
  route_plan st ty body = map (fun sf => (fst sf, slot_master st (fst sf))) body.
Proof. exact plan_is_the_slot_table. Qed.
Print Assumptions C04_plan_is_the_slot_table.

Theorem C04_pools_hold_their_own_connections : forall cfg pools slots evs st p s sv,
  Forall (fun p => pp_conns p = []) pools ->
  run (init_state cfg pools slots) evs = ROk st -> In p (Proxy.pools st) -> In s (pp_conns p) ->
  lookup s (servers st) = Some sv -> ps_addr sv = pp_addr p.
Proof. exact pools_hold_their_own_connections. Qed.
Print Assumptions C04_pools_hold_their_own_connections.

(* HANDSHAKE: what a new backend connection is sent first is AUTH <password> iff a password is
   configured, then READONLY iff the connection is to a replica - as canonical requests *)
Theorem C04_handshake : forall password is_slave,
  fst (on_s_opened password is_slave)
  = (match password with [] => [] | _ => enc_request [bs "auth"; password] end)
    ++ (if is_slave then enc_request [bs "READONLY"] else [])
  /\ snd (on_s_opened password is_slave)
  = ((if match password with [] => false | _ => true end then 1 else 0) + (if is_slave then 1 else 0))%Z.
Proof.
  intros. split; [apply handshake_bytes; destruct password; [right|left]; congruence | apply handshake_steps].
Qed.
Print Assumptions C04_handshake.

Example C04_witness :
  route false ReqGet (bs "m:1") [ {| r_addr := bs "r1:1"; r_pool := true; r_ban := false; r_lift_before_now := false |} ] (fun _ => O)
  = (bs "r1:1", true) /\
  route false ReqSet (bs "m:1") [ {| r_addr := bs "r1:1"; r_pool := true; r_ban := false; r_lift_before_now := false |} ] (fun _ => O)
  = (bs "m:1", false).
Proof. split; vm_compute; reflexivity. Qed.

(* replica reads through the event loop: one master m:1 with the replica r:1.  A GET for which route
   is seen to choose the replica goes to a connection to the replica, opened with READONLY; a SET
   goes to the master whatever the oracle says (route cannot choose a replica for a write) *)
Definition wr_cfg := {| cf_limit := 1000; cf_password := []; cf_timeout := false; cf_max_active := 1;
                        cf_replica_reads := true; cf_reps := [(bs "m:1", [bs "r:1"])] |}.
Definition wr_pools := [ {| pp_addr := bs "m:1"; pp_slave := false; pp_conns := []; pp_closed := false; pp_dialable := true |};
                         {| pp_addr := bs "r:1"; pp_slave := true; pp_conns := []; pp_closed := false; pp_dialable := true |} ].
Definition wr_slots := [ (0%Z, 16383%Z, bs "m:1") ].
Definition wr_conns (r : result pst) : list (bytes * bytes) :=
  match r with ROk st => map (fun e => (ps_addr (snd e), ps_got (snd e))) (servers st) | _ => [] end.

Example C04_replica_witness :
  let get := enc_request [bs "get"; bs "a"] in
  let set := enc_request [bs "set"; bs "a"; bs "1"] in
  wr_conns (run (init_state wr_cfg wr_pools wr_slots)
              [EConnect 0 true; EChoices [(get, bs "r:1")]; EClientData 0 get []; ETasks []])
  = [(bs "r:1", enc_request [bs "READONLY"] ++ get)] /\
  wr_conns (run (init_state wr_cfg wr_pools wr_slots)
              [EConnect 0 true; EChoices [(set, bs "r:1")]; EClientData 0 set []; ETasks []])
  = [(bs "m:1", set)].
Proof. cbv zeta. split; vm_compute; reflexivity. Qed.
