(* C15 — Losing a backend never leaves a client waiting forever.
   Only theorem statements; proofs in Proofs/ProxyLivenessProofs.v. *)
From RcProxy Require Import Base.Bytes Base.Dec Gen.Generated Spec.RespGrammar
  Model.RespBuf Model.ClientCodec Model.ServerCodec Model.Route Model.Proxy
  Proofs.ProxyProofs Proofs.ProxyServerProofs Proofs.ProxyWireProofs Proofs.ProxyLivenessProofs Props.C01 Props.C09.
Open Scope N_scope.

(* (1) No orphans, for EVERY history (any fault points: before the request is written, after it is
   written, between the replies of a split request; any position in any pipeline): a fragment that
   still owes a reply is held by an OPEN backend connection - awaiting a reply or waiting to be
   written.  Hence one of three events resolves it: the reply, the loss of that connection (2), or
   the timeout scan (C16). *)
Theorem C15_no_orphan : forall cfg pools slots evs st mid slot,
  run (init_state cfg pools slots) evs = ROk st -> frag_done st mid slot = false ->
  exists s sv, lookup s (servers st) = Some sv /\ ps_open sv = true /\ In (FReq mid slot) (ps_inq sv ++ ps_outq sv).
Proof. exact no_orphan. Qed.
Print Assumptions C15_no_orphan.

(* (2) Losing a connection completes, in the same step, every request with a fragment on it
   (written or not yet written): afterwards no fragment of such a request owes a reply. *)
Theorem C15_close_completes : forall st s sv mid slot slot',
  lookup s (servers st) = Some sv -> ps_open sv = true -> In (FReq mid slot) (ps_inq sv ++ ps_outq sv) ->
  frag_done (close_server st s) mid slot = true /\
  (frag_done st mid slot = false -> frag_done (close_server st s) mid slot' = true).
Proof. exact close_completes. Qed.
Print Assumptions C15_close_completes.

(* (3) A redirect that names a node the proxy does not know, or cannot connect to, completes the
   request with an error instead of dropping it. *)
Theorem C15_redirect_unknown_node : forall st f mid ty addr,
  (exists m, lookup mid (msgs st) = Some m) ->
  find_pool (mark_moved st mid (frag_slot f)) addr = None ->
  msg_done (on_moved st f mid ty addr) mid = true /\ forall slot, frag_done (on_moved st f mid ty addr) mid slot = true.
Proof. exact redirect_unknown_node. Qed.
Print Assumptions C15_redirect_unknown_node.

Theorem C15_redirect_no_connection : forall st f mid ty addr p st1,
  (exists m, lookup mid (msgs st) = Some m) ->
  find_pool (mark_moved st mid (frag_slot f)) addr = Some p ->
  pool_get (mark_moved st mid (frag_slot f)) p = (st1, None) ->
  msg_done (on_moved st f mid ty addr) mid = true.
Proof. exact redirect_no_connection. Qed.
Print Assumptions C15_redirect_no_connection.

(* (4) Completed requests do not wait: at the end of every event no open client has a completed
   request at the head of its queue (C09's theorem), so the error reaches the client as soon as the
   requests before it are answered. *)
Theorem C15_completed_is_flushed : forall cfg pools slots evs st cid cl,
  run (init_state cfg pools slots) evs = ROk st -> lookup cid (clients st) = Some cl -> pc_open cl = true ->
  match pc_queue cl with m :: _ => msg_done st m = false | [] => True end.
Proof. exact no_completed_head. Qed.
Print Assumptions C15_completed_is_flushed.

(* (5) Later requests for the node are served over a live connection: what the pool hands out in
   any reachable state is open (dead connections are evicted and a new one is dialled). *)
Theorem C15_pool_returns_live_connection : forall cfg pools slots evs st p st' s,
  run (init_state cfg pools slots) evs = ROk st -> pool_get st p = (st', Some s) ->
  exists sv, lookup s (servers st') = Some sv /\ ps_open sv = true.
Proof. exact pool_get_open. Qed.
Print Assumptions C15_pool_returns_live_connection.

(* (6) A node that is removed from the topology, or changes role: the ticker schedules the closing
   of every connection of its pool and drops the pool (or restarts it without connections) in the same
   step; when the close task runs, (2) completes every request that had a fragment there.  Pools of
   nodes that stay as they were are not touched. *)
Theorem C15_topology_schedules_close : forall st nodes newslots p s,
  In p (pools st) -> In s (pp_conns p) ->
  node_role nodes (pp_addr p) <> Some (pp_slave p) ->
  In (TClose s) (tasks (apply_topology st nodes newslots)) /\
  (forall q, In q (topology_pool nodes p) -> pp_conns q = []).
Proof. exact topology_schedules_close. Qed.
Print Assumptions C15_topology_schedules_close.

Theorem C15_topology_keeps_unchanged_pools : forall st nodes newslots p,
  In p (pools st) -> node_role nodes (pp_addr p) = Some (pp_slave p) ->
  In p (pools (apply_topology st nodes newslots)) /\
  (forall s, In s (pp_conns p) -> ~ In s (topology_closing nodes p)).
Proof. exact topology_keeps_unchanged_pools. Qed.
Print Assumptions C15_topology_keeps_unchanged_pools.

Theorem C15_step_invariant : forall st e st', Both st -> step st e = ROk st' -> Both st'.
Proof. exact step_both. Qed.
Print Assumptions C15_step_invariant.

(* non-vacuity, and witnesses of repaired defects: a backend lost after the request was written
   used to leave the client waiting forever; now the client gets an error, and the next request is
   served over a new connection (connection 1) *)
Example C15_witness :
  let evs := [EConnect 0 true; EClientData 0 w_get []; ETasks []; EServerClose 0] in
  w_got (run (init_state w_cfg w_pools w_slots) evs) 0 = ErrUnKnownProxyPoolConnError /\
  w_got (run (init_state w_cfg w_pools w_slots)
           (evs ++ [EClientData 0 w_get []; ETasks []; EServerData 1 (enc_bulk (bs "v"))])) 0
    = ErrUnKnownProxyPoolConnError ++ enc_bulk (bs "v").
Proof. cbv zeta. split; vm_compute; reflexivity. Qed.

(* the node is removed from the topology while a request is in flight on its connection: the client
   gets the error when the scheduled close runs *)
Example C15_topology_witness :
  let evs := [EConnect 0 true; EClientData 0 w_get []; ETasks []; ETopology [] []; ETasks []] in
  w_got (run (init_state w_cfg w_pools w_slots) evs) 0 = ErrUnKnownProxyPoolConnError /\
  w_got (run (init_state w_cfg w_pools w_slots) (evs ++ [EClientData 0 w_get []])) 0
    = ErrUnKnownProxyPoolConnError ++ ErrUnKnownSlot.
Proof. cbv zeta. split; vm_compute; reflexivity. Qed.
