(* C05 — Key-to-slot mapping equals the Redis Cluster key-slot function.
   This file holds only the property theorems; proofs are in Proofs/Crc16Proofs.v. *)
From RcProxy Require Import Base.Bytes Gen.Generated Spec.KeySlot Model.Crc16 Proofs.Crc16Proofs.
Open Scope N_scope.

(* for EVERY byte string (each element a byte), the model of hashkit.Hash equals the
   specification's key slot *)
Theorem C05_full : forall k : bytes, wf_bytes k -> Hash k = key_slot k.
Proof. exact Hash_eq_key_slot. Qed.
Print Assumptions C05_full.

(* the 256-entry table in the source (regenerated from crc16.go on every run) is the
   CRC16/XMODEM table: entry i is the bit-serial CRC of the one-byte message i.  Finite domain
   (256 x 256 register values swept by vm_compute), bound stated. *)
Theorem C05_table : forall i, i < 256 -> nth (N.to_nat i) crc16tab 0 = crc16_bits [i].
Proof. exact crc16tab_is_xmodem. Qed.
Print Assumptions C05_table.

(* the loop keeps a 32-bit register but only its low 16 bits matter *)
Theorem C05_hash : forall k, wf_bytes k -> hash k = crc16_bits k mod 16384.
Proof. exact hash_eq_crc16. Qed.
Print Assumptions C05_hash.

Theorem C05_range : forall k, Hash k < 16384.
Proof. exact Hash_lt. Qed.
Print Assumptions C05_range.

(* premises are satisfiable and the statement is not vacuous: a key whose '}' precedes its
   '{' (the witness that refuted the pre-fix code: 4488 there) now maps to the tag's slot *)
Example C05_witness : wf_bytes (bs "}{abc}") /\ Hash (bs "}{abc}") = 7638 /\ key_slot (bs "abc") = 7638.
Proof. split; [repeat constructor | split; vm_compute; reflexivity]. Qed.
