(* C18 — IP whitelist lets in exactly the configured addresses, also after reload.
   Only theorem statements; proofs in Proofs/AuthIpProofs.v. *)
From RcProxy Require Import Base.Bytes Model.AuthIp Proofs.AuthIpProofs.
Open Scope N_scope.

(* after ANY history of successfully loaded file versions - additions, removals, enable, disable,
   duplicates, in any order - an address is allowed iff the whitelist is disabled in the LAST
   version or the address is listed in the LAST version *)
Theorem C18_reload : forall (vs : list (bool * list bytes)) v m ip,
  validate (fold_left parse_auth_ip (vs ++ [v]) m) ip = negb (fst v) || memb ip (snd v).
Proof. exact validate_after_history. Qed.
Print Assumptions C18_reload.

(* the member set itself equals the last list (removals take effect) *)
Theorem C18_members : forall m v x, In x (im_ips (parse_auth_ip m v)) <-> In x (snd v).
Proof. exact members_after_parse. Qed.
Print Assumptions C18_members.

(* admission is decided on the address part of "ip:port" *)
Theorem C18_admission : forall m ip port, ~ In 58 ip ->
  on_c_opened m (ip ++ 58 :: port) = validate m ip.
Proof. intros. unfold on_c_opened. rewrite before_colon_app by assumption. reflexivity. Qed.
Print Assumptions C18_admission.

(* a change of the file is picked up when the watcher reports Write, Create (a file renamed over
   the whitelist) or Rename for the whitelist's name; Chmod or Remove alone do not reload *)
Theorem C18_reload_events : forall op,
  should_reload true op = true <-> (N.testbit op 1 = true \/ N.testbit op 0 = true \/ N.testbit op 3 = true).
Proof. exact reload_on_write_create_rename. Qed.
Print Assumptions C18_reload_events.

(* the witnesses of the two repaired defects: {A,B} then {A} no longer lets in B; a Create event
   (rename-over) reloads *)
Example C18_witnesses :
  let m := fold_left parse_auth_ip [(true, [bs "10.0.0.1"; bs "10.0.0.2"]); (true, [bs "10.0.0.1"])] ipmap0 in
  validate m (bs "10.0.0.2") = false /\ validate m (bs "10.0.0.1") = true /\
  should_reload true 1 = true /\ should_reload true 16 = false /\ should_reload false 2 = false.
Proof. cbv zeta. repeat split; vm_compute; reflexivity. Qed.
