(* Bytes: byte strings are lists of N (each element < 256 where arithmetic needs it).
   Go's string and []byte are the same type here. *)
From Coq Require Export String Ascii.
From Coq Require Export List NArith ZArith Bool Lia.
Export ListNotations.
Open Scope N_scope.

Definition byte := N.
Definition bytes := list N.

(* readable literals in hand-written files:  bs "get"  *)
Fixpoint bs (s : string) : bytes :=
  match s with
  | EmptyString => []
  | String a r => N_of_ascii a :: bs r
  end.
Arguments bs s%string.

Definition CR : N := 13.
Definition LF : N := 10.
Definition crlf : bytes := [13; 10].

Definition wf_byte (b : N) : Prop := b < 256.
Definition wf_bytes (l : bytes) : Prop := Forall wf_byte l.

Fixpoint beqb (a b : bytes) : bool :=
  match a, b with
  | [], [] => true
  | x :: a', y :: b' => N.eqb x y && beqb a' b'
  | _, _ => false
  end.

Lemma beqb_eq a b : beqb a b = true <-> a = b.
Proof.
  revert b; induction a as [|x a IH]; intros [|y b]; simpl; split; intro H;
    try reflexivity; try discriminate.
  - apply andb_true_iff in H as [H1 H2]. apply N.eqb_eq in H1. apply IH in H2. congruence.
  - inversion H; subst. apply andb_true_iff; split; [apply N.eqb_refl | apply IH; reflexivity].
Qed.

Lemma beqb_refl a : beqb a a = true.
Proof. apply beqb_eq; reflexivity. Qed.

Lemma beqb_neq a b : beqb a b = false <-> a <> b.
Proof.
  split; intro H.
  - intro E. apply beqb_eq in E. congruence.
  - destruct (beqb a b) eqn:E; [apply beqb_eq in E; contradiction | reflexivity].
Qed.

(* strings.HasPrefix s p *)
Fixpoint has_prefix (s p : bytes) {struct p} : bool :=
  match p with
  | [] => true
  | y :: p' => match s with
               | [] => false
               | x :: s' => N.eqb x y && has_prefix s' p'
               end
  end.

Lemma has_prefix_spec s p : has_prefix s p = true <-> exists r, s = p ++ r.
Proof.
  revert s; induction p as [|y p IH]; intros s; simpl.
  - split; [intros _; exists s; reflexivity | reflexivity].
  - destruct s as [|x s].
    + split; [discriminate | intros [r H]; discriminate].
    + split.
      * intro H. apply andb_true_iff in H as [H1 H2]. apply N.eqb_eq in H1. apply IH in H2 as [r ->].
        exists r. congruence.
      * intros [r H]. inversion H; subst. rewrite N.eqb_refl. simpl. apply IH. exists r. reflexivity.
Qed.

(* bytes.IndexByte: position of first occurrence *)
Fixpoint index_byte (l : bytes) (c : N) : option nat :=
  match l with
  | [] => None
  | x :: r => if N.eqb x c then Some O else
      match index_byte r c with Some i => Some (S i) | None => None end
  end.

Lemma index_byte_some l c i :
  index_byte l c = Some i ->
  exists a b, l = a ++ c :: b /\ length a = i /\ ~ In c a.
Proof.
  revert i; induction l as [|x r IH]; simpl; intros i H; [discriminate|].
  destruct (N.eqb_spec x c) as [->|Hne].
  - inversion H; subst. exists [], r. simpl; auto.
  - destruct (index_byte r c) as [j|] eqn:E; [|discriminate]. inversion H; subst.
    destruct (IH j eq_refl) as (a & b & -> & Hl & Hn).
    exists (x :: a), b. simpl. repeat split; auto. intros [E'|E']; [congruence|auto].
Qed.

Lemma index_byte_none l c : index_byte l c = None <-> ~ In c l.
Proof.
  induction l as [|x r IH]; simpl.
  - split; auto.
  - destruct (N.eqb_spec x c) as [->|Hne].
    + split; [discriminate | intro H; exfalso; apply H; auto].
    + destruct (index_byte r c) eqn:E.
      * split; [discriminate|]. intro H. exfalso.
        assert (~ In c r) by (intro; apply H; auto). apply IH in H0. discriminate.
      * split; auto. intros _ [E'|E']; [congruence | apply IH in E'; auto].
Qed.

Lemma index_byte_app_notin a c b : ~ In c a -> index_byte (a ++ c :: b) c = Some (length a).
Proof.
  induction a as [|x a IH]; simpl; intro H.
  - rewrite N.eqb_refl. reflexivity.
  - destruct (N.eqb_spec x c) as [->|Hne]; [exfalso; apply H; auto|].
    rewrite IH; auto.
Qed.

(* ASCII helpers *)
Definition is_upper (b : N) : bool := (65 <=? b) && (b <=? 90).
Definition lower_byte (b : N) : N := if is_upper b then N.lxor b 32 else b.
Definition to_lower (l : bytes) : bytes := map lower_byte l.

Lemma lower_byte_idem b : lower_byte (lower_byte b) = lower_byte b.
Proof.
  destruct (is_upper b) eqn:E.
  - assert (H: forallb (fun b => N.eqb (lower_byte (lower_byte b)) (lower_byte b))
                 (map N.of_nat (seq 65 26)) = true) by (vm_compute; reflexivity).
    rewrite forallb_forall in H. apply N.eqb_eq. apply H.
    unfold is_upper in E. apply andb_true_iff in E as [E1 E2]. apply N.leb_le in E1, E2.
    apply in_map_iff. exists (N.to_nat b). split; [lia|]. apply in_seq. lia.
  - unfold lower_byte at 2. rewrite E. reflexivity.
Qed.

Lemma to_lower_idem l : to_lower (to_lower l) = to_lower l.
Proof.
  unfold to_lower. rewrite map_map. apply map_ext. intro b. apply lower_byte_idem.
Qed.

Lemma length_to_lower l : length (to_lower l) = length l.
Proof. apply map_length. Qed.

(* association lists keyed by bytes / N *)
Fixpoint assoc_b {A} (k : bytes) (l : list (bytes * A)) : option A :=
  match l with
  | [] => None
  | (k', v) :: r => if beqb k k' then Some v else assoc_b k r
  end.

Fixpoint assoc_n {A} (k : N) (l : list (N * A)) : option A :=
  match l with
  | [] => None
  | (k', v) :: r => if N.eqb k k' then Some v else assoc_n k r
  end.

Fixpoint assoc_z {A} (k : Z) (l : list (Z * A)) : option A :=
  match l with
  | [] => None
  | (k', v) :: r => if Z.eqb k k' then Some v else assoc_z k r
  end.
