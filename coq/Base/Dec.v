(* Decimal encoding (strconv.Itoa on non-negative ints) and Go's wrapping int arithmetic. *)
From RcProxy Require Import Base.Bytes.
Open Scope N_scope.

(* digits of n, most significant first; enough fuel = any f with n < 10^f *)
Fixpoint itoa_fuel (f : nat) (n : N) : bytes :=
  match f with
  | O => []
  | S f' => if n <? 10 then [48 + n] else itoa_fuel f' (n / 10) ++ [48 + n mod 10]
  end.

(* n < 2^(size n) <= 10^(size n) *)
Definition itoa (n : N) : bytes := itoa_fuel (S (N.to_nat (N.size n))) n.

Definition itoa_nat (n : nat) : bytes := itoa (N.of_nat n).

(* Go int: 64-bit two's complement *)
Definition wrap64 (z : Z) : Z := ((z + 9223372036854775808) mod 18446744073709551616 - 9223372036854775808)%Z.

Definition is_digit (b : N) : bool := (48 <=? b) && (b <=? 57).
