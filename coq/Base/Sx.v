(* Sx: the universal value format shared by the Go harness (implrun), the extracted model
   (modelrun) and the in-Coq cross-check (cases.v).  Text form:
     number  -?[0-9]+          bytes  x<hex>          list  ( v v ... )                     *)
From RcProxy Require Import Base.Bytes.

Inductive sx : Type :=
| SN (z : Z)
| SB (b : bytes)
| SL (l : list sx).

Definition sbool (b : bool) : sx := SN (if b then 1 else 0)%Z.
Definition snat (n : nat) : sx := SN (Z.of_nat n).
Definition sN (n : N) : sx := SN (Z.of_N n).
Definition sopt {A} (f : A -> sx) (o : option A) : sx :=
  match o with None => SL [] | Some a => SL [f a] end.

(* accessors used by entry points; malformed input yields a default that the entry point
   reports as SL [SB "bad"] rather than silently using it *)
Definition get_b (s : sx) : option bytes := match s with SB b => Some b | _ => None end.
Definition get_z (s : sx) : option Z := match s with SN z => Some z | _ => None end.
Definition get_l (s : sx) : option (list sx) := match s with SL l => Some l | _ => None end.

Fixpoint map_opt {A B} (f : A -> option B) (l : list A) : option (list B) :=
  match l with
  | [] => Some []
  | x :: r => match f x, map_opt f r with
              | Some y, Some ys => Some (y :: ys)
              | _, _ => None
              end
  end.

Definition get_bl (s : sx) : option (list bytes) :=
  match s with SL l => map_opt get_b l | _ => None end.
Definition get_zl (s : sx) : option (list Z) :=
  match s with SL l => map_opt get_z l | _ => None end.

Definition bad : sx := SL [SB (bs "bad-input")].

Fixpoint sx_eqb (a b : sx) {struct a} : bool :=
  match a, b with
  | SN x, SN y => Z.eqb x y
  | SB x, SB y => beqb x y
  | SL x, SL y =>
      (fix go (l1 l2 : list sx) {struct l1} : bool :=
         match l1, l2 with
         | [], [] => true
         | p :: r1, q :: r2 => sx_eqb p q && go r1 r2
         | _, _ => false
         end) x y
  | _, _ => false
  end.
