(* Model of core/codec_s.go: SRespCodec.readReply / Decode / InitializingDecode / parseMGet /
   MGet / MSet / Del / Default, and of the per-reply part of conn.sread (core/connection.go). *)
From RcProxy Require Import Base.Bytes Base.Dec Gen.Generated Spec.RespGrammar
  Model.RespBuf Model.Commands Model.Crc16 Model.ClientCodec.
Open Scope N_scope.

(* readReply: returns the reply type and the unread rest.  fuel bounds both the nesting depth
   and the element loops (every reply consumes at least one byte). *)
Definition classify_status (line : bytes) : N :=
  if has_prefix line (bs "+OK") then RspOk
  else if has_prefix line (bs "+PONG") then RspPong else RspStatus.

Definition classify_error (line : bytes) : N :=
  if has_prefix line (bs "-NOAUTH Authentication required") then RspNeedAuth
  else if has_prefix line (bs "-ERR invalid password") then RspAuthFailed
  else if has_prefix line (bs "-ERR Client sent AUTH, but no password is set") then RspNeedNtAuth
  else if has_prefix line (bs "-ERR AUTH <password> called without any password configured for the default user.") then RspNeedNtAuth
  else if has_prefix line (bs "-MOVED") then RspMoved
  else if has_prefix line (bs "-ASK") then RspAsk
  else RspError.

(* the "for i := 0; i < n; i++ { readReply }" loop of an array *)
Fixpoint loop_replies (rr : bytes -> option (res (N * bytes))) (k : nat) (n : Z) (r : bytes)
  : option (res (N * bytes)) :=
  if (n <=? 0)%Z then Some (Ok (RspMultibulk, r))
  else match k with
       | O => None
       | S k' =>
           match rr r with
           | Some (Ok (_, r')) => loop_replies rr k' (n - 1)%Z r'
           | Some (Err e) => Some (Err e)
           | None => None
           end
       end.

Fixpoint read_reply (fuel : nat) (l : bytes) : option (res (N * bytes)) :=
  match fuel with
  | O => None
  | S f =>
      match read_line l with
      | Err e => Some (Err e)
      | Ok (line, rest) =>
          match line with
          | [] => Some (Err EBadLine)
          | m :: digits =>
              if N.eqb m 43 (* '+' *) then Some (Ok (classify_status line, rest))
              else if N.eqb m 58 (* ':' *) then Some (Ok (RspInteger, rest))
              else if N.eqb m 45 (* '-' *) then Some (Ok (classify_error line, rest))
              else if N.eqb m 36 (* '$' *) then
                let '(n, err) := parse_len digits in
                match err with
                | Some e => Some (Err e)
                | None =>
                    if (n <? 0)%Z then Some (Ok (RspBulk, rest))
                    else match read_n n rest with
                         | Err e => Some (Err e)
                         | Ok (_, rest1) =>
                             match read_n 2 rest1 with
                             | Err e => Some (Err e)
                             | Ok (cr, rest2) =>
                                 if beqb cr crlf then Some (Ok (RspBulk, rest2)) else Some (Err EInvalidResp)
                             end
                         end
                end
              else if N.eqb m 42 (* '*' *) then
                let '(n, err) := parse_len digits in
                match err with
                | Some e => Some (Err e)
                | None =>
                    if (n <? 0)%Z then Some (Ok (UNKNOWN, rest))     (* "*-1": (UNKNOWN, nil) *)
                    else
                      loop_replies (read_reply f) f n rest
                end
              else Some (Err EInvalidResp)
          end
      end
  end.

(* what eventloop.sread does with conn.sread's error when decoding a reply fails:
     ErrInvalidResp -> "continue" WITHOUT consuming (a spin);  any other -> stop and wait *)
Inductive sdec := SWait | SSpin | SHang | SReply (ty : N) (consumed : nat).

Definition sdecode (b : bytes) : sdec :=
  match b with
  | [] => SWait
  | _ => match read_reply (S (length b)) b with
         | None => SHang
         | Some (Err EInvalidResp) => SSpin
         | Some (Err _) => SWait
         | Some (Ok (ty, rest)) => SReply ty (length b - length rest)
         end
  end.

(* InitializingDecode: step = number of handshake commands sent (1 or 2) *)
Inductive idec := IWait | IInvalid | IDone (consumed : nat) | IPass.
Definition ok_reply : bytes := StatusOK.
Definition shortcut (step : N) : option bytes :=
  if N.eqb step 1 then Some ok_reply else if N.eqb step 2 then Some (ok_reply ++ ok_reply) else None.

Definition init_decode (step : Z) (b : bytes) : idec :=
  match b with
  | [] => IWait
  | b0 :: _ =>
      if (step <? 1)%Z then IInvalid
      else match shortcut (Z.to_N step) with
           | None => IInvalid
           | Some sc =>
               if ((length sc <=? length b)%nat && has_prefix b sc)%bool then IDone (length sc)
               else if (negb (N.eqb b0 45) && negb (N.eqb b0 43))%bool then IInvalid
               else if has_prefix sc b then IWait
               else IPass
           end
  end.

(* ---- merging of fragment replies ---- *)
Record sfrag := { sf_slot : N; sf_keys : list bytes;       (* this fragment's group *)
                  sf_rsp : list bytes;                     (* parsed MGET elements *)
                  sf_ok : bool; sf_done : bool; sf_error : bytes }.
Record smsg := { sm_type : N; sm_keys : list bytes; sm_frags : list sfrag;
                 sm_done_number : Z; sm_del_num : Z; sm_done : bool;
                 sm_rsp : bytes; sm_error : bytes }.

Inductive outcome (A : Type) := Fine (a : A) | Crash (why : bytes) | Hang.
Arguments Fine {A} a.
Arguments Crash {A} why.
Arguments Hang {A}.

(* parseMGet: the elements of "*k\r\n" followed by bulk strings, each re-rendered.
   errors of ReadN are ignored by the code; a short read yields a slice-bounds panic in
   fmt.Sprintf("%s", nil)? no - ReadN returns (nil, err) and v is nil: prints empty. *)
Fixpoint parse_mget_loop (fuel : nat) (l : bytes) (acc : list bytes) : option (list bytes) :=
  match fuel with
  | O => Some acc     (* unreachable with fuel = S (length l) *)
  | S f =>
      match read_line l with
      | Err EEmptyLine => Some acc
      | Err _ => None                                   (* "return nil" *)
      | Ok (line, rest) =>
          let '(n, _) := parse_len (tl line) in
          if (n <? 0)%Z then parse_mget_loop f rest (acc ++ [line ++ crlf])
          else
            let '(v, rest1) := match read_n n rest with Ok (v, r) => (v, r) | Err _ => ([], rest) end in
            let rest2 := match read_n 2 rest1 with Ok (_, r) => r | Err _ => rest1 end in
            parse_mget_loop f rest2 (acc ++ [line ++ crlf ++ v ++ crlf])
      end
  end.

Definition parse_mget (rsp : bytes) : option (list bytes) :=
  match read_line rsp with
  | Ok (_, rest) => parse_mget_loop (S (length rest)) rest []
  | Err _ => None    (* kLenBytes[1:] on a nil slice panics; unreachable after a successful readReply *)
  end.

Definition set_frag (fs : list sfrag) (slot : N) (g : sfrag -> sfrag) : list sfrag :=
  map (fun f => if N.eqb (sf_slot f) slot then g f else f) fs.
Definition get_frag (fs : list sfrag) (slot : N) : option sfrag :=
  find (fun f => N.eqb (sf_slot f) slot) fs.

Fixpoint index_of (k : bytes) (l : list bytes) : option nat :=
  match l with
  | [] => None
  | x :: r => if beqb x k then Some O else match index_of k r with Some i => Some (S i) | None => None end
  end.

(* the MGET assembly loop; a missing element is an index-out-of-range panic in Go *)
Fixpoint assemble_mget (sigma : bytes -> N) (keys : list bytes) (fs : list sfrag) (acc : bytes) : outcome bytes :=
  match keys with
  | [] => Fine acc
  | k :: r =>
      match get_frag fs (sigma k) with
      | None => Crash (bs "nil fragment for slot")
      | Some f =>
          match index_of k (sf_keys f) with
          | None => assemble_mget sigma r fs acc          (* no break: nothing appended *)
          | Some i =>
              match nth_error (sf_rsp f) i with
              | Some e => assemble_mget sigma r fs (acc ++ e)
              | None => Crash (bs "index out of range in Rsp")
              end
          end
      end
  end.

Definition finish_error (m : smsg) (e : bytes) : smsg :=
  {| sm_type := sm_type m; sm_keys := sm_keys m;
     sm_frags := map (fun f => {| sf_slot := sf_slot f; sf_keys := sf_keys f; sf_rsp := sf_rsp f;
                                  sf_ok := sf_ok f; sf_done := true; sf_error := sf_error f |}) (sm_frags m);
     sm_done_number := Z.of_nat (length (sm_frags m)); sm_del_num := sm_del_num m; sm_done := true;
     sm_rsp := e; sm_error := e |}.

Definition upd (m : smsg) (fs : list sfrag) (dn : Z) (del : Z) (done : bool) (rsp err : bytes) : smsg :=
  {| sm_type := sm_type m; sm_keys := sm_keys m; sm_frags := fs; sm_done_number := dn;
     sm_del_num := del; sm_done := done; sm_rsp := rsp; sm_error := err |}.

(* one framed reply (rtype, bytes) for the fragment of slot s: conn.sread after Decode, for a
   non-redirect reply.  Returns None when the reply is discarded (fragment already done). *)
Definition merge_step (sigma : bytes -> N) (limit : Z) (m : smsg) (slot : N) (rty : N) (rsp : bytes)
  : outcome (option smsg) :=
  match get_frag (sm_frags m) slot with
  | None => Crash (bs "reply for a fragment the message does not have")
  | Some f =>
      if sf_done f then Fine None
      else
        let too_large := (limit <? Z.of_nat (length rsp))%Z in
        let dn := (sm_done_number m + 1)%Z in
        let nfr := Z.of_nat (length (sm_frags m)) in
        let mark g := set_frag (sm_frags m) slot g in
        if too_large then Fine (Some (finish_error (upd m (sm_frags m) dn (sm_del_num m) (sm_done m) (sm_rsp m) (sm_error m)) ErrMsgRspTooLarge))
        else if N.eqb (sm_type m) ReqMget then
          if negb (N.eqb rty RspMultibulk)
          then Fine (Some (finish_error (upd m (sm_frags m) dn (sm_del_num m) (sm_done m) (sm_rsp m) (sm_error m)) ErrUnKnownMget))
          else
          match parse_mget rsp with
          | None | Some [] =>
              Fine (Some (finish_error (upd m (sm_frags m) dn (sm_del_num m) (sm_done m) (sm_rsp m) (sm_error m)) ErrUnKnownMget))
          | Some elems =>
              let fs := mark (fun f => {| sf_slot := sf_slot f; sf_keys := sf_keys f; sf_rsp := elems;
                                          sf_ok := sf_ok f; sf_done := true; sf_error := sf_error f |}) in
              if (dn <? nfr)%Z then Fine (Some (upd m fs dn (sm_del_num m) (sm_done m) (sm_rsp m) (sm_error m)))
              else
                match assemble_mget sigma (sm_keys m) fs ([42] ++ itoa_nat (length (sm_keys m)) ++ crlf) with
                | Fine body =>
                    if (limit <? Z.of_nat (length body))%Z
                    then Fine (Some (upd m fs dn (sm_del_num m) true ErrMsgRspTooLarge ErrMsgRspTooLarge))
                    else Fine (Some (upd m fs dn (sm_del_num m) true body (sm_error m)))
                | Crash w => Crash w
                | Hang => Hang
                end
          end
        else if N.eqb (sm_type m) ReqMset then
          let fs := mark (fun f => {| sf_slot := sf_slot f; sf_keys := sf_keys f; sf_rsp := sf_rsp f;
                                      sf_ok := N.eqb rty RspOk; sf_done := true; sf_error := sf_error f |}) in
          if (dn <? nfr)%Z then Fine (Some (upd m fs dn (sm_del_num m) (sm_done m) (sm_rsp m) (sm_error m)))
          else if forallb sf_ok fs then Fine (Some (upd m fs dn (sm_del_num m) true StatusOK (sm_error m)))
          else Fine (Some (upd m fs dn (sm_del_num m) true ErrUnKnown (sm_error m)))
        else if N.eqb (sm_type m) ReqDel then
          if negb (N.eqb rty RspInteger)
          then Fine (Some (finish_error (upd m (sm_frags m) dn (sm_del_num m) (sm_done m) (sm_rsp m) (sm_error m)) ErrUnKnown))
          else
          let line := firstn (length rsp - 3) (skipn 1 rsp) in
          let '(n, _) := parse_len line in
          let del := wrap64 (sm_del_num m + n) in
          let fs := mark (fun f => {| sf_slot := sf_slot f; sf_keys := sf_keys f; sf_rsp := sf_rsp f;
                                      sf_ok := sf_ok f; sf_done := true; sf_error := sf_error f |}) in
          if (dn <? nfr)%Z then Fine (Some (upd m fs dn del (sm_done m) (sm_rsp m) (sm_error m)))
          else Fine (Some (upd m fs dn del true ([58] ++ (if (del <? 0)%Z then [45] ++ itoa (Z.to_N (- del)) else itoa (Z.to_N del)) ++ crlf) (sm_error m)))
        else
          let fs := mark (fun f => {| sf_slot := sf_slot f; sf_keys := sf_keys f; sf_rsp := sf_rsp f;
                                      sf_ok := sf_ok f; sf_done := true; sf_error := sf_error f |}) in
          Fine (Some (upd m fs dn (sm_del_num m) true rsp (sm_error m)))
  end.

(* feeding a sequence of framed fragment replies (slot, reply type, bytes) *)
Fixpoint run_replies (sigma : bytes -> N) (limit : Z) (m : smsg) (rs : list (N * N * bytes)) : outcome smsg :=
  match rs with
  | [] => Fine m
  | (s, t, b) :: rest =>
      match merge_step sigma limit m s t b with
      | Fine None => run_replies sigma limit m rest
      | Fine (Some m') => run_replies sigma limit m' rest
      | Crash w => Crash w
      | Hang => Hang
      end
  end.

(* the message a decoded request becomes *)
Definition smsg_of (c : cmsg) (groups : list (N * list bytes)) : smsg :=
  {| sm_type := cm_type c; sm_keys := cm_keys c;
     sm_frags := map (fun g => {| sf_slot := fst g; sf_keys := snd g; sf_rsp := []; sf_ok := false;
                                  sf_done := false; sf_error := [] |}) groups;
     sm_done_number := 0; sm_del_num := 0; sm_done := false; sm_rsp := []; sm_error := [] |}.
