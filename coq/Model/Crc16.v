(* Model of core/pkg/hashkit/crc16.go (hash, Hash).  No proofs here. *)
From RcProxy Require Import Base.Bytes Gen.Generated.
Open Scope N_scope.

Definition u32 (x : N) : N := N.land x 4294967295.

(* crc = (crc << 8) ^ crc16tab[((crc>>8)^uint32(key[x]))&0x00ff]   on uint32 *)
Definition hash_step (crc b : N) : N :=
  N.lxor (u32 (N.shiftl crc 8))
         (nth (N.to_nat (N.land (N.lxor (N.shiftr crc 8) b) 255)) crc16tab 0).

Definition hash_crc (k : bytes) : N := fold_left hash_step k 0.

(* int32(crc % constant.RedisClusterSlots) *)
Definition hash (k : bytes) : N := hash_crc k mod RedisClusterSlots.

(* func Hash(key string) int32 :
     if len(key) < 1 { return hash(key) }
     s := strings.Index(key, "{")
     if s >= 0 {
        e := strings.Index(key[s+1:], "}")
        if e < 1 { return hash(key) }
        return hash(key[s+1 : s+1+e])
     }
     return hash(key)                                                        *)
Definition Hash (k : bytes) : N :=
  match k with
  | [] => hash k
  | _ =>
    match index_byte k 123 with
    | Some s =>
        match index_byte (skipn (s + 1) k) 125 with
        | None => hash k                          (* e = -1 < 1 *)
        | Some e => if (e <? 1)%nat then hash k
                    else hash (firstn (s + 1 + e - (s + 1)) (skipn (s + 1) k))
        end
    | None => hash k
    end
  end.
