(* Model of conn.Info in core/pkg/redis/conn.go: what the topology refresh learns from the INFO
   reply of a node it does not know yet (C14: replicas that are loading or whose master link is
   down are not adopted).  Input: the payload of the bulk reply.  Texts are ASCII (strings.TrimSpace
   also strips multi-byte Unicode spaces; the harness and the theorems stay below 0x80). *)
From RcProxy Require Import Base.Bytes.
Open Scope N_scope.

(* strings.Split(s, "\r\n") *)
Fixpoint split_crlf_aux (cur : bytes) (l : bytes) : list bytes :=
  match l with
  | [] => [rev cur]
  | c :: r =>
      match r with
      | d :: r' => if (N.eqb c 13 && N.eqb d 10)%bool then rev cur :: split_crlf_aux [] r'
                   else split_crlf_aux (c :: cur) r
      | [] => [rev (c :: cur)]
      end
  end.
Definition split_crlf (l : bytes) : list bytes := split_crlf_aux [] l.

Definition is_space (c : N) : bool :=
  (N.eqb c 32 || N.eqb c 9 || N.eqb c 10 || N.eqb c 11 || N.eqb c 12 || N.eqb c 13)%bool.
Fixpoint trim_left (l : bytes) : bytes :=
  match l with c :: r => if is_space c then trim_left r else l | [] => [] end.
Definition trim_space (l : bytes) : bytes := rev (trim_left (rev (trim_left l))).

(* msg[bytes.IndexByte(msg, '\n')+1:] : everything after the first line (all of it if there is none) *)
Fixpoint after_lf (l : bytes) : option bytes :=
  match l with
  | [] => None
  | c :: r => if N.eqb c 10 then Some r else after_lf r
  end.

Record info := { in_loading : bool; in_link : bytes; in_version : bytes }.

Definition p_loading := bs "loading:".
Definition p_link := bs "master_link_status:".
Definition p_version := bs "redis_version:".

Definition info_line (i : info) (line : bytes) : info :=
  let i := if has_prefix line p_loading
           then {| in_loading := negb (beqb (trim_space (skipn (length p_loading) line)) (bs "0"));
                   in_link := in_link i; in_version := in_version i |} else i in
  let i := if has_prefix line p_link
           then {| in_loading := in_loading i; in_link := trim_space (skipn (length p_link) line); in_version := in_version i |} else i in
  if has_prefix line p_version
  then {| in_loading := in_loading i; in_link := in_link i; in_version := trim_space (skipn (length p_version) line) |} else i.

Definition info_of_lines (lines : list bytes) : info :=
  fold_left info_line lines {| in_loading := false; in_link := []; in_version := [] |}.

(* None: Info() returns an error (empty payload, or an error text) *)
Definition parse_info (msg : bytes) : option info :=
  match msg with
  | [] => None
  | c :: _ =>
      if N.eqb c 45 (* '-' *) then None
      else Some (info_of_lines (split_crlf (match after_lf msg with Some r => r | None => msg end)))
  end.

(* what parse() does with it for a replica: usable iff not loading and the link is "up" *)
Definition info_usable_replica (i : info) : bool := (negb (in_loading i) && beqb (in_link i) (bs "up"))%bool.

(* ---- specification: INFO as a list of key:value fields, looked up by exact key ---- *)
Fixpoint split_colon (l : bytes) : option (bytes * bytes) :=
  match l with
  | [] => None
  | c :: r => if N.eqb c 58 then Some ([], r)
              else match split_colon r with Some (k, v) => Some (c :: k, v) | None => None end
  end.
Fixpoint last_field (key : bytes) (lines : list bytes) (acc : option bytes) : option bytes :=
  match lines with
  | [] => acc
  | l :: r => match split_colon l with
              | Some (k, v) => if beqb k key then last_field key r (Some v) else last_field key r acc
              | None => last_field key r acc
              end
  end.
Definition spec_info (lines : list bytes) : info :=
  {| in_loading := match last_field (bs "loading") lines None with Some v => negb (beqb (trim_space v) (bs "0")) | None => false end;
     in_link := match last_field (bs "master_link_status") lines None with Some v => trim_space v | None => [] end;
     in_version := match last_field (bs "redis_version") lines None with Some v => trim_space v | None => [] end |}.
