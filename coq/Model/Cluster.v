(* Model of core/cluster.go (loopClusterNodes, updateClusterNodes, parse, newClusterNode,
   parseAddr, parseSlot, isChanged, setServer, setReplicaset) and of the topology part of
   eventloop.ticker (pool add/remove/role flip, slot table rebuild). *)
From RcProxy Require Import Base.Bytes Base.Dec Gen.Generated Model.RespBuf.
Open Scope N_scope.

(* ---- string helpers (strings.Split / Contains / strconv) ---- *)
Fixpoint split_on (sep : N) (l : bytes) : list bytes :=
  match l with
  | [] => [[]]
  | c :: r =>
      if N.eqb c sep then [] :: split_on sep r
      else match split_on sep r with
           | h :: t => (c :: h) :: t
           | [] => [[c]]
           end
  end.

Fixpoint contains (s sub : bytes) {struct s} : bool :=
  match s with
  | [] => match sub with [] => true | _ => false end
  | _ :: r => has_prefix s sub || contains r sub
  end.

Fixpoint all_digitsb (p : bytes) : bool :=
  match p with [] => true | b :: r => is_digit b && all_digitsb r end.

Fixpoint digits_val (p : bytes) (acc : Z) : Z :=
  match p with [] => acc | b :: r => digits_val r (acc * 10 + Z.of_N (b - 48))%Z end.

(* strconv.ParseInt(s, 10, bits): optional sign, at least one digit, value in range *)
Definition parse_int (bits : Z) (s : bytes) : option Z :=
  let '(neg, ds) := match s with
                    | c :: r => if N.eqb c 45 then (true, r) else if N.eqb c 43 then (false, r) else (false, s)
                    | [] => (false, s)
                    end in
  match ds with
  | [] => None
  | _ => if negb (all_digitsb ds) then None
         else let v := digits_val ds 0 in
              let v := if neg then (- v)%Z else v in
              if ((- 2 ^ (bits - 1) <=? v) && (v <? 2 ^ (bits - 1)))%Z%bool then Some v else None
  end.

(* ---- nodes ---- *)
Record cnode := { cn_name : bytes; cn_addr : bytes; cn_slave : bool; cn_masterid : bytes;
                  cn_slots : list (Z * Z) }.

(* parseAddr: "ip:port@cport" -> "ip:port" ; "" when invalid *)
Definition parse_addr (s : bytes) : bytes :=
  match split_on 58 s with
  | ip :: pc :: _ =>
      match ip with
      | [] => []
      | _ =>
          let port := match split_on 64 pc with p :: _ => p | [] => [] end in
          match port with
          | [] => []
          | _ => match parse_int 64 port with
                 | Some _ => ip ++ [58] ++ port
                 | None => []
                 end
          end
      end
  | _ => []
  end.

(* parseSlot: "a" or "a-b", 32-bit numbers, within 0..16383 *)
Definition parse_slot (s : bytes) : option (Z * Z) :=
  match split_on 45 s with
  | a :: rest =>
      match parse_int 32 a with
      | None => None
      | Some st =>
          match rest with
          | [] => if ((st <? 0) || (Z.of_N RedisClusterSlots <=? st))%Z%bool then None else Some (st, st)
          | b :: _ =>
              match parse_int 32 b with
              | None => None
              | Some en => if ((st <? 0) || (Z.of_N RedisClusterSlots <=? en))%Z%bool then None else Some (st, en)
              end
          end
      end
  | [] => None
  end.

Fixpoint parse_slots (cols : list bytes) : option (list (Z * Z)) :=
  match cols with
  | [] => Some []
  | c :: r =>
      if has_prefix c [91] (* "[" : migration marker *) then parse_slots r
      else match parse_slot c, parse_slots r with
           | Some s, Some ss => Some (s :: ss)
           | _, _ => None
           end
  end.

(* newClusterNode(line []string) *)
Definition new_cluster_node (xs : list bytes) : option cnode :=
  let addr := parse_addr (nth 1 xs []) in
  match addr with
  | [] => None
  | _ =>
      let flags := nth 2 xs [] in
      let slave := negb (contains flags (bs "master")) in
      if slave then Some {| cn_name := nth 0 xs []; cn_addr := addr; cn_slave := true;
                            cn_masterid := nth 3 xs []; cn_slots := [] |}
      else if (length xs <? 9)%nat then None
      else match parse_slots (skipn 8 xs) with
           | Some ss => Some {| cn_name := nth 0 xs []; cn_addr := addr; cn_slave := false;
                                cn_masterid := nth 3 xs []; cn_slots := ss |}
           | None => None
           end
  end.

Definition memb (x : bytes) (l : list bytes) : bool := existsb (beqb x) l.

(* the INFO probe of an address not yet known: None = dial/INFO failed, Some (loading, link_up) *)
Definition info_oracle := bytes -> option (bool * bool).

Definition line_node (known : list bytes) (info : info_oracle) (line : bytes) : option cnode :=
  let xs := split_on 32 line in
  if (length xs <? 8)%nat then None
  else
    let flags := nth 2 xs [] in
    if (contains flags (bs "noaddr") || contains flags (bs "handshake"))%bool then None
    else if contains flags (bs "fail") then None
    else if (negb (contains flags (bs "master")) && negb (contains flags (bs "slave")))%bool then None
    else if contains (nth 7 xs []) (bs "disconnected") then None
    else match new_cluster_node xs with
         | None => None
         | Some node =>
             if memb (cn_addr node) known then Some node
             else match info (cn_addr node) with
                  | None => None
                  | Some (loading, link_up) =>
                      if (cn_slave node && loading)%bool then None
                      else if (cn_slave node && negb link_up)%bool then None
                      else Some node
                  end
         end.

Fixpoint filter_map {A B} (f : A -> option B) (l : list A) : list B :=
  match l with [] => [] | x :: r => match f x with Some y => y :: filter_map f r | None => filter_map f r end end.

Definition parse_nodes (known : list bytes) (info : info_oracle) (text : bytes) : option (list cnode) :=
  let nodes := filter_map (line_node known info) (split_on 10 text) in
  if (length nodes <? 3)%nat then None else Some nodes.

(* ---- change detection ---- *)
Fixpoint bytes_leb (a b : bytes) : bool :=
  match a, b with
  | [], _ => true
  | _ :: _, [] => false
  | x :: a', y :: b' => if N.ltb x y then true else if N.ltb y x then false else bytes_leb a' b'
  end.
Fixpoint insert_sorted (x : bytes) (l : list bytes) : list bytes :=
  match l with [] => [x] | y :: r => if bytes_leb x y then x :: l else y :: insert_sorted x r end.
Definition sort_strings (l : list bytes) : list bytes := fold_right insert_sorted [] l.

Definition show_z (z : Z) : bytes := if (z <? 0)%Z then [45] ++ itoa (Z.to_N (- z)) else itoa (Z.to_N z).
(* fmt "%v" of []Slots: [{a b} {c d}] *)
Fixpoint show_slots_inner (l : list (Z * Z)) : bytes :=
  match l with
  | [] => []
  | [(a, b)] => [123] ++ show_z a ++ [32] ++ show_z b ++ [125]
  | (a, b) :: r => [123] ++ show_z a ++ [32] ++ show_z b ++ [125] ++ [32] ++ show_slots_inner r
  end.
Definition show_slots (l : list (Z * Z)) : bytes := [91] ++ show_slots_inner l ++ [93].

Definition node_fingerprint (n : cnode) : bytes :=
  if cn_slave n then cn_addr n ++ bs "#1#" ++ cn_masterid n
  else cn_addr n ++ bs "#0#" ++ cn_name n ++ [35] ++ show_slots (cn_slots n).

Fixpoint join_comma (l : list bytes) : bytes :=
  match l with [] => [] | [x] => x | x :: r => x ++ [44] ++ join_comma r end.

Definition fingerprint (nodes : list cnode) : bytes := join_comma (sort_strings (map node_fingerprint nodes)).

(* ---- state ---- *)
Record cstate := { cs_servers : list cnode;                       (* ServerMap (first insert per address wins) *)
                   cs_sets : list (cnode * list cnode);           (* Replicasets *)
                   cs_last : bytes;                               (* lastServerNames *)
                   cs_changed : bool }.                           (* serverChanged *)
Definition cstate0 : cstate := {| cs_servers := []; cs_sets := []; cs_last := []; cs_changed := false |}.

Fixpoint dedup_addr (nodes : list cnode) (seen : list bytes) : list cnode :=
  match nodes with
  | [] => []
  | n :: r => if memb (cn_addr n) seen then dedup_addr r seen else n :: dedup_addr r (cn_addr n :: seen)
  end.
Definition set_server (nodes : list cnode) : list cnode := dedup_addr nodes [].

Fixpoint attach (sets : list (cnode * list cnode)) (n : cnode) : list (cnode * list cnode) :=
  match sets with
  | [] => []
  | (m, ss) :: r => if beqb (cn_name m) (cn_masterid n) then (m, ss ++ [n]) :: r else (m, ss) :: attach r n
  end.
Definition set_replicaset (nodes : list cnode) : list (cnode * list cnode) :=
  fold_left attach (filter cn_slave nodes)
            (map (fun m => (m, [])) (filter (fun n => negb (cn_slave n)) nodes)).

Definition update_cluster (st : cstate) (info : info_oracle) (text : bytes) : cstate :=
  match parse_nodes (map cn_addr (cs_servers st)) info text with
  | None => st
  | Some nodes =>
      let fp := fingerprint nodes in
      let changed := (negb (Nat.eqb (length nodes) (length (cs_servers st))) || negb (beqb fp (cs_last st)))%bool in
      if changed
      then {| cs_servers := set_server nodes; cs_sets := set_replicaset nodes; cs_last := fp; cs_changed := true |}
      else {| cs_servers := cs_servers st; cs_sets := cs_sets st; cs_last := fp; cs_changed := cs_changed st |}
  end.

(* one iteration of loopClusterNodes on a probe reply *)
Inductive probe := PSkip | PCrash | PText (t : bytes).
Definition classify_probe (msg : bytes) : probe :=
  if (length msg <? 3)%nat then PSkip
  else if has_prefix msg (bs "+OK") then PSkip
  else if has_prefix msg (bs "$-1") then PSkip
  else match index_byte msg LF with
       | None => PSkip                                     (* idx = -1 < 2 *)
       | Some i =>
           if ((i <? 2) || (length msg <? i + 4))%nat%bool then PSkip
           else
             let '(n, err) := parse_len (firstn (i - 2) (skipn 1 msg)) in
             match err with
             | Some _ => PSkip
             | None =>
                 if (163840 <? n)%Z then PSkip
                 else if (length msg - 3 <? i + 1)%nat then PCrash   (* msg[i+1 : len-3]: excluded by the guard *)
                 else PText (firstn (length msg - 3 - (i + 1)) (skipn (i + 1) msg))
             end
       end.

Definition loop_step (st : cstate) (info : info_oracle) (msg : bytes) : option cstate :=
  match classify_probe msg with
  | PSkip => Some st
  | PCrash => None
  | PText t => Some (update_cluster st info t)
  end.

(* ---- ticker: pools and slot table ---- *)
Definition covers (rs : cnode * list cnode) (slot : Z) : bool :=
  existsb (fun r => (fst r <=? slot)%Z && (slot <=? snd r)%Z) (cn_slots (fst rs)).

(* the table after "Reset; for rs { for range { for i { Set(i, rs) } } }": the LAST set covering wins *)
Definition table_lookup (sets : list (cnode * list cnode)) (slot : Z) : option (cnode * list cnode) :=
  fold_left (fun acc rs => if covers rs slot then Some rs else acc) sets None.

(* pools: (address, isSlave) *)
Definition tick_pools (pools : list (bytes * bool)) (servers : list cnode) : list (bytes * bool) :=
  let kept := filter (fun p => memb (fst p) (map cn_addr servers)) pools in
  let updated := map (fun p => match find (fun n => beqb (cn_addr n) (fst p)) servers with
                               | Some n => (fst p, cn_slave n) | None => p end) kept in
  let added := filter (fun n => negb (memb (cn_addr n) (map fst pools))) servers in
  updated ++ map (fun n => (cn_addr n, cn_slave n)) added.
