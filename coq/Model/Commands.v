(* Model of core/codec/commands.go: Transform2Type, checkArgs (tables come from Generated.v). *)
From RcProxy Require Import Base.Bytes Gen.Generated.
Open Scope N_scope.

Definition check_args (command : N) (n : Z) : N :=
  match assoc_n command CommandType2ArgsNumber with
  | None => ReqWrongArgumentsNumber
  | Some nargs =>
      if (Z.eqb nargs Nargsz || Z.eqb nargs Nargs0 || Z.eqb nargs Nargs1 || Z.eqb nargs Nargs2 || Z.eqb nargs Nargs3)%bool
      then (if Z.eqb nargs n then command else ReqWrongArgumentsNumber)
      else if Z.eqb nargs NargsInf then (if (n <? 1)%Z then ReqWrongArgumentsNumber else command)
      else if Z.eqb nargs NargsEvenInf
           then (if ((n <? 2)%Z || Z.eqb (Z.rem n 2) 1)%bool then ReqWrongArgumentsNumber else command)
      else ReqWrongArgumentsNumber
  end.

Definition transform2type (command : bytes) (n : Z) : N :=
  match assoc_b (to_lower command) CommandStr2Type with
  | Some v => check_args v n
  | None => UNKNOWN
  end.
