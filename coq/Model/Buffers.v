(* Model of the I/O buffers: core/pkg/buffer/ring/ring_buffer.go, linkedlist/linked_list_buffer.go,
   elastic/elastic_ring_buffer.go, elastic/elastic_ring_list_buffer.go (C19).

   Transcription rules: Go ints are nat (sizes never approach 2^63 here: the harness and the
   theorems keep them below 2^31); a byte slice is a list; copy(dst[pos:], src) is [copy_at];
   the contents of a freshly pooled slice are unspecified in Go - the model fills it with zeros
   and the theorems show those cells are never observable; the ring obtained from the ring pool
   has an unspecified capacity, given to the model by the caller ([cap0] of the operations that
   instantiate it).  io.Reader / io.Writer driven variants (ReadFrom / WriteTo) are not used by
   the proxy and are not modelled. *)
From RcProxy Require Import Base.Bytes Gen.Generated.
From Coq Require Import Arith.
Local Open Scope nat_scope.

(* ---------- toolkit.CeilToPowerOfTwo ---------- *)
Fixpoint pow2_ge (fuel : nat) (p n : nat) : nat :=
  match fuel with
  | O => p
  | S f => if n <=? p then p else pow2_ge f (p + p) n
  end.
Definition ceil_pow2 (n : nat) : nat := if n <=? 2 then 2 else pow2_ge 64 2 n.

(* ---------- ring.Buffer ---------- *)
(* the two constants are copied from ring_buffer.go by the translator on every run *)
Definition DefaultBufferSize := N.to_nat ring_DefaultBufferSize.
Definition bufferGrowThreshold := N.to_nat ring_bufferGrowThreshold.

Record ring := { rg_buf : bytes; rg_size : nat; rg_r : nat; rg_w : nat; rg_empty : bool }.

(* ring.New(size) *)
Definition ring_new (size : nat) : ring :=
  if size =? 0 then {| rg_buf := []; rg_size := 0; rg_r := 0; rg_w := 0; rg_empty := true |}
  else let s := ceil_pow2 size in {| rg_buf := repeat 0%N s; rg_size := s; rg_r := 0; rg_w := 0; rg_empty := true |}.

(* copy(buf[pos:], data): as many bytes as fit *)
Definition copy_at (buf : bytes) (pos : nat) (data : bytes) : bytes :=
  let d := firstn (length buf - pos) data in
  firstn pos buf ++ d ++ skipn (pos + length d) buf.

Definition slice (buf : bytes) (lo hi : nat) : bytes := firstn (hi - lo) (skipn lo buf).

Definition ring_reset (rb : ring) : ring :=
  {| rg_buf := rg_buf rb; rg_size := rg_size rb; rg_r := 0; rg_w := 0; rg_empty := true |}.

Definition ring_buffered (rb : ring) : nat :=
  if rg_r rb =? rg_w rb then (if rg_empty rb then 0 else rg_size rb)
  else if rg_r rb <? rg_w rb then rg_w rb - rg_r rb
  else rg_size rb - rg_r rb + rg_w rb.

Definition ring_available (rb : ring) : nat :=
  if rg_r rb =? rg_w rb then (if rg_empty rb then rg_size rb else 0)
  else if rg_w rb <? rg_r rb then rg_r rb - rg_w rb
  else rg_size rb - rg_w rb + rg_r rb.

(* peekAll *)
Definition ring_peek_all (rb : ring) : bytes * bytes :=
  if rg_empty rb then ([], [])
  else if rg_r rb <? rg_w rb then (slice (rg_buf rb) (rg_r rb) (rg_w rb), [])
  else (skipn (rg_r rb) (rg_buf rb), if rg_w rb =? 0 then [] else firstn (rg_w rb) (rg_buf rb)).

(* Peek(n); [pos] tells whether n > 0 *)
Definition ring_peek (rb : ring) (pos : bool) (n : nat) : bytes * bytes :=
  if rg_empty rb then ([], [])
  else if negb pos then ring_peek_all rb
  else if rg_r rb <? rg_w rb then
    let m := Nat.min (rg_w rb - rg_r rb) n in (slice (rg_buf rb) (rg_r rb) (rg_r rb + m), [])
  else
    let m := Nat.min (rg_size rb - rg_r rb + rg_w rb) n in
    if rg_r rb + m <=? rg_size rb then (slice (rg_buf rb) (rg_r rb) (rg_r rb + m), [])
    else (skipn (rg_r rb) (rg_buf rb), firstn (m - (rg_size rb - rg_r rb)) (rg_buf rb)).

(* Discard(n) for n > 0 (n <= 0 returns 0 and changes nothing) *)
Definition ring_discard (rb : ring) (n : nat) : nat * ring :=
  if n =? 0 then (0, rb)
  else
    let b := ring_buffered rb in
    if n <? b then (n, {| rg_buf := rg_buf rb; rg_size := rg_size rb; rg_r := (rg_r rb + n) mod rg_size rb;
                          rg_w := rg_w rb; rg_empty := rg_empty rb |})
    else (b, ring_reset rb).

(* Read(p) with len(p) = k: the bytes copied into p; None = ErrIsEmpty *)
Definition ring_read (rb : ring) (k : nat) : option bytes * ring :=
  if k =? 0 then (Some [], rb)
  else if rg_empty rb then (None, rb)
  else if rg_r rb <? rg_w rb then
    let n := Nat.min (rg_w rb - rg_r rb) k in
    let out := slice (rg_buf rb) (rg_r rb) (rg_r rb + n) in
    let r' := rg_r rb + n in
    (Some out, if r' =? rg_w rb then ring_reset rb
               else {| rg_buf := rg_buf rb; rg_size := rg_size rb; rg_r := r'; rg_w := rg_w rb; rg_empty := rg_empty rb |})
  else
    let n := Nat.min (rg_size rb - rg_r rb + rg_w rb) k in
    let out := if rg_r rb + n <=? rg_size rb then slice (rg_buf rb) (rg_r rb) (rg_r rb + n)
               else skipn (rg_r rb) (rg_buf rb) ++ firstn (n - (rg_size rb - rg_r rb)) (rg_buf rb) in
    let r' := (rg_r rb + n) mod rg_size rb in
    (Some out, if r' =? rg_w rb then ring_reset rb
               else {| rg_buf := rg_buf rb; rg_size := rg_size rb; rg_r := r'; rg_w := rg_w rb; rg_empty := rg_empty rb |}).

(* the capacity computation of grow *)
Fixpoint grow_quarter (fuel : nat) (n newcap : nat) : nat :=
  match fuel with
  | O => n
  | S f => if (0 <? n) && (n <? newcap) then grow_quarter f (n + n / 4) newcap else n
  end.

Definition grow_cap (size newcap : nat) : nat :=
  if size =? 0 then (if newcap <=? DefaultBufferSize then DefaultBufferSize else ceil_pow2 newcap)
  else
    let double := size + size in
    if newcap <=? double then
      if size <? bufferGrowThreshold then double
      else let n := grow_quarter 256 size newcap in if 0 <? n then n else newcap
    else newcap.

(* grow(newCap): newBuf := Get(cap); oldLen := Buffered(); Read(newBuf); r = 0; w = oldLen *)
Definition ring_grow (rb : ring) (newcap : nat) : ring :=
  let cap := grow_cap (rg_size rb) newcap in
  let old := ring_buffered rb in
  let data := match fst (ring_read rb cap) with Some d => d | None => [] end in
  {| rg_buf := copy_at (repeat 0%N cap) 0 data; rg_size := cap; rg_r := 0; rg_w := old;
     rg_empty := if 0 <? old then false else true |}.

(* Write(p) *)
Definition ring_write (rb : ring) (p : bytes) : ring :=
  let n := length p in
  if n =? 0 then rb
  else
    let free := ring_available rb in
    let rb := if free <? n then ring_grow rb (rg_size rb + n - free) else rb in
    let '(buf, w) :=
      if rg_r rb <=? rg_w rb then
        let c1 := rg_size rb - rg_w rb in
        if n <=? c1 then (copy_at (rg_buf rb) (rg_w rb) p, rg_w rb + n)
        else (copy_at (copy_at (rg_buf rb) (rg_w rb) (firstn c1 p)) 0 (skipn c1 p), n - c1)
      else (copy_at (rg_buf rb) (rg_w rb) p, rg_w rb + n) in
    {| rg_buf := buf; rg_size := rg_size rb; rg_r := rg_r rb; rg_w := if w =? rg_size rb then 0 else w; rg_empty := false |}.

(* WriteByte(c): None = index-out-of-range panic *)
Definition ring_write_byte (rb : ring) (c : N) : option ring :=
  let rb := if ring_available rb <? 1 then ring_grow rb (rg_size rb + 1) else rb in
  if rg_w rb <? length (rg_buf rb) then
    let w := rg_w rb + 1 in
    Some {| rg_buf := copy_at (rg_buf rb) (rg_w rb) [c]; rg_size := rg_size rb; rg_r := rg_r rb;
            rg_w := if w =? rg_size rb then 0 else w; rg_empty := false |}
  else None.

(* ReadByte(): None = ErrIsEmpty *)
Definition ring_read_byte (rb : ring) : option N * ring :=
  if rg_empty rb then (None, rb)
  else
    let b := nth (rg_r rb) (rg_buf rb) 0%N in
    let r := rg_r rb + 1 in
    let r := if r =? rg_size rb then 0 else r in
    (Some b, if r =? rg_w rb then ring_reset rb
             else {| rg_buf := rg_buf rb; rg_size := rg_size rb; rg_r := r; rg_w := rg_w rb; rg_empty := rg_empty rb |}).

(* the bytes held, oldest first (the abstraction function; also Bytes()) *)
Definition ring_contents (rb : ring) : bytes :=
  if rg_empty rb then []
  else if rg_r rb <? rg_w rb then slice (rg_buf rb) (rg_r rb) (rg_w rb)
  else skipn (rg_r rb) (rg_buf rb) ++ firstn (rg_w rb) (rg_buf rb).

(* ---------- linkedlist.Buffer: a list of chunks ---------- *)
Definition llist := list bytes.

Definition ll_push_back (l : llist) (p : bytes) : llist := match p with [] => l | _ => l ++ [p] end.

Fixpoint ll_discard (l : llist) (n : nat) : nat * llist :=
  match n with
  | O => (0, l)
  | _ =>
    match l with
    | [] => (0, [])
    | b :: r => if n <? length b then (n, skipn n b :: r)
                else let '(d, r') := ll_discard r (n - length b) in (length b + d, r')
    end
  end.

(* Read(p) with len(p) = k *)
Fixpoint ll_read (l : llist) (k : nat) : bytes * llist :=
  match k with
  | O => ([], l)
  | _ =>
    match l with
    | [] => ([], [])
    | b :: r => if k <? length b then (firstn k b, skipn k b :: r)
                else let '(d, r') := ll_read r (k - length b) in (b ++ d, r')
    end
  end.

(* PeekWithBytes(maxBytes, bs...): whole chunks until the total reaches maxBytes *)
Fixpoint take_chunks (cum maxb : nat) (l : list bytes) : list bytes * option nat :=
  match l with
  | [] => ([], Some cum)
  | b :: r =>
      let cum' := cum + length b in
      if maxb <=? cum' then ([b], None)
      else let '(t, c) := take_chunks cum' maxb r in (b :: t, c)
  end.

Definition ll_peek_with (l : llist) (maxb : nat) (pre : list bytes) : list bytes :=
  let pre' := filter (fun b => negb (length b =? 0)) pre in
  match take_chunks 0 maxb pre' with
  | (t, None) => t
  | (t, Some cum) => t ++ fst (take_chunks cum maxb l)
  end.

Definition ll_bytes (l : llist) : nat := length (concat l).

(* ---------- elastic.RingBuffer: a ring taken from the pool on first use, returned when empty ---------- *)
Definition ering := option ring.

Definition er_done (b : ering) : ering :=
  match b with Some rb => if rg_empty rb then None else Some rb | None => None end.

Definition er_instance (b : ering) (cap0 : nat) : ring :=
  match b with
  | Some rb => rb
  | None => if cap0 =? 0 then ring_new 0 else {| rg_buf := repeat 0%N cap0; rg_size := cap0; rg_r := 0; rg_w := 0; rg_empty := true |}
  end.

Definition er_write (b : ering) (cap0 : nat) (p : bytes) : ering :=
  match p with [] => b | _ => Some (ring_write (er_instance b cap0) p) end.
Definition er_peek (b : ering) (pos : bool) (n : nat) : bytes * bytes :=
  match b with Some rb => ring_peek rb pos n | None => ([], []) end.
Definition er_discard (b : ering) (n : nat) : nat * ering :=
  match b with Some rb => let '(d, rb') := ring_discard rb n in (d, er_done (Some rb')) | None => (0, None) end.
Definition er_read (b : ering) (k : nat) : option bytes * ering :=
  match b with Some rb => let '(o, rb') := ring_read rb k in (o, er_done (Some rb')) | None => (None, None) end.
Definition er_buffered (b : ering) : nat := match b with Some rb => ring_buffered rb | None => 0 end.
Definition er_len (b : ering) : nat := match b with Some rb => length (rg_buf rb) | None => 0 end.
Definition er_available (b : ering) : nat := match b with Some rb => ring_available rb | None => 0 end.
Definition er_is_empty (b : ering) : bool := match b with Some rb => rg_empty rb | None => true end.
Definition er_reset (b : ering) : ering := match b with Some rb => Some (ring_reset rb) | None => None end.
Definition er_contents (b : ering) : bytes := match b with Some rb => ring_contents rb | None => [] end.

(* ---------- elastic.Buffer: ring first, list once the ring holds maxStaticBytes ---------- *)
Record ebuf := { eb_max : nat; eb_ring : ering; eb_list : llist }.

Definition eb_new (maxb : nat) : ebuf := {| eb_max := maxb; eb_ring := None; eb_list := [] |}.

Definition ll_is_empty (l : llist) : bool := match l with [] => true | _ => false end.

Definition eb_write (b : ebuf) (cap0 : nat) (p : bytes) : ebuf :=
  if (negb (ll_is_empty (eb_list b)) || (eb_max b <=? er_buffered (eb_ring b)))%bool then
    {| eb_max := eb_max b; eb_ring := eb_ring b; eb_list := ll_push_back (eb_list b) p |}
  else
    let writable := er_available (eb_ring b) in
    if ((eb_max b <=? er_len (eb_ring b)) && (writable <? length p))%bool then
      {| eb_max := eb_max b; eb_ring := er_write (eb_ring b) cap0 (firstn writable p);
         eb_list := ll_push_back (eb_list b) (skipn writable p) |}
    else {| eb_max := eb_max b; eb_ring := er_write (eb_ring b) cap0 p; eb_list := eb_list b |}.

(* the loop of Writev: ring until a slice does not fit in [writable], the rest to the list *)
Fixpoint eb_writev_loop (rg : ering) (cap0 : nat) (l : llist) (writable : nat) (bs : list bytes) : ering * llist :=
  match bs with
  | [] => (rg, l)
  | b :: rest =>
      if writable <? length b then
        (er_write rg cap0 (firstn writable b),
         fold_left ll_push_back rest (ll_push_back l (skipn writable b)))
      else eb_writev_loop (er_write rg cap0 b) cap0 l (writable - length b) rest
  end.

Definition eb_writev (b : ebuf) (cap0 : nat) (bs : list bytes) : ebuf :=
  if (negb (ll_is_empty (eb_list b)) || (eb_max b <=? er_buffered (eb_ring b)))%bool then
    {| eb_max := eb_max b; eb_ring := eb_ring b; eb_list := fold_left ll_push_back bs (eb_list b) |}
  else
    let writable := if er_len (eb_ring b) <? eb_max b then eb_max b - er_buffered (eb_ring b)
                    else er_available (eb_ring b) in
    let '(rg, l) := eb_writev_loop (eb_ring b) cap0 (eb_list b) writable bs in
    {| eb_max := eb_max b; eb_ring := rg; eb_list := l |}.

(* Peek(n): [pos] = n > 0; n <= 0 means everything *)
(* for n <= 0 Go substitutes math.MaxInt32; the model substitutes a number larger than everything
   buffered (equivalent as long as less than 2^31 bytes are buffered) *)
Definition eb_peek (b : ebuf) (pos : bool) (n : nat) : list bytes :=
  let n' := if pos then n else S (er_buffered (eb_ring b) + length (concat (eb_list b))) in
  let '(h, t) := er_peek (eb_ring b) true n' in
  if n' <=? er_buffered (eb_ring b) then [h; t] else ll_peek_with (eb_list b) n' [h; t].

Definition eb_discard (b : ebuf) (n : nat) : nat * ebuf :=
  let '(d, rg) := er_discard (eb_ring b) n in
  if n <=? d then (d, {| eb_max := eb_max b; eb_ring := rg; eb_list := eb_list b |})
  else let '(m, l) := ll_discard (eb_list b) (n - d) in
       (d + m, {| eb_max := eb_max b; eb_ring := rg; eb_list := l |}).

Definition eb_read (b : ebuf) (k : nat) : bytes * ebuf :=
  let '(o, rg) := er_read (eb_ring b) k in
  let got := match o with Some d => d | None => [] end in
  if length got =? k then (got, {| eb_max := eb_max b; eb_ring := rg; eb_list := eb_list b |})
  else let '(d, l) := ll_read (eb_list b) (k - length got) in
       (got ++ d, {| eb_max := eb_max b; eb_ring := rg; eb_list := l |}).

Definition eb_buffered (b : ebuf) : nat := er_buffered (eb_ring b) + ll_bytes (eb_list b).
Definition eb_is_empty (b : ebuf) : bool := (er_is_empty (eb_ring b) && ll_is_empty (eb_list b))%bool.
Definition eb_reset (b : ebuf) (maxb : nat) : ebuf :=
  {| eb_max := if 0 <? maxb then maxb else eb_max b; eb_ring := er_reset (eb_ring b); eb_list := [] |}.
Definition eb_contents (b : ebuf) : bytes := er_contents (eb_ring b) ++ concat (eb_list b).
