(* Model of the event loop: eventloop.cread / sread / flushDone / failFrags / closeConn /
   msgTimeout (core/eventloop.go), conn.sread / handleWriteSignal / writeClusterNodes
   (core/connection.go), OnCReact / getConn / OnMoved (core/server/server_c.go), OnSOpened,
   Pool.Get (core/redis_pool.go).  One event = one call the real loop makes; byte-level decoding is
   delegated to the codec models.  Sockets are append-only byte sinks (what the peer has received);
   that write/writev + outbound buffer + EPOLLOUT reduce to "append" is property C19/C02.
   Request objects are never reused here: after the repairs no fragment outlives the release of its
   request un-done (a late reply for a done fragment is dropped before the request is touched), so
   sync.Pool reuse is unobservable; the correspondence run exercises the real pool. *)
From RcProxy Require Import Base.Bytes Base.Dec Gen.Generated Spec.RespGrammar
  Model.RespBuf Model.Commands Model.Crc16 Model.ClientCodec Model.ClientFeed Model.ServerCodec Model.Route Model.Cluster.
Open Scope N_scope.

Inductive fragref := FProbe (asking : bool) | FReq (mid : nat) (slot : N).

(* ghost fields (never read by the step functions): pm_seq numbers the requests of one client in
   arrival order; pc_sent / pc_hist log which request's reply was appended to the client's socket;
   ps_written logs every fragment written to the backend socket together with the bytes written for
   it, ps_taken counts consumed replies *)
Record pmsg := { pm_client : nat; pm_sm : smsg; pm_reqs : list (N * bytes); pm_seq : nat;
                 pm_moved : list N;                    (* ghost: slots whose fragment a node redirected *)
                 pm_route : list (N * option bytes) }. (* ghost: per slot, the owner in the slot table when the request was routed *)   (* ghost: slots of fragments that have been redirected *)
Record pclient := { pc_open : bool; pc_left : bytes; pc_queue : list nat; pc_got : bytes;
                     pc_sent : nat; pc_hist : list (nat * bytes);
                     pc_closing : bool }.   (* QUIT received: close once the queue has been flushed *)
Record pserver := { ps_open : bool; ps_addr : bytes; ps_slave : bool; ps_initializing : bool; ps_step : Z;
                    ps_left : bytes; ps_outq : list fragref; ps_inq : list fragref; ps_got : bytes;
                    ps_written : list (fragref * bytes); ps_taken : nat }.
Record ppool := { pp_addr : bytes; pp_slave : bool; pp_conns : list nat; pp_closed : bool; pp_dialable : bool }.
Inductive ptask := TWrite (sid : nat) | TClose (sid : nat) | TProbe (sid : nat).

Record pcfg := { cf_limit : Z; cf_password : bytes; cf_timeout : bool; cf_max_active : nat;
                 cf_replica_reads : bool;                       (* DisableSlave = false *)
                 cf_reps : list (bytes * list bytes) }.         (* master address -> replica addresses *)

Record pst := { clients : list (nat * pclient); servers : list (nat * pserver); msgs : list (nat * pmsg);
                pools : list ppool; slots : list (Z * Z * bytes);      (* range -> master address *)
                tasks : list ptask; inflight : list (nat * fragref);   (* timeout tree, in push order *)
                next_mid : nat; next_sid : nat; cfg : pcfg;
                (* oracle for rand.Intn in route, set by the event EChoices before a read of client
                   bytes: fragment request -> the node the run was seen to choose for it *)
                choices : list (bytes * bytes) }.

Inductive result (A : Type) := ROk (a : A) | RCrash (why : bytes) | RHang (why : bytes) | RShutdown.
Arguments ROk {A} a. Arguments RCrash {A} why. Arguments RHang {A} why. Arguments RShutdown {A}.

(* ---- association list helpers ---- *)
Fixpoint lookup {A} (k : nat) (l : list (nat * A)) : option A :=
  match l with [] => None | (k', v) :: r => if Nat.eqb k k' then Some v else lookup k r end.
Fixpoint update {A} (k : nat) (v : A) (l : list (nat * A)) : list (nat * A) :=
  match l with
  | [] => [(k, v)]
  | (k', v') :: r => if Nat.eqb k k' then (k, v) :: r else (k', v') :: update k v r
  end.

Definition set_client (st : pst) (c : nat) (x : pclient) : pst :=
  {| clients := update c x (clients st); servers := servers st; msgs := msgs st; pools := pools st; slots := slots st;
     tasks := tasks st; inflight := inflight st; next_mid := next_mid st; next_sid := next_sid st; cfg := cfg st; choices := choices st |}.
Definition set_server (st : pst) (s : nat) (x : pserver) : pst :=
  {| clients := clients st; servers := update s x (servers st); msgs := msgs st; pools := pools st; slots := slots st;
     tasks := tasks st; inflight := inflight st; next_mid := next_mid st; next_sid := next_sid st; cfg := cfg st; choices := choices st |}.
Definition set_msg (st : pst) (m : nat) (x : pmsg) : pst :=
  {| clients := clients st; servers := servers st; msgs := update m x (msgs st); pools := pools st; slots := slots st;
     tasks := tasks st; inflight := inflight st; next_mid := next_mid st; next_sid := next_sid st; cfg := cfg st; choices := choices st |}.
Definition set_pools (st : pst) (p : list ppool) : pst :=
  {| clients := clients st; servers := servers st; msgs := msgs st; pools := p; slots := slots st;
     tasks := tasks st; inflight := inflight st; next_mid := next_mid st; next_sid := next_sid st; cfg := cfg st; choices := choices st |}.
Definition set_tasks (st : pst) (t : list ptask) : pst :=
  {| clients := clients st; servers := servers st; msgs := msgs st; pools := pools st; slots := slots st;
     tasks := t; inflight := inflight st; next_mid := next_mid st; next_sid := next_sid st; cfg := cfg st; choices := choices st |}.
Definition set_inflight (st : pst) (t : list (nat * fragref)) : pst :=
  {| clients := clients st; servers := servers st; msgs := msgs st; pools := pools st; slots := slots st;
     tasks := tasks st; inflight := t; next_mid := next_mid st; next_sid := next_sid st; cfg := cfg st; choices := choices st |}.
Definition bump_mid (st : pst) : pst :=
  {| clients := clients st; servers := servers st; msgs := msgs st; pools := pools st; slots := slots st;
     tasks := tasks st; inflight := inflight st; next_mid := S (next_mid st); next_sid := next_sid st; cfg := cfg st; choices := choices st |}.
Definition set_choices (st : pst) (ch : list (bytes * bytes)) : pst :=
  {| clients := clients st; servers := servers st; msgs := msgs st; pools := pools st; slots := slots st;
     tasks := tasks st; inflight := inflight st; next_mid := next_mid st; next_sid := next_sid st; cfg := cfg st; choices := ch |}.
Definition bump_sid (st : pst) : pst :=
  {| clients := clients st; servers := servers st; msgs := msgs st; pools := pools st; slots := slots st;
     tasks := tasks st; inflight := inflight st; next_mid := next_mid st; next_sid := S (next_sid st); cfg := cfg st; choices := choices st |}.

Definition fragref_eqb (a b : fragref) : bool :=
  match a, b with
  | FProbe a, FProbe b => Bool.eqb a b
  | FReq m s, FReq m' s' => Nat.eqb m m' && N.eqb s s'
  | _, _ => false
  end.

(* ---- flushDone ---- *)
Definition msg_done (st : pst) (mid : nat) : bool :=
  match lookup mid (msgs st) with Some m => sm_done (pm_sm m) | None => false end.
Definition msg_rsp (st : pst) (mid : nat) : bytes :=
  match lookup mid (msgs st) with Some m => sm_rsp (pm_sm m) | None => [] end.

Definition msg_seq (st : pst) (mid : nat) : nat :=
  match lookup mid (msgs st) with Some m => pm_seq m | None => 0 end.

Fixpoint done_prefix (st : pst) (q : list nat) : list nat * list nat :=
  match q with
  | [] => ([], [])
  | m :: r => if msg_done st m then let '(d, rest) := done_prefix st r in (m :: d, rest) else ([], q)
  end.

Definition flush_done (st : pst) (c : nat) : pst :=
  match lookup c (clients st) with
  | None => st
  | Some cl =>
      let '(d, rest) := done_prefix st (pc_queue cl) in
      match d with
      | [] => st
      | _ =>
          let closed := (pc_closing cl && match rest with [] => true | _ => false end)%bool in
          set_client st c {| pc_open := if closed then false else pc_open cl; pc_left := if closed then [] else pc_left cl;
                             pc_queue := rest;
                             pc_got := pc_got cl ++ concat (map (msg_rsp st) d); pc_sent := pc_sent cl;
                             pc_hist := pc_hist cl ++ map (fun m => (msg_seq st m, msg_rsp st m)) d;
                             pc_closing := pc_closing cl |}
      end
  end.

Definition flush_if_open (st : pst) (c : nat) : pst :=
  match lookup c (clients st) with
  | Some cl => if pc_open cl then flush_done st c else st
  | None => st
  end.

(* complete a request with a proxy error (finish_error of the merge model) *)
Definition fail_msg (st : pst) (mid : nat) (e : bytes) : pst :=
  match lookup mid (msgs st) with
  | Some m => set_msg st mid {| pm_client := pm_client m; pm_sm := finish_error (pm_sm m) e; pm_reqs := pm_reqs m; pm_seq := pm_seq m; pm_moved := pm_moved m; pm_route := pm_route m |}
  | None => st
  end.

Definition frag_done (st : pst) (mid : nat) (slot : N) : bool :=
  match lookup mid (msgs st) with
  | Some m => match get_frag (sm_frags (pm_sm m)) slot with Some f => sf_done f | None => true end
  | None => true
  end.

(* ---- closeConn ---- *)
Definition close_client (st : pst) (c : nat) : pst :=
  match lookup c (clients st) with
  | Some cl => if pc_open cl then set_client st c {| pc_open := false; pc_left := []; pc_queue := []; pc_got := pc_got cl; pc_sent := pc_sent cl; pc_hist := pc_hist cl; pc_closing := pc_closing cl |} else st
  | None => st
  end.

(* failFrags: every un-done request with a fragment on the closing connection gets an error *)
Fixpoint fail_frags (st : pst) (fs : list fragref) : pst :=
  match fs with
  | [] => st
  | FProbe _ :: r => fail_frags st r
  | FReq mid slot :: r =>
      if frag_done st mid slot then fail_frags st r
      else
        let st1 := fail_msg st mid ErrUnKnownProxyPoolConnError in
        let st2 := match lookup mid (msgs st1) with Some m => flush_if_open st1 (pm_client m) | None => st1 end in
        fail_frags st2 r
  end.

Definition close_server (st : pst) (s : nat) : pst :=
  match lookup s (servers st) with
  | Some sv =>
      if ps_open sv then
        let st1 := fail_frags st (ps_inq sv ++ ps_outq sv) in
        let st2 := set_inflight st1 (filter (fun p => negb (Nat.eqb (fst p) s)) (inflight st1)) in
        set_server st2 s {| ps_open := false; ps_addr := ps_addr sv; ps_slave := ps_slave sv; ps_initializing := false;
                            ps_step := (-1)%Z; ps_left := []; ps_outq := []; ps_inq := []; ps_got := ps_got sv; ps_written := ps_written sv; ps_taken := ps_taken sv |}
      else st
  | None => st
  end.

(* ---- pools ---- *)
Definition server_open (st : pst) (s : nat) : bool :=
  match lookup s (servers st) with Some sv => ps_open sv | None => false end.

Definition dial (st : pst) (p : ppool) : option (pst * nat) :=
  if pp_dialable p then
    let s := next_sid st in
    let '(hs, step) := on_s_opened (cf_password (cfg st)) (pp_slave p) in
    let sv := {| ps_open := true; ps_addr := pp_addr p; ps_slave := pp_slave p;
                 ps_initializing := match hs with [] => false | _ => true end; ps_step := step;
                 ps_left := []; ps_outq := []; ps_inq := []; ps_got := hs; ps_written := []; ps_taken := 0 |} in
    Some (bump_sid (set_server st s sv), s)
  else None.

(* the rotation loop of Pool.Get: pop from the back, drop closed connections *)
Fixpoint rotate (st : pst) (fuel : nat) (conns : list nat) : option (nat * list nat) * list nat :=
  match fuel with
  | O => (None, conns)
  | S f =>
      match rev conns with
      | [] => (None, [])
      | back :: rest_rev =>
          let rest := rev rest_rev in
          if server_open st back then (Some (back, back :: rest), back :: rest)
          else rotate st f rest
      end
  end.

Definition replace_pool (pools : list ppool) (p : ppool) : list ppool :=
  map (fun q => if beqb (pp_addr q) (pp_addr p) then p else q) pools.

Definition with_conns (p : ppool) (c : list nat) : ppool :=
  {| pp_addr := pp_addr p; pp_slave := pp_slave p; pp_conns := c; pp_closed := pp_closed p; pp_dialable := pp_dialable p |}.

Definition pool_get (st : pst) (p : ppool) : pst * option nat :=
  if pp_closed p then (st, None)
  else if (length (pp_conns p) <? cf_max_active (cfg st))%nat then
    match dial st p with
    | Some (st', s) => (set_pools st' (replace_pool (pools st') (with_conns p (s :: pp_conns p))), Some s)
    | None => (st, None)
    end
  else
    match rotate st (S (length (pp_conns p))) (pp_conns p) with
    | (Some (s, conns'), _) => (set_pools st (replace_pool (pools st) (with_conns p conns')), Some s)
    | (None, conns') =>
        match dial st p with
        | Some (st', s) => (set_pools st' (replace_pool (pools st') (with_conns p (s :: conns'))), Some s)
        | None => (set_pools st (replace_pool (pools st) (with_conns p conns')), None)
        end
    end.

Definition find_pool (st : pst) (addr : bytes) : option ppool :=
  find (fun p => beqb (pp_addr p) addr) (pools st).

Definition slot_master (st : pst) (slot : N) : option bytes :=
  match find (fun r => (fst (fst r) <=? Z.of_N slot)%Z && (Z.of_N slot <=? snd (fst r))%Z) (slots st) with
  | Some r => Some (snd r)
  | None => None
  end.

(* ---- OnCReact ---- *)
Definition enqueue_out (st : pst) (s : nat) (f : fragref) : pst :=
  match lookup s (servers st) with
  | Some sv =>
      let st1 := set_server st s {| ps_open := ps_open sv; ps_addr := ps_addr sv; ps_slave := ps_slave sv;
                                    ps_initializing := ps_initializing sv; ps_step := ps_step sv; ps_left := ps_left sv;
                                    ps_outq := ps_outq sv ++ [f]; ps_inq := ps_inq sv; ps_got := ps_got sv; ps_written := ps_written sv; ps_taken := ps_taken sv |} in
      set_tasks st1 (tasks st1 ++ [TWrite s])
  | None => st
  end.

(* ---- route: the node for every fragment ---- *)
(* listenServer.route is the function of Model/Route.v.  What it reads: the owning set of the slot
   (master from the slot table, replicas from the configured sets), which replicas have a pool, and one
   random number.  The random number is not observable; the node the run chose is (event EChoices):
   the model feeds route with the index of that node among the live replicas.  A choice route cannot
   make - a replica for a write, a node outside the set - therefore gives a different target here
   than in the run, and the correspondence breaks.  Ban flags are not modelled (the layouts with
   replica reads have only reachable replicas; C04 / C20 cover bans on the route function itself). *)
Definition has_pool (st : pst) (a : bytes) : bool := existsb (fun p => beqb (pp_addr p) a) (pools st).
Definition replicas_of (c : pcfg) (master : bytes) : list bytes :=
  match find (fun e => beqb (fst e) master) (cf_reps c) with Some e => snd e | None => [] end.
Fixpoint index_of (a : bytes) (l : list bytes) : nat :=
  match l with [] => O | x :: r => if beqb x a then O else S (index_of a r) end.
Definition chosen (st : pst) (req : bytes) : option bytes :=
  match find (fun e => beqb (fst e) req) (choices st) with Some e => Some (snd e) | None => None end.

Definition slot_target (st : pst) (ty : N) (slot : N) (req : bytes) : option bytes :=
  match slot_master st slot with
  | None => None
  | Some m =>
      match chosen st req with
      | None => Some m
      | Some a =>
          let slaves := map (fun r => {| r_addr := r; r_pool := has_pool st r; r_ban := false; r_lift_before_now := false |})
                            (replicas_of (cfg st) m) in
          let addr := fst (route (negb (cf_replica_reads (cfg st))) ty m slaves (fun _ => index_of a (live_slaves slaves))) in
          match addr with [] => None | _ => Some addr end
      end
  end.

(* the routing plan of a request: slot -> node, computed from the state in which OnCReact starts *)
Definition route_plan (st : pst) (ty : N) (body : list (N * cfrag)) : list (N * option bytes) :=
  map (fun sf => (fst sf, slot_target st ty (fst sf) (cf_req (snd sf)))) body.

(* phase 1 of OnCReact: a connection for every fragment, or the error reply *)
Fixpoint resolve (st : pst) (plan : list (N * option bytes)) : pst * (list (N * nat) + bytes) :=
  match plan with
  | [] => (st, inl [])
  | (slot, target) :: rest =>
      match target with
      | None => (st, inr ErrUnKnownSlot)
      | Some addr =>
          match find_pool st addr with
          | None => (st, inr ErrUnKnownProxyPoolError)
          | Some p =>
              match pool_get st p with
              | (st1, None) => (st1, inr ErrUnKnownProxyPoolConnError)
              | (st1, Some s) =>
                  match resolve st1 rest with
                  | (st2, inl l) => (st2, inl ((slot, s) :: l))
                  | (st2, inr e) => (st2, inr e)
                  end
              end
          end
      end
  end.

Definition local_reply (st : pst) (c : nat) (m : cmsg) (out : bytes) (close : bool) : pst :=
  match lookup c (clients st) with
  | None => st
  | Some cl =>
      let st1 :=
        match pc_queue cl with
        | [] => set_client st c {| pc_open := pc_open cl; pc_left := pc_left cl; pc_queue := []; pc_got := pc_got cl ++ out;
                                   pc_sent := S (pc_sent cl); pc_hist := pc_hist cl ++ [(pc_sent cl, out)]; pc_closing := pc_closing cl |}
        | _ =>
            let mid := next_mid st in
            let sm := {| sm_type := cm_type m; sm_keys := cm_keys m; sm_frags := []; sm_done_number := 0; sm_del_num := 0;
                         sm_done := true; sm_rsp := out; sm_error := [] |} in
            let st' := bump_mid (set_msg st mid {| pm_client := c; pm_sm := sm; pm_reqs := []; pm_seq := pc_sent cl; pm_moved := []; pm_route := [] |}) in
            set_client st' c {| pc_open := pc_open cl; pc_left := pc_left cl; pc_queue := pc_queue cl ++ [mid]; pc_got := pc_got cl;
                                pc_sent := S (pc_sent cl); pc_hist := pc_hist cl; pc_closing := pc_closing cl |}
        end in
      if close then
        match pc_queue cl with
        | [] => close_client st1 c
        | _ => match lookup c (clients st1) with
               | Some cl1 => set_client st1 c {| pc_open := pc_open cl1; pc_left := pc_left cl1; pc_queue := pc_queue cl1; pc_got := pc_got cl1;
                                                 pc_sent := pc_sent cl1; pc_hist := pc_hist cl1; pc_closing := true |}
               | None => st1
               end
        end
      else st1
  end.

Fixpoint insert_slot {A} (x : N * A) (l : list (N * A)) : list (N * A) :=
  match l with [] => [x] | y :: r => if (fst x <=? fst y) then x :: l else y :: insert_slot x r end.
Definition by_slot {A} (l : list (N * A)) : list (N * A) := fold_right insert_slot [] l.

Definition groups_for (m : cmsg) : list (N * list bytes) :=
  if (N.eqb (cm_type m) ReqMget || N.eqb (cm_type m) ReqDel || N.eqb (cm_type m) ReqMset)%bool
  then group_by Hash (fun k => k) (cm_keys m)
  else map (fun sf => (fst sf, [cf_key (snd sf)])) (cm_body m).

Definition on_request (st : pst) (c : nat) (m : cmsg) : pst :=
  let ty := cm_type m in
  if (N.eqb ty UNKNOWN || (Sentinel <=? ty))%bool then local_reply st c m ErrUnKnownCommand false
  else if N.eqb ty ReqTooLarge then local_reply st c m ErrMsgReqTooLarge false
  else if N.eqb ty ReqWrongArgumentsNumber then local_reply st c m ErrMsgReqWrongArgumentsNumber false
  else if N.eqb ty ReqPing then local_reply st c m StatusPONG false
  else if N.eqb ty ReqQuit then local_reply st c m StatusOK true
  else if N.eqb ty ReqAuth then
    match cf_password (cfg st), cm_body m with
    | [], _ => local_reply st c m ErrAuthNeedNtPassword false
    | pw, (_, f) :: _ => if beqb pw (cf_key f) then local_reply st c m StatusOK false
                         else local_reply st c m ErrAuthInvalidPassword false
    | _, [] => st
    end
  else
    match resolve st (route_plan st ty (by_slot (cm_body m))) with
    | (_, inr e) =>
        (* which connections were dialled before the failing fragment was reached depends on Go map
           iteration order; the dials are re-applied from the observed record (ensure_dials) *)
        local_reply st c m e false
    | (st1, inl targets) =>
        let mid := next_mid st1 in
        let seqno := match lookup c (clients st1) with Some cl => pc_sent cl | None => O end in
        let pm := {| pm_client := c; pm_sm := smsg_of m (groups_for m);
                     pm_reqs := map (fun sf => (fst sf, cf_req (snd sf))) (cm_body m); pm_seq := seqno; pm_moved := [];
                     pm_route := route_plan st ty (by_slot (cm_body m)) |} in
        let st2 := bump_mid (set_msg st1 mid pm) in
        let st3 := fold_left (fun s t => enqueue_out s (snd t) (FReq mid (fst t))) targets st2 in
        match lookup c (clients st3) with
        | Some cl => set_client st3 c {| pc_open := pc_open cl; pc_left := pc_left cl; pc_queue := pc_queue cl ++ [mid]; pc_got := pc_got cl;
                                         pc_sent := S (pc_sent cl); pc_hist := pc_hist cl; pc_closing := pc_closing cl |}
        | None => st3
        end
    end.

(* eventloop.read on a client: the read loop of ClientFeed, with OnCReact applied to every request *)
Fixpoint client_loop (fuel : nat) (st : pst) (c : nat) (buf : bytes) : pst :=
  match fuel with
  | O => st
  | S f =>
      match lookup c (clients st) with
      | None => st
      | Some cl =>
          if (negb (pc_open cl) || pc_closing cl)%bool then st
          else
            match decode (cf_limit (cfg st)) buf with
            | DWait => set_client st c {| pc_open := true; pc_left := buf; pc_queue := pc_queue cl; pc_got := pc_got cl; pc_sent := pc_sent cl; pc_hist := pc_hist cl; pc_closing := pc_closing cl |}
            | DClose => close_client st c
            | DCrash | DHang => st
            | DOk m n => client_loop f (on_request st c m) c (skipn n buf)
            end
      end
  end.

Definition client_data (st : pst) (c : nat) (b : bytes) : pst :=
  match lookup c (clients st) with
  | Some cl => if (pc_open cl && negb (pc_closing cl))%bool then client_loop (S (length (pc_left cl ++ b))) st c (pc_left cl ++ b) else st
  | None => st
  end.

(* ---- tasks ---- *)
Definition frag_req (st : pst) (f : fragref) : bytes :=
  match f with
  | FProbe a => if a then ReqAsking else ReqClusterNodes
  | FReq mid slot =>
      match lookup mid (msgs st) with
      | Some m => match find (fun r => N.eqb (fst r) slot) (pm_reqs m) with Some r => snd r | None => [] end
      | None => []
      end
  end.

Definition frag_slot (f : fragref) : N := match f with FReq _ s => s | FProbe _ => 0 end.
Definition frag_mid (f : fragref) : option nat := match f with FReq m _ => Some m | FProbe _ => None end.

(* the order in which the fragments of ONE request reach one connection is Go map iteration order:
   [order] lists the slots in the order observed on the wire; fragments of other requests keep
   their relative position *)
Fixpoint pos_in (s : N) (l : list N) (i : nat) : nat :=
  match l with [] => i | x :: r => if N.eqb x s then i else pos_in s r (S i) end.
Fixpoint insert_by_order (order : list N) (f : fragref) (l : list fragref) : list fragref :=
  match l with
  | [] => [f]
  | g :: r =>
      if (pos_in (frag_slot f) order 0 <=? pos_in (frag_slot g) order 0)%nat then f :: l
      else g :: insert_by_order order f r
  end.
Fixpoint same_msg_run (mid : option nat) (l : list fragref) : list fragref * list fragref :=
  match l with
  | [] => ([], [])
  | f :: r => if match mid, frag_mid f with Some a, Some b => Nat.eqb a b | _, _ => false end
              then let '(run, rest) := same_msg_run mid r in (f :: run, rest) else ([], l)
  end.
(* [order] is the list of slots in the order the fragments written in this round appear on the
   wire (one entry per fragment, probes included): each run of fragments of one request takes the
   next entries of [order] as its internal order *)
Fixpoint reorder (fuel : nat) (order : list N) (l : list fragref) : list fragref :=
  match fuel with
  | O => l
  | S k =>
      match l with
      | [] => []
      | f :: r =>
          let '(run, rest) := same_msg_run (frag_mid f) r in
          let n := S (length run) in
          fold_right (insert_by_order (firstn n order)) [] (f :: run) ++ reorder k (skipn n order) rest
      end
  end.

Definition run_task (st : pst) (order : nat -> list N) (t : ptask) : pst :=
  match t with
  | TWrite s =>
      match lookup s (servers st) with
      | Some sv =>
          if negb (ps_open sv) then st
          else match ps_outq sv with
               | [] => st
               | q =>
                   let q' := reorder (length q) (order s) q in
                   let st1 := set_server st s {| ps_open := true; ps_addr := ps_addr sv; ps_slave := ps_slave sv;
                                                 ps_initializing := ps_initializing sv; ps_step := ps_step sv; ps_left := ps_left sv;
                                                 ps_outq := []; ps_inq := ps_inq sv ++ q';
                                                 ps_got := ps_got sv ++ concat (map (frag_req st) q');
                                                 ps_written := ps_written sv ++ map (fun f => (f, frag_req st f)) q'; ps_taken := ps_taken sv |} in
                   if cf_timeout (cfg st)
                   then set_inflight st1 (inflight st1 ++ map (fun f => (s, f)) (filter (fun f => match f with FReq _ _ => true | FProbe _ => false end) q'))
                   else st1
               end
      | None => st
      end
  | TProbe s =>
      match lookup s (servers st) with
      | Some sv => if ps_open sv then enqueue_out st s (FProbe false) else st
      | None => st
      end
  | TClose s => close_server st s
  end.

(* run rounds of queued tasks until none is left (tasks may queue tasks) *)
Fixpoint run_tasks (fuel : nat) (st : pst) (order : nat -> list N) : pst :=
  match fuel with
  | O => st
  | S f =>
      match tasks st with
      | [] => st
      | t :: rest => run_tasks f (run_task (set_tasks st rest) order t) order
      end
  end.

(* ---- backend replies ---- *)
(* Frag.parseMovedOrAsk: the address in "-MOVED <slot> <addr>" / "-ASK <slot> <addr>" *)
Definition parse_moved (ty : N) (rsp : bytes) : bytes :=
  if (length rsp <? 10)%nat then []
  else
    let i := if N.eqb ty RspMoved then 7%nat else 5%nat in
    let body := firstn (length rsp - 2 - i) (skipn i rsp) in
    match split_on 32 body with
    | _ :: addr :: _ => addr
    | _ => []
    end.

(* OnMoved: re-send the fragment to the named node, or complete the request with an error *)
Definition mark_moved (st : pst) (mid : nat) (slot : N) : pst :=
  match lookup mid (msgs st) with
  | Some m => set_msg st mid {| pm_client := pm_client m; pm_sm := pm_sm m; pm_reqs := pm_reqs m; pm_seq := pm_seq m;
                                pm_moved := slot :: pm_moved m; pm_route := pm_route m |}
  | None => st
  end.

Definition on_moved (st0 : pst) (f : fragref) (mid : nat) (ty : N) (addr : bytes) : pst :=
  let st := mark_moved st0 mid (frag_slot f) in
  let fail e :=
    let st1 := fail_msg st mid e in
    match lookup mid (msgs st1) with Some m => flush_if_open st1 (pm_client m) | None => st1 end in
  match find_pool st addr with
  | None => fail ErrUnKnownProxyPoolError
  | Some p =>
      match pool_get st p with
      | (st1, Some s) =>
          (* an ASK redirect: the importing node serves the slot only to a request announced by ASKING *)
          enqueue_out (if N.eqb ty RspAsk then enqueue_out st1 s (FProbe true) else st1) s f
      | (st1, None) =>
          let st2 := fail_msg st1 mid ErrUnKnownProxyPoolConnError in
          match lookup mid (msgs st2) with Some m => flush_if_open st2 (pm_client m) | None => st2 end
      end
  end.

Definition is_auth_failure (ty : N) : bool :=
  (N.eqb ty RspNeedNtAuth || N.eqb ty RspNeedAuth || N.eqb ty RspAuthFailed)%bool.

Definition remove_first_inflight (s : nat) (f : fragref) (l : list (nat * fragref)) : list (nat * fragref) :=
  (fix go (l : list (nat * fragref)) : list (nat * fragref) :=
     match l with
     | [] => []
     | p :: r => if (Nat.eqb (fst p) s && fragref_eqb (snd p) f)%bool then r else p :: go r
     end) l.

(* one framed reply of type ty for the head of the in-flight queue of s *)
Definition on_reply (st : pst) (s : nat) (ty : N) (rsp : bytes) : result pst :=
  match lookup s (servers st) with
  | None => ROk st
  | Some sv =>
      match ps_inq sv with
      | [] => RHang (bs "reply without a request in flight (the loop continues without consuming)")
      | f :: inq' =>
          let st0 := set_inflight (set_server st s {| ps_open := ps_open sv; ps_addr := ps_addr sv; ps_slave := ps_slave sv;
                                        ps_initializing := ps_initializing sv; ps_step := ps_step sv; ps_left := ps_left sv;
                                        ps_outq := ps_outq sv; ps_inq := inq'; ps_got := ps_got sv; ps_written := ps_written sv; ps_taken := S (ps_taken sv) |})
                                  (remove_first_inflight s f (inflight st)) in
          match f with
          | FProbe _ => if is_auth_failure ty then RShutdown else ROk st0      (* handed to the topology refresh *)
          | FReq mid slot =>
              if frag_done st0 mid slot then ROk st0                          (* late reply: dropped *)
              else if (N.eqb ty RspMoved || N.eqb ty RspAsk)%bool then ROk (on_moved st0 f mid ty (parse_moved ty rsp))
              else
                match lookup mid (msgs st0) with
                | None => ROk st0
                | Some m =>
                    match merge_step Hash (cf_limit (cfg st0)) (pm_sm m) slot ty rsp with
                    | Crash w => RCrash w
                    | Hang => RHang (bs "merge")
                    | Fine None => ROk st0
                    | Fine (Some sm') =>
                        (* an authentication failure answering a client's request is that client's error;
                           it is fatal only as the answer to the handshake (connection still initializing) *)
                        if (is_auth_failure ty && ps_initializing sv)%bool then RShutdown
                        else
                          let st1 := set_msg st0 mid {| pm_client := pm_client m; pm_sm := sm'; pm_reqs := pm_reqs m; pm_seq := pm_seq m; pm_moved := pm_moved m; pm_route := pm_route m |} in
                          match lookup (pm_client m) (clients st1) with
                          | None => ROk st1
                          | Some cl =>
                              if negb (pc_open cl) then ROk st1
                              else match pc_queue cl with
                                   | [] => ROk (close_client st1 (pm_client m))
                                   | _ => ROk (flush_done st1 (pm_client m))
                                   end
                          end
                    end
                end
          end
      end
  end.

(* eventloop.read on a backend connection: handshake decoder, then one reply after the other.
   [k] is the rest of the loop (the recursive call). *)
Definition with_left (st : pst) (s : nat) (b : bytes) : pst :=
  match lookup s (servers st) with
  | Some sv => set_server st s {| ps_open := ps_open sv; ps_addr := ps_addr sv; ps_slave := ps_slave sv;
                                  ps_initializing := ps_initializing sv; ps_step := ps_step sv; ps_left := b;
                                  ps_outq := ps_outq sv; ps_inq := ps_inq sv; ps_got := ps_got sv;
                                  ps_written := ps_written sv; ps_taken := ps_taken sv |}
  | None => st
  end.

Definition decode_reply (k : pst -> nat -> bytes -> result pst) (st : pst) (s : nat) (buf : bytes) : result pst :=
  match sdecode buf with
  | SWait => ROk (with_left st s buf)
  | SSpin => RHang (bs "malformed reply from a backend (the loop continues without consuming)")
  | SHang => RHang (bs "reply decoder")
  | SReply ty n =>
      match on_reply st s ty (firstn n buf) with
      | ROk st' => k st' s (skipn n buf)
      | other => other
      end
  end.

Definition server_iter (k : pst -> nat -> bytes -> result pst) (st : pst) (s : nat) (buf : bytes) : result pst :=
  match lookup s (servers st) with
  | None => ROk st
  | Some sv =>
      if negb (ps_open sv) then ROk st
      else if ps_initializing sv then
        match init_decode (ps_step sv) buf with
        | IWait => ROk (with_left st s buf)
        | IInvalid => RHang (bs "handshake reply invalid (the loop continues without consuming)")
        | IDone n =>
            let st1 := set_server st s {| ps_open := true; ps_addr := ps_addr sv; ps_slave := ps_slave sv;
                                          ps_initializing := false; ps_step := ps_step sv; ps_left := [];
                                          ps_outq := ps_outq sv; ps_inq := ps_inq sv; ps_got := ps_got sv;
                                          ps_written := ps_written sv; ps_taken := ps_taken sv |} in
            match skipn n buf with
            | [] => ROk st1
            | rest => decode_reply k st1 s rest
            end
        | IPass => decode_reply k st s buf
        end
      else decode_reply k st s buf
  end.

Fixpoint server_loop (fuel : nat) (st : pst) (s : nat) (buf : bytes) : result pst :=
  match fuel with
  | O => ROk st
  | S f => server_iter (server_loop f) st s buf
  end.

Definition server_data (st : pst) (s : nat) (b : bytes) : result pst :=
  match lookup s (servers st) with
  | Some sv => if ps_open sv then server_loop (S (length (ps_left sv ++ b))) st s (ps_left sv ++ b) else ROk st
  | None => ROk st
  end.

(* ---- msgTimeout with every in-flight fragment expired ---- *)
Fixpoint expire (st : pst) (l : list (nat * fragref)) : pst :=
  match l with
  | [] => st
  | (_, FProbe _) :: r => expire st r
  | (_, FReq mid slot) :: r =>
      if frag_done st mid slot then expire st r
      else
        let st1 := fail_msg st mid ErrMsgRequestTimeout in
        let st2 := match lookup mid (msgs st1) with Some m => flush_if_open st1 (pm_client m) | None => st1 end in
        expire st2 r
  end.

Definition timeout_scan (st : pst) : pst := set_inflight (expire st (inflight st)) [].

(* connections dialled during a client read by requests that then failed to route: [totals] is
   the observed number of connections ever dialled per address after the event *)
Definition conns_to (st : pst) (addr : bytes) : nat :=
  length (filter (fun p => beqb (ps_addr (snd p)) addr) (servers st)).

Fixpoint dial_until (fuel : nat) (st : pst) (addr : bytes) (total : nat) : pst :=
  match fuel with
  | O => st
  | S f =>
      if (conns_to st addr <? total)%nat then
        match find_pool st addr with
        | Some p => dial_until f (fst (pool_get st p)) addr total
        | None => st
        end
      else st
  end.

Definition ensure_dials (st : pst) (totals : list (bytes * nat)) : pst :=
  fold_left (fun s t => dial_until 4 s (fst t) (snd t)) totals st.

(* ---- events ---- *)
Inductive event :=
| EConnect (c : nat) (allowed : bool)
| EClientData (c : nat) (b : bytes) (dialled : list (bytes * nat))
| ETasks (order : list (nat * list N))
| EServerData (s : nat) (b : bytes)
| EClientClose (c : nat)
| EServerClose (s : nat)
| ETimeout
| EProbe (addr : bytes)        (* the ticker's topology probe: a connection of the pool of addr *)
| ETopology (nodes : list (bytes * bool)) (newslots : list (Z * Z * bytes))
                               (* the ticker applies an adopted topology: (address, is replica) of every
                                  usable node, and the slot ranges of the masters *)
| EChoices (ch : list (bytes * bytes))
                               (* no event of the loop: the oracle for the random numbers route will draw
                                  while the next client bytes are read (see slot_target) *)
| EDialable (addr : bytes) (d : bool).
                               (* the environment: the node at addr stops / starts accepting connections *)

Definition order_fn (l : list (nat * list N)) (s : nat) : list N :=
  match lookup s l with Some o => o | None => [] end.

Definition task_fuel (st : pst) : nat := S (length (tasks st)) * 4 + 64.

(* eventloop.ticker with serverChanged: pools of nodes that disappeared are closed and forgotten, pools
   whose role changed release their connections (Pool.SetIsSlave), the slot table is rebuilt.  Closing a
   connection is a queued task (conn.Close -> Trigger).  Pools for nodes not seen before are created
   by the production code with the real dialer; the histories of the harness never add nodes. *)
Definition node_role (nodes : list (bytes * bool)) (a : bytes) : option bool :=
  match find (fun n => beqb (fst n) a) nodes with Some n => Some (snd n) | None => None end.

Definition topology_closing (nodes : list (bytes * bool)) (p : ppool) : list nat :=
  match node_role nodes (pp_addr p) with
  | None => pp_conns p
  | Some r => if Bool.eqb r (pp_slave p) then [] else pp_conns p
  end.

Definition topology_pool (nodes : list (bytes * bool)) (p : ppool) : list ppool :=
  match node_role nodes (pp_addr p) with
  | None => []
  | Some r => if Bool.eqb r (pp_slave p) then [p]
              else [{| pp_addr := pp_addr p; pp_slave := r; pp_conns := []; pp_closed := pp_closed p; pp_dialable := pp_dialable p |}]
  end.

Definition apply_topology (st : pst) (nodes : list (bytes * bool)) (newslots : list (Z * Z * bytes)) : pst :=
  {| clients := clients st; servers := servers st; msgs := msgs st;
     pools := concat (map (topology_pool nodes) (pools st)); slots := newslots;
     tasks := tasks st ++ map TClose (concat (map (topology_closing nodes) (pools st)));
     inflight := inflight st; next_mid := next_mid st; next_sid := next_sid st; cfg := cfg st; choices := choices st |}.

Definition set_dialable (st : pst) (addr : bytes) (d : bool) : pst :=
  set_pools st (map (fun p => if beqb (pp_addr p) addr
                              then {| pp_addr := pp_addr p; pp_slave := pp_slave p; pp_conns := pp_conns p; pp_closed := pp_closed p; pp_dialable := d |}
                              else p) (pools st)).

Definition step (st : pst) (e : event) : result pst :=
  match e with
  | EConnect c allowed =>
      match lookup c (clients st) with
      | Some _ => ROk st                       (* connection identifiers are never reused *)
      | None => ROk (set_client st c {| pc_open := allowed; pc_left := []; pc_queue := []; pc_got := []; pc_sent := 0; pc_hist := []; pc_closing := false |})
      end
  | EClientData c b totals => ROk (ensure_dials (client_data st c b) totals)
  | ETasks order => ROk (run_tasks (task_fuel st) st (order_fn order))
  | EServerData s b => server_data st s b
  | EClientClose c => ROk (close_client st c)
  | EServerClose s => ROk (close_server st s)
  | ETimeout => ROk (timeout_scan st)
  | EProbe addr =>
      (* OnTicker: pool.Get() of the chosen node (may dial), then WriteClusterNodes triggers a task *)
      match find_pool st addr with
      | Some p => match pool_get st p with
                  | (st1, Some s) => ROk (set_tasks st1 (tasks st1 ++ [TProbe s]))
                  | (st1, None) => ROk st1
                  end
      | None => ROk st
      end
  | ETopology nodes newslots => ROk (apply_topology st nodes newslots)
  | EChoices ch => ROk (set_choices st ch)
  | EDialable addr d => ROk (set_dialable st addr d)
  end.

Fixpoint run (st : pst) (evs : list event) : result pst :=
  match evs with
  | [] => ROk st
  | e :: r => match step st e with ROk st' => run st' r | other => other end
  end.

Definition init_state (c : pcfg) (pools : list ppool) (slots : list (Z * Z * bytes)) : pst :=
  {| clients := []; servers := []; msgs := []; pools := pools; slots := slots; tasks := []; inflight := [];
     next_mid := 0; next_sid := 0; cfg := c; choices := [] |}.
