(* Model of eventloop.cread around the client decoder: the loop that extracts as many requests
   as the buffered bytes allow, and what it leaves behind for the next read.
     for { r, err := c.cread(); ErrInvalidResp -> closeConn; err != nil -> break;
           OnCReact(r) ... action Close (QUIT) -> closeConn }
     c.inboundBuffer.Write(c.buffer)       -- the unconsumed tail is kept
   The inbound buffer content is abstract here (a byte list); that the ring/elastic buffer
   behaves as that list is property C19. *)
From RcProxy Require Import Base.Bytes Gen.Generated Model.RespBuf Model.ClientCodec.
Open Scope N_scope.

Inductive feed_end := FWait (leftover : bytes) | FClosed | FStuck.

Fixpoint extract (fuel : nat) (limit : Z) (buf : bytes) : list cmsg * feed_end :=
  match fuel with
  | O => ([], FStuck)
  | S f =>
      match decode limit buf with
      | DWait => ([], FWait buf)
      | DClose => ([], FClosed)
      | DCrash | DHang => ([], FStuck)
      | DOk m n =>
          if N.eqb (cm_type m) ReqQuit then ([m], FClosed)
          else let '(ms, e) := extract f limit (skipn n buf) in (m :: ms, e)
      end
  end.

Definition extract_all (limit : Z) (buf : bytes) := extract (S (length buf)) limit buf.

(* one read event delivering a chunk *)
Definition feed (limit : Z) (st : list cmsg * feed_end) (chunk : bytes) : list cmsg * feed_end :=
  match snd st with
  | FWait l => let '(ms, e) := extract_all limit (l ++ chunk) in (fst st ++ ms, e)
  | _ => st
  end.

Definition feed_all (limit : Z) (chunks : list bytes) : list cmsg * feed_end :=
  fold_left (feed limit) chunks ([], FWait []).
