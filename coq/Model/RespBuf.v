(* Model of core/codec/buff.go (Buffer.ReadLine, Buffer.ReadN) and core/codec.go (parseLen).
   The Go Buffer is (buf, r); here every function takes the unread rest (leftBuf) and returns the
   value together with the new rest, so ReadSize = length buf - length rest. *)
From RcProxy Require Import Base.Bytes Base.Dec.
Open Scope N_scope.

Inductive rerr := EEmptyLine | EShortLine | ELFNotFound | EInvalidResp | EBadLine | EMalformedLen.
Inductive res (A : Type) := Ok (a : A) | Err (e : rerr).
Arguments Ok {A} a.
Arguments Err {A} e.

Definition rerr_eqb (a b : rerr) : bool :=
  match a, b with
  | EEmptyLine, EEmptyLine | EShortLine, EShortLine | ELFNotFound, ELFNotFound
  | EInvalidResp, EInvalidResp | EBadLine, EBadLine | EMalformedLen, EMalformedLen => true
  | _, _ => false
  end.

(* func (b *Buffer) ReadN(n int):  leftSize < 1 -> EmptyLine;  n > leftSize -> ShortLine *)
Definition read_n (n : Z) (l : bytes) : res (bytes * bytes) :=
  match l with
  | [] => Err EEmptyLine
  | _ => if (Z.of_nat (length l) <? n)%Z then Err EShortLine
         else Ok (firstn (Z.to_nat n) l, skipn (Z.to_nat n) l)
  end.

(* func (b *Buffer) ReadLine() *)
Definition read_line (l : bytes) : res (bytes * bytes) :=
  match l with
  | [] => Err EEmptyLine
  | _ =>
    match index_byte l LF with
    | None => Err ELFNotFound
    | Some idx =>
        if (idx <? 2)%nat then Err EBadLine
        else if negb (N.eqb (nth (idx - 1) l 0) CR) then Err EInvalidResp
        else Ok (firstn (idx - 1) l, skipn (idx + 1) l)
    end
  end.

(* func parseLen(p []byte) (int, error) *)
Fixpoint parse_digits (p : bytes) (n : Z) : Z * option rerr :=
  match p with
  | [] => (n, None)
  | b :: r =>
      let n10 := wrap64 (n * 10) in
      if (b <? 48) || (57 <? b) then ((-1)%Z, Some EInvalidResp)
      else parse_digits r (wrap64 (n10 + Z.of_N (b - 48)))
  end.

Definition parse_len (p : bytes) : Z * option rerr :=
  match p with
  | [] => ((-1)%Z, Some EMalformedLen)
  | b0 :: _ =>
      if beqb p [45; 49] then ((-1)%Z, None)
      else if ((1 <? length p)%nat && (b0 =? 48)) || (18 <? length p)%nat
           then ((-1)%Z, Some EInvalidResp)
           else parse_digits p 0%Z
  end.
