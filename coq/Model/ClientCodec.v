(* Model of core/codec_c.go: CRespCodec.Decode, parseLine, Frag1, Frag2, Eval, Default,
   MGet, Del, MSet — the client-side request decoder and multi-key splitter. *)
From RcProxy Require Import Base.Bytes Base.Dec Gen.Generated Spec.RespGrammar Model.RespBuf Model.Commands Model.Crc16.
Open Scope N_scope.

Record cfrag := { cf_key : bytes; cf_req : bytes }.
Record cmsg := { cm_type : N; cm_keys : list bytes; cm_body : list (N * cfrag) }.

(* what eventloop.cread does with Decode's (msg, err):
     err == ErrInvalidResp -> close the client;  other err -> wait for more bytes;
     (nil, nil) -> nil dereference in OnCReact (process dies);  (msg, nil) -> OnCReact *)
Inductive dec_out := DWait | DClose | DCrash | DHang | DOk (m : cmsg) (consumed : nat).

Definition is_some {A} (o : option A) : bool := match o with Some _ => true | None => false end.

(* func (rc *CRespCodec) parseLine(buf) *)
Definition parse_line (l : bytes) : res (bytes * bytes) :=
  match read_line l with
  | Err EBadLine => Err EInvalidResp
  | Err e => Err e
  | Ok (line, rest) =>
      match line with
      | [] => Err EInvalidResp
      | m :: digits =>
        if negb (N.eqb m 36) (* '$' *) then Err EInvalidResp else
          let '(n, err) := parse_len digits in
          if ((n <? 0)%Z || is_some err)%bool then Err EInvalidResp
          else match read_n n rest with
               | Err e => Err e
               | Ok (b, rest1) =>
                   match read_n 2 rest1 with
                   | Err _ => Err EShortLine
                   | Ok (cr, rest2) => if beqb cr crlf then Ok (b, rest2) else Err EInvalidResp
                   end
               end
      end
  end.

(* the "for i := 0; i < n; i++ { parseLine }" loops; fuel = bytes available (each successful
   parseLine consumes at least one byte, an exhausted buffer yields EmptyLine) *)
Fixpoint parse_args (fuel : nat) (n : Z) (l : bytes) : option (res (list bytes * bytes)) :=
  if (n <=? 0)%Z then Some (Ok ([], l))
  else match fuel with
       | O => None
       | S f =>
           match parse_line l with
           | Err e => Some (Err e)
           | Ok (a, rest) =>
               match parse_args f (n - 1) rest with
               | Some (Ok (args, rest')) => Some (Ok (a :: args, rest'))
               | other => other
               end
           end
       end.

(* grouping by slot, groups in order of first appearance (the Go map has no order; consumers
   of this list must not depend on it) *)
Fixpoint group_add {A} (slot : N) (x : A) (g : list (N * list A)) : list (N * list A) :=
  match g with
  | [] => [(slot, [x])]
  | (s, xs) :: r => if N.eqb s slot then (s, xs ++ [x]) :: r else (s, xs) :: group_add slot x r
  end.

Definition group_by {A} (slotf : bytes -> N) (key : A -> bytes) (items : list A) : list (N * list A) :=
  fold_left (fun g x => group_add (slotf (key x)) x g) items [].

Fixpoint pairs (l : list bytes) : list (bytes * bytes) :=
  match l with
  | k :: v :: r => (k, v) :: pairs r
  | _ => []
  end.

(* the per-key loop body '$' Itoa(len(k)) CRLF k CRLF is Spec.RespGrammar.enc_bulk *)
(* CRespCodec.MGet / Del: '*' Itoa(len(keys)+1) "\r\n$<len(name)>\r\n<name>\r\n" then each key *)
Definition frag1_req (name : bytes) (keys : list bytes) : bytes :=
  [42] ++ itoa_nat (length keys + 1) ++ crlf ++ enc_bulk name ++ concat (map enc_bulk keys).

Definition frag2_req (kvs : list (bytes * bytes)) : bytes :=
  [42] ++ itoa_nat (length kvs * 2 + 1) ++ crlf ++ enc_bulk (bs "mset")
       ++ concat (map (fun kv => enc_bulk (fst kv) ++ enc_bulk (snd kv)) kvs).

Definition hd_key (keys : list bytes) : bytes := match keys with k :: _ => k | [] => [] end.

Definition build (ty0 : N) (nargs : Z) (args : list bytes) (req : bytes) : N * list bytes * list (N * cfrag) :=
  if N.eqb ty0 ReqMget then
    (ty0, args, map (fun g => (fst g, {| cf_key := hd_key (snd g); cf_req := frag1_req (bs "mget") (snd g) |}))
                    (group_by Hash (fun k => k) args))
  else if N.eqb ty0 ReqDel then
    (ty0, args, map (fun g => (fst g, {| cf_key := hd_key (snd g); cf_req := frag1_req (bs "del") (snd g) |}))
                    (group_by Hash (fun k => k) args))
  else if N.eqb ty0 ReqMset then
    (ty0, map fst (pairs args),
     map (fun g => (fst g, {| cf_key := match snd g with kv :: _ => fst kv | [] => [] end;
                              cf_req := frag2_req (snd g) |}))
         (group_by Hash (fun kv : bytes * bytes => fst kv) (pairs args)))
  else if (N.eqb ty0 ReqEval || N.eqb ty0 ReqEvalsha)%bool then
    let key := nth 2 args [] in
    ((if (nargs <? 3)%Z then ReqWrongArgumentsNumber else ty0), [],
     [(Hash key, {| cf_key := key; cf_req := req |})])
  else
    let key := nth 0 args [] in
    (ty0, [], [(Hash key, {| cf_key := key; cf_req := req |})]).

(* func (rc *CRespCodec) Decode(c CConn), returning (msg, error), composed with cread's classification *)
Definition decode (limit : Z) (b : bytes) : dec_out :=
  match b with
  | [] => DWait
  | _ =>
    match read_line b with
    | Err EInvalidResp | Err EBadLine => DClose
    | Err _ => DWait
    | Ok (line, rest) =>
        match line with
        | [] => DClose
        | m :: digits =>
          if negb (N.eqb m 42) (* '*' *) then DClose else
            let '(n, err) := parse_len digits in
            if ((n <? 1)%Z || is_some err)%bool then DClose
            else
              match parse_line rest with
              | Err EInvalidResp => DClose
              | Err _ => DWait
              | Ok (name, rest1) =>
                  let nargs := (n - 1)%Z in
                  let ty0 := transform2type name nargs in
                  match parse_args (S (length rest1)) nargs rest1 with
                  | None => DHang
                  | Some (Err EInvalidResp) => DClose
                  | Some (Err _) => DWait
                  | Some (Ok (args, rest2)) =>
                      let consumed := (length b - length rest2)%nat in
                      (* Transform2Type lower-cases the command name in place in the buffer *)
                      let off := (length b - length rest1 - 2 - length name)%nat in
                      let req := firstn off b ++ to_lower name ++ skipn (off + length name) (firstn consumed b) in
                      let '(ty1, keys, body) := build ty0 nargs args req in
                      let ty := if (limit <? Z.of_nat consumed)%Z then ReqTooLarge else ty1 in
                      DOk {| cm_type := ty; cm_keys := keys; cm_body := body |} consumed
                  end
              end
        end
    end
  end.
