(* Model of core/authip/authip.go (ipMap, parseAuthIp, Validate, the reload event filter) and of
   OnCOpened in core/server/server_c.go. *)
From RcProxy Require Import Base.Bytes.
Open Scope N_scope.

Record ipmap := { im_enable : bool; im_ips : list bytes }.
Definition ipmap0 : ipmap := {| im_enable := false; im_ips := [] |}.

Definition memb (x : bytes) (l : list bytes) : bool := existsb (beqb x) l.

(* parseAuthIp on a successfully parsed file (enable, ip_white_list):
     insert every listed address; delete every member that is not listed; set the flag *)
Definition insert_all (ips listed : list bytes) : list bytes :=
  fold_left (fun acc ip => if memb ip acc then acc else acc ++ [ip]) listed ips.

Definition parse_auth_ip (m : ipmap) (v : bool * list bytes) : ipmap :=
  {| im_enable := fst v;
     im_ips := filter (fun ip => memb ip (snd v)) (insert_all (im_ips m) (snd v)) |}.

(* func (i *ipMap) Validate(ip string) bool *)
Definition validate (m : ipmap) (ip : bytes) : bool :=
  if im_enable m then memb ip (im_ips m) else true.

(* strings.Split(c.RemoteAddr(), ":")[0] *)
Fixpoint before_colon (s : bytes) : bytes :=
  match s with
  | [] => []
  | c :: r => if N.eqb c 58 then [] else c :: before_colon r
  end.

(* OnCOpened: true = serve the connection, false = (nil, Close) *)
Definition on_c_opened (m : ipmap) (remote : bytes) : bool := validate m (before_colon remote).

(* the reload filter of watchYml: fsnotify.Op bits Create=1 Write=2 Remove=4 Rename=8 Chmod=16 *)
Definition should_reload (same_name : bool) (op : N) : bool :=
  same_name && (N.testbit op 1 || N.testbit op 0 || N.testbit op 3).
