(* A second, faster evaluation of the client decoder model of Model/ClientCodec.v.

   `read_n` measures the whole remaining buffer (`length l`, a unary number) for every bulk
   string it reads, so `decode` is quadratic in the size of the request: a request with more
   keys than there are slots (16385+) costs the extracted model minutes.  `take_z` walks only
   over the bytes it takes.  Proofs/ClientCodecFastProofs.v proves `decode_fast = decode`
   for every input, so the correspondence run may evaluate either; it evaluates this one. *)
From RcProxy Require Import Base.Bytes Base.Dec Gen.Generated Spec.RespGrammar Model.RespBuf Model.Commands Model.Crc16 Model.ClientCodec.
Open Scope N_scope.

(* the first n bytes of l and what follows them; None when l has fewer than n bytes *)
Fixpoint take_z (n : Z) (l : bytes) : option (bytes * bytes) :=
  if (n <=? 0)%Z then Some ([], l)
  else match l with
       | [] => None
       | x :: r => match take_z (n - 1) r with
                   | Some (a, b) => Some (x :: a, b)
                   | None => None
                   end
       end.

Definition read_n_fast (n : Z) (l : bytes) : res (bytes * bytes) :=
  match l with
  | [] => Err EEmptyLine
  | _ => match take_z n l with
         | None => Err EShortLine
         | Some ab => Ok ab
         end
  end.

Definition parse_line_fast (l : bytes) : res (bytes * bytes) :=
  match read_line l with
  | Err EBadLine => Err EInvalidResp
  | Err e => Err e
  | Ok (line, rest) =>
      match line with
      | [] => Err EInvalidResp
      | m :: digits =>
        if negb (N.eqb m 36) then Err EInvalidResp else
          let '(n, err) := parse_len digits in
          if ((n <? 0)%Z || is_some err)%bool then Err EInvalidResp
          else match read_n_fast n rest with
               | Err e => Err e
               | Ok (b, rest1) =>
                   match read_n_fast 2 rest1 with
                   | Err _ => Err EShortLine
                   | Ok (cr, rest2) => if beqb cr crlf then Ok (b, rest2) else Err EInvalidResp
                   end
               end
      end
  end.

Fixpoint parse_args_fast (fuel : nat) (n : Z) (l : bytes) : option (res (list bytes * bytes)) :=
  if (n <=? 0)%Z then Some (Ok ([], l))
  else match fuel with
       | O => None
       | S f =>
           match parse_line_fast l with
           | Err e => Some (Err e)
           | Ok (a, rest) =>
               match parse_args_fast f (n - 1) rest with
               | Some (Ok (args, rest')) => Some (Ok (a :: args, rest'))
               | other => other
               end
           end
       end.

(* grouping by slot with the groups kept newest-first while they are built (no `xs ++ [x]`) *)
Fixpoint group_add_rev {A} (slot : N) (x : A) (g : list (N * list A)) : list (N * list A) :=
  match g with
  | [] => [(slot, [x])]
  | (s, xs) :: r => if N.eqb s slot then (s, x :: xs) :: r else (s, xs) :: group_add_rev slot x r
  end.

Definition group_by_fast {A} (slotf : bytes -> N) (key : A -> bytes) (items : list A) : list (N * list A) :=
  map (fun g => (fst g, rev (snd g)))
      (fold_left (fun g x => group_add_rev (slotf (key x)) x g) items []).

Definition build_fast (ty0 : N) (nargs : Z) (args : list bytes) (req : bytes) : N * list bytes * list (N * cfrag) :=
  if N.eqb ty0 ReqMget then
    (ty0, args, map (fun g => (fst g, {| cf_key := hd_key (snd g); cf_req := frag1_req (bs "mget") (snd g) |}))
                    (group_by_fast Hash (fun k => k) args))
  else if N.eqb ty0 ReqDel then
    (ty0, args, map (fun g => (fst g, {| cf_key := hd_key (snd g); cf_req := frag1_req (bs "del") (snd g) |}))
                    (group_by_fast Hash (fun k => k) args))
  else if N.eqb ty0 ReqMset then
    (ty0, map fst (pairs args),
     map (fun g => (fst g, {| cf_key := match snd g with kv :: _ => fst kv | [] => [] end;
                              cf_req := frag2_req (snd g) |}))
         (group_by_fast Hash (fun kv : bytes * bytes => fst kv) (pairs args)))
  else build ty0 nargs args req.

Definition decode_fast (limit : Z) (b : bytes) : dec_out :=
  match b with
  | [] => DWait
  | _ =>
    match read_line b with
    | Err EInvalidResp | Err EBadLine => DClose
    | Err _ => DWait
    | Ok (line, rest) =>
        match line with
        | [] => DClose
        | m :: digits =>
          if negb (N.eqb m 42) then DClose else
            let '(n, err) := parse_len digits in
            if ((n <? 1)%Z || is_some err)%bool then DClose
            else
              match parse_line_fast rest with
              | Err EInvalidResp => DClose
              | Err _ => DWait
              | Ok (name, rest1) =>
                  let nargs := (n - 1)%Z in
                  let ty0 := transform2type name nargs in
                  match parse_args_fast (S (length rest1)) nargs rest1 with
                  | None => DHang
                  | Some (Err EInvalidResp) => DClose
                  | Some (Err _) => DWait
                  | Some (Ok (args, rest2)) =>
                      let consumed := (length b - length rest2)%nat in
                      let off := (length b - length rest1 - 2 - length name)%nat in
                      let req := firstn off b ++ to_lower name ++ skipn (off + length name) (firstn consumed b) in
                      let '(ty1, keys, body) := build_fast ty0 nargs args req in
                      let ty := if (limit <? Z.of_nat consumed)%Z then ReqTooLarge else ty1 in
                      DOk {| cm_type := ty; cm_keys := keys; cm_body := body |} consumed
                  end
              end
        end
    end
  end.
