(* Model of the outbound side of a connection: conn.write / conn.writev (core/connection.go) and
   eventloop.write (core/eventloop.go) over the ring-then-list outbound buffer (C19 "users", C02
   "also when the client reads slowly").  The kernel is an oracle: each write(2) / writev(2)
   accepts some number of the bytes offered (0 = EAGAIN), given with the operation.  Hard socket
   errors close the connection and are not part of this model. *)
From RcProxy Require Import Base.Bytes Gen.Generated Model.Buffers.
From Coq Require Import Arith.
Local Open Scope nat_scope.

Record cout := { co_sock : bytes;       (* everything the kernel has accepted so far, in order *)
                 co_buf : ebuf }.       (* the backlog *)

(* the leftover computation of writev after the kernel took [sent] bytes *)
Fixpoint drop_bytes (sent : nat) (bs : list bytes) : list bytes :=
  match bs with
  | [] => []
  | b :: r => if sent <? length b then skipn sent b :: r else drop_bytes (sent - length b) r
  end.

Definition accept (offered k : nat) : nat := Nat.min k offered.

(* conn.write(data); cap0 = capacity of the pooled ring if this call takes one *)
Definition co_write (c : cout) (cap0 : nat) (data : bytes) (k : nat) : cout :=
  if negb (eb_is_empty (co_buf c)) then {| co_sock := co_sock c; co_buf := eb_write (co_buf c) cap0 data |}
  else
    let sent := accept (length data) k in
    {| co_sock := co_sock c ++ firstn sent data;
       co_buf := if sent <? length data then eb_write (co_buf c) cap0 (skipn sent data) else co_buf c |}.

(* conn.writev(bs) *)
Definition co_writev (c : cout) (cap0 : nat) (bs : list bytes) (k : nat) : cout :=
  if negb (eb_is_empty (co_buf c)) then {| co_sock := co_sock c; co_buf := eb_writev (co_buf c) cap0 bs |}
  else
    let n := length (concat bs) in
    let sent := accept n k in
    {| co_sock := co_sock c ++ firstn sent (concat bs);
       co_buf := if sent <? n then eb_writev (co_buf c) cap0 (drop_bytes sent bs) else co_buf c |}.

(* eventloop.write on a writable event: Peek(-1), at most iovMax slices, one writev, Discard *)
Definition co_flush (c : cout) (k : nat) : cout :=
  let iov := firstn (N.to_nat iovMax) (filter (fun b => negb (length b =? 0)) (eb_peek (co_buf c) false 0)) in
  let offered := concat iov in
  let sent := accept (length offered) k in
  {| co_sock := co_sock c ++ firstn sent offered; co_buf := snd (eb_discard (co_buf c) sent) |}.

Inductive coop := CWrite (cap0 : nat) (data : bytes) (k : nat) | CWritev (cap0 : nat) (bs : list bytes) (k : nat) | CFlush (k : nat).

Definition co_step (c : cout) (op : coop) : cout :=
  match op with
  | CWrite cap0 d k => co_write c cap0 d k
  | CWritev cap0 bs k => co_writev c cap0 bs k
  | CFlush k => co_flush c k
  end.

Definition co_data (op : coop) : bytes :=
  match op with CWrite _ d _ => d | CWritev _ bs _ => concat bs | CFlush _ => [] end.
