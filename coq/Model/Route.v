(* Model of core/server/server_c.go: route (choice of the node for a request), and of
   core/server/server_s.go: OnSOpened (the handshake sent on a new backend connection). *)
From RcProxy Require Import Base.Bytes Base.Dec Gen.Generated Spec.RespGrammar.
Open Scope N_scope.

(* what route reads of a replica: does a pool exist, is it flagged banned, and is the time the
   ban lifts already in the past (LiftBanTime.Before(now)) *)
Record replica := { r_addr : bytes; r_pool : bool; r_ban : bool; r_lift_before_now : bool }.

(* the loop body: "pool missing -> skip; banned and lift time passed -> skip; else append
   (clearing the flag)" *)
Definition live (r : replica) : bool :=
  r_pool r && negb (r_ban r && r_lift_before_now r).

Definition live_slaves (slaves : list replica) : list bytes := map r_addr (filter live slaves).

(* rand_intn n models rand.Intn(n) for the one call route makes *)
Definition route (disable_slave : bool) (ty : N) (master : bytes) (slaves : list replica)
                 (rand_intn : nat -> nat) : bytes * bool :=
  if disable_slave then (master, false)
  else if ReqWriteCmdStart <? ty then (master, false)
  else if (N.eqb ty ReqHscan || N.eqb ty ReqSscan || N.eqb ty ReqZscan)%bool then (master, false)
  else
    let ls := live_slaves slaves in
    match ls with
    | [] => (master, false)
    | _ => (nth (rand_intn (length ls)) ls [], true)
    end.

(* side effect of route on the ban flags: every replica that was appended has its flag cleared *)
Definition route_clears (slaves : list replica) : list replica :=
  map (fun r => if live r then {| r_addr := r_addr r; r_pool := r_pool r; r_ban := false;
                                  r_lift_before_now := r_lift_before_now r |} else r) slaves.

(* OnSOpened: AUTH when a password is configured, READONLY on a replica connection *)
Definition auth_cmd (password : bytes) : bytes :=
  bs "*2" ++ crlf ++ bs "$4" ++ crlf ++ bs "auth" ++ crlf ++ [36] ++ itoa_nat (length password) ++ crlf ++ password ++ crlf.

Definition on_s_opened (password : bytes) (is_slave : bool) : bytes * Z :=
  let a := match password with [] => [] | _ => auth_cmd password end in
  let r := if is_slave then ReadOnly else [] in
  (a ++ r, (match password with [] => 0 | _ => 1 end + (if is_slave then 1 else 0))%Z).
