(* Proofs: the table-driven 32-bit loop of hashkit.hash computes CRC16/XMODEM, and Hash
   implements the hash-tag rule; hence Hash = key_slot for every byte string. *)
From RcProxy Require Import Base.Bytes Gen.Generated Spec.KeySlot Model.Crc16.
Open Scope N_scope.

(* ---------- bit-level helper lemmas ---------- *)
Lemma tb_land_ones x n i : N.testbit (N.land x (N.ones n)) i = N.testbit x i && (i <? n).
Proof.
  rewrite N.land_spec. destruct (N.ltb_spec i n) as [H|H].
  - rewrite N.ones_spec_low by assumption. reflexivity.
  - rewrite N.ones_spec_high by assumption. reflexivity.
Qed.

Lemma tb_shiftl x n i : N.testbit (N.shiftl x n) i = (n <=? i) && N.testbit x (i - n).
Proof.
  destruct (N.leb_spec n i) as [H|H].
  - rewrite N.shiftl_spec_high' by assumption. reflexivity.
  - rewrite N.shiftl_spec_low by assumption. reflexivity.
Qed.

Lemma tb_shiftr x n i : N.testbit (N.shiftr x n) i = N.testbit x (i + n).
Proof. apply N.shiftr_spec'. Qed.

Lemma tb_small x n i : x < 2 ^ n -> n <= i -> N.testbit x i = false.
Proof.
  intros Hx Hi. rewrite <- (N.mod_small x (2 ^ n)) by assumption.
  apply N.mod_pow2_bits_high. assumption.
Qed.

Lemma lt_pow2_bits x n : (forall i, n <= i -> N.testbit x i = false) -> x < 2 ^ n.
Proof.
  intro H. destruct (N.eq_dec x 0) as [->|Hx]; [apply N.neq_0_lt_0; apply N.pow_nonzero; discriminate|].
  apply N.log2_lt_pow2; [lia|].
  destruct (N.lt_ge_cases (N.log2 x) n) as [Hl|Hl]; [assumption|].
  specialize (H (N.log2 x) Hl). rewrite N.bit_log2 in H by assumption. discriminate.
Qed.

Lemma lxor_lt_pow2 a b n : a < 2 ^ n -> b < 2 ^ n -> N.lxor a b < 2 ^ n.
Proof.
  intros Ha Hb. apply lt_pow2_bits. intros i Hi.
  rewrite N.lxor_spec, (tb_small a n i), (tb_small b n i) by assumption. reflexivity.
Qed.

Lemma land_ones_lt x n : N.land x (N.ones n) < 2 ^ n.
Proof. rewrite N.land_ones. apply N.mod_lt. apply N.pow_nonzero. discriminate. Qed.

(* ---------- the shift register stays within 16 bits ---------- *)
Lemma crc_shift_lt x : crc_shift x < 2 ^ 16.
Proof.
  unfold crc_shift. change 65535 with (N.ones 16).
  destruct (N.testbit x 15).
  - apply lxor_lt_pow2; [apply land_ones_lt | reflexivity].
  - apply land_ones_lt.
Qed.

(* ---------- finite sweeps (bounds stated) ---------- *)
Definition range (n : nat) : list N := map N.of_nat (seq 0 n).

Lemma in_range x n : x < N.of_nat n -> In x (range n).
Proof.
  intro H. unfold range. apply in_map_iff. exists (N.to_nat x). split; [lia|].
  apply in_seq. lia.
Qed.

Lemma sweep1 (f : N -> bool) n :
  forallb f (range n) = true -> forall x, x < N.of_nat n -> f x = true.
Proof. intros H x Hx. rewrite forallb_forall in H. apply H, in_range, Hx. Qed.

Lemma sweep2 (f : N -> N -> bool) n m :
  forallb (fun x => forallb (f x) (range m)) (range n) = true ->
  forall x y, x < N.of_nat n -> y < N.of_nat m -> f x y = true.
Proof.
  intros H x y Hx Hy. apply (sweep1 _ n) with (x := x) in H; [|exact Hx].
  apply (sweep1 _ m) with (x := y) in H; [exact H | exact Hy].
Qed.

(* every one of the 256 table entries equals the bit-serial CRC of its index placed in the
   top byte; and a low byte simply moves up.  256 x 256 = 65536 evaluations. *)
Definition sweep_f (x lo : N) : bool :=
  N.eqb (iter 8 crc_shift (N.lor (N.shiftl x 8) lo))
        (N.lxor (nth (N.to_nat x) crc16tab 0) (N.shiftl lo 8)).

Lemma sweep_ok_true : forallb (fun x => forallb (sweep_f x) (range 256)) (range 256) = true.
Proof. vm_compute. reflexivity. Qed.

Lemma table_step x lo : x < 256 -> lo < 256 ->
  iter 8 crc_shift (N.lor (N.shiftl x 8) lo) = N.lxor (nth (N.to_nat x) crc16tab 0) (N.shiftl lo 8).
Proof.
  intros Hx Hl. apply N.eqb_eq. change (sweep_f x lo = true).
  apply (sweep2 sweep_f 256 256 sweep_ok_true); assumption.
Qed.

Definition table_bound_ok : bool :=
  (length crc16tab =? 256)%nat && forallb (fun v => v <? 65536) crc16tab.
Lemma table_bound_ok_true : table_bound_ok = true.
Proof. vm_compute. reflexivity. Qed.

Lemma table_entry_lt x : nth x crc16tab 0 < 2 ^ 16.
Proof.
  pose proof table_bound_ok_true as H. unfold table_bound_ok in H.
  apply andb_true_iff in H as [_ H]. rewrite forallb_forall in H.
  destruct (nth_in_or_default x crc16tab 0) as [Hin|Hd]; [|rewrite Hd; reflexivity].
  apply H in Hin. apply N.ltb_lt in Hin. exact Hin.
Qed.

(* the table is exactly the CRC16/XMODEM table: entry i = CRC of the single byte i *)
Theorem crc16tab_is_xmodem :
  forall i, i < 256 -> nth (N.to_nat i) crc16tab 0 = crc16_bits [i].
Proof.
  intros i Hi. change (crc16_bits [i]) with (crc_byte 0 i). unfold crc_byte.
  rewrite N.lxor_0_l. rewrite <- (N.lor_0_r (N.shiftl i 8)).
  rewrite table_step by (assumption || reflexivity).
  rewrite N.shiftl_0_l, N.lxor_0_r. reflexivity.
Qed.

(* ---------- one loop iteration: 32-bit table step = bit-serial step on the low 16 bits ---------- *)
Lemma step_refines crc b : b < 256 ->
  N.land (hash_step crc b) (N.ones 16) = crc_byte (N.land crc (N.ones 16)) b.
Proof.
  intro Hb. set (c := N.land crc (N.ones 16)).
  set (x := N.lxor (N.shiftr c 8) b). set (lo := N.land c (N.ones 8)).
  assert (Hx : x < 2 ^ 8).
  { apply lxor_lt_pow2; [|exact Hb]. apply lt_pow2_bits. intros i Hi.
    rewrite tb_shiftr. unfold c. rewrite tb_land_ones.
    destruct (N.ltb_spec (i + 8) 16); [lia|]. apply andb_false_r. }
  assert (Hlo : lo < 2 ^ 8) by apply land_ones_lt.
  (* the table index *)
  assert (Hidx : N.land (N.lxor (N.shiftr crc 8) b) 255 = x).
  { change 255 with (N.ones 8). apply N.bits_inj. intro i.
    rewrite tb_land_ones. unfold x. rewrite !N.lxor_spec, !tb_shiftr. unfold c. rewrite tb_land_ones.
    destruct (N.ltb_spec i 8) as [H|H].
    - destruct (N.ltb_spec (i + 8) 16); [|lia]. rewrite !andb_true_r. reflexivity.
    - destruct (N.ltb_spec (i + 8) 16); [lia|]. rewrite !andb_false_r.
      rewrite (tb_small b 8 i) by assumption. reflexivity. }
  (* the register after xoring the byte in *)
  assert (Hreg : N.lxor c (N.shiftl b 8) = N.lor (N.shiftl x 8) lo).
  { apply N.bits_inj. intro i.
    rewrite N.lxor_spec, N.lor_spec, !tb_shiftl. unfold x, lo.
    rewrite N.lxor_spec, tb_shiftr, tb_land_ones.
    destruct (N.leb_spec 8 i) as [H|H]; simpl.
    - replace (i - 8 + 8) with i by lia. destruct (N.ltb_spec i 8); [lia|].
      rewrite andb_false_r, orb_false_r. reflexivity.
    - destruct (N.ltb_spec i 8); [|lia]. rewrite andb_true_r, xorb_false_r. reflexivity. }
  unfold crc_byte. rewrite Hreg, table_step by assumption.
  unfold hash_step, u32. rewrite Hidx. change 4294967295 with (N.ones 32).
  set (T := nth (N.to_nat x) crc16tab 0). assert (HT : T < 2 ^ 16) by apply table_entry_lt.
  apply N.bits_inj. intro i.
  rewrite tb_land_ones, !N.lxor_spec, tb_land_ones, !tb_shiftl. unfold lo, c. rewrite !tb_land_ones.
  destruct (N.ltb_spec i 16) as [H16|H16].
  - rewrite andb_true_r. destruct (N.ltb_spec i 32); [|lia]. rewrite andb_true_r.
    rewrite xorb_comm. f_equal.
    destruct (N.leb_spec 8 i) as [H8|H8]; simpl; [|reflexivity].
    destruct (N.ltb_spec (i - 8) 16); [|lia]. destruct (N.ltb_spec (i - 8) 8); [|lia].
    rewrite !andb_true_r. reflexivity.
  - rewrite andb_false_r. rewrite (tb_small T 16 i) by assumption.
    destruct (N.leb_spec 8 i); [|lia]. simpl.
    destruct (N.ltb_spec (i - 8) 8); [lia|]. rewrite !andb_false_r. reflexivity.
Qed.

Lemma fold_refines k : wf_bytes k -> forall crc,
  N.land (fold_left hash_step k crc) (N.ones 16) = fold_left crc_byte k (N.land crc (N.ones 16)).
Proof.
  induction 1 as [|b k Hb Hk IH]; intro crc; simpl; [reflexivity|].
  rewrite IH, step_refines by exact Hb. reflexivity.
Qed.

Lemma slots_is_16384 : RedisClusterSlots = 16384.
Proof. reflexivity. Qed.

Theorem hash_eq_crc16 k : wf_bytes k -> hash k = crc16_bits k mod 16384.
Proof.
  intro Hk. unfold hash, hash_crc, crc16_bits. rewrite slots_is_16384.
  pose proof (fold_refines k Hk 0) as H. rewrite N.land_0_l in H. rewrite <- H.
  rewrite N.land_ones. change (2 ^ 16) with (16384 * 4).
  rewrite N.mod_mul_r by discriminate.
  rewrite N.mul_comm, N.mod_add by discriminate. rewrite N.mod_mod by discriminate. reflexivity.
Qed.

(* ---------- hash tag rule ---------- *)
Lemma wf_firstn n k : wf_bytes k -> wf_bytes (firstn n k).
Proof.
  intro H. apply Forall_forall. intros x Hx.
  unfold wf_bytes in H. rewrite Forall_forall in H. apply H.
  rewrite <- (firstn_skipn n k). apply in_or_app. left. exact Hx.
Qed.
Lemma wf_skipn n k : wf_bytes k -> wf_bytes (skipn n k).
Proof.
  intro H. apply Forall_forall. intros x Hx.
  unfold wf_bytes in H. rewrite Forall_forall in H. apply H.
  rewrite <- (firstn_skipn n k). apply in_or_app. right. exact Hx.
Qed.

Lemma Hash_tag k : exists t, (t = k \/ t = hashtag k) /\ Hash k = hash (hashtag k).
Proof.
  exists (hashtag k). split; [right; reflexivity|].
  unfold Hash, hashtag. destruct k as [|b k']; [reflexivity|].
  set (k := b :: k'). destruct (index_byte k 123) as [s|]; [|reflexivity].
  replace (s + 1)%nat with (S s) by lia.
  destruct (index_byte (skipn (S s) k) 125) as [e|]; [|reflexivity].
  destruct e as [|e]; [reflexivity|].
  replace (S s + S e - S s)%nat with (S e) by lia. reflexivity.
Qed.

Theorem Hash_eq_key_slot k : wf_bytes k -> Hash k = key_slot k.
Proof.
  intro Hk. destruct (Hash_tag k) as (t & _ & ->). unfold key_slot.
  apply hash_eq_crc16. unfold hashtag.
  destruct (index_byte k 123); [|exact Hk].
  destruct (index_byte (skipn (S n) k) 125) as [[|e]|]; try exact Hk.
  apply wf_firstn, wf_skipn, Hk.
Qed.

Theorem Hash_lt k : Hash k < 16384.
Proof.
  assert (H: forall x, hash x < 16384) by (intro x; unfold hash; apply N.mod_lt; discriminate).
  unfold Hash. destruct k; [apply H|].
  destruct (index_byte _ 123); [|apply H].
  destruct (index_byte _ 125); [|apply H].
  destruct (_ <? _)%nat; apply H.
Qed.
