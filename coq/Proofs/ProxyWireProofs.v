(* Identity of what is on the wire (C03 ingredient): in every reachable state, every request
   written to a backend connection is the request bytes of the fragment recorded with it, and that
   fragment belongs to a request that exists, whose owner, position and per-slot requests never
   change.  Together with SInv (ProxyServerProofs) this gives: the i-th reply consumed on a
   connection is merged into the request one of whose fragments was the i-th request on the wire. *)
From RcProxy Require Import Base.Bytes Base.Dec Gen.Generated Spec.RespGrammar
  Model.RespBuf Model.Commands Model.Crc16 Model.ClientCodec Model.ClientFeed Model.ServerCodec Model.Route
  Model.Cluster Model.Proxy Proofs.ProxyProofs Proofs.ProxyServerProofs.
From Coq Require Import ZifyN ZifyNat ZifyBool.
Open Scope N_scope.

Definition msg_ext (a b : list (nat * pmsg)) : Prop :=
  forall mid m, lookup mid a = Some m ->
    exists m', lookup mid b = Some m' /\ pm_reqs m' = pm_reqs m /\ pm_client m' = pm_client m /\ pm_seq m' = pm_seq m /\ pm_route m' = pm_route m.

Definition bounded (st : pst) : Prop := forall mid m, lookup mid (msgs st) = Some m -> (mid < next_mid st)%nat.

Definition frag_known (st : pst) (f : fragref) : Prop :=
  match f with FProbe _ => True | FReq mid _ => exists m, lookup mid (msgs st) = Some m end.

Definition entry_ok (st : pst) (e : fragref * bytes) : Prop := frag_known st (fst e) /\ snd e = frag_req st (fst e).

Definition wire_ok (st : pst) (sv : pserver) : Prop :=
  Forall (frag_known st) (ps_outq sv) /\ Forall (entry_ok st) (ps_written sv) /\ Forall (frag_known st) (ps_inq sv).

Definition WInv (st : pst) : Prop :=
  (forall s sv, lookup s (servers st) = Some sv -> wire_ok st sv) /\ bounded st.

(* operations that leave the connections alone and only extend / update requests *)
Definition wext (st st' : pst) : Prop :=
  bounded st -> servers st' = servers st /\ msg_ext (msgs st) (msgs st') /\ bounded st'.

Lemma msg_ext_refl a : msg_ext a a.
Proof. intros mid m H. exists m. auto. Qed.
Lemma msg_ext_trans a b c : msg_ext a b -> msg_ext b c -> msg_ext a c.
Proof.
  intros H1 H2 mid m H. destruct (H1 _ _ H) as (m1 & A & B & C & D & E). destruct (H2 _ _ A) as (m2 & A2 & B2 & C2 & D2 & E2).
  exists m2. repeat split; congruence.
Qed.
Lemma wext_refl st : wext st st.
Proof. intro H. split; [reflexivity|]. split; [apply msg_ext_refl | exact H]. Qed.
Lemma wext_trans a b c : wext a b -> wext b c -> wext a c.
Proof.
  intros H1 H2 Hb. destruct (H1 Hb) as (A & B & C). destruct (H2 C) as (A2 & B2 & C2).
  split; [congruence|]. split; [eapply msg_ext_trans; eassumption | exact C2].
Qed.

Lemma wext_same_msgs st st' : servers st' = servers st -> msgs st' = msgs st -> next_mid st' = next_mid st -> wext st st'.
Proof.
  intros A B C Hb. split; [exact A|]. split; [rewrite B; apply msg_ext_refl|].
  intros mid m H. rewrite B in H. rewrite C. eapply Hb, H.
Qed.

Lemma wext_set_client st c x : wext st (set_client st c x). Proof. apply wext_same_msgs; reflexivity. Qed.
Lemma wext_set_tasks st x : wext st (set_tasks st x). Proof. apply wext_same_msgs; reflexivity. Qed.
Lemma wext_set_inflight st x : wext st (set_inflight st x). Proof. apply wext_same_msgs; reflexivity. Qed.
Lemma wext_set_pools st x : wext st (set_pools st x). Proof. apply wext_same_msgs; reflexivity. Qed.

(* updating an existing request without touching owner, position or per-slot requests *)
Lemma wext_set_msg_same st mid m m' :
  lookup mid (msgs st) = Some m -> pm_reqs m' = pm_reqs m -> pm_client m' = pm_client m -> pm_seq m' = pm_seq m -> pm_route m' = pm_route m ->
  wext st (set_msg st mid m').
Proof.
  intros Hl A B C D Hb. split; [reflexivity|]. split.
  - intros x mx Hx. cbn [set_msg msgs]. rewrite lookup_update. destruct (Nat.eqb_spec x mid) as [->|].
    + exists m'. rewrite Hl in Hx. inversion Hx; subst. auto.
    + exists mx. auto.
  - intros x mx Hx. cbn [set_msg msgs next_mid] in *. rewrite lookup_update in Hx.
    destruct (Nat.eqb_spec x mid) as [->|]; [eapply Hb, Hl | eapply Hb, Hx].
Qed.

(* a new request at the next identifier *)
Lemma wext_new_msg st pm : wext st (bump_mid (set_msg st (next_mid st) pm)).
Proof.
  intros Hb. split; [reflexivity|]. split.
  - intros x mx Hx. cbn [bump_mid set_msg msgs]. rewrite lookup_update.
    destruct (Nat.eqb_spec x (next_mid st)) as [->|]; [apply Hb in Hx; lia | exists mx; auto].
  - intros x mx Hx. cbn [bump_mid set_msg msgs next_mid] in *. rewrite lookup_update in Hx.
    destruct (Nat.eqb_spec x (next_mid st)) as [->|]; [lia | apply Hb in Hx; lia].
Qed.

Lemma wext_flush_done st c : wext st (flush_done st c).
Proof.
  unfold flush_done. destruct (lookup c (clients st)); [|apply wext_refl].
  destruct (done_prefix st (pc_queue p)) as [d rest]. destruct d; [apply wext_refl | apply wext_set_client].
Qed.
Lemma wext_flush_if_open st c : wext st (flush_if_open st c).
Proof.
  unfold flush_if_open. destruct (lookup c (clients st)); [|apply wext_refl].
  destruct (pc_open p); [apply wext_flush_done | apply wext_refl].
Qed.
Lemma wext_fail_msg st mid e : wext st (fail_msg st mid e).
Proof.
  unfold fail_msg. destruct (lookup mid (msgs st)) as [m|] eqn:E; [|apply wext_refl].
  eapply wext_set_msg_same; [exact E | reflexivity..].
Qed.
Lemma wext_mark_moved st mid slot : wext st (mark_moved st mid slot).
Proof.
  unfold mark_moved. destruct (lookup mid (msgs st)) as [m|] eqn:E; [|apply wext_refl].
  eapply wext_set_msg_same; [exact E | reflexivity..].
Qed.
Lemma wext_close_client st c : wext st (close_client st c).
Proof.
  unfold close_client. destruct (lookup c (clients st)); [|apply wext_refl].
  destruct (pc_open p); [apply wext_set_client | apply wext_refl].
Qed.
Lemma wext_fail_and_flush st mid e :
  wext st (match lookup mid (msgs (fail_msg st mid e)) with
           | Some m => flush_if_open (fail_msg st mid e) (pm_client m) | None => fail_msg st mid e end).
Proof.
  destruct (lookup mid (msgs (fail_msg st mid e))).
  - eapply wext_trans; [apply wext_fail_msg | apply wext_flush_if_open].
  - apply wext_fail_msg.
Qed.

Lemma wext_local_reply st c m out close : wext st (local_reply st c m out close).
Proof.
  unfold local_reply. destruct (lookup c (clients st)) as [cl|]; [|apply wext_refl].
  destruct (pc_queue cl) as [|q0 qs].
  - destruct close; [eapply wext_trans; [apply wext_set_client | apply wext_close_client] | apply wext_set_client].
  - match goal with |- wext st (if close then match lookup c (clients ?x) with _ => _ end else _) => set (st1 := x) end.
    assert (H1 : wext st st1) by (eapply wext_trans; [apply wext_new_msg | apply wext_set_client]).
    destruct close; [|exact H1].
    destruct (lookup c (clients st1)); [eapply wext_trans; [exact H1 | apply wext_set_client] | exact H1].
Qed.

Lemma wext_fail_frags : forall fs st, wext st (fail_frags st fs).
Proof.
  induction fs as [|f fs IH]; intro st; cbn [fail_frags]; [apply wext_refl|].
  destruct f as [|mid slot]; [apply IH|]. destruct (frag_done st mid slot); [apply IH|].
  eapply wext_trans; [apply (wext_fail_and_flush st mid ErrUnKnownProxyPoolConnError) | apply IH].
Qed.
Lemma wext_expire : forall l st, wext st (expire st l).
Proof.
  induction l as [|[s f] l IH]; intro st; cbn [expire]; [apply wext_refl|].
  destruct f as [|mid slot]; [apply IH|]. destruct (frag_done st mid slot); [apply IH|].
  eapply wext_trans; [apply (wext_fail_and_flush st mid ErrMsgRequestTimeout) | apply IH].
Qed.

(* ---- monotonicity of the per-connection facts ---- *)
Lemma frag_known_ext st st' f : msg_ext (msgs st) (msgs st') -> frag_known st f -> frag_known st' f.
Proof.
  intros He. destruct f as [|mid slot]; cbn [frag_known]; [auto|].
  intros (m & Hm). destruct (He _ _ Hm) as (m' & A & _). eauto.
Qed.
Lemma frag_req_ext st st' f : msg_ext (msgs st) (msgs st') -> frag_known st f -> frag_req st' f = frag_req st f.
Proof.
  intros He. destruct f as [|mid slot]; cbn [frag_known frag_req]; [reflexivity|].
  intros (m & Hm). destruct (He _ _ Hm) as (m' & A & B & _). rewrite Hm, A, B. reflexivity.
Qed.
Lemma entry_ok_ext st st' e : msg_ext (msgs st) (msgs st') -> entry_ok st e -> entry_ok st' e.
Proof.
  intros He [A B]. split; [eapply frag_known_ext; eassumption|].
  rewrite (frag_req_ext st st') by assumption. exact B.
Qed.
Lemma wire_ok_ext st st' sv : msg_ext (msgs st) (msgs st') -> wire_ok st sv -> wire_ok st' sv.
Proof.
  intros He (A & B & C). split; [|split].
  - eapply Forall_impl; [|exact A]. intros f. apply frag_known_ext, He.
  - eapply Forall_impl; [|exact B]. intros e. apply entry_ok_ext, He.
  - eapply Forall_impl; [|exact C]. intros f. apply frag_known_ext, He.
Qed.

Lemma WInv_wext st st' : wext st st' -> WInv st -> WInv st'.
Proof.
  intros He [H1 H2]. destruct (He H2) as (A & B & C). split; [|exact C].
  intros s sv Hl. rewrite A in Hl. eapply wire_ok_ext; [exact B | eapply H1, Hl].
Qed.

(* ---- operations on connections ---- *)
Lemma WInv_set_server st s sv' : WInv st -> wire_ok st sv' -> WInv (set_server st s sv').
Proof.
  intros [H1 H2] Hok. split; [|exact H2].
  intros x svx Hl. cbn [set_server servers] in Hl. rewrite lookup_update in Hl.
  destruct (Nat.eqb_spec x s) as [->|]; [inversion Hl; subst; exact Hok | eapply (H1 x), Hl].
Qed.

Lemma WInv_servers_only st st' : msgs st' = msgs st -> next_mid st' = next_mid st -> servers st' = servers st -> WInv st -> WInv st'.
Proof. intros A B C. apply WInv_wext, wext_same_msgs; assumption. Qed.

Lemma wire_ok_msgs st st' sv : msgs st' = msgs st -> wire_ok st sv -> wire_ok st' sv.
Proof. intro E. apply wire_ok_ext. rewrite E. apply msg_ext_refl. Qed.

Lemma enqueue_out_winv st s f : WInv st -> frag_known st f -> WInv (enqueue_out st s f).
Proof.
  intros H Hf. unfold enqueue_out. destruct (lookup s (servers st)) as [sv|] eqn:Hs; [|exact H].
  eapply WInv_wext; [apply wext_set_tasks|]. apply WInv_set_server; [exact H|].
  destruct H as [H1 _]. destruct (H1 s sv Hs) as (A & B & C). split; cbn [ps_outq ps_written ps_inq]; [|split; assumption].
  apply Forall_app. split; [exact A | constructor; [exact Hf | constructor]].
Qed.

Definition wsame (st st' : pst) : Prop := msgs st' = msgs st /\ next_mid st' = next_mid st.

Lemma dial_winv st p st' s : WInv st -> dial st p = Some (st', s) -> WInv st' /\ wsame st st'.
Proof.
  intros H. unfold dial. destruct (pp_dialable p); [|discriminate].
  destruct (on_s_opened (cf_password (cfg st)) (pp_slave p)) as [hs step]. intro E. inversion E; subst. clear E.
  split; [|split; reflexivity].
  match goal with |- WInv (bump_sid ?x) => apply (WInv_servers_only x); try reflexivity end.
  apply WInv_set_server; [exact H|]. split; [|split]; constructor.
Qed.

Lemma dial_pools_winv st p st1 s conns' : WInv st -> dial st p = Some (st1, s) ->
  WInv (set_pools st1 (replace_pool (pools st1) (with_conns p conns'))) /\
  wsame st (set_pools st1 (replace_pool (pools st1) (with_conns p conns'))).
Proof.
  intros H Ed. destruct (dial_winv _ _ _ _ H Ed) as [A [B C]].
  split; [eapply WInv_wext; [apply wext_set_pools | exact A] | split; [exact B | exact C]].
Qed.

Lemma pool_get_winv st p st' r : WInv st -> pool_get st p = (st', r) -> WInv st' /\ wsame st st'.
Proof.
  intros H. unfold pool_get. destruct (pp_closed p); [intro E; inversion E; subst; split; [exact H | split; reflexivity]|].
  destruct (length (pp_conns p) <? cf_max_active (cfg st))%nat.
  - destruct (dial st p) as [[st1 s]|] eqn:Ed; intro E; inversion E; subst;
      [eapply dial_pools_winv; eassumption | split; [exact H | split; reflexivity]].
  - destruct (rotate st (S (length (pp_conns p))) (pp_conns p)) as [[[s conns']|] conns''].
    + intro E; inversion E; subst. split; [eapply WInv_wext; [apply wext_set_pools | exact H] | split; reflexivity].
    + destruct (dial st p) as [[st1 s]|] eqn:Ed; intro E; inversion E; subst; [eapply dial_pools_winv; eassumption|].
      split; [eapply WInv_wext; [apply wext_set_pools | exact H] | split; reflexivity].
Qed.

Lemma resolve_winv body : forall st st' r, WInv st -> resolve st body = (st', r) -> WInv st' /\ wsame st st'.
Proof.
  induction body as [|[slot f] rest IH]; intros st st' r H; cbn [resolve].
  - intro E; inversion E; subst. split; [exact H | split; reflexivity].
  - destruct f as [addr|]; [|intro E; inversion E; subst; split; [exact H | split; reflexivity]].
    destruct (find_pool st addr) as [p|]; [|intro E; inversion E; subst; split; [exact H | split; reflexivity]].
    destruct (pool_get st p) as [st1 [s|]] eqn:Eg; destruct (pool_get_winv _ _ _ _ H Eg) as (A & B1 & B2).
    + destruct (resolve st1 rest) as [st2 [l|e]] eqn:Er; destruct (IH _ _ _ A Er) as (A2 & C1 & C2);
        intro E; inversion E; subst; (split; [exact A2 | split; congruence]).
    + intro E; inversion E; subst. split; [exact A | split; assumption].
Qed.

Lemma fold_enqueue_winv mid : forall targets st, WInv st -> (exists m, lookup mid (msgs st) = Some m) ->
  WInv (fold_left (fun s (t : N * nat) => enqueue_out s (snd t) (FReq mid (fst t))) targets st).
Proof.
  induction targets as [|t ts IH]; intros st H Hm; cbn [fold_left]; [exact H|].
  apply IH; [apply enqueue_out_winv; [exact H | exact Hm]|].
  unfold enqueue_out. destruct (lookup (snd t) (servers st)); exact Hm.
Qed.

Lemma on_request_winv st c m : WInv st -> WInv (on_request st c m).
Proof.
  intro H. unfold on_request.
  do 5 match goal with
       | |- WInv (if ?b then _ else _) => destruct b; [eapply WInv_wext; [apply wext_local_reply | exact H]|]
       end.
  destruct (cm_type m =? ReqAuth).
  - destruct (cf_password (cfg st)); [eapply WInv_wext; [apply wext_local_reply | exact H]|].
    destruct (cm_body m) as [|[s0 f0] body]; [exact H|].
    destruct (beqb _ _); (eapply WInv_wext; [apply wext_local_reply | exact H]).
  - destruct (resolve st (route_plan st (cm_type m) (by_slot (cm_body m)))) as [st1 [targets|e]] eqn:Er.
    2:{ eapply WInv_wext; [apply wext_local_reply | exact H]. }
    destruct (resolve_winv _ _ _ _ H Er) as (A & _).
    match goal with |- WInv (match lookup c (clients ?x) with _ => _ end) => set (st3 := x) end.
    assert (H3 : WInv st3).
    { unfold st3. apply fold_enqueue_winv.
      - eapply WInv_wext; [apply wext_new_msg | exact A].
      - cbn [bump_mid set_msg msgs]. rewrite lookup_update_eq. eauto. }
    destruct (lookup c (clients st3)); [eapply WInv_wext; [apply wext_set_client | exact H3] | exact H3].
Qed.

Lemma client_loop_winv : forall fuel st c buf, WInv st -> WInv (client_loop fuel st c buf).
Proof.
  induction fuel as [|f IH]; intros st c buf H; cbn [client_loop]; [exact H|].
  destruct (lookup c (clients st)) as [cl|]; [|exact H].
  destruct (negb (pc_open cl) || pc_closing cl)%bool; [exact H|].
  destruct (decode (cf_limit (cfg st)) buf) as [| | | |m n]; try exact H.
  - apply (WInv_wext st); [apply wext_close_client | exact H].
  - apply IH, on_request_winv, H.
Qed.

(* ---- tasks ---- *)
Lemma insert_by_order_In ord f l x : In x (insert_by_order ord f l) -> x = f \/ In x l.
Proof.
  induction l as [|g r IH]; cbn [insert_by_order]; [intros [<-|[]]; auto|].
  destruct (_ <=? _)%nat; [intros [<-|Hin]; auto|].
  intros [<-|Hin]; [right; left; reflexivity|]. destruct (IH Hin); [auto | right; right; assumption].
Qed.
Lemma sort_by_order_In ord l x : In x (fold_right (insert_by_order ord) [] l) -> In x l.
Proof.
  induction l as [|f r IH]; cbn [fold_right]; [auto|].
  intro Hin. apply insert_by_order_In in Hin. destruct Hin as [->|Hin]; [left; reflexivity | right; apply IH, Hin].
Qed.
Lemma same_msg_run_app mid : forall l run rest, same_msg_run mid l = (run, rest) -> l = run ++ rest.
Proof.
  induction l as [|f r IH]; intros run rest H; cbn [same_msg_run] in H; [inversion H; reflexivity|].
  destruct (match mid, frag_mid f with Some a, Some b => Nat.eqb a b | _, _ => false end).
  - destruct (same_msg_run mid r) as [run' rest'] eqn:E. inversion H; subst. rewrite (IH _ _ eq_refl). reflexivity.
  - inversion H; subst. reflexivity.
Qed.
Lemma reorder_In : forall fuel order l x, In x (reorder fuel order l) -> In x l.
Proof.
  induction fuel as [|k IH]; intros order l x; cbn [reorder]; [auto|].
  destruct l as [|f r]; [auto|].
  destruct (same_msg_run (frag_mid f) r) as [run rest] eqn:E.
  rewrite (same_msg_run_app _ _ _ _ E). intro Hin. apply in_app_or in Hin. destruct Hin as [Hin|Hin].
  - apply sort_by_order_In in Hin. destruct Hin as [<-|Hin]; [left; reflexivity | right; apply in_or_app; left; exact Hin].
  - right. apply in_or_app. right. eapply IH, Hin.
Qed.

Lemma run_task_winv st order t : WInv st -> WInv (run_task st order t).
Proof.
  intro H. destruct t as [s|s|s]; cbn [run_task].
  - destruct (lookup s (servers st)) as [sv|] eqn:Hs; [|exact H].
    destruct (ps_open sv) eqn:Ho; cbn [negb]; [|exact H].
    destruct (ps_outq sv) as [|f q] eqn:Eq; [exact H|].
    set (q' := reorder (length (f :: q)) (order s) (f :: q)).
    match goal with |- WInv (if _ then set_inflight ?x _ else _) => assert (Hst1 : WInv x) end.
    { apply WInv_set_server; [exact H|].
      destruct H as [H1 _]. destruct (H1 s sv Hs) as (A & B & C).
      assert (Hq : Forall (frag_known st) q').
      { apply Forall_forall. intros g Hg. rewrite Forall_forall in A. apply A. rewrite Eq. eapply reorder_In, Hg. }
      split; [|split]; cbn [ps_outq ps_written ps_inq]; [constructor| |apply Forall_app; split; assumption].
      apply Forall_app. split; [exact B|]. apply Forall_forall. intros e He. apply in_map_iff in He.
      destruct He as (g & <- & Hg). split; cbn [fst snd]; [|reflexivity].
      rewrite Forall_forall in Hq. apply Hq, Hg. }
    destruct (cf_timeout (cfg st)); exact Hst1.
  - unfold close_server. destruct (lookup s (servers st)) as [sv|] eqn:Hs; [|exact H].
    destruct (ps_open sv); [|exact H].
    set (st1 := fail_frags st (ps_inq sv ++ ps_outq sv)).
    assert (H1 : WInv st1) by (eapply WInv_wext; [apply wext_fail_frags | exact H]).
    apply WInv_set_server; [exact H1|].
    destruct H as [K1 K2]. destruct (K1 s sv Hs) as (A & B & C). split; [|split]; cbn [ps_outq ps_written ps_inq]; [constructor| |constructor].
    destruct (wext_fail_frags (ps_inq sv ++ ps_outq sv) st K2) as (_ & E & _). fold st1 in E.
    eapply Forall_impl; [|exact B]. intro e. apply (entry_ok_ext st). exact E.
  - destruct (lookup s (servers st)) as [sv|] eqn:Hs; [|exact H].
    destruct (ps_open sv); [|exact H]. apply enqueue_out_winv; [exact H | exact I].
Qed.

Lemma run_tasks_winv order : forall fuel st, WInv st -> WInv (run_tasks fuel st order).
Proof.
  induction fuel as [|f IH]; intros st H; cbn [run_tasks]; [exact H|].
  destruct (tasks st) as [|t rest]; [exact H|]. apply IH, run_task_winv. exact H.
Qed.

(* ---- replies ---- *)
Lemma on_moved_winv st f mid ty addr : WInv st -> frag_known st f -> WInv (on_moved st f mid ty addr).
Proof.
  intros H Hf. unfold on_moved.
  assert (Hm : WInv (mark_moved st mid (frag_slot f))) by (eapply WInv_wext; [apply wext_mark_moved | exact H]).
  assert (Hfm : frag_known (mark_moved st mid (frag_slot f)) f).
  { destruct H as [_ Hb]. destruct (wext_mark_moved st mid (frag_slot f) Hb) as (_ & E & _). eapply frag_known_ext; eassumption. }
  set (stm := mark_moved st mid (frag_slot f)) in *.
  destruct (find_pool stm addr) as [p|].
  - destruct (pool_get stm p) as [st1 [s|]] eqn:Eg; destruct (pool_get_winv _ _ _ _ Hm Eg) as (A & B & C).
    + set (st2 := if N.eqb ty RspAsk then enqueue_out st1 s (FProbe true) else st1).
      assert (A2 : WInv st2 /\ msgs st2 = msgs st1).
      { unfold st2. destruct (N.eqb ty RspAsk); [|split; [exact A | reflexivity]].
        split; [apply enqueue_out_winv; [exact A | exact I] | apply (same_cm_enqueue_out st1 s (FProbe true))]. }
      destruct A2 as [A2 M2].
      apply enqueue_out_winv; [exact A2|]. destruct f as [|m0 s0]; cbn [frag_known] in *; [exact I | rewrite M2, B; exact Hfm].
    + eapply WInv_wext; [apply wext_fail_and_flush | exact A].
  - eapply WInv_wext; [apply wext_fail_and_flush | exact Hm].
Qed.

Lemma on_reply_winv st s ty rsp st' : WInv st -> on_reply st s ty rsp = ROk st' -> WInv st'.
Proof.
  intros H. unfold on_reply. destruct (lookup s (servers st)) as [sv|] eqn:Hs; [|intro E; apply ROk_inj in E; subst; exact H].
  destruct (ps_inq sv) as [|f inq'] eqn:Einq; [discriminate|].
  match goal with |- context [set_inflight ?a ?b] => set (st0 := set_inflight a b) end.
  assert (Hkn : frag_known st f /\ Forall (frag_known st) inq').
  { destruct H as [H1 _]. destruct (H1 s sv Hs) as (_ & _ & C). rewrite Einq in C. inversion C; subst. split; assumption. }
  destruct Hkn as [Hkn Hinq].
  assert (H0 : WInv st0).
  { unfold st0. apply WInv_set_server; [exact H|]. destruct H as [H1 _]. destruct (H1 s sv Hs) as (A & B & C).
    split; [|split]; cbn [ps_outq ps_written ps_inq]; assumption. }
  assert (Hkn0 : frag_known st0 f) by exact Hkn.
  destruct f as [|mid slot].
  - destruct (is_auth_failure ty); [discriminate|]. intro E; apply ROk_inj in E; subst; exact H0.
  - destruct (frag_done st0 mid slot); [intro E; apply ROk_inj in E; subst; exact H0|].
    destruct (N.eqb ty RspMoved || N.eqb ty RspAsk)%bool.
    + intro E; apply ROk_inj in E; subst. apply on_moved_winv; assumption.
    + destruct (lookup mid (msgs st0)) as [m|] eqn:Em; [|intro E; apply ROk_inj in E; subst; exact H0].
      destruct (merge_step Hash (cf_limit (cfg st0)) (pm_sm m) slot ty rsp) as [[sm'|]| |]; try discriminate.
      2:{ intro E; apply ROk_inj in E; subst; exact H0. }
      destruct (is_auth_failure ty && ps_initializing sv)%bool; [discriminate|].
      match goal with |- context [set_msg st0 mid ?x] => set (st1 := set_msg st0 mid x) end.
      assert (H1 : WInv st1) by (eapply WInv_wext; [eapply wext_set_msg_same; [exact Em | reflexivity..] | exact H0]).
      destruct (lookup (pm_client m) (clients st1)) as [cl|]; [|intro E; apply ROk_inj in E; subst; exact H1].
      destruct (negb (pc_open cl)); [intro E; apply ROk_inj in E; subst; exact H1|].
      destruct (pc_queue cl); intro E; apply ROk_inj in E; subst.
      * eapply WInv_wext; [apply wext_close_client | exact H1].
      * eapply WInv_wext; [apply wext_flush_done | exact H1].
Qed.

Lemma with_left_winv st s b : WInv st -> WInv (with_left st s b).
Proof.
  intro H. unfold with_left. destruct (lookup s (servers st)) as [sv|] eqn:Hs; [|exact H].
  apply WInv_set_server; [exact H|]. destruct H as [H1 _]. destruct (H1 s sv Hs) as (A & B & C). split; [|split]; assumption.
Qed.

Definition k_winv (k : pst -> nat -> bytes -> result pst) : Prop :=
  forall st s buf st', WInv st -> k st s buf = ROk st' -> WInv st'.

Lemma decode_reply_winv k st s buf st' : k_winv k -> WInv st -> decode_reply k st s buf = ROk st' -> WInv st'.
Proof.
  intros Hk H. unfold decode_reply. destruct (sdecode buf) as [| | |ty n]; try discriminate.
  - intro E; apply ROk_inj in E; subst. apply with_left_winv, H.
  - destruct (on_reply st s ty (firstn n buf)) as [st1| | |] eqn:Er; try discriminate.
    intro E. eapply Hk; [eapply on_reply_winv; eassumption | exact E].
Qed.

Lemma server_iter_winv k st s buf st' : k_winv k -> WInv st -> server_iter k st s buf = ROk st' -> WInv st'.
Proof.
  intros Hk H. unfold server_iter. destruct (lookup s (servers st)) as [sv|] eqn:Hs; [|intro E; apply ROk_inj in E; subst; exact H].
  destruct (ps_open sv) eqn:Ho; cbn [negb]; [|intro E; apply ROk_inj in E; subst; exact H].
  destruct (ps_initializing sv); [|intro E; eapply decode_reply_winv; eassumption].
  destruct (init_decode (ps_step sv) buf) as [| |n|]; try discriminate.
  - intro E; apply ROk_inj in E; subst. apply with_left_winv, H.
  - match goal with |- context [set_server st s ?x] => set (st1 := set_server st s x) end.
    assert (H1 : WInv st1).
    { apply WInv_set_server; [exact H|]. destruct H as [K1 _]. destruct (K1 s sv Hs) as (A & B & C). split; [|split]; assumption. }
    destruct (skipn n buf); [intro E; apply ROk_inj in E; subst; exact H1 | intro E; eapply decode_reply_winv; eassumption].
  - intro E; eapply decode_reply_winv; eassumption.
Qed.

Lemma server_loop_winv : forall fuel, k_winv (server_loop fuel).
Proof.
  induction fuel as [|f IH]; intros st s buf st' H; cbn [server_loop].
  - intro E; apply ROk_inj in E; subst; exact H.
  - apply server_iter_winv; assumption.
Qed.

Lemma dial_until_winv addr total : forall fuel st, WInv st -> WInv (dial_until fuel st addr total).
Proof.
  induction fuel as [|f IH]; intros st H; cbn [dial_until]; [exact H|].
  destruct (conns_to st addr <? total)%nat; [|exact H].
  destruct (find_pool st addr) as [p|]; [|exact H].
  apply IH. destruct (pool_get st p) as [st1 r] eqn:Eg. cbn [fst]. eapply pool_get_winv; eassumption.
Qed.

Lemma ensure_dials_winv totals : forall st, WInv st -> WInv (ensure_dials st totals).
Proof.
  unfold ensure_dials. induction totals as [|t ts IH]; intros st H; cbn [fold_left]; [exact H|].
  apply IH, dial_until_winv, H.
Qed.

Theorem step_winv st e st' : WInv st -> step st e = ROk st' -> WInv st'.
Proof.
  intros H. destruct e as [c adm|c b totals|order|s b|c|s| |s|nodes newslots|ch|da dd]; cbn [step].
  - destruct (lookup c (clients st)); intro E; apply ROk_inj in E; subst st'; exact H.
  - intro E; apply ROk_inj in E; subst st'. apply ensure_dials_winv. unfold client_data.
    destruct (lookup c (clients st)) as [cl|]; [|exact H].
    destruct (pc_open cl && negb (pc_closing cl))%bool; [apply client_loop_winv, H | exact H].
  - intro E; apply ROk_inj in E; subst st'. apply run_tasks_winv, H.
  - unfold server_data. destruct (lookup s (servers st)) as [sv|]; [|intro E; apply ROk_inj in E; subst; exact H].
    destruct (ps_open sv); [apply server_loop_winv, H | intro E; apply ROk_inj in E; subst; exact H].
  - intro E; apply ROk_inj in E; subst st'. eapply WInv_wext; [apply wext_close_client | exact H].
  - intro E; apply ROk_inj in E; subst st'. apply (run_task_winv st (fun _ => []) (TClose s)), H.
  - intro E; apply ROk_inj in E; subst st'. unfold timeout_scan.
    eapply WInv_wext; [eapply wext_trans; [apply wext_expire | apply wext_set_inflight] | exact H].
  - destruct (find_pool st s) as [p|]; [|intro E; apply ROk_inj in E; subst st'; exact H].
    destruct (pool_get st p) as [st1 [s1|]] eqn:Eg; destruct (pool_get_winv _ _ _ _ H Eg) as (A & _); intro E; apply ROk_inj in E; subst st'; exact A.
  - intro E; apply ROk_inj in E; subst st'. eapply WInv_wext; [apply wext_same_msgs; reflexivity | exact H].
  - intro E; apply ROk_inj in E; subst st'. eapply WInv_wext; [apply wext_same_msgs; reflexivity | exact H].
  - intro E; apply ROk_inj in E; subst st'. eapply WInv_wext; [apply wext_same_msgs; reflexivity | exact H].
Qed.

Theorem run_winv evs : forall st st', WInv st -> run st evs = ROk st' -> WInv st'.
Proof.
  induction evs as [|e r IH]; intros st st' H; cbn [run].
  - intro E; apply ROk_inj in E; subst; exact H.
  - destruct (step st e) as [st1| | |] eqn:Es; try discriminate. intro E. eapply IH; [eapply step_winv; eassumption | exact E].
Qed.

Lemma init_winv c pools slots : WInv (init_state c pools slots).
Proof. split; intros s sv Hl; cbn in Hl; discriminate. Qed.

(* ---- a reply touches only the request of the fragment it is matched with, and only the client
        that owns that request ---- *)
Definition frame (st st' : pst) (mid : nat) (owner : nat) : Prop :=
  (forall x, x <> mid -> lookup x (msgs st') = lookup x (msgs st)) /\
  (forall x, x <> owner -> lookup x (clients st') = lookup x (clients st)).

Lemma frame_refl st mid c : frame st st mid c. Proof. split; reflexivity. Qed.
Lemma frame_trans a b c mid o : frame a b mid o -> frame b c mid o -> frame a c mid o.
Proof. intros [A1 A2] [B1 B2]. split; intros x Hx; [rewrite B1, A1 | rewrite B2, A2]; auto. Qed.
Lemma frame_same_cm st st' mid c : same_cm st st' -> frame st st' mid c.
Proof. intros (A & B & _). split; intros x _; [rewrite B | rewrite A]; reflexivity. Qed.
Lemma frame_set_msg st mid m c : frame st (set_msg st mid m) mid c.
Proof. split; intros x Hx; cbn [set_msg msgs clients]; [apply lookup_update_ne, Hx | reflexivity]. Qed.
Lemma frame_set_client st mid c x : frame st (set_client st c x) mid c.
Proof. split; intros y Hy; cbn [set_client msgs clients]; [reflexivity | apply lookup_update_ne, Hy]. Qed.
Lemma frame_flush_done st mid c : frame st (flush_done st c) mid c.
Proof.
  unfold flush_done. destruct (lookup c (clients st)); [|apply frame_refl].
  destruct (done_prefix st (pc_queue p)) as [d rest]. destruct d; [apply frame_refl | apply frame_set_client].
Qed.
Lemma frame_flush_if_open st mid c : frame st (flush_if_open st c) mid c.
Proof.
  unfold flush_if_open. destruct (lookup c (clients st)); [|apply frame_refl].
  destruct (pc_open p); [apply frame_flush_done | apply frame_refl].
Qed.
Lemma frame_close_client st mid c : frame st (close_client st c) mid c.
Proof.
  unfold close_client. destruct (lookup c (clients st)); [|apply frame_refl].
  destruct (pc_open p); [apply frame_set_client | apply frame_refl].
Qed.
Lemma frame_fail_msg st mid e c : frame st (fail_msg st mid e) mid c.
Proof. unfold fail_msg. destruct (lookup mid (msgs st)); [apply frame_set_msg | apply frame_refl]. Qed.
Lemma frame_mark_moved st mid slot c : frame st (mark_moved st mid slot) mid c.
Proof. unfold mark_moved. destruct (lookup mid (msgs st)); [apply frame_set_msg | apply frame_refl]. Qed.

Lemma fail_msg_owner st mid e m : lookup mid (msgs st) = Some m ->
  exists m', lookup mid (msgs (fail_msg st mid e)) = Some m' /\ pm_client m' = pm_client m.
Proof.
  intro H. unfold fail_msg. rewrite H. cbn [set_msg msgs]. rewrite lookup_update_eq. eexists; split; reflexivity.
Qed.

Lemma frame_fail_and_flush st mid e m : lookup mid (msgs st) = Some m ->
  frame st (match lookup mid (msgs (fail_msg st mid e)) with
            | Some m' => flush_if_open (fail_msg st mid e) (pm_client m') | None => fail_msg st mid e end) mid (pm_client m).
Proof.
  intro H. destruct (fail_msg_owner st mid e m H) as (m' & A & B). rewrite A, B.
  eapply frame_trans; [apply frame_fail_msg | apply frame_flush_if_open].
Qed.

Lemma same_cm_enqueue st s f : same_cm st (enqueue_out st s f).
Proof. apply same_cm_enqueue_out. Qed.

(* the reply at the head of connection s goes to the request of the fragment at the head of the
   awaiting queue, and nowhere else *)
Theorem reply_frame st s sv mid slot inq' ty rsp st' m :
  lookup s (servers st) = Some sv -> ps_inq sv = FReq mid slot :: inq' ->
  lookup mid (msgs st) = Some m ->
  on_reply st s ty rsp = ROk st' ->
  frame st st' mid (pm_client m).
Proof.
  intros Hs Hq Hm. unfold on_reply. rewrite Hs, Hq.
  match goal with |- context [set_inflight ?a ?b] => set (st0 := set_inflight a b) end.
  assert (F0 : frame st st0 mid (pm_client m)) by (apply frame_same_cm; repeat split).
  assert (Hm0 : lookup mid (msgs st0) = Some m) by exact Hm.
  destruct (frag_done st0 mid slot); [intro E; apply ROk_inj in E; subst; exact F0|].
  destruct (N.eqb ty RspMoved || N.eqb ty RspAsk)%bool.
  - intro E; apply ROk_inj in E; subst. eapply frame_trans; [exact F0|]. unfold on_moved.
    set (stm := mark_moved st0 mid (frag_slot (FReq mid slot))).
    assert (Fm : frame st0 stm mid (pm_client m)) by apply frame_mark_moved.
    assert (Hmm : exists m1, lookup mid (msgs stm) = Some m1 /\ pm_client m1 = pm_client m).
    { unfold stm, mark_moved. rewrite Hm0. cbn [set_msg msgs]. rewrite lookup_update_eq. eexists; split; reflexivity. }
    destruct Hmm as (m1 & Hm1 & Hc1).
    eapply frame_trans; [exact Fm|].
    destruct (find_pool stm (parse_moved ty rsp)) as [p|].
    + destruct (pool_get stm p) as [st1 r] eqn:Eg.
      pose proof (same_cm_pool_get stm p) as Hcm. rewrite Eg in Hcm. cbn [fst] in Hcm.
      destruct r as [s2|].
      * apply frame_same_cm. eapply same_cm_trans; [exact Hcm | eapply same_cm_trans; [apply same_cm_asking | apply same_cm_enqueue_out]].
      * eapply frame_trans; [apply frame_same_cm, Hcm|]. rewrite <- Hc1. apply frame_fail_and_flush.
        destruct Hcm as (_ & Em & _). rewrite Em. exact Hm1.
    + rewrite <- Hc1. apply frame_fail_and_flush, Hm1.
  - rewrite Hm0.
    destruct (merge_step Hash (cf_limit (cfg st0)) (pm_sm m) slot ty rsp) as [[sm'|]| |]; try discriminate.
    2:{ intro E; apply ROk_inj in E; subst; exact F0. }
    destruct (is_auth_failure ty && ps_initializing sv)%bool; [discriminate|].
    match goal with |- context [set_msg st0 mid ?x] => set (st1 := set_msg st0 mid x) end.
    assert (F1 : frame st st1 mid (pm_client m)) by (eapply frame_trans; [exact F0 | apply frame_set_msg]).
    destruct (lookup (pm_client m) (clients st1)) as [cl|]; [|intro E; apply ROk_inj in E; subst; exact F1].
    destruct (negb (pc_open cl)); [intro E; apply ROk_inj in E; subst; exact F1|].
    destruct (pc_queue cl); intro E; apply ROk_inj in E; subst; (eapply frame_trans; [exact F1|]).
    + apply frame_close_client.
    + apply frame_flush_done.
Qed.

(* ---- C03 on every reachable state ---- *)
Theorem wire_identity c pools slots evs st s sv :
  run (init_state c pools slots) evs = ROk st -> lookup s (servers st) = Some sv ->
  (* what the node has received: the handshake, then exactly the recorded requests in order *)
  ps_got sv = handshake_of st sv ++ concat (map snd (ps_written sv)) /\
  (* replies are matched positionally: the fragments awaiting a reply are the written ones not yet answered *)
  (ps_open sv = true -> ps_inq sv = map fst (skipn (ps_taken sv) (ps_written sv))) /\
  (ps_taken sv <= length (ps_written sv))%nat /\
  (* every recorded request is the request of its fragment, and that fragment's request exists *)
  Forall (fun e => match fst e with
                   | FProbe a => snd e = if a then ReqAsking else ReqClusterNodes
                   | FReq mid slot => exists m, lookup mid (msgs st) = Some m /\ snd e = frag_req st (FReq mid slot)
                   end) (ps_written sv).
Proof.
  intros Hrun Hs.
  pose proof (run_sinv evs _ _ (init_sinv c pools slots) Hrun) as [S1 _].
  pose proof (run_winv evs _ _ (init_winv c pools slots) Hrun) as [W1 _].
  destruct (S1 s sv Hs) as [A B C D]. destruct (W1 s sv Hs) as (_ & W & _).
  split; [exact A|]. split; [exact C|]. split; [exact B|].
  eapply Forall_impl; [|exact W]. intros [f b] [K1 K2]. cbn [fst snd] in *.
  destruct f as [|mid slot]; [exact K2|]. destruct K1 as (m & Hm). eauto.
Qed.
