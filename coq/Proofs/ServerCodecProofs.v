(* Proofs about the reply decoder: every well-formed RESP2 value is framed exactly (consumes its
   own encoding, whatever follows), classified by its kind, and the handshake decoder swallows
   exactly the expected +OK replies. *)
From RcProxy Require Import Base.Bytes Base.Dec Gen.Generated Spec.RespGrammar Spec.RespValue
  Model.RespBuf Model.Commands Model.Crc16 Model.ClientCodec Model.ServerCodec
  Proofs.DecProofs Proofs.RespBufProofs Proofs.ClientCodecProofs.
From Coq Require Import ZifyN ZifyNat ZifyBool.
Open Scope N_scope.

Definition type_of (v : resp2) : N :=
  match v with
  | RStatus s => classify_status (43 :: s)
  | RError s => classify_error (45 :: s)
  | RInt _ => RspInteger
  | RBulk _ | RNull => RspBulk
  | RArray _ => RspMultibulk
  | RNullArray => UNKNOWN
  end.

Fixpoint vsize (v : resp2) : nat :=
  match v with
  | RArray l => S (length l + fold_right (fun x acc => vsize x + acc)%nat O l)
  | _ => 1
  end.

Lemma read_line_simple m s rest : m <> LF -> ~ In LF s ->
  read_line ((m :: s) ++ crlf ++ rest) = Ok (m :: s, rest).
Proof.
  intros Hm Hs. apply read_line_enc; [discriminate|]. intros [E|E]; [congruence | contradiction].
Qed.

Lemma line_shape m s rest : ([m] ++ s ++ crlf) ++ rest = (m :: s) ++ crlf ++ rest.
Proof. simpl. rewrite <- !app_assoc. reflexivity. Qed.

Lemma parse_len_minus1 : parse_len (bs "-1") = ((-1)%Z, None).
Proof. reflexivity. Qed.

(* the element loop over a list of values each of which the reader frames exactly *)
Lemma loop_replies_enc rr (l : list resp2) : forall k rest,
  (length l <= k)%nat ->
  (forall v r, In v l -> rr (enc_value v ++ r) = Some (Ok (type_of v, r))) ->
  loop_replies rr k (Z.of_nat (length l)) (concat (map enc_value l) ++ rest) = Some (Ok (RspMultibulk, rest)).
Proof.
  induction l as [|v l IH]; intros k rest Hk Hrr.
  - destruct k; reflexivity.
  - destruct k as [|k]; [cbn [length] in Hk; lia|]. cbn [loop_replies].
    destruct (Z.leb_spec (Z.of_nat (length (v :: l))) 0) as [H0|H0]; [cbn [length] in H0; lia|].
    cbn [map concat]. rewrite <- app_assoc, (Hrr v _ (or_introl eq_refl)).
    replace (Z.of_nat (length (v :: l)) - 1)%Z with (Z.of_nat (length l)) by (cbn [length]; lia).
    apply IH; [cbn [length] in Hk; lia|]. intros w r Hw. apply Hrr. right. exact Hw.
Qed.

Lemma wf_array_forall l :
  (fix all (l : list resp2) : Prop := match l with [] => True | x :: r => wf_value x /\ all r end) l
  <-> Forall wf_value l.
Proof.
  induction l as [|x l IH]; split; intro H.
  - constructor.
  - exact I.
  - destruct H as [Hx Hl]. constructor; [exact Hx | apply IH, Hl].
  - inversion H; subst. split; [assumption | apply IH; assumption].
Qed.

Theorem read_reply_enc : forall v, wf_value v -> forall f rest, (vsize v <= f)%nat ->
  read_reply f (enc_value v ++ rest) = Some (Ok (type_of v, rest)).
Proof.
  induction v using resp2_ind'; intros Hwf f rest Hf; (destruct f as [|f]; [simpl in Hf; lia|]); cbn [read_reply enc_value].
  - (* status *)
    rewrite line_shape, read_line_simple by (discriminate || exact Hwf). reflexivity.
  - rewrite line_shape, read_line_simple by (discriminate || exact Hwf). reflexivity.
  - rewrite line_shape, read_line_simple by (discriminate || exact Hwf). reflexivity.
  - (* bulk *)
    rewrite enc_bulk_shape, <- !app_assoc.
    destruct (bulk_hdr_ok (N.of_nat (length b))) as [H1 H2].
    unfold itoa_nat. rewrite read_line_enc by assumption.
    cbn [N.eqb Pos.eqb].
    cbn [wf_value] in Hwf.
    rewrite parse_len_itoa by (rewrite pow10_18 in *; lia). rewrite nat_N_Z.
    destruct (Z.ltb_spec (Z.of_nat (length b)) 0); [lia|].
    rewrite read_n_enc by (destruct b; discriminate).
    change 2%Z with (Z.of_nat (length crlf)). rewrite read_n_enc by discriminate.
    rewrite beqb_refl. reflexivity.
  - (* null bulk *)
    replace ((bs "$-1" ++ crlf) ++ rest) with ((36 :: bs "-1") ++ crlf ++ rest) by reflexivity.
    rewrite read_line_simple by (discriminate || (intros [H|[H|[]]]; discriminate)).
    reflexivity.
  - (* null array *)
    replace ((bs "*-1" ++ crlf) ++ rest) with ((42 :: bs "-1") ++ crlf ++ rest) by reflexivity.
    rewrite read_line_simple by (discriminate || (intros [H|[H|[]]]; discriminate)).
    reflexivity.
  - (* array *)
    cbn [wf_value] in Hwf. destruct Hwf as [Hlen Hall]. apply wf_array_forall in Hall.
    replace (([42] ++ itoa_nat (length l) ++ crlf ++ concat (map enc_value l)) ++ rest)
      with ((42 :: itoa_nat (length l)) ++ crlf ++ concat (map enc_value l) ++ rest)
      by (simpl; rewrite <- !app_assoc; reflexivity).
    destruct (count_hdr_ok (N.of_nat (length l))) as [H1 H2].
    unfold itoa_nat. rewrite read_line_enc by assumption.
    cbn [N.eqb Pos.eqb].
    rewrite parse_len_itoa by (rewrite pow10_18 in *; lia). rewrite nat_N_Z.
    destruct (Z.ltb_spec (Z.of_nat (length l)) 0); [lia|].
    cbn [vsize] in Hf.
    apply loop_replies_enc; [lia|].
    intros v r Hv. rewrite Forall_forall in H, Hall.
    apply H; [exact Hv | apply Hall, Hv|].
    assert (Hle : forall l' : list resp2, In v l' -> (vsize v <= fold_right (fun x acc => vsize x + acc) 0 l')%nat).
    { induction l' as [|x l' IHl]; [intros []|]. intros [->|Hin]; simpl; [lia|]. specialize (IHl Hin). lia. }
    specialize (Hle l Hv). lia.
Qed.

Lemma vsize_le_enc v : (vsize v + 2 <= length (enc_value v))%nat.
Proof.
  induction v using resp2_ind'; cbn [vsize enc_value]; rewrite ?app_length; try (simpl; lia).
  - unfold enc_bulk. rewrite !app_length. simpl. lia.
  - assert (Hs : (length l + fold_right (fun x acc => vsize x + acc) 0 l <= length (concat (map enc_value l)))%nat).
    { induction H as [|x l Hx Hl IH]; [simpl; lia|]. cbn [length fold_right map concat]. rewrite app_length. lia. }
    pose proof (itoa_nonempty (N.of_nat (length l))) as Hne. unfold itoa_nat.
    destruct (itoa (N.of_nat (length l))) as [|d ds]; [contradiction|]. simpl. lia.
Qed.

(* the framed reply: type and exact consumption, whatever follows in the stream *)
Theorem sdecode_enc v rest : wf_value v ->
  sdecode (enc_value v ++ rest) = SReply (type_of v) (length (enc_value v)).
Proof.
  intro Hwf. unfold sdecode.
  destruct (enc_value v ++ rest) as [|x xs] eqn:E.
  { pose proof (vsize_le_enc v). apply (f_equal (@length _)) in E. rewrite app_length in E. simpl in E. lia. }
  rewrite <- E. rewrite read_reply_enc; [|exact Hwf|].
  - rewrite app_length. f_equal. lia.
  - pose proof (vsize_le_enc v). rewrite app_length. lia.
Qed.

(* ---- handshake: exactly step x "+OK\r\n" is swallowed; a proper prefix waits ---- *)
Theorem init_decode_done step rest : (step = 1 \/ step = 2)%Z ->
  let sc := concat (repeat ok_reply (Z.to_nat step)) in
  init_decode step (sc ++ rest) = IDone (length sc).
Proof.
  intros [-> | ->]; cbv zeta.
  - change (concat (repeat ok_reply (Z.to_nat 1))) with ok_reply.
    unfold init_decode. cbn [app ok_reply StatusOK]. cbn [Z.ltb Z.compare Z.to_N shortcut N.eqb Pos.eqb].
    change (has_prefix (43 :: 79 :: 75 :: 13 :: 10 :: rest) ok_reply) with true. reflexivity.
  - change (concat (repeat ok_reply (Z.to_nat 2))) with (ok_reply ++ ok_reply).
    unfold init_decode. cbn [app ok_reply StatusOK]. cbn [Z.ltb Z.compare Z.to_N shortcut N.eqb Pos.eqb].
    change (has_prefix (43 :: 79 :: 75 :: 13 :: 10 :: 43 :: 79 :: 75 :: 13 :: 10 :: rest) (ok_reply ++ ok_reply)) with true.
    reflexivity.
Qed.

Theorem init_decode_prefix_waits step p q : (step = 1 \/ step = 2)%Z ->
  concat (repeat ok_reply (Z.to_nat step)) = p ++ q -> p <> [] -> q <> [] -> init_decode step p = IWait.
Proof.
  intros Hs Hpq Hp Hq.
  assert (Hfin : forall sc : bytes, sc = ok_reply \/ sc = ok_reply ++ ok_reply ->
            forallb (fun k => match firstn k sc with
                              | [] => true
                              | (b0 :: _) as pre =>
                                  if (length sc <=? k)%nat then true
                                  else negb ((length sc <=? length pre)%nat && has_prefix pre sc)
                                       && negb (negb (N.eqb b0 45) && negb (N.eqb b0 43))
                                       && has_prefix sc pre
                              end) (seq 0 (length sc)) = true).
  { intros sc [-> | ->]; vm_compute; reflexivity. }
  set (sc := concat (repeat ok_reply (Z.to_nat step))) in *.
  assert (Hsc : sc = ok_reply \/ sc = ok_reply ++ ok_reply) by (destruct Hs as [-> | ->]; [left | right]; reflexivity).
  specialize (Hfin sc Hsc). rewrite forallb_forall in Hfin.
  assert (Hlen : (length p < length sc)%nat).
  { rewrite Hpq, app_length. destruct q; [contradiction | simpl; lia]. }
  specialize (Hfin (length p) ltac:(apply in_seq; lia)).
  rewrite Hpq, firstn_exact in Hfin. rewrite <- Hpq in Hfin.
  destruct p as [|b0 p']; [contradiction|].
  destruct (Nat.leb_spec (length sc) (length (b0 :: p'))); [lia|].
  apply andb_true_iff in Hfin as [Hfin H3]. apply andb_true_iff in Hfin as [H1 H2].
  apply negb_true_iff in H1, H2.
  unfold init_decode.
  assert (Hstep : (step <? 1)%Z = false) by (destruct Hs as [-> | ->]; reflexivity).
  rewrite Hstep.
  assert (Hshort : shortcut (Z.to_N step) = Some sc) by (destruct Hs as [-> | ->]; reflexivity).
  rewrite Hshort, H1, H2, H3. reflexivity.
Qed.
