(* Proofs for C14: the refresh loop is total and unusable replies change nothing; the node
   filter rules; slot numbers are in range; the slot table and replica sets are what the node
   list describes; pools follow the node list. *)
From RcProxy Require Import Base.Bytes Base.Dec Gen.Generated Model.RespBuf Model.Cluster.
From Coq Require Import ZifyN ZifyNat ZifyBool.
Open Scope N_scope.

(* ---------- the loop never dies ---------- *)
Theorem classify_no_crash msg : classify_probe msg <> PCrash.
Proof.
  unfold classify_probe.
  destruct (length msg <? 3)%nat; [discriminate|].
  destruct (has_prefix msg (bs "+OK")); [discriminate|].
  destruct (has_prefix msg (bs "$-1")); [discriminate|].
  destruct (index_byte msg LF) as [i|]; [|discriminate].
  destruct (Nat.ltb_spec i 2) as [|Hi]; [discriminate|].
  destruct (Nat.ltb_spec (length msg) (i + 4)) as [|Hl]; [discriminate|]. cbn [orb].
  destruct (parse_len _) as [n [e|]]; [discriminate|].
  destruct (163840 <? n)%Z; [discriminate|].
  destruct (Nat.ltb_spec (length msg - 3) (i + 1)); [lia | discriminate].
Qed.

Theorem loop_total st info msg : loop_step st info msg <> None.
Proof.
  unfold loop_step. pose proof (classify_no_crash msg).
  destruct (classify_probe msg); [discriminate | contradiction | discriminate].
Qed.

Theorem skip_keeps_state st info msg : classify_probe msg = PSkip -> loop_step st info msg = Some st.
Proof. unfold loop_step. intros ->. reflexivity. Qed.

(* the kinds of unusable reply the property names *)
Theorem unusable_kinds msg :
  (length msg < 3)%nat \/ has_prefix msg (bs "+OK") = true \/ has_prefix msg (bs "$-1") = true ->
  classify_probe msg = PSkip.
Proof.
  unfold classify_probe. intros [H|[H|H]].
  - destruct (Nat.ltb_spec (length msg) 3); [reflexivity | lia].
  - destruct (length msg <? 3)%nat; [reflexivity|]. rewrite H. reflexivity.
  - destruct (length msg <? 3)%nat; [reflexivity|]. destruct (has_prefix msg (bs "+OK")); [reflexivity|].
    rewrite H. reflexivity.
Qed.

(* an error line, or any reply whose header is not a canonical length, or an oversized one *)
Theorem unusable_header msg i :
  index_byte msg LF = Some i ->
  (snd (parse_len (firstn (i - 2) (skipn 1 msg))) <> None \/
   (163840 < fst (parse_len (firstn (i - 2) (skipn 1 msg))))%Z) ->
  classify_probe msg = PSkip.
Proof.
  intros Hi H. unfold classify_probe.
  destruct (length msg <? 3)%nat; [reflexivity|].
  destruct (has_prefix msg (bs "+OK")); [reflexivity|].
  destruct (has_prefix msg (bs "$-1")); [reflexivity|].
  rewrite Hi. destruct ((i <? 2)%nat || (length msg <? i + 4)%nat)%bool; [reflexivity|].
  destruct (parse_len (firstn (i - 2) (skipn 1 msg))) as [n [e|]]; [reflexivity|].
  cbn [fst snd] in H. destruct H as [H|H]; [congruence|].
  destruct (Z.ltb_spec 163840 n); [reflexivity | lia].
Qed.

(* a text with fewer than three usable nodes changes nothing *)
Theorem too_few_nodes_keeps_state st info text :
  parse_nodes (map cn_addr (cs_servers st)) info text = None -> update_cluster st info text = st.
Proof. unfold update_cluster. intros ->. reflexivity. Qed.

(* hence: any number of unusable replies in between never prevents a later update *)
Definition run_history (info : info_oracle) (msgs : list bytes) (st : cstate) : option cstate :=
  fold_left (fun acc m => match acc with Some s => loop_step s info m | None => None end) msgs (Some st).

Theorem unusable_do_not_block info skipped good st :
  Forall (fun m => classify_probe m = PSkip) skipped ->
  run_history info (skipped ++ [good]) st = loop_step st info good.
Proof.
  unfold run_history. rewrite fold_left_app. intro H.
  assert (Hs : fold_left (fun acc m => match acc with Some s => loop_step s info m | None => None end) skipped (Some st) = Some st).
  { induction H as [|m ms Hm _ IH]; [reflexivity|]. cbn [fold_left]. rewrite (skip_keeps_state st info m Hm). exact IH. }
  rewrite Hs. reflexivity.
Qed.

Theorem history_total info msgs st : run_history info msgs st <> None.
Proof.
  unfold run_history. revert st. induction msgs as [|m ms IH]; intro st; [discriminate|].
  cbn [fold_left]. pose proof (loop_total st info m) as H.
  destruct (loop_step st info m) as [s|]; [apply IH | contradiction].
Qed.

(* ---------- node filter rules ---------- *)
Lemma filter_map_in {A B} (f : A -> option B) l y : In y (filter_map f l) <-> exists x, In x l /\ f x = Some y.
Proof.
  induction l as [|a l IH]; cbn [filter_map].
  - split; [intros [] | intros (x & [] & _)].
  - destruct (f a) as [b|] eqn:E.
    + cbn [In]. rewrite IH. split.
      * intros [Hb|(x & Hx & Hf)]; [exists a; subst; auto | exists x; auto].
      * intros (x & [Hx|Hx] & Hf); [left; subst; congruence | right; exists x; auto].
    + rewrite IH. split.
      * intros (x & Hx & Hf). exists x. split; [right; exact Hx | exact Hf].
      * intros (x & [Hx|Hx] & Hf); [subst; congruence | exists x; auto].
Qed.

Definition usable_line (known : list bytes) (info : info_oracle) (line : bytes) (n : cnode) : Prop :=
  let xs := split_on 32 line in
  let flags := nth 2 xs [] in
  (8 <= length xs)%nat /\
  contains flags (bs "noaddr") = false /\ contains flags (bs "handshake") = false /\
  contains flags (bs "fail") = false /\
  (contains flags (bs "master") = true \/ contains flags (bs "slave") = true) /\
  contains (nth 7 xs []) (bs "disconnected") = false /\
  new_cluster_node xs = Some n /\
  (memb (cn_addr n) known = true \/
   exists loading link_up, info (cn_addr n) = Some (loading, link_up) /\
     (cn_slave n = true -> loading = false /\ link_up = true)).

Theorem line_node_rules known info line n : line_node known info line = Some n -> usable_line known info line n.
Proof.
  unfold line_node, usable_line. cbv zeta.
  destruct (Nat.ltb_spec (length (split_on 32 line)) 8) as [|H8]; [discriminate|].
  destruct (contains (nth 2 (split_on 32 line) []) (bs "noaddr")) eqn:E1; [discriminate|].
  destruct (contains (nth 2 (split_on 32 line) []) (bs "handshake")) eqn:E2; [discriminate|]. cbn [orb].
  destruct (contains (nth 2 (split_on 32 line) []) (bs "fail")) eqn:E3; [discriminate|].
  destruct (contains (nth 2 (split_on 32 line) []) (bs "master")) eqn:E4;
    destruct (contains (nth 2 (split_on 32 line) []) (bs "slave")) eqn:E5; cbn [negb andb]; try discriminate;
    (destruct (contains (nth 7 (split_on 32 line) []) (bs "disconnected")) eqn:E6; [discriminate|]);
    (destruct (new_cluster_node (split_on 32 line)) as [node|] eqn:E7; [|discriminate]);
    (destruct (memb (cn_addr node) known) eqn:E8;
     [intro H; inversion H; subst; repeat split; auto|]);
    (destruct (info (cn_addr node)) as [[loading link_up]|] eqn:E9; [|discriminate]);
    (destruct (cn_slave node) eqn:Es; cbn [andb];
     [destruct loading; [discriminate|]; destruct link_up; cbn [negb]; [|discriminate] |]);
    intro H; inversion H; subst; repeat split; auto; right; eexists; eexists; (split; [eassumption|]); rewrite ?Es; auto; discriminate.
Qed.

Theorem parsed_nodes_are_usable known info text nodes n :
  parse_nodes known info text = Some nodes -> In n nodes ->
  (3 <= length nodes)%nat /\ exists line, In line (split_on 10 text) /\ usable_line known info line n.
Proof.
  unfold parse_nodes.
  destruct (Nat.ltb_spec (length (filter_map (line_node known info) (split_on 10 text))) 3) as [Hlt|H3]; [discriminate|].
  intros Hsome Hin. inversion Hsome; subst. split; [exact H3|].
  apply filter_map_in in Hin as (line & Hl & Hn). exists line. split; [exact Hl | apply line_node_rules, Hn].
Qed.

(* ---------- slot numbers are within the table ---------- *)
Lemma parse_slot_range s a b : parse_slot s = Some (a, b) -> (0 <= a)%Z /\ (b < 16384)%Z.
Proof.
  unfold parse_slot. destruct (split_on 45 s) as [|x rest]; [discriminate|].
  destruct (parse_int 32 x) as [st|]; [|discriminate].
  destruct rest as [|y rest'].
  - destruct (Z.ltb_spec st 0) as [|H0]; [discriminate|]. cbn [orb].
    destruct (Z.leb_spec (Z.of_N RedisClusterSlots) st) as [|H1]; [discriminate|].
    intro E. inversion E; subst. change (Z.of_N RedisClusterSlots) with 16384%Z in *. lia.
  - destruct (parse_int 32 y) as [en|]; [|discriminate].
    destruct (Z.ltb_spec st 0) as [|H0]; [discriminate|]. cbn [orb].
    destruct (Z.leb_spec (Z.of_N RedisClusterSlots) en) as [|H1]; [discriminate|].
    intro E. inversion E; subst. change (Z.of_N RedisClusterSlots) with 16384%Z in *. lia.
Qed.

Lemma parse_slots_range cols : forall ss, parse_slots cols = Some ss ->
  Forall (fun r => (0 <= fst r)%Z /\ (snd r < 16384)%Z) ss.
Proof.
  induction cols as [|c cols IH]; intros ss H; cbn [parse_slots] in H.
  - inversion H. constructor.
  - destruct (has_prefix c [91]); [apply IH, H|].
    destruct (parse_slot c) as [[a b]|] eqn:E; [|discriminate].
    destruct (parse_slots cols) as [ss'|]; [|discriminate]. inversion H; subst.
    constructor; [apply (parse_slot_range c a b E) | apply IH; reflexivity].
Qed.

Theorem node_slots_in_range xs n : new_cluster_node xs = Some n ->
  Forall (fun r => (0 <= fst r)%Z /\ (snd r < 16384)%Z) (cn_slots n).
Proof.
  unfold new_cluster_node. destruct (parse_addr (nth 1 xs [])) as [|a0 addr]; [discriminate|].
  destruct (negb (contains (nth 2 xs []) (bs "master"))).
  - intro H. inversion H; subst. constructor.
  - destruct (length xs <? 9)%nat; [discriminate|].
    destruct (parse_slots (skipn 8 xs)) as [ss|] eqn:E; [|discriminate].
    intro H. inversion H; subst. cbn [cn_slots]. apply parse_slots_range with (cols := skipn 8 xs), E.
Qed.

(* every slot the ticker writes for a covering set is a valid index of the 16384-entry table *)
Theorem covered_slot_in_range rs slot :
  Forall (fun r => (0 <= fst r)%Z /\ (snd r < 16384)%Z) (cn_slots (fst rs)) ->
  covers rs slot = true -> (0 <= slot < 16384)%Z.
Proof.
  intros Hf Hc. unfold covers in Hc. apply existsb_exists in Hc as (r & Hr & Hb).
  rewrite Forall_forall in Hf. specialize (Hf r Hr).
  apply andb_true_iff in Hb as [H1 H2]. apply Z.leb_le in H1, H2. lia.
Qed.

(* ---------- the slot table ---------- *)
Lemma table_lookup_app sets rs slot :
  table_lookup (sets ++ [rs]) slot = if covers rs slot then Some rs else table_lookup sets slot.
Proof. unfold table_lookup. rewrite fold_left_app. reflexivity. Qed.

Theorem table_lookup_sound sets slot rs :
  table_lookup sets slot = Some rs -> In rs sets /\ covers rs slot = true.
Proof.
  induction sets as [|x sets IH] using rev_ind; [discriminate|].
  rewrite table_lookup_app. destruct (covers x slot) eqn:E.
  - intro H. inversion H; subst. split; [apply in_or_app; right; left; reflexivity | exact E].
  - intro H. destruct (IH H) as [Hin Hc]. split; [apply in_or_app; left; exact Hin | exact Hc].
Qed.

Theorem table_lookup_none sets slot :
  table_lookup sets slot = None <-> forall rs, In rs sets -> covers rs slot = false.
Proof.
  induction sets as [|x sets IH] using rev_ind.
  - split; [intros _ rs [] | reflexivity].
  - rewrite table_lookup_app. destruct (covers x slot) eqn:E.
    + split; [discriminate|]. intro H. rewrite (H x) in E; [discriminate | apply in_or_app; right; left; reflexivity].
    + rewrite IH. split.
      * intros H rs Hin. apply in_app_or in Hin as [Hin|[<-|[]]]; [apply H, Hin | exact E].
      * intros H rs Hin. apply H. apply in_or_app. left. exact Hin.
Qed.

(* with disjoint claims (any consistent cluster) the owner is THE set that claims the slot *)
Theorem table_lookup_unique sets slot rs :
  In rs sets -> covers rs slot = true ->
  (forall rs', In rs' sets -> covers rs' slot = true -> rs' = rs) ->
  table_lookup sets slot = Some rs.
Proof.
  intros Hin Hc Huniq. destruct (table_lookup sets slot) as [rs'|] eqn:E.
  - destruct (table_lookup_sound _ _ _ E) as [Hin' Hc']. rewrite (Huniq rs' Hin' Hc'). reflexivity.
  - rewrite table_lookup_none in E. rewrite (E rs Hin) in Hc. discriminate.
Qed.

(* ---------- replica sets ---------- *)
Lemma attach_masters sets n : map fst (attach sets n) = map fst sets.
Proof.
  induction sets as [|[m ss] sets IH]; [reflexivity|]. cbn [attach].
  destruct (beqb (cn_name m) (cn_masterid n)); cbn [map fst]; [reflexivity | rewrite IH; reflexivity].
Qed.

Lemma attach_in sets n m ss : In (m, ss) (attach sets n) ->
  exists ss0, In (m, ss0) sets /\ (ss = ss0 \/ (ss = ss0 ++ [n] /\ cn_name m = cn_masterid n)).
Proof.
  induction sets as [|[m0 s0] sets IH]; [intros []|]. cbn [attach].
  destruct (beqb (cn_name m0) (cn_masterid n)) eqn:E.
  - intros [H|H].
    + inversion H; subst. exists s0. split; [left; reflexivity|]. right. split; [reflexivity | apply beqb_eq, E].
    + exists ss. split; [right; exact H | left; reflexivity].
  - intros [H|H].
    + inversion H; subst. exists ss. split; [left; reflexivity | left; reflexivity].
    + destruct (IH H) as (ss0 & Hin & Hs). exists ss0. split; [right; exact Hin | exact Hs].
Qed.

Theorem replica_sets_sound nodes m ss :
  In (m, ss) (set_replicaset nodes) ->
  In m nodes /\ cn_slave m = false /\
  forall s, In s ss -> In s nodes /\ cn_slave s = true /\ cn_masterid s = cn_name m.
Proof.
  unfold set_replicaset.
  set (masters := map (fun m0 : cnode => (m0, @nil cnode)) (filter (fun n => negb (cn_slave n)) nodes)).
  assert (Hgen : forall slaves sets,
            (forall s, In s slaves -> In s nodes /\ cn_slave s = true) ->
            (forall m0 ss0, In (m0, ss0) sets -> In m0 nodes /\ cn_slave m0 = false /\
                 forall s, In s ss0 -> In s nodes /\ cn_slave s = true /\ cn_masterid s = cn_name m0) ->
            forall m0 ss0, In (m0, ss0) (fold_left attach slaves sets) -> In m0 nodes /\ cn_slave m0 = false /\
                 forall s, In s ss0 -> In s nodes /\ cn_slave s = true /\ cn_masterid s = cn_name m0).
  { induction slaves as [|n slaves IH]; intros sets Hsl Hsets m0 ss0 Hin; [apply Hsets, Hin|].
    cbn [fold_left] in Hin. apply (IH (attach sets n)) in Hin; [exact Hin | intros s Hs; apply Hsl; right; exact Hs|].
    intros m1 ss1 H1. apply attach_in in H1 as (ss2 & Hin2 & Hs2).
    destruct (Hsets _ _ Hin2) as (Hm & Hr & Hall). split; [exact Hm|]. split; [exact Hr|].
    destruct Hs2 as [->|[-> Hname]]; [exact Hall|].
    intros s Hs. apply in_app_or in Hs as [Hs|[<-|[]]]; [apply Hall, Hs|].
    destruct (Hsl n (or_introl eq_refl)) as [Hn Hsn]. auto. }
  apply Hgen.
  - intros s Hs. apply filter_In in Hs. exact Hs.
  - intros m0 ss0 Hin. unfold masters in Hin. apply in_map_iff in Hin as (x & E & Hx). inversion E; subst.
    apply filter_In in Hx as [Hx Hr]. apply negb_true_iff in Hr. split; [exact Hx|]. split; [exact Hr|]. intros s [].
Qed.

(* ---------- pools follow the node list ---------- *)
Lemma memb_In x l : memb x l = true <-> In x l.
Proof.
  unfold memb. rewrite existsb_exists. split.
  - intros (y & Hy & E). apply beqb_eq in E. subst. exact Hy.
  - intro H. exists x. split; [exact H | apply beqb_refl].
Qed.

Theorem tick_pools_addresses pools servers a :
  In a (map fst (tick_pools pools servers)) <-> In a (map cn_addr servers).
Proof.
  unfold tick_pools. rewrite map_app, in_app_iff, !map_map. cbn [fst]. split.
  - intros [H|H].
    + apply in_map_iff in H as (p & E & Hp). apply filter_In in Hp as [_ Hm].
      destruct (find _ servers); cbn [fst] in E; subst; apply memb_In, Hm.
    + apply in_map_iff in H as (n & <- & Hn). apply filter_In in Hn as [Hn _]. apply in_map, Hn.
  - intro H. destruct (memb a (map fst pools)) eqn:E.
    + left. apply memb_In in E. apply in_map_iff in E as (p & <- & Hp).
      apply in_map_iff. exists p. split.
      * destruct (find _ servers); reflexivity.
      * apply filter_In. split; [exact Hp | apply memb_In, H].
    + right. apply in_map_iff in H as (n & <- & Hn). apply in_map_iff. exists n. split; [reflexivity|].
      apply filter_In. split; [exact Hn | rewrite E; reflexivity].
Qed.

(* ---------- adoption ---------- *)
Theorem adopt_changed st info text nodes :
  parse_nodes (map cn_addr (cs_servers st)) info text = Some nodes ->
  (length nodes <> length (cs_servers st) \/ fingerprint nodes <> cs_last st) ->
  update_cluster st info text
  = {| cs_servers := set_server nodes; cs_sets := set_replicaset nodes; cs_last := fingerprint nodes; cs_changed := true |}.
Proof.
  intros Hp Hc. unfold update_cluster. rewrite Hp.
  assert ((negb (length nodes =? length (cs_servers st))%nat || negb (beqb (fingerprint nodes) (cs_last st)))%bool = true) as ->; [|reflexivity].
  destruct Hc as [Hc|Hc].
  - apply Nat.eqb_neq in Hc. rewrite Hc. reflexivity.
  - apply beqb_neq in Hc. rewrite Hc. apply orb_true_r.
Qed.
