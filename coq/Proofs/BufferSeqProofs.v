(* Conformance of the three buffers to the FIFO queue over arbitrary operation sequences (C19). *)
From RcProxy Require Import Base.Bytes Model.Buffers Spec.FifoSpec Proofs.RingProofs Proofs.BufferProofs.
From Coq Require Import Arith Lia ZifyNat ZifyN ZifyBool NArith.
Local Open Scope nat_scope.

Lemma fold_ring_write : forall bs rb c, rview rb c -> small_size (length c + length (concat bs)) ->
  rview (fold_left ring_write bs rb) (c ++ concat bs).
Proof.
  induction bs as [|b bs IH]; intros rb c H Hs; cbn [fold_left concat].
  - rewrite app_nil_r. exact H.
  - cbn [concat] in Hs. rewrite app_length in Hs. rewrite app_assoc. apply IH.
    + apply ring_write_spec; [exact H | unfold small_size in *; lia].
    + unfold small_size in *. rewrite app_length. lia.
Qed.

Lemma fold_er_write cap0 : forall bs b c, erview b c -> small_size (length c + length (concat bs)) ->
  erview (fold_left (fun b p => er_write b cap0 p) bs b) (c ++ concat bs).
Proof.
  induction bs as [|x bs IH]; intros b c H Hs; cbn [fold_left concat].
  - rewrite app_nil_r. exact H.
  - cbn [concat] in Hs. rewrite app_length in Hs. rewrite app_assoc. apply IH.
    + apply er_write_spec; [exact H | unfold small_size in *; lia].
    + unfold small_size in *. rewrite app_length. lia.
Qed.

Lemma fifo_step_length q op : length (fst (fifo_step q op)) <= length q + op_bytes op.
Proof.
  destruct op; cbn [fifo_step fst op_bytes]; rewrite ?app_length, ?skipn_length; cbn [length]; lia.
Qed.

Theorem ring_conforms : forall ops rb q, rview rb q -> small_size (length q + written ops) ->
  conforms ring_step ring_buffered rg_empty rb q ops.
Proof.
  induction ops as [|op rest IH]; intros rb q H Hs; cbn [conforms]; [exact I|].
  cbn [written fold_right] in Hs. fold (written rest) in Hs.
  assert (Hnext : forall rb' q', rview rb' q' -> length q' <= length q + op_bytes op ->
            ring_buffered rb' = length q' /\ (rg_empty rb' = true <-> q' = []) /\ conforms ring_step ring_buffered rg_empty rb' q' rest).
  { intros rb' q' Hv Hl. split; [apply view_buffered, Hv|]. split; [apply view_empty, Hv|].
    apply IH; [exact Hv | unfold small_size in *; lia]. }
  destruct op as [p c0|bs c0|pos n|n|k|]; cbn [ring_step fifo_step op_bytes] in *.
  - split; [reflexivity|]. apply Hnext; [|rewrite app_length; lia].
    apply ring_write_spec; [exact H | unfold small_size in *; lia].
  - split; [reflexivity|]. apply Hnext; [|rewrite app_length; lia].
    apply fold_ring_write; [exact H | unfold small_size in *; lia].
  - destruct (ring_peek rb pos n) as [h t] eqn:E. rewrite (ring_peek_spec _ _ _ _ _ _ H E).
    split; [reflexivity|]. apply Hnext; [exact H | lia].
  - destruct (ring_discard rb n) as [d rb'] eqn:E. destruct (ring_discard_spec _ _ _ _ _ H E) as [-> Hv].
    split; [reflexivity|]. apply Hnext; [exact Hv | rewrite skipn_length; lia].
  - destruct (ring_read rb k) as [o rb'] eqn:E. destruct (ring_read_spec _ _ _ _ _ H E) as (H1 & H2 & H3).
    destruct (Nat.eq_dec k 0) as [->|Hk].
    + destruct (H1 eq_refl) as [-> ->]. cbn [firstn skipn]. split; [reflexivity|]. apply Hnext; [exact H | lia].
    + destruct q as [|x q'].
      * destruct (H2 ltac:(lia) eq_refl) as [-> ->]. rewrite firstn_nil, skipn_nil. split; [reflexivity|]. apply Hnext; [exact H | cbn; lia].
      * destruct (H3 ltac:(lia) ltac:(discriminate)) as [-> Hv]. split; [reflexivity|].
        apply Hnext; [exact Hv | rewrite skipn_length; lia].
  - split; [reflexivity|]. apply Hnext; [eapply view_reset, H | cbn; lia].
Qed.

Theorem er_conforms : forall ops b q, erview b q -> small_size (length q + written ops) ->
  conforms er_step er_buffered er_is_empty b q ops.
Proof.
  induction ops as [|op rest IH]; intros b q H Hs; cbn [conforms]; [exact I|].
  cbn [written fold_right] in Hs. fold (written rest) in Hs.
  assert (Hnext : forall b' q', erview b' q' -> length q' <= length q + op_bytes op ->
            er_buffered b' = length q' /\ (er_is_empty b' = true <-> q' = []) /\ conforms er_step er_buffered er_is_empty b' q' rest).
  { intros b' q' Hv Hl. split; [apply er_buffered_spec, Hv|]. split; [apply er_is_empty_spec, Hv|].
    apply IH; [exact Hv | unfold small_size in *; lia]. }
  destruct op as [p c0|bs c0|pos n|n|k|]; cbn [er_step fifo_step op_bytes] in *.
  - split; [reflexivity|]. apply Hnext; [|rewrite app_length; lia].
    apply er_write_spec; [exact H | unfold small_size in *; lia].
  - split; [reflexivity|]. apply Hnext; [|rewrite app_length; lia].
    apply fold_er_write; [exact H | unfold small_size in *; lia].
  - destruct (er_peek b pos n) as [h t] eqn:E. rewrite (er_peek_spec _ _ _ _ _ _ H E).
    split; [reflexivity|]. apply Hnext; [exact H | lia].
  - destruct (er_discard b n) as [d b'] eqn:E. destruct (er_discard_spec _ _ _ _ _ H E) as [-> Hv].
    split; [reflexivity|]. apply Hnext; [exact Hv | rewrite skipn_length; lia].
  - destruct (er_read b k) as [o b'] eqn:E. destruct (er_read_spec _ _ _ _ _ H E) as [-> Hv].
    split; [reflexivity|]. apply Hnext; [exact Hv | rewrite skipn_length; lia].
  - split; [reflexivity|]. apply Hnext; [eapply er_reset_view, H | cbn; lia].
Qed.

Theorem eb_conforms_all : forall ops b q, ebview b q -> small_size (length q + written ops) -> eb_conforms b q ops.
Proof.
  induction ops as [|op rest IH]; intros b q H Hs; cbn [eb_conforms]; [exact I|].
  cbn [written fold_right] in Hs. fold (written rest) in Hs.
  assert (Hnext : forall b' q', ebview b' q' -> length q' <= length q + op_bytes op ->
            eb_buffered b' = length q' /\ (eb_is_empty b' = true <-> q' = []) /\ eb_conforms b' q' rest).
  { intros b' q' Hv Hl. split; [apply eb_buffered_spec, Hv|]. split; [apply eb_is_empty_spec, Hv|].
    apply IH; [exact Hv | unfold small_size in *; lia]. }
  destruct op as [p c0|bs c0|pos n|n|k|]; cbn [eb_step fifo_step fst snd op_bytes res_ok] in *.
  - split; [reflexivity|]. apply Hnext; [|rewrite app_length; lia].
    apply eb_write_spec; [exact H | unfold small_size in *; lia].
  - split; [reflexivity|]. apply Hnext; [|rewrite app_length; lia].
    apply eb_writev_spec; [exact H | unfold small_size in *; lia].
  - split; [apply eb_peek_spec, H|]. apply Hnext; [exact H | lia].
  - destruct (eb_discard b n) as [d b'] eqn:E. destruct (eb_discard_spec _ _ _ _ _ H E) as [-> Hv].
    split; [reflexivity|]. apply Hnext; [exact Hv | rewrite skipn_length; lia].
  - destruct (eb_read b k) as [d b'] eqn:E. destruct (eb_read_spec _ _ _ _ _ H E) as [-> Hv].
    split; [reflexivity|]. apply Hnext; [exact Hv | rewrite skipn_length; lia].
  - split; [reflexivity|]. apply Hnext; [eapply eb_reset_view, H | cbn; lia].
Qed.
