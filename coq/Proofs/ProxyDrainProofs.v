(* Backend replies are consumed at once (C09, backend side): when the event that delivers bytes to a
   backend connection ends, no complete reply is left undecoded in that connection's buffer - the read
   loop goes on until the decoder asks for more bytes.  (A loop that stops after a redirect, say,
   would leave the replies that arrived in the same read behind until the node sends more.) *)
From RcProxy Require Import Base.Bytes Base.Dec Gen.Generated Spec.RespGrammar
  Model.RespBuf Model.Commands Model.Crc16 Model.ClientCodec Model.ClientFeed Model.ServerCodec Model.Route
  Model.Cluster Model.Proxy Proofs.RespBufProofs Proofs.ProxyProofs Proofs.ProxyServerProofs.
From Coq Require Import ZifyN ZifyNat ZifyBool.
Open Scope N_scope.

(* ---------- the reply reader always consumes something ---------- *)
Lemma read_line_shrinks l line rest : read_line l = Ok (line, rest) -> (length rest < length l)%nat.
Proof.
  intro H. apply read_line_ok_inv in H. destruct H as (-> & Hne & _).
  rewrite !app_length. destruct line; [congruence|]. cbn [length]. lia.
Qed.

Lemma read_n_no_growth n l a rest : read_n n l = Ok (a, rest) -> (length rest <= length l)%nat.
Proof.
  unfold read_n. destruct l as [|x xs]; [discriminate|].
  destruct (Z.of_nat (length (x :: xs)) <? n)%Z; [discriminate|]. intro H. inversion H; subst.
  rewrite skipn_length. lia.
Qed.

Lemma loop_replies_no_growth (rr : bytes -> option (res (N * bytes))) :
  (forall l ty rest, rr l = Some (Ok (ty, rest)) -> (length rest <= length l)%nat) ->
  forall k n r ty rest, loop_replies rr k n r = Some (Ok (ty, rest)) -> (length rest <= length r)%nat.
Proof.
  intros Hrr. induction k as [|k IH]; intros n r ty rest; cbn [loop_replies].
  - destruct (n <=? 0)%Z; [intro H; inversion H; subst; lia | discriminate].
  - destruct (n <=? 0)%Z; [intro H; inversion H; subst; lia|].
    destruct (rr r) as [[[t r']|e]|] eqn:Er; try discriminate.
    intro H. apply IH in H. apply Hrr in Er. lia.
Qed.

Lemma read_reply_shrinks : forall f l ty rest, read_reply f l = Some (Ok (ty, rest)) -> (length rest < length l)%nat.
Proof.
  induction f as [|f IH]; intros l ty rest; cbn [read_reply]; [discriminate|].
  destruct (read_line l) as [[line rest0]|e] eqn:El; [|discriminate].
  apply read_line_shrinks in El.
  destruct line as [|m digits]; [discriminate|].
  destruct (N.eqb m 43); [intro H; inversion H; subst; exact El|].
  destruct (N.eqb m 58); [intro H; inversion H; subst; exact El|].
  destruct (N.eqb m 45); [intro H; inversion H; subst; exact El|].
  destruct (N.eqb m 36).
  - destruct (parse_len digits) as [n err]. destruct err; [discriminate|].
    destruct (n <? 0)%Z; [intro H; inversion H; subst; exact El|].
    destruct (read_n n rest0) as [[a rest1]|e] eqn:E1; [|discriminate].
    destruct (read_n 2 rest1) as [[cr rest2]|e] eqn:E2; [|discriminate].
    destruct (beqb cr crlf); [|discriminate]. intro H; inversion H; subst.
    apply read_n_no_growth in E1. apply read_n_no_growth in E2. lia.
  - destruct (N.eqb m 42); [|discriminate].
    destruct (parse_len digits) as [n err]. destruct err; [discriminate|].
    destruct (n <? 0)%Z; [intro H; inversion H; subst; exact El|].
    intro H. apply (loop_replies_no_growth (read_reply f)) in H; [lia|].
    intros l0 t0 r0 H0. apply IH in H0. lia.
Qed.

Lemma sdecode_consumes b ty n : sdecode b = SReply ty n -> (1 <= n <= length b)%nat.
Proof.
  unfold sdecode. destruct b as [|x xs]; [discriminate|]. remember (x :: xs) as b eqn:Eb.
  destruct (read_reply (S (length b)) b) as [[[t rest]|e]|] eqn:E; try discriminate.
  - intro H. apply read_reply_shrinks in E. injection H as _ Hn. lia.
  - destruct e; discriminate.
Qed.

(* ---------- the read loop of a backend connection ---------- *)
(* nothing decodable is left: the decoder waits for more bytes (or the handshake reply is incomplete) *)
Definition drained (st : pst) (s : nat) : Prop :=
  forall sv, lookup s (servers st) = Some sv -> ps_open sv = true ->
    sdecode (ps_left sv) = SWait \/ (ps_initializing sv = true /\ init_decode (ps_step sv) (ps_left sv) = IWait).

Lemma with_left_lookup st s b sv : lookup s (servers st) = Some sv ->
  exists sv', lookup s (servers (with_left st s b)) = Some sv' /\ ps_left sv' = b /\
              ps_initializing sv' = ps_initializing sv /\ ps_step sv' = ps_step sv.
Proof.
  intro H. unfold with_left. rewrite H. eexists. cbn [set_server servers]. rewrite lookup_update_eq.
  split; [reflexivity|]. cbn. auto.
Qed.

Definition k_drain (f : nat) (k : pst -> nat -> bytes -> result pst) : Prop :=
  forall st s buf st', (length buf < f)%nat -> k st s buf = ROk st' -> drained st' s.

Lemma decode_reply_drains f k st s buf st' : k_drain f k -> (length buf <= f)%nat ->
  decode_reply k st s buf = ROk st' -> drained st' s.
Proof.
  intros Hk Hlen. unfold decode_reply. destruct (sdecode buf) as [| | |ty n] eqn:Ed; try discriminate.
  - intro E; apply ROk_inj in E; subst. intros sv' Hl _.
    destruct (lookup s (servers st)) as [sv|] eqn:Hs.
    + destruct (with_left_lookup st s buf sv Hs) as (sv2 & A & B & _). rewrite A in Hl. injection Hl as <-. left. rewrite B. exact Ed.
    + unfold with_left in Hl. rewrite Hs in Hl. congruence.
  - apply sdecode_consumes in Ed.
    destruct (on_reply st s ty (firstn n buf)) as [st1| | |]; try discriminate.
    apply Hk. rewrite skipn_length. lia.
Qed.

Lemma server_iter_drains f k st s buf st' : k_drain f k -> (length buf <= f)%nat ->
  server_iter k st s buf = ROk st' -> drained st' s.
Proof.
  intros Hk Hlen. unfold server_iter. destruct (lookup s (servers st)) as [sv|] eqn:Hs.
  2:{ intro E; apply ROk_inj in E; subst. intros sv' Hl. congruence. }
  destruct (ps_open sv) eqn:Ho; cbn [negb].
  2:{ intro E; apply ROk_inj in E; subst. intros sv' Hl Ho'. congruence. }
  destruct (ps_initializing sv) eqn:Hi; [|apply (decode_reply_drains f); assumption].
  destruct (init_decode (ps_step sv) buf) as [| |n|] eqn:Ei; try discriminate.
  - intro E; apply ROk_inj in E; subst. intros sv' Hl _.
    destruct (with_left_lookup st s buf sv Hs) as (sv2 & A & B & C & D). rewrite A in Hl. injection Hl as <-.
    right. rewrite B, C, D. auto.
  - match goal with |- context [set_server st s ?x] => set (st1 := set_server st s x) end.
    destruct (skipn n buf) as [|y ys] eqn:Esk.
    + intro E; apply ROk_inj in E; subst. intros sv' Hl _. unfold st1 in Hl. cbn [set_server servers] in Hl.
      rewrite lookup_update_eq in Hl. inversion Hl; subst. left. reflexivity.
    + apply (decode_reply_drains f); [exact Hk|]. rewrite <- Esk, skipn_length. lia.
  - apply (decode_reply_drains f); assumption.
Qed.

Lemma server_loop_drains : forall f, k_drain f (server_loop f).
Proof.
  induction f as [|f IH]; intros st s buf st' Hlen; [lia|]. cbn [server_loop].
  apply (server_iter_drains f); [exact IH | lia].
Qed.

Theorem server_data_drains st s b st' : server_data st s b = ROk st' -> drained st' s.
Proof.
  unfold server_data. destruct (lookup s (servers st)) as [sv|] eqn:Hs.
  - destruct (ps_open sv) eqn:Ho.
    + apply server_loop_drains. lia.
    + intro E; apply ROk_inj in E; subst. intros sv' Hl Ho'. congruence.
  - intro E; apply ROk_inj in E; subst. intros sv' Hl. congruence.
Qed.
