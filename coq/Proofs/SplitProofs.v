(* Proofs for C06: grouping by slot is an exact partition, and each fragment is the canonical
   encoding of the command applied to its group. Generic in the slot function. *)
From RcProxy Require Import Base.Bytes Base.Dec Gen.Generated Spec.RespGrammar Spec.SplitSpec
  Model.RespBuf Model.Commands Model.Crc16 Model.ClientCodec.
From Coq Require Import Permutation.
Open Scope N_scope.

Section Grouping.
  Context {A : Type}.
  Variable sigma : bytes -> N.
  Variable key : A -> bytes.

  Definition sel (s : N) (x : A) : bool := N.eqb (sigma (key x)) s.

  (* slots in order of first appearance *)
  Fixpoint order_add (s : N) (ord : list N) : list N :=
    match ord with
    | [] => [s]
    | t :: r => if N.eqb t s then t :: r else t :: order_add s r
    end.
  Definition order (items : list A) : list N :=
    fold_left (fun o x => order_add (sigma (key x)) o) items [].

  Definition groups_of (pre : list A) (ord : list N) : list (N * list A) :=
    map (fun t => (t, filter (sel t) pre)) ord.

  Lemma order_add_in s ord t : In t (order_add s ord) <-> t = s \/ In t ord.
  Proof.
    induction ord as [|u r IH]; simpl; [intuition|].
    destruct (N.eqb_spec u s) as [->|Hne]; simpl; [intuition|].
    rewrite IH. intuition.
  Qed.

  Lemma order_add_nodup s ord : NoDup ord -> NoDup (order_add s ord).
  Proof.
    induction ord as [|u r IH]; simpl; intro H.
    - constructor; [intros []|constructor].
    - destruct (N.eqb_spec u s) as [->|Hne]; [exact H|].
      inversion H; subst. constructor; [|apply IH; assumption].
      rewrite order_add_in. intros [E|E]; [congruence | contradiction].
  Qed.

  Lemma filter_snoc (f : A -> bool) l x : filter f (l ++ [x]) = filter f l ++ (if f x then [x] else []).
  Proof. rewrite filter_app. reflexivity. Qed.

  Lemma filter_snoc_eq pre x s : sigma (key x) = s -> filter (sel s) (pre ++ [x]) = filter (sel s) pre ++ [x].
  Proof. intro E. rewrite filter_snoc. unfold sel at 2. rewrite E, N.eqb_refl. reflexivity. Qed.

  Lemma filter_snoc_ne pre x s : sigma (key x) <> s -> filter (sel s) (pre ++ [x]) = filter (sel s) pre.
  Proof.
    intro E. rewrite filter_snoc. unfold sel at 2.
    destruct (N.eqb_spec (sigma (key x)) s); [contradiction | apply app_nil_r].
  Qed.

  Lemma group_add_groups pre x ord :
    NoDup ord -> (~ In (sigma (key x)) ord -> filter (sel (sigma (key x))) pre = []) ->
    group_add (sigma (key x)) x (groups_of pre ord)
    = groups_of (pre ++ [x]) (order_add (sigma (key x)) ord).
  Proof.
    set (s := sigma (key x)).
    induction ord as [|t r IH]; intros Hnd Hs.
    - cbn [groups_of map group_add order_add].
      rewrite (filter_snoc_eq pre x s eq_refl), Hs by (intros []). reflexivity.
    - cbn [groups_of map group_add order_add fst snd]. inversion Hnd as [|? ? Hnt Hr]; subst.
      destruct (N.eqb_spec t s) as [Ets|Hne].
      + cbn [map]. f_equal.
        * rewrite Ets. rewrite (filter_snoc_eq pre x s eq_refl). reflexivity.
        * apply map_ext_in. intros u Hu. f_equal.
          rewrite filter_snoc_ne; [reflexivity|]. fold s. intro E. subst u. rewrite <- Ets in Hu. contradiction.
      + cbn [map]. f_equal.
        * f_equal. rewrite filter_snoc_ne; [reflexivity|]. fold s. congruence.
        * apply IH; [assumption|]. intro H. apply Hs. intros [E|E]; [congruence | contradiction].
  Qed.

  Lemma group_by_spec_gen items : forall pre ord,
    NoDup ord -> (forall s, ~ In s ord -> filter (sel s) pre = []) ->
    fold_left (fun g x => group_add (sigma (key x)) x g) items (groups_of pre ord)
    = groups_of (pre ++ items) (fold_left (fun o x => order_add (sigma (key x)) o) items ord)
    /\ NoDup (fold_left (fun o x => order_add (sigma (key x)) o) items ord).
  Proof.
    induction items as [|x items IH]; intros pre ord Hnd Hs; simpl.
    - rewrite app_nil_r. auto.
    - rewrite group_add_groups by auto.
      replace (pre ++ x :: items) with ((pre ++ [x]) ++ items) by (rewrite <- app_assoc; reflexivity).
      apply IH; [apply order_add_nodup, Hnd|].
      intros s Hn. rewrite order_add_in in Hn.
      rewrite filter_snoc_ne by (intro E; apply Hn; auto). apply Hs. tauto.
  Qed.

  Theorem group_by_spec items :
    group_by sigma key items = groups_of items (order items) /\ NoDup (order items).
  Proof.
    unfold group_by, order.
    pose proof (group_by_spec_gen items [] [] (NoDup_nil _) (fun _ _ => eq_refl)) as H.
    simpl in H. exact H.
  Qed.

  Lemma order_in_gen items : forall ord s,
    In s (fold_left (fun o x => order_add (sigma (key x)) o) items ord)
    <-> In s ord \/ exists x, In x items /\ sigma (key x) = s.
  Proof.
    induction items as [|x items IH]; intros ord s; simpl.
    - split; [auto | intros [H|(x & [] & _)]; exact H].
    - rewrite IH, order_add_in. split.
      + intros [[E|H]|(y & Hy & E)]; [right; exists x; auto | auto | right; exists y; auto].
      + intros [H|(y & [E|Hy] & E')]; [auto | subst; auto | right; exists y; auto].
  Qed.

  Lemma order_in items s : In s (order items) <-> exists x, In x items /\ sigma (key x) = s.
  Proof. unfold order. rewrite order_in_gen. simpl. intuition. Qed.

  Lemma map_fst_groups pre ord : map fst (groups_of pre ord) = ord.
  Proof. unfold groups_of. rewrite map_map. simpl. apply map_id. Qed.
End Grouping.

(* ---------- fragment bytes ---------- *)
Lemma frag1_req_enc name keys : frag1_req name keys = enc_request (name :: keys).
Proof.
  unfold frag1_req, enc_request. cbn [map concat length].
  replace (length keys + 1)%nat with (S (length keys)) by lia.
  rewrite <- ?app_assoc. reflexivity.
Qed.

Lemma flat_enc kvs :
  concat (map (fun kv : bytes * bytes => enc_bulk (fst kv) ++ enc_bulk (snd kv)) kvs)
  = concat (map enc_bulk (flat kvs)).
Proof.
  induction kvs as [|kv kvs IH]; [reflexivity|].
  unfold flat in *. cbn [map concat]. rewrite map_app, concat_app. cbn [map concat].
  rewrite IH, app_nil_r, <- app_assoc. reflexivity.
Qed.

Lemma length_flat kvs : length (flat kvs) = (length kvs * 2)%nat.
Proof.
  induction kvs as [|kv kvs IH]; [reflexivity|].
  unfold flat in *. cbn [map concat]. rewrite app_length, IH. simpl. lia.
Qed.

Lemma frag2_req_enc kvs : frag2_req kvs = enc_request (bs "mset" :: flat kvs).
Proof.
  unfold frag2_req, enc_request. cbn [map concat length]. rewrite length_flat, flat_enc.
  replace (length kvs * 2 + 1)%nat with (S (length kvs * 2)) by lia.
  rewrite <- ?app_assoc. reflexivity.
Qed.

Lemma map_fst_relabel {A B} (h : A -> B) (G : list (N * A)) :
  map fst (map (fun g => (fst g, h (snd g))) G) = map fst G.
Proof. rewrite map_map. reflexivity. Qed.

(* ---------- the split of the model is correct, for any slot function ---------- *)
Definition frags1 (sigma : bytes -> N) (name : bytes) (keys : list bytes) : list (N * bytes) :=
  map (fun g => (fst g, frag1_req name (snd g))) (group_by sigma (fun k => k) keys).

Definition frags2 (sigma : bytes -> N) (kvs : list (bytes * bytes)) : list (N * bytes) :=
  map (fun g => (fst g, frag2_req (snd g))) (group_by sigma (fun kv : bytes * bytes => fst kv) kvs).

Theorem split1_correct sigma name keys : wf_split1 sigma name keys (frags1 sigma name keys).
Proof.
  unfold frags1. destruct (group_by_spec sigma (fun k : bytes => k) keys) as [-> Hnd].
  assert (Hfst : map fst (map (fun g : N * list bytes => (fst g, frag1_req name (snd g)))
                   (groups_of sigma (fun k => k) keys (order sigma (fun k => k) keys)))
                 = order sigma (fun k => k) keys).
  { rewrite (map_fst_relabel (frag1_req name)). apply map_fst_groups. }
  split; [rewrite Hfst; exact Hnd|]. split.
  - intro s. rewrite Hfst. apply order_in.
  - intros s req Hin. apply in_map_iff in Hin as ([t xs] & E & Hin). simpl in E. inversion E; subst.
    unfold groups_of in Hin. apply in_map_iff in Hin as (u & E' & _). inversion E'; subst.
    rewrite frag1_req_enc. reflexivity.
Qed.

Theorem split2_correct sigma kvs : wf_split2 sigma kvs (frags2 sigma kvs).
Proof.
  unfold frags2. destruct (group_by_spec sigma (fun kv : bytes * bytes => fst kv) kvs) as [-> Hnd].
  set (key := fun kv : bytes * bytes => fst kv).
  assert (Hfst : map fst (map (fun g : N * list (bytes * bytes) => (fst g, frag2_req (snd g)))
                   (groups_of sigma key kvs (order sigma key kvs))) = order sigma key kvs).
  { rewrite (map_fst_relabel frag2_req). apply map_fst_groups. }
  split; [rewrite Hfst; exact Hnd|]. split.
  - intro s. rewrite Hfst. apply order_in.
  - intros s req Hin. apply in_map_iff in Hin as ([t xs] & E & Hin). simpl in E. inversion E; subst.
    unfold groups_of in Hin. apply in_map_iff in Hin as (u & E' & _). inversion E'; subst.
    rewrite frag2_req_enc. reflexivity.
Qed.

(* the partition corollary: concatenating the groups in slot order is a permutation of the
   items — every occurrence exactly once, nothing else *)
Lemma filter_partition {A} (f : A -> N) (l : list A) (ord : list N) :
  NoDup ord -> (forall x, In x l -> In (f x) ord) ->
  Permutation (concat (map (fun s => filter (fun x => N.eqb (f x) s) l) ord)) l.
Proof.
  revert ord. induction l as [|x l IH]; intros ord Hnd Hin.
  - clear Hnd Hin. induction ord as [|s ord IHo]; [constructor | simpl; exact IHo].
  - assert (Hx : In (f x) ord) by (apply Hin; left; reflexivity).
    apply in_split in Hx as (o1 & o2 & ->).
    rewrite map_app, concat_app. cbn [map concat filter]. rewrite N.eqb_refl.
    assert (Hother : forall o, ~ In (f x) o ->
              map (fun s => filter (fun y => f y =? s) (x :: l)) o
              = map (fun s => filter (fun y => f y =? s) l) o).
    { intros o Ho. apply map_ext_in. intros s Hs. cbn [filter].
      destruct (N.eqb_spec (f x) s) as [E|]; [subst s; contradiction | reflexivity]. }
    apply NoDup_remove_2 in Hnd as Hnot.
    rewrite !Hother by (intro; apply Hnot; apply in_or_app; auto).
    apply Permutation_trans with
      (x :: concat (map (fun s => filter (fun y => f y =? s) l) o1)
            ++ filter (fun y => f y =? f x) l ++ concat (map (fun s => filter (fun y => f y =? s) l) o2)).
    + rewrite app_comm_cons. apply Permutation_sym.
      apply (Permutation_middle _ (filter (fun y => f y =? f x) l ++ _) x).
    + constructor.
      specialize (IH (o1 ++ f x :: o2) Hnd (fun y Hy => Hin y (or_intror Hy))).
      rewrite map_app, concat_app in IH. exact IH.
Qed.

Corollary split1_partition sigma keys :
  Permutation (concat (map snd (group_by sigma (fun k : bytes => k) keys))) keys.
Proof.
  destruct (group_by_spec sigma (fun k : bytes => k) keys) as [-> Hnd].
  unfold groups_of. rewrite map_map. simpl.
  apply filter_partition; [exact Hnd|]. intros x Hx. apply order_in. exists x. auto.
Qed.
