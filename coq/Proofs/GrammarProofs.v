(* The executable strict recogniser used by the oracles accepts every request of the grammar
   (and returns its arguments): so when it answers None on forwarded bytes, those bytes are
   NOT a request a Redis server accepts. *)
From RcProxy Require Import Base.Bytes Base.Dec Spec.RespGrammar Model.RespBuf Proofs.DecProofs Proofs.RespBufProofs.
From Coq Require Import ZifyN ZifyNat ZifyBool.
Open Scope N_scope.

Lemma strict_num_dval p acc : all_digits p -> strict_num p acc = Some (dval p acc).
Proof.
  revert acc; induction p as [|b p IH]; intros acc Hd; [reflexivity|].
  inversion Hd as [|x xs Hb Hp]; subst. cbn [strict_num]. rewrite Hb. apply IH, Hp.
Qed.

Lemma strict_dec_itoa n : strict_dec (itoa n) = Some n.
Proof.
  pose proof (itoa_canonical n) as (Hne & Hd & Hz). pose proof (itoa_dval n) as Hv.
  unfold strict_dec. destruct (itoa n) as [|d r] eqn:E; [contradiction|].
  destruct (N.eqb_spec d 48) as [->|Hd0].
  - specialize (Hz eq_refl). inversion Hz; subst. reflexivity.
  - rewrite strict_num_dval by exact Hd. rewrite Hv. reflexivity.
Qed.

Lemma take_line_cons x y r :
  take_line (x :: y :: r) =
  if (N.eqb x 13 && N.eqb y 10)%bool then Some ([], r)
  else match take_line (y :: r) with Some (a, b) => Some (x :: a, b) | None => None end.
Proof. reflexivity. Qed.

Lemma take_line_enc line rest : ~ In 13 line -> take_line (line ++ crlf ++ rest) = Some (line, rest).
Proof.
  induction line as [|x line IH]; intro Hn.
  - reflexivity.
  - assert (Hx : x <> 13) by (intro; apply Hn; left; auto).
    specialize (IH (fun H => Hn (or_intror H))).
    cbn [app]. destruct (line ++ crlf ++ rest) as [|y r'] eqn:E; [destruct line; discriminate|].
    rewrite take_line_cons.
    destruct (N.eqb_spec x 13); [contradiction|]. cbn [andb]. rewrite IH. reflexivity.
Qed.

Lemma digits_no_cr n mk : mk <> 13 -> ~ In 13 (mk :: itoa n).
Proof.
  intros Hm [H|H]; [congruence|]. revert H. apply all_digits_no; [apply itoa_digits | left; reflexivity].
Qed.

Lemma strict_bulk_enc a rest : strict_bulk (enc_bulk a ++ rest) = Some (a, rest).
Proof.
  unfold strict_bulk, enc_bulk. rewrite <- !app_assoc.
  change ([36] ++ itoa_nat (length a) ++ crlf ++ a ++ crlf ++ rest)
    with ((36 :: itoa_nat (length a)) ++ crlf ++ (a ++ crlf ++ rest)).
  unfold itoa_nat. rewrite take_line_enc by (apply digits_no_cr; discriminate).
  rewrite N.eqb_refl. cbn [negb]. rewrite strict_dec_itoa.
  destruct (N.ltb_spec (N.of_nat (length (a ++ crlf ++ rest))) (N.of_nat (length a) + 2)) as [H|H].
  { rewrite !app_length in H. simpl in H. lia. }
  rewrite Nat2N.id, skipn_exact, firstn_exact.
  change (firstn 2 (crlf ++ rest)) with crlf. rewrite beqb_refl.
  replace (length a + 2)%nat with (length (a ++ crlf)) by (rewrite app_length; reflexivity).
  rewrite app_assoc, skipn_exact. reflexivity.
Qed.

Lemma strict_bulks_enc args : forall f rest, (length args <= f)%nat ->
  strict_bulks f (N.of_nat (length args)) (concat (map enc_bulk args) ++ rest) = Some (args, rest).
Proof.
  induction args as [|a args IH]; intros f rest Hf.
  - destruct f; reflexivity.
  - destruct f as [|f]; [cbn [length] in Hf; lia|]. cbn [strict_bulks].
    destruct (N.eqb_spec (N.of_nat (length (a :: args))) 0) as [E|E]; [cbn [length] in E; lia|].
    cbn [map concat]. rewrite <- app_assoc, strict_bulk_enc.
    replace (N.of_nat (length (a :: args)) - 1) with (N.of_nat (length args)) by (cbn [length]; lia).
    rewrite IH by (cbn [length] in Hf; lia). reflexivity.
Qed.

Lemma length_concat_bulks args : (length args <= length (concat (map enc_bulk args)))%nat.
Proof.
  induction args as [|a args IH]; [simpl; lia|]. cbn [map concat length]. rewrite app_length.
  unfold enc_bulk at 1. simpl. lia.
Qed.

Theorem strict_request_enc args : args <> [] -> strict_request (enc_request args) = Some args.
Proof.
  intro Hne. unfold strict_request, enc_request.
  change ([42] ++ itoa_nat (length args) ++ crlf ++ concat (map enc_bulk args))
    with ((42 :: itoa_nat (length args)) ++ crlf ++ concat (map enc_bulk args)).
  unfold itoa_nat. rewrite take_line_enc by (apply digits_no_cr; discriminate).
  rewrite N.eqb_refl. cbn [negb]. rewrite strict_dec_itoa.
  destruct (N.eqb_spec (N.of_nat (length args)) 0) as [E|E]; [destruct args; [contradiction | cbn [length] in E; lia]|].
  rewrite <- (app_nil_r (concat (map enc_bulk args))) at 2.
  rewrite strict_bulks_enc by apply length_concat_bulks. reflexivity.
Qed.

Corollary strict_none_not_accepted b : strict_request b = None -> ~ redis_accepts b.
Proof. intros H (args & Hne & ->). rewrite strict_request_enc in H by exact Hne. discriminate. Qed.
