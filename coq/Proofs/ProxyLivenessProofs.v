(* No request is orphaned (C15): in every reachable state, every fragment that still owes a reply
   is held by an OPEN backend connection (awaiting a reply or waiting to be written), so that a
   reply, the loss of that connection, or the timeout will resolve it; and losing a connection
   completes every request that had a fragment on it. *)
From RcProxy Require Import Base.Bytes Base.Dec Gen.Generated Spec.RespGrammar
  Model.RespBuf Model.Commands Model.Crc16 Model.ClientCodec Model.ClientFeed Model.ServerCodec Model.Route
  Model.Cluster Model.Proxy Proofs.ProxyProofs Proofs.ProxyServerProofs Proofs.ProxyWireProofs.
From Coq Require Import ZifyN ZifyNat ZifyBool.
Open Scope N_scope.

(* ---------- fragments of one request ---------- *)
Definition fdone (fs : list sfrag) (slot : N) : bool :=
  match get_frag fs slot with Some f => sf_done f | None => true end.

Lemma frag_done_fdone st mid slot :
  frag_done st mid slot = match lookup mid (msgs st) with Some m => fdone (sm_frags (pm_sm m)) slot | None => true end.
Proof. reflexivity. Qed.

Lemma fdone_finish m e slot : fdone (sm_frags (finish_error m e)) slot = true.
Proof.
  unfold fdone, finish_error, get_frag. cbn [sm_frags].
  destruct (find _ _) as [f|] eqn:E; [|reflexivity].
  apply find_some in E as [Hin _]. apply in_map_iff in Hin as (g & <- & _). reflexivity.
Qed.

(* marking one fragment done: that slot is done, the others are as before *)
Lemma fdone_set_frag fs slot g slot' :
  (forall f, sf_slot (g f) = sf_slot f) -> (forall f, sf_done (g f) = true) ->
  fdone (set_frag fs slot g) slot' = if N.eqb slot' slot then true else fdone fs slot'.
Proof.
  intros Hs Hd. unfold fdone, set_frag, get_frag. induction fs as [|f fs IH]; cbn [map find].
  - destruct (N.eqb slot' slot); reflexivity.
  - destruct (N.eqb_spec (sf_slot f) slot) as [E|E].
    + rewrite Hs. destruct (N.eqb_spec (sf_slot f) slot') as [E'|E'].
      * rewrite Hd. destruct (N.eqb_spec slot' slot); [reflexivity | congruence].
      * exact IH.
    + destruct (N.eqb_spec (sf_slot f) slot') as [E'|E']; [|exact IH].
      destruct (N.eqb_spec slot' slot); [congruence | reflexivity].
Qed.

Lemma fdone_upd m fs dn del d r e slot : fdone (sm_frags (upd m fs dn del d r e)) slot = fdone fs slot.
Proof. reflexivity. Qed.

(* the effect of one merged reply on the fragments: the answered slot becomes done, done slots stay done *)
Lemma merge_step_fdone sigma limit m slot rty rsp sm' :
  merge_step sigma limit m slot rty rsp = Fine (Some sm') ->
  fdone (sm_frags sm') slot = true /\
  (forall slot', fdone (sm_frags m) slot' = true -> fdone (sm_frags sm') slot' = true).
Proof.
  unfold merge_step. destruct (get_frag (sm_frags m) slot) as [f|]; [|discriminate].
  destruct (sf_done f); [discriminate|].
  assert (Hfin : forall m0 e, Fine (Some (finish_error m0 e)) = Fine (Some sm') ->
            fdone (sm_frags sm') slot = true /\ (forall slot', fdone (sm_frags m) slot' = true -> fdone (sm_frags sm') slot' = true)).
  { intros m0 e E. inversion E; subst. split; [apply fdone_finish | intros; apply fdone_finish]. }
  assert (Hmark : forall g dn del d r e, (forall f, sf_slot (g f) = sf_slot f) -> (forall f, sf_done (g f) = true) ->
            Fine (Some (upd m (set_frag (sm_frags m) slot g) dn del d r e)) = Fine (Some sm') ->
            fdone (sm_frags sm') slot = true /\ (forall slot', fdone (sm_frags m) slot' = true -> fdone (sm_frags sm') slot' = true)).
  { intros g dn del d r e Hs Hd E. inversion E; subst. rewrite !fdone_upd. split.
    - rewrite fdone_set_frag by assumption. rewrite N.eqb_refl. reflexivity.
    - intros slot' H. rewrite fdone_upd, fdone_set_frag by assumption. destruct (N.eqb slot' slot); [reflexivity | exact H]. }
  cbv zeta.
  destruct (limit <? Z.of_nat (length rsp))%Z; [apply Hfin|].
  destruct (N.eqb (sm_type m) ReqMget).
  { destruct (negb (N.eqb rty RspMultibulk)); [apply Hfin|].
    destruct (parse_mget rsp) as [[|e0 elems]|]; try apply Hfin.
    destruct (_ <? _)%Z; [apply Hmark; reflexivity|].
    destruct (assemble_mget _ _ _ _); try discriminate.
    destruct (_ <? _)%Z; apply Hmark; reflexivity. }
  destruct (N.eqb (sm_type m) ReqMset).
  { destruct (_ <? _)%Z; [apply Hmark; reflexivity|]. destruct (forallb _ _); apply Hmark; reflexivity. }
  destruct (N.eqb (sm_type m) ReqDel).
  { destruct (negb (N.eqb rty RspInteger)); [apply Hfin|].
    destruct (parse_len _) as [n0 e0]. destruct (_ <? _)%Z; apply Hmark; reflexivity. }
  apply Hmark; reflexivity.
Qed.

Lemma merge_step_not_none sigma limit m slot rty rsp :
  fdone (sm_frags m) slot = false -> merge_step sigma limit m slot rty rsp <> Fine None.
Proof.
  unfold fdone, merge_step. destruct (get_frag (sm_frags m) slot) as [f|]; [|discriminate].
  intros ->. cbv zeta.
  repeat match goal with
         | |- (if ?b then _ else _) <> _ => destruct b
         | |- (match ?x with _ => _ end) <> _ => destruct x
         end; discriminate.
Qed.

(* ---------- every fragment of a decoded request has a routed request ---------- *)
Fixpoint gadd (slot : N) (l : list N) : list N :=
  match l with [] => [slot] | s :: r => if N.eqb s slot then s :: r else s :: gadd slot r end.

Lemma group_add_slots {A} slot (x : A) g : map fst (group_add slot x g) = gadd slot (map fst g).
Proof.
  induction g as [|[s xs] r IH]; cbn [group_add map fst gadd]; [reflexivity|].
  destruct (N.eqb s slot); cbn [map fst]; [reflexivity | rewrite IH; reflexivity].
Qed.

Lemma group_by_slots_gen {A} (slotf : bytes -> N) (key : A -> bytes) : forall items g0,
  map fst (fold_left (fun g x => group_add (slotf (key x)) x g) items g0) =
  fold_left (fun l k => gadd (slotf k) l) (map key items) (map fst g0).
Proof.
  induction items as [|x r IH]; intro g0; cbn [fold_left map]; [reflexivity|].
  rewrite IH, group_add_slots. reflexivity.
Qed.

Lemma group_by_slots {A} (slotf : bytes -> N) (key : A -> bytes) items :
  map fst (group_by slotf key items) = map fst (group_by slotf (fun k : bytes => k) (map key items)).
Proof. unfold group_by. rewrite !group_by_slots_gen. rewrite map_id. reflexivity. Qed.

Definition wf_cmsg (m : cmsg) : Prop :=
  forall slot, In slot (map fst (groups_for m)) -> In slot (map fst (cm_body m)).

Lemma wf_cmsg_body ty keys body :
  (N.eqb ty ReqMget || N.eqb ty ReqDel || N.eqb ty ReqMset)%bool = false ->
  wf_cmsg {| cm_type := ty; cm_keys := keys; cm_body := body |}.
Proof.
  intros H slot. unfold groups_for. cbn [cm_type cm_body cm_keys]. rewrite H. rewrite map_map. cbn [fst]. auto.
Qed.

Lemma wf_cmsg_groups ty keys body :
  map fst body = map fst (group_by Hash (fun k : bytes => k) keys) ->
  wf_cmsg {| cm_type := ty; cm_keys := keys; cm_body := body |}.
Proof.
  intros H slot. unfold groups_for. cbn [cm_type cm_body cm_keys].
  destruct (_ || _ || _)%bool; [rewrite H; auto | rewrite map_map; cbn [fst]; auto].
Qed.

Lemma build_wf ty0 nargs args req ty1 keys body ty :
  build ty0 nargs args req = (ty1, keys, body) -> ty = ty1 \/ ty = ReqTooLarge ->
  wf_cmsg {| cm_type := ty; cm_keys := keys; cm_body := body |}.
Proof.
  unfold build. intros H Hty.
  destruct (N.eqb_spec ty0 ReqMget) as [E1|E1].
  { inversion H; subst. apply wf_cmsg_groups. rewrite map_map. reflexivity. }
  destruct (N.eqb_spec ty0 ReqDel) as [E2|E2].
  { inversion H; subst. apply wf_cmsg_groups. rewrite map_map. reflexivity. }
  destruct (N.eqb_spec ty0 ReqMset) as [E3|E3].
  { inversion H; subst. apply wf_cmsg_groups. rewrite map_map. cbn [fst]. apply group_by_slots. }
  assert (Hsmall : forall t, t = ty0 \/ t = ReqWrongArgumentsNumber \/ t = ReqTooLarge ->
            (N.eqb t ReqMget || N.eqb t ReqDel || N.eqb t ReqMset)%bool = false).
  { intros t [->|[->| ->]]; [|vm_compute; reflexivity..].
    destruct (N.eqb_spec ty0 ReqMget); [contradiction|]. destruct (N.eqb_spec ty0 ReqDel); [contradiction|].
    destruct (N.eqb_spec ty0 ReqMset); [contradiction | reflexivity]. }
  destruct (N.eqb ty0 ReqEval || N.eqb ty0 ReqEvalsha)%bool.
  - inversion H; subst. apply wf_cmsg_body, Hsmall.
    destruct Hty as [->| ->]; [destruct (nargs <? 3)%Z; auto | auto].
  - inversion H; subst. apply wf_cmsg_body, Hsmall. destruct Hty as [->| ->]; auto.
Qed.

Lemma decode_wf limit b m n : decode limit b = DOk m n -> wf_cmsg m.
Proof.
  unfold decode. destruct b as [|b0 b']; [discriminate|].
  destruct (read_line (b0 :: b')) as [[line rest]|e]; [|destruct e; discriminate].
  destruct line as [|c digits]; [discriminate|].
  destruct (negb (N.eqb c 42)); [discriminate|].
  destruct (parse_len digits) as [cnt err]. destruct (_ || _)%bool; [discriminate|].
  destruct (parse_line rest) as [[name rest1]|e]; [|destruct e; discriminate].
  destruct (parse_args _ _ _) as [[[args rest2]|e]|]; [|destruct e; discriminate|discriminate].
  cbv zeta.
  match goal with |- context [build ?a ?b ?c ?d] => destruct (build a b c d) as [[ty1 keys] body] eqn:Eb end.
  intro E. inversion E; subst. eapply build_wf; [exact Eb|].
  destruct (_ <? _)%Z; auto.
Qed.

(* ---------- the invariant ---------- *)
Definition Pending (st : pst) (mid : nat) (slot : N) : Prop :=
  exists s sv, lookup s (servers st) = Some sv /\ ps_open sv = true /\ In (FReq mid slot) (ps_inq sv ++ ps_outq sv).

Definition NInv (st : pst) : Prop := forall mid slot, frag_done st mid slot = false -> Pending st mid slot.

Definition pext (st st' : pst) : Prop := forall mid slot, Pending st mid slot -> Pending st' mid slot.
Definition dmono (st st' : pst) : Prop := forall mid slot, frag_done st' mid slot = false -> frag_done st mid slot = false.

Lemma NInv_keep st st' : pext st st' -> dmono st st' -> NInv st -> NInv st'.
Proof. intros P D H mid slot Hf. apply P, H, D, Hf. Qed.

Lemma pext_refl st : pext st st. Proof. intros mid slot H; exact H. Qed.
Lemma pext_trans a b c : pext a b -> pext b c -> pext a c. Proof. intros H1 H2 mid slot H. apply H2, H1, H. Qed.
Lemma dmono_refl st : dmono st st. Proof. intros mid slot H; exact H. Qed.
Lemma dmono_trans a b c : dmono a b -> dmono b c -> dmono a c. Proof. intros H1 H2 mid slot H. apply H1, H2, H. Qed.

Lemma pext_servers st st' : servers st' = servers st -> pext st st'.
Proof. intros E mid slot (s & sv & A & B & C). exists s, sv. rewrite E. auto. Qed.
Lemma pext_same_s st st' : same_s st st' -> pext st st'.
Proof. intros (E & _). apply pext_servers, E. Qed.
Lemma pext_mono st st' : (forall x svx, lookup x (servers st) = Some svx -> lookup x (servers st') = Some svx) -> pext st st'.
Proof. intros H mid slot (s & sv & A & B & C). exists s, sv. auto. Qed.
Lemma dmono_msgs st st' : msgs st' = msgs st -> dmono st st'.
Proof. intros E mid slot. unfold frag_done. rewrite E. auto. Qed.
Lemma dmono_same_cm st st' : same_cm st st' -> dmono st st'.
Proof. intros (_ & E & _). apply dmono_msgs, E. Qed.

(* updating one request so that done fragments stay done *)
Lemma dmono_set_msg st mid m m' :
  lookup mid (msgs st) = Some m ->
  (forall slot, fdone (sm_frags (pm_sm m)) slot = true -> fdone (sm_frags (pm_sm m')) slot = true) ->
  dmono st (set_msg st mid m').
Proof.
  intros Hl H x slot. unfold frag_done. cbn [set_msg msgs]. rewrite lookup_update.
  destruct (Nat.eqb_spec x mid) as [->|]; [|auto]. rewrite Hl. intro Hf.
  fold (fdone (sm_frags (pm_sm m')) slot) in Hf. fold (fdone (sm_frags (pm_sm m)) slot).
  destruct (fdone (sm_frags (pm_sm m)) slot) eqn:E; [|reflexivity]. rewrite (H _ E) in Hf. discriminate.
Qed.

Lemma dmono_fail_msg st mid e : dmono st (fail_msg st mid e).
Proof.
  unfold fail_msg. destruct (lookup mid (msgs st)) as [m|] eqn:E; [|apply dmono_refl].
  eapply dmono_set_msg; [exact E|]. intros slot _. cbn [pm_sm]. apply fdone_finish.
Qed.
Lemma dmono_mark_moved st mid slot : dmono st (mark_moved st mid slot).
Proof.
  unfold mark_moved. destruct (lookup mid (msgs st)) as [m|] eqn:E; [|apply dmono_refl].
  eapply dmono_set_msg; [exact E|]. auto.
Qed.
Lemma dmono_flush_done st c : dmono st (flush_done st c).
Proof. apply dmono_msgs, flush_done_msgs. Qed.
Lemma dmono_flush_if_open st c : dmono st (flush_if_open st c).
Proof. apply dmono_msgs, flush_if_open_msgs. Qed.
Lemma dmono_close_client st c : dmono st (close_client st c).
Proof.
  apply dmono_msgs. unfold close_client. destruct (lookup c (clients st)); [|reflexivity]. destruct (pc_open p); reflexivity.
Qed.
Lemma dmono_fail_and_flush st mid e :
  dmono st (match lookup mid (msgs (fail_msg st mid e)) with
            | Some m => flush_if_open (fail_msg st mid e) (pm_client m) | None => fail_msg st mid e end).
Proof.
  destruct (lookup mid (msgs (fail_msg st mid e))).
  - eapply dmono_trans; [apply dmono_fail_msg | apply dmono_flush_if_open].
  - apply dmono_fail_msg.
Qed.

(* a new request without fragments owes nothing *)
Lemma dmono_new_empty st pm : sm_frags (pm_sm pm) = [] -> dmono st (bump_mid (set_msg st (next_mid st) pm)).
Proof.
  intros He x slot. unfold frag_done. cbn [bump_mid set_msg msgs]. rewrite lookup_update.
  destruct (Nat.eqb x (next_mid st)); [rewrite He; discriminate | auto].
Qed.

Lemma dmono_local_reply st c m out close : dmono st (local_reply st c m out close).
Proof.
  unfold local_reply. destruct (lookup c (clients st)) as [cl|]; [|apply dmono_refl].
  destruct (pc_queue cl) as [|q0 qs].
  - destruct close; [eapply dmono_trans; [|apply dmono_close_client]; apply dmono_msgs; reflexivity | apply dmono_msgs; reflexivity].
  - match goal with |- dmono st (if close then match lookup c (clients ?x) with _ => _ end else _) => set (st1 := x) end.
    assert (H1 : dmono st st1).
    { intros x slot. unfold frag_done, st1. cbn [set_client bump_mid set_msg msgs]. rewrite lookup_update.
      destruct (Nat.eqb x (next_mid st)); [cbn; discriminate | auto]. }
    destruct close; [|exact H1].
    destruct (lookup c (clients st1)); [eapply dmono_trans; [exact H1 | apply dmono_msgs; reflexivity] | exact H1].
Qed.

Lemma dmono_fail_frags : forall fs st, dmono st (fail_frags st fs).
Proof.
  induction fs as [|f fs IH]; intro st; cbn [fail_frags]; [apply dmono_refl|].
  destruct f as [|mid slot]; [apply IH|]. destruct (frag_done st mid slot); [apply IH|].
  eapply dmono_trans; [apply (dmono_fail_and_flush st mid ErrUnKnownProxyPoolConnError) | apply IH].
Qed.
Lemma dmono_expire : forall l st, dmono st (expire st l).
Proof.
  induction l as [|[s f] l IH]; intro st; cbn [expire]; [apply dmono_refl|].
  destruct f as [|mid slot]; [apply IH|]. destruct (frag_done st mid slot); [apply IH|].
  eapply dmono_trans; [apply (dmono_fail_and_flush st mid ErrMsgRequestTimeout) | apply IH].
Qed.

(* ---------- connections ---------- *)
Lemma pext_set_server st s sv sv' :
  lookup s (servers st) = Some sv -> ps_open sv' = ps_open sv ->
  (forall f, In f (ps_inq sv ++ ps_outq sv) -> In f (ps_inq sv' ++ ps_outq sv')) ->
  pext st (set_server st s sv').
Proof.
  intros Hs Ho Hin mid slot (x & svx & A & B & C). unfold Pending. cbn [set_server servers].
  destruct (Nat.eqb_spec x s) as [->|Hne].
  - exists s, sv'. rewrite lookup_update_eq. rewrite Hs in A. inversion A; subst. split; [reflexivity|]. split; [congruence | apply Hin, C].
  - exists x, svx. rewrite lookup_update_ne by exact Hne. auto.
Qed.

Lemma pext_enqueue_out st s f : pext st (enqueue_out st s f).
Proof.
  unfold enqueue_out. destruct (lookup s (servers st)) as [sv|] eqn:Hs; [|apply pext_refl].
  eapply pext_trans; [|apply pext_servers; reflexivity].
  eapply pext_set_server; [exact Hs | reflexivity|]. cbn [ps_inq ps_outq]. intros g Hg.
  apply in_app_or in Hg. apply in_or_app. destruct Hg; [left; assumption | right; apply in_or_app; left; assumption].
Qed.

Lemma enqueue_pending st s sv mid slot : lookup s (servers st) = Some sv -> ps_open sv = true ->
  Pending (enqueue_out st s (FReq mid slot)) mid slot.
Proof.
  intros Hs Ho. unfold enqueue_out. rewrite Hs. unfold Pending. exists s. eexists. cbn [set_tasks set_server servers].
  rewrite lookup_update_eq. split; [reflexivity|]. cbn [ps_open ps_inq ps_outq]. split; [exact Ho|].
  apply in_or_app. right. apply in_or_app. right. left. reflexivity.
Qed.

Lemma targets_open_enqueue st t f targets : targets_open st targets -> targets_open (enqueue_out st t f) targets.
Proof.
  intros Ho t' Hin. destruct (Ho t' Hin) as (sv & A & B).
  unfold enqueue_out. destruct (lookup t (servers st)) as [svt|] eqn:Et; [|exists sv; auto].
  cbn [set_tasks set_server servers]. rewrite lookup_update.
  destruct (Nat.eqb_spec (snd t') t) as [E|]; [|exists sv; auto].
  rewrite E in A. rewrite Et in A. inversion A; subst. eexists. split; [reflexivity | exact B].
Qed.

Lemma fold_enqueue_pext mid : forall targets st,
  pext st (fold_left (fun s (t : N * nat) => enqueue_out s (snd t) (FReq mid (fst t))) targets st).
Proof.
  induction targets as [|t ts IH]; intro st; cbn [fold_left]; [apply pext_refl|].
  eapply pext_trans; [apply pext_enqueue_out | apply IH].
Qed.

Lemma fold_enqueue_pending mid : forall targets st, targets_open st targets ->
  forall t, In t targets ->
  Pending (fold_left (fun s (t : N * nat) => enqueue_out s (snd t) (FReq mid (fst t))) targets st) mid (fst t).
Proof.
  induction targets as [|t0 ts IH]; intros st Ho t Hin; [destruct Hin|]. cbn [fold_left].
  destruct Hin as [->|Hin].
  - apply fold_enqueue_pext. destruct (Ho t (or_introl eq_refl)) as (sv & A & B). eapply enqueue_pending; eassumption.
  - apply IH; [|exact Hin]. apply targets_open_enqueue. intros t' Ht'. apply Ho. right. exact Ht'.
Qed.

Lemma resolve_slots body : forall st st' targets, resolve st body = (st', inl targets) -> map fst targets = map fst body.
Proof.
  induction body as [|[slot f] rest IH]; intros st st' targets; cbn [resolve].
  - intro E; inversion E; reflexivity.
  - destruct f as [b|]; [|discriminate]. destruct (find_pool st b); [|discriminate].
    destruct (pool_get st p) as [st1 [s|]]; [|discriminate].
    destruct (resolve st1 rest) as [st2 [l|e]] eqn:Er; [|discriminate].
    intro E; inversion E; subst. cbn [map fst]. rewrite (IH _ _ _ Er). reflexivity.
Qed.

Lemma insert_slot_In {A} (x : N * A) l y : In y (insert_slot x l) <-> y = x \/ In y l.
Proof.
  induction l as [|z r IH]; cbn [insert_slot].
  - cbn [In]. split; intros [H|H]; auto.
  - destruct (_ <=? _).
    + cbn [In]. split; intros [H|H]; auto.
    + cbn [In]. rewrite IH. split; intros [H|[H|H]]; auto.
Qed.
Lemma by_slot_In {A} (l : list (N * A)) y : In y l -> In y (by_slot l).
Proof.
  unfold by_slot. induction l as [|x r IH]; cbn [fold_right]; [auto|].
  intros [<-|H]; apply insert_slot_In; [left; reflexivity | right; apply IH, H].
Qed.

(* ---------- OnCReact ---------- *)
Lemma NInv_local_reply st c m out close : NInv st -> NInv (local_reply st c m out close).
Proof. apply NInv_keep; [apply pext_same_s, same_s_local_reply | apply dmono_local_reply]. Qed.

Lemma get_frag_slot fs slot f : get_frag fs slot = Some f -> In slot (map sf_slot fs).
Proof.
  unfold get_frag. intro H. apply find_some in H as [Hin E]. apply N.eqb_eq in E. subst. apply in_map, Hin.
Qed.

Lemma on_request_ninv st c m : SInv st -> NInv st -> wf_cmsg m -> NInv (on_request st c m).
Proof.
  intros HS H Hwf. unfold on_request.
  do 5 match goal with
       | |- NInv (if ?b then _ else _) => destruct b; [apply NInv_local_reply, H|]
       end.
  destruct (cm_type m =? ReqAuth).
  - destruct (cf_password (cfg st)); [apply NInv_local_reply, H|].
    destruct (cm_body m) as [|[s0 f0] body]; [exact H|].
    destruct (beqb _ _); apply NInv_local_reply, H.
  - destruct (resolve st (route_plan st (cm_type m) (by_slot (cm_body m)))) as [st1 [targets|e]] eqn:Er; [|apply NInv_local_reply, H].
    destruct (resolve_sinv _ _ _ _ HS Er) as (S1 & Hopen & Hmono). specialize (Hopen targets eq_refl).
    pose proof (same_cm_resolve (route_plan st (cm_type m) (by_slot (cm_body m))) st) as Hcm. rewrite Er in Hcm. cbn [fst] in Hcm.
    pose proof (resolve_slots _ _ _ _ Er) as Hslots.
    assert (H1 : NInv st1) by (eapply NInv_keep; [apply pext_mono, Hmono | apply dmono_same_cm, Hcm | exact H]).
    set (mid := next_mid st1).
    match goal with |- NInv (match lookup c (clients ?x) with _ => _ end) => set (st3 := x) end.
    assert (H3 : NInv st3).
    { intros x slot Hf. unfold st3 in *.
      match goal with |- Pending (fold_left ?f targets ?s2) _ _ => set (st2 := s2) in * end.
      assert (Hm3 : msgs (fold_left (fun s (t : N * nat) => enqueue_out s (snd t) (FReq mid (fst t))) targets st2) = msgs st2).
      { clear. generalize st2. induction targets as [|t ts IH]; intro s0; cbn [fold_left]; [reflexivity|].
        rewrite IH. destruct (same_cm_enqueue_out s0 (snd t) (FReq mid (fst t))) as (_ & E & _). exact E. }
      unfold frag_done in Hf. rewrite Hm3 in Hf. unfold st2 in Hf. cbn [bump_mid set_msg msgs] in Hf.
      rewrite lookup_update in Hf. fold mid in Hf.
      destruct (Nat.eqb_spec x mid) as [->|Hne].
      - cbn [pm_sm] in Hf. destruct (get_frag (sm_frags (smsg_of m (groups_for m))) slot) as [f|] eqn:Eg; [|discriminate].
        apply get_frag_slot in Eg. unfold smsg_of in Eg. cbn [sm_frags] in Eg. rewrite map_map in Eg. cbn [sf_slot] in Eg.
        apply Hwf in Eg. apply in_map_iff in Eg. destruct Eg as (sf & Es & Hin). apply by_slot_In in Hin.
        assert (Hin2 : In slot (map fst targets)) by (rewrite Hslots, route_plan_slots; rewrite <- Es; apply in_map, Hin).
        apply in_map_iff in Hin2. destruct Hin2 as (t & Et & Hint). rewrite <- Et.
        apply fold_enqueue_pending; [|exact Hint].
        intros t' Ht'. destruct (Hopen t' Ht') as (sv & A & B). exists sv. auto.
      - apply fold_enqueue_pext. apply (pext_servers st1 st2); [reflexivity|]. apply H1. exact Hf. }
    destruct (lookup c (clients st3)); exact H3.
Qed.

Lemma client_loop_ninv : forall fuel st c buf, SInv st -> NInv st -> NInv (client_loop fuel st c buf).
Proof.
  induction fuel as [|f IH]; intros st c buf HS H; cbn [client_loop]; [exact H|].
  destruct (lookup c (clients st)) as [cl|]; [|exact H].
  destruct (negb (pc_open cl) || pc_closing cl)%bool; [exact H|].
  destruct (decode (cf_limit (cfg st)) buf) as [| | | |m n] eqn:Ed; try exact H.
  - apply (NInv_keep st); [apply pext_same_s, same_s_close_client | apply dmono_close_client | exact H].
  - apply IH; [apply on_request_sinv, HS | apply on_request_ninv; [exact HS | exact H | eapply decode_wf, Ed]].
Qed.

(* ---------- tasks ---------- *)
Lemma insert_by_order_In_rev ord f l x : x = f \/ In x l -> In x (insert_by_order ord f l).
Proof.
  induction l as [|g r IH]; cbn [insert_by_order]; [intros [->|[]]; left; reflexivity|].
  destruct (_ <=? _)%nat; [intros [->|Hin]; [left; reflexivity | right; exact Hin]|].
  intros [->|[->|Hin]]; [right; apply IH; left; reflexivity | left; reflexivity | right; apply IH; right; exact Hin].
Qed.
Lemma sort_by_order_In_rev ord l x : In x l -> In x (fold_right (insert_by_order ord) [] l).
Proof.
  induction l as [|f r IH]; cbn [fold_right]; [auto|].
  intros [->|Hin]; apply insert_by_order_In_rev; [left; reflexivity | right; apply IH, Hin].
Qed.
Lemma reorder_In_rev : forall fuel order l x, In x l -> In x (reorder fuel order l).
Proof.
  induction fuel as [|k IH]; intros order l x; cbn [reorder]; [auto|].
  destruct l as [|f r]; [auto|].
  destruct (same_msg_run (frag_mid f) r) as [run rest] eqn:E.
  rewrite (same_msg_run_app _ _ _ _ E). intro Hin. apply in_or_app.
  destruct Hin as [->|Hin]; [left; apply sort_by_order_In_rev; left; reflexivity|].
  apply in_app_or in Hin. destruct Hin as [Hin|Hin]; [left; apply sort_by_order_In_rev; right; exact Hin | right; apply IH, Hin].
Qed.

(* after failing the fragments of a list, none of them owes a reply *)
Lemma fail_frags_done : forall fs st mid slot, In (FReq mid slot) fs -> frag_done (fail_frags st fs) mid slot = true.
Proof.
  induction fs as [|f fs IH]; intros st mid slot Hin; [destruct Hin|]. cbn [fail_frags].
  destruct Hin as [->|Hin].
  - destruct (frag_done st mid slot) eqn:Ef.
    + destruct (frag_done (fail_frags st fs) mid slot) eqn:E2; [reflexivity|]. apply dmono_fail_frags in E2. congruence.
    + match goal with |- frag_done (fail_frags ?x fs) mid slot = true => set (st2 := x) end.
      assert (E1 : frag_done st2 mid slot = true).
      { assert (Hex : exists m, lookup mid (msgs st) = Some m).
        { unfold frag_done in Ef. destruct (lookup mid (msgs st)); [eauto | discriminate]. }
        pose proof (all_frags_done_after_fail st mid ErrUnKnownProxyPoolConnError slot Hex) as Hd.
        unfold st2. destruct (lookup mid (msgs (fail_msg st mid ErrUnKnownProxyPoolConnError))); [|exact Hd].
        destruct (frag_done (flush_if_open _ _) mid slot) eqn:E2; [reflexivity|]. apply dmono_flush_if_open in E2. congruence. }
      destruct (frag_done (fail_frags st2 fs) mid slot) eqn:E2; [reflexivity|]. apply dmono_fail_frags in E2. congruence.
  - destruct f as [|mid' slot']; [apply IH, Hin|]. destruct (frag_done st mid' slot'); apply IH, Hin.
Qed.

Lemma run_task_ninv st order t : NInv st -> NInv (run_task st order t).
Proof.
  intro H. destruct t as [s|s|s]; cbn [run_task].
  - destruct (lookup s (servers st)) as [sv|] eqn:Hs; [|exact H].
    destruct (ps_open sv) eqn:Ho; cbn [negb]; [|exact H].
    destruct (ps_outq sv) as [|f q] eqn:Eq; [exact H|].
    match goal with |- NInv (if _ then set_inflight ?x _ else _) => assert (Hst1 : NInv x) end.
    { apply (NInv_keep st); [|apply dmono_msgs; reflexivity | exact H].
      eapply pext_set_server; [exact Hs | cbn [ps_open]; congruence|]. cbn [ps_inq ps_outq]. rewrite Eq.
      intros g Hg. rewrite app_nil_r. apply in_app_or in Hg. apply in_or_app.
      destruct Hg as [Hg|Hg]; [left; exact Hg | right; apply reorder_In_rev, Hg]. }
    destruct (cf_timeout (cfg st)); exact Hst1.
  - unfold close_server. destruct (lookup s (servers st)) as [sv|] eqn:Hs; [|exact H].
    destruct (ps_open sv) eqn:Ho; [|exact H].
    set (fs := ps_inq sv ++ ps_outq sv). set (st1 := fail_frags st fs).
    intros mid slot Hf. unfold frag_done in Hf. cbn [set_server set_inflight msgs] in Hf. fold (frag_done st1 mid slot) in Hf.
    pose proof (dmono_fail_frags fs st mid slot Hf) as Hf0.
    destruct (H mid slot Hf0) as (x & svx & A & B & C).
    destruct (Nat.eqb_spec x s) as [->|Hne].
    + rewrite Hs in A. inversion A; subst svx. fold fs in C.
      pose proof (fail_frags_done fs st mid slot C) as Hd. fold st1 in Hd. congruence.
    + exists x, svx. cbn [set_server set_inflight servers]. rewrite lookup_update_ne by exact Hne.
      destruct (same_s_fail_frags fs st) as (E & _). fold st1 in E. rewrite E. auto.
  - destruct (lookup s (servers st)) as [sv|] eqn:Hs; [|exact H].
    destruct (ps_open sv); [|exact H].
    apply (NInv_keep st); [apply pext_enqueue_out | apply dmono_same_cm, same_cm_enqueue_out | exact H].
Qed.

Lemma run_tasks_ninv order : forall fuel st, NInv st -> NInv (run_tasks fuel st order).
Proof.
  induction fuel as [|f IH]; intros st H; cbn [run_tasks]; [exact H|].
  destruct (tasks st) as [|t rest]; [exact H|]. apply IH, run_task_ninv. exact H.
Qed.

(* ---------- backend replies ---------- *)
Lemma dequeue_case st st' f :
  NInv st -> dmono st st' ->
  (forall m s, Pending st m s -> FReq m s = f \/ Pending st' m s) ->
  (forall m s, FReq m s = f -> frag_done st' m s = true \/ Pending st' m s) ->
  NInv st'.
Proof.
  intros H D P F m s Hf. destruct (P m s (H m s (D m s Hf))) as [E|Hp]; [|exact Hp].
  destruct (F m s E) as [Hd|Hp]; [congruence | exact Hp].
Qed.

Lemma frag_done_fail_and_flush st mid e slot : (exists m, lookup mid (msgs st) = Some m) ->
  frag_done (match lookup mid (msgs (fail_msg st mid e)) with
             | Some m => flush_if_open (fail_msg st mid e) (pm_client m) | None => fail_msg st mid e end) mid slot = true.
Proof.
  intro Hex. pose proof (all_frags_done_after_fail st mid e slot Hex) as Hd.
  destruct (lookup mid (msgs (fail_msg st mid e))); [|exact Hd].
  destruct (frag_done (flush_if_open _ _) mid slot) eqn:E2; [reflexivity|]. apply dmono_flush_if_open in E2. congruence.
Qed.

Lemma on_reply_ninv st s ty rsp st' : SInv st -> NInv st -> on_reply st s ty rsp = ROk st' -> NInv st'.
Proof.
  intros HS H. unfold on_reply. destruct (lookup s (servers st)) as [sv|] eqn:Hs; [|intro E; apply ROk_inj in E; subst; exact H].
  destruct (ps_inq sv) as [|f inq'] eqn:Einq; [discriminate|].
  match goal with |- context [set_inflight ?a ?b] => set (st0 := set_inflight a b) end.
  assert (S0 : SInv st0).
  { assert (E0 : on_reply st s 0 [] = on_reply st s 0 []) by reflexivity.
    (* re-derive from on_reply_sinv on a reply that is dropped or merged is awkward; prove directly *)
    clear E0. unfold st0. eapply SInv_same; [apply same_s_set_inflight|].
    apply SInv_set_server; [exact HS | eauto|].
    destruct HS as [H1 _]. destruct (H1 s sv Hs) as [A B C D].
    destruct (ps_open sv) eqn:Ho; [|destruct (D eq_refl) as [D1 _]; congruence].
    specialize (C eq_refl). rewrite Einq in C.
    destruct (skipn (ps_taken sv) (ps_written sv)) as [|w ws] eqn:Esk; [discriminate|].
    destruct (skipn_cons_inv _ _ _ _ Esk) as [K1 K2].
    constructor; cbn [ps_got ps_written ps_taken ps_open ps_inq ps_outq ps_slave].
    - exact A.
    - lia.
    - intros _. rewrite K1. cbn [map] in C. inversion C; reflexivity.
    - congruence. }
  assert (P0 : forall m sl, Pending st m sl -> FReq m sl = f \/ Pending st0 m sl).
  { intros m sl (x & svx & A & B & C). destruct (Nat.eqb_spec x s) as [->|Hne].
    - rewrite Hs in A. inversion A; subst svx. rewrite Einq in C. cbn [app In] in C. destruct C as [C|C]; [left; congruence|].
      right. exists s. eexists. unfold st0. cbn [set_inflight set_server servers]. rewrite lookup_update_eq.
      split; [reflexivity|]. cbn [ps_open ps_inq ps_outq]. auto.
    - right. exists x, svx. unfold st0. cbn [set_inflight set_server servers]. rewrite lookup_update_ne by exact Hne. auto. }
  assert (D0 : dmono st st0) by (apply dmono_msgs; reflexivity).
  destruct f as [|mid slot].
  - destruct (is_auth_failure ty); [discriminate|]. intro E; apply ROk_inj in E; subst.
    eapply dequeue_case; [exact H | exact D0 | exact P0 | intros m sl E; discriminate].
  - destruct (frag_done st0 mid slot) eqn:Efd.
    { intro E; apply ROk_inj in E; subst.
      eapply dequeue_case; [exact H | exact D0 | exact P0 | intros m sl E; inversion E; subst; left; exact Efd]. }
    assert (Hex : exists m, lookup mid (msgs st0) = Some m).
    { unfold frag_done in Efd. destruct (lookup mid (msgs st0)); [eauto | discriminate]. }
    destruct (N.eqb ty RspMoved || N.eqb ty RspAsk)%bool.
    + intro E; apply ROk_inj in E; subst. unfold on_moved.
      set (stm := mark_moved st0 mid (frag_slot (FReq mid slot))).
      assert (Sm : SInv stm) by (eapply SInv_same; [apply same_s_mark_moved | exact S0]).
      assert (Dm : dmono st stm) by (eapply dmono_trans; [exact D0 | apply dmono_mark_moved]).
      assert (Pm : forall m sl, Pending st m sl -> FReq m sl = FReq mid slot \/ Pending stm m sl).
      { intros m sl Hp. destruct (P0 m sl Hp) as [E|Hp0]; [left; exact E | right]. eapply pext_same_s; [apply same_s_mark_moved | exact Hp0]. }
      assert (Hexm : exists m, lookup mid (msgs stm) = Some m).
      { destruct Hex as (m0 & Hm0). unfold stm, mark_moved. rewrite Hm0. cbn [set_msg msgs]. rewrite lookup_update_eq. eauto. }
      destruct (find_pool stm (parse_moved ty rsp)) as [p|].
      * destruct (pool_get stm p) as [st1 r] eqn:Eg. destruct (pool_get_sinv _ _ _ _ Sm Eg) as (S1 & Bo & Mono).
        pose proof (same_cm_pool_get stm p) as Hcm. rewrite Eg in Hcm. cbn [fst] in Hcm.
        destruct r as [s2|].
        -- destruct (Bo s2 eq_refl) as (sv2 & Hs2 & Ho2).
           destruct (asking_self st1 s2 ty sv2 Hs2) as (sv3 & Hs3 & Ho3 & _). rewrite Ho2 in Ho3.
           eapply dequeue_case; [exact H | | | ].
           ++ eapply dmono_trans; [exact Dm|]. eapply dmono_trans; [apply dmono_same_cm, Hcm|].
              eapply dmono_trans; [apply dmono_same_cm, same_cm_asking | apply dmono_same_cm, same_cm_enqueue_out].
           ++ intros m sl Hp. destruct (Pm m sl Hp) as [E|Hpm]; [left; exact E | right].
              apply pext_enqueue_out.
              assert (Pa : pext st1 (if N.eqb ty RspAsk then enqueue_out st1 s2 (FProbe true) else st1))
                by (destruct (N.eqb ty RspAsk); [apply pext_enqueue_out | apply pext_refl]).
              apply Pa. eapply pext_mono; [exact Mono | exact Hpm].
           ++ intros m sl E. inversion E; subst. right. eapply enqueue_pending; eassumption.
        -- eapply dequeue_case; [exact H | | | ].
           ++ eapply dmono_trans; [exact Dm|]. eapply dmono_trans; [apply dmono_same_cm, Hcm | apply dmono_fail_and_flush].
           ++ intros m sl Hp. destruct (Pm m sl Hp) as [E|Hpm]; [left; exact E | right].
              eapply pext_same_s; [apply same_s_fail_and_flush|]. eapply pext_mono; [exact Mono | exact Hpm].
           ++ intros m sl E. inversion E; subst. left. apply frag_done_fail_and_flush.
              destruct Hcm as (_ & Em & _). rewrite Em. exact Hexm.
      * eapply dequeue_case; [exact H | | | ].
        -- eapply dmono_trans; [exact Dm | apply dmono_fail_and_flush].
        -- intros m sl Hp. destruct (Pm m sl Hp) as [E|Hpm]; [left; exact E | right].
           eapply pext_same_s; [apply same_s_fail_and_flush | exact Hpm].
        -- intros m sl E. inversion E; subst. left. apply frag_done_fail_and_flush, Hexm.
    + destruct Hex as (m & Hm). rewrite Hm.
      assert (Hfd : fdone (sm_frags (pm_sm m)) slot = false).
      { unfold frag_done in Efd. rewrite Hm in Efd. exact Efd. }
      destruct (merge_step Hash (cf_limit (cfg st0)) (pm_sm m) slot ty rsp) as [[sm'|]| |] eqn:Em; try discriminate.
      2:{ exfalso. eapply merge_step_not_none; eassumption. }
      destruct (is_auth_failure ty && ps_initializing sv)%bool; [discriminate|].
      destruct (merge_step_fdone _ _ _ _ _ _ _ Em) as [Md Mm].
      match goal with |- context [set_msg st0 mid ?x] => set (st1 := set_msg st0 mid x) end.
      assert (D1 : dmono st st1).
      { eapply dmono_trans; [exact D0|]. eapply dmono_set_msg; [exact Hm | exact Mm]. }
      assert (F1 : frag_done st1 mid slot = true).
      { unfold frag_done, st1. cbn [set_msg msgs]. rewrite lookup_update_eq. exact Md. }
      assert (Hfin : forall st2, same_s st1 st2 -> dmono st1 st2 -> NInv st2).
      { intros st2 Hss Hdm. eapply dequeue_case; [exact H | eapply dmono_trans; [exact D1 | exact Hdm] | |].
        - intros m0 sl Hp. destruct (P0 m0 sl Hp) as [E|Hp0]; [left; exact E | right].
          eapply pext_same_s; [exact Hss|]. eapply pext_servers; [|exact Hp0]. reflexivity.
        - intros m0 sl E. inversion E; subst. left.
          destruct (frag_done st2 mid slot) eqn:E2; [reflexivity|]. apply Hdm in E2. congruence. }
      destruct (lookup (pm_client m) (clients st1)) as [cl|]; [|intro E; apply ROk_inj in E; subst; apply Hfin; [apply same_s_refl | apply dmono_refl]].
      destruct (negb (pc_open cl)); [intro E; apply ROk_inj in E; subst; apply Hfin; [apply same_s_refl | apply dmono_refl]|].
      destruct (pc_queue cl); intro E; apply ROk_inj in E; subst; apply Hfin.
      * apply same_s_close_client.
      * apply dmono_close_client.
      * apply same_s_flush_done.
      * apply dmono_flush_done.
Qed.

Lemma NInv_set_server_same st s sv sv' : NInv st -> lookup s (servers st) = Some sv ->
  ps_open sv' = ps_open sv -> ps_inq sv' = ps_inq sv -> ps_outq sv' = ps_outq sv -> NInv (set_server st s sv').
Proof.
  intros H Hs A B C. apply (NInv_keep st); [|apply dmono_msgs; reflexivity | exact H].
  eapply pext_set_server; [exact Hs | exact A|]. rewrite B, C. auto.
Qed.

Lemma with_left_ninv st s b : NInv st -> NInv (with_left st s b).
Proof.
  intro H. unfold with_left. destruct (lookup s (servers st)) as [sv|] eqn:Hs; [|exact H].
  eapply NInv_set_server_same; [exact H | exact Hs | reflexivity..].
Qed.

Definition Both (st : pst) : Prop := SInv st /\ NInv st.
Definition k_both (k : pst -> nat -> bytes -> result pst) : Prop :=
  forall st s buf st', Both st -> k st s buf = ROk st' -> Both st'.

Lemma decode_reply_both k st s buf st' : k_both k -> Both st -> decode_reply k st s buf = ROk st' -> Both st'.
Proof.
  intros Hk [HS H]. unfold decode_reply. destruct (sdecode buf) as [| | |ty n]; try discriminate.
  - intro E; apply ROk_inj in E; subst. split; [apply with_left_sinv, HS | apply with_left_ninv, H].
  - destruct (on_reply st s ty (firstn n buf)) as [st1| | |] eqn:Er; try discriminate.
    intro E. eapply Hk; [|exact E]. split; [eapply on_reply_sinv; eassumption | eapply on_reply_ninv; eassumption].
Qed.

Lemma server_iter_both k st s buf st' : k_both k -> Both st -> server_iter k st s buf = ROk st' -> Both st'.
Proof.
  intros Hk [HS H]. unfold server_iter. destruct (lookup s (servers st)) as [sv|] eqn:Hs; [|intro E; apply ROk_inj in E; subst; split; assumption].
  destruct (ps_open sv) eqn:Ho; cbn [negb]; [|intro E; apply ROk_inj in E; subst; split; assumption].
  destruct (ps_initializing sv); [|intro E; eapply decode_reply_both; [exact Hk | split; eassumption | exact E]].
  destruct (init_decode (ps_step sv) buf) as [| |n|]; try discriminate.
  - intro E; apply ROk_inj in E; subst. split; [apply with_left_sinv, HS | apply with_left_ninv, H].
  - match goal with |- context [set_server st s ?x] => set (st1 := set_server st s x) end.
    assert (B1 : Both st1).
    { split.
      - apply SInv_set_server; [exact HS | eauto|].
        destruct HS as [K1 _]. destruct (K1 s sv Hs) as [A B C D].
        constructor; cbn [ps_got ps_written ps_taken ps_open ps_inq ps_outq ps_slave]; auto. discriminate.
      - eapply NInv_set_server_same; [exact H | exact Hs | cbn [ps_open]; congruence | reflexivity..]. }
    destruct (skipn n buf); [intro E; apply ROk_inj in E; subst; exact B1 | intro E; eapply decode_reply_both; eassumption].
  - intro E; eapply decode_reply_both; [exact Hk | split; eassumption | exact E].
Qed.

Lemma server_loop_both : forall fuel, k_both (server_loop fuel).
Proof.
  induction fuel as [|f IH]; intros st s buf st' H; cbn [server_loop].
  - intro E; apply ROk_inj in E; subst; exact H.
  - apply server_iter_both; assumption.
Qed.

Lemma pool_get_ninv st p st' r : SInv st -> NInv st -> pool_get st p = (st', r) -> NInv st'.
Proof.
  intros HS H Eg. destruct (pool_get_sinv _ _ _ _ HS Eg) as (_ & _ & Mono).
  pose proof (same_cm_pool_get st p) as Hcm. rewrite Eg in Hcm. cbn [fst] in Hcm.
  apply (NInv_keep st); [apply pext_mono, Mono | apply dmono_same_cm, Hcm | exact H].
Qed.

Lemma dial_until_both addr total : forall fuel st, Both st -> Both (dial_until fuel st addr total).
Proof.
  induction fuel as [|f IH]; intros st [HS H]; cbn [dial_until]; [split; assumption|].
  destruct (conns_to st addr <? total)%nat; [|split; assumption].
  destruct (find_pool st addr) as [p|]; [|split; assumption].
  apply IH. destruct (pool_get st p) as [st1 r] eqn:Eg. cbn [fst].
  split; [eapply pool_get_sinv; eassumption | eapply pool_get_ninv; eassumption].
Qed.

Lemma ensure_dials_both totals : forall st, Both st -> Both (ensure_dials st totals).
Proof.
  unfold ensure_dials. induction totals as [|t ts IH]; intros st H; cbn [fold_left]; [exact H|].
  apply IH, dial_until_both, H.
Qed.

Theorem step_both st e st' : Both st -> step st e = ROk st' -> Both st'.
Proof.
  intros [HS H] E. split; [eapply step_sinv; eassumption|]. revert E.
  destruct e as [c adm|c b totals|order|s b|c|s| |s|nodes newslots|ch|da dd]; cbn [step].
  - destruct (lookup c (clients st)); intro E; apply ROk_inj in E; subst st'; exact H.
  - intro E; apply ROk_inj in E; subst st'. apply ensure_dials_both. unfold client_data.
    destruct (lookup c (clients st)) as [cl|]; [|split; assumption].
    destruct (pc_open cl && negb (pc_closing cl))%bool; [|split; assumption].
    split; [apply client_loop_sinv, HS | apply client_loop_ninv; assumption].
  - intro E; apply ROk_inj in E; subst st'. apply run_tasks_ninv, H.
  - unfold server_data. destruct (lookup s (servers st)) as [sv|]; [|intro E; apply ROk_inj in E; subst; exact H].
    destruct (ps_open sv); [|intro E; apply ROk_inj in E; subst; exact H].
    intro E. eapply server_loop_both; [|exact E]. split; assumption.
  - intro E; apply ROk_inj in E; subst st'.
    apply (NInv_keep st); [apply pext_same_s, same_s_close_client | apply dmono_close_client | exact H].
  - intro E; apply ROk_inj in E; subst st'. apply (run_task_ninv st (fun _ => []) (TClose s)), H.
  - intro E; apply ROk_inj in E; subst st'. unfold timeout_scan.
    apply (NInv_keep (expire st (inflight st))); [apply pext_servers; reflexivity | apply dmono_msgs; reflexivity|].
    apply (NInv_keep st); [apply pext_same_s, same_s_expire | apply dmono_expire | exact H].
  - destruct (find_pool st s) as [p|]; [|intro E; apply ROk_inj in E; subst st'; exact H].
    destruct (pool_get st p) as [st1 [s1|]] eqn:Eg; pose proof (pool_get_ninv _ _ _ _ HS H Eg) as A; intro E; apply ROk_inj in E; subst st'; exact A.
  - intro E; apply ROk_inj in E; subst st'. apply (NInv_keep st); [apply pext_servers; reflexivity | apply dmono_msgs; reflexivity | exact H].
  - intro E; apply ROk_inj in E; subst st'. apply (NInv_keep st); [apply pext_servers; reflexivity | apply dmono_msgs; reflexivity | exact H].
  - intro E; apply ROk_inj in E; subst st'. apply (NInv_keep st); [apply pext_servers; reflexivity | apply dmono_msgs; reflexivity | exact H].
Qed.

Theorem run_both evs : forall st st', Both st -> run st evs = ROk st' -> Both st'.
Proof.
  induction evs as [|e r IH]; intros st st' H; cbn [run].
  - intro E; apply ROk_inj in E; subst; exact H.
  - destruct (step st e) as [st1| | |] eqn:Es; try discriminate. intro E. eapply IH; [eapply step_both; eassumption | exact E].
Qed.

Lemma init_both c pools slots : Both (init_state c pools slots).
Proof. split; [apply init_sinv|]. intros mid slot H. cbn in H. discriminate. Qed.

(* ---------- C15 ---------- *)
(* in every reachable state, a fragment that still owes a reply is held by an open connection *)
Theorem no_orphan c pools slots evs st mid slot :
  run (init_state c pools slots) evs = ROk st -> frag_done st mid slot = false ->
  exists s sv, lookup s (servers st) = Some sv /\ ps_open sv = true /\ In (FReq mid slot) (ps_inq sv ++ ps_outq sv).
Proof. intros Hrun Hf. destruct (run_both evs _ _ (init_both c pools slots) Hrun) as [_ H]. apply H, Hf. Qed.

(* a request with an un-done fragment in the list is failed as a whole *)
Lemma fail_frags_all_done : forall fs st mid slot slot', In (FReq mid slot) fs -> frag_done st mid slot = false ->
  frag_done (fail_frags st fs) mid slot' = true.
Proof.
  induction fs as [|f fs IH]; intros st mid slot slot' Hin Hnd; [destruct Hin|]. cbn [fail_frags].
  assert (Hkeep : forall st2, frag_done st2 mid slot' = true -> frag_done (fail_frags st2 fs) mid slot' = true).
  { intros st2 Hd. destruct (frag_done (fail_frags st2 fs) mid slot') eqn:E2; [reflexivity|]. apply dmono_fail_frags in E2. congruence. }
  assert (Hex : exists m, lookup mid (msgs st) = Some m).
  { unfold frag_done in Hnd. destruct (lookup mid (msgs st)); [eauto | discriminate]. }
  destruct Hin as [->|Hin].
  - rewrite Hnd. apply Hkeep, frag_done_fail_and_flush, Hex.
  - destruct f as [|mid' slot'']; [eapply IH; eassumption|].
    destruct (frag_done st mid' slot'') eqn:Ef; [eapply IH; eassumption|].
    match goal with |- frag_done (fail_frags ?x fs) mid slot' = true => set (st2 := x) end.
    destruct (Nat.eqb_spec mid' mid) as [->|Hne].
    + apply Hkeep, frag_done_fail_and_flush, Hex.
    + eapply IH; [exact Hin|].
      unfold st2, frag_done.
      assert (Hl : lookup mid (msgs (fail_msg st mid' ErrUnKnownProxyPoolConnError)) = lookup mid (msgs st)) by (apply fail_msg_other; auto).
      destruct (lookup mid' (msgs (fail_msg st mid' ErrUnKnownProxyPoolConnError))); [rewrite flush_if_open_msgs|]; rewrite Hl; exact Hnd.
Qed.

(* losing a connection completes every request with a fragment on it (awaiting a reply or not yet
   written), in the same step: afterwards no fragment of such a request owes a reply *)
Theorem close_completes st s sv mid slot slot' :
  lookup s (servers st) = Some sv -> ps_open sv = true -> In (FReq mid slot) (ps_inq sv ++ ps_outq sv) ->
  frag_done (close_server st s) mid slot = true /\
  (frag_done st mid slot = false -> frag_done (close_server st s) mid slot' = true).
Proof.
  intros Hs Ho Hin. unfold close_server. rewrite Hs, Ho.
  set (fs := ps_inq sv ++ ps_outq sv) in *.
  split; [apply (fail_frags_done fs st mid slot Hin) | apply (fail_frags_all_done fs st mid slot slot' Hin)].
Qed.

(* the request itself is complete (and will be flushed to its client when it reaches the head) *)
Lemma msg_done_fail_and_flush st mid e : (exists m, lookup mid (msgs st) = Some m) ->
  msg_done (match lookup mid (msgs (fail_msg st mid e)) with
            | Some m => flush_if_open (fail_msg st mid e) (pm_client m) | None => fail_msg st mid e end) mid = true.
Proof.
  intros (m & Hm).
  assert (Hd : msg_done (fail_msg st mid e) mid = true).
  { unfold msg_done, fail_msg. rewrite Hm. cbn [set_msg msgs]. rewrite lookup_update_eq. reflexivity. }
  destruct (lookup mid (msgs (fail_msg st mid e))); [|exact Hd].
  unfold msg_done in *. rewrite flush_if_open_msgs. exact Hd.
Qed.

(* a redirect that names a node the proxy has no pool for completes the request with an error *)
Theorem redirect_unknown_node st f mid ty addr :
  (exists m, lookup mid (msgs st) = Some m) ->
  find_pool (mark_moved st mid (frag_slot f)) addr = None ->
  msg_done (on_moved st f mid ty addr) mid = true /\ forall slot, frag_done (on_moved st f mid ty addr) mid slot = true.
Proof.
  intros (m & Hm) Hf. unfold on_moved. rewrite Hf.
  assert (Hex : exists m', lookup mid (msgs (mark_moved st mid (frag_slot f))) = Some m').
  { unfold mark_moved. rewrite Hm. cbn [set_msg msgs]. rewrite lookup_update_eq. eauto. }
  split; [apply msg_done_fail_and_flush, Hex | intro slot; apply frag_done_fail_and_flush, Hex].
Qed.

(* ... and so does a redirect to a node whose pool cannot give a connection *)
Theorem redirect_no_connection st f mid ty addr p st1 :
  (exists m, lookup mid (msgs st) = Some m) ->
  find_pool (mark_moved st mid (frag_slot f)) addr = Some p ->
  pool_get (mark_moved st mid (frag_slot f)) p = (st1, None) ->
  msg_done (on_moved st f mid ty addr) mid = true.
Proof.
  intros (m & Hm) Hf Hg. unfold on_moved. rewrite Hf, Hg.
  apply msg_done_fail_and_flush.
  pose proof (same_cm_pool_get (mark_moved st mid (frag_slot f)) p) as Hcm. rewrite Hg in Hcm. cbn [fst] in Hcm.
  destruct Hcm as (_ & Em & _). rewrite Em. unfold mark_moved. rewrite Hm. cbn [set_msg msgs]. rewrite lookup_update_eq. eauto.
Qed.

(* after a loss, the pool never hands out the dead connection: what Pool.Get returns is open *)
Theorem pool_get_open c pools slots evs st p st' s :
  run (init_state c pools slots) evs = ROk st -> pool_get st p = (st', Some s) ->
  exists sv, lookup s (servers st') = Some sv /\ ps_open sv = true.
Proof.
  intros Hrun Hg. destruct (run_both evs _ _ (init_both c pools slots) Hrun) as [HS _].
  destruct (pool_get_sinv _ _ _ _ HS Hg) as (_ & B & _). apply B. reflexivity.
Qed.

(* ---------- a node leaves the topology, or changes role (C15 / C04) ---------- *)
(* the ticker schedules the closing of every connection of a pool whose node is no longer listed, or
   is listed with the other role; the pool itself is dropped, or restarts without connections, in the
   same step - no later request is given one of those connections.  When the close task runs,
   every request with a fragment on the connection is completed (close_completes). *)
Theorem topology_schedules_close st nodes newslots p s :
  In p (pools st) -> In s (pp_conns p) ->
  node_role nodes (pp_addr p) <> Some (pp_slave p) ->
  In (TClose s) (tasks (apply_topology st nodes newslots)) /\
  (forall q, In q (topology_pool nodes p) -> pp_conns q = []).
Proof.
  intros Hp Hs Hr. split.
  - unfold apply_topology. cbn [tasks]. apply in_or_app. right. apply in_map. apply in_concat.
    exists (topology_closing nodes p). split; [apply in_map, Hp|].
    unfold topology_closing. destruct (node_role nodes (pp_addr p)) as [r|]; [|exact Hs].
    destruct (Bool.eqb r (pp_slave p)) eqn:E; [|exact Hs]. apply Bool.eqb_prop in E. subst r. contradiction.
  - intros q Hq. unfold topology_pool in Hq. destruct (node_role nodes (pp_addr p)) as [r|]; [|destruct Hq].
    destruct (Bool.eqb r (pp_slave p)) eqn:E; destruct Hq as [<-|[]]; [|reflexivity].
    apply Bool.eqb_prop in E. subst r. contradiction.
Qed.

(* a pool whose node is still listed with the same role is left alone *)
Theorem topology_keeps_unchanged_pools st nodes newslots p :
  In p (pools st) -> node_role nodes (pp_addr p) = Some (pp_slave p) ->
  In p (pools (apply_topology st nodes newslots)) /\
  (forall s, In s (pp_conns p) -> ~ In s (topology_closing nodes p)).
Proof.
  intros Hp Hr. split.
  - unfold apply_topology. cbn [pools]. apply in_concat. exists (topology_pool nodes p). split; [apply in_map, Hp|].
    unfold topology_pool. rewrite Hr, Bool.eqb_reflx. left; reflexivity.
  - intros s _. unfold topology_closing. rewrite Hr, Bool.eqb_reflx. intros [].
Qed.
