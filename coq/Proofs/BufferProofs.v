(* linkedlist.Buffer, elastic.RingBuffer and elastic.Buffer refine a FIFO byte queue (C19). *)
From RcProxy Require Import Base.Bytes Model.Buffers Proofs.RingProofs.
From Coq Require Import Arith Lia ZifyNat ZifyN ZifyBool NArith.
Local Open Scope nat_scope.

Definition chunks_ok (l : llist) : Prop := Forall (fun b : bytes => b <> []) l.

(* ---------- linked list ---------- *)
Lemma ll_push_back_spec l p : chunks_ok l -> chunks_ok (ll_push_back l p) /\ concat (ll_push_back l p) = concat l ++ p.
Proof.
  intro H. destruct p as [|b p']; cbn [ll_push_back].
  - rewrite app_nil_r. auto.
  - split; [apply Forall_app; split; [exact H | constructor; [discriminate | constructor]]|].
    rewrite concat_app. cbn [concat]. rewrite app_nil_r. reflexivity.
Qed.

Lemma fold_push_back_spec : forall bs l, chunks_ok l ->
  chunks_ok (fold_left ll_push_back bs l) /\ concat (fold_left ll_push_back bs l) = concat l ++ concat bs.
Proof.
  induction bs as [|b bs IH]; intros l H; cbn [fold_left concat].
  - rewrite app_nil_r. auto.
  - destruct (ll_push_back_spec l b H) as [H1 H2]. destruct (IH _ H1) as [H3 H4].
    split; [exact H3|]. rewrite H4, H2, app_assoc. reflexivity.
Qed.

Lemma ll_is_empty_spec l : chunks_ok l -> ll_is_empty l = true <-> concat l = [].
Proof.
  intro H. destruct l as [|b r]; cbn; [split; reflexivity|]. split; [discriminate|].
  intro E. apply app_eq_nil in E. destruct E as [E _]. inversion H; subst. contradiction.
Qed.

Lemma ll_discard_spec : forall l n d l', chunks_ok l -> ll_discard l n = (d, l') ->
  d = Nat.min n (length (concat l)) /\ concat l' = skipn n (concat l) /\ chunks_ok l'.
Proof.
  induction l as [|b r IH]; intros n d l' H E.
  - destruct n; cbn in E; inversion E; subst; cbn; rewrite ?skipn_nil; repeat split; try constructor; lia.
  - destruct n as [|n']; [cbn in E; inversion E; subst; cbn [skipn]; repeat split; try lia; exact H|].
    cbn [ll_discard] in E. inversion H as [|? ? Hb Hr]; subst.
    assert (Hn0 : 0 < S n') by lia. remember (S n') as n eqn:En. clear En.
    destruct (Nat.ltb_spec n (length b)) as [Hlt|Hge].
    + inversion E; subst. cbn [concat]. rewrite app_length. split; [lia|]. split.
      * rewrite skipn_app_le by lia. reflexivity.
      * constructor; [cbv beta; apply nonempty_length; rewrite skipn_length; lia | exact Hr].
    + destruct (ll_discard r (n - length b)) as [d0 r'] eqn:Er. inversion E; subst.
      destruct (IH _ _ _ Hr Er) as (A & B & C). cbn [concat]. rewrite app_length. split; [lia|]. split; [|exact C].
      rewrite skipn_app_ge by lia. exact B.
Qed.

Lemma ll_read_spec : forall l k d l', chunks_ok l -> ll_read l k = (d, l') ->
  d = firstn k (concat l) /\ concat l' = skipn k (concat l) /\ chunks_ok l'.
Proof.
  induction l as [|b r IH]; intros k d l' H E.
  - destruct k; cbn in E; inversion E; subst; cbn; rewrite ?firstn_nil, ?skipn_nil; repeat split; constructor.
  - destruct k as [|k']; [cbn in E; inversion E; subst; cbn [firstn skipn]; repeat split; try exact H|].
    cbn [ll_read] in E. inversion H as [|? ? Hb Hr]; subst.
    assert (Hk0 : 0 < S k') by lia. remember (S k') as k eqn:Ek. clear Ek.
    destruct (Nat.ltb_spec k (length b)) as [Hlt|Hge].
    + inversion E; subst. cbn [concat]. split; [rewrite firstn_app_le by lia; reflexivity|]. split.
      * rewrite skipn_app_le by lia. reflexivity.
      * constructor; [cbv beta; apply nonempty_length; rewrite skipn_length; lia | exact Hr].
    + destruct (ll_read r (k - length b)) as [d0 r'] eqn:Er. inversion E; subst.
      destruct (IH _ _ _ Hr Er) as (A & B & C). cbn [concat]. split; [|split; [|exact C]].
      * rewrite firstn_app_ge by lia. rewrite A. reflexivity.
      * rewrite skipn_app_ge by lia. exact B.
Qed.

(* whole chunks from the front until the total reaches maxb *)
Lemma take_chunks_spec : forall l cum maxb t o, take_chunks cum maxb l = (t, o) ->
  (exists rest, l = t ++ rest) /\
  match o with
  | None => maxb <= cum + length (concat t)
  | Some cum' => t = l /\ cum' = cum + length (concat l)
  end.
Proof.
  induction l as [|b r IH]; intros cum maxb t o E; cbn [take_chunks] in E.
  - inversion E; subst. split; [exists []; reflexivity|]. cbn. split; [reflexivity | lia].
  - destruct (Nat.leb_spec maxb (cum + length b)) as [Hle|Hgt].
    + inversion E; subst. split; [exists r; reflexivity|]. cbn [concat]. rewrite app_nil_r. exact Hle.
    + destruct (take_chunks (cum + length b) maxb r) as [t0 c0] eqn:Er. inversion E; subst.
      destruct (IH _ _ _ _ Er) as ((rest & Hr) & Ho). split; [exists rest; cbn; rewrite <- Hr; reflexivity|].
      destruct o as [cum'|]; cbn [concat]; rewrite app_length.
      * destruct Ho as [-> ->]. split; [reflexivity | lia].
      * lia.
Qed.

Lemma concat_filter_nonempty (l : list bytes) : concat (filter (fun b => negb (length b =? 0)) l) = concat l.
Proof.
  induction l as [|b r IH]; cbn [filter concat]; [reflexivity|].
  destruct (Nat.eqb_spec (length b) 0) as [E|E]; cbn [negb concat].
  - rewrite (length_zero_nil _ E). exact IH.
  - rewrite IH. reflexivity.
Qed.

(* PeekWithBytes: a prefix of (pre ++ list), everything or at least maxb bytes *)
Lemma ll_peek_with_spec l maxb pre :
  exists rest, concat pre ++ concat l = concat (ll_peek_with l maxb pre) ++ rest /\
               (rest = [] \/ maxb <= length (concat (ll_peek_with l maxb pre))).
Proof.
  unfold ll_peek_with. set (pre' := filter (fun b => negb (length b =? 0)) pre).
  rewrite <- (concat_filter_nonempty pre). fold pre'.
  destruct (take_chunks 0 maxb pre') as [t o] eqn:E1.
  destruct (take_chunks_spec _ _ _ _ _ E1) as ((r1 & Hr1) & Ho1).
  destruct o as [cum|].
  - destruct Ho1 as [-> ->]. destruct (take_chunks (0 + length (concat pre')) maxb l) as [t2 o2] eqn:E2.
    destruct (take_chunks_spec _ _ _ _ _ E2) as ((r2 & Hr2) & Ho2). cbn [fst].
    exists (concat r2). rewrite Hr2 at 1. rewrite !concat_app, app_assoc. split; [reflexivity|].
    destruct o2 as [c2|].
    + left. destruct Ho2 as [Ht _]. rewrite Ht in Hr2. apply (f_equal (@length _)) in Hr2. rewrite app_length in Hr2.
      assert (length r2 = 0) by lia. rewrite (length_zero_nil _ H). reflexivity.
    + right. rewrite app_length. lia.
  - exists (concat r1 ++ concat l). rewrite Hr1 at 1. rewrite concat_app, <- app_assoc. split; [reflexivity|].
    right. lia.
Qed.

(* ---------- elastic.RingBuffer ---------- *)
Definition erview (b : ering) (c : bytes) : Prop :=
  match b with Some rb => rview rb c | None => c = [] end.

Lemma er_instance_view b c cap0 : erview b c -> rview (er_instance b cap0) c.
Proof.
  destruct b as [rb|]; cbn [erview er_instance]; [auto|]. intros ->.
  destruct (cap0 =? 0); [apply view_new|]. apply mk_empty. rewrite repeat_length. reflexivity.
Qed.

Lemma er_done_view rb c : rview rb c -> erview (er_done (Some rb)) c.
Proof.
  intro H. cbn [er_done]. destruct (rg_empty rb) eqn:E; cbn [erview]; [|exact H].
  apply (view_empty _ _ H), E.
Qed.

Lemma er_write_spec b c cap0 p : erview b c -> small_size (length c + length p) -> erview (er_write b cap0 p) (c ++ p).
Proof.
  intros H Hs. destruct p as [|x p']; cbn [er_write]; [rewrite app_nil_r; exact H|].
  cbn [erview]. apply ring_write_spec; [apply er_instance_view, H | exact Hs].
Qed.

Lemma er_peek_spec b c pos n h t : erview b c -> er_peek b pos n = (h, t) -> h ++ t = if pos then firstn n c else c.
Proof.
  destruct b as [rb|]; cbn [erview er_peek]; [apply ring_peek_spec|].
  intros -> E; inversion E; subst. destruct pos; [rewrite firstn_nil|]; reflexivity.
Qed.

Lemma er_discard_spec b c n d b' : erview b c -> er_discard b n = (d, b') ->
  d = Nat.min n (length c) /\ erview b' (skipn n c).
Proof.
  destruct b as [rb|]; cbn [erview er_discard].
  - intros H. destruct (ring_discard rb n) as [d0 rb'] eqn:E. intro E2; inversion E2; subst.
    destruct (ring_discard_spec _ _ _ _ _ H E) as [A B]. split; [exact A | apply er_done_view, B].
  - intros -> E; inversion E; subst. cbn. rewrite skipn_nil. split; [lia | reflexivity].
Qed.

Lemma er_read_spec b c k o b' : erview b c -> er_read b k = (o, b') ->
  match o with Some d => d | None => [] end = firstn k c /\ erview b' (skipn k c).
Proof.
  destruct b as [rb|]; cbn [erview er_read].
  - intros H. destruct (ring_read rb k) as [o0 rb'] eqn:E. intro E2; inversion E2; subst.
    destruct (ring_read_spec _ _ _ _ _ H E) as (H1 & H2 & H3).
    destruct (Nat.eq_dec k 0) as [->|Hk].
    + destruct (H1 eq_refl) as [-> ->]. cbn [firstn skipn]. split; [reflexivity | apply er_done_view, H].
    + destruct c as [|x c'].
      * destruct (H2 ltac:(lia) eq_refl) as [-> ->]. rewrite firstn_nil, skipn_nil. split; [reflexivity | apply er_done_view, H].
      * destruct (H3 ltac:(lia) ltac:(discriminate)) as [-> Hv]. split; [reflexivity | apply er_done_view, Hv].
  - intros -> E; inversion E; subst. rewrite firstn_nil, skipn_nil. split; reflexivity.
Qed.

Lemma er_buffered_spec b c : erview b c -> er_buffered b = length c.
Proof. destruct b as [rb|]; cbn [erview er_buffered]; [apply view_buffered | intros ->; reflexivity]. Qed.

Lemma er_is_empty_spec b c : erview b c -> er_is_empty b = true <-> c = [].
Proof. destruct b as [rb|]; cbn [erview er_is_empty]; [apply view_empty | intros ->; split; reflexivity]. Qed.

Lemma er_available_spec b c : erview b c -> er_available b = er_len b - length c.
Proof.
  destruct b as [rb|]; cbn [erview er_available er_len]; [|intros ->; reflexivity].
  intro H. rewrite (view_available _ _ H), (view_size _ _ H). reflexivity.
Qed.

Lemma er_reset_view b c : erview b c -> erview (er_reset b) [].
Proof. destruct b as [rb|]; cbn [erview er_reset]; [apply view_reset | auto]. Qed.

(* ---------- elastic.Buffer ---------- *)
Record ebview (b : ebuf) (q : bytes) : Prop := {
  ev_ring : exists c, erview (eb_ring b) c /\ q = c ++ concat (eb_list b);
  ev_list : chunks_ok (eb_list b)
}.

Lemma ebview_intro b q c : erview (eb_ring b) c -> q = c ++ concat (eb_list b) -> chunks_ok (eb_list b) -> ebview b q.
Proof. intros. constructor; eauto. Qed.

Lemma eb_new_view maxb : ebview (eb_new maxb) [].
Proof. apply (ebview_intro _ _ []); cbn; [reflexivity | reflexivity | constructor]. Qed.

Theorem eb_write_spec b q cap0 p : ebview b q -> small_size (length q + length p) -> ebview (eb_write b cap0 p) (q ++ p).
Proof.
  intros [(c & Hc & ->) Hl] Hs. unfold eb_write. rewrite app_length in Hs.
  destruct (ll_is_empty (eb_list b)) eqn:El; cbn [negb orb].
  - apply (ll_is_empty_spec _ Hl) in El. rewrite El, app_nil_r in *. cbn [length] in Hs.
    destruct (eb_max b <=? er_buffered (eb_ring b)).
    + destruct (ll_push_back_spec (eb_list b) p Hl) as [A B].
      apply (ebview_intro _ _ c); cbn [eb_ring eb_list]; [exact Hc | rewrite B, El; reflexivity | exact A].
    + destruct ((eb_max b <=? er_len (eb_ring b)) && (er_available (eb_ring b) <? length p))%bool.
      * set (w := er_available (eb_ring b)).
        destruct (ll_push_back_spec (eb_list b) (skipn w p) Hl) as [A B].
        apply (ebview_intro _ _ (c ++ firstn w p)); cbn [eb_ring eb_list].
        -- apply er_write_spec; [exact Hc|]. unfold small_size in *. rewrite firstn_length. lia.
        -- rewrite B, El. cbn [app]. rewrite <- app_assoc, firstn_skipn. reflexivity.
        -- exact A.
      * apply (ebview_intro _ _ (c ++ p)); cbn [eb_ring eb_list].
        -- apply er_write_spec; [exact Hc|]. unfold small_size in *. lia.
        -- rewrite El, app_nil_r. reflexivity.
        -- exact Hl.
  - destruct (ll_push_back_spec (eb_list b) p Hl) as [A B].
    apply (ebview_intro _ _ c); cbn [eb_ring eb_list]; [exact Hc | rewrite B, app_assoc; reflexivity | exact A].
Qed.

Lemma eb_writev_loop_spec cap0 : forall bs rg c writable rg' l',
  erview rg c -> small_size (length c + length (concat bs)) ->
  eb_writev_loop rg cap0 [] writable bs = (rg', l') ->
  exists c', erview rg' c' /\ c' ++ concat l' = c ++ concat bs /\ chunks_ok l'.
Proof.
  induction bs as [|x bs IH]; intros rg c writable rg' l' Hc Hs E; cbn [eb_writev_loop] in E.
  - inversion E; subst. exists c. cbn. rewrite app_nil_r. repeat split; [exact Hc | constructor].
  - cbn [concat] in Hs. rewrite app_length in Hs.
    destruct (Nat.ltb_spec writable (length x)) as [Hsplit|Hfit].
    + inversion E; subst. exists (c ++ firstn writable x). split.
      * apply er_write_spec; [exact Hc|]. unfold small_size in *. rewrite firstn_length. lia.
      * destruct (ll_push_back_spec [] (skipn writable x) ltac:(constructor)) as [A B].
        destruct (fold_push_back_spec bs _ A) as [A2 B2]. split; [|exact A2].
        rewrite B2, B. cbn [concat app]. rewrite <- !app_assoc. rewrite (app_assoc (firstn writable x)), firstn_skipn. reflexivity.
    + assert (Hs1 : small_size (length c + length x)) by (unfold small_size in *; lia).
      assert (Hs2 : small_size (length (c ++ x) + length (concat bs))) by (unfold small_size in *; rewrite app_length; lia).
      destruct (IH _ (c ++ x) _ _ _ (er_write_spec _ _ cap0 x Hc Hs1) Hs2 E) as (c' & A & B & C).
      exists c'. split; [exact A|]. split; [|exact C]. rewrite B. cbn [concat]. rewrite <- app_assoc. reflexivity.
Qed.

Theorem eb_writev_spec b q cap0 bs : ebview b q -> small_size (length q + length (concat bs)) ->
  ebview (eb_writev b cap0 bs) (q ++ concat bs).
Proof.
  intros [(c & Hc & ->) Hl] Hs. unfold eb_writev. rewrite app_length in Hs.
  destruct (ll_is_empty (eb_list b)) eqn:El; cbn [negb orb].
  - pose proof El as El'. apply (ll_is_empty_spec _ Hl) in El'. rewrite El', app_nil_r in *. cbn [length] in Hs.
    destruct (eb_max b <=? er_buffered (eb_ring b)).
    + destruct (fold_push_back_spec bs (eb_list b) Hl) as [A B].
      apply (ebview_intro _ _ c); cbn [eb_ring eb_list]; [exact Hc | rewrite B, El'; reflexivity | exact A].
    + assert (Enil : eb_list b = []) by (destruct (eb_list b); [reflexivity | discriminate]).
      rewrite Enil.
      match goal with |- context [eb_writev_loop ?rg ?c0 [] ?w bs] => destruct (eb_writev_loop rg c0 [] w bs) as [rg' l'] eqn:E end.
      assert (Hs' : small_size (length c + length (concat bs))) by (unfold small_size in *; lia).
      destruct (eb_writev_loop_spec _ _ _ _ _ _ _ Hc Hs' E) as (c' & A & B & C).
      apply (ebview_intro _ _ c'); cbn [eb_ring eb_list]; [exact A | symmetry; exact B | exact C].
  - destruct (fold_push_back_spec bs (eb_list b) Hl) as [A B].
    apply (ebview_intro _ _ c); cbn [eb_ring eb_list]; [exact Hc | rewrite B, app_assoc; reflexivity | exact A].
Qed.

Theorem eb_discard_spec b q n d b' : ebview b q -> eb_discard b n = (d, b') ->
  d = Nat.min n (length q) /\ ebview b' (skipn n q).
Proof.
  intros [(c & Hc & ->) Hl]. unfold eb_discard.
  destruct (er_discard (eb_ring b) n) as [d0 rg] eqn:Ed. destruct (er_discard_spec _ _ _ _ _ Hc Ed) as [-> Hrg].
  rewrite app_length.
  destruct (Nat.leb_spec n (Nat.min n (length c))) as [Hle|Hgt]; intro E.
  - inversion E; subst. split; [lia|].
    apply (ebview_intro _ _ (skipn n c)); cbn [eb_ring eb_list]; [exact Hrg | apply skipn_app_le; lia | exact Hl].
  - destruct (ll_discard (eb_list b) (n - Nat.min n (length c))) as [m l] eqn:El. inversion E; subst.
    destruct (ll_discard_spec _ _ _ _ Hl El) as (A & B & C).
    replace (n - Nat.min n (length c)) with (n - length c) in * by lia.
    split; [lia|].
    apply (ebview_intro _ _ (skipn n c)); cbn [eb_ring eb_list]; [exact Hrg | | exact C].
    rewrite B, skipn_app_ge by lia. rewrite (skipn_all2 c) by lia. reflexivity.
Qed.

Theorem eb_read_spec b q k d b' : ebview b q -> eb_read b k = (d, b') ->
  d = firstn k q /\ ebview b' (skipn k q).
Proof.
  intros [(c & Hc & ->) Hl]. unfold eb_read.
  destruct (er_read (eb_ring b) k) as [o rg] eqn:Er. destruct (er_read_spec _ _ _ _ _ Hc Er) as [Hgot Hrg].
  rewrite Hgot. rewrite firstn_length.
  destruct (Nat.eqb_spec (Nat.min k (length c)) k) as [Heq|Hne]; intro E.
  - inversion E; subst. split; [rewrite firstn_app_le by lia; reflexivity|].
    apply (ebview_intro _ _ (skipn k c)); cbn [eb_ring eb_list]; [exact Hrg | apply skipn_app_le; lia | exact Hl].
  - destruct (ll_read (eb_list b) (k - Nat.min k (length c))) as [d1 l] eqn:El. inversion E; subst.
    destruct (ll_read_spec _ _ _ _ Hl El) as (A & B & C).
    replace (k - Nat.min k (length c)) with (k - length c) in * by lia.
    split.
    + rewrite firstn_app_ge by lia. rewrite (firstn_all2 c) by lia. rewrite A. reflexivity.
    + apply (ebview_intro _ _ (skipn k c)); cbn [eb_ring eb_list]; [exact Hrg | | exact C].
      rewrite B, skipn_app_ge by lia. rewrite (skipn_all2 c) by lia. reflexivity.
Qed.

(* Peek returns whole chunks: the oldest bytes, and at least min(n, buffered) of them (all for n <= 0) *)
Theorem eb_peek_spec b q pos n : ebview b q ->
  exists rest, q = concat (eb_peek b pos n) ++ rest /\
    (if pos then rest = [] \/ n <= length (concat (eb_peek b pos n)) else rest = []).
Proof.
  intros [(c & Hc & ->) Hl]. unfold eb_peek. rewrite (er_buffered_spec _ _ Hc).
  set (n' := if pos then n else S (length c + length (concat (eb_list b)))).
  destruct (er_peek (eb_ring b) true n') as [h t] eqn:Ep. pose proof (er_peek_spec _ _ _ _ _ _ Hc Ep) as Hht.
  destruct (Nat.leb_spec n' (length c)) as [Hle|Hgt].
  - (* enough in the ring *)
    exists (skipn n' c ++ concat (eb_list b)). cbn [concat]. rewrite app_nil_r, Hht, app_assoc, firstn_skipn.
    split; [reflexivity|]. destruct pos; [right; rewrite firstn_length; unfold n' in *; lia | unfold n' in Hle; cbv iota in Hle; lia].
  - rewrite firstn_all2 in Hht by lia.
    destruct (ll_peek_with_spec (eb_list b) n' [h; t]) as (rest & A & B).
    cbn [concat] in A. rewrite app_nil_r, Hht in A. exists rest. split; [exact A|].
    destruct pos; [exact B|]. destruct B as [B|B]; [exact B|].
    apply (f_equal (@length _)) in A. rewrite !app_length in A. unfold n' in *. cbv iota in *. exfalso. lia.
Qed.

Lemma eb_buffered_spec b q : ebview b q -> eb_buffered b = length q.
Proof.
  intros [(c & Hc & ->) Hl]. unfold eb_buffered, ll_bytes. rewrite (er_buffered_spec _ _ Hc), app_length. reflexivity.
Qed.

Lemma eb_is_empty_spec b q : ebview b q -> eb_is_empty b = true <-> q = [].
Proof.
  intros [(c & Hc & ->) Hl]. unfold eb_is_empty. rewrite Bool.andb_true_iff, (er_is_empty_spec _ _ Hc), (ll_is_empty_spec _ Hl).
  split; [intros [-> ->]; reflexivity | intro E; apply app_eq_nil in E; exact E].
Qed.

Lemma eb_reset_view b q maxb : ebview b q -> ebview (eb_reset b maxb) [].
Proof.
  intros [(c & Hc & ->) Hl]. apply (ebview_intro _ _ []); cbn [eb_reset eb_ring eb_list]; [eapply er_reset_view, Hc | reflexivity | constructor].
Qed.
