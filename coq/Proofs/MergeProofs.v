(* Proofs for C07 / C11: reassembly of split replies is correct and independent of arrival order;
   an error reply to any fragment yields an error reply for the whole request. *)
From RcProxy Require Import Base.Bytes Base.Dec Gen.Generated Spec.RespGrammar Spec.RespValue
  Model.RespBuf Model.Commands Model.Crc16 Model.ClientCodec Model.ServerCodec
  Proofs.DecProofs Proofs.RespBufProofs Proofs.ClientCodecProofs Proofs.SplitProofs.
From Coq Require Import ZifyN ZifyNat ZifyBool Permutation.
Open Scope N_scope.

Notation group := (N * list bytes)%type (only parsing).

Definition init_frag (g : group) : sfrag :=
  {| sf_slot := fst g; sf_keys := snd g; sf_rsp := []; sf_ok := false; sf_done := false; sf_error := [] |}.

Definition memN (s : N) (P : list N) : bool := existsb (N.eqb s) P.

Lemma memN_In s P : memN s P = true <-> In s P.
Proof.
  unfold memN. rewrite existsb_exists. split.
  - intros (x & Hx & E). apply N.eqb_eq in E. subst. exact Hx.
  - intro H. exists s. split; [exact H | apply N.eqb_refl].
Qed.

Section FragState.
  Variable groups : list group.
  Variable pay : group -> sfrag.                 (* state of a fragment once its reply was merged *)
  Hypothesis pay_slot : forall g, sf_slot (pay g) = fst g.
  Hypothesis nodup : NoDup (map fst groups).

  Definition FS (P : list N) : list sfrag :=
    map (fun g => if memN (fst g) P then pay g else init_frag g) groups.

  Lemma FS_length P : length (FS P) = length groups.
  Proof. apply map_length. Qed.

  Lemma FS_slot P g : sf_slot (if memN (fst g) P then pay g else init_frag g) = fst g.
  Proof. destruct (memN (fst g) P); [apply pay_slot | reflexivity]. Qed.

  Lemma get_frag_FS P s gk : In (s, gk) groups ->
    get_frag (FS P) s = Some (if memN s P then pay (s, gk) else init_frag (s, gk)).
  Proof.
    unfold FS, get_frag. revert nodup. induction groups as [|g gs IH]; intros Hnd Hin; [contradiction|].
    cbn [map find]. rewrite FS_slot. inversion Hnd as [|? ? Hnotin Hnd']; subst.
    destruct Hin as [->|Hin].
    - cbn [fst]. rewrite N.eqb_refl. reflexivity.
    - destruct (N.eqb_spec (fst g) s) as [E|E].
      + exfalso. apply Hnotin. rewrite E. change s with (fst (s, gk)). apply in_map, Hin.
      + apply IH; assumption.
  Qed.

  Lemma set_frag_FS P s (u : sfrag -> sfrag) :
    ~ In s P -> (forall g, In g groups -> fst g = s -> u (init_frag g) = pay g) ->
    set_frag (FS P) s u = FS (s :: P).
  Proof.
    intros HnP Hu. unfold set_frag, FS. rewrite map_map. apply map_ext_in. intros g Hg.
    rewrite FS_slot. cbn [memN existsb]. fold (memN (fst g) P).
    destruct (N.eqb_spec (fst g) s) as [E|E].
    - assert (memN (fst g) P = false) as ->.
      { destruct (memN (fst g) P) eqn:Em; [|reflexivity]. apply memN_In in Em. rewrite E in Em. contradiction. }
      cbn [orb]. apply Hu; assumption.
    - reflexivity.
  Qed.

  Lemma group_unique s gk g : In (s, gk) groups -> In g groups -> fst g = s -> g = (s, gk).
  Proof.
    revert nodup. induction groups as [|x xs IH]; intros Hnd H1 H2 E; [contradiction|].
    cbn [map] in Hnd. apply NoDup_cons_iff in Hnd as [Hnotin Hnd'].
    destruct H1 as [H1|H1]; destruct H2 as [H2|H2].
    - congruence.
    - exfalso. apply Hnotin. rewrite H1. cbn [fst]. rewrite <- E. apply in_map, H2.
    - exfalso. apply Hnotin. rewrite H2, E. change s with (fst (s, gk)). apply in_map, H1.
    - apply IH; assumption.
  Qed.
End FragState.

(* ---------- parse_mget on an array of bulk / nil elements ---------- *)
Definition render (rho : bytes -> option bytes) (k : bytes) : bytes :=
  match rho k with Some v => enc_bulk v | None => bs "$-1" ++ crlf end.

Definition mget_reply (rho : bytes -> option bytes) (gk : list bytes) : bytes :=
  [42] ++ itoa_nat (length gk) ++ crlf ++ concat (map (render rho) gk).

Definition small_store (rho : bytes -> option bytes) : Prop :=
  forall k v, rho k = Some v -> small v.

Lemma parse_mget_loop_enc rho (Hrho : small_store rho) gk : forall f acc,
  (length gk < f)%nat ->
  parse_mget_loop f (concat (map (render rho) gk)) acc = Some (acc ++ map (render rho) gk).
Proof.
  induction gk as [|k gk IH]; intros f acc Hf.
  - destruct f; [simpl in Hf; lia|]. simpl. rewrite app_nil_r. reflexivity.
  - destruct f as [|f]; [simpl in Hf; lia|]. cbn [map concat parse_mget_loop].
    unfold render at 1. destruct (rho k) as [v|] eqn:Ek.
    + rewrite enc_bulk_shape, <- !app_assoc.
      destruct (bulk_hdr_ok (N.of_nat (length v))) as [H1 H2].
      unfold itoa_nat. rewrite read_line_enc by assumption. cbn [tl].
      rewrite parse_len_itoa by (apply small_N, (Hrho _ _ Ek)). rewrite nat_N_Z.
      destruct (Z.ltb_spec (Z.of_nat (length v)) 0); [lia|].
      rewrite read_n_enc by (destruct v; discriminate).
      change 2%Z with (Z.of_nat (length crlf)). rewrite read_n_enc.
      2:{ destruct (concat (map (render rho) gk)); discriminate. }
      rewrite IH by (simpl in Hf; lia). rewrite <- app_assoc. cbn [app].
      unfold render at 2. rewrite Ek. rewrite enc_bulk_shape. unfold itoa_nat. reflexivity.
    + replace ((bs "$-1" ++ crlf) ++ concat (map (render rho) gk))
        with ((36 :: bs "-1") ++ crlf ++ concat (map (render rho) gk)) by reflexivity.
      rewrite read_line_enc; [|discriminate|intros [H|[H|[H|[]]]]; discriminate].
      cbn [tl]. change (parse_len (bs "-1")) with ((-1)%Z, @None rerr). cbn [Z.ltb Z.compare].
      rewrite IH by (simpl in Hf; lia). rewrite <- app_assoc. cbn [app].
      unfold render at 2. rewrite Ek. reflexivity.
Qed.

Lemma parse_mget_reply rho gk : small_store rho -> (Z.of_nat (length gk) < 10 ^ 18)%Z ->
  parse_mget (mget_reply rho gk) = Some (map (render rho) gk).
Proof.
  intros Hrho Hl. unfold parse_mget, mget_reply.
  replace ([42] ++ itoa_nat (length gk) ++ crlf ++ concat (map (render rho) gk))
    with ((42 :: itoa_nat (length gk)) ++ crlf ++ concat (map (render rho) gk)) by reflexivity.
  destruct (count_hdr_ok (N.of_nat (length gk))) as [H1 H2].
  unfold itoa_nat. rewrite read_line_enc by assumption.
  rewrite (parse_mget_loop_enc rho Hrho gk); [reflexivity|].
  assert (length gk <= length (concat (map (render rho) gk)))%nat.
  { clear. induction gk as [|k gk IH]; [simpl; lia|]. cbn [map concat length]. rewrite app_length.
    assert (0 < length (render rho k))%nat by (unfold render; destruct (rho k); [apply length_enc_bulk_pos | simpl; lia]).
    lia. }
  lia.
Qed.

(* ---------- generic fold over the fragments, in any order ---------- *)
Section Fold.
  Variable sigma : bytes -> N.
  Variable limit : Z.
  Variable groups : list group.
  Variable m_of m_fin : list N -> smsg.
  Variable rty : group -> N.
  Variable rep : group -> bytes.
  Hypothesis step_ok : forall P s gk, In (s, gk) groups -> ~ In s P ->
    NoDup P -> incl P (map fst groups) ->
    merge_step sigma limit (m_of P) s (rty (s, gk)) (rep (s, gk))
    = Fine (Some (if (S (length P) <? length groups)%nat then m_of (s :: P) else m_fin (s :: P))).

  Definition replies_of (todo : list group) : list (N * N * bytes) :=
    map (fun g => (fst g, rty g, rep g)) todo.

  Lemma run_all : forall todo P,
    NoDup P -> incl P (map fst groups) ->
    NoDup (map fst todo) -> incl todo groups -> (forall g, In g todo -> ~ In (fst g) P) ->
    (length P + length todo = length groups)%nat -> todo <> [] ->
    exists P', run_replies sigma limit (m_of P) (replies_of todo) = Fine (m_fin P')
               /\ Permutation P' (rev (map fst todo) ++ P).
  Proof.
    induction todo as [|g rest IH]; intros P HndP HinclP Hnd Hincl Hfresh Hlen Hne; [contradiction|].
    destruct g as [s gk]. cbn [replies_of map run_replies fst].
    assert (Hsg : In (s, gk) groups) by (apply Hincl; left; reflexivity).
    assert (HsP : ~ In s P) by (apply (Hfresh (s, gk)); left; reflexivity).
    rewrite step_ok by assumption.
    assert (HndP' : NoDup (s :: P)) by (constructor; assumption).
    assert (HinclP' : incl (s :: P) (map fst groups)).
    { intros x [<-|Hx]; [change s with (fst (s, gk)); apply in_map, Hsg | apply HinclP, Hx]. }
    inversion Hnd as [|? ? Hs Hnd']; subst.
    destruct rest as [|g2 rest].
    - cbn [length] in Hlen. destruct (Nat.ltb_spec (S (length P)) (length groups)); [lia|].
      exists (s :: P). split; [reflexivity|]. simpl. apply Permutation_refl.
    - destruct (Nat.ltb_spec (S (length P)) (length groups)) as [_|H]; [|cbn [length] in Hlen; lia].
      destruct (IH (s :: P)) as (P' & Hrun & Hperm).
      + exact HndP'.
      + exact HinclP'.
      + exact Hnd'.
      + intros x Hx. apply Hincl. right. exact Hx.
      + intros x Hx [E|E].
        * apply Hs. rewrite E. apply in_map, Hx.
        * apply (Hfresh x); [right; exact Hx | exact E].
      + cbn [length] in *. lia.
      + discriminate.
      + exists P'. split; [exact Hrun|].
        set (l := map fst (g2 :: rest)) in *.
        change (map fst ((s, gk) :: g2 :: rest)) with (s :: l).
        change (rev (s :: l)) with (rev l ++ [s]). rewrite <- app_assoc. exact Hperm.
  Qed.

  (* before the last reply nothing is completed: the state is m_of of the slots seen so far *)
  Lemma run_prefix : forall pre P,
    NoDup P -> incl P (map fst groups) ->
    NoDup (map fst pre) -> incl pre groups -> (forall g, In g pre -> ~ In (fst g) P) ->
    (length P + length pre < length groups)%nat ->
    run_replies sigma limit (m_of P) (replies_of pre) = Fine (m_of (rev (map fst pre) ++ P)).
  Proof.
    induction pre as [|g rest IH]; intros P HndP HinclP Hnd Hincl Hfresh Hlen; [reflexivity|].
    destruct g as [s gk]. cbn [replies_of map run_replies fst].
    assert (Hsg : In (s, gk) groups) by (apply Hincl; left; reflexivity).
    assert (HsP : ~ In s P) by (apply (Hfresh (s, gk)); left; reflexivity).
    rewrite step_ok by assumption.
    assert (HndP' : NoDup (s :: P)) by (constructor; assumption).
    assert (HinclP' : incl (s :: P) (map fst groups)).
    { intros x [<-|Hx]; [change s with (fst (s, gk)); apply in_map, Hsg | apply HinclP, Hx]. }
    inversion Hnd as [|? ? Hs Hnd']; subst. cbn [length] in Hlen.
    destruct (Nat.ltb_spec (S (length P)) (length groups)); [|lia].
    fold (replies_of rest). rewrite IH; [|exact HndP'|exact HinclP'| | | |].
    - set (l := map fst rest). change (map fst ((s, gk) :: rest)) with (s :: l).
      change (rev (s :: l)) with (rev l ++ [s]). rewrite <- app_assoc. reflexivity.
    - exact Hnd'.
    - intros x Hx. apply Hincl. right. exact Hx.
    - intros x Hx [E|E].
      + apply Hs. rewrite E. apply in_map, Hx.
      + apply (Hfresh x); [right; exact Hx | exact E].
    - cbn [length]. lia.
  Qed.
End Fold.

(* ---------- helper facts ---------- *)
Lemma NoDup_app_l {A} (l1 l2 : list A) : NoDup (l1 ++ l2) -> NoDup l1.
Proof.
  induction l1 as [|x l1 IH]; intro H; [constructor|].
  inversion H; subst. constructor; [intro Hin; apply H2; apply in_or_app; auto | apply IH; assumption].
Qed.

Lemma filter_length_le' {A} (f : A -> bool) l : (length (filter f l) <= length l)%nat.
Proof. induction l as [|x l IH]; simpl; [lia|]. destruct (f x); simpl; lia. Qed.

Lemma index_of_in k l : In k l -> exists i, index_of k l = Some i /\ nth_error l i = Some k.
Proof.
  induction l as [|x l IH]; [intros []|]. intro Hin. cbn [index_of].
  destruct (beqb x k) eqn:E.
  - apply beqb_eq in E. subst. exists O. auto.
  - destruct Hin as [->|Hin]; [rewrite beqb_refl in E; discriminate|].
    destruct (IH Hin) as (i & Hi & Hn). rewrite Hi. exists (S i). auto.
Qed.

Lemma groups_in sigma (ks : list bytes) s gk :
  In (s, gk) (group_by sigma (fun k => k) ks) ->
  gk = filter (fun x => N.eqb (sigma x) s) ks /\ In s (order sigma (fun k => k) ks).
Proof.
  destruct (group_by_spec sigma (fun k : bytes => k) ks) as [-> _].
  unfold groups_of. intro H. apply in_map_iff in H as (t & E & Ht). inversion E; subst. auto.
Qed.

Lemma groups_has sigma (ks : list bytes) k : In k ks ->
  In (sigma k, filter (fun x => N.eqb (sigma x) (sigma k)) ks) (group_by sigma (fun k => k) ks).
Proof.
  intro Hk. destruct (group_by_spec sigma (fun k : bytes => k) ks) as [-> _].
  unfold groups_of. apply in_map_iff. exists (sigma k). split; [reflexivity|].
  apply order_in. exists k. auto.
Qed.

Lemma groups_nodup sigma (ks : list bytes) : NoDup (map fst (group_by sigma (fun k => k) ks)).
Proof.
  destruct (group_by_spec sigma (fun k : bytes => k) ks) as [-> Hnd].
  rewrite map_fst_groups. exact Hnd.
Qed.

(* ---------- MGET ---------- *)
Section Mget.
  Variable sigma : bytes -> N.
  Variable limit : Z.
  Variable ks : list bytes.
  Variable rho : bytes -> option bytes.
  Hypothesis Hrho : small_store rho.
  Hypothesis Hks : (Z.of_nat (length ks) < 10 ^ 18)%Z.

  Let groups := group_by sigma (fun k : bytes => k) ks.

  Definition pay_mget (g : group) : sfrag :=
    {| sf_slot := fst g; sf_keys := snd g; sf_rsp := map (render rho) (snd g);
       sf_ok := false; sf_done := true; sf_error := [] |}.

  Definition mget_state (done : bool) (rsp err : bytes) (P : list N) : smsg :=
    {| sm_type := ReqMget; sm_keys := ks; sm_frags := FS groups pay_mget P;
       sm_done_number := Z.of_nat (length P); sm_del_num := 0; sm_done := done;
       sm_rsp := rsp; sm_error := err |}.

  Definition final_mget : bytes := [42] ++ itoa_nat (length ks) ++ crlf ++ concat (map (render rho) ks).

  Definition mget_of := mget_state false [] [].
  Definition mget_fin (P : list N) : smsg :=
    if (limit <? Z.of_nat (length final_mget))%Z
    then mget_state true ErrMsgRspTooLarge ErrMsgRspTooLarge P
    else mget_state true final_mget [] P.

  (* every reply is within the size limit *)
  Hypothesis Hlim : forall s gk, In (s, gk) groups -> (Z.of_nat (length (mget_reply rho gk)) <= limit)%Z.

  Lemma group_len s gk : In (s, gk) groups -> (Z.of_nat (length gk) < 10 ^ 18)%Z.
  Proof.
    intro H. apply groups_in in H as [-> _].
    pose proof (filter_length_le' (fun x => sigma x =? s) ks). lia.
  Qed.

  Lemma assemble_all P (HP : forall g, In g groups -> In (fst g) P) : forall ks' acc,
    incl ks' ks ->
    assemble_mget sigma ks' (FS groups pay_mget P) acc = Fine (acc ++ concat (map (render rho) ks')).
  Proof.
    induction ks' as [|k ks' IH]; intros acc Hincl.
    - simpl. rewrite app_nil_r. reflexivity.
    - cbn [assemble_mget map concat].
      assert (Hk : In k ks) by (apply Hincl; left; reflexivity).
      pose proof (groups_has sigma ks k Hk) as Hg. fold groups in Hg.
      rewrite (get_frag_FS groups pay_mget (fun g => eq_refl) (groups_nodup sigma ks) P _ _ Hg).
      assert (memN (sigma k) P = true) as -> by (apply memN_In; apply (HP _ Hg)).
      cbn [pay_mget sf_keys sf_rsp snd].
      assert (Hkin : In k (filter (fun x => sigma x =? sigma k) ks)).
      { apply filter_In. split; [exact Hk | apply N.eqb_refl]. }
      destruct (index_of_in _ _ Hkin) as (i & Hi & Hn). rewrite Hi.
      rewrite nth_error_map, Hn. cbn [option_map].
      rewrite IH by (intros x Hx; apply Hincl; right; exact Hx).
      rewrite <- app_assoc. reflexivity.
  Qed.

  Lemma cover_all P : NoDup P -> incl P (map fst groups) -> length P = length groups ->
    forall g, In g groups -> In (fst g) P.
  Proof.
    intros Hnd Hincl Hlen g Hg.
    assert (Hi : incl (map fst groups) P).
    { apply NoDup_length_incl; [exact Hnd | rewrite map_length; lia | exact Hincl]. }
    apply Hi, in_map, Hg.
  Qed.

  Lemma mget_step_ok : forall P s gk, In (s, gk) groups -> ~ In s P ->
    NoDup P -> incl P (map fst groups) ->
    merge_step sigma limit (mget_of P) s RspMultibulk (mget_reply rho gk)
    = Fine (Some (if (S (length P) <? length groups)%nat then mget_of (s :: P) else mget_fin (s :: P))).
  Proof.
    intros P s gk Hin HnP HndP HinclP. unfold merge_step, mget_of. cbv zeta.
    cbn [mget_state sm_frags sm_type sm_done_number sm_keys sm_del_num sm_done sm_rsp sm_error].
    rewrite (get_frag_FS groups pay_mget (fun g => eq_refl) (groups_nodup sigma ks) P _ _ Hin).
    assert (memN s P = false) as ->.
    { destruct (memN s P) eqn:E; [apply memN_In in E; contradiction | reflexivity]. }
    cbn [init_frag sf_done].
    destruct (Z.ltb_spec limit (Z.of_nat (length (mget_reply rho gk)))) as [Hbig|_].
    { specialize (Hlim _ _ Hin). lia. }
    rewrite N.eqb_refl. cbn [negb]. rewrite N.eqb_refl. cbn [negb].
    rewrite parse_mget_reply by (exact Hrho || apply (group_len s), Hin).
    rewrite FS_length.
    destruct (map (render rho) gk) as [|e0 es] eqn:Eelems.
    { (* a group is never empty *)
      exfalso. apply groups_in in Hin as [Hgk Hord]. apply order_in in Hord as (x & Hx & Ex).
      assert (In x gk) by (rewrite Hgk; apply filter_In; split; [exact Hx | apply N.eqb_eq, Ex]).
      destruct gk; [contradiction | discriminate]. }
    cbv iota. rewrite <- Eelems. clear Eelems e0 es.
    assert (Hset : set_frag (FS groups pay_mget P) s
              (fun f : sfrag => {| sf_slot := sf_slot f; sf_keys := sf_keys f; sf_rsp := map (render rho) gk;
                                   sf_ok := sf_ok f; sf_done := true; sf_error := sf_error f |})
            = FS groups pay_mget (s :: P)).
    { apply (set_frag_FS groups pay_mget (fun g => eq_refl)); [exact HnP|]. intros g Hg Eg.
      rewrite (group_unique groups (groups_nodup sigma ks) s gk g Hin Hg Eg). reflexivity. }
    rewrite Hset.
    replace (Z.of_nat (length P) + 1)%Z with (Z.of_nat (length (s :: P))) by (cbn [length]; lia).
    cbn [length].
    assert (Hb : forall a b, (Z.of_nat a <? Z.of_nat b)%Z = (a <? b)%nat).
    { intros a b. destruct (Z.ltb_spec (Z.of_nat a) (Z.of_nat b)); destruct (Nat.ltb_spec a b); lia || reflexivity. }
    rewrite Hb.
    destruct (S (length P) <? length groups)%nat eqn:Hlt.
    - reflexivity.
    - apply Nat.ltb_ge in Hlt. assert (Hall : forall g, In g groups -> In (fst g) (s :: P)).
      { apply cover_all.
        - constructor; assumption.
        - intros x [<-|Hx]; [change s with (fst (s, gk)); apply in_map, Hin | apply HinclP, Hx].
        - assert (length P < length groups)%nat.
          { assert (Hle : (length (s :: P) <= length (map fst groups))%nat).
            { apply NoDup_incl_length; [constructor; assumption|].
              intros x [<-|Hx]; [change s with (fst (s, gk)); apply in_map, Hin | apply HinclP, Hx]. }
            rewrite map_length in Hle. cbn [length] in Hle. lia. }
          cbn [length]. lia. }
      rewrite (assemble_all (s :: P) Hall ks _ (incl_refl _)).
      replace (([42] ++ itoa_nat (length ks) ++ crlf) ++ concat (map (render rho) ks)) with final_mget
        by (unfold final_mget; rewrite <- !app_assoc; reflexivity).
      unfold mget_fin.
      destruct (limit <? Z.of_nat (length final_mget))%Z; reflexivity.
  Qed.

  (* C07 for MGET: any arrival order *)
  Theorem mget_any_order (order : list group) : Permutation order groups -> groups <> [] ->
    exists P', run_replies sigma limit (mget_of [])
                 (map (fun g => (fst g, RspMultibulk, mget_reply rho (snd g))) order) = Fine (mget_fin P').
  Proof.
    intros Hperm Hne.
    destruct (run_all sigma limit groups mget_of mget_fin (fun _ => RspMultibulk) (fun g => mget_reply rho (snd g))
                (fun P s gk H1 H2 H3 H4 => mget_step_ok P s gk H1 H2 H3 H4) order []) as (P' & Hrun & _).
    - constructor.
    - intros x [].
    - apply (Permutation_NoDup (l := map fst groups)); [apply Permutation_map, Permutation_sym, Hperm | apply groups_nodup].
    - intros x Hx. apply (Permutation_in _ Hperm), Hx.
    - intros g _ [].
    - simpl. apply Permutation_length, Hperm.
    - intro E. subst. apply Permutation_nil in Hperm. auto.
    - exists P'. exact Hrun.
  Qed.

  Theorem mget_not_done_early (pre post : list group) : Permutation (pre ++ post) groups -> post <> [] ->
    exists P, run_replies sigma limit (mget_of [])
                (map (fun g => (fst g, RspMultibulk, mget_reply rho (snd g))) pre) = Fine (mget_of P).
  Proof.
    intros Hperm Hpost.
    assert (Hnd : NoDup (map fst (pre ++ post))).
    { apply (Permutation_NoDup (l := map fst groups)); [apply Permutation_map, Permutation_sym, Hperm | apply groups_nodup]. }
    exists (rev (map fst pre) ++ []).
    apply (run_prefix sigma limit groups mget_of mget_fin (fun _ => RspMultibulk) (fun g => mget_reply rho (snd g))
             (fun P s gk H1 H2 H3 H4 => mget_step_ok P s gk H1 H2 H3 H4) pre []).
    - constructor.
    - intros x [].
    - rewrite map_app in Hnd. apply NoDup_app_l in Hnd. exact Hnd.
    - intros x Hx. apply (Permutation_in _ Hperm). apply in_or_app. left. exact Hx.
    - intros g _ [].
    - apply Permutation_length in Hperm. rewrite app_length in Hperm. simpl.
      destruct post; [contradiction | simpl in Hperm; lia].
  Qed.
End Mget.

(* ---------- DEL ---------- *)
Definition sumN (l : list N) : N := fold_right N.add 0 l.

Lemma sumN_cons x l : sumN (x :: l) = x + sumN l.
Proof. reflexivity. Qed.

Lemma sumN_perm l1 l2 : Permutation l1 l2 -> sumN l1 = sumN l2.
Proof. induction 1; rewrite ?sumN_cons; try lia; reflexivity. Qed.

Lemma sumN_app l1 l2 : sumN (l1 ++ l2) = sumN l1 + sumN l2.
Proof. induction l1 as [|x l1 IH]; [reflexivity|]. cbn [app]. rewrite !sumN_cons, IH. lia. Qed.

Lemma sumN_map_add {A} (f g : A -> N) l : sumN (map (fun s => f s + g s) l) = sumN (map f l) + sumN (map g l).
Proof. induction l as [|x l IH]; [reflexivity|]. cbn [map]. rewrite !sumN_cons, IH. lia. Qed.

Lemma sumN_indicator (t : N) P : NoDup P -> sumN (map (fun s => if N.eqb t s then 1 else 0) P) <= 1.
Proof.
  induction P as [|s P IH]; intro Hnd; [simpl; lia|]. inversion Hnd; subst. cbn [map]. rewrite sumN_cons.
  destruct (N.eqb_spec t s) as [->|E].
  - assert (Hz : sumN (map (fun s0 : N => if s =? s0 then 1 else 0) P) = 0).
    { clear IH Hnd H2. induction P as [|x P IHP]; [reflexivity|]. cbn [map]. rewrite sumN_cons.
      destruct (N.eqb_spec s x) as [->|]; [exfalso; apply H1; left; reflexivity|].
      rewrite IHP; [reflexivity|]. intro; apply H1; right; assumption. }
    lia.
  - specialize (IH H2). lia.
Qed.

Lemma sum_groups_le (sigma : bytes -> N) (ks : list bytes) P : NoDup P ->
  (sumN (map (fun s => N.of_nat (length (filter (fun x => N.eqb (sigma x) s) ks))) P) <= N.of_nat (length ks)).
Proof.
  intro Hnd. induction ks as [|k ks IH].
  - assert (Hz : forall P : list N, sumN (map (fun s => N.of_nat (length (filter (fun x => N.eqb (sigma x) s) []))) P) = 0).
    { clear. induction P as [|s P IHP]; [reflexivity|]. cbn [map]. rewrite sumN_cons, IHP. reflexivity. }
    rewrite Hz. simpl. lia.
  - assert (Heq : map (fun s => N.of_nat (length (filter (fun x => N.eqb (sigma x) s) (k :: ks)))) P
                = map (fun s => (if N.eqb (sigma k) s then 1 else 0) + N.of_nat (length (filter (fun x => N.eqb (sigma x) s) ks))) P).
    { apply map_ext. intro s. cbn [filter]. destruct (sigma k =? s); cbn [length]; lia. }
    rewrite Heq, sumN_map_add.
    pose proof (sumN_indicator (sigma k) P Hnd). cbn [length]. lia.
Qed.

Section Del.
  Variable sigma : bytes -> N.
  Variable limit : Z.
  Variable ks : list bytes.
  Variable cnt : N -> N.                       (* the count each node reports for its fragment *)
  Hypothesis Hks : (Z.of_nat (length ks) < 10 ^ 18)%Z.
  Let groups := group_by sigma (fun k : bytes => k) ks.
  Hypothesis Hcnt : forall s gk, In (s, gk) groups -> cnt s <= N.of_nat (length gk).

  Definition del_reply (n : N) : bytes := [58] ++ itoa n ++ crlf.
  Hypothesis Hlim : forall s, (Z.of_nat (length (del_reply (cnt s))) <= limit)%Z.

  Definition pay_del (g : group) : sfrag :=
    {| sf_slot := fst g; sf_keys := snd g; sf_rsp := []; sf_ok := false; sf_done := true; sf_error := [] |}.

  Definition del_state (done : bool) (rsp : bytes) (P : list N) : smsg :=
    {| sm_type := ReqDel; sm_keys := ks; sm_frags := FS groups pay_del P;
       sm_done_number := Z.of_nat (length P); sm_del_num := Z.of_N (sumN (map cnt P)); sm_done := done;
       sm_rsp := rsp; sm_error := [] |}.
  Definition del_of := del_state false [].
  Definition del_fin (P : list N) := del_state true (del_reply (sumN (map cnt P))) P.

  Lemma partial_sum_small P : NoDup P -> incl P (map fst groups) -> sumN (map cnt P) <= N.of_nat (length ks).
  Proof.
    intros Hnd Hincl.
    eapply N.le_trans; [|apply (sum_groups_le sigma ks P Hnd)].
    clear Hnd. induction P as [|s P IH]; [simpl; lia|].
    cbn [map]. rewrite !sumN_cons.
    assert (Hs : In s (map fst groups)) by (apply Hincl; left; reflexivity).
    apply in_map_iff in Hs as ([s' gk] & Es & Hin). cbn [fst] in Es. subst s'.
    pose proof (Hcnt _ _ Hin) as Hc. apply groups_in in Hin as [-> _].
    specialize (IH (fun x Hx => Hincl x (or_intror Hx))). lia.
  Qed.

  Lemma del_step_ok : forall P s gk, In (s, gk) groups -> ~ In s P ->
    NoDup P -> incl P (map fst groups) ->
    merge_step sigma limit (del_of P) s RspInteger (del_reply (cnt s))
    = Fine (Some (if (S (length P) <? length groups)%nat then del_of (s :: P) else del_fin (s :: P))).
  Proof.
    intros P s gk Hin HnP HndP HinclP. unfold merge_step, del_of. cbv zeta.
    cbn [del_state sm_frags sm_type sm_done_number sm_keys sm_del_num sm_done sm_rsp sm_error].
    rewrite (get_frag_FS groups pay_del (fun g => eq_refl) (groups_nodup sigma ks) P _ _ Hin).
    assert (memN s P = false) as ->.
    { destruct (memN s P) eqn:E; [apply memN_In in E; contradiction | reflexivity]. }
    cbn [init_frag sf_done].
    destruct (Z.ltb_spec limit (Z.of_nat (length (del_reply (cnt s))))) as [Hbig|_].
    { specialize (Hlim s). lia. }
    replace (ReqDel =? ReqMget) with false by reflexivity.
    replace (ReqDel =? ReqMset) with false by reflexivity.
    rewrite !N.eqb_refl. cbn [negb].
    (* the digits of the reply *)
    assert (Hline : firstn (length (del_reply (cnt s)) - 3) (skipn 1 (del_reply (cnt s))) = itoa (cnt s)).
    { change (del_reply (cnt s)) with (58 :: (itoa (cnt s) ++ crlf)).
      change (skipn 1 (58 :: (itoa (cnt s) ++ crlf))) with (itoa (cnt s) ++ crlf).
      change (length (58 :: (itoa (cnt s) ++ crlf))) with (S (length (itoa (cnt s) ++ crlf))).
      rewrite app_length. change (length crlf) with 2%nat.
      replace (S (length (itoa (cnt s)) + 2) - 3)%nat with (length (itoa (cnt s))) by lia.
      apply firstn_exact. }
    rewrite Hline.
    assert (HndP' : NoDup (s :: P)) by (constructor; assumption).
    assert (HinclP' : incl (s :: P) (map fst groups)).
    { intros x [<-|Hx]; [change s with (fst (s, gk)); apply in_map, Hin | apply HinclP, Hx]. }
    pose proof (partial_sum_small (s :: P) HndP' HinclP') as Hsum. cbn [map] in Hsum. rewrite sumN_cons in Hsum.
    assert (Hks' : N.of_nat (length ks) < 1000000000000000000).
    { clear -Hks. change (10 ^ 18)%Z with 1000000000000000000%Z in Hks. lia. }
    rewrite parse_len_itoa by (rewrite pow10_18; lia).
    rewrite wrap64_id by lia.
    rewrite FS_length.
    assert (Hset : set_frag (FS groups pay_del P) s
              (fun f : sfrag => {| sf_slot := sf_slot f; sf_keys := sf_keys f; sf_rsp := sf_rsp f;
                                   sf_ok := sf_ok f; sf_done := true; sf_error := sf_error f |})
            = FS groups pay_del (s :: P)).
    { apply (set_frag_FS groups pay_del (fun g => eq_refl)); [exact HnP|]. intros g Hg Eg. reflexivity. }
    rewrite Hset.
    replace (Z.of_nat (length P) + 1)%Z with (Z.of_nat (S (length P))) by lia.
    replace (Z.of_N (sumN (map cnt P)) + Z.of_N (cnt s))%Z with (Z.of_N (sumN (map cnt (s :: P))))
      by (cbn [map]; rewrite sumN_cons; lia).
    assert (Hb : forall a b, (Z.of_nat a <? Z.of_nat b)%Z = (a <? b)%nat).
    { intros a b. destruct (Z.ltb_spec (Z.of_nat a) (Z.of_nat b)); destruct (Nat.ltb_spec a b); lia || reflexivity. }
    rewrite Hb.
    destruct (S (length P) <? length groups)%nat eqn:Hlt; [reflexivity|].
    destruct (Z.ltb_spec (Z.of_N (sumN (map cnt (s :: P)))) 0); [lia|].
    rewrite N2Z.id. reflexivity.
  Qed.

  Theorem del_any_order (order : list group) : Permutation order groups -> groups <> [] ->
    exists P', run_replies sigma limit (del_of [])
                 (map (fun g => (fst g, RspInteger, del_reply (cnt (fst g)))) order) = Fine (del_fin P')
               /\ sumN (map cnt P') = sumN (map cnt (map fst groups)).
  Proof.
    intros Hperm Hne.
    destruct (run_all sigma limit groups del_of del_fin (fun _ => RspInteger) (fun g => del_reply (cnt (fst g)))
                (fun P s gk H1 H2 H3 H4 => del_step_ok P s gk H1 H2 H3 H4) order []) as (P' & Hrun & HP').
    - constructor.
    - intros x [].
    - apply (Permutation_NoDup (l := map fst groups)); [apply Permutation_map, Permutation_sym, Hperm | apply groups_nodup].
    - intros x Hx. apply (Permutation_in _ Hperm), Hx.
    - intros g _ [].
    - simpl. apply Permutation_length, Hperm.
    - intro E. subst. apply Permutation_nil in Hperm. auto.
    - exists P'. split; [exact Hrun|]. apply sumN_perm, Permutation_map.
      rewrite app_nil_r in HP'. eapply Permutation_trans; [exact HP'|].
      eapply Permutation_trans; [apply Permutation_sym, Permutation_rev|]. apply Permutation_map, Hperm.
  Qed.
End Del.

Lemma forallb_map_ext {A B} (f : B -> bool) (g : A -> B) (h : A -> bool) l :
  (forall x, In x l -> f (g x) = h x) -> forallb f (map g l) = forallb h l.
Proof.
  induction l as [|x l IH]; intro H; [reflexivity|]. cbn [map forallb].
  rewrite H by (left; reflexivity). rewrite IH; [reflexivity|]. intros y Hy. apply H. right. exact Hy.
Qed.

(* ---------- MSET ---------- *)
Section Mset.
  Variable sigma : bytes -> N.
  Variable limit : Z.
  Variable ks : list bytes.                    (* the keys (values play no role in merging) *)
  Variable rty : group -> N.                   (* the reply type each node's answer has *)
  Variable rep : group -> bytes.
  Let groups := group_by sigma (fun k : bytes => k) ks.
  Hypothesis Hlim : forall g, (Z.of_nat (length (rep g)) <= limit)%Z.

  Definition okf (g : group) : bool := N.eqb (rty g) RspOk.
  Definition pay_mset (g : group) : sfrag :=
    {| sf_slot := fst g; sf_keys := snd g; sf_rsp := []; sf_ok := okf g; sf_done := true; sf_error := [] |}.
  Definition mset_state (done : bool) (rsp : bytes) (P : list N) : smsg :=
    {| sm_type := ReqMset; sm_keys := ks; sm_frags := FS groups pay_mset P;
       sm_done_number := Z.of_nat (length P); sm_del_num := 0; sm_done := done; sm_rsp := rsp; sm_error := [] |}.
  Definition mset_of := mset_state false [].
  Definition mset_fin (P : list N) :=
    mset_state true (if forallb okf groups then StatusOK else ErrUnKnown) P.

  Lemma forallb_FS_all P : (forall g, In g groups -> In (fst g) P) ->
    forallb sf_ok (FS groups pay_mset P) = forallb okf groups.
  Proof.
    intro Hall. unfold FS. apply forallb_map_ext. intros g Hg.
    assert (memN (fst g) P = true) as -> by (apply memN_In, Hall, Hg). reflexivity.
  Qed.

  Lemma mset_step_ok : forall P s gk, In (s, gk) groups -> ~ In s P ->
    NoDup P -> incl P (map fst groups) ->
    merge_step sigma limit (mset_of P) s (rty (s, gk)) (rep (s, gk))
    = Fine (Some (if (S (length P) <? length groups)%nat then mset_of (s :: P) else mset_fin (s :: P))).
  Proof.
    intros P s gk Hin HnP HndP HinclP. unfold merge_step, mset_of. cbv zeta.
    cbn [mset_state sm_frags sm_type sm_done_number sm_keys sm_del_num sm_done sm_rsp sm_error].
    rewrite (get_frag_FS groups pay_mset (fun g => eq_refl) (groups_nodup sigma ks) P _ _ Hin).
    assert (memN s P = false) as ->.
    { destruct (memN s P) eqn:E; [apply memN_In in E; contradiction | reflexivity]. }
    cbn [init_frag sf_done].
    destruct (Z.ltb_spec limit (Z.of_nat (length (rep (s, gk))))) as [Hbig|_].
    { specialize (Hlim (s, gk)). lia. }
    replace (ReqMset =? ReqMget) with false by reflexivity.
    rewrite N.eqb_refl.
    rewrite FS_length.
    assert (Hset : set_frag (FS groups pay_mset P) s
              (fun f : sfrag => {| sf_slot := sf_slot f; sf_keys := sf_keys f; sf_rsp := sf_rsp f;
                                   sf_ok := rty (s, gk) =? RspOk; sf_done := true; sf_error := sf_error f |})
            = FS groups pay_mset (s :: P)).
    { apply (set_frag_FS groups pay_mset (fun g => eq_refl)); [exact HnP|]. intros g Hg Eg.
      rewrite (group_unique groups (groups_nodup sigma ks) s gk g Hin Hg Eg). reflexivity. }
    rewrite Hset.
    replace (Z.of_nat (length P) + 1)%Z with (Z.of_nat (S (length P))) by lia.
    assert (Hb : forall a b, (Z.of_nat a <? Z.of_nat b)%Z = (a <? b)%nat).
    { intros a b. destruct (Z.ltb_spec (Z.of_nat a) (Z.of_nat b)); destruct (Nat.ltb_spec a b); lia || reflexivity. }
    rewrite Hb.
    destruct (S (length P) <? length groups)%nat eqn:Hlt; [reflexivity|].
    apply Nat.ltb_ge in Hlt.
    assert (Hall : forall g, In g groups -> In (fst g) (s :: P)).
    { intros g Hg.
      assert (Hi : incl (map fst groups) (s :: P)).
      { apply NoDup_length_incl.
        - constructor; assumption.
        - rewrite map_length. cbn [length]. lia.
        - intros x [<-|Hx]; [change s with (fst (s, gk)); apply in_map, Hin | apply HinclP, Hx]. }
      apply Hi, in_map, Hg. }
    rewrite (forallb_FS_all (s :: P) Hall). unfold mset_fin.
    destruct (forallb okf groups); reflexivity.
  Qed.

  Theorem mset_any_order (order : list group) : Permutation order groups -> groups <> [] ->
    exists P', run_replies sigma limit (mset_of []) (map (fun g => (fst g, rty g, rep g)) order) = Fine (mset_fin P').
  Proof.
    intros Hperm Hne.
    destruct (run_all sigma limit groups mset_of mset_fin rty rep
                (fun P s gk H1 H2 H3 H4 => mset_step_ok P s gk H1 H2 H3 H4) order []) as (P' & Hrun & _).
    - constructor.
    - intros x [].
    - apply (Permutation_NoDup (l := map fst groups)); [apply Permutation_map, Permutation_sym, Hperm | apply groups_nodup].
    - intros x Hx. apply (Permutation_in _ Hperm), Hx.
    - intros g _ [].
    - simpl. apply Permutation_length, Hperm.
    - intro E. subst. apply Permutation_nil in Hperm. auto.
    - exists P'. exact Hrun.
  Qed.
End Mset.

(* ---------- C11: an error reply to a fragment ---------- *)
Definition all_done (m : smsg) : Prop := forall f, In f (sm_frags m) -> sf_done f = true.
Definition is_proxy_error (b : bytes) : Prop :=
  b = ErrUnKnownMget \/ b = ErrUnKnown \/ b = ErrMsgRspTooLarge.

Lemma proxy_error_is_error b : is_proxy_error b -> hd 0 b = 45.
Proof. intros [->|[->| ->]]; reflexivity. Qed.

Lemma finish_error_done m e : sm_done (finish_error m e) = true /\ sm_rsp (finish_error m e) = e /\ all_done (finish_error m e).
Proof.
  split; [reflexivity|]. split; [reflexivity|].
  intros f Hf. unfold finish_error in Hf. cbn [sm_frags] in Hf. apply in_map_iff in Hf as (g & <- & _). reflexivity.
Qed.

Lemma get_frag_in fs s f : get_frag fs s = Some f -> In f fs.
Proof. unfold get_frag. intro H. apply find_some in H. tauto. Qed.

(* once every fragment is done, any further reply for the message is discarded *)
Lemma done_discards sigma limit m s rty rsp f :
  all_done m -> get_frag (sm_frags m) s = Some f -> merge_step sigma limit m s rty rsp = Fine None.
Proof.
  intros Hall Hg. unfold merge_step. rewrite Hg. rewrite (Hall f (get_frag_in _ _ _ Hg)). reflexivity.
Qed.

(* MGET: a reply that is not an array (e.g. any error) completes the request with an error *)
Lemma mget_error_reply sigma limit m s rty rsp f :
  sm_type m = ReqMget -> get_frag (sm_frags m) s = Some f -> sf_done f = false -> rty <> RspMultibulk ->
  exists m', merge_step sigma limit m s rty rsp = Fine (Some m')
             /\ sm_done m' = true /\ is_proxy_error (sm_rsp m') /\ all_done m'.
Proof.
  intros Ht Hg Hd Hr. unfold merge_step. rewrite Hg, Hd, Ht. cbv zeta.
  destruct (limit <? Z.of_nat (length rsp))%Z.
  - eexists. split; [reflexivity|]. destruct (finish_error_done (upd m (sm_frags m) (sm_done_number m + 1) (sm_del_num m) (sm_done m) (sm_rsp m) (sm_error m)) ErrMsgRspTooLarge) as (H1 & H2 & H3).
    split; [exact H1|]. split; [rewrite H2; right; right; reflexivity | exact H3].
  - rewrite N.eqb_refl. apply N.eqb_neq in Hr. rewrite Hr. cbn [negb].
    eexists. split; [reflexivity|]. destruct (finish_error_done (upd m (sm_frags m) (sm_done_number m + 1) (sm_del_num m) (sm_done m) (sm_rsp m) (sm_error m)) ErrUnKnownMget) as (H1 & H2 & H3).
    split; [exact H1|]. split; [rewrite H2; left; reflexivity | exact H3].
Qed.

(* DEL: a reply that is not an integer (e.g. any error) completes the request with an error *)
Lemma del_error_reply sigma limit m s rty rsp f :
  sm_type m = ReqDel -> get_frag (sm_frags m) s = Some f -> sf_done f = false -> rty <> RspInteger ->
  exists m', merge_step sigma limit m s rty rsp = Fine (Some m')
             /\ sm_done m' = true /\ is_proxy_error (sm_rsp m') /\ all_done m'.
Proof.
  intros Ht Hg Hd Hr. unfold merge_step. rewrite Hg, Hd, Ht. cbv zeta.
  destruct (limit <? Z.of_nat (length rsp))%Z.
  - eexists. split; [reflexivity|]. destruct (finish_error_done (upd m (sm_frags m) (sm_done_number m + 1) (sm_del_num m) (sm_done m) (sm_rsp m) (sm_error m)) ErrMsgRspTooLarge) as (H1 & H2 & H3).
    split; [exact H1|]. split; [rewrite H2; right; right; reflexivity | exact H3].
  - replace (ReqDel =? ReqMget) with false by reflexivity.
    replace (ReqDel =? ReqMset) with false by reflexivity.
    rewrite N.eqb_refl. apply N.eqb_neq in Hr. rewrite Hr. cbn [negb].
    eexists. split; [reflexivity|]. destruct (finish_error_done (upd m (sm_frags m) (sm_done_number m + 1) (sm_del_num m) (sm_done m) (sm_rsp m) (sm_error m)) ErrUnKnown) as (H1 & H2 & H3).
    split; [exact H1|]. split; [rewrite H2; right; left; reflexivity | exact H3].
Qed.

(* after completion every later reply (for any fragment the message has) is discarded: exactly one
   completion, whatever arrives afterwards *)
Lemma run_after_done sigma limit m rs :
  all_done m -> (forall s t b, In (s, t, b) rs -> exists f, get_frag (sm_frags m) s = Some f) ->
  run_replies sigma limit m rs = Fine m.
Proof.
  intros Hall. induction rs as [|[[s t] b] rs IH]; intro Hin; [reflexivity|].
  cbn [run_replies]. destruct (Hin s t b (or_introl eq_refl)) as (f & Hf).
  rewrite (done_discards sigma limit m s t b f Hall Hf).
  apply IH. intros s' t' b' H'. apply (Hin s' t' b'). right. exact H'.
Qed.

(* single-key requests (every type that is not MGET/DEL/MSET): the reply is handed on verbatim,
   or replaced by the size error when larger than the limit *)
Lemma default_reply sigma limit m s rty rsp f :
  sm_type m <> ReqMget -> sm_type m <> ReqDel -> sm_type m <> ReqMset ->
  get_frag (sm_frags m) s = Some f -> sf_done f = false ->
  exists m', merge_step sigma limit m s rty rsp = Fine (Some m') /\ sm_done m' = true /\
             sm_rsp m' = (if (limit <? Z.of_nat (length rsp))%Z then ErrMsgRspTooLarge else rsp).
Proof.
  intros H1 H2 H3 Hg Hd. unfold merge_step. rewrite Hg, Hd. cbv zeta.
  apply N.eqb_neq in H1, H2, H3. rewrite H1, H2, H3.
  destruct (limit <? Z.of_nat (length rsp))%Z; eexists; split; reflexivity || (split; reflexivity).
Qed.
