(* Proofs for C18: the allowed set after any history of loaded file versions. *)
From RcProxy Require Import Base.Bytes Model.AuthIp.
Open Scope N_scope.

Lemma memb_In x l : memb x l = true <-> In x l.
Proof.
  unfold memb. rewrite existsb_exists. split.
  - intros (y & Hy & E). apply beqb_eq in E. subst. exact Hy.
  - intro H. exists x. split; [exact H | apply beqb_refl].
Qed.

Lemma insert_all_in ips listed x : In x (insert_all ips listed) <-> In x ips \/ In x listed.
Proof.
  unfold insert_all. revert ips. induction listed as [|ip listed IH]; intro ips; cbn [fold_left].
  - simpl. tauto.
  - rewrite IH. destruct (memb ip ips) eqn:E.
    + apply memb_In in E. split.
      * intros [H|H]; [left; exact H | right; right; exact H].
      * intros [H|[H|H]]; [left; exact H | subst; left; exact E | right; exact H].
    + rewrite in_app_iff. split.
      * intros [[H|[H|[]]]|H]; [left; exact H | right; left; exact H | right; right; exact H].
      * intros [H|[H|H]]; [left; left; exact H | left; right; left; exact H | right; exact H].
Qed.

Theorem members_after_parse m v x : In x (im_ips (parse_auth_ip m v)) <-> In x (snd v).
Proof.
  unfold parse_auth_ip. cbn [im_ips]. rewrite filter_In, insert_all_in, memb_In. tauto.
Qed.

Theorem validate_after_parse m v ip :
  validate (parse_auth_ip m v) ip = negb (fst v) || memb ip (snd v).
Proof.
  unfold validate. cbn [parse_auth_ip im_enable]. destruct (fst v); [|reflexivity]. cbn [negb orb].
  destruct (memb ip (snd v)) eqn:E.
  - apply memb_In. apply members_after_parse. apply memb_In, E.
  - destruct (memb ip (im_ips (parse_auth_ip m v))) eqn:E'; [|reflexivity].
    apply memb_In, members_after_parse, memb_In in E'. congruence.
Qed.

(* after ANY history of successfully loaded versions only the last one counts *)
Theorem validate_after_history (vs : list (bool * list bytes)) v m ip :
  validate (fold_left parse_auth_ip (vs ++ [v]) m) ip = negb (fst v) || memb ip (snd v).
Proof. rewrite fold_left_app. cbn [fold_left]. apply validate_after_parse. Qed.

Lemma before_colon_app ip rest : ~ In 58 ip -> before_colon (ip ++ 58 :: rest) = ip.
Proof.
  induction ip as [|c ip IH]; intro H; cbn [app before_colon].
  - rewrite N.eqb_refl. reflexivity.
  - destruct (N.eqb_spec c 58) as [->|]; [exfalso; apply H; left; reflexivity|].
    rewrite IH; [reflexivity|]. intro; apply H; right; assumption.
Qed.

(* which file-system events trigger a reload *)
Theorem reload_on_write_create_rename : forall op,
  should_reload true op = true <-> (N.testbit op 1 = true \/ N.testbit op 0 = true \/ N.testbit op 3 = true).
Proof.
  intro op. unfold should_reload. cbn [andb]. rewrite !orb_true_iff. tauto.
Qed.
