(* ring.Buffer refines a FIFO byte queue (C19).  The proofs go through a "view" of the circular
   buffer: in every reachable state the backing slice splits into named segments and the
   contents (oldest first) is one of
       empty:    r = w = 0, nothing held
       linear:   buf = pre ++ c ++ post,   r = |pre|, w = |pre ++ c| < size,   contents c
       wrapped:  buf = c2 ++ mid ++ c1,    w = |c2| <= r = |c2 ++ mid| < size, contents c1 ++ c2
   (a full ring is the wrapped view with mid = []). *)
From RcProxy Require Import Base.Bytes Model.Buffers.
From Coq Require Import Arith Lia ZifyNat ZifyN ZifyBool NArith.
Local Open Scope nat_scope.

Inductive rview : ring -> bytes -> Prop :=
| V_empty buf : rview {| rg_buf := buf; rg_size := length buf; rg_r := 0; rg_w := 0; rg_empty := true |} []
| V_lin pre c post : c <> [] -> post <> [] ->
    rview {| rg_buf := pre ++ c ++ post; rg_size := length (pre ++ c ++ post); rg_r := length pre;
             rg_w := length pre + length c; rg_empty := false |} c
| V_wrap c2 mid c1 : c1 <> [] ->
    rview {| rg_buf := c2 ++ mid ++ c1; rg_size := length (c2 ++ mid ++ c1); rg_r := length c2 + length mid;
             rg_w := length c2; rg_empty := false |} (c1 ++ c2).

(* ---------- list facts ---------- *)
Lemma firstn_app_l {A} (a b : list A) n : n = length a -> firstn n (a ++ b) = a.
Proof. intros ->. rewrite firstn_app, Nat.sub_diag, firstn_all. cbn. apply app_nil_r. Qed.
Lemma skipn_app_l {A} (a b : list A) n : n = length a -> skipn n (a ++ b) = b.
Proof. intros ->. rewrite skipn_app, Nat.sub_diag, skipn_all. reflexivity. Qed.
Lemma firstn_app_le {A} (a b : list A) n : n <= length a -> firstn n (a ++ b) = firstn n a.
Proof. intro H. rewrite firstn_app. replace (n - length a) with 0 by lia. cbn. apply app_nil_r. Qed.
Lemma skipn_app_le {A} (a b : list A) n : n <= length a -> skipn n (a ++ b) = skipn n a ++ b.
Proof. intro H. rewrite skipn_app. replace (n - length a) with 0 by lia. reflexivity. Qed.
Lemma firstn_app_ge {A} (a b : list A) n : length a <= n -> firstn n (a ++ b) = a ++ firstn (n - length a) b.
Proof. intro H. rewrite firstn_app, firstn_all2 by lia. reflexivity. Qed.
Lemma skipn_app_ge {A} (a b : list A) n : length a <= n -> skipn n (a ++ b) = skipn (n - length a) b.
Proof. intro H. rewrite skipn_app, skipn_all2 by lia. reflexivity. Qed.
Lemma nonempty_length {A} (l : list A) : l <> [] <-> 0 < length l.
Proof. destruct l; cbn; split; intro H; try lia; try congruence. Qed.
Lemma length_zero_nil {A} (l : list A) : length l = 0 -> l = [].
Proof. destruct l; cbn; [reflexivity | lia]. Qed.

Lemma skipn_app3 {A} (a b c : list A) n : n = length a + length b -> skipn n (a ++ b ++ c) = c.
Proof. intros ->. rewrite app_assoc. apply skipn_app_l. rewrite app_length. reflexivity. Qed.
Lemma firstn_app3 {A} (a b c : list A) n : n = length a + length b -> firstn n (a ++ b ++ c) = a ++ b.
Proof. intros ->. rewrite app_assoc. apply firstn_app_l. rewrite app_length. reflexivity. Qed.

(* ---------- what the view determines ---------- *)
Lemma view_contents rb c : rview rb c -> ring_contents rb = c.
Proof.
  intros H. destruct H as [buf | pre c post Hc Hp | c2 mid c1 Hc]; unfold ring_contents; cbn [rg_empty rg_r rg_w rg_buf].
  - reflexivity.
  - apply nonempty_length in Hc. destruct (Nat.ltb_spec (length pre) (length pre + length c)); [|lia].
    unfold slice. rewrite skipn_app_l by reflexivity. apply firstn_app_l. lia.
  - destruct (Nat.ltb_spec (length c2 + length mid) (length c2)); [lia|].
    rewrite skipn_app3 by reflexivity. rewrite firstn_app_l by reflexivity. reflexivity.
Qed.

Lemma view_size rb c : rview rb c -> length (rg_buf rb) = rg_size rb.
Proof. intros H; destruct H; reflexivity. Qed.

Lemma view_buffered rb c : rview rb c -> ring_buffered rb = length c.
Proof.
  intros H. destruct H as [buf | pre c post Hc Hp | c2 mid c1 Hc]; unfold ring_buffered; cbn [rg_empty rg_r rg_w rg_size].
  - reflexivity.
  - apply nonempty_length in Hc. destruct (Nat.eqb_spec (length pre) (length pre + length c)); [lia|].
    destruct (Nat.ltb_spec (length pre) (length pre + length c)); lia.
  - apply nonempty_length in Hc. rewrite !app_length.
    destruct (Nat.eqb_spec (length c2 + length mid) (length c2)); [lia|].
    destruct (Nat.ltb_spec (length c2 + length mid) (length c2)); lia.
Qed.

Lemma view_available rb c : rview rb c -> ring_available rb = rg_size rb - length c.
Proof.
  intros H. destruct H as [buf | pre c post Hc Hp | c2 mid c1 Hc]; unfold ring_available; cbn [rg_empty rg_r rg_w rg_size].
  - cbn. lia.
  - apply nonempty_length in Hc. rewrite !app_length. destruct (Nat.eqb_spec (length pre) (length pre + length c)); [lia|].
    destruct (Nat.ltb_spec (length pre + length c) (length pre)); lia.
  - apply nonempty_length in Hc. rewrite !app_length.
    destruct (Nat.eqb_spec (length c2 + length mid) (length c2)); [lia|].
    destruct (Nat.ltb_spec (length c2) (length c2 + length mid)); lia.
Qed.

Lemma view_empty rb c : rview rb c -> rg_empty rb = true <-> c = [].
Proof.
  intros H. destruct H as [buf | pre c post Hc Hp | c2 mid c1 Hc]; cbn [rg_empty].
  - split; reflexivity.
  - split; [discriminate | intro; contradiction].
  - split; [discriminate|]. intro E. apply app_eq_nil in E. destruct E; contradiction.
Qed.

Lemma view_new size : rview (ring_new size) [].
Proof.
  unfold ring_new. destruct (size =? 0).
  - apply (V_empty []).
  - pose proof (V_empty (repeat 0%N (ceil_pow2 size))) as H. rewrite repeat_length in H. exact H.
Qed.

Lemma view_reset rb c : rview rb c -> rview (ring_reset rb) [].
Proof.
  intro H. unfold ring_reset. rewrite <- (view_size _ _ H). apply V_empty.
Qed.

(* ---------- building views ---------- *)
Lemma mk_empty buf size : size = length buf -> rview {| rg_buf := buf; rg_size := size; rg_r := 0; rg_w := 0; rg_empty := true |} [].
Proof. intros ->. constructor. Qed.

Lemma mk_lin buf size r w pre c post cont :
  buf = pre ++ c ++ post -> size = length buf -> r = length pre -> w = length pre + length c ->
  c <> [] -> post <> [] -> cont = c ->
  rview {| rg_buf := buf; rg_size := size; rg_r := r; rg_w := w; rg_empty := false |} cont.
Proof. intros -> -> -> -> Hc Hp ->. constructor; assumption. Qed.

Lemma mk_wrap buf size r w c2 mid c1 cont :
  buf = c2 ++ mid ++ c1 -> size = length buf -> r = length c2 + length mid -> w = length c2 ->
  c1 <> [] -> cont = c1 ++ c2 ->
  rview {| rg_buf := buf; rg_size := size; rg_r := r; rg_w := w; rg_empty := false |} cont.
Proof. intros -> -> -> -> Hc ->. constructor; assumption. Qed.

Lemma firstn_min {A} (l : list A) n : firstn (Nat.min (length l) n) l = firstn n l.
Proof.
  destruct (Nat.le_ge_cases (length l) n) as [H|H].
  - rewrite Nat.min_l by exact H. rewrite !firstn_all2 by lia. reflexivity.
  - rewrite Nat.min_r by exact H. reflexivity.
Qed.

Lemma mod_once a size : size <= a -> a < size + size -> a mod size = a - size.
Proof.
  intros H1 H2. symmetry. apply Nat.mod_unique with (q := 1); lia.
Qed.

(* ---------- Peek ---------- *)
Theorem ring_peek_spec rb c pos n h t : rview rb c -> ring_peek rb pos n = (h, t) ->
  h ++ t = if pos then firstn n c else c.
Proof.
  intros H. destruct H as [buf | pre c post Hc Hp | c2 mid c1 Hc]; unfold ring_peek, ring_peek_all;
    cbn [rg_empty rg_r rg_w rg_buf rg_size].
  - intro E; inversion E; subst. destruct pos; [rewrite firstn_nil|]; reflexivity.
  - apply nonempty_length in Hc. destruct (Nat.ltb_spec (length pre) (length pre + length c)); [|lia].
    destruct pos; cbn [negb]; intro E; inversion E; subst; rewrite app_nil_r; unfold slice.
    + rewrite skipn_app_l by reflexivity.
      replace (length pre + Nat.min (length pre + length c - length pre) n - length pre) with (Nat.min (length c) n) by lia.
      rewrite firstn_app_le by lia. apply firstn_min.
    + rewrite skipn_app_l by reflexivity. apply firstn_app_l. lia.
  - apply nonempty_length in Hc. destruct (Nat.ltb_spec (length c2 + length mid) (length c2)); [lia|].
    destruct pos; cbn [negb].
    + rewrite !app_length.
      set (m := Nat.min (length c2 + (length mid + length c1) - (length c2 + length mid) + length c2) n).
      assert (Hm : m = Nat.min (length (c1 ++ c2)) n) by (unfold m; rewrite app_length; lia).
      destruct (Nat.leb_spec (length c2 + length mid + m) (length c2 + (length mid + length c1))) as [Hle|Hgt];
        intro E; inversion E; subst h t.
      * rewrite app_nil_r. unfold slice. rewrite skipn_app3 by reflexivity.
        replace (length c2 + length mid + m - (length c2 + length mid)) with m by lia.
        rewrite <- (firstn_min (c1 ++ c2) n), <- Hm. rewrite firstn_app_le by lia. reflexivity.
      * rewrite skipn_app3 by reflexivity.
        replace (m - (length c2 + (length mid + length c1) - (length c2 + length mid))) with (m - length c1) by lia.
        rewrite firstn_app_le by (rewrite app_length in Hm; lia).
        rewrite <- (firstn_min (c1 ++ c2) n), <- Hm. rewrite firstn_app_ge by lia. reflexivity.
    + intro E; inversion E; subst h t. rewrite skipn_app3 by reflexivity.
      destruct (Nat.eqb_spec (length c2) 0) as [E0|E0].
      * rewrite (length_zero_nil _ E0). reflexivity.
      * rewrite firstn_app_l by reflexivity. reflexivity.
Qed.

(* ---------- advancing the read cursor by fewer bytes than are held ---------- *)
Lemma advance_lin pre c post n : c <> [] -> post <> [] -> n < length c ->
  rview {| rg_buf := pre ++ c ++ post; rg_size := length (pre ++ c ++ post); rg_r := length pre + n;
           rg_w := length pre + length c; rg_empty := false |} (skipn n c).
Proof.
  intros Hc Hp Hn.
  apply (mk_lin _ _ _ _ (pre ++ firstn n c) (skipn n c) post); try reflexivity.
  - rewrite <- app_assoc. rewrite (app_assoc (firstn n c)), firstn_skipn. reflexivity.
  - rewrite app_length, firstn_length. lia.
  - rewrite app_length, firstn_length, skipn_length. lia.
  - apply nonempty_length. rewrite skipn_length. lia.
  - exact Hp.
Qed.

Lemma advance_wrap c2 mid c1 n : c1 <> [] -> 0 < n -> n < length (c1 ++ c2) ->
  rview {| rg_buf := c2 ++ mid ++ c1; rg_size := length (c2 ++ mid ++ c1);
           rg_r := (length c2 + length mid + n) mod length (c2 ++ mid ++ c1);
           rg_w := length c2; rg_empty := false |} (skipn n (c1 ++ c2)).
Proof.
  intros Hc Hn0 Hn. apply nonempty_length in Hc. rewrite app_length in Hn.
  destruct (Nat.lt_ge_cases n (length c1)) as [Hlt|Hge].
  - rewrite Nat.mod_small by (rewrite !app_length; lia).
    apply (mk_wrap _ _ _ _ c2 (mid ++ firstn n c1) (skipn n c1)); try reflexivity.
    + rewrite <- app_assoc, firstn_skipn. reflexivity.
    + rewrite app_length, firstn_length. lia.
    + apply nonempty_length. rewrite skipn_length. lia.
    + apply skipn_app_le. lia.
  - rewrite mod_once by (rewrite !app_length; lia). rewrite !app_length.
    apply (mk_lin _ _ _ _ (firstn (n - length c1) c2) (skipn (n - length c1) c2) (mid ++ c1)); try reflexivity.
    + rewrite (app_assoc (firstn (n - length c1) c2)), firstn_skipn. reflexivity.
    + rewrite !app_length. reflexivity.
    + rewrite firstn_length. lia.
    + rewrite firstn_length, skipn_length. lia.
    + apply nonempty_length. rewrite skipn_length. lia.
    + apply nonempty_length. rewrite app_length. lia.
    + apply skipn_app_ge. lia.
Qed.

(* ---------- Discard ---------- *)
Theorem ring_discard_spec rb c n d rb' : rview rb c -> ring_discard rb n = (d, rb') ->
  d = Nat.min n (length c) /\ rview rb' (skipn n c).
Proof.
  intros H. unfold ring_discard. destruct (Nat.eqb_spec n 0) as [->|Hn].
  { intro E; inversion E; subst. split; [reflexivity | exact H]. }
  rewrite (view_buffered _ _ H).
  destruct (Nat.ltb_spec n (length c)) as [Hlt|Hge]; intro E; inversion E; subst d rb'.
  - split; [lia|].
    destruct H as [buf | pre c post Hc Hp | c2 mid c1 Hc]; cbn [rg_buf rg_size rg_r rg_w rg_empty].
    + cbn in Hlt. lia.
    + rewrite Nat.mod_small by (apply nonempty_length in Hp; rewrite !app_length; lia).
      apply advance_lin; assumption.
    + apply advance_wrap; [assumption | lia | assumption].
  - split; [lia|]. rewrite skipn_all2 by lia. eapply view_reset, H.
Qed.

(* ---------- Read ---------- *)
Theorem ring_read_spec rb c k o rb' : rview rb c -> ring_read rb k = (o, rb') ->
  (k = 0 -> o = Some [] /\ rb' = rb) /\
  (0 < k -> c = [] -> o = None /\ rb' = rb) /\
  (0 < k -> c <> [] -> o = Some (firstn k c) /\ rview rb' (skipn k c)).
Proof.
  intros H. unfold ring_read. destruct (Nat.eqb_spec k 0) as [->|Hk].
  { intro E; inversion E; subst. repeat split; intros; try lia; reflexivity. }
  destruct H as [buf | pre c post Hc Hp | c2 mid c1 Hc]; cbn [rg_buf rg_size rg_r rg_w rg_empty].
  - intro E; inversion E; subst. repeat split; intros; try lia; try reflexivity; congruence.
  - pose proof Hc as Hc'. apply nonempty_length in Hc'.
    destruct (Nat.ltb_spec (length pre) (length pre + length c)); [|lia].
    replace (length pre + length c - length pre) with (length c) by lia.
    intro E. split; [lia|]. split; [intros _ E0; contradiction|]. intros _ _.
    assert (Hout : slice (pre ++ c ++ post) (length pre) (length pre + Nat.min (length c) k) = firstn k c).
    { unfold slice. rewrite skipn_app_l by reflexivity.
      replace (length pre + Nat.min (length c) k - length pre) with (Nat.min (length c) k) by lia.
      rewrite firstn_app_le by lia. apply firstn_min. }
    rewrite Hout in E.
    destruct (Nat.eqb_spec (length pre + Nat.min (length c) k) (length pre + length c)) as [Efull|Enot];
      inversion E; subst o rb'; (split; [reflexivity|]).
    + rewrite skipn_all2 by lia. apply (view_reset _ c). constructor; assumption.
    + assert (Hkc : k < length c) by lia. rewrite Nat.min_r by lia. apply advance_lin; assumption.
  - pose proof Hc as Hc'. apply nonempty_length in Hc'.
    destruct (Nat.ltb_spec (length c2 + length mid) (length c2)); [lia|].
    intro E. split; [lia|]. split.
    { intros _ E0. apply app_eq_nil in E0. destruct E0; contradiction. }
    intros _ _.
    set (size := length (c2 ++ mid ++ c1)) in *.
    assert (Hsize : size = length c2 + length mid + length c1) by (unfold size; rewrite !app_length; lia).
    set (n := Nat.min (size - (length c2 + length mid) + length c2) k) in *.
    assert (Hn : n = Nat.min (length (c1 ++ c2)) k) by (unfold n; rewrite app_length; lia).
    assert (Hout : (if length c2 + length mid + n <=? size then slice (c2 ++ mid ++ c1) (length c2 + length mid) (length c2 + length mid + n)
                    else skipn (length c2 + length mid) (c2 ++ mid ++ c1) ++ firstn (n - (size - (length c2 + length mid))) (c2 ++ mid ++ c1))
                   = firstn k (c1 ++ c2)).
    { rewrite <- (firstn_min (c1 ++ c2) k), <- Hn. rewrite app_length in Hn.
      destruct (Nat.leb_spec (length c2 + length mid + n) size).
      - unfold slice. rewrite skipn_app3 by reflexivity.
        replace (length c2 + length mid + n - (length c2 + length mid)) with n by lia.
        rewrite firstn_app_le by lia. reflexivity.
      - rewrite skipn_app3 by reflexivity.
        replace (n - (size - (length c2 + length mid))) with (n - length c1) by lia.
        rewrite firstn_app_le by lia. rewrite firstn_app_ge by lia. reflexivity. }
    rewrite Hout in E. rewrite app_length in Hn.
    destruct (Nat.eqb_spec ((length c2 + length mid + n) mod size) (length c2)) as [Efull|Enot];
      inversion E; subst o rb'; (split; [reflexivity|]).
    + (* the cursor met the write cursor: everything was read *)
      assert (Hall : n = length c1 + length c2).
      { destruct (Nat.lt_ge_cases (length c2 + length mid + n) size) as [Hs|Hs].
        - rewrite Nat.mod_small in Efull by lia. lia.
        - rewrite mod_once in Efull by lia. lia. }
      rewrite skipn_all2 by (rewrite app_length; lia).
      apply (view_reset _ (c1 ++ c2)). constructor; assumption.
    + assert (Hkc : n < length c1 + length c2).
      { destruct (Nat.eq_dec n (length c1 + length c2)) as [Eq|]; [|lia].
        exfalso. apply Enot. rewrite Eq. rewrite mod_once by lia. lia. }
      assert (Hnk : n = k) by lia. rewrite Hnk in *.
      apply advance_wrap; [assumption | lia | rewrite app_length; lia].
Qed.

(* ---------- capacity computation ---------- *)
Lemma pow2_ge_mono : forall fuel p n, p <= pow2_ge fuel p n.
Proof.
  induction fuel as [|f IH]; intros p n; cbn [pow2_ge]; [lia|].
  destruct (n <=? p); [lia|]. specialize (IH (p + p) n). lia.
Qed.

(* with enough fuel the doubling reaches n: p * 2^fuel >= n, stated without exponentials as
   "n <= p doubled fuel times" *)
Fixpoint doubled (fuel p : nat) : nat := match fuel with O => p | S f => doubled f (p + p) end.
Lemma pow2_ge_reaches : forall fuel p n, n <= doubled fuel p -> n <= pow2_ge fuel p n.
Proof.
  induction fuel as [|f IH]; intros p n H; cbn [pow2_ge doubled] in *; [exact H|].
  destruct (Nat.leb_spec n p); [assumption | apply IH, H].
Qed.

Lemma doubled_ge : forall fuel p, p <= doubled fuel p.
Proof. induction fuel as [|f IH]; intro p; cbn [doubled]; [lia|]. specialize (IH (p + p)). lia. Qed.

(* sizes below 2^31 (Go's int is 64 bits; the proxy's buffers are far smaller): expressed through N
   so that no large unary number is ever built *)
Definition small_size (n : nat) : Prop := (N.of_nat n < 2147483648)%N.

Lemma doubled_N : forall fuel p, N.of_nat (doubled fuel p) = (N.of_nat p * 2 ^ N.of_nat fuel)%N.
Proof.
  induction fuel as [|f IH]; intro p; cbn [doubled].
  - rewrite N.mul_1_r. reflexivity.
  - rewrite IH. rewrite Nat2N.inj_succ, N.pow_succ_r', Nat2N.inj_add. ring.
Qed.

Lemma ceil_pow2_ge n : small_size n -> n <= ceil_pow2 n.
Proof.
  intro H. unfold ceil_pow2. destruct (Nat.leb_spec n 2); [lia|].
  apply pow2_ge_reaches. unfold small_size in H.
  assert (Hd : (N.of_nat n <= N.of_nat (doubled 64 2))%N).
  { rewrite doubled_N. change (N.of_nat 2) with 2%N. change (N.of_nat 64) with 64%N.
    assert (2147483648 <= 2 * 2 ^ 64)%N by (vm_compute; discriminate). lia. }
  lia.
Qed.

Lemma grow_quarter_ge : forall fuel n newcap, 4 <= n -> newcap <= n + n -> 4 <= fuel -> newcap <= grow_quarter fuel n newcap.
Proof.
  (* four rounds of n += n/4 more than double n *)
  assert (Hstep : forall n, 4 <= n -> n < n + n / 4) by (intros n Hn; pose proof (Nat.div_le_lower_bound n 4 1); lia).
  assert (Hmono : forall fuel n newcap, n <= grow_quarter fuel n newcap).
  { induction fuel as [|f IH]; intros n newcap; cbn [grow_quarter]; [lia|].
    destruct ((0 <? n) && (n <? newcap))%bool; [|lia]. specialize (IH (n + n / 4) newcap). lia. }
  assert (Hstop : forall fuel n newcap, newcap <= n -> grow_quarter fuel n newcap = n).
  { intros fuel n newcap H. destruct fuel; cbn [grow_quarter]; [reflexivity|].
    destruct (Nat.ltb_spec n newcap); [lia|]. rewrite Bool.andb_false_r. reflexivity. }
  intros fuel n newcap Hn Hc Hf.
  destruct fuel as [|[|[|[|f]]]]; try lia.
  set (n1 := n + n / 4). set (n2 := n1 + n1 / 4). set (n3 := n2 + n2 / 4). set (n4 := n3 + n3 / 4).
  assert (H1 : 5 * n <= 4 * n1 + 3) by (unfold n1; pose proof (Nat.div_mod n 4); pose proof (Nat.mod_upper_bound n 4); lia).
  assert (H2 : 5 * n1 <= 4 * n2 + 3) by (unfold n2; pose proof (Nat.div_mod n1 4); pose proof (Nat.mod_upper_bound n1 4); lia).
  assert (H3 : 5 * n2 <= 4 * n3 + 3) by (unfold n3; pose proof (Nat.div_mod n2 4); pose proof (Nat.mod_upper_bound n2 4); lia).
  assert (H4 : 5 * n3 <= 4 * n4 + 3) by (unfold n4; pose proof (Nat.div_mod n3 4); pose proof (Nat.mod_upper_bound n3 4); lia).
  assert (Hbig : n + n <= n4) by lia.
  cbn [grow_quarter].
  destruct ((0 <? n) && (n <? newcap))%bool eqn:E0; [|destruct (Nat.ltb_spec n newcap); [destruct (Nat.ltb_spec 0 n); [discriminate | lia] | lia]].
  fold n1. destruct ((0 <? n1) && (n1 <? newcap))%bool eqn:E1;
    [|destruct (Nat.ltb_spec n1 newcap); [destruct (Nat.ltb_spec 0 n1); [discriminate | unfold n1 in *; lia] | lia]].
  fold n2. destruct ((0 <? n2) && (n2 <? newcap))%bool eqn:E2;
    [|destruct (Nat.ltb_spec n2 newcap); [destruct (Nat.ltb_spec 0 n2); [discriminate | unfold n2, n1 in *; lia] | lia]].
  fold n3. destruct ((0 <? n3) && (n3 <? newcap))%bool eqn:E3;
    [|destruct (Nat.ltb_spec n3 newcap); [destruct (Nat.ltb_spec 0 n3); [discriminate | unfold n3, n2, n1 in *; lia] | lia]].
  fold n4. pose proof (Hmono f n4 newcap). lia.
Qed.

Lemma grow_cap_ge size newcap : small_size newcap -> newcap <= grow_cap size newcap.
Proof.
  intro Hs. unfold grow_cap.
  (* the threshold must be at least 4 for the 1.25x loop to make progress: re-checked against the
     constant copied from ring_buffer.go *)
  assert (Hthr : 4 <= bufferGrowThreshold) by (vm_compute; repeat constructor).
  destruct (Nat.eqb_spec size 0).
  - destruct (Nat.leb_spec newcap DefaultBufferSize); [lia | apply ceil_pow2_ge, Hs].
  - destruct (Nat.leb_spec newcap (size + size)); [|lia].
    destruct (Nat.ltb_spec size bufferGrowThreshold); [lia|].
    pose proof (grow_quarter_ge 256 size newcap ltac:(lia) ltac:(lia) ltac:(lia)) as Hq.
    destruct (Nat.ltb_spec 0 (grow_quarter 256 size newcap)); lia.
Qed.

(* ---------- copy ---------- *)
Lemma copy_at_fits (a x p : bytes) : length p <= length x -> copy_at (a ++ x) (length a) p = a ++ p ++ skipn (length p) x.
Proof.
  intro H. unfold copy_at. rewrite app_length.
  replace (length a + length x - length a) with (length x) by lia.
  rewrite (firstn_all2 p) by lia. rewrite firstn_app_l by reflexivity.
  rewrite skipn_app_ge by lia. replace (length a + length p - length a) with (length p) by lia. reflexivity.
Qed.

Lemma copy_at_0 (x p : bytes) : length p <= length x -> copy_at x 0 p = p ++ skipn (length p) x.
Proof. intro H. apply (copy_at_fits [] x p H). Qed.

(* ---------- grow ---------- *)
Lemma ring_read_all rb c k : rview rb c -> c <> [] -> length c <= k -> fst (ring_read rb k) = Some c.
Proof.
  intros H Hc Hk. destruct (ring_read rb k) as [o rb'] eqn:E.
  destruct (ring_read_spec _ _ _ _ _ H E) as (_ & _ & H3).
  apply nonempty_length in Hc.
  destruct (H3 ltac:(lia) ltac:(apply nonempty_length; lia)) as [-> _]. cbn [fst]. rewrite firstn_all2 by lia. reflexivity.
Qed.

Lemma ring_grow_view rb c newcap : rview rb c -> length c < grow_cap (rg_size rb) newcap ->
  rview (ring_grow rb newcap) c /\ rg_size (ring_grow rb newcap) = grow_cap (rg_size rb) newcap.
Proof.
  intros H Hcap. unfold ring_grow. rewrite (view_buffered _ _ H). cbn [rg_size]. split; [|reflexivity].
  set (cap := grow_cap (rg_size rb) newcap) in *.
  destruct c as [|b c'].
  - (* nothing held: Read reports empty (or copies nothing) *)
    assert (Hd : match fst (ring_read rb cap) with Some d => d | None => [] end = []).
    { destruct (ring_read rb cap) as [o rb'] eqn:E. destruct (ring_read_spec _ _ _ _ _ H E) as (H1 & H2 & _).
      destruct (Nat.eq_dec cap 0) as [E0|E0]; [destruct (H1 E0) as [-> _]; reflexivity|].
      destruct (H2 ltac:(lia) eq_refl) as [-> _]. reflexivity. }
    rewrite Hd. cbn [length]. replace (0 <? 0) with false by reflexivity.
    apply mk_empty. rewrite copy_at_0 by (cbn; lia). cbn. rewrite repeat_length. reflexivity.
  - rewrite (ring_read_all rb (b :: c') cap H ltac:(discriminate) ltac:(lia)).
    destruct (Nat.ltb_spec 0 (length (b :: c'))) as [_|Hl]; [|cbn in Hl; lia].
    rewrite copy_at_0 by (rewrite repeat_length; lia).
    apply (mk_lin _ _ _ _ [] (b :: c') (skipn (length (b :: c')) (repeat 0%N cap))); try reflexivity.
    + rewrite app_length, skipn_length, repeat_length. lia.
    + discriminate.
    + apply nonempty_length. rewrite skipn_length, repeat_length. lia.
Qed.

(* ---------- Write ---------- *)
(* the part of Write after the capacity check: enough room for p *)
Definition write_core (rb : ring) (p : bytes) : ring :=
  let n := length p in
  let '(buf, w) :=
    if rg_r rb <=? rg_w rb then
      let c1 := rg_size rb - rg_w rb in
      if n <=? c1 then (copy_at (rg_buf rb) (rg_w rb) p, rg_w rb + n)
      else (copy_at (copy_at (rg_buf rb) (rg_w rb) (firstn c1 p)) 0 (skipn c1 p), n - c1)
    else (copy_at (rg_buf rb) (rg_w rb) p, rg_w rb + n) in
  {| rg_buf := buf; rg_size := rg_size rb; rg_r := rg_r rb; rg_w := if w =? rg_size rb then 0 else w; rg_empty := false |}.

Lemma ring_write_unfold rb p : p <> [] ->
  ring_write rb p = write_core (if ring_available rb <? length p then ring_grow rb (rg_size rb + length p - ring_available rb) else rb) p.
Proof.
  intro Hp. unfold ring_write, write_core. apply nonempty_length in Hp.
  destruct (Nat.eqb_spec (length p) 0); [lia | reflexivity].
Qed.

Lemma write_core_view rb c p : rview rb c -> p <> [] -> length c + length p <= rg_size rb ->
  rview (write_core rb p) (c ++ p) /\ rg_size (write_core rb p) = rg_size rb.
Proof.
  intros H Hp Hroom. split; [|destruct H; unfold write_core; cbn [rg_r rg_w rg_size];
                               repeat match goal with |- context [if ?b then _ else _] => destruct b end; reflexivity].
  pose proof Hp as Hp'. apply nonempty_length in Hp'.
  destruct H as [buf | pre c post Hc Hpost | c2 mid c1 Hc]; unfold write_core; cbn [rg_buf rg_size rg_r rg_w rg_empty] in *.
  - (* empty *)
    cbn [Nat.leb]. rewrite Nat.sub_0_r.
    destruct (Nat.leb_spec (length p) (length buf)) as [_|Hbad]; [|cbn in Hroom; lia].
    cbn [length plus] in Hroom. rewrite copy_at_0 by lia. cbn [plus].
    destruct (Nat.eqb_spec (length p) (length buf)) as [Efull|Enot].
    + apply (mk_wrap _ _ _ _ [] [] p); try reflexivity; try assumption.
      * rewrite skipn_all2 by lia. rewrite app_nil_r. reflexivity.
      * rewrite app_length, skipn_length. lia.
      * rewrite app_nil_r. reflexivity.
    + apply (mk_lin _ _ _ _ [] p (skipn (length p) buf)); try reflexivity; try assumption.
      * rewrite app_length, skipn_length. lia.
      * apply nonempty_length. rewrite skipn_length. lia.
  - (* linear *)
    pose proof Hc as Hc'. apply nonempty_length in Hc'. pose proof Hpost as Hpost'. apply nonempty_length in Hpost'.
    rewrite !app_length in *.
    destruct (Nat.leb_spec (length pre) (length pre + length c)); [|lia].
    replace (length pre + (length c + length post) - (length pre + length c)) with (length post) by lia.
    destruct (Nat.leb_spec (length p) (length post)) as [Hfit|Hsplit].
    + assert (Ecopy : copy_at (pre ++ c ++ post) (length pre + length c) p = pre ++ c ++ p ++ skipn (length p) post).
      { rewrite (app_assoc pre c post). rewrite <- (app_length pre c). rewrite copy_at_fits by lia. rewrite <- app_assoc. reflexivity. }
      rewrite Ecopy.
      destruct (Nat.eqb_spec (length pre + length c + length p) (length pre + (length c + length post))) as [Efull|Enot].
      * apply (mk_wrap _ _ _ _ [] pre (c ++ p)); try reflexivity.
        -- cbn [app]. rewrite skipn_all2 by lia. rewrite app_nil_r. reflexivity.
        -- rewrite !app_length, skipn_length. lia.
        -- intro E. apply app_eq_nil in E. destruct E; contradiction.
        -- rewrite app_nil_r. reflexivity.
      * apply (mk_lin _ _ _ _ pre (c ++ p) (skipn (length p) post)); try reflexivity.
        -- rewrite <- app_assoc. reflexivity.
        -- rewrite !app_length, skipn_length. lia.
        -- rewrite app_length. lia.
        -- intro E. apply app_eq_nil in E. destruct E; contradiction.
        -- apply nonempty_length. rewrite skipn_length. lia.
    + (* the write wraps: tail of the slice first, the rest at the start *)
      assert (E1 : copy_at (pre ++ c ++ post) (length pre + length c) (firstn (length post) p) = pre ++ c ++ firstn (length post) p).
      { rewrite (app_assoc pre c post). rewrite <- (app_length pre c). rewrite copy_at_fits by (rewrite firstn_length; lia).
        rewrite firstn_length, Nat.min_l by lia. rewrite skipn_all, app_nil_r, <- app_assoc. reflexivity. }
      rewrite E1.
      assert (E2 : copy_at (pre ++ c ++ firstn (length post) p) 0 (skipn (length post) p)
                   = skipn (length post) p ++ skipn (length p - length post) pre ++ c ++ firstn (length post) p).
      { rewrite copy_at_0 by (rewrite skipn_length, !app_length, firstn_length; lia).
        rewrite skipn_length. rewrite skipn_app_le by lia. reflexivity. }
      rewrite E2.
      destruct (Nat.eqb_spec (length p - length post) (length pre + (length c + length post))); [lia|].
      apply (mk_wrap _ _ _ _ (skipn (length post) p) (skipn (length p - length post) pre) (c ++ firstn (length post) p)); try reflexivity.
      * rewrite !app_length, !skipn_length, firstn_length. lia.
      * rewrite !skipn_length. lia.
      * rewrite skipn_length. reflexivity.
      * intro E. apply app_eq_nil in E. destruct E; contradiction.
      * rewrite <- app_assoc, firstn_skipn. reflexivity.
  - (* wrapped: room only between the cursors *)
    pose proof Hc as Hc'. apply nonempty_length in Hc'. rewrite !app_length in *.
    assert (Hmid : length p <= length mid) by lia.
    destruct (Nat.leb_spec (length c2 + length mid) (length c2)); [lia|].
    assert (Ecopy : copy_at (c2 ++ mid ++ c1) (length c2) p = c2 ++ p ++ skipn (length p) mid ++ c1).
    { rewrite copy_at_fits by (rewrite app_length; lia). rewrite skipn_app_le by lia. reflexivity. }
    rewrite Ecopy.
    destruct (Nat.eqb_spec (length c2 + length p) (length c2 + (length mid + length c1))); [lia|].
    apply (mk_wrap _ _ _ _ (c2 ++ p) (skipn (length p) mid) c1); try reflexivity.
    + rewrite <- app_assoc. reflexivity.
    + rewrite !app_length, skipn_length. lia.
    + rewrite app_length, skipn_length. lia.
    + rewrite app_length. reflexivity.
    + assumption.
    + rewrite app_assoc. reflexivity.
Qed.

Theorem ring_write_spec rb c p : rview rb c -> small_size (length c + length p) -> rview (ring_write rb p) (c ++ p).
Proof.
  intros H Hs. destruct p as [|b p'].
  - unfold ring_write. cbn [length Nat.eqb]. rewrite app_nil_r. exact H.
  - rewrite ring_write_unfold by discriminate. rewrite (view_available _ _ H).
    destruct (Nat.ltb_spec (rg_size rb - length c) (length (b :: p'))) as [Hgrow|Hfit].
    + assert (Hle : length c <= rg_size rb).
      { clear -H. destruct H; cbn [rg_size]; rewrite ?app_length; cbn [length]; lia. }
      replace (rg_size rb + length (b :: p') - (rg_size rb - length c)) with (length c + length (b :: p')) by lia.
      pose proof (grow_cap_ge (rg_size rb) (length c + length (b :: p')) Hs) as Hcap.
      destruct (ring_grow_view rb c (length c + length (b :: p')) H ltac:(cbn [length] in *; lia)) as [Hv Hsz].
      apply write_core_view; [exact Hv | discriminate | rewrite Hsz; exact Hcap].
    + apply write_core_view; [exact H | discriminate | cbn [length] in *; lia].
Qed.

(* ---------- WriteByte / ReadByte ---------- *)
Lemma view_w_lt rb c : rview rb c -> 0 < rg_size rb -> rg_w rb < length (rg_buf rb).
Proof.
  intros H Hs. destruct H as [buf | pre c post Hc Hp | c2 mid c1 Hc]; cbn [rg_w rg_buf rg_size] in *.
  - exact Hs.
  - apply nonempty_length in Hp. rewrite !app_length. lia.
  - apply nonempty_length in Hc. rewrite !app_length. lia.
Qed.

Lemma write_core_byte rb x : rg_w rb < rg_size rb ->
  write_core rb [x] =
  {| rg_buf := copy_at (rg_buf rb) (rg_w rb) [x]; rg_size := rg_size rb; rg_r := rg_r rb;
     rg_w := if rg_w rb + 1 =? rg_size rb then 0 else rg_w rb + 1; rg_empty := false |}.
Proof.
  intro H. unfold write_core. cbn [length]. destruct (rg_r rb <=? rg_w rb); [|reflexivity].
  destruct (Nat.leb_spec 1 (rg_size rb - rg_w rb)); [reflexivity | lia].
Qed.

(* WriteByte never runs past the slice (the repaired defect) and appends the byte *)
Theorem ring_write_byte_spec rb c x : rview rb c -> small_size (length c + 1) ->
  exists rb', ring_write_byte rb x = Some rb' /\ rview rb' (c ++ [x]).
Proof.
  intros H Hs. unfold ring_write_byte. rewrite (view_available _ _ H).
  assert (Hle : length c <= rg_size rb) by (clear -H; destruct H; cbn [rg_size]; rewrite ?app_length; cbn [length]; lia).
  destruct (Nat.ltb_spec (rg_size rb - length c) 1) as [Hfull|Hroom].
  - pose proof (grow_cap_ge (rg_size rb) (rg_size rb + 1) ltac:(unfold small_size in *; lia)) as Hcap.
    destruct (ring_grow_view rb c (rg_size rb + 1) H ltac:(lia)) as [Hv Hsz].
    set (rb1 := ring_grow rb (rg_size rb + 1)) in *.
    assert (Hw : rg_w rb1 < length (rg_buf rb1)) by (apply (view_w_lt _ _ Hv); lia).
    destruct (Nat.ltb_spec (rg_w rb1) (length (rg_buf rb1))); [|lia].
    eexists. split; [reflexivity|].
    rewrite <- write_core_byte by (rewrite <- (view_size _ _ Hv); exact Hw).
    apply write_core_view; [exact Hv | discriminate | cbn [length]; lia].
  - assert (Hw : rg_w rb < length (rg_buf rb)) by (apply (view_w_lt _ _ H); lia).
    destruct (Nat.ltb_spec (rg_w rb) (length (rg_buf rb))); [|lia].
    eexists. split; [reflexivity|].
    rewrite <- write_core_byte by (rewrite <- (view_size _ _ H); exact Hw).
    apply write_core_view; [exact H | discriminate | cbn [length]; lia].
Qed.

Theorem ring_read_byte_spec rb c : rview rb c ->
  match c with
  | [] => ring_read_byte rb = (None, rb)
  | x :: c' => exists rb', ring_read_byte rb = (Some x, rb') /\ rview rb' c'
  end.
Proof.
  intros H. destruct H as [buf | pre c post Hc Hp | c2 mid c1 Hc]; unfold ring_read_byte; cbn [rg_buf rg_size rg_r rg_w rg_empty].
  - reflexivity.
  - destruct c as [|x c']; [contradiction|]. pose proof Hp as Hp'. apply nonempty_length in Hp'.
    rewrite app_nth2, Nat.sub_diag by lia. cbn [nth app].
    assert (Hsz : length (pre ++ x :: c' ++ post) = length pre + S (length c' + length post))
      by (rewrite !app_length; cbn [length]; rewrite app_length; lia).
    rewrite Hsz. cbn [length].
    destruct (Nat.eqb_spec (length pre + 1) (length pre + S (length c' + length post))); [lia|].
    destruct (Nat.eqb_spec (length pre + 1) (length pre + S (length c'))) as [E1|E1].
    + assert (c' = []) by (apply length_zero_nil; lia). subst c'. eexists. split; [reflexivity|].
      eapply view_reset. apply (mk_lin _ _ _ _ pre [x] post [x]); try reflexivity; try assumption;
        try (rewrite ?app_length; cbn [length app]; lia).
    + eexists. split; [reflexivity|].
      assert (Hc2 : c' <> []) by (apply nonempty_length; lia).
      apply (mk_lin _ _ _ _ (pre ++ [x]) c' post c'); try reflexivity; try assumption.
      * rewrite <- app_assoc. reflexivity.
      * rewrite !app_length. cbn [length]. rewrite app_length. lia.
      * rewrite app_length. reflexivity.
      * rewrite app_length. cbn [length]. lia.
  - destruct c1 as [|x c1']; [contradiction|].
    rewrite app_assoc, app_nth2 by (rewrite app_length; lia). rewrite app_length, Nat.sub_diag. cbn [nth].
    rewrite <- app_assoc.
    set (size := length (c2 ++ mid ++ x :: c1')).
    assert (Hsize : size = length c2 + length mid + S (length c1')) by (unfold size; rewrite !app_length; cbn [length]; lia).
    assert (Hr : (if length c2 + length mid + 1 =? size then 0 else length c2 + length mid + 1) = (length c2 + length mid + 1) mod size).
    { destruct (Nat.eqb_spec (length c2 + length mid + 1) size) as [E|E]; [rewrite E, Nat.mod_same by lia; reflexivity | rewrite Nat.mod_small by lia; reflexivity]. }
    rewrite Hr. cbn [app].
    destruct (Nat.eqb_spec ((length c2 + length mid + 1) mod size) (length c2)) as [Efull|Enot].
    + (* the last byte *)
      assert (c1' = [] /\ c2 = []).
      { destruct (Nat.eq_dec (length c2 + length mid + 1) size) as [E|E].
        - rewrite E, Nat.mod_same in Efull by lia. split; apply length_zero_nil; lia.
        - rewrite Nat.mod_small in Efull by lia. lia. }
      destruct H as [-> ->]. eexists. split; [reflexivity|]. cbn [app].
      apply (view_reset _ ([x] ++ [])). apply (V_wrap [] mid [x]). discriminate.
    + eexists. split; [reflexivity|].
      assert (Hlt : 1 < length ((x :: c1') ++ c2)).
      { rewrite app_length. cbn [length]. destruct (Nat.eq_dec (length c1' + length c2) 0) as [E0|]; [|lia].
        exfalso. apply Enot. assert (length c2 = 0) by lia. assert (length c1' = 0) by lia.
        replace (length c2 + length mid + 1) with size by lia. rewrite Nat.mod_same by lia. lia. }
      pose proof (advance_wrap c2 mid (x :: c1') 1 Hc ltac:(lia) Hlt) as V. cbn [skipn app] in V. exact V.
Qed.
