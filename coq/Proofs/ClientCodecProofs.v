(* Proofs about the client request decoder (Model/ClientCodec.v):
     - completeness: every canonical request encoding is decoded, whatever follows it
     - soundness: everything the decoder accepts is a canonical request encoding
     - stability under extension of the buffer (TCP segmentation)
     - no Crash / Hang outcome                                                     *)
From RcProxy Require Import Base.Bytes Base.Dec Gen.Generated Spec.RespGrammar
  Model.RespBuf Model.Commands Model.Crc16 Model.ClientCodec Proofs.DecProofs Proofs.RespBufProofs.
From Coq Require Import ZifyN ZifyNat ZifyBool.
Open Scope N_scope.

Definition small (a : bytes) : Prop := (Z.of_nat (length a) < 10 ^ 18)%Z.

Lemma small_N a : small a -> N.of_nat (length a) < 10 ^ 18.
Proof. unfold small. rewrite pow10_18. lia. Qed.

Lemma bulk_hdr_ok n : 36 :: itoa n <> [] /\ ~ In LF (36 :: itoa n).
Proof.
  split; [discriminate|]. intros [H|H]; [discriminate|].
  revert H. apply all_digits_no; [apply itoa_digits | left; reflexivity].
Qed.

Lemma count_hdr_ok n : 42 :: itoa n <> [] /\ ~ In LF (42 :: itoa n).
Proof.
  split; [discriminate|]. intros [H|H]; [discriminate|].
  revert H. apply all_digits_no; [apply itoa_digits | left; reflexivity].
Qed.

Lemma enc_bulk_shape a : enc_bulk a = (36 :: itoa_nat (length a)) ++ crlf ++ a ++ crlf.
Proof. reflexivity. Qed.

Lemma enc_bulk_nonempty a : enc_bulk a <> [].
Proof. discriminate. Qed.

Lemma length_enc_bulk_pos a : (0 < length (enc_bulk a))%nat.
Proof. unfold enc_bulk. simpl. lia. Qed.

(* ---------- parse_line ---------- *)
Lemma parse_line_enc a rest : small a -> parse_line (enc_bulk a ++ rest) = Ok (a, rest).
Proof.
  intro Hs. unfold parse_line. rewrite enc_bulk_shape, <- !app_assoc.
  destruct (bulk_hdr_ok (N.of_nat (length a))) as [H1 H2].
  unfold itoa_nat. rewrite read_line_enc by assumption.
  rewrite parse_len_itoa by (apply small_N, Hs).
  rewrite nat_N_Z.
  destruct (Z.ltb_spec (Z.of_nat (length a)) 0); [lia|]. cbn [orb is_some].
  rewrite read_n_enc by (destruct a; discriminate).
  change 2%Z with (Z.of_nat (length crlf)).
  rewrite read_n_enc by discriminate. rewrite beqb_refl. reflexivity.
Qed.

Lemma parse_line_ok_inv l a rest :
  parse_line l = Ok (a, rest) -> l = enc_bulk a ++ rest /\ small a.
Proof.
  unfold parse_line. destruct (read_line l) as [[line r0]|e] eqn:E; [|destruct e; discriminate].
  apply read_line_ok_inv in E as (-> & _ & _).
  destruct line as [|m digits]; [discriminate|].
  destruct (N.eqb_spec m 36) as [->|Hm]; [|discriminate]. cbn [negb].
  destruct (parse_len digits) as [n err] eqn:Ep.
  destruct (Z.ltb_spec n 0) as [Hn|Hn]; [discriminate|]. cbn [orb].
  destruct err as [e|]; [discriminate|]. cbn [is_some].
  apply parse_len_sound in Ep as [-> Hlt]; [|exact Hn].
  destruct (read_n n r0) as [[b r1]|e] eqn:E1; [|discriminate].
  apply read_n_ok_inv in E1 as (-> & ->); [|exact Hn].
  destruct (read_n 2 r1) as [[cr r2]|e] eqn:E2; [|discriminate].
  apply read_n_ok_inv in E2 as (-> & Hl2); [|lia].
  destruct (beqb cr crlf) eqn:Ec; [|discriminate]. apply beqb_eq in Ec. subst cr.
  intro H. inversion H; subst a rest. split.
  - rewrite enc_bulk_shape. unfold itoa_nat.
    replace (Z.to_N (Z.of_nat (length b))) with (N.of_nat (length b)) by lia.
    rewrite <- !app_assoc. reflexivity.
  - unfold small. exact Hlt.
Qed.

Lemma parse_line_mono_ok l e a rest :
  parse_line l = Ok (a, rest) -> parse_line (l ++ e) = Ok (a, rest ++ e).
Proof.
  intro H. apply parse_line_ok_inv in H as (-> & Hs).
  rewrite <- app_assoc. apply parse_line_enc, Hs.
Qed.

Lemma parse_line_mono_err l e :
  parse_line l = Err EInvalidResp -> parse_line (l ++ e) = Err EInvalidResp.
Proof.
  unfold parse_line. destruct (read_line l) as [[line r0]|er] eqn:E.
  - rewrite (read_line_mono_ok _ e _ _ E).
    destruct line as [|m digits]; [auto|].
    destruct (negb (m =? 36)); [auto|].
    destruct (parse_len digits) as [n err].
    destruct (Z.ltb_spec n 0) as [Hn|Hn]; [auto|]. cbn [orb].
    destruct (is_some err); [auto|].
    destruct (read_n n r0) as [[b r1]|e1] eqn:E1.
    + rewrite (read_n_mono_ok _ _ e _ _ Hn E1).
      destruct (read_n 2 r1) as [[cr r2]|e2] eqn:E2; [|discriminate].
      assert (H2 : (0 <= 2)%Z) by lia.
      rewrite (read_n_mono_ok _ _ e _ _ H2 E2). destruct (beqb cr crlf); [discriminate | auto].
    + unfold read_n in E1. destruct r0; [inversion E1; subst; discriminate|].
      destruct (_ <? _)%Z; [inversion E1; subst; discriminate | discriminate].
  - intro H.
    assert (Her : er = EInvalidResp \/ er = EBadLine) by (destruct er; try discriminate; auto).
    rewrite (read_line_mono_err _ e _ E Her). exact H.
Qed.

Lemma parse_line_shrinks l a rest : parse_line l = Ok (a, rest) -> (length rest < length l)%nat.
Proof.
  intro H. apply parse_line_ok_inv in H as (-> & _). rewrite app_length.
  pose proof (length_enc_bulk_pos a). lia.
Qed.

(* ---------- parse_args ---------- *)
Definition enc_args (args : list bytes) : bytes := concat (map enc_bulk args).

Lemma parse_args_enc args : Forall small args -> forall f rest, (length args <= f)%nat ->
  parse_args f (Z.of_nat (length args)) (enc_args args ++ rest) = Some (Ok (args, rest)).
Proof.
  induction 1 as [|a args Ha Hargs IH]; intros f rest Hf.
  - destruct f; reflexivity.
  - destruct f as [|f]; [cbn [length] in Hf; lia|].
    cbn [parse_args]. destruct (Z.leb_spec (Z.of_nat (length (a :: args))) 0) as [H0|H0]; [cbn [length] in H0; lia|].
    unfold enc_args. cbn [map concat]. rewrite <- app_assoc.
    rewrite parse_line_enc by exact Ha.
    replace (Z.of_nat (length (a :: args)) - 1)%Z with (Z.of_nat (length args)) by (cbn [length]; lia).
    fold (enc_args args). rewrite IH by (cbn [length] in Hf; lia). reflexivity.
Qed.

Lemma parse_args_ok_inv f : forall n l args rest,
  parse_args f n l = Some (Ok (args, rest)) ->
  l = enc_args args ++ rest /\ Forall small args /\ Z.of_nat (length args) = Z.max n 0.
Proof.
  induction f as [|f IH]; intros n l args rest H; cbn [parse_args] in H.
  - destruct (Z.leb_spec n 0); [|discriminate]. inversion H; subst. simpl. repeat split; [constructor | lia].
  - destruct (Z.leb_spec n 0).
    + inversion H; subst. simpl. repeat split; [constructor | lia].
    + destruct (parse_line l) as [[a r]|e] eqn:E; [|discriminate].
      destruct (parse_args f (n - 1) r) as [[[args' r']|e]|] eqn:E2; try discriminate.
      inversion H; subst args rest. apply parse_line_ok_inv in E as (-> & Hs).
      apply IH in E2 as (-> & Hf & Hl). unfold enc_args. cbn [map concat]. rewrite <- app_assoc.
      repeat split; [constructor; assumption | simpl length; lia].
Qed.

Lemma parse_args_no_hang f : forall n l, (length l < f)%nat -> parse_args f n l <> None.
Proof.
  induction f as [|f IH]; intros n l Hl; [lia|]. cbn [parse_args].
  destruct (n <=? 0)%Z; [discriminate|].
  destruct (parse_line l) as [[a r]|e] eqn:E; [|discriminate].
  apply parse_line_shrinks in E. specialize (IH (n - 1)%Z r ltac:(lia)).
  destruct (parse_args f (n - 1) r) as [[[? ?]|?]|]; [discriminate | discriminate | contradiction].
Qed.

Lemma parse_args_mono_err f : forall n l e g, (f <= g)%nat ->
  parse_args f n l = Some (Err EInvalidResp) -> parse_args g n (l ++ e) = Some (Err EInvalidResp).
Proof.
  induction f as [|f IH]; intros n l e g Hg H; cbn [parse_args] in H.
  - destruct (n <=? 0)%Z; discriminate.
  - destruct g as [|g]; [lia|]. cbn [parse_args].
    destruct (n <=? 0)%Z; [discriminate|].
    destruct (parse_line l) as [[a r]|er] eqn:E.
    + rewrite (parse_line_mono_ok _ e _ _ E).
      destruct (parse_args f (n - 1) r) as [[[args' r']|e2]|] eqn:E2; try discriminate.
      inversion H; subst e2. rewrite (IH _ _ e g ltac:(lia) E2). reflexivity.
    + inversion H; subst er. rewrite (parse_line_mono_err _ e E). reflexivity.
Qed.

(* ---------- decode ---------- *)
Definition build_msg (limit : Z) (name : bytes) (args : list bytes) : cmsg :=
  let nargs := Z.of_nat (length args) in
  let '(ty1, keys, body) :=
    build (transform2type name nargs) nargs args (enc_request (to_lower name :: args)) in
  {| cm_type := if (limit <? Z.of_nat (length (enc_request (name :: args))))%Z then ReqTooLarge else ty1;
     cm_keys := keys; cm_body := body |}.

Lemma enc_request_shape name args :
  enc_request (name :: args) = (42 :: itoa_nat (S (length args))) ++ crlf ++ enc_bulk name ++ enc_args args.
Proof. reflexivity. Qed.

Lemma length_enc_args_ge args : (length args <= length (enc_args args))%nat.
Proof.
  induction args as [|a args IH]; [simpl; lia|].
  unfold enc_args in *. cbn [map concat length]. rewrite app_length.
  pose proof (length_enc_bulk_pos a). lia.
Qed.

Lemma splice (P N N' T R : bytes) : length N' = length N ->
  let b := P ++ N ++ crlf ++ T ++ R in
  let off := (length b - length (T ++ R) - 2 - length N)%nat in
  let consumed := (length b - length R)%nat in
  firstn off b ++ N' ++ skipn (off + length N) (firstn consumed b) = P ++ N' ++ crlf ++ T.
Proof.
  intros HN b off consumed.
  assert (Hoff : off = length P).
  { unfold off, b. rewrite !app_length. simpl. lia. }
  assert (Hcons : consumed = length (P ++ N ++ crlf ++ T)).
  { unfold consumed, b. rewrite !app_length. simpl. lia. }
  rewrite Hoff, Hcons. unfold b.
  rewrite firstn_exact.
  replace (P ++ N ++ crlf ++ T ++ R) with ((P ++ N ++ crlf ++ T) ++ R) by (rewrite <- !app_assoc; reflexivity).
  rewrite firstn_exact.
  replace (length P + length N)%nat with (length (P ++ N)) by apply app_length.
  replace (P ++ N ++ crlf ++ T) with ((P ++ N) ++ crlf ++ T) by (rewrite <- !app_assoc; reflexivity).
  rewrite skipn_exact. rewrite <- ?app_assoc. reflexivity.
Qed.

Definition wf_req (name : bytes) (args : list bytes) : Prop :=
  small name /\ Forall small args /\ (Z.of_nat (S (length args)) < 10 ^ 18)%Z.

Theorem decode_complete limit name args rest : wf_req name args ->
  decode limit (enc_request (name :: args) ++ rest)
  = DOk (build_msg limit name args) (length (enc_request (name :: args))).
Proof.
  intros (Hn & Ha & Hc).
  set (enc := enc_request (name :: args)).
  unfold decode. destruct (enc ++ rest) as [|x xs] eqn:Eb.
  { unfold enc in Eb. rewrite enc_request_shape in Eb. discriminate. }
  rewrite <- Eb. clear Eb x xs.
  unfold enc at 1. rewrite enc_request_shape, <- !app_assoc.
  destruct (count_hdr_ok (N.of_nat (S (length args)))) as [H1 H2].
  unfold itoa_nat at 1. rewrite read_line_enc by assumption.
  rewrite N.eqb_refl. cbn [negb].
  rewrite parse_len_itoa by (rewrite pow10_18 in *; lia).
  rewrite nat_N_Z. destruct (Z.ltb_spec (Z.of_nat (S (length args))) 1); [lia|]. cbn [orb is_some].
  rewrite parse_line_enc by exact Hn.
  replace (Z.of_nat (S (length args)) - 1)%Z with (Z.of_nat (length args)) by lia.
  rewrite parse_args_enc; [|exact Ha|].
  2:{ rewrite app_length. pose proof (length_enc_args_ge args). lia. }
  (* the request bytes with the lower-cased name *)
  set (P := (42 :: itoa_nat (S (length args))) ++ crlf ++ (36 :: itoa_nat (length name)) ++ crlf).
  assert (Hb : enc ++ rest = P ++ name ++ crlf ++ enc_args args ++ rest).
  { unfold enc, P. rewrite enc_request_shape, enc_bulk_shape, <- !app_assoc. reflexivity. }
  rewrite Hb.
  pose proof (splice P name (to_lower name) (enc_args args) rest (length_to_lower name)) as Hs.
  cbv zeta in Hs. rewrite Hs.
  assert (Hreq : P ++ to_lower name ++ crlf ++ enc_args args = enc_request (to_lower name :: args)).
  { unfold P. rewrite enc_request_shape, enc_bulk_shape, length_to_lower, <- !app_assoc. reflexivity. }
  rewrite Hreq.
  assert (Hcons : (length (P ++ name ++ crlf ++ enc_args args ++ rest) - length rest)%nat = length enc).
  { rewrite <- Hb, app_length. lia. }
  rewrite Hcons. unfold build_msg. fold enc.
  destruct (build (transform2type name (Z.of_nat (length args))) (Z.of_nat (length args)) args
                  (enc_request (to_lower name :: args))) as [[ty1 keys] body].
  reflexivity.
Qed.

(* shape inversion: whatever decode accepts starts with a canonical request encoding *)
Lemma decode_ok_shape limit b m n : decode limit b = DOk m n ->
  exists name args rest, b = enc_request (name :: args) ++ rest /\ wf_req name args.
Proof.
  unfold decode. destruct b as [|x xs]; [discriminate|]. set (b := x :: xs).
  destruct (read_line b) as [[line r0]|e] eqn:E; [|destruct e; discriminate].
  apply read_line_ok_inv in E as (Hb & _ & _).
  destruct line as [|mk digits]; [discriminate|].
  destruct (N.eqb_spec mk 42) as [->|]; [|discriminate]. cbn [negb].
  destruct (parse_len digits) as [cnt err] eqn:Ep.
  destruct (Z.ltb_spec cnt 1) as [Hc|Hc]; [discriminate|]. cbn [orb].
  destruct err as [e|]; [discriminate|]. cbn [is_some].
  apply parse_len_sound in Ep as [Hd Hlt]; [|lia].
  destruct (parse_line r0) as [[name r1]|e] eqn:E1; [|destruct e; discriminate].
  apply parse_line_ok_inv in E1 as (Hr0 & Hn).
  destruct (parse_args (S (length r1)) (cnt - 1) r1) as [[[args r2]|e]|] eqn:E2;
    [|destruct e; discriminate|discriminate].
  apply parse_args_ok_inv in E2 as (Hr1 & Ha & Hl).
  intros _. exists name, args, r2. split.
  - rewrite Hb, Hr0, Hr1, enc_request_shape. subst digits. unfold itoa_nat.
    replace (N.of_nat (S (length args))) with (Z.to_N cnt) by lia.
    rewrite <- !app_assoc. reflexivity.
  - repeat split; [exact Hn | exact Ha | lia].
Qed.

Theorem decode_sound limit b m n : decode limit b = DOk m n ->
  exists name args, wf_req name args /\
    b = enc_request (name :: args) ++ skipn n b /\
    n = length (enc_request (name :: args)) /\ m = build_msg limit name args.
Proof.
  intro H. destruct (decode_ok_shape _ _ _ _ H) as (name & args & rest & -> & Hwf).
  rewrite decode_complete in H by exact Hwf.
  assert (Hm : m = build_msg limit name args) by congruence.
  assert (Hn : n = length (enc_request (name :: args))) by congruence.
  subst m n. exists name, args. rewrite skipn_exact. auto.
Qed.

Theorem decode_ok_stable limit b e m n :
  decode limit b = DOk m n -> decode limit (b ++ e) = DOk m n.
Proof.
  intro H. destruct (decode_sound _ _ _ _ H) as (name & args & Hwf & Hb & -> & ->).
  rewrite Hb, <- app_assoc. apply decode_complete, Hwf.
Qed.

Theorem decode_close_stable limit b e :
  decode limit b = DClose -> decode limit (b ++ e) = DClose.
Proof.
  unfold decode. destruct b as [|x xs]; [discriminate|]. set (b := x :: xs).
  assert (Hbe : b ++ e = x :: (xs ++ e)) by reflexivity. rewrite Hbe, <- Hbe.
  destruct (read_line b) as [[line r0]|er] eqn:E.
  - rewrite (read_line_mono_ok _ e _ _ E).
    destruct line as [|mk digits]; [auto|].
    destruct (negb (mk =? 42)); [auto|].
    destruct (parse_len digits) as [cnt err].
    destruct ((cnt <? 1)%Z || is_some err)%bool; [auto|].
    destruct (parse_line r0) as [[name r1]|e1] eqn:E1.
    + rewrite (parse_line_mono_ok _ e _ _ E1).
      destruct (parse_args (S (length r1)) (cnt - 1) r1) as [[[args r2]|e2]|] eqn:E2.
      * destruct (build _ _ _ _) as [[? ?] ?]. discriminate.
      * destruct e2; try discriminate. intros _.
        assert (Hle : (S (length r1) <= S (length (r1 ++ e)))%nat) by (rewrite app_length; lia).
        rewrite (parse_args_mono_err _ _ _ e _ Hle E2).
        reflexivity.
      * discriminate.
    + destruct e1; try discriminate. intros _. rewrite (parse_line_mono_err _ e E1). reflexivity.
  - intro H.
    assert (Her : er = EInvalidResp \/ er = EBadLine) by (destruct er; try discriminate; auto).
    rewrite (read_line_mono_err _ e _ E Her). exact H.
Qed.

Theorem decode_no_crash limit b : decode limit b <> DCrash /\ decode limit b <> DHang.
Proof.
  unfold decode. destruct b as [|x xs]; [split; discriminate|]. set (b := x :: xs).
  destruct (read_line b) as [[line r0]|er]; [|destruct er; split; discriminate].
  destruct line as [|mk digits]; [split; discriminate|].
  destruct (negb (mk =? 42)); [split; discriminate|].
  destruct (parse_len digits) as [cnt err].
  destruct ((cnt <? 1)%Z || is_some err)%bool; [split; discriminate|].
  destruct (parse_line r0) as [[name r1]|e1]; [|destruct e1; split; discriminate].
  pose proof (parse_args_no_hang (S (length r1)) (cnt - 1) r1 ltac:(lia)) as Hh.
  destruct (parse_args (S (length r1)) (cnt - 1) r1) as [[[args r2]|e2]|]; [| |contradiction].
  - destruct (build _ _ _ _) as [[? ?] ?]. split; discriminate.
  - destruct e2; split; discriminate.
Qed.

(* a proper prefix of a canonical request is never an error and never a (shorter) request:
   the decoder waits *)
Theorem prefix_waits limit name args p q :
  wf_req name args -> enc_request (name :: args) = p ++ q -> q <> [] -> decode limit p = DWait.
Proof.
  intros Hwf Hpq Hq.
  pose proof (decode_complete limit name args [] Hwf) as Hfull. rewrite app_nil_r, Hpq in Hfull.
  destruct (decode limit p) as [| | | |m n] eqn:E; [reflexivity| | | |].
  - apply decode_close_stable with (e := q) in E. congruence.
  - exfalso. apply (proj1 (decode_no_crash limit p)), E.
  - exfalso. apply (proj2 (decode_no_crash limit p)), E.
  - pose proof (decode_ok_stable _ _ q _ _ E) as E'. rewrite Hfull in E'.
    assert (Hn : n = length (p ++ q)) by congruence.
    destruct (decode_sound _ _ _ _ E) as (nm & ar & _ & Hp & Hn' & _).
    assert (Hlen : (n <= length p)%nat).
    { rewrite Hp, app_length, <- Hn'. lia. }
    rewrite Hn, app_length in Hlen. destruct q; [contradiction | simpl in Hlen; lia].
Qed.
