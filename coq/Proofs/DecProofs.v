(* Decimal round trips: itoa produces canonical digits; the model's parse_digits (with Go's
   wrapping arithmetic) inverts it below 10^18; and every digit string parse_len accepts is
   the canonical itoa of its value. *)
From RcProxy Require Import Base.Bytes Base.Dec Model.RespBuf.
From Coq Require Import ZifyN ZifyNat ZifyBool.
Open Scope N_scope.

Ltac Zify.zify_post_hook ::= Z.div_mod_to_equations.

(* unwrapped decimal value *)
Definition dstep (a : N) (b : N) : N := a * 10 + (b - 48).
Definition dval (p : bytes) (acc : N) : N := fold_left dstep p acc.

Definition all_digits (p : bytes) : Prop := Forall (fun b => is_digit b = true) p.

Lemma is_digit_range b : is_digit b = true <-> 48 <= b <= 57.
Proof. unfold is_digit. rewrite andb_true_iff, !N.leb_le. tauto. Qed.

Lemma pow10_0 : 10 ^ N.of_nat 0 = 1.
Proof. reflexivity. Qed.
Lemma pow10_S f : 10 ^ N.of_nat (S f) = 10 * 10 ^ N.of_nat f.
Proof. rewrite Nat2N.inj_succ, N.pow_succ_r'. reflexivity. Qed.

Lemma pow10_18 : 10 ^ 18 = 1000000000000000000. Proof. reflexivity. Qed.

(* ---------- itoa ---------- *)
Lemma itoa_fuel_digits f n : all_digits (itoa_fuel f n).
Proof.
  revert n; induction f as [|f IH]; intro n; cbn [itoa_fuel]; [constructor|].
  destruct (N.ltb_spec n 10).
  - constructor; [|constructor]. apply is_digit_range. lia.
  - apply Forall_app; split; [apply IH|]. constructor; [|constructor]. apply is_digit_range. lia.
Qed.

Lemma itoa_fuel_dval f n : n < 10 ^ N.of_nat f -> dval (itoa_fuel f n) 0 = n.
Proof.
  revert n; induction f as [|f IH]; intros n Hn.
  - change (N.of_nat 0) with 0 in Hn. rewrite N.pow_0_r in Hn. assert (n = 0) by lia. subst. reflexivity.
  - cbn [itoa_fuel]. destruct (N.ltb_spec n 10).
    + unfold dval. cbn [fold_left]. unfold dstep. lia.
    + unfold dval. rewrite fold_left_app. fold (dval (itoa_fuel f (n / 10)) 0).
      rewrite IH.
      * cbn [fold_left]. unfold dstep. lia.
      * rewrite pow10_S in Hn. lia.
Qed.

Lemma itoa_fuel_nonempty f n : itoa_fuel (S f) n <> [].
Proof. cbn [itoa_fuel]. destruct (n <? 10); [discriminate|]. intro H. apply app_eq_nil in H. destruct H; discriminate. Qed.

(* fuel independence: any positive fuel with n < 10^fuel gives the same digits *)
Lemma itoa_fuel_indep f g n :
  n < 10 ^ N.of_nat (S f) -> n < 10 ^ N.of_nat (S g) -> itoa_fuel (S f) n = itoa_fuel (S g) n.
Proof.
  revert g n; induction f as [|f IH]; intros g n Hf Hg.
  - rewrite pow10_S, pow10_0 in Hf. cbn [itoa_fuel]. destruct (N.ltb_spec n 10); [reflexivity | lia].
  - cbn [itoa_fuel]. destruct (N.ltb_spec n 10); [reflexivity|].
    destruct g as [|g]; [rewrite pow10_S, pow10_0 in Hg; lia|].
    f_equal. apply IH.
    + rewrite pow10_S in Hf. lia.
    + rewrite pow10_S in Hg. lia.
Qed.

Lemma pow2_le_pow10 k : 2 ^ k <= 10 ^ k.
Proof. apply N.pow_le_mono_l. lia. Qed.

Lemma itoa_fuel_ok n : n < 10 ^ N.of_nat (S (N.to_nat (N.size n))).
Proof.
  rewrite Nat2N.inj_succ, N2Nat.id.
  apply N.lt_le_trans with (2 ^ N.succ (N.size n)); [|apply pow2_le_pow10].
  apply N.lt_le_trans with (2 ^ N.size n).
  - apply N.size_gt.
  - apply N.pow_le_mono_r; lia.
Qed.

Lemma itoa_dval n : dval (itoa n) 0 = n.
Proof. unfold itoa. apply itoa_fuel_dval, itoa_fuel_ok. Qed.

Lemma itoa_digits n : all_digits (itoa n).
Proof. apply itoa_fuel_digits. Qed.

Lemma itoa_nonempty n : itoa n <> [].
Proof. apply itoa_fuel_nonempty. Qed.

Lemma itoa_any_fuel f n : n < 10 ^ N.of_nat (S f) -> itoa n = itoa_fuel (S f) n.
Proof. intro H. unfold itoa. apply itoa_fuel_indep; [apply itoa_fuel_ok | exact H]. Qed.

Lemma itoa_small n : n < 10 -> itoa n = [48 + n].
Proof.
  intro H. rewrite (itoa_any_fuel 0) by (rewrite pow10_S, pow10_0; lia). cbn [itoa_fuel].
  destruct (N.ltb_spec n 10); [reflexivity | lia].
Qed.

Lemma itoa_step n : 10 <= n -> itoa n = itoa (n / 10) ++ [48 + n mod 10].
Proof.
  intro H. pose proof (itoa_fuel_ok n) as Hf.
  set (f := N.to_nat (N.size n)) in *.
  rewrite (itoa_any_fuel f) by exact Hf. cbn [itoa_fuel].
  destruct (N.ltb_spec n 10); [lia|]. f_equal.
  destruct f as [|f]; [rewrite pow10_S, pow10_0 in Hf; lia|].
  symmetry. apply itoa_any_fuel. rewrite pow10_S in Hf. lia.
Qed.

Lemma length_itoa_fuel f n : (length (itoa_fuel f n) <= f)%nat.
Proof.
  revert n; induction f as [|f IH]; intros n; cbn [itoa_fuel length]; [lia|].
  destruct (N.ltb_spec n 10); cbn [length]; [lia|].
  rewrite app_length. cbn [length]. specialize (IH (n / 10)). lia.
Qed.

Lemma length_itoa n f : n < 10 ^ N.of_nat (S f) -> (length (itoa n) <= S f)%nat.
Proof. intro H. rewrite (itoa_any_fuel f) by exact H. apply length_itoa_fuel. Qed.

(* first digit is not '0' unless the number is 0 *)
Lemma itoa_hd n : n <> 0 -> hd 0 (itoa n) <> 48.
Proof.
  induction n as [n IH] using (well_founded_induction N.lt_wf_0). intro Hn.
  destruct (N.ltb_spec n 10) as [H|H].
  - rewrite itoa_small by exact H. cbn [hd]. lia.
  - rewrite itoa_step by exact H.
    assert (Hq : n / 10 <> 0) by lia.
    specialize (IH (n / 10) ltac:(lia) Hq).
    pose proof (itoa_nonempty (n / 10)) as Hne.
    destruct (itoa (n / 10)) as [|d ds]; [contradiction|]. simpl in *. exact IH.
Qed.

Lemma itoa_0 : itoa 0 = [48].
Proof. reflexivity. Qed.

(* ---------- canonical digit strings are exactly the itoa images ---------- *)
Definition canonical (p : bytes) : Prop :=
  p <> [] /\ all_digits p /\ (hd 0 p = 48 -> p = [48]).

Lemma dval_app p q acc : dval (p ++ q) acc = dval q (dval p acc).
Proof. unfold dval. apply fold_left_app. Qed.

Lemma dval_pos p acc : all_digits p -> acc <> 0 -> dval p acc <> 0.
Proof.
  revert acc; induction p as [|b p IH]; intros acc Hd Ha; simpl; [exact Ha|].
  inversion Hd; subst. apply IH; [assumption|]. unfold dstep. lia.
Qed.

Lemma canonical_itoa_dval p : canonical p -> itoa (dval p 0) = p.
Proof.
  intros (Hne & Hd & Hz).
  induction p as [|d q IH] using rev_ind; [contradiction|].
  apply Forall_app in Hd as [Hq Hd1]. inversion Hd1 as [|x xs Hdd _]; subst.
  apply is_digit_range in Hdd.
  rewrite dval_app. simpl. unfold dstep at 1.
  destruct q as [|q0 q'].
  - simpl. rewrite itoa_small by lia. f_equal. lia.
  - assert (Hq0 : q0 <> 48).
    { intro E. subst. simpl in Hz. specialize (Hz eq_refl). destruct q'; discriminate. }
    assert (Hv : dval (q0 :: q') 0 <> 0).
    { simpl. apply dval_pos; [inversion Hq; assumption|].
      inversion Hq as [|y ys Hy _]; subst. apply is_digit_range in Hy. unfold dstep. lia. }
    rewrite itoa_step by lia.
    replace ((dval (q0 :: q') 0 * 10 + (d - 48)) / 10) with (dval (q0 :: q') 0) by lia.
    replace (48 + (dval (q0 :: q') 0 * 10 + (d - 48)) mod 10) with d by lia.
    f_equal. apply IH; [discriminate | exact Hq | intro E; simpl in E; contradiction].
Qed.

Lemma itoa_canonical n : canonical (itoa n).
Proof.
  split; [apply itoa_nonempty|]. split; [apply itoa_digits|].
  intro H. destruct (N.eq_dec n 0) as [->|Hn]; [reflexivity|].
  exfalso. revert H. apply itoa_hd, Hn.
Qed.

(* ---------- wrap64 is the identity on the int64 range ---------- *)
Lemma wrap64_id z : (-9223372036854775808 <= z < 9223372036854775808)%Z -> wrap64 z = z.
Proof. intro H. unfold wrap64. lia. Qed.

Lemma dval_bound p acc : all_digits p -> dval p acc < (acc + 1) * 10 ^ N.of_nat (length p).
Proof.
  revert acc; induction p as [|b p IH]; intros acc Hd.
  - cbn [length]. rewrite pow10_0. unfold dval. cbn [fold_left]. lia.
  - inversion Hd as [|x xs Hb Hp]; subst. apply is_digit_range in Hb.
    specialize (IH (dstep acc b) Hp).
    cbn [length]. rewrite pow10_S.
    unfold dval in *. cbn [fold_left].
    eapply N.lt_le_trans; [exact IH|]. unfold dstep.
    assert (acc * 10 + (b - 48) + 1 <= (acc + 1) * 10) by lia.
    nia.
Qed.

(* parse_digits agrees with dval while everything stays small *)
Lemma parse_digits_dval p acc :
  all_digits p -> (acc + 1) * 10 ^ N.of_nat (length p) <= 10 ^ 18 ->
  parse_digits p (Z.of_N acc) = (Z.of_N (dval p acc), None).
Proof.
  revert acc; induction p as [|b p IH]; intros acc Hd Hb; [reflexivity|].
  inversion Hd as [|x xs Hbd Hp]; subst. apply is_digit_range in Hbd.
  cbn [parse_digits].
  destruct (N.ltb_spec b 48); [lia|]. destruct (N.ltb_spec 57 b); [lia|]. cbn [orb].
  cbn [length] in Hb. rewrite pow10_S in Hb.
  assert (Hp10 : 1 <= 10 ^ N.of_nat (length p)) by (apply N.lt_pred_le, N.neq_0_lt_0, N.pow_nonzero; discriminate).
  assert (Hs : (dstep acc b + 1) * 10 ^ N.of_nat (length p) <= 10 ^ 18).
  { unfold dstep. assert (acc * 10 + (b - 48) + 1 <= (acc + 1) * 10) by lia. nia. }
  rewrite pow10_18 in *.
  assert (Hacc : acc * 10 + (b - 48) < 1000000000000000000) by (unfold dstep in Hs; nia).
  rewrite (wrap64_id (Z.of_N acc * 10)) by lia.
  rewrite wrap64_id by lia.
  replace (Z.of_N acc * 10 + Z.of_N (b - 48))%Z with (Z.of_N (dstep acc b)) by (unfold dstep; lia).
  unfold dval. cbn [fold_left]. fold (dval p (dstep acc b)).
  apply IH; assumption.
Qed.

Lemma parse_digits_err p acc e z : parse_digits p acc = (z, Some e) -> ~ all_digits p.
Proof.
  revert acc; induction p as [|b p IH]; intros acc H Hd; simpl in H; [discriminate|].
  inversion Hd as [|x xs Hb Hp]; subst. apply is_digit_range in Hb.
  destruct (N.ltb_spec b 48); [lia|]. destruct (N.ltb_spec 57 b); [lia|]. simpl in H.
  eapply IH; eauto.
Qed.

Lemma parse_digits_ok_digits p acc z : parse_digits p acc = (z, None) -> all_digits p.
Proof.
  revert acc; induction p as [|b p IH]; intros acc H; simpl in H; [constructor|].
  destruct ((b <? 48) || (57 <? b)) eqn:E; [discriminate|].
  apply orb_false_iff in E as [E1 E2]. apply N.ltb_ge in E1, E2.
  constructor; [apply is_digit_range; lia | eapply IH; eauto].
Qed.

(* ---------- parse_len ---------- *)
(* completeness: the canonical encoding of any n < 10^18 parses to n *)
Lemma parse_len_itoa n : n < 10 ^ 18 -> parse_len (itoa n) = (Z.of_N n, None).
Proof.
  intro Hn. pose proof (itoa_canonical n) as (Hne & Hd & Hz).
  pose proof (length_itoa n 17 Hn) as Hl.
  unfold parse_len. destruct (itoa n) as [|b0 r] eqn:E; [contradiction|].
  assert (Hminus : beqb (b0 :: r) [45; 49] = false).
  { apply beqb_neq. intro E'. inversion E'; subst. inversion Hd as [|x xs Hb _]; subst. discriminate. }
  rewrite Hminus.
  assert (Hlead : ((1 <? length (b0 :: r))%nat && (b0 =? 48)) = false).
  { destruct (N.eqb_spec b0 48) as [->|]; [|apply andb_false_r].
    simpl in Hz. specialize (Hz eq_refl). inversion Hz; subst. reflexivity. }
  rewrite Hlead. destruct (Nat.ltb_spec 18 (length (b0 :: r))); [lia|]. simpl orb.
  change 0%Z with (Z.of_N 0). rewrite parse_digits_dval.
  - rewrite <- E, itoa_dval. reflexivity.
  - exact Hd.
  - rewrite N.add_0_l, N.mul_1_l. apply N.pow_le_mono_r; lia.
Qed.

(* soundness: whatever parse_len accepts with a non-negative value is the canonical itoa *)
Lemma parse_len_sound p z : parse_len p = (z, None) -> (0 <= z)%Z ->
  p = itoa (Z.to_N z) /\ (z < 10 ^ 18)%Z.
Proof.
  unfold parse_len. destruct p as [|b0 r]; [discriminate|].
  destruct (beqb (b0 :: r) [45; 49]) eqn:Em; [intros H Hz; inversion H; lia|].
  destruct (((1 <? length (b0 :: r))%nat && (b0 =? 48)) || (18 <? length (b0 :: r))%nat) eqn:Eg; [discriminate|].
  apply orb_false_iff in Eg as [Eg1 Eg2]. apply Nat.ltb_ge in Eg2.
  intros H Hz. pose proof (parse_digits_ok_digits _ _ _ H) as Hd.
  change 0%Z with (Z.of_N 0) in H. rewrite parse_digits_dval in H.
  - assert (Hzz : z = Z.of_N (dval (b0 :: r) 0)) by congruence. subst z. rewrite N2Z.id.
    assert (Hc : canonical (b0 :: r)).
    { split; [discriminate|]. split; [exact Hd|]. simpl. intros ->.
      rewrite N.eqb_refl, andb_true_r in Eg1. apply Nat.ltb_ge in Eg1.
      destruct r; [reflexivity | simpl in Eg1; lia]. }
    split; [symmetry; apply canonical_itoa_dval, Hc|].
    pose proof (dval_bound (b0 :: r) 0 Hd) as Hb.
    assert (10 ^ N.of_nat (length (b0 :: r)) <= 10 ^ 18) by (apply N.pow_le_mono_r; lia).
    rewrite pow10_18 in *. lia.
  - exact Hd.
  - rewrite N.add_0_l, N.mul_1_l. apply N.pow_le_mono_r; lia.
Qed.

Lemma all_digits_no b p : all_digits p -> (b < 48 \/ 57 < b) -> ~ In b p.
Proof.
  intros Hd Hb Hin. unfold all_digits in Hd. rewrite Forall_forall in Hd.
  apply Hd in Hin. apply is_digit_range in Hin. lia.
Qed.
