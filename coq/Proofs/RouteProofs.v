(* Proofs for C04 / C20. *)
From RcProxy Require Import Base.Bytes Base.Dec Gen.Generated Spec.RespGrammar Spec.RouteSpec Spec.CommandSpec
  Model.Route Proofs.CommandsProofs.
Open Scope N_scope.

(* ---- membership and role ---- *)
Theorem route_member disable ty master slaves rnd :
  let '(addr, is_slave) := route disable ty master slaves rnd in
  (is_slave = false /\ addr = master) \/
  (is_slave = true /\ exists r, In r slaves /\ r_addr r = addr /\ live r = true) \/
  (is_slave = true /\ addr = [] /\ length (live_slaves slaves) <= rnd (length (live_slaves slaves)))%nat.
Proof.
  unfold route. destruct disable; [left; auto|].
  destruct (ReqWriteCmdStart <? ty); [left; auto|].
  destruct (_ || _ || _)%bool; [left; auto|].
  destruct (live_slaves slaves) as [|a ls] eqn:E; [left; auto|]. rewrite <- E.
  destruct (Nat.ltb_spec (rnd (length (live_slaves slaves))) (length (live_slaves slaves))) as [H|H].
  - right. left. split; [reflexivity|].
    pose proof (nth_In (live_slaves slaves) [] H) as Hin. unfold live_slaves in Hin at 2.
    apply in_map_iff in Hin as (r & Hr & Hf). apply filter_In in Hf as [Hin Hl]. exists r. auto.
  - right. right. split; [reflexivity|]. split; [apply nth_overflow; exact H | exact H].
Qed.

Theorem route_master_when disable ty master slaves rnd :
  disable = true \/ ReqWriteCmdStart < ty \/ ty = ReqHscan \/ ty = ReqSscan \/ ty = ReqZscan ->
  route disable ty master slaves rnd = (master, false).
Proof.
  unfold route. intros [->|[H|[->|[->| ->]]]]; [reflexivity| | | |]; destruct disable; try reflexivity.
  apply N.ltb_lt in H. rewrite H. reflexivity.
Qed.

(* ---- C20: every healthy replica is reachable, and the choice is injective in k ---- *)
Theorem route_spreads disable ty master slaves :
  disable = false -> ty <= ReqWriteCmdStart -> ty <> ReqHscan -> ty <> ReqSscan -> ty <> ReqZscan ->
  forall k, (k < length (live_slaves slaves))%nat ->
    route disable ty master slaves (fun _ => k) = (nth k (live_slaves slaves) [], true).
Proof.
  intros -> Hty H1 H2 H3 k Hk. unfold route.
  destruct (N.ltb_spec ReqWriteCmdStart ty); [lia|].
  apply N.eqb_neq in H1, H2, H3. rewrite H1, H2, H3. cbn [orb].
  destruct (live_slaves slaves) as [|a ls] eqn:E; [simpl in Hk; lia|]. reflexivity.
Qed.

Corollary every_live_replica_chosen disable ty master slaves r :
  disable = false -> ty <= ReqWriteCmdStart -> ty <> ReqHscan -> ty <> ReqSscan -> ty <> ReqZscan ->
  In r slaves -> live r = true ->
  exists k, (k < length (live_slaves slaves))%nat /\
            route disable ty master slaves (fun _ => k) = (r_addr r, true).
Proof.
  intros Hd Hty H1 H2 H3 Hin Hl.
  assert (Ha : In (r_addr r) (live_slaves slaves)).
  { unfold live_slaves. apply in_map. apply filter_In. auto. }
  apply (In_nth _ _ []) in Ha as (k & Hk & Hn). exists k. split; [exact Hk|].
  rewrite (route_spreads disable ty master slaves Hd Hty H1 H2 H3 k Hk). f_equal. exact Hn.
Qed.

(* ---- data: every command a replica can be asked to serve is read-only ---- *)
Theorem reads_before_marker_are_readonly :
  forall name t, assoc_b name CommandStr2Type = Some t -> t < ReqWriteCmdStart -> In name readonly_commands.
Proof.
  intros name t H Hlt. apply assoc_b_In in H.
  assert (Hall : forallb (fun p : bytes * N => (ReqWriteCmdStart <=? snd p) || mem (fst p) readonly_commands) CommandStr2Type = true)
    by (vm_compute; reflexivity).
  rewrite forallb_forall in Hall. specialize (Hall _ H). cbn [fst snd] in Hall.
  apply orb_true_iff in Hall as [Hge|Hm]; [apply N.leb_le in Hge; lia | apply mem_In, Hm].
Qed.

Theorem scripts_and_scans_go_to_master :
  ReqWriteCmdStart < ReqEval /\ ReqWriteCmdStart < ReqEvalsha /\
  assoc_b (bs "eval") CommandStr2Type = Some ReqEval /\ assoc_b (bs "evalsha") CommandStr2Type = Some ReqEvalsha /\
  assoc_b (bs "hscan") CommandStr2Type = Some ReqHscan /\ assoc_b (bs "sscan") CommandStr2Type = Some ReqSscan /\
  assoc_b (bs "zscan") CommandStr2Type = Some ReqZscan.
Proof. repeat split; vm_compute; reflexivity. Qed.

(* every command after the marker (all writes, and scripts) goes to the master *)
Theorem writes_after_marker : forall name t,
  assoc_b name CommandStr2Type = Some t -> ~ In name readonly_commands -> ReqWriteCmdStart < t.
Proof.
  intros name t H Hn. apply assoc_b_In in H.
  assert (Hall : forallb (fun p : bytes * N => (ReqWriteCmdStart <? snd p) || mem (fst p) readonly_commands) CommandStr2Type = true)
    by (vm_compute; reflexivity).
  rewrite forallb_forall in Hall. specialize (Hall _ H). cbn [fst snd] in Hall.
  apply orb_true_iff in Hall as [Hgt|Hm]; [apply N.ltb_lt, Hgt | apply mem_In in Hm; contradiction].
Qed.

(* ---- handshake bytes ---- *)
Theorem handshake_bytes password is_slave : password <> [] \/ password = [] ->
  fst (on_s_opened password is_slave)
  = (match password with [] => [] | _ => enc_request [bs "auth"; password] end)
    ++ (if is_slave then enc_request [bs "READONLY"] else []).
Proof.
  intros _. unfold on_s_opened. cbn [fst].
  assert (Ha : match password with [] => [] | _ :: _ => auth_cmd password end
               = match password with [] => [] | _ :: _ => enc_request [bs "auth"; password] end).
  { destruct password as [|p ps]; [reflexivity|]. unfold auth_cmd, enc_request, enc_bulk.
    cbn [map concat length]. rewrite <- !app_assoc. reflexivity. }
  rewrite Ha. destruct is_slave; reflexivity.
Qed.

Theorem handshake_steps password is_slave :
  snd (on_s_opened password is_slave)
  = ((if match password with [] => false | _ => true end then 1 else 0) + (if is_slave then 1 else 0))%Z.
Proof. unfold on_s_opened. destruct password; reflexivity. Qed.
