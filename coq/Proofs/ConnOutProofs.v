(* Conservation on the outbound side of a connection: whatever the kernel accepts and whenever,
   the bytes it has accepted followed by the backlog are exactly the bytes handed to write /
   writev, in order - nothing lost, duplicated or reordered by partial writes. *)
From RcProxy Require Import Base.Bytes Gen.Generated Model.Buffers Model.ConnOut Spec.FifoSpec
  Proofs.RingProofs Proofs.BufferProofs.
From Coq Require Import Arith Lia ZifyNat ZifyN ZifyBool NArith.
Local Open Scope nat_scope.

(* the connection has been handed [total]; [q] is the backlog *)
Definition coview (c : cout) (total : bytes) : Prop :=
  exists q, ebview (co_buf c) q /\ total = co_sock c ++ q.

Lemma drop_bytes_concat : forall bs sent, concat (drop_bytes sent bs) = skipn sent (concat bs).
Proof.
  induction bs as [|b r IH]; intro sent; cbn [drop_bytes concat]; [rewrite skipn_nil; reflexivity|].
  destruct (Nat.ltb_spec sent (length b)).
  - cbn [concat]. rewrite skipn_app_le by lia. reflexivity.
  - rewrite IH, skipn_app_ge by lia. reflexivity.
Qed.

Lemma concat_filter_nonempty' (l : list bytes) : concat (filter (fun b => negb (length b =? 0)) l) = concat l.
Proof. apply concat_filter_nonempty. Qed.

Lemma concat_firstn_prefix {A} (n : nat) (l : list (list A)) : exists rest, concat l = concat (firstn n l) ++ rest.
Proof.
  exists (concat (skipn n l)). rewrite <- concat_app, firstn_skipn. reflexivity.
Qed.

Theorem co_write_spec c total cap0 data k : coview c total -> small_size (length total + length data) ->
  coview (co_write c cap0 data k) (total ++ data).
Proof.
  intros (q & Hv & ->) Hs. unfold co_write. rewrite app_length in Hs.
  destruct (eb_is_empty (co_buf c)) eqn:Ee; cbn [negb].
  - apply (eb_is_empty_spec _ _ Hv) in Ee. subst q. rewrite app_nil_r in *. unfold accept.
    set (sent := Nat.min k (length data)).
    destruct (Nat.ltb_spec sent (length data)) as [Hlt|Hge]; cbn [co_sock co_buf].
    + exists ([] ++ skipn sent data). split.
      * cbn [co_sock co_buf]. apply eb_write_spec; [exact Hv|]. unfold small_size in *. cbn [length]. rewrite skipn_length. lia.
      * cbn [co_sock co_buf app]. rewrite <- app_assoc, firstn_skipn. reflexivity.
    + exists []. cbn [co_sock co_buf]. split; [exact Hv|]. rewrite app_nil_r, firstn_all2 by lia. reflexivity.
  - exists (q ++ data). cbn [co_sock co_buf]. split.
    + apply eb_write_spec; [exact Hv|]. unfold small_size in *. lia.
    + rewrite app_assoc. reflexivity.
Qed.

Theorem co_writev_spec c total cap0 bs k : coview c total -> small_size (length total + length (concat bs)) ->
  coview (co_writev c cap0 bs k) (total ++ concat bs).
Proof.
  intros (q & Hv & ->) Hs. unfold co_writev. rewrite app_length in Hs.
  destruct (eb_is_empty (co_buf c)) eqn:Ee; cbn [negb].
  - apply (eb_is_empty_spec _ _ Hv) in Ee. subst q. rewrite app_nil_r in *. unfold accept.
    set (sent := Nat.min k (length (concat bs))).
    destruct (Nat.ltb_spec sent (length (concat bs))) as [Hlt|Hge]; cbn [co_sock co_buf].
    + exists ([] ++ concat (drop_bytes sent bs)). split.
      * cbn [co_sock co_buf]. apply eb_writev_spec; [exact Hv|]. unfold small_size in *. cbn [length]. rewrite drop_bytes_concat, skipn_length. lia.
      * cbn [co_sock co_buf app]. rewrite drop_bytes_concat, <- app_assoc, firstn_skipn. reflexivity.
    + exists []. cbn [co_sock co_buf]. split; [exact Hv|]. rewrite app_nil_r, firstn_all2 by lia. reflexivity.
  - exists (q ++ concat bs). cbn [co_sock co_buf]. split.
    + apply eb_writev_spec; [exact Hv|]. unfold small_size in *. lia.
    + rewrite app_assoc. reflexivity.
Qed.

Theorem co_flush_spec c total k : coview c total -> coview (co_flush c k) total.
Proof.
  intros (q & Hv & ->). unfold co_flush.
  set (iov := firstn (N.to_nat iovMax) (filter (fun b => negb (length b =? 0)) (eb_peek (co_buf c) false 0))).
  (* what is offered to the kernel is a prefix of the backlog *)
  assert (Hpre : exists rest, q = concat iov ++ rest).
  { destruct (eb_peek_spec (co_buf c) q false 0 Hv) as (r0 & Hq & Hr). subst r0. rewrite app_nil_r in Hq.
    destruct (concat_firstn_prefix (N.to_nat iovMax) (filter (fun b => negb (length b =? 0)) (eb_peek (co_buf c) false 0))) as (rest & Hrest).
    exists rest. rewrite Hq, <- (concat_filter_nonempty' (eb_peek (co_buf c) false 0)). exact Hrest. }
  destruct Hpre as (rest & Hq).
  unfold accept. set (sent := Nat.min k (length (concat iov))).
  destruct (eb_discard (co_buf c) sent) as [d b'] eqn:Ed. destruct (eb_discard_spec _ _ _ _ _ Hv Ed) as [_ Hv'].
  exists (skipn sent q). cbn [co_sock co_buf snd]. split; [exact Hv'|].
  rewrite <- app_assoc. f_equal. rewrite Hq at 1. rewrite <- (firstn_skipn sent (concat iov ++ rest)) at 1.
  rewrite firstn_app_le by (unfold sent; lia). rewrite <- Hq. reflexivity.
Qed.

Definition co_init (maxb : nat) : cout := {| co_sock := []; co_buf := eb_new maxb |}.

Lemma co_init_view maxb : coview (co_init maxb) [].
Proof. exists []. split; [apply eb_new_view | reflexivity]. Qed.

Definition co_total (ops : list coop) : bytes := concat (map co_data ops).

(* for every sequence of writes, vectored writes and writable events, and every behaviour of the
   kernel: accepted bytes ++ backlog = everything written, in order *)
Theorem conn_conservation : forall ops c total, coview c total -> small_size (length total + length (co_total ops)) ->
  coview (fold_left co_step ops c) (total ++ co_total ops).
Proof.
  induction ops as [|op ops IH]; intros c total Hv Hs; cbn [fold_left co_total map concat].
  - rewrite app_nil_r. exact Hv.
  - unfold co_total in *. cbn [map concat] in Hs. rewrite app_length in Hs. rewrite app_assoc. apply IH.
    + destruct op as [cap0 d k|cap0 bs k|k]; cbn [co_step co_data].
      * apply co_write_spec; [exact Hv | unfold small_size in *; cbn [co_data] in Hs; lia].
      * apply co_writev_spec; [exact Hv | unfold small_size in *; cbn [co_data] in Hs; lia].
      * rewrite app_nil_r. apply co_flush_spec, Hv.
    + unfold small_size in *. rewrite app_length. lia.
Qed.

(* once the backlog is empty the peer has been given everything *)
Corollary drained_means_delivered ops maxb : small_size (length (co_total ops)) ->
  eb_is_empty (co_buf (fold_left co_step ops (co_init maxb))) = true ->
  co_sock (fold_left co_step ops (co_init maxb)) = co_total ops.
Proof.
  intros Hs He. destruct (conn_conservation ops (co_init maxb) [] (co_init_view maxb) Hs) as (q & Hv & Ht).
  apply (eb_is_empty_spec _ _ Hv) in He. subst q. rewrite app_nil_r in Ht. cbn [app] in Ht. symmetry. exact Ht.
Qed.
