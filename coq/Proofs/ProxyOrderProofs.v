(* Per-connection order (C10): on every backend connection, in every reachable state, the requests
   and fragments caused by one client appear - on the wire and then in the pending queue - in the
   order of that client's requests (redirected fragments, which are re-sent later by design,
   excepted). *)
From RcProxy Require Import Base.Bytes Base.Dec Gen.Generated Spec.RespGrammar
  Model.RespBuf Model.Commands Model.Crc16 Model.ClientCodec Model.ClientFeed Model.ServerCodec Model.Route
  Model.Cluster Model.Proxy Proofs.ProxyProofs Proofs.ProxyServerProofs Proofs.ProxyWireProofs.
From Coq Require Import ZifyN ZifyNat ZifyBool Permutation.
Open Scope N_scope.

(* (owner, request number) of a fragment, unless it has been redirected *)
Definition okey (st : pst) (f : fragref) : option (nat * nat) :=
  match f with
  | FProbe _ => None
  | FReq mid slot =>
      match lookup mid (msgs st) with
      | Some m => if existsb (N.eqb slot) (pm_moved m) then None else Some (pm_client m, pm_seq m)
      | None => None
      end
  end.

Definition sel (st : pst) (c : nat) (f : fragref) : list nat :=
  match okey st f with Some (c', x) => if Nat.eqb c' c then [x] else [] | None => [] end.
Definition seqs (st : pst) (c : nat) (l : list fragref) : list nat := flat_map (sel st c) l.

Fixpoint sorted (l : list nat) : Prop :=
  match l with [] => True | x :: r => Forall (fun y => (x <= y)%nat) r /\ sorted r end.

Definition wire (sv : pserver) : list fragref := map fst (ps_written sv) ++ ps_outq sv.

Definition Ord (st : pst) : Prop :=
  forall s sv c, lookup s (servers st) = Some sv -> sorted (seqs st c (wire sv)).
Definition Bnd (st : pst) : Prop :=
  forall s sv f c x, lookup s (servers st) = Some sv -> In f (wire sv) -> okey st f = Some (c, x) ->
    exists cl, lookup c (clients st) = Some cl /\ (x < pc_sent cl)%nat.
Definition OInv (st : pst) : Prop := Ord st /\ Bnd st.

(* ---------- sorted lists ---------- *)
Lemma sorted_app a b : sorted (a ++ b) <-> sorted a /\ sorted b /\ Forall (fun x => Forall (fun y => (x <= y)%nat) b) a.
Proof.
  induction a as [|x a IH]; cbn [app sorted].
  - split; [intro H; repeat split; [exact H | constructor] | intros (_ & H & _); exact H].
  - rewrite IH, Forall_app. split.
    + intros ((A & B) & C & D & E). repeat split; try assumption. constructor; assumption.
    + intros ((A & B) & C & D). inversion D; subst. repeat split; assumption.
Qed.

Lemma sorted_snoc l x : sorted l -> Forall (fun y => (y <= x)%nat) l -> sorted (l ++ [x]).
Proof.
  intros H1 H2. apply sorted_app. split; [exact H1|]. split; [cbn; split; [constructor | exact I]|].
  eapply Forall_impl; [|exact H2]. intros y Hy. constructor; [exact Hy | constructor].
Qed.

Lemma seqs_app st c a b : seqs st c (a ++ b) = seqs st c a ++ seqs st c b.
Proof. apply flat_map_app. Qed.

(* ---------- fragments keep or lose their key ---------- *)
Definition kext (st st' : pst) : Prop :=
  forall f, frag_known st f -> okey st' f = okey st f \/ okey st' f = None.
Definition cext (st st' : pst) : Prop :=
  forall c cl, lookup c (clients st) = Some cl -> exists cl', lookup c (clients st') = Some cl' /\ (pc_sent cl <= pc_sent cl')%nat.

Lemma kext_refl st : kext st st. Proof. intros f _. left; reflexivity. Qed.
Lemma cext_refl st : cext st st. Proof. intros c cl H. exists cl. split; [exact H | lia]. Qed.
Lemma cext_trans a b c : cext a b -> cext b c -> cext a c.
Proof. intros H1 H2 x cl H. destruct (H1 _ _ H) as (cl1 & A & B). destruct (H2 _ _ A) as (cl2 & C & D). exists cl2. split; [exact C | lia]. Qed.

Lemma sel_weaken st st' c f : okey st' f = okey st f \/ okey st' f = None -> sel st' c f = sel st c f \/ sel st' c f = [].
Proof. unfold sel. intros [->| ->]; auto. Qed.

Lemma forall_seqs_weaken st st' c P : forall l, Forall (frag_known st) l -> kext st st' ->
  Forall P (seqs st c l) -> Forall P (seqs st' c l).
Proof.
  induction l as [|f l IH]; intros Hk He H; cbn [seqs flat_map] in *; [constructor|].
  inversion Hk as [|? ? Hf Hl]; subst. apply Forall_app in H. destruct H as [A B]. apply Forall_app. split; [|apply IH; assumption].
  destruct (sel_weaken st st' c f (He f Hf)) as [-> | ->]; [exact A | constructor].
Qed.

Lemma sorted_seqs_weaken st st' c : forall l, Forall (frag_known st) l -> kext st st' ->
  sorted (seqs st c l) -> sorted (seqs st' c l).
Proof.
  induction l as [|f l IH]; intros Hk He H; cbn [seqs flat_map] in *; [exact I|].
  inversion Hk as [|? ? Hf Hl]; subst. apply sorted_app in H. destruct H as (A & B & C).
  apply sorted_app. fold (seqs st' c l). fold (seqs st c l) in *.
  destruct (sel_weaken st st' c f (He f Hf)) as [E | E]; rewrite E.
  - split; [exact A|]. split; [apply IH; assumption|].
    eapply Forall_impl; [|exact C]. intros x Hx. eapply forall_seqs_weaken; eassumption.
  - split; [exact I|]. split; [apply IH; assumption | constructor].
Qed.

Lemma wire_known st s sv : WInv st -> lookup s (servers st) = Some sv -> Forall (frag_known st) (wire sv).
Proof.
  intros [H _] Hs. destruct (H s sv Hs) as (A & B & _). unfold wire. apply Forall_app. split; [|exact A].
  apply Forall_forall. intros f Hf. apply in_map_iff in Hf. destruct Hf as ([g b] & <- & Hin).
  rewrite Forall_forall in B. apply (B _ Hin).
Qed.

(* states with the same connections: the invariant follows from kext and cext *)
Lemma OInv_same_servers st st' : WInv st -> servers st' = servers st -> kext st st' -> cext st st' -> OInv st -> OInv st'.
Proof.
  intros HW Es Hk Hc [HO HB]. split.
  - intros s sv c Hs. rewrite Es in Hs. eapply sorted_seqs_weaken; [eapply wire_known; eassumption | exact Hk | apply (HO s sv c Hs)].
  - intros s sv f c x Hs Hin Hkey. rewrite Es in Hs.
    assert (Hkn : frag_known st f).
    { pose proof (wire_known st s sv HW Hs) as Hall. rewrite Forall_forall in Hall. apply Hall, Hin. }
    destruct (Hk f Hkn) as [E|E]; rewrite E in Hkey; [|discriminate].
    destruct (HB s sv f c x Hs Hin Hkey) as (cl & A & B). destruct (Hc _ _ A) as (cl' & C & D). exists cl'. split; [exact C | lia].
Qed.

(* ---------- key-preserving message updates ---------- *)
Lemma kext_msgs st st' : msgs st' = msgs st -> kext st st'.
Proof. intros E f _. left. unfold okey. rewrite E. reflexivity. Qed.

Lemma kext_set_msg st mid m m' : lookup mid (msgs st) = Some m ->
  pm_client m' = pm_client m -> pm_seq m' = pm_seq m -> (forall sl, existsb (N.eqb sl) (pm_moved m) = true -> existsb (N.eqb sl) (pm_moved m') = true) ->
  kext st (set_msg st mid m').
Proof.
  intros Hl A B C f _. destruct f as [|x slot]; [left; reflexivity|]. unfold okey. cbn [set_msg msgs]. rewrite lookup_update.
  destruct (Nat.eqb_spec x mid) as [->|]; [|left; reflexivity]. rewrite Hl.
  destruct (existsb (N.eqb slot) (pm_moved m)) eqn:E.
  - rewrite (C _ E). left; reflexivity.
  - destruct (existsb (N.eqb slot) (pm_moved m')); [right; reflexivity | left; rewrite A, B; reflexivity].
Qed.

Lemma kext_fail_msg st mid e : kext st (fail_msg st mid e).
Proof.
  unfold fail_msg. destruct (lookup mid (msgs st)) as [m|] eqn:E; [|apply kext_refl].
  eapply kext_set_msg; [exact E | reflexivity | reflexivity | auto].
Qed.
Lemma kext_mark_moved st mid slot : kext st (mark_moved st mid slot).
Proof.
  unfold mark_moved. destruct (lookup mid (msgs st)) as [m|] eqn:E; [|apply kext_refl].
  eapply kext_set_msg; [exact E | reflexivity | reflexivity|]. intros sl H. cbn [pm_moved existsb]. rewrite H. apply Bool.orb_true_r.
Qed.
Lemma kext_new_msg st pm : bounded st -> kext st (bump_mid (set_msg st (next_mid st) pm)).
Proof.
  intros Hb f Hk. destruct f as [|x slot]; [left; reflexivity|]. left. unfold okey. cbn [bump_mid set_msg msgs]. rewrite lookup_update.
  destruct (Nat.eqb_spec x (next_mid st)) as [->|]; [|reflexivity].
  destruct Hk as (m & Hm). apply Hb in Hm. lia.
Qed.

Lemma kext_trans a b c : (forall f, frag_known a f -> frag_known b f) -> kext a b -> kext b c -> kext a c.
Proof.
  intros Hkn H1 H2 f Hf. destruct (H1 f Hf) as [E1|E1]; destruct (H2 f (Hkn f Hf)) as [E2|E2]; rewrite ?E2, ?E1; auto.
Qed.

(* ---------- clients only move forward ---------- *)
Lemma cext_clients st st' : clients st' = clients st -> cext st st'.
Proof. intros E c cl H. exists cl. rewrite E. split; [exact H | lia]. Qed.

Lemma cext_set_client st c x :
  (forall cl, lookup c (clients st) = Some cl -> (pc_sent cl <= pc_sent x)%nat) -> cext st (set_client st c x).
Proof.
  intros H y cl Hl. cbn [set_client clients]. rewrite lookup_update. destruct (Nat.eqb_spec y c) as [->|].
  - exists x. split; [reflexivity | apply H, Hl].
  - exists cl. split; [exact Hl | lia].
Qed.

Lemma cext_flush_done st c : cext st (flush_done st c).
Proof.
  unfold flush_done. destruct (lookup c (clients st)) as [cl|] eqn:E; [|apply cext_refl].
  destruct (done_prefix st (pc_queue cl)) as [d rest]. destruct d; [apply cext_refl|].
  apply cext_set_client. intros cl0 H. rewrite E in H. inversion H; subst. cbn [pc_sent]. lia.
Qed.
Lemma cext_flush_if_open st c : cext st (flush_if_open st c).
Proof.
  unfold flush_if_open. destruct (lookup c (clients st)); [|apply cext_refl]. destruct (pc_open p); [apply cext_flush_done | apply cext_refl].
Qed.
Lemma cext_close_client st c : cext st (close_client st c).
Proof.
  unfold close_client. destruct (lookup c (clients st)) as [cl|] eqn:E; [|apply cext_refl].
  destruct (pc_open cl); [|apply cext_refl]. apply cext_set_client. intros cl0 H. rewrite E in H. inversion H; subst. cbn [pc_sent]. lia.
Qed.

(* ---------- the relation for operations that leave the connections alone ---------- *)
Definition rel (st st' : pst) : Prop :=
  bounded st -> servers st' = servers st /\ msg_ext (msgs st) (msgs st') /\ bounded st' /\ kext st st' /\ cext st st'.

Lemma rel_of st st' : wext st st' -> kext st st' -> cext st st' -> rel st st'.
Proof. intros W K C Hb. destruct (W Hb) as (A & B & D). repeat split; assumption. Qed.

Lemma rel_refl st : rel st st.
Proof. apply rel_of; [apply wext_refl | apply kext_refl | apply cext_refl]. Qed.

Lemma rel_trans a b c : rel a b -> rel b c -> rel a c.
Proof.
  intros H1 H2 Hb. destruct (H1 Hb) as (A1 & B1 & C1 & D1 & E1). destruct (H2 C1) as (A2 & B2 & C2 & D2 & E2).
  split; [congruence|]. split; [eapply msg_ext_trans; eassumption|]. split; [exact C2|]. split.
  - eapply kext_trans; [|exact D1 | exact D2]. intros f. apply frag_known_ext, B1.
  - eapply cext_trans; eassumption.
Qed.

Lemma OInv_rel st st' : WInv st -> rel st st' -> OInv st -> OInv st'.
Proof.
  intros HW R H. destruct HW as [HW1 HW2]. destruct (R HW2) as (A & B & C & D & E).
  apply (OInv_same_servers st st'); try assumption. split; assumption.
Qed.

Lemma rel_same st st' : servers st' = servers st -> msgs st' = msgs st -> next_mid st' = next_mid st -> clients st' = clients st -> rel st st'.
Proof. intros A B C D. apply rel_of; [apply wext_same_msgs; assumption | apply kext_msgs, B | apply cext_clients, D]. Qed.

Lemma rel_set_tasks st x : rel st (set_tasks st x). Proof. apply rel_same; reflexivity. Qed.
Lemma rel_set_inflight st x : rel st (set_inflight st x). Proof. apply rel_same; reflexivity. Qed.
Lemma rel_set_pools st x : rel st (set_pools st x). Proof. apply rel_same; reflexivity. Qed.

Lemma rel_set_client st c x : (forall cl, lookup c (clients st) = Some cl -> (pc_sent cl <= pc_sent x)%nat) -> rel st (set_client st c x).
Proof. intro H. apply rel_of; [apply wext_set_client | apply kext_msgs; reflexivity | apply cext_set_client, H]. Qed.

Lemma rel_flush_done st c : rel st (flush_done st c).
Proof. apply rel_of; [apply wext_flush_done | apply kext_msgs, flush_done_msgs | apply cext_flush_done]. Qed.
Lemma rel_flush_if_open st c : rel st (flush_if_open st c).
Proof. apply rel_of; [apply wext_flush_if_open | apply kext_msgs, flush_if_open_msgs | apply cext_flush_if_open]. Qed.
Lemma close_client_msgs st c : msgs (close_client st c) = msgs st.
Proof. unfold close_client. destruct (lookup c (clients st)); [|reflexivity]. destruct (pc_open p); reflexivity. Qed.
Lemma rel_close_client st c : rel st (close_client st c).
Proof. apply rel_of; [apply wext_close_client | apply kext_msgs, close_client_msgs | apply cext_close_client]. Qed.
Lemma fail_msg_clients st mid e : clients (fail_msg st mid e) = clients st.
Proof. unfold fail_msg. destruct (lookup mid (msgs st)); reflexivity. Qed.
Lemma rel_fail_msg st mid e : rel st (fail_msg st mid e).
Proof. apply rel_of; [apply wext_fail_msg | apply kext_fail_msg | apply cext_clients, fail_msg_clients]. Qed.
Lemma rel_mark_moved st mid slot : rel st (mark_moved st mid slot).
Proof.
  apply rel_of; [apply wext_mark_moved | apply kext_mark_moved|]. apply cext_clients.
  unfold mark_moved. destruct (lookup mid (msgs st)); reflexivity.
Qed.
Lemma rel_fail_and_flush st mid e :
  rel st (match lookup mid (msgs (fail_msg st mid e)) with
          | Some m => flush_if_open (fail_msg st mid e) (pm_client m) | None => fail_msg st mid e end).
Proof.
  destruct (lookup mid (msgs (fail_msg st mid e))).
  - eapply rel_trans; [apply rel_fail_msg | apply rel_flush_if_open].
  - apply rel_fail_msg.
Qed.
Lemma rel_fail_frags : forall fs st, rel st (fail_frags st fs).
Proof.
  induction fs as [|f fs IH]; intro st; cbn [fail_frags]; [apply rel_refl|].
  destruct f as [|mid slot]; [apply IH|]. destruct (frag_done st mid slot); [apply IH|].
  eapply rel_trans; [apply (rel_fail_and_flush st mid ErrUnKnownProxyPoolConnError) | apply IH].
Qed.
Lemma rel_expire : forall l st, rel st (expire st l).
Proof.
  induction l as [|[s f] l IH]; intro st; cbn [expire]; [apply rel_refl|].
  destruct f as [|mid slot]; [apply IH|]. destruct (frag_done st mid slot); [apply IH|].
  eapply rel_trans; [apply (rel_fail_and_flush st mid ErrMsgRequestTimeout) | apply IH].
Qed.

Lemma rel_new_msg st pm : rel st (bump_mid (set_msg st (next_mid st) pm)).
Proof.
  intro Hb. destruct (wext_new_msg st pm Hb) as (A & B & C). repeat split; try assumption.
  - apply kext_new_msg, Hb.
  - apply cext_clients. reflexivity.
Qed.

Lemma rel_local_reply st c m out close : rel st (local_reply st c m out close).
Proof.
  unfold local_reply. destruct (lookup c (clients st)) as [cl|] eqn:Ec; [|apply rel_refl].
  destruct (pc_queue cl) as [|q0 qs].
  - assert (R1 : rel st (set_client st c {| pc_open := pc_open cl; pc_left := pc_left cl; pc_queue := []; pc_got := pc_got cl ++ out;
                    pc_sent := S (pc_sent cl); pc_hist := pc_hist cl ++ [(pc_sent cl, out)]; pc_closing := pc_closing cl |})).
    { apply rel_set_client. intros cl0 H. rewrite Ec in H. inversion H; subst. cbn [pc_sent]. lia. }
    destruct close; [eapply rel_trans; [exact R1 | apply rel_close_client] | exact R1].
  - match goal with |- rel st (if close then match lookup c (clients ?x) with _ => _ end else _) => set (st1 := x) end.
    assert (R1 : rel st st1).
    { unfold st1. eapply rel_trans; [apply rel_new_msg|]. apply rel_set_client.
      intros cl0 H. cbn [bump_mid set_msg clients] in H. rewrite Ec in H. inversion H; subst. cbn [pc_sent]. lia. }
    destruct close; [|exact R1].
    destruct (lookup c (clients st1)) as [cl1|] eqn:E1; [|exact R1].
    eapply rel_trans; [exact R1|]. apply rel_set_client. intros cl0 H. rewrite E1 in H. inversion H; subst. cbn [pc_sent]. lia.
Qed.

(* ---------- connections ---------- *)
Lemma wire_enqueue sv f :
  wire {| ps_open := ps_open sv; ps_addr := ps_addr sv; ps_slave := ps_slave sv; ps_initializing := ps_initializing sv;
          ps_step := ps_step sv; ps_left := ps_left sv; ps_outq := ps_outq sv ++ [f]; ps_inq := ps_inq sv; ps_got := ps_got sv;
          ps_written := ps_written sv; ps_taken := ps_taken sv |} = wire sv ++ [f].
Proof. unfold wire. cbn [ps_written ps_outq]. apply app_assoc. Qed.

Lemma okey_servers st st' f : msgs st' = msgs st -> okey st' f = okey st f.
Proof. intro E. unfold okey. rewrite E. reflexivity. Qed.
Lemma seqs_msgs st st' c l : msgs st' = msgs st -> seqs st' c l = seqs st c l.
Proof. intro E. unfold seqs, sel. apply flat_map_ext. intro f. rewrite (okey_servers st st' f E). reflexivity. Qed.

(* replacing the record of one connection: the invariant needs only the new wire *)
Lemma OInv_set_server st s sv' :
  OInv st ->
  (forall c, sorted (seqs st c (wire sv'))) ->
  (forall f c x, In f (wire sv') -> okey st f = Some (c, x) -> exists cl, lookup c (clients st) = Some cl /\ (x < pc_sent cl)%nat) ->
  OInv (set_server st s sv').
Proof.
  intros [HO HB] H1 H2. split.
  - intros x svx c Hl. cbn [set_server servers] in Hl. rewrite lookup_update in Hl.
    rewrite (seqs_msgs st) by reflexivity.
    destruct (Nat.eqb_spec x s) as [->|]; [inversion Hl; subst; apply H1 | apply (HO x svx c Hl)].
  - intros x svx f c y Hl Hin Hk. cbn [set_server servers] in Hl. rewrite lookup_update in Hl.
    rewrite (okey_servers st) in Hk by reflexivity.
    destruct (Nat.eqb_spec x s) as [->|]; [inversion Hl; subst; eapply H2; eassumption | eapply HB; eassumption].
Qed.

(* queueing a fragment without a key (a redirected fragment, a probe) *)
Lemma enqueue_none st s f : okey st f = None -> OInv st -> OInv (enqueue_out st s f).
Proof.
  intros Hn H. unfold enqueue_out. destruct (lookup s (servers st)) as [sv|] eqn:Hs; [|exact H].
  assert (Hst : forall x, OInv x -> OInv (set_tasks x (tasks x ++ [TWrite s]))).
  { intros x [A B]. split; [exact A | exact B]. }
  apply Hst. destruct H as [HO HB]. apply OInv_set_server; [split; assumption| |].
  - intro c. rewrite wire_enqueue, seqs_app. assert (E : seqs st c [f] = []) by (cbn [seqs flat_map]; unfold sel; rewrite Hn; reflexivity).
    rewrite E, app_nil_r. apply (HO s sv c Hs).
  - intros g c x Hin Hk. rewrite wire_enqueue in Hin. apply in_app_or in Hin. destruct Hin as [Hin|[<-|[]]]; [eapply HB; eassumption | congruence].
Qed.

(* ---------- dialling ---------- *)
Lemma OInv_frame st st' : servers st' = servers st -> msgs st' = msgs st -> clients st' = clients st -> OInv st -> OInv st'.
Proof.
  intros A B C [HO HB]. split.
  - intros s sv c Hs. rewrite A in Hs. rewrite (seqs_msgs st st') by exact B. apply (HO s sv c Hs).
  - intros s sv f c x Hs Hin Hk. rewrite A in Hs. rewrite (okey_servers st st') in Hk by exact B. rewrite C. eapply HB; eassumption.
Qed.

Lemma dial_oinv st p st' s : OInv st -> dial st p = Some (st', s) -> OInv st'.
Proof.
  intros H. unfold dial. destruct (pp_dialable p); [|discriminate].
  destruct (on_s_opened (cf_password (cfg st)) (pp_slave p)) as [hs step]. intro E. inversion E; subst. clear E.
  match goal with |- OInv (bump_sid ?x) => apply (OInv_frame x); try reflexivity end.
  apply OInv_set_server; [exact H | intro c; exact I | intros f c x []].
Qed.

Lemma pool_get_oinv st p st' r : OInv st -> pool_get st p = (st', r) -> OInv st'.
Proof.
  intros H. unfold pool_get. destruct (pp_closed p); [intro E; inversion E; subst; exact H|].
  assert (Hd : forall st1 s conns', dial st p = Some (st1, s) -> OInv (set_pools st1 (replace_pool (pools st1) (with_conns p conns')))).
  { intros st1 s conns' Ed. apply (OInv_frame st1); try reflexivity. eapply dial_oinv; eassumption. }
  destruct (length (pp_conns p) <? cf_max_active (cfg st))%nat.
  - destruct (dial st p) as [[st1 s]|] eqn:Ed; intro E; inversion E; subst; [eapply Hd; reflexivity | exact H].
  - destruct (rotate st (S (length (pp_conns p))) (pp_conns p)) as [[[s conns']|] conns''].
    + intro E; inversion E; subst. apply (OInv_frame st); try reflexivity. exact H.
    + destruct (dial st p) as [[st1 s]|] eqn:Ed; intro E; inversion E; subst; [eapply Hd; reflexivity|].
      apply (OInv_frame st); try reflexivity. exact H.
Qed.

Lemma resolve_oinv body : forall st st' r, OInv st -> resolve st body = (st', r) -> OInv st'.
Proof.
  induction body as [|[slot f] rest IH]; intros st st' r H; cbn [resolve].
  - intro E; inversion E; subst; exact H.
  - destruct f as [addr|]; [|intro E; inversion E; subst; exact H].
    destruct (find_pool st addr) as [p|]; [|intro E; inversion E; subst; exact H].
    destruct (pool_get st p) as [st1 [s|]] eqn:Eg; pose proof (pool_get_oinv _ _ _ _ H Eg) as H1.
    + destruct (resolve st1 rest) as [st2 [l|e]] eqn:Er; pose proof (IH _ _ _ H1 Er) as H2; intro E; inversion E; subst; exact H2.
    + intro E; inversion E; subst; exact H1.
Qed.

(* ---------- OnCReact: the fragments of a new request go to the tails ---------- *)
Definition Bnd_le (st : pst) (c n : nat) : Prop :=
  forall s sv f c0 x, lookup s (servers st) = Some sv -> In f (wire sv) -> okey st f = Some (c0, x) ->
    if Nat.eqb c0 c then (x <= n)%nat else exists cl, lookup c0 (clients st) = Some cl /\ (x < pc_sent cl)%nat.

Lemma seqs_bound st c n s sv : Bnd_le st c n -> lookup s (servers st) = Some sv -> Forall (fun y => (y <= n)%nat) (seqs st c (wire sv)).
Proof.
  intros HB Hs. unfold seqs. apply Forall_forall. intros y Hy. apply in_flat_map in Hy. destruct Hy as (f & Hin & Hy).
  unfold sel in Hy. destruct (okey st f) as [[c0 x]|] eqn:Ek; [|destruct Hy].
  destruct (Nat.eqb_spec c0 c) as [->|]; [|destruct Hy]. destruct Hy as [<-|[]].
  specialize (HB s sv f c x Hs Hin Ek). rewrite Nat.eqb_refl in HB. exact HB.
Qed.

Lemma enqueue_new st s mid slot c n m : Ord st -> Bnd_le st c n ->
  lookup mid (msgs st) = Some m -> pm_client m = c -> pm_seq m = n -> pm_moved m = [] ->
  Ord (enqueue_out st s (FReq mid slot)) /\ Bnd_le (enqueue_out st s (FReq mid slot)) c n.
Proof.
  intros HO HB Hm Hc Hn Hmv. unfold enqueue_out. destruct (lookup s (servers st)) as [sv|] eqn:Hs; [|split; assumption].
  assert (Hkey : okey st (FReq mid slot) = Some (c, n)).
  { unfold okey. rewrite Hm, Hmv. cbn [existsb]. rewrite Hc, Hn. reflexivity. }
  split.
  - intros x svx c' Hl. cbn [set_tasks set_server servers] in Hl. rewrite lookup_update in Hl.
    rewrite (seqs_msgs st) by reflexivity.
    destruct (Nat.eqb_spec x s) as [->|]; [|apply (HO x svx c' Hl)]. inversion Hl; subst svx.
    rewrite wire_enqueue, seqs_app.
    assert (E1 : seqs st c' [FReq mid slot] = if Nat.eqb c c' then [n] else []).
    { cbn [seqs flat_map]. unfold sel. rewrite Hkey, app_nil_r. reflexivity. }
    rewrite E1. destruct (Nat.eqb_spec c c') as [<-|Hne].
    + apply sorted_snoc; [apply (HO s sv c Hs) | eapply seqs_bound; eassumption].
    + rewrite app_nil_r. apply (HO s sv c' Hs).
  - intros x svx f c0 y Hl Hin Hk. cbn [set_tasks set_server servers] in Hl. rewrite lookup_update in Hl.
    rewrite (okey_servers st) in Hk by reflexivity. cbn [set_tasks set_server clients].
    destruct (Nat.eqb_spec x s) as [->|]; [|apply (HB x svx f c0 y Hl Hin Hk)]. inversion Hl; subst svx.
    rewrite wire_enqueue in Hin. apply in_app_or in Hin. destruct Hin as [Hin|[<-|[]]]; [apply (HB s sv f c0 y Hs Hin Hk)|].
    rewrite Hkey in Hk. inversion Hk; subst. rewrite Nat.eqb_refl. lia.
Qed.

Lemma fold_enqueue_new mid c n m : forall targets st, Ord st -> Bnd_le st c n ->
  lookup mid (msgs st) = Some m -> pm_client m = c -> pm_seq m = n -> pm_moved m = [] ->
  Ord (fold_left (fun s (t : N * nat) => enqueue_out s (snd t) (FReq mid (fst t))) targets st) /\
  Bnd_le (fold_left (fun s (t : N * nat) => enqueue_out s (snd t) (FReq mid (fst t))) targets st) c n.
Proof.
  induction targets as [|t ts IH]; intros st HO HB Hm Hc Hn Hmv; cbn [fold_left]; [split; assumption|].
  destruct (enqueue_new st (snd t) mid (fst t) c n m HO HB Hm Hc Hn Hmv) as [HO1 HB1].
  apply IH; try assumption.
  destruct (same_cm_enqueue_out st (snd t) (FReq mid (fst t))) as (_ & E & _). rewrite E. exact Hm.
Qed.

Lemma on_request_oinv st c cl m : lookup c (clients st) = Some cl -> WInv st -> OInv st -> OInv (on_request st c m).
Proof.
  intros Hc HW H. unfold on_request.
  do 5 match goal with
       | |- OInv (if ?b then _ else _) => destruct b; [eapply OInv_rel; [exact HW | apply rel_local_reply | exact H]|]
       end.
  destruct (cm_type m =? ReqAuth).
  - destruct (cf_password (cfg st)); [eapply OInv_rel; [exact HW | apply rel_local_reply | exact H]|].
    destruct (cm_body m) as [|[s0 f0] body]; [exact H|].
    destruct (beqb _ _); (eapply OInv_rel; [exact HW | apply rel_local_reply | exact H]).
  - destruct (resolve st (route_plan st (cm_type m) (by_slot (cm_body m)))) as [st1 [targets|e]] eqn:Er.
    2:{ eapply OInv_rel; [exact HW | apply rel_local_reply | exact H]. }
    pose proof (resolve_oinv _ _ _ _ H Er) as H1. destruct (resolve_winv _ _ _ _ HW Er) as (W1 & _).
    pose proof (same_cm_resolve (route_plan st (cm_type m) (by_slot (cm_body m))) st) as Hcm. rewrite Er in Hcm. cbn [fst] in Hcm. destruct Hcm as (Ecl & _ & _).
    assert (Hc1 : lookup c (clients st1) = Some cl) by (rewrite Ecl; exact Hc). rewrite Hc1.
    set (mid := next_mid st1).
    match goal with |- context [set_msg st1 mid ?x] => set (pm := x) end.
    set (st2 := bump_mid (set_msg st1 mid pm)).
    assert (H2 : OInv st2) by (eapply OInv_rel; [exact W1 | apply rel_new_msg | exact H1]).
    assert (Hm2 : lookup mid (msgs st2) = Some pm) by (unfold st2; cbn [bump_mid set_msg msgs]; apply lookup_update_eq).
    assert (HB2 : Bnd_le st2 c (pc_sent cl)).
    { destruct H2 as [_ HB]. intros s sv f c0 x Hs Hin Hk. destruct (HB s sv f c0 x Hs Hin Hk) as (cl0 & A & B).
      destruct (Nat.eqb_spec c0 c) as [->|]; [|eauto]. cbn [st2 bump_mid set_msg clients] in A. rewrite Hc1 in A. inversion A; subst. lia. }
    destruct (fold_enqueue_new mid c (pc_sent cl) pm targets st2 (proj1 H2) HB2 Hm2 eq_refl eq_refl eq_refl) as [HO3 HB3].
    match goal with |- OInv (match lookup c (clients ?x) with _ => _ end) => set (st3 := x) in * end.
    destruct (fold_enqueue_same targets mid st2) as (Ecl3 & Emsg3 & _). fold st3 in Ecl3, Emsg3.
    assert (Hc3 : lookup c (clients st3) = Some cl) by (rewrite Ecl3; exact Hc1). rewrite Hc3.
    split.
    + intros s sv c' Hs. cbn [set_client servers] in Hs. rewrite (seqs_msgs st3) by reflexivity. apply (HO3 s sv c' Hs).
    + intros s sv f c0 x Hs Hin Hk. cbn [set_client servers] in Hs. rewrite (okey_servers st3) in Hk by reflexivity.
      specialize (HB3 s sv f c0 x Hs Hin Hk). cbn [set_client clients]. rewrite lookup_update.
      destruct (Nat.eqb_spec c0 c) as [->|]; [eexists; split; [reflexivity | cbn [pc_sent]; lia] | exact HB3].
Qed.

Lemma client_loop_oinv : forall fuel st c buf, WInv st -> OInv st -> OInv (client_loop fuel st c buf).
Proof.
  induction fuel as [|f IH]; intros st c buf HW H; cbn [client_loop]; [exact H|].
  destruct (lookup c (clients st)) as [cl|] eqn:Ec; [|exact H].
  destruct (negb (pc_open cl) || pc_closing cl)%bool; [exact H|].
  destruct (decode (cf_limit (cfg st)) buf) as [| | | |m n]; try exact H.
  - apply (OInv_rel st); [exact HW | | exact H]. apply rel_set_client. intros cl0 E. rewrite Ec in E. inversion E; subst. cbn [pc_sent]. lia.
  - apply (OInv_rel st); [exact HW | apply rel_close_client | exact H].
  - apply IH; [apply on_request_winv, HW | eapply on_request_oinv; eassumption].
Qed.

(* ---------- the write task: fragments of ONE request may change places, nothing else ---------- *)
Lemma insert_by_order_perm ord f l : Permutation (insert_by_order ord f l) (f :: l).
Proof.
  induction l as [|g r IH]; cbn [insert_by_order]; [apply Permutation_refl|].
  destruct (_ <=? _)%nat; [apply Permutation_refl|].
  eapply Permutation_trans; [apply perm_skip, IH | apply perm_swap].
Qed.
Lemma sort_by_order_perm ord l : Permutation (fold_right (insert_by_order ord) [] l) l.
Proof.
  induction l as [|f r IH]; cbn [fold_right]; [apply Permutation_refl|].
  eapply Permutation_trans; [apply insert_by_order_perm | apply perm_skip, IH].
Qed.

(* permuting fragments that can only contribute the same number leaves the sequence unchanged *)
Lemma seqs_perm st c x l l' : Permutation l l' -> (forall f, In f l -> sel st c f = [] \/ sel st c f = [x]) ->
  seqs st c l = seqs st c l'.
Proof.
  intros HP. induction HP as [|a l l' HP IH|a b l|l l' l'' HP1 IH1 HP2 IH2]; intro H; cbn [seqs flat_map].
  - reflexivity.
  - f_equal. apply IH. intros f Hf. apply H. right; exact Hf.
  - destruct (H a (or_intror (or_introl eq_refl))) as [-> | ->]; destruct (H b (or_introl eq_refl)) as [-> | ->]; reflexivity.
  - rewrite IH1 by exact H. apply IH2. intros f Hf. apply H. eapply Permutation_in; [apply Permutation_sym, HP1 | exact Hf].
Qed.

Lemma same_msg_run_mid mid : forall l run rest, same_msg_run mid l = (run, rest) ->
  forall g, In g run -> exists a, mid = Some a /\ frag_mid g = Some a.
Proof.
  induction l as [|f r IH]; intros run rest H g Hg; cbn [same_msg_run] in H; [inversion H; subst; destruct Hg|].
  destruct mid as [a|]; [|inversion H; subst; destruct Hg].
  destruct (frag_mid f) as [b|] eqn:Ef; [|inversion H; subst; destruct Hg].
  destruct (Nat.eqb_spec a b) as [->|]; [|inversion H; subst; destruct Hg].
  destruct (same_msg_run (Some b) r) as [run' rest'] eqn:E. inversion H; subst.
  destruct Hg as [<-|Hg]; [exists b; auto | eapply IH; [reflexivity | exact Hg]].
Qed.

Lemma sel_same_mid st c a g : frag_mid g = Some a ->
  sel st c g = [] \/ sel st c g = [match lookup a (msgs st) with Some m => pm_seq m | None => O end].
Proof.
  destruct g as [|mid slot]; cbn [frag_mid]; [discriminate|]. intro E; inversion E; subst. unfold sel, okey.
  destruct (lookup a (msgs st)) as [m|]; [|left; reflexivity].
  destruct (existsb _ _); [left; reflexivity|]. destruct (Nat.eqb _ _); [right | left]; reflexivity.
Qed.

Lemma seqs_reorder st c : forall fuel order l, seqs st c (reorder fuel order l) = seqs st c l.
Proof.
  induction fuel as [|k IH]; intros order l; cbn [reorder]; [reflexivity|].
  destruct l as [|f r]; [reflexivity|].
  destruct (same_msg_run (frag_mid f) r) as [run rest] eqn:E.
  rewrite seqs_app, IH. rewrite (same_msg_run_app _ _ _ _ E).
  change (f :: run ++ rest) with ((f :: run) ++ rest). rewrite seqs_app. f_equal.
  destruct (frag_mid f) as [a|] eqn:Ef.
  - apply (seqs_perm st c (match lookup a (msgs st) with Some m => pm_seq m | None => O end)); [apply sort_by_order_perm|].
    intros g Hg. apply sort_by_order_In in Hg. apply (sel_same_mid st c a).
    destruct Hg as [<-|Hg]; [exact Ef|]. destruct (same_msg_run_mid _ _ _ _ E g Hg) as (b & Hb & Hgb). inversion Hb; subst. exact Hgb.
  - (* a probe: it is alone in its run *)
    assert (run = []).
    { destruct r as [|g r']; cbn [same_msg_run] in E; inversion E; reflexivity. }
    subst run. reflexivity.
Qed.

Lemma run_task_oinv st order t : WInv st -> OInv st -> OInv (run_task st order t).
Proof.
  intros HW H. destruct t as [s|s|s]; cbn [run_task].
  - destruct (lookup s (servers st)) as [sv|] eqn:Hs; [|exact H].
    destruct (ps_open sv) eqn:Ho; cbn [negb]; [|exact H].
    destruct (ps_outq sv) as [|f q] eqn:Eq; [exact H|].
    set (q' := reorder (length (f :: q)) (order s) (f :: q)).
    match goal with |- OInv (if _ then set_inflight ?x _ else _) => assert (Hst1 : OInv x) end.
    { destruct H as [HO HB]. apply OInv_set_server; [split; assumption| |].
      - intro c. unfold wire. cbn [ps_written ps_outq]. rewrite app_nil_r, map_app, map_map. cbn [fst]. rewrite map_id.
        rewrite seqs_app. unfold q'. rewrite seqs_reorder, <- seqs_app. rewrite <- Eq. apply (HO s sv c Hs).
      - intros g c x Hin Hk. unfold wire in Hin. cbn [ps_written ps_outq] in Hin. rewrite app_nil_r, map_app, map_map in Hin. cbn [fst] in Hin. rewrite map_id in Hin.
        apply (HB s sv g c x Hs); [|exact Hk]. unfold wire. apply in_app_or in Hin. apply in_or_app.
        destruct Hin as [Hin|Hin]; [left; exact Hin | right; rewrite Eq; eapply reorder_In, Hin]. }
    destruct (cf_timeout (cfg st)); [|exact Hst1].
    match goal with |- OInv (set_inflight ?x _) => apply (OInv_frame x); try reflexivity end. exact Hst1.
  - unfold close_server. destruct (lookup s (servers st)) as [sv|] eqn:Hs; [|exact H].
    destruct (ps_open sv); [|exact H].
    set (st1 := fail_frags st (ps_inq sv ++ ps_outq sv)).
    assert (H1 : OInv st1) by (eapply OInv_rel; [exact HW | apply rel_fail_frags | exact H]).
    assert (Hs1 : lookup s (servers st1) = Some sv).
    { destruct (same_s_fail_frags (ps_inq sv ++ ps_outq sv) st) as (E & _). fold st1 in E. rewrite E. exact Hs. }
    match goal with |- OInv (set_server ?x s ?y) => assert (H2 : OInv x) by (apply (OInv_frame st1); try reflexivity; exact H1) end.
    destruct H2 as [HO2 HB2].
    apply OInv_set_server; [split; assumption| |].
    + intro c. unfold wire. cbn [ps_written ps_outq]. rewrite app_nil_r.
      pose proof (HO2 s sv c Hs1) as Hsorted. unfold wire in Hsorted. rewrite seqs_app in Hsorted. apply sorted_app in Hsorted. apply Hsorted.
    + intros g c x Hin Hk. unfold wire in Hin. cbn [ps_written ps_outq] in Hin. rewrite app_nil_r in Hin.
      apply (HB2 s sv g c x Hs1); [unfold wire; apply in_or_app; left; exact Hin | exact Hk].
  - destruct (lookup s (servers st)) as [sv|] eqn:Hs; [|exact H].
    destruct (ps_open sv); [|exact H]. apply enqueue_none; [reflexivity | exact H].
Qed.

Lemma run_tasks_oinv order : forall fuel st, WInv st -> OInv st -> OInv (run_tasks fuel st order).
Proof.
  induction fuel as [|f IH]; intros st HW H; cbn [run_tasks]; [exact H|].
  destruct (tasks st) as [|t rest]; [exact H|].
  assert (HW' : WInv (set_tasks st rest)) by exact HW.
  assert (H' : OInv (set_tasks st rest)) by (apply (OInv_frame st); try reflexivity; exact H).
  apply IH; [apply run_task_winv, HW' | apply run_task_oinv; assumption].
Qed.

(* ---------- replies ---------- *)
Lemma okey_moved st mid slot : okey (mark_moved st mid slot) (FReq mid slot) = None.
Proof.
  unfold okey, mark_moved. destruct (lookup mid (msgs st)) as [m|] eqn:E.
  - cbn [set_msg msgs]. rewrite lookup_update_eq. cbn [pm_moved existsb]. rewrite N.eqb_refl. reflexivity.
  - rewrite E. reflexivity.
Qed.

Lemma on_moved_oinv st mid slot ty addr : WInv st -> OInv st -> OInv (on_moved st (FReq mid slot) mid ty addr).
Proof.
  intros HW H. unfold on_moved. cbn [frag_slot].
  assert (Hm : OInv (mark_moved st mid slot)) by (eapply OInv_rel; [exact HW | apply rel_mark_moved | exact H]).
  assert (Wm : WInv (mark_moved st mid slot)) by (eapply WInv_wext; [apply wext_mark_moved | exact HW]).
  set (stm := mark_moved st mid slot) in *.
  destruct (find_pool stm addr) as [p|].
  - destruct (pool_get stm p) as [st1 [s|]] eqn:Eg; pose proof (pool_get_oinv _ _ _ _ Hm Eg) as H1;
      destruct (pool_get_winv _ _ _ _ Wm Eg) as (W1 & Em & _).
    + set (st2 := if N.eqb ty RspAsk then enqueue_out st1 s (FProbe true) else st1).
      assert (H2 : OInv st2 /\ msgs st2 = msgs st1).
      { unfold st2. destruct (N.eqb ty RspAsk); [|split; [exact H1 | reflexivity]].
        split; [apply enqueue_none; [reflexivity | exact H1] | apply (same_cm_enqueue_out st1 s (FProbe true))]. }
      destruct H2 as [H2 M2].
      apply enqueue_none; [|exact H2]. rewrite (okey_servers st1 st2) by exact M2. rewrite (okey_servers stm st1) by exact Em. apply okey_moved.
    + eapply OInv_rel; [exact W1 | apply rel_fail_and_flush | exact H1].
  - eapply OInv_rel; [exact Wm | apply rel_fail_and_flush | exact Hm].
Qed.

Lemma on_reply_oinv st s ty rsp st' : WInv st -> OInv st -> on_reply st s ty rsp = ROk st' -> OInv st'.
Proof.
  intros HW H. unfold on_reply. destruct (lookup s (servers st)) as [sv|] eqn:Hs; [|intro E; apply ROk_inj in E; subst; exact H].
  destruct (ps_inq sv) as [|f inq'] eqn:Einq; [discriminate|].
  match goal with |- context [set_inflight ?a ?b] => set (st0 := set_inflight a b) end.
  assert (H0 : OInv st0).
  { unfold st0. match goal with |- OInv (set_inflight ?x _) => apply (OInv_frame x); try reflexivity end.
    destruct H as [HO HB]. apply OInv_set_server; [split; assumption | intro c; apply (HO s sv c Hs) | intros g c x Hin Hk; eapply HB; eassumption]. }
  assert (W0 : WInv st0).
  { unfold st0. apply WInv_set_server; [exact HW|]. destruct HW as [H1 _]. destruct (H1 s sv Hs) as (A & B & C).
    rewrite Einq in C. inversion C; subst. split; [|split]; cbn [ps_outq ps_written ps_inq]; assumption. }
  destruct f as [|mid slot].
  - destruct (is_auth_failure ty); [discriminate|]. intro E; apply ROk_inj in E; subst; exact H0.
  - destruct (frag_done st0 mid slot); [intro E; apply ROk_inj in E; subst; exact H0|].
    destruct (N.eqb ty RspMoved || N.eqb ty RspAsk)%bool.
    + intro E; apply ROk_inj in E; subst. apply on_moved_oinv; assumption.
    + destruct (lookup mid (msgs st0)) as [m|] eqn:Em; [|intro E; apply ROk_inj in E; subst; exact H0].
      destruct (merge_step Hash (cf_limit (cfg st0)) (pm_sm m) slot ty rsp) as [[sm'|]| |]; try discriminate.
      2:{ intro E; apply ROk_inj in E; subst; exact H0. }
      destruct (is_auth_failure ty && ps_initializing sv)%bool; [discriminate|].
      match goal with |- context [set_msg st0 mid ?x] => set (st1 := set_msg st0 mid x) end.
      assert (R1 : rel st0 st1).
      { apply rel_of; [eapply wext_set_msg_same; [exact Em | reflexivity..] | eapply kext_set_msg; [exact Em | reflexivity | reflexivity | auto] | apply cext_clients; reflexivity]. }
      assert (H1 : OInv st1) by (eapply OInv_rel; [exact W0 | exact R1 | exact H0]).
      assert (W1 : WInv st1) by (eapply WInv_wext; [eapply wext_set_msg_same; [exact Em | reflexivity..] | exact W0]).
      destruct (lookup (pm_client m) (clients st1)) as [cl|]; [|intro E; apply ROk_inj in E; subst; exact H1].
      destruct (negb (pc_open cl)); [intro E; apply ROk_inj in E; subst; exact H1|].
      destruct (pc_queue cl); intro E; apply ROk_inj in E; subst.
      * eapply OInv_rel; [exact W1 | apply rel_close_client | exact H1].
      * eapply OInv_rel; [exact W1 | apply rel_flush_done | exact H1].
Qed.

Lemma OInv_same_wire st s sv sv' : OInv st -> lookup s (servers st) = Some sv -> wire sv' = wire sv -> OInv (set_server st s sv').
Proof.
  intros [HO HB] Hs E. apply OInv_set_server; [split; assumption | intro c; rewrite E; apply (HO s sv c Hs) | intros g c x Hin Hk; rewrite E in Hin; eapply HB; eassumption].
Qed.

Lemma with_left_oinv st s b : OInv st -> OInv (with_left st s b).
Proof.
  intro H. unfold with_left. destruct (lookup s (servers st)) as [sv|] eqn:Hs; [|exact H].
  eapply OInv_same_wire; [exact H | exact Hs | reflexivity].
Qed.

Definition OW (st : pst) : Prop := WInv st /\ OInv st.
Definition k_ow (k : pst -> nat -> bytes -> result pst) : Prop :=
  forall st s buf st', OW st -> k st s buf = ROk st' -> OW st'.

Lemma decode_reply_ow k st s buf st' : k_ow k -> OW st -> decode_reply k st s buf = ROk st' -> OW st'.
Proof.
  intros Hk [HW H]. unfold decode_reply. destruct (sdecode buf) as [| | |ty n]; try discriminate.
  - intro E; apply ROk_inj in E; subst. split; [apply with_left_winv, HW | apply with_left_oinv, H].
  - destruct (on_reply st s ty (firstn n buf)) as [st1| | |] eqn:Er; try discriminate.
    intro E. eapply Hk; [|exact E]. split; [eapply on_reply_winv; eassumption | eapply on_reply_oinv; eassumption].
Qed.

Lemma server_iter_ow k st s buf st' : k_ow k -> OW st -> server_iter k st s buf = ROk st' -> OW st'.
Proof.
  intros Hk [HW H]. unfold server_iter. destruct (lookup s (servers st)) as [sv|] eqn:Hs; [|intro E; apply ROk_inj in E; subst; split; assumption].
  destruct (ps_open sv) eqn:Ho; cbn [negb]; [|intro E; apply ROk_inj in E; subst; split; assumption].
  destruct (ps_initializing sv); [|intro E; eapply decode_reply_ow; [exact Hk | split; eassumption | exact E]].
  destruct (init_decode (ps_step sv) buf) as [| |n|]; try discriminate.
  - intro E; apply ROk_inj in E; subst. split; [apply with_left_winv, HW | apply with_left_oinv, H].
  - match goal with |- context [set_server st s ?x] => set (st1 := set_server st s x) end.
    assert (B1 : OW st1).
    { split.
      - apply WInv_set_server; [exact HW|]. destruct HW as [K1 _]. destruct (K1 s sv Hs) as (A & B & C). split; [|split]; assumption.
      - eapply OInv_same_wire; [exact H | exact Hs | reflexivity]. }
    destruct (skipn n buf); [intro E; apply ROk_inj in E; subst; exact B1 | intro E; eapply decode_reply_ow; eassumption].
  - intro E; eapply decode_reply_ow; [exact Hk | split; eassumption | exact E].
Qed.

Lemma server_loop_ow : forall fuel, k_ow (server_loop fuel).
Proof.
  induction fuel as [|f IH]; intros st s buf st' H; cbn [server_loop].
  - intro E; apply ROk_inj in E; subst; exact H.
  - apply server_iter_ow; assumption.
Qed.

Lemma dial_until_ow addr total : forall fuel st, OW st -> OW (dial_until fuel st addr total).
Proof.
  induction fuel as [|f IH]; intros st [HW H]; cbn [dial_until]; [split; assumption|].
  destruct (conns_to st addr <? total)%nat; [|split; assumption].
  destruct (find_pool st addr) as [p|]; [|split; assumption].
  apply IH. destruct (pool_get st p) as [st1 r] eqn:Eg. cbn [fst].
  split; [eapply pool_get_winv; eassumption | eapply pool_get_oinv; eassumption].
Qed.

Lemma ensure_dials_ow totals : forall st, OW st -> OW (ensure_dials st totals).
Proof.
  unfold ensure_dials. induction totals as [|t ts IH]; intros st H; cbn [fold_left]; [exact H|].
  apply IH, dial_until_ow, H.
Qed.

Theorem step_ow st e st' : OW st -> step st e = ROk st' -> OW st'.
Proof.
  intros [HW H] E. split; [eapply step_winv; eassumption|]. revert E.
  destruct e as [c adm|c b totals|order|s b|c|s| |s|nodes newslots|ch|da dd]; cbn [step].
  - destruct (lookup c (clients st)) eqn:Ec; intro E; apply ROk_inj in E; subst st'; [exact H|].
    apply (OInv_rel st); [exact HW | | exact H]. apply rel_set_client. intros cl0 E0. congruence.
  - intro E; apply ROk_inj in E; subst st'. apply ensure_dials_ow. unfold client_data.
    destruct (lookup c (clients st)) as [cl|]; [|split; assumption].
    destruct (pc_open cl && negb (pc_closing cl))%bool; [|split; assumption].
    split; [apply client_loop_winv, HW | apply client_loop_oinv; assumption].
  - intro E; apply ROk_inj in E; subst st'. apply run_tasks_oinv; assumption.
  - unfold server_data. destruct (lookup s (servers st)) as [sv|]; [|intro E; apply ROk_inj in E; subst; exact H].
    destruct (ps_open sv); [|intro E; apply ROk_inj in E; subst; exact H].
    intro E. eapply server_loop_ow; [|exact E]. split; assumption.
  - intro E; apply ROk_inj in E; subst st'. apply (OInv_rel st); [exact HW | apply rel_close_client | exact H].
  - intro E; apply ROk_inj in E; subst st'. apply (run_task_oinv st (fun _ => []) (TClose s)); assumption.
  - intro E; apply ROk_inj in E; subst st'. unfold timeout_scan.
    apply (OInv_frame (expire st (inflight st))); try reflexivity.
    apply (OInv_rel st); [exact HW | apply rel_expire | exact H].
  - destruct (find_pool st s) as [p|]; [|intro E; apply ROk_inj in E; subst st'; exact H].
    destruct (pool_get st p) as [st1 [s1|]] eqn:Eg; pose proof (pool_get_oinv _ _ _ _ H Eg) as A; intro E; apply ROk_inj in E; subst st'; [|exact A].
    apply (OInv_frame st1); try reflexivity. exact A.
  - intro E; apply ROk_inj in E; subst st'. apply (OInv_frame st); try reflexivity. exact H.
  - intro E; apply ROk_inj in E; subst st'. apply (OInv_frame st); try reflexivity. exact H.
  - intro E; apply ROk_inj in E; subst st'. apply (OInv_frame st); try reflexivity. exact H.
Qed.

Theorem run_ow evs : forall st st', OW st -> run st evs = ROk st' -> OW st'.
Proof.
  induction evs as [|e r IH]; intros st st' H; cbn [run].
  - intro E; apply ROk_inj in E; subst; exact H.
  - destruct (step st e) as [st1| | |] eqn:Es; try discriminate. intro E. eapply IH; [eapply step_ow; eassumption | exact E].
Qed.

Lemma init_ow c pools slots : OW (init_state c pools slots).
Proof.
  split; [apply init_winv|]. split.
  - intros s sv c0 Hs. cbn in Hs. discriminate.
  - intros s sv f c0 x Hs. cbn in Hs. discriminate.
Qed.

(* C10: on every backend connection of every reachable state, the sequence numbers of the (not
   redirected) fragments of one client, in wire order followed by pending order, never decrease *)
Theorem per_connection_order c pools slots evs st s sv cid :
  run (init_state c pools slots) evs = ROk st -> lookup s (servers st) = Some sv ->
  sorted (seqs st cid (map fst (ps_written sv) ++ ps_outq sv)).
Proof.
  intros Hrun Hs. destruct (run_ow evs _ _ (init_ow c pools slots) Hrun) as [_ [HO _]]. apply (HO s sv cid Hs).
Qed.

(* the same statement element-wise: if a fragment of request number x2 of a client is earlier on a
   connection than a fragment of request number x1 of the same client, then x2 <= x1 *)
Corollary earlier_on_wire_is_earlier_request c pools slots evs st s sv cid l1 f2 l2 f1 l3 x1 x2 :
  run (init_state c pools slots) evs = ROk st -> lookup s (servers st) = Some sv ->
  map fst (ps_written sv) ++ ps_outq sv = l1 ++ f2 :: l2 ++ f1 :: l3 ->
  okey st f2 = Some (cid, x2) -> okey st f1 = Some (cid, x1) -> (x2 <= x1)%nat.
Proof.
  intros Hrun Hs Hw K2 K1. pose proof (per_connection_order _ _ _ _ _ _ _ cid Hrun Hs) as H. rewrite Hw in H.
  rewrite seqs_app in H. apply sorted_app in H. destruct H as (_ & H & _).
  cbn [seqs flat_map] in H. unfold sel at 1 in H. rewrite K2, Nat.eqb_refl in H. cbn [app sorted] in H. destruct H as [H _].
  fold (seqs st cid (l2 ++ f1 :: l3)) in H. rewrite seqs_app in H. apply Forall_app in H. destruct H as [_ H].
  cbn [seqs flat_map] in H. unfold sel at 1 in H. rewrite K1, Nat.eqb_refl in H. cbn [app] in H. inversion H; assumption.
Qed.
