(* Data theorems about the command tables (re-proved against Generated.v on every run) and the
   classification functions. *)
From RcProxy Require Import Base.Bytes Gen.Generated Spec.RespGrammar Spec.CommandSpec Model.Commands.
Open Scope N_scope.

Lemma mem_In x l : mem x l = true <-> In x l.
Proof.
  unfold mem. rewrite existsb_exists. split.
  - intros (y & Hy & E). apply beqb_eq in E. subst. exact Hy.
  - intro H. exists x. split; [exact H | apply beqb_refl].
Qed.

Lemma incl_dec l1 l2 : forallb (fun x => mem x l2) l1 = true -> incl l1 l2.
Proof. intros H x Hx. rewrite forallb_forall in H. apply mem_In, H, Hx. Qed.

Lemma assoc_b_In {A} k (l : list (bytes * A)) v : assoc_b k l = Some v -> In (k, v) l.
Proof.
  induction l as [|[k' v'] l IH]; simpl; [discriminate|].
  destruct (beqb k k') eqn:E.
  - intro H. inversion H; subst. apply beqb_eq in E. subst. auto.
  - auto.
Qed.

Lemma assoc_b_some_iff {A} k (l : list (bytes * A)) : (exists v, assoc_b k l = Some v) <-> In k (map fst l).
Proof.
  induction l as [|[k' v'] l IH]; simpl.
  - split; [intros (v & H); discriminate | intros []].
  - destruct (beqb k k') eqn:E.
    + apply beqb_eq in E. subst. split; [auto | eauto].
    + rewrite IH. split; [auto|]. intros [E'|H]; [subst; rewrite beqb_refl in E; discriminate | exact H].
Qed.

(* ---- the supported set is the documented set (+ auth) ---- *)
Theorem supported_is_documented :
  forall name, (exists t, assoc_b name CommandStr2Type = Some t) <-> In name supported_names.
Proof.
  intro name. rewrite assoc_b_some_iff.
  assert (H1 : incl (map fst CommandStr2Type) supported_names) by (apply incl_dec; vm_compute; reflexivity).
  assert (H2 : incl supported_names (map fst CommandStr2Type)) by (apply incl_dec; vm_compute; reflexivity).
  split; [apply H1 | apply H2].
Qed.

(* every command type of the name table has a printable name and an arity class *)
Theorem tables_agree :
  forall name t, assoc_b name CommandStr2Type = Some t ->
    (exists s, assoc_n t CommandType2Str = Some s) /\ (exists a, assoc_n t CommandType2ArgsNumber = Some a).
Proof.
  intros name t H. apply assoc_b_In in H.
  assert (Hall : forallb (fun p : bytes * N =>
                   match assoc_n (snd p) CommandType2Str, assoc_n (snd p) CommandType2ArgsNumber with
                   | Some _, Some _ => true | _, _ => false end) CommandStr2Type = true)
    by (vm_compute; reflexivity).
  rewrite forallb_forall in Hall. specialize (Hall _ H). cbn [snd] in Hall.
  destruct (assoc_n t CommandType2Str); [|discriminate].
  destruct (assoc_n t CommandType2ArgsNumber); [|discriminate]. eauto.
Qed.

(* names in the table are already lower-case, so lookup after to_lower is case-insensitive *)
Theorem transform2type_case name name' n :
  to_lower name = to_lower name' -> transform2type name n = transform2type name' n.
Proof. intro H. unfold transform2type. rewrite H. reflexivity. Qed.

Lemma transform2type_lower name n : transform2type (to_lower name) n = transform2type name n.
Proof. apply transform2type_case, to_lower_idem. Qed.

(* check_args returns the command itself or the wrong-arity marker *)
Lemma check_args_cases v n : check_args v n = v \/ check_args v n = ReqWrongArgumentsNumber.
Proof.
  unfold check_args. destruct (assoc_n v CommandType2ArgsNumber) as [a|]; [|auto].
  destruct (_ || _ || _ || _ || _)%bool; [destruct (Z.eqb a n); auto|].
  destruct (Z.eqb a NargsInf); [destruct (n <? 1)%Z; auto|].
  destruct (Z.eqb a NargsEvenInf); [destruct (_ || _)%bool; auto | auto].
Qed.

(* check_args implements the arity rule, for non-negative n *)
Theorem check_args_arity v a n : (0 <= n)%Z ->
  assoc_n v CommandType2ArgsNumber = Some a ->
  (a = Nargsz \/ a = Nargs0 \/ a = Nargs1 \/ a = Nargs2 \/ a = Nargs3 \/ a = NargsInf \/ a = NargsEvenInf) ->
  check_args v n = if arity_ok a n then v else ReqWrongArgumentsNumber.
Proof.
  intros Hn Ha Hcls. unfold check_args, arity_ok. rewrite Ha.
  assert (Hodd : forall z, (0 <= z)%Z -> Z.eqb (Z.rem z 2) 1 = negb (Z.even z)).
  { intros z Hz. rewrite Z.rem_mod_nonneg by lia. rewrite Zeven_mod.
    destruct (Z.eqb_spec (z mod 2) 0) as [E|E]; rewrite ?E; simpl.
    - reflexivity.
    - pose proof (Z.mod_pos_bound z 2 ltac:(lia)). assert (z mod 2 = 1)%Z by lia. rewrite H0. reflexivity. }
  destruct Hcls as [->|[->|[->|[->|[->|[->| ->]]]]]]; try reflexivity.
  - transitivity (if (n <? 1)%Z then ReqWrongArgumentsNumber else v); [reflexivity|].
    transitivity (if (1 <=? n)%Z then v else ReqWrongArgumentsNumber); [|reflexivity].
    destruct (Z.ltb_spec n 1); destruct (Z.leb_spec 1 n); try lia; reflexivity.
  - transitivity (if ((n <? 2)%Z || Z.eqb (Z.rem n 2) 1)%bool then ReqWrongArgumentsNumber else v); [reflexivity|].
    transitivity (if ((2 <=? n)%Z && Z.even n)%bool then v else ReqWrongArgumentsNumber); [|reflexivity].
    rewrite Hodd by exact Hn.
    destruct (Z.ltb_spec n 2); destruct (Z.leb_spec 2 n); try lia; cbn [orb andb]; [reflexivity|].
    destruct (Z.even n); reflexivity.
Qed.
