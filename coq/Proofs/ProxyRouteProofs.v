(* Delivery to the owner (C04 at the level of the event loop): in every reachable state, every
   fragment on (or queued for) a backend connection - unless it was redirected there by the node
   itself - sits on a connection to the node that owns the fragment's slot in the proxy's slot
   table; and every connection a pool holds goes to that pool's address. *)
From RcProxy Require Import Base.Bytes Base.Dec Gen.Generated Spec.RespGrammar
  Model.RespBuf Model.Commands Model.Crc16 Model.ClientCodec Model.ClientFeed Model.ServerCodec Model.Route
  Model.Cluster Model.Proxy Proofs.RouteProofs Proofs.ProxyProofs Proofs.ProxyServerProofs Proofs.ProxyWireProofs Proofs.ProxyLivenessProofs Proofs.ProxyOrderProofs.
From Coq Require Import ZifyN ZifyNat ZifyBool.
Open Scope N_scope.

Definition pool_ok (st : pst) (p : ppool) : Prop :=
  forall s, In s (pp_conns p) -> (s < next_sid st)%nat /\ (forall sv, lookup s (servers st) = Some sv -> ps_addr sv = pp_addr p).
Definition PInv (st : pst) : Prop := Forall (pool_ok st) (pools st).

(* routed st mid slot addr: the request exists and its routing record (the owner of each of its
   slots in the slot table in force when OnCReact routed it) says addr for this slot *)
Definition routed (st : pst) (mid : nat) (slot : N) (addr : bytes) : Prop :=
  exists m, lookup mid (msgs st) = Some m /\ In (slot, Some addr) (pm_route m).

Definition AInv (st : pst) : Prop :=
  forall s sv mid slot, lookup s (servers st) = Some sv -> In (FReq mid slot) (wire sv) ->
    okey st (FReq mid slot) <> None -> routed st mid slot (ps_addr sv).

Definition RInv (st : pst) : Prop := PInv st /\ AInv st /\ (forall s sv, lookup s (servers st) = Some sv -> (s < next_sid st)%nat).

(* ---------- operations that leave connections, pools and the slot table alone ---------- *)
Definition stable (st st' : pst) : Prop :=
  servers st' = servers st /\ pools st' = pools st /\ slots st' = slots st /\ next_sid st' = next_sid st.

Lemma stable_refl st : stable st st. Proof. repeat split. Qed.
Lemma stable_trans a b c : stable a b -> stable b c -> stable a c.
Proof. intros (A1 & A2 & A3 & A4) (B1 & B2 & B3 & B4). repeat split; congruence. Qed.

Lemma stable_set_client st c x : stable st (set_client st c x). Proof. repeat split. Qed.
Lemma stable_set_msg st m x : stable st (set_msg st m x). Proof. repeat split. Qed.
Lemma stable_bump_mid st : stable st (bump_mid st). Proof. repeat split. Qed.
Lemma stable_set_tasks st x : stable st (set_tasks st x). Proof. repeat split. Qed.
Lemma stable_set_inflight st x : stable st (set_inflight st x). Proof. repeat split. Qed.

Lemma stable_flush_done st c : stable st (flush_done st c).
Proof.
  unfold flush_done. destruct (lookup c (clients st)); [|apply stable_refl].
  destruct (done_prefix st (pc_queue p)) as [d rest]. destruct d; [apply stable_refl | apply stable_set_client].
Qed.
Lemma stable_flush_if_open st c : stable st (flush_if_open st c).
Proof. unfold flush_if_open. destruct (lookup c (clients st)); [|apply stable_refl]. destruct (pc_open p); [apply stable_flush_done | apply stable_refl]. Qed.
Lemma stable_close_client st c : stable st (close_client st c).
Proof. unfold close_client. destruct (lookup c (clients st)); [|apply stable_refl]. destruct (pc_open p); [apply stable_set_client | apply stable_refl]. Qed.
Lemma stable_fail_msg st mid e : stable st (fail_msg st mid e).
Proof. unfold fail_msg. destruct (lookup mid (msgs st)); [apply stable_set_msg | apply stable_refl]. Qed.
Lemma stable_mark_moved st mid slot : stable st (mark_moved st mid slot).
Proof. unfold mark_moved. destruct (lookup mid (msgs st)); [apply stable_set_msg | apply stable_refl]. Qed.
Lemma stable_fail_and_flush st mid e :
  stable st (match lookup mid (msgs (fail_msg st mid e)) with
             | Some m => flush_if_open (fail_msg st mid e) (pm_client m) | None => fail_msg st mid e end).
Proof.
  destruct (lookup mid (msgs (fail_msg st mid e))); [eapply stable_trans; [apply stable_fail_msg | apply stable_flush_if_open] | apply stable_fail_msg].
Qed.
Lemma stable_fail_frags : forall fs st, stable st (fail_frags st fs).
Proof.
  induction fs as [|f fs IH]; intro st; cbn [fail_frags]; [apply stable_refl|].
  destruct f as [|mid slot]; [apply IH|]. destruct (frag_done st mid slot); [apply IH|].
  eapply stable_trans; [apply (stable_fail_and_flush st mid ErrUnKnownProxyPoolConnError) | apply IH].
Qed.
Lemma stable_expire : forall l st, stable st (expire st l).
Proof.
  induction l as [|[s f] l IH]; intro st; cbn [expire]; [apply stable_refl|].
  destruct f as [|mid slot]; [apply IH|]. destruct (frag_done st mid slot); [apply IH|].
  eapply stable_trans; [apply (stable_fail_and_flush st mid ErrMsgRequestTimeout) | apply IH].
Qed.
Lemma stable_local_reply st c m out close : stable st (local_reply st c m out close).
Proof.
  unfold local_reply. destruct (lookup c (clients st)) as [cl|]; [|apply stable_refl].
  destruct (pc_queue cl) as [|q0 qs].
  - destruct close; [eapply stable_trans; [apply stable_set_client | apply stable_close_client] | apply stable_set_client].
  - match goal with |- stable st (if close then match lookup c (clients ?x) with _ => _ end else _) => set (st1 := x) end.
    assert (H1 : stable st st1) by (unfold st1; repeat split).
    destruct close; [|exact H1]. destruct (lookup c (clients st1)); [eapply stable_trans; [exact H1 | apply stable_set_client] | exact H1].
Qed.

Lemma slot_master_stable st st' slot : slots st' = slots st -> slot_master st' slot = slot_master st slot.
Proof. intro E. unfold slot_master. rewrite E. reflexivity. Qed.

Lemma routed_ext st st' mid slot addr : msg_ext (msgs st) (msgs st') -> routed st mid slot addr -> routed st' mid slot addr.
Proof. intros He (m & Hm & Hin). destruct (He _ _ Hm) as (m' & A & _ & _ & _ & R). exists m'. rewrite R. auto. Qed.

Lemma RInv_stable st st' : WInv st -> stable st st' -> kext st st' -> msg_ext (msgs st) (msgs st') -> RInv st -> RInv st'.
Proof.
  intros HW (Es & Ep & El & En) Hk Hme (HP & HA & HN). split; [|split].
  - unfold PInv in *. rewrite Ep. eapply Forall_impl; [|exact HP]. intros p Hp s Hs. rewrite Es, En. apply Hp, Hs.
  - intros s sv mid slot Hs Hin Hkey. rewrite Es in Hs. apply (routed_ext st st' _ _ _ Hme).
    apply (HA s sv mid slot Hs Hin).
    assert (Hkn : frag_known st (FReq mid slot)).
    { pose proof (wire_known st s sv HW Hs) as Hall. rewrite Forall_forall in Hall. apply Hall, Hin. }
    destruct (Hk _ Hkn) as [E|E]; congruence.
  - intros s sv Hs. rewrite Es in Hs. rewrite En. eapply HN, Hs.
Qed.

Lemma RInv_rel st st' : WInv st -> stable st st' -> rel st st' -> RInv st -> RInv st'.
Proof.
  intros HW Hs R H. destruct HW as [HW1 HW2]. destruct (R HW2) as (_ & Me & _ & K & _).
  apply (RInv_stable st st'); try assumption. split; assumption.
Qed.

(* ---------- connections ---------- *)
(* replacing the record of one connection, keeping its address *)
Lemma RInv_set_server st s sv sv' :
  RInv st -> lookup s (servers st) = Some sv -> ps_addr sv' = ps_addr sv ->
  (forall mid slot, In (FReq mid slot) (wire sv') -> okey st (FReq mid slot) <> None -> routed st mid slot (ps_addr sv)) ->
  RInv (set_server st s sv').
Proof.
  intros (HP & HA & HN) Hs Ea Hw. split; [|split].
  - unfold PInv in *. cbn [set_server pools]. eapply Forall_impl; [|exact HP]. intros p Hp x Hx. destruct (Hp x Hx) as [A B].
    split; [exact A|]. intros svx Hl. cbn [set_server servers] in Hl. rewrite lookup_update in Hl.
    destruct (Nat.eqb_spec x s) as [->|]; [inversion Hl; subst; rewrite Ea; apply B, Hs | apply B, Hl].
  - intros x svx mid slot Hl Hin Hk. cbn [set_server servers] in Hl. rewrite lookup_update in Hl.
    rewrite (okey_servers st) in Hk by reflexivity.
    destruct (Nat.eqb_spec x s) as [->|]; [inversion Hl; subst; rewrite Ea; apply (Hw mid slot); assumption | eapply HA; eassumption].
  - intros x svx Hl. cbn [set_server servers next_sid] in *. rewrite lookup_update in Hl.
    destruct (Nat.eqb_spec x s) as [->|]; [eapply HN, Hs | eapply HN, Hl].
Qed.

Lemma RInv_frame st st' : servers st' = servers st -> pools st' = pools st -> slots st' = slots st -> next_sid st' = next_sid st ->
  msgs st' = msgs st -> RInv st -> RInv st'.
Proof.
  intros Es Ep El En Em (HP & HA & HN). split; [|split].
  - unfold PInv in *. rewrite Ep. eapply Forall_impl; [|exact HP]. intros p Hp s Hs. rewrite Es, En. apply Hp, Hs.
  - intros s sv mid slot Hs Hin Hk. rewrite Es in Hs. rewrite (okey_servers st st') in Hk by exact Em.
    unfold routed. rewrite Em. eapply HA; eassumption.
  - intros s sv Hs. rewrite Es in Hs. rewrite En. eapply HN, Hs.
Qed.

Lemma enqueue_rinv st s f :
  RInv st ->
  (forall sv mid slot, lookup s (servers st) = Some sv -> f = FReq mid slot -> okey st f <> None -> routed st mid slot (ps_addr sv)) ->
  RInv (enqueue_out st s f).
Proof.
  intros H Hf. unfold enqueue_out. destruct (lookup s (servers st)) as [sv|] eqn:Hs; [|exact H].
  match goal with |- RInv (set_tasks ?x _) => apply (RInv_frame x); try reflexivity end.
  eapply RInv_set_server; [exact H | exact Hs | reflexivity|].
  intros mid slot Hin Hk. rewrite wire_enqueue in Hin. apply in_app_or in Hin. destruct Hin as [Hin|[E|[]]].
  - destruct H as (_ & HA & _). eapply HA; eassumption.
  - apply (Hf sv mid slot eq_refl E). rewrite E. exact Hk.
Qed.

(* ---------- dialling: the new connection goes to the pool's address ---------- *)
Lemma dial_rinv st p st' s : RInv st -> dial st p = Some (st', s) ->
  s = next_sid st /\ next_sid st' = S (next_sid st) /\ pools st' = pools st /\ slots st' = slots st /\ msgs st' = msgs st /\
  (exists sv, lookup s (servers st') = Some sv /\ ps_addr sv = pp_addr p /\ wire sv = []) /\
  (forall x svx, x <> s -> lookup x (servers st') = Some svx <-> lookup x (servers st) = Some svx).
Proof.
  intros H. unfold dial. destruct (pp_dialable p); [|discriminate].
  destruct (on_s_opened (cf_password (cfg st)) (pp_slave p)) as [hs step]. intro E. inversion E; subst. clear E.
  cbn [bump_sid set_server next_sid pools slots msgs servers]. repeat split; try reflexivity.
  - eexists. split; [apply lookup_update_eq | split; reflexivity].
  - rewrite lookup_update_ne by assumption. auto.
  - rewrite lookup_update_ne by assumption. auto.
Qed.

Lemma find_pool_spec st addr p : find_pool st addr = Some p -> In p (pools st) /\ pp_addr p = addr.
Proof. unfold find_pool. intro H. apply find_some in H. destruct H as [A B]. apply beqb_eq in B. auto. Qed.

Lemma rotate_sub st : forall fuel conns s conns' rest, rotate st fuel conns = (Some (s, conns'), rest) ->
  In s conns /\ (forall x, In x conns' -> In x conns).
Proof.
  induction fuel as [|f IH]; intros conns s conns' rest H; cbn [rotate] in H; [discriminate|].
  destruct (rev conns) as [|back rest_rev] eqn:Er; [discriminate|].
  assert (Hc : conns = rev rest_rev ++ [back]) by (rewrite <- (rev_involutive conns), Er; reflexivity).
  destruct (server_open st back).
  - inversion H; subst s conns' rest. split; [rewrite Hc; apply in_or_app; right; left; reflexivity|].
    intros x [<-|Hx]; rewrite Hc; apply in_or_app; [right; left; reflexivity | left; exact Hx].
  - destruct (IH _ _ _ _ H) as [A B]. split; [rewrite Hc; apply in_or_app; left; exact A|].
    intros x Hx. rewrite Hc. apply in_or_app. left. apply B, Hx.
Qed.

Lemma rotate_none_sub st : forall fuel conns rest, rotate st fuel conns = (None, rest) -> forall x, In x rest -> In x conns.
Proof.
  induction fuel as [|f IH]; intros conns rest H x Hx; cbn [rotate] in H; [inversion H; subst; exact Hx|].
  destruct (rev conns) as [|back rest_rev] eqn:Er; [inversion H; subst; destruct Hx|].
  assert (Hc : conns = rev rest_rev ++ [back]) by (rewrite <- (rev_involutive conns), Er; reflexivity).
  destruct (server_open st back); [discriminate|].
  rewrite Hc. apply in_or_app. left. eapply IH; eassumption.
Qed.

Lemma Forall_replace_pool (P : ppool -> Prop) pools p' : Forall P pools -> P p' -> Forall P (replace_pool pools p').
Proof.
  intros H Hp. unfold replace_pool. apply Forall_forall. intros q Hq. apply in_map_iff in Hq. destruct Hq as (q0 & <- & Hin).
  destruct (beqb (pp_addr q0) (pp_addr p')); [exact Hp | rewrite Forall_forall in H; apply H, Hin].
Qed.

(* a state that differs by pools only *)
Lemma RInv_set_pools st ps : RInv st -> Forall (pool_ok st) ps -> RInv (set_pools st ps).
Proof. intros (HP & HA & HN) H. split; [exact H | split; [exact HA | exact HN]]. Qed.

Lemma pool_ok_sub st p conns' : pool_ok st p -> (forall x, In x conns' -> In x (pp_conns p)) -> pool_ok st (with_conns p conns').
Proof. intros H Hsub s Hs. cbn [with_conns pp_conns pp_addr] in *. apply H, Hsub, Hs. Qed.

Definition srv_mono (st st' : pst) : Prop := forall x svx, lookup x (servers st) = Some svx -> lookup x (servers st') = Some svx.

Lemma pool_get_rinv st p st' r : RInv st -> pool_ok st p -> pool_get st p = (st', r) ->
  RInv st' /\ slots st' = slots st /\ msgs st' = msgs st /\ srv_mono st st' /\
  (forall s, r = Some s -> exists sv, lookup s (servers st') = Some sv /\ ps_addr sv = pp_addr p).
Proof.
  intros H Hp. unfold pool_get.
  assert (Hsame : RInv st /\ slots st = slots st /\ msgs st = msgs st /\ srv_mono st st /\
                  (forall s : nat, None = Some s -> exists sv, lookup s (servers st) = Some sv /\ ps_addr sv = pp_addr p)).
  { split; [exact H|]. split; [reflexivity|]. split; [reflexivity|]. split; [intros x svx E; exact E | discriminate]. }
  destruct (pp_closed p); [intro E; inversion E; subst; exact Hsame|].
  (* what a successful dial gives, with any subset of the old connections kept *)
  assert (Hd : forall st1 s conns', dial st p = Some (st1, s) -> (forall x, In x conns' -> In x (pp_conns p)) ->
            let st2 := set_pools st1 (replace_pool (pools st1) (with_conns p (s :: conns'))) in
            RInv st2 /\ slots st2 = slots st /\ msgs st2 = msgs st /\ srv_mono st st2 /\
            (forall s0, Some s = Some s0 -> exists sv, lookup s0 (servers st2) = Some sv /\ ps_addr sv = pp_addr p)).
  { intros st1 s conns' Ed Hsub st2.
    destruct (dial_rinv _ _ _ _ H Ed) as (Es & En & Epl & Esl & Em & (sv & Hsv & Ha & Hw) & Hiff).
    destruct H as (HP & HA & HN).
    assert (Hmono : srv_mono st st1).
    { intros x svx Hx. apply Hiff; [|exact Hx]. apply HN in Hx. lia. }
    assert (Hok1 : forall q, pool_ok st q -> pool_ok st1 q).
    { intros q Hq x Hx. destruct (Hq x Hx) as [A B]. split; [lia|]. intros svx Hl. apply B. apply Hiff; [lia | exact Hl]. }
    assert (R1 : RInv st1).
    { split; [|split].
      - unfold PInv in *. rewrite Epl. eapply Forall_impl; [|exact HP]. exact Hok1.
      - intros x svx mid slot Hl Hin Hk. rewrite (okey_servers st st1) in Hk by exact Em. unfold routed. rewrite Em.
        destruct (Nat.eq_dec x s) as [->|Hne].
        + rewrite Hsv in Hl. inversion Hl; subst. rewrite Hw in Hin. destruct Hin.
        + apply (HA x svx mid slot); [apply Hiff; assumption | exact Hin | exact Hk].
      - intros x svx Hl. destruct (Nat.eq_dec x s) as [->|Hne]; [lia|]. apply Hiff in Hl; [|exact Hne]. apply HN in Hl. lia. }
    unfold st2. split; [|split; [|split; [|split]]].
    - apply RInv_set_pools; [exact R1|]. apply Forall_replace_pool; [destruct R1 as (P1 & _); exact P1|].
      intros x Hx. cbn [with_conns pp_conns pp_addr] in *. destruct Hx as [<-|Hx].
      + split; [lia|]. intros svx Hl. rewrite Hsv in Hl. inversion Hl; subst. exact Ha.
      + apply (Hok1 p Hp x), Hsub, Hx.
    - exact Esl.
    - exact Em.
    - exact Hmono.
    - intros s0 E0. inversion E0; subst s0. exists sv. split; [exact Hsv | exact Ha]. }
  destruct (length (pp_conns p) <? cf_max_active (cfg st))%nat.
  - destruct (dial st p) as [[st1 s]|] eqn:Ed; intro E; inversion E; subst; [apply (Hd st1 s (pp_conns p) eq_refl); auto | exact Hsame].
  - destruct (rotate st (S (length (pp_conns p))) (pp_conns p)) as [[[s conns']|] conns''] eqn:Er.
    + intro E; inversion E; subst. destruct (rotate_sub _ _ _ _ _ _ Er) as [Hin Hsub].
      pose proof (rotate_open _ _ _ _ _ _ Er) as Hopen.
      unfold server_open in Hopen. destruct (lookup s (servers st)) as [sv|] eqn:Hs; [|discriminate].
      split; [|split; [reflexivity|split; [reflexivity|split]]].
      * apply RInv_set_pools; [exact H|]. apply Forall_replace_pool; [destruct H as (P1 & _); exact P1 | apply pool_ok_sub; assumption].
      * intros x svx Hx; exact Hx.
      * intros s0 E0; inversion E0; subst s0. exists sv. split; [exact Hs|]. apply (Hp s Hin), Hs.
    + pose proof (rotate_none_sub _ _ _ _ Er) as Hsub.
      destruct (dial st p) as [[st1 s]|] eqn:Ed; intro E; inversion E; subst; [apply (Hd st1 s conns'' eq_refl Hsub)|].
      split; [|split; [reflexivity|split; [reflexivity|split; [intros x svx Hx; exact Hx | discriminate]]]].
      apply RInv_set_pools; [exact H|]. apply Forall_replace_pool; [destruct H as (P1 & _); exact P1 | apply pool_ok_sub; assumption].
Qed.

Lemma PInv_pool st p : RInv st -> In p (pools st) -> pool_ok st p.
Proof. intros (HP & _) Hin. unfold PInv in HP. rewrite Forall_forall in HP. apply HP, Hin. Qed.

Definition targets_planned (plan : list (N * option bytes)) (st : pst) (targets : list (N * nat)) : Prop :=
  forall t, In t targets -> exists sv, lookup (snd t) (servers st) = Some sv /\ In (fst t, Some (ps_addr sv)) plan.

Lemma resolve_rinv plan : forall st st' r, RInv st -> resolve st plan = (st', r) ->
  RInv st' /\ slots st' = slots st /\ msgs st' = msgs st /\ srv_mono st st' /\
  (forall targets, r = inl targets -> targets_planned plan st' targets).
Proof.
  induction plan as [|[slot f] rest IH]; intros st st' r H; cbn [resolve].
  - intro E; inversion E; subst. split; [exact H|]. split; [reflexivity|]. split; [reflexivity|]. split; [intros x svx Hx; exact Hx|].
    intros targets Et. inversion Et; subst. intros t [].
  - destruct f as [addr|].
    2:{ intro E; inversion E; subst. split; [exact H|]. split; [reflexivity|]. split; [reflexivity|]. split; [intros x svx Hx; exact Hx | discriminate]. }
    destruct (find_pool st addr) as [p|] eqn:Efp.
    2:{ intro E; inversion E; subst. split; [exact H|]. split; [reflexivity|]. split; [reflexivity|]. split; [intros x svx Hx; exact Hx | discriminate]. }
    destruct (find_pool_spec _ _ _ Efp) as [Hin Haddr].
    destruct (pool_get st p) as [st1 [s|]] eqn:Eg;
      destruct (pool_get_rinv _ _ _ _ H (PInv_pool _ _ H Hin) Eg) as (R1 & Sl1 & M1 & Mo1 & Hs1).
    + destruct (resolve st1 rest) as [st2 [l|e]] eqn:Er; destruct (IH _ _ _ R1 Er) as (R2 & Sl2 & M2 & Mo2 & Ht2);
        intro E; inversion E; subst.
      * split; [exact R2|]. split; [congruence|]. split; [congruence|]. split; [intros x svx Hx; apply Mo2, Mo1, Hx|].
        intros targets Et. inversion Et; subst. intros t [<-|Hin2].
        -- cbn [fst snd]. destruct (Hs1 s eq_refl) as (sv & Hsv & Ha). exists sv. split; [apply Mo2, Hsv | rewrite Ha; left; reflexivity].
        -- destruct (Ht2 l eq_refl t Hin2) as (sv & A & B). exists sv. split; [exact A | right; exact B].
      * split; [exact R2|]. split; [congruence|]. split; [congruence|]. split; [intros x svx Hx; apply Mo2, Mo1, Hx | discriminate].
    + intro E; inversion E; subst. split; [exact R1|]. split; [exact Sl1|]. split; [exact M1|]. split; [exact Mo1 | discriminate].
Qed.

Lemma targets_planned_enqueue plan st t f targets : targets_planned plan st targets -> targets_planned plan (enqueue_out st t f) targets.
Proof.
  intros Ho t' Hin. destruct (Ho t' Hin) as (sv & A & B).
  unfold enqueue_out. destruct (lookup t (servers st)) as [svt|] eqn:Et; [|exists sv; auto].
  cbn [set_tasks set_server servers]. rewrite lookup_update.
  destruct (Nat.eqb_spec (snd t') t) as [E|]; [|exists sv; auto].
  rewrite E in A. rewrite Et in A. inversion A; subst. eexists. split; [reflexivity | exact B].
Qed.

Lemma fold_enqueue_rinv mid pm : forall targets st, RInv st -> lookup mid (msgs st) = Some pm ->
  targets_planned (pm_route pm) st targets ->
  RInv (fold_left (fun s (t : N * nat) => enqueue_out s (snd t) (FReq mid (fst t))) targets st).
Proof.
  induction targets as [|t ts IH]; intros st H Hm Ho; cbn [fold_left]; [exact H|].
  apply IH.
  - apply enqueue_rinv; [exact H|]. intros sv mid0 slot0 Hl Ef _. inversion Ef; subst.
    destruct (Ho t (or_introl eq_refl)) as (sv' & A & B). rewrite Hl in A. inversion A; subst.
    exists pm. split; [exact Hm | exact B].
  - destruct (same_cm_enqueue_out st (snd t) (FReq mid (fst t))) as (_ & E & _). rewrite E. exact Hm.
  - apply targets_planned_enqueue. intros t' Ht'. apply Ho. right. exact Ht'.
Qed.

Lemma on_request_rinv st c m : WInv st -> RInv st -> RInv (on_request st c m).
Proof.
  intros HW H. unfold on_request.
  do 5 match goal with
       | |- RInv (if ?b then _ else _) => destruct b; [eapply RInv_rel; [exact HW | apply stable_local_reply | apply rel_local_reply | exact H]|]
       end.
  destruct (cm_type m =? ReqAuth).
  - destruct (cf_password (cfg st)); [eapply RInv_rel; [exact HW | apply stable_local_reply | apply rel_local_reply | exact H]|].
    destruct (cm_body m) as [|[s0 f0] body]; [exact H|].
    destruct (beqb _ _); (eapply RInv_rel; [exact HW | apply stable_local_reply | apply rel_local_reply | exact H]).
  - destruct (resolve st (route_plan st (cm_type m) (by_slot (cm_body m)))) as [st1 [targets|e]] eqn:Er.
    2:{ eapply RInv_rel; [exact HW | apply stable_local_reply | apply rel_local_reply | exact H]. }
    destruct (resolve_rinv _ _ _ _ H Er) as (R1 & Sl1 & M1 & _ & Ht). specialize (Ht targets eq_refl).
    destruct (resolve_winv _ _ _ _ HW Er) as (W1 & _).
    set (mid := next_mid st1).
    match goal with |- context [set_msg st1 mid ?x] => set (pm := x) end.
    set (st2 := bump_mid (set_msg st1 mid pm)).
    assert (R2 : RInv st2).
    { eapply RInv_rel; [exact W1 | | apply rel_new_msg | exact R1]. eapply stable_trans; [apply stable_set_msg | apply stable_bump_mid]. }
    match goal with |- RInv (match lookup c (clients ?x) with _ => _ end) => set (st3 := x) end.
    assert (R3 : RInv st3).
    { unfold st3. apply (fold_enqueue_rinv mid pm); [exact R2 | unfold st2; cbn [bump_mid set_msg msgs]; apply lookup_update_eq | exact Ht]. }
    destruct (lookup c (clients st3)); [|exact R3].
    match goal with |- RInv (set_client ?x _ _) => apply (RInv_frame x); try reflexivity end. exact R3.
Qed.

Lemma client_loop_rinv : forall fuel st c buf, WInv st -> RInv st -> RInv (client_loop fuel st c buf).
Proof.
  induction fuel as [|f IH]; intros st c buf HW H; cbn [client_loop]; [exact H|].
  destruct (lookup c (clients st)) as [cl|] eqn:Ec; [|exact H].
  destruct (negb (pc_open cl) || pc_closing cl)%bool; [exact H|].
  destruct (decode (cf_limit (cfg st)) buf) as [| | | |m n]; try exact H.
  - apply (RInv_rel st); [exact HW | apply stable_close_client | apply rel_close_client | exact H].
  - apply IH; [apply on_request_winv, HW | apply on_request_rinv; assumption].
Qed.

Lemma RInv_same_wire st s sv sv' : RInv st -> lookup s (servers st) = Some sv -> ps_addr sv' = ps_addr sv ->
  (forall f, In f (wire sv') -> In f (wire sv)) -> RInv (set_server st s sv').
Proof.
  intros H Hs Ea Hsub. eapply RInv_set_server; [exact H | exact Hs | exact Ea|].
  intros mid slot Hin Hk. destruct H as (_ & HA & _). eapply HA; [exact Hs | apply Hsub, Hin | exact Hk].
Qed.

Lemma run_task_rinv st order t : WInv st -> RInv st -> RInv (run_task st order t).
Proof.
  intros HW H. destruct t as [s|s|s]; cbn [run_task].
  - destruct (lookup s (servers st)) as [sv|] eqn:Hs; [|exact H].
    destruct (ps_open sv) eqn:Ho; cbn [negb]; [|exact H].
    destruct (ps_outq sv) as [|f q] eqn:Eq; [exact H|].
    match goal with |- RInv (if _ then set_inflight ?x _ else _) => assert (Hst1 : RInv x) end.
    { eapply RInv_same_wire; [exact H | exact Hs | reflexivity|].
      intros g Hin. unfold wire in *. cbn [ps_written ps_outq] in Hin. rewrite app_nil_r, map_app, map_map in Hin. cbn [fst] in Hin. rewrite map_id in Hin.
      apply in_app_or in Hin. apply in_or_app. destruct Hin as [Hin|Hin]; [left; exact Hin | right; rewrite Eq; eapply reorder_In, Hin]. }
    destruct (cf_timeout (cfg st)); [|exact Hst1].
    match goal with |- RInv (set_inflight ?x _) => apply (RInv_frame x); try reflexivity end. exact Hst1.
  - unfold close_server. destruct (lookup s (servers st)) as [sv|] eqn:Hs; [|exact H].
    destruct (ps_open sv); [|exact H].
    set (st1 := fail_frags st (ps_inq sv ++ ps_outq sv)).
    assert (H1 : RInv st1) by (eapply RInv_rel; [exact HW | apply stable_fail_frags | apply rel_fail_frags | exact H]).
    assert (Hs1 : lookup s (servers st1) = Some sv).
    { destruct (stable_fail_frags (ps_inq sv ++ ps_outq sv) st) as (E & _). fold st1 in E. rewrite E. exact Hs. }
    match goal with |- RInv (set_server ?x s ?y) => assert (H2 : RInv x) by (apply (RInv_frame st1); try reflexivity; exact H1) end.
    eapply RInv_same_wire; [exact H2 | exact Hs1 | reflexivity|].
    intros g Hin. unfold wire in *. cbn [ps_written ps_outq] in Hin. rewrite app_nil_r in Hin. apply in_or_app. left. exact Hin.
  - destruct (lookup s (servers st)) as [sv|] eqn:Hs; [|exact H].
    destruct (ps_open sv); [|exact H]. apply enqueue_rinv; [exact H|]. intros sv0 mid slot _ E. discriminate.
Qed.

Lemma run_tasks_rinv order : forall fuel st, WInv st -> RInv st -> RInv (run_tasks fuel st order).
Proof.
  induction fuel as [|f IH]; intros st HW H; cbn [run_tasks]; [exact H|].
  destruct (tasks st) as [|t rest]; [exact H|].
  assert (HW' : WInv (set_tasks st rest)) by exact HW.
  assert (H' : RInv (set_tasks st rest)) by (apply (RInv_frame st); try reflexivity; exact H).
  apply IH; [apply run_task_winv, HW' | apply run_task_rinv; assumption].
Qed.

Lemma on_moved_rinv st mid slot ty addr : WInv st -> RInv st -> RInv (on_moved st (FReq mid slot) mid ty addr).
Proof.
  intros HW H. unfold on_moved. cbn [frag_slot].
  assert (Hm : RInv (mark_moved st mid slot)) by (eapply RInv_rel; [exact HW | apply stable_mark_moved | apply rel_mark_moved | exact H]).
  assert (Wm : WInv (mark_moved st mid slot)) by (eapply WInv_wext; [apply wext_mark_moved | exact HW]).
  set (stm := mark_moved st mid slot) in *.
  destruct (find_pool stm addr) as [p|] eqn:Efp.
  - destruct (find_pool_spec _ _ _ Efp) as [Hin _].
    destruct (pool_get stm p) as [st1 [s|]] eqn:Eg; destruct (pool_get_rinv _ _ _ _ Hm (PInv_pool _ _ Hm Hin) Eg) as (R1 & _ & M1 & _ & _);
      destruct (pool_get_winv _ _ _ _ Wm Eg) as (W1 & _).
    + set (st2 := if N.eqb ty RspAsk then enqueue_out st1 s (FProbe true) else st1).
      assert (R2 : RInv st2 /\ msgs st2 = msgs st1).
      { unfold st2. destruct (N.eqb ty RspAsk); [|split; [exact R1 | reflexivity]].
        split; [apply enqueue_rinv; [exact R1 | intros sv0 mid0 slot0 _ E; discriminate] | apply (same_cm_enqueue_out st1 s (FProbe true))]. }
      destruct R2 as [R2 M2].
      apply enqueue_rinv; [exact R2|]. intros sv mid0 slot0 _ Ef Hk. exfalso. apply Hk.
      inversion Ef; subst. rewrite (okey_servers st1 st2) by exact M2. rewrite (okey_servers stm st1) by exact M1. apply okey_moved.
    + eapply RInv_rel; [exact W1 | apply stable_fail_and_flush | apply rel_fail_and_flush | exact R1].
  - eapply RInv_rel; [exact Wm | apply stable_fail_and_flush | apply rel_fail_and_flush | exact Hm].
Qed.

Lemma on_reply_rinv st s ty rsp st' : WInv st -> RInv st -> on_reply st s ty rsp = ROk st' -> RInv st'.
Proof.
  intros HW H. unfold on_reply. destruct (lookup s (servers st)) as [sv|] eqn:Hs; [|intro E; apply ROk_inj in E; subst; exact H].
  destruct (ps_inq sv) as [|f inq'] eqn:Einq; [discriminate|].
  match goal with |- context [set_inflight ?a ?b] => set (st0 := set_inflight a b) end.
  assert (H0 : RInv st0).
  { unfold st0. match goal with |- RInv (set_inflight ?x _) => apply (RInv_frame x); try reflexivity end.
    eapply RInv_same_wire; [exact H | exact Hs | reflexivity | auto]. }
  assert (W0 : WInv st0).
  { unfold st0. apply WInv_set_server; [exact HW|]. destruct HW as [H1 _]. destruct (H1 s sv Hs) as (A & B & C).
    rewrite Einq in C. inversion C; subst. split; [|split]; cbn [ps_outq ps_written ps_inq]; assumption. }
  destruct f as [|mid slot].
  - destruct (is_auth_failure ty); [discriminate|]. intro E; apply ROk_inj in E; subst; exact H0.
  - destruct (frag_done st0 mid slot); [intro E; apply ROk_inj in E; subst; exact H0|].
    destruct (N.eqb ty RspMoved || N.eqb ty RspAsk)%bool.
    + intro E; apply ROk_inj in E; subst. apply on_moved_rinv; assumption.
    + destruct (lookup mid (msgs st0)) as [m|] eqn:Em; [|intro E; apply ROk_inj in E; subst; exact H0].
      destruct (merge_step Hash (cf_limit (cfg st0)) (pm_sm m) slot ty rsp) as [[sm'|]| |]; try discriminate.
      2:{ intro E; apply ROk_inj in E; subst; exact H0. }
      destruct (is_auth_failure ty && ps_initializing sv)%bool; [discriminate|].
      match goal with |- context [set_msg st0 mid ?x] => set (st1 := set_msg st0 mid x) end.
      assert (R1 : rel st0 st1).
      { apply rel_of; [eapply wext_set_msg_same; [exact Em | reflexivity..] | eapply kext_set_msg; [exact Em | reflexivity | reflexivity | auto] | apply cext_clients; reflexivity]. }
      assert (H1 : RInv st1) by (eapply RInv_rel; [exact W0 | apply stable_set_msg | exact R1 | exact H0]).
      assert (W1 : WInv st1) by (eapply WInv_wext; [eapply wext_set_msg_same; [exact Em | reflexivity..] | exact W0]).
      destruct (lookup (pm_client m) (clients st1)) as [cl|]; [|intro E; apply ROk_inj in E; subst; exact H1].
      destruct (negb (pc_open cl)); [intro E; apply ROk_inj in E; subst; exact H1|].
      destruct (pc_queue cl); intro E; apply ROk_inj in E; subst.
      * eapply RInv_rel; [exact W1 | apply stable_close_client | apply rel_close_client | exact H1].
      * eapply RInv_rel; [exact W1 | apply stable_flush_done | apply rel_flush_done | exact H1].
Qed.

Lemma with_left_rinv st s b : RInv st -> RInv (with_left st s b).
Proof.
  intro H. unfold with_left. destruct (lookup s (servers st)) as [sv|] eqn:Hs; [|exact H].
  eapply RInv_same_wire; [exact H | exact Hs | reflexivity | auto].
Qed.

Definition RW (st : pst) : Prop := WInv st /\ RInv st.
Definition k_rw (k : pst -> nat -> bytes -> result pst) : Prop :=
  forall st s buf st', RW st -> k st s buf = ROk st' -> RW st'.

Lemma decode_reply_rw k st s buf st' : k_rw k -> RW st -> decode_reply k st s buf = ROk st' -> RW st'.
Proof.
  intros Hk [HW H]. unfold decode_reply. destruct (sdecode buf) as [| | |ty n]; try discriminate.
  - intro E; apply ROk_inj in E; subst. split; [apply with_left_winv, HW | apply with_left_rinv, H].
  - destruct (on_reply st s ty (firstn n buf)) as [st1| | |] eqn:Er; try discriminate.
    intro E. eapply Hk; [|exact E]. split; [eapply on_reply_winv; eassumption | eapply on_reply_rinv; eassumption].
Qed.

Lemma server_iter_rw k st s buf st' : k_rw k -> RW st -> server_iter k st s buf = ROk st' -> RW st'.
Proof.
  intros Hk [HW H]. unfold server_iter. destruct (lookup s (servers st)) as [sv|] eqn:Hs; [|intro E; apply ROk_inj in E; subst; split; assumption].
  destruct (ps_open sv) eqn:Ho; cbn [negb]; [|intro E; apply ROk_inj in E; subst; split; assumption].
  destruct (ps_initializing sv); [|intro E; eapply decode_reply_rw; [exact Hk | split; eassumption | exact E]].
  destruct (init_decode (ps_step sv) buf) as [| |n|]; try discriminate.
  - intro E; apply ROk_inj in E; subst. split; [apply with_left_winv, HW | apply with_left_rinv, H].
  - match goal with |- context [set_server st s ?x] => set (st1 := set_server st s x) end.
    assert (B1 : RW st1).
    { split.
      - apply WInv_set_server; [exact HW|]. destruct HW as [K1 _]. destruct (K1 s sv Hs) as (A & B & C). split; [|split]; assumption.
      - eapply RInv_same_wire; [exact H | exact Hs | reflexivity | auto]. }
    destruct (skipn n buf); [intro E; apply ROk_inj in E; subst; exact B1 | intro E; eapply decode_reply_rw; eassumption].
  - intro E; eapply decode_reply_rw; [exact Hk | split; eassumption | exact E].
Qed.

Lemma server_loop_rw : forall fuel, k_rw (server_loop fuel).
Proof.
  induction fuel as [|f IH]; intros st s buf st' H; cbn [server_loop].
  - intro E; apply ROk_inj in E; subst; exact H.
  - apply server_iter_rw; assumption.
Qed.

Lemma dial_until_rw addr total : forall fuel st, RW st -> RW (dial_until fuel st addr total).
Proof.
  induction fuel as [|f IH]; intros st [HW H]; cbn [dial_until]; [split; assumption|].
  destruct (conns_to st addr <? total)%nat; [|split; assumption].
  destruct (find_pool st addr) as [p|] eqn:Efp; [|split; assumption].
  destruct (find_pool_spec _ _ _ Efp) as [Hin _].
  apply IH. destruct (pool_get st p) as [st1 r] eqn:Eg. cbn [fst].
  split; [eapply pool_get_winv; eassumption | eapply pool_get_rinv; [exact H | apply (PInv_pool _ _ H Hin) | exact Eg]].
Qed.

Lemma ensure_dials_rw totals : forall st, RW st -> RW (ensure_dials st totals).
Proof.
  unfold ensure_dials. induction totals as [|t ts IH]; intros st H; cbn [fold_left]; [exact H|].
  apply IH, dial_until_rw, H.
Qed.

Theorem step_rw st e st' : RW st -> step st e = ROk st' -> RW st'.
Proof.
  intros [HW H] E. split; [eapply step_winv; eassumption|]. revert E.
  destruct e as [c adm|c b totals|order|s b|c|s| |s|nodes newslots|ch|da dd]; cbn [step].
  - destruct (lookup c (clients st)) eqn:Ec; intro E; apply ROk_inj in E; subst st'; [exact H|].
    match goal with |- RInv (set_client ?x _ _) => apply (RInv_frame x); try reflexivity end. exact H.
  - intro E; apply ROk_inj in E; subst st'. apply ensure_dials_rw. unfold client_data.
    destruct (lookup c (clients st)) as [cl|]; [|split; assumption].
    destruct (pc_open cl && negb (pc_closing cl))%bool; [|split; assumption].
    split; [apply client_loop_winv, HW | apply client_loop_rinv; assumption].
  - intro E; apply ROk_inj in E; subst st'. apply run_tasks_rinv; assumption.
  - unfold server_data. destruct (lookup s (servers st)) as [sv|]; [|intro E; apply ROk_inj in E; subst; exact H].
    destruct (ps_open sv); [|intro E; apply ROk_inj in E; subst; exact H].
    intro E. eapply server_loop_rw; [|exact E]. split; assumption.
  - intro E; apply ROk_inj in E; subst st'. apply (RInv_rel st); [exact HW | apply stable_close_client | apply rel_close_client | exact H].
  - intro E; apply ROk_inj in E; subst st'. apply (run_task_rinv st (fun _ => []) (TClose s)); assumption.
  - intro E; apply ROk_inj in E; subst st'. unfold timeout_scan.
    apply (RInv_frame (expire st (inflight st))); try reflexivity.
    apply (RInv_rel st); [exact HW | apply stable_expire | apply rel_expire | exact H].
  - destruct (find_pool st s) as [p|] eqn:Efp; [|intro E; apply ROk_inj in E; subst st'; exact H].
    destruct (find_pool_spec _ _ _ Efp) as [Hin _].
    destruct (pool_get st p) as [st1 [s1|]] eqn:Eg; destruct (pool_get_rinv _ _ _ _ H (PInv_pool _ _ H Hin) Eg) as (A & _);
      intro E; apply ROk_inj in E; subst st'; [|exact A].
    apply (RInv_frame st1); try reflexivity. exact A.
  - intro E; apply ROk_inj in E; subst st'. destruct H as (HP & HA & HN). split; [|split].
    + unfold PInv, apply_topology. cbn [pools]. apply Forall_forall. intros q Hq.
      apply in_concat in Hq. destruct Hq as (l & Hl & Hq). apply in_map_iff in Hl. destruct Hl as (p & <- & Hp).
      unfold PInv in HP. rewrite Forall_forall in HP. specialize (HP p Hp).
      unfold topology_pool in Hq. destruct (node_role nodes (pp_addr p)) as [r|]; [|destruct Hq].
      destruct (Bool.eqb r (pp_slave p)); destruct Hq as [<-|[]].
      * exact HP.
      * intros x Hx. destruct Hx.
    + intros s sv mid slot Hs Hin Hk. exact (HA s sv mid slot Hs Hin Hk).
    + exact HN.
  - intro E; apply ROk_inj in E; subst st'. apply (RInv_frame st); try reflexivity. exact H.
  - intro E; apply ROk_inj in E; subst st'. unfold set_dialable. apply RInv_set_pools; [exact H|].
    destruct H as (HP & _). unfold PInv in HP. apply Forall_forall. intros q Hq. apply in_map_iff in Hq.
    destruct Hq as (p0 & <- & Hp0). rewrite Forall_forall in HP. specialize (HP p0 Hp0).
    destruct (beqb (pp_addr p0) da); [|exact HP]. intros x Hx. cbn [pp_conns pp_addr] in *. apply HP, Hx.
Qed.

Theorem run_rw evs : forall st st', RW st -> run st evs = ROk st' -> RW st'.
Proof.
  induction evs as [|e r IH]; intros st st' H; cbn [run].
  - intro E; apply ROk_inj in E; subst; exact H.
  - destruct (step st e) as [st1| | |] eqn:Es; try discriminate. intro E. eapply IH; [eapply step_rw; eassumption | exact E].
Qed.

(* the configured pools start without connections *)
Lemma init_rw c pools slots : Forall (fun p => pp_conns p = []) pools -> RW (init_state c pools slots).
Proof.
  intro Hp. split; [apply init_winv|]. split; [|split].
  - unfold PInv. cbn [init_state Proxy.pools]. eapply Forall_impl; [|exact Hp]. intros p E s Hs. rewrite E in Hs. destruct Hs.
  - intros s sv mid slot Hs. cbn in Hs. discriminate.
  - intros s sv Hs. cbn in Hs. discriminate.
Qed.

(* C04 at the level of the event loop *)
Theorem delivered_to_the_owner c pools slots evs st s sv mid slot :
  Forall (fun p => pp_conns p = []) pools ->
  run (init_state c pools slots) evs = ROk st -> lookup s (servers st) = Some sv ->
  In (FReq mid slot) (map fst (ps_written sv) ++ ps_outq sv) ->
  okey st (FReq mid slot) <> None ->            (* a fragment that was not redirected here by a node *)
  routed st mid slot (ps_addr sv).
Proof.
  intros Hp Hrun Hs Hin Hk. destruct (run_rw evs _ _ (init_rw c pools slots Hp) Hrun) as [_ (_ & HA & _)].
  eapply HA; eassumption.
Qed.

Theorem pools_hold_their_own_connections c pools slots evs st p s sv :
  Forall (fun p => pp_conns p = []) pools ->
  run (init_state c pools slots) evs = ROk st -> In p (Proxy.pools st) -> In s (pp_conns p) ->
  lookup s (servers st) = Some sv -> ps_addr sv = pp_addr p.
Proof.
  intros Hp Hrun Hin Hs Hl. destruct (run_rw evs _ _ (init_rw c pools slots Hp) Hrun) as [_ R].
  destruct (PInv_pool _ _ R Hin s Hs) as [_ B]. apply B, Hl.
Qed.

(* what the routing record is: the owners, in the slot table in force at that moment, of the slots of
   the request - written once, when OnCReact has found a connection for every fragment *)
Theorem routing_record_is_the_slot_table st c m st1 targets :
  (N.eqb (cm_type m) UNKNOWN || (Sentinel <=? cm_type m))%bool = false ->
  N.eqb (cm_type m) ReqTooLarge = false -> N.eqb (cm_type m) ReqWrongArgumentsNumber = false ->
  N.eqb (cm_type m) ReqPing = false -> N.eqb (cm_type m) ReqQuit = false -> N.eqb (cm_type m) ReqAuth = false ->
  resolve st (route_plan st (cm_type m) (by_slot (cm_body m))) = (st1, inl targets) ->
  exists pm, lookup (next_mid st1) (msgs (on_request st c m)) = Some pm /\
             pm_route pm = route_plan st (cm_type m) (by_slot (cm_body m)).
Proof.
  intros T1 T2 T3 T4 T5 T6 Er. unfold on_request. rewrite T1, T2, T3, T4, T5, T6, Er.
  match goal with |- context [set_msg st1 (next_mid st1) ?x] => set (pm := x) end.
  exists pm. split; [|reflexivity].
  match goal with |- lookup _ (msgs (match lookup c (clients ?x) with _ => _ end)) = _ => set (st3 := x) end.
  assert (E3 : msgs st3 = msgs (bump_mid (set_msg st1 (next_mid st1) pm))).
  { unfold st3. destruct (fold_enqueue_same targets (next_mid st1) (bump_mid (set_msg st1 (next_mid st1) pm))) as (_ & E & _). exact E. }
  destruct (lookup c (clients st3)); cbn [set_client msgs]; rewrite E3; cbn [bump_mid set_msg msgs]; apply lookup_update_eq.
Qed.

(* what a routing plan can say (C04, at the level of the loop): the node planned for a slot is the
   master of the set that owns the slot in the table in force, or - only for a read that may go to
   a replica (type up to the write marker, not a cursor scan), only with replica reads enabled - one of
   the replicas of that set that has a pool.  This is Model/Route.v's route, i.e. the function the
   route suite ties to listenServer.route, applied to the state of the loop. *)
Theorem slot_target_by_role st ty slot req a : slot_target st ty slot req = Some a ->
  exists m, slot_master st slot = Some m /\
    (a = m \/
     (In a (replicas_of (cfg st) m) /\ has_pool st a = true /\ cf_replica_reads (cfg st) = true /\
      ty <= ReqWriteCmdStart /\ ty <> ReqHscan /\ ty <> ReqSscan /\ ty <> ReqZscan)).
Proof.
  unfold slot_target. destruct (slot_master st slot) as [m|]; [|discriminate].
  destruct (chosen st req) as [c|]; [|intro E; inversion E; subst; exists a; auto].
  set (slaves := map (fun r => {| r_addr := r; r_pool := has_pool st r; r_ban := false; r_lift_before_now := false |}) (replicas_of (cfg st) m)).
  set (rnd := fun _ : nat => index_of c (live_slaves slaves)).
  pose proof (route_member (negb (cf_replica_reads (cfg st))) ty m slaves rnd) as Hm.
  destruct (route (negb (cf_replica_reads (cfg st))) ty m slaves rnd) as [addr sl] eqn:Er. cbn [fst].
  intro E. exists m. split; [reflexivity|].
  destruct Hm as [(_ & ->)|[(Hsl & r & Hin & Hr & Hl)|(_ & -> & _)]].
  - left. destruct m; [discriminate | inversion E; reflexivity].
  - right. assert (Ea : a = addr) by (destruct addr; [discriminate | inversion E; reflexivity]). subst a.
    unfold slaves in Hin. apply in_map_iff in Hin. destruct Hin as (x & <- & Hx). cbn [r_addr] in Hr. subst addr.
    unfold live in Hl. cbn [r_pool r_ban] in Hl. rewrite Bool.andb_false_l, Bool.andb_true_r in Hl.
    split; [exact Hx|]. split; [exact Hl|].
    assert (Hnm : forall P : Prop, (P -> route (negb (cf_replica_reads (cfg st))) ty m slaves rnd = (m, false)) -> ~ P).
    { intros P HP HPp. rewrite (HP HPp) in Er. inversion Er; subst. discriminate. }
    split; [|split; [|split; [|split]]].
    + destruct (cf_replica_reads (cfg st)) eqn:Ec; [reflexivity|]. exfalso.
      apply (Hnm True); [|exact I]. intros _. apply route_master_when. left. reflexivity.
    + destruct (N.le_gt_cases ty ReqWriteCmdStart) as [Hle|Hgt]; [exact Hle|]. exfalso.
      apply (Hnm True); [|exact I]. intros _. apply route_master_when. right. left. exact Hgt.
    + intro Et. apply (Hnm True); [|exact I]. intros _. apply route_master_when. right. right. left. exact Et.
    + intro Et. apply (Hnm True); [|exact I]. intros _. apply route_master_when. right. right. right. left. exact Et.
    + intro Et. apply (Hnm True); [|exact I]. intros _. apply route_master_when. right. right. right. right. exact Et.
  - discriminate.
Qed.

Theorem plan_by_role st ty body slot a : In (slot, Some a) (route_plan st ty body) ->
  exists m, slot_master st slot = Some m /\
    (a = m \/
     (In a (replicas_of (cfg st) m) /\ has_pool st a = true /\ cf_replica_reads (cfg st) = true /\
      ty <= ReqWriteCmdStart /\ ty <> ReqHscan /\ ty <> ReqSscan /\ ty <> ReqZscan)).
Proof.
  unfold route_plan. intro H. apply in_map_iff in H. destruct H as (sf & E & _). inversion E; subst.
  eapply slot_target_by_role; eassumption.
Qed.

(* with replica reads switched off the plan is the slot table (node addresses are not empty) *)
Theorem plan_is_the_slot_table st ty body : cf_replica_reads (cfg st) = false ->
  (forall slot, slot_master st slot <> Some []) ->
  route_plan st ty body = map (fun sf => (fst sf, slot_master st (fst sf))) body.
Proof.
  intros Hc Hne. unfold route_plan. apply map_ext. intro sf. f_equal. unfold slot_target.
  pose proof (Hne (fst sf)) as Hn.
  destruct (slot_master st (fst sf)) as [m|]; [|reflexivity].
  destruct (chosen st (cf_req (snd sf))) as [c|]; [|reflexivity].
  rewrite Hc. cbn [negb]. unfold route. cbn [fst]. destruct m; [exfalso; apply Hn; reflexivity | reflexivity].
Qed.

(* ---------- the two models of the ticker agree ---------- *)
(* Model/Cluster.v (C14) computes the pool set after a ticker round from the adopted servers; the
   event loop model applies the same change to its pools (nodes that are new get their pool from the
   production dialer and are outside the event-loop histories).  On the pools that exist, both say
   the same thing. *)
Definition pool_key (p : ppool) : bytes * bool := (pp_addr p, pp_slave p).
Definition node_key (n : cnode) : bytes * bool := (cn_addr n, cn_slave n).

Lemma node_role_find servers a :
  node_role (map node_key servers) a = match find (fun n => beqb (cn_addr n) a) servers with Some n => Some (cn_slave n) | None => None end.
Proof.
  unfold node_role. induction servers as [|n r IH]; cbn [map find node_key fst snd]; [reflexivity|].
  destruct (beqb (cn_addr n) a); [reflexivity | exact IH].
Qed.

Lemma beqb_sym (a b : bytes) : beqb a b = beqb b a.
Proof.
  destruct (beqb a b) eqn:E1; destruct (beqb b a) eqn:E2; try reflexivity.
  - apply beqb_eq in E1. subst. rewrite beqb_refl in E2. discriminate.
  - apply beqb_eq in E2. subst. rewrite beqb_refl in E1. discriminate.
Qed.

Lemma memb_find a servers : memb a (map cn_addr servers) = match find (fun n => beqb (cn_addr n) a) servers with Some _ => true | None => false end.
Proof.
  unfold memb. induction servers as [|n r IH]; cbn [map existsb find]; [reflexivity|].
  rewrite (beqb_sym a (cn_addr n)). destruct (beqb (cn_addr n) a); [reflexivity | exact IH].
Qed.

Theorem ticker_models_agree pools servers :
  tick_pools (map pool_key pools) servers =
  map pool_key (concat (map (topology_pool (map node_key servers)) pools)) ++
  map node_key (filter (fun n => negb (memb (cn_addr n) (map pp_addr pools))) servers).
Proof.
  unfold tick_pools. f_equal.
  - induction pools as [|p r IH]; cbn [map filter concat]; [reflexivity|].
    cbn [pool_key fst]. rewrite memb_find. unfold topology_pool. rewrite node_role_find.
    destruct (find (fun n => beqb (cn_addr n) (pp_addr p)) servers) as [n|] eqn:Ef; cbn [map app].
    + cbn [pool_key fst]. rewrite Ef. rewrite map_app, IH. f_equal.
      destruct (Bool.eqb (cn_slave n) (pp_slave p)) eqn:E; cbn [map pool_key pp_addr pp_slave]; [|reflexivity].
      apply Bool.eqb_prop in E. rewrite E. reflexivity.
    + exact IH.
  - rewrite map_map. cbn [pool_key fst]. reflexivity.
Qed.
