(* Server-side invariant of the event-loop model (C03 / C04 / C10 ingredients): for every backend
   connection, in every reachable state,
     - the bytes it has received are the handshake followed by the requests of the fragments written
       to it, in write order;
     - the fragments waiting for a reply are exactly the written ones not yet answered, in the same
       order: the i-th reply consumed on the connection is given to the fragment whose request was
       the i-th on the wire. *)
From RcProxy Require Import Base.Bytes Base.Dec Gen.Generated Spec.RespGrammar
  Model.RespBuf Model.Commands Model.Crc16 Model.ClientCodec Model.ClientFeed Model.ServerCodec Model.Route
  Model.Cluster Model.Proxy Proofs.ProxyProofs.
From Coq Require Import ZifyN ZifyNat ZifyBool.
Open Scope N_scope.

Definition handshake_of (st : pst) (sv : pserver) : bytes := fst (on_s_opened (cf_password (cfg st)) (ps_slave sv)).

Record server_ok (st : pst) (sv : pserver) : Prop := {
  so_got : ps_got sv = handshake_of st sv ++ concat (map snd (ps_written sv));
  so_taken : (ps_taken sv <= length (ps_written sv))%nat;
  so_inq : ps_open sv = true -> ps_inq sv = map fst (skipn (ps_taken sv) (ps_written sv));
  so_closed : ps_open sv = false -> ps_inq sv = [] /\ ps_outq sv = []
}.

Definition SInv (st : pst) : Prop :=
  (forall s sv, lookup s (servers st) = Some sv -> server_ok st sv) /\
  (forall s sv, lookup s (servers st) = Some sv -> (s < next_sid st)%nat).

Definition same_s (st st' : pst) : Prop := servers st' = servers st /\ cfg st' = cfg st /\ next_sid st' = next_sid st.
Lemma same_s_refl st : same_s st st. Proof. repeat split. Qed.
Lemma same_s_trans a b c : same_s a b -> same_s b c -> same_s a c.
Proof. intros (A & B & C) (D & E & F). repeat split; congruence. Qed.

Lemma server_ok_cfg st st' sv : cfg st' = cfg st -> server_ok st sv -> server_ok st' sv.
Proof. intros E [A B C D]. constructor; auto. unfold handshake_of. rewrite E. exact A. Qed.

Lemma SInv_same st st' : same_s st st' -> SInv st -> SInv st'.
Proof.
  intros (A & B & C) [H1 H2]. split.
  - intros s sv Hl. rewrite A in Hl. apply (server_ok_cfg st); [exact B | apply H1 with s, Hl].
  - intros s sv Hl. rewrite A in Hl. rewrite C. eapply H2, Hl.
Qed.

(* client-side operations do not touch the servers *)
Lemma same_s_set_client st c x : same_s st (set_client st c x). Proof. repeat split. Qed.
Lemma same_s_set_msg st m x : same_s st (set_msg st m x). Proof. repeat split. Qed.
Lemma same_s_bump_mid st : same_s st (bump_mid st). Proof. repeat split. Qed.
Lemma same_s_set_tasks st t : same_s st (set_tasks st t). Proof. repeat split. Qed.
Lemma same_s_set_inflight st t : same_s st (set_inflight st t). Proof. repeat split. Qed.
Lemma same_s_set_pools st t : same_s st (set_pools st t). Proof. repeat split. Qed.

Lemma same_s_flush_done st c : same_s st (flush_done st c).
Proof.
  unfold flush_done. destruct (lookup c (clients st)) as [cl|]; [|apply same_s_refl].
  destruct (done_prefix st (pc_queue cl)) as [d rest]. destruct d; [apply same_s_refl | apply same_s_set_client].
Qed.
Lemma same_s_flush_if_open st c : same_s st (flush_if_open st c).
Proof.
  unfold flush_if_open. destruct (lookup c (clients st)) as [cl|]; [|apply same_s_refl].
  destruct (pc_open cl); [apply same_s_flush_done | apply same_s_refl].
Qed.
Lemma same_s_fail_msg st mid e : same_s st (fail_msg st mid e).
Proof. unfold fail_msg. destruct (lookup mid (msgs st)); [apply same_s_set_msg | apply same_s_refl]. Qed.
Lemma same_s_close_client st c : same_s st (close_client st c).
Proof.
  unfold close_client. destruct (lookup c (clients st)) as [cl|]; [|apply same_s_refl].
  destruct (pc_open cl); [apply same_s_set_client | apply same_s_refl].
Qed.
Lemma same_s_mark_moved st mid slot : same_s st (mark_moved st mid slot).
Proof. unfold mark_moved. destruct (lookup mid (msgs st)); [apply same_s_set_msg | apply same_s_refl]. Qed.

Lemma same_s_fail_and_flush st mid e :
  same_s st (let st1 := fail_msg st mid e in
             match lookup mid (msgs st1) with Some m => flush_if_open st1 (pm_client m) | None => st1 end).
Proof.
  cbv zeta. destruct (lookup mid (msgs (fail_msg st mid e))).
  - eapply same_s_trans; [apply same_s_fail_msg | apply same_s_flush_if_open].
  - apply same_s_fail_msg.
Qed.

Lemma same_s_local_reply st c m out close : same_s st (local_reply st c m out close).
Proof.
  unfold local_reply. destruct (lookup c (clients st)) as [cl|]; [|apply same_s_refl].
  destruct (pc_queue cl) as [|hd q].
  - destruct close; [eapply same_s_trans; [apply same_s_set_client | apply same_s_close_client] | apply same_s_set_client].
  - cbv zeta.
    match goal with |- same_s st (if close then match lookup c (clients ?x) with _ => _ end else _) => set (st1 := x) end.
    assert (H1 : same_s st st1).
    { unfold st1. eapply same_s_trans; [eapply same_s_trans; [apply same_s_set_msg | apply same_s_bump_mid] | apply same_s_set_client]. }
    destruct close; [|exact H1].
    destruct (lookup c (clients st1)); [eapply same_s_trans; [exact H1 | apply same_s_set_client] | exact H1].
Qed.

(* ---------- updating one server ---------- *)
Lemma SInv_set_server st s sv' :
  SInv st -> (exists sv, lookup s (servers st) = Some sv) -> server_ok st sv' -> SInv (set_server st s sv').
Proof.
  intros [H1 H2] (sv & Hs) Hok. split.
  - intros x svx Hl. cbn [set_server servers] in Hl. rewrite lookup_update in Hl.
    destruct (Nat.eqb_spec x s) as [->|].
    + inversion Hl; subst svx. apply (server_ok_cfg st); [reflexivity | exact Hok].
    + apply (server_ok_cfg st); [reflexivity | apply H1 with x, Hl].
  - intros x svx Hl. cbn [set_server servers next_sid] in *. rewrite lookup_update in Hl.
    destruct (Nat.eqb_spec x s) as [->|]; [eapply H2, Hs | eapply H2, Hl].
Qed.

Lemma enqueue_out_sinv st s f : SInv st ->
  (forall sv, lookup s (servers st) = Some sv -> ps_open sv = true) -> SInv (enqueue_out st s f).
Proof.
  intros H Hopen. unfold enqueue_out. destruct (lookup s (servers st)) as [sv|] eqn:Hs; [|exact H].
  eapply SInv_same; [apply same_s_set_tasks|].
  apply SInv_set_server; [exact H | eauto|].
  destruct H as [H1 _]. destruct (H1 s sv Hs) as [A B C D]. specialize (Hopen sv eq_refl).
  constructor; cbn [ps_got ps_written ps_taken ps_open ps_inq ps_outq ps_slave]; auto.
  intro Hc. congruence.
Qed.

(* ---------- dialling ---------- *)
Lemma dial_sinv st p st' s : SInv st -> dial st p = Some (st', s) ->
  SInv st' /\ (exists sv, lookup s (servers st') = Some sv /\ ps_open sv = true) /\
  (forall x svx, lookup x (servers st) = Some svx -> lookup x (servers st') = Some svx).
Proof.
  intros [H1 H2]. unfold dial. destruct (pp_dialable p); [|discriminate].
  destruct (on_s_opened (cf_password (cfg st)) (pp_slave p)) as [hs step] eqn:Ehs. intro E. inversion E; subst. clear E.
  assert (Hfresh : lookup (next_sid st) (servers st) = None).
  { destruct (lookup (next_sid st) (servers st)) as [sv|] eqn:El; [|reflexivity]. specialize (H2 _ _ El). lia. }
  split; [|split].
  - split.
    + intros x svx Hl. cbn [bump_sid set_server servers] in Hl. rewrite lookup_update in Hl.
      destruct (Nat.eqb_spec x (next_sid st)) as [->|].
      * inversion Hl; subst svx. constructor; cbn [ps_got ps_written ps_taken ps_open ps_inq ps_outq ps_slave].
        -- unfold handshake_of. cbn [bump_sid set_server cfg ps_slave]. rewrite Ehs. cbn [fst map concat]. rewrite app_nil_r. reflexivity.
        -- lia.
        -- reflexivity.
        -- discriminate.
      * apply (server_ok_cfg st); [reflexivity | apply H1 with x, Hl].
    + intros x svx Hl. cbn [bump_sid set_server servers next_sid] in *. rewrite lookup_update in Hl.
      destruct (Nat.eqb_spec x (next_sid st)) as [->|]; [lia|]. specialize (H2 _ _ Hl). lia.
  - eexists. cbn [bump_sid set_server servers]. rewrite lookup_update_eq. split; reflexivity.
  - intros x svx Hl. cbn [bump_sid set_server servers]. rewrite lookup_update_ne; [exact Hl|].
    intro E. subst x. congruence.
Qed.

Lemma rotate_open st : forall fuel conns s conns' rest,
  rotate st fuel conns = (Some (s, conns'), rest) -> server_open st s = true.
Proof.
  induction fuel as [|f IH]; intros conns s conns' rest H; cbn [rotate] in H; [discriminate|].
  destruct (rev conns) as [|back rr]; [discriminate|].
  destruct (server_open st back) eqn:E; [inversion H; subst; exact E | eapply IH, H].
Qed.

Lemma pool_get_sinv st p st' r : SInv st -> pool_get st p = (st', r) ->
  SInv st' /\ (forall s, r = Some s -> exists sv, lookup s (servers st') = Some sv /\ ps_open sv = true) /\
  (forall x svx, lookup x (servers st) = Some svx -> lookup x (servers st') = Some svx).
Proof.
  intros H. unfold pool_get.
  destruct (pp_closed p); [intro E; inversion E; subst; split; [exact H|]; split; [discriminate | auto]|].
  destruct (length (pp_conns p) <? cf_max_active (cfg st))%nat.
  - destruct (dial st p) as [[st1 s]|] eqn:Ed.
    + intro E. inversion E; subst. destruct (dial_sinv _ _ _ _ H Ed) as (A & B & C).
      split; [eapply SInv_same; [apply same_s_set_pools | exact A]|]. split; [|exact C].
      intros s0 Es. inversion Es; subst s0. exact B.
    + intro E. inversion E; subst. split; [exact H|]. split; [discriminate | auto].
  - destruct (rotate st (S (length (pp_conns p))) (pp_conns p)) as [[[s conns']|] conns''] eqn:Er.
    + intro E. inversion E; subst. split; [eapply SInv_same; [apply same_s_set_pools | exact H]|]. split; [|auto].
      intros s0 Es. inversion Es; subst s0. pose proof (rotate_open _ _ _ _ _ _ Er) as Ho.
      unfold server_open in Ho. cbn [set_pools servers]. destruct (lookup s (servers st)) as [sv|]; [|discriminate].
      exists sv. auto.
    + destruct (dial st p) as [[st1 s]|] eqn:Ed.
      * intro E. inversion E; subst. destruct (dial_sinv _ _ _ _ H Ed) as (A & B & C).
        split; [eapply SInv_same; [apply same_s_set_pools | exact A]|]. split; [|exact C].
        intros s0 Es. inversion Es; subst s0. exact B.
      * intro E. inversion E; subst. split; [eapply SInv_same; [apply same_s_set_pools | exact H]|]. split; [discriminate | auto].
Qed.

(* ---------- OnCReact ---------- *)
Definition targets_open (st : pst) (targets : list (N * nat)) : Prop :=
  forall t, In t targets -> exists sv, lookup (snd t) (servers st) = Some sv /\ ps_open sv = true.

Lemma open_preserved st st' :
  (forall x svx, lookup x (servers st) = Some svx -> lookup x (servers st') = Some svx) ->
  forall targets, targets_open st targets -> targets_open st' targets.
Proof. intros H targets Ht t Hin. destruct (Ht t Hin) as (sv & A & B). exists sv. split; [apply H, A | exact B]. Qed.

Lemma resolve_sinv body : forall st st' r, SInv st -> resolve st body = (st', r) ->
  SInv st' /\ (forall targets, r = inl targets -> targets_open st' targets) /\
  (forall x svx, lookup x (servers st) = Some svx -> lookup x (servers st') = Some svx).
Proof.
  induction body as [|[slot f] rest IH]; intros st st' r H; cbn [resolve].
  - intro E. inversion E; subst. split; [exact H|]. split; [|auto]. intros targets Et. inversion Et. intros t [].
  - destruct f as [addr|]; [|intro E; inversion E; subst; split; [exact H|]; split; [discriminate | auto]].
    destruct (find_pool st addr) as [p|]; [|intro E; inversion E; subst; split; [exact H|]; split; [discriminate | auto]].
    destruct (pool_get st p) as [st1 [s|]] eqn:Eg.
    + destruct (pool_get_sinv _ _ _ _ H Eg) as (A & B & C).
      destruct (resolve st1 rest) as [st2 [l|e]] eqn:Er; intro E; inversion E; subst.
      * destruct (IH _ _ _ A Er) as (A2 & B2 & C2). split; [exact A2|]. split; [|intros; apply C2, C; assumption].
        intros targets Et. inversion Et; subst. intros t [<-|Hin].
        -- cbn [snd]. destruct (B s eq_refl) as (sv & Hs & Ho). exists sv. split; [apply C2, Hs | exact Ho].
        -- apply (B2 l eq_refl), Hin.
      * destruct (IH _ _ _ A Er) as (A2 & B2 & C2). split; [exact A2|]. split; [discriminate | intros; apply C2, C; assumption].
    + destruct (pool_get_sinv _ _ _ _ H Eg) as (A & B & C).
      intro E. inversion E; subst. split; [exact A|]. split; [discriminate | exact C].
Qed.

Lemma fold_enqueue_sinv mid : forall targets st, SInv st -> targets_open st targets ->
  SInv (fold_left (fun s (t : N * nat) => enqueue_out s (snd t) (FReq mid (fst t))) targets st).
Proof.
  induction targets as [|t ts IH]; intros st H Ho; cbn [fold_left]; [exact H|].
  apply IH.
  - apply enqueue_out_sinv; [exact H|]. intros sv Hl. destruct (Ho t (or_introl eq_refl)) as (sv' & A & B). congruence.
  - intros t' Hin. destruct (Ho t' (or_intror Hin)) as (sv & A & B).
    unfold enqueue_out. destruct (lookup (snd t) (servers st)) as [svt|] eqn:Et; [|exists sv; auto].
    cbn [set_tasks set_server servers]. rewrite lookup_update.
    destruct (Nat.eqb_spec (snd t') (snd t)) as [E|]; [|exists sv; auto].
    rewrite E in A. rewrite Et in A. inversion A; subst. eexists. split; [reflexivity | exact B].
Qed.

Lemma on_request_sinv st c m : SInv st -> SInv (on_request st c m).
Proof.
  intro H. unfold on_request.
  do 5 match goal with
       | |- SInv (if ?b then _ else _) => destruct b; [eapply SInv_same; [apply same_s_local_reply | exact H]|]
       end.
  destruct (cm_type m =? ReqAuth).
  - destruct (cf_password (cfg st)); [eapply SInv_same; [apply same_s_local_reply | exact H]|].
    destruct (cm_body m) as [|[s0 f0] body]; [exact H|].
    destruct (beqb _ _); (eapply SInv_same; [apply same_s_local_reply | exact H]).
  - destruct (resolve st (route_plan st (cm_type m) (by_slot (cm_body m)))) as [st1 [targets|e]] eqn:Er.
    2:{ eapply SInv_same; [apply same_s_local_reply | exact H]. }
    destruct (resolve_sinv _ _ _ _ H Er) as (A & B & _). specialize (B targets eq_refl).
    match goal with |- SInv (match lookup c (clients ?x) with _ => _ end) => set (st3 := x) end.
    assert (H3 : SInv st3).
    { unfold st3. apply fold_enqueue_sinv.
      - eapply SInv_same; [eapply same_s_trans; [apply same_s_set_msg | apply same_s_bump_mid] | exact A].
      - exact B. }
    destruct (lookup c (clients st3)); [eapply SInv_same; [apply same_s_set_client | exact H3] | exact H3].
Qed.

Lemma client_loop_sinv : forall fuel st c buf, SInv st -> SInv (client_loop fuel st c buf).
Proof.
  induction fuel as [|f IH]; intros st c buf H; cbn [client_loop]; [exact H|].
  destruct (lookup c (clients st)) as [cl|]; [|exact H].
  destruct (negb (pc_open cl) || pc_closing cl)%bool; [exact H|].
  destruct (decode (cf_limit (cfg st)) buf) as [| | | |m n]; try exact H.
  - eapply SInv_same; [apply same_s_set_client | exact H].
  - eapply SInv_same; [apply same_s_close_client | exact H].
  - apply IH, on_request_sinv, H.
Qed.

(* ---------- tasks ---------- *)
Lemma reorder_length : forall fuel order l, length (reorder fuel order l) = length l.
Proof.
  assert (Hins : forall ord f l, length (insert_by_order ord f l) = S (length l)).
  { intros ord f l. induction l as [|g r IH]; cbn [insert_by_order]; [reflexivity|].
    destruct (_ <=? _)%nat; cbn [length]; [reflexivity | rewrite IH; reflexivity]. }
  assert (Hsort : forall ord l, length (fold_right (insert_by_order ord) [] l) = length l).
  { intros ord l. induction l as [|f r IH]; cbn [fold_right]; [reflexivity | rewrite Hins, IH; reflexivity]. }
  assert (Hrun : forall mid l run rest, same_msg_run mid l = (run, rest) -> (length run + length rest = length l)%nat).
  { intros mid l. induction l as [|f r IH]; intros run rest H; cbn [same_msg_run] in H; [inversion H; reflexivity|].
    destruct (match mid, frag_mid f with Some a, Some b => Nat.eqb a b | _, _ => false end).
    - destruct (same_msg_run mid r) as [run' rest'] eqn:E. inversion H; subst. specialize (IH _ _ eq_refl). cbn [length]. lia.
    - inversion H; subst. reflexivity. }
  induction fuel as [|k IH]; intros order l; cbn [reorder]; [reflexivity|].
  destruct l as [|f r]; [reflexivity|].
  destruct (same_msg_run (frag_mid f) r) as [run rest] eqn:E.
  rewrite app_length, Hsort, IH. specialize (Hrun _ _ _ _ E). cbn [length]. lia.
Qed.

Lemma skipn_app_le' {A} n (l e : list A) : (n <= length l)%nat -> skipn n (l ++ e) = skipn n l ++ e.
Proof. intro H. rewrite skipn_app. replace (n - length l)%nat with O by lia. reflexivity. Qed.

Lemma run_task_sinv st order t : SInv st -> SInv (run_task st order t).
Proof.
  intro H. destruct t as [s|s|s]; cbn [run_task].
  - destruct (lookup s (servers st)) as [sv|] eqn:Hs; [|exact H].
    destruct (ps_open sv) eqn:Ho; cbn [negb]; [|exact H].
    destruct (ps_outq sv) as [|f q] eqn:Eq; [exact H|].
    set (q' := reorder (length (f :: q)) (order s) (f :: q)).
    assert (Hst1 : SInv (set_server st s {| ps_open := true; ps_addr := ps_addr sv; ps_slave := ps_slave sv;
               ps_initializing := ps_initializing sv; ps_step := ps_step sv; ps_left := ps_left sv; ps_outq := [];
               ps_inq := ps_inq sv ++ q'; ps_got := ps_got sv ++ concat (map (frag_req st) q');
               ps_written := ps_written sv ++ map (fun f0 => (f0, frag_req st f0)) q'; ps_taken := ps_taken sv |})).
    { apply SInv_set_server; [exact H | eauto|].
      destruct H as [H1 _]. destruct (H1 s sv Hs) as [A B C D].
      constructor; cbn [ps_got ps_written ps_taken ps_open ps_inq ps_outq ps_slave].
      - rewrite A. unfold handshake_of. cbn [ps_slave]. rewrite map_app, concat_app, map_map. cbn [snd]. rewrite app_assoc. reflexivity.
      - rewrite app_length. lia.
      - intros _. rewrite (C Ho), skipn_app_le' by exact B. rewrite map_app, map_map. cbn [fst]. rewrite map_id. reflexivity.
      - discriminate. }
    destruct (cf_timeout (cfg st)); [eapply SInv_same; [apply same_s_set_inflight | exact Hst1] | exact Hst1].
  - (* TClose *)
    unfold close_server. destruct (lookup s (servers st)) as [sv|] eqn:Hs; [|exact H].
    destruct (ps_open sv); [|exact H].
    assert (Hff : forall fs st0, same_s st0 (fail_frags st0 fs)).
    { induction fs as [|f fs IHf]; intro st0; cbn [fail_frags]; [apply same_s_refl|].
      destruct f as [|mid slot]; [apply IHf|]. destruct (frag_done st0 mid slot); [apply IHf|].
      eapply same_s_trans; [apply (same_s_fail_and_flush st0 mid ErrUnKnownProxyPoolConnError) | apply IHf]. }
    set (st1 := fail_frags st (ps_inq sv ++ ps_outq sv)).
    assert (H1 : SInv st1) by (eapply SInv_same; [apply Hff | exact H]).
    apply SInv_set_server.
    + eapply SInv_same; [apply same_s_set_inflight | exact H1].
    + cbn [set_inflight servers]. destruct (Hff (ps_inq sv ++ ps_outq sv) st) as (E & _). fold st1 in E. rewrite E. eauto.
    + destruct H as [K1 _]. destruct (K1 s sv Hs) as [A B C D].
      constructor; cbn [ps_got ps_written ps_taken ps_open ps_inq ps_outq ps_slave]; auto; try discriminate.
      unfold handshake_of. cbn [set_inflight cfg ps_slave]. destruct (Hff (ps_inq sv ++ ps_outq sv) st) as (_ & E & _). fold st1 in E. rewrite E. exact A.
  - destruct (lookup s (servers st)) as [sv|] eqn:Hs; [|exact H].
    destruct (ps_open sv) eqn:Ho; [|exact H]. apply enqueue_out_sinv; [exact H|]. intros sv' Hl. congruence.
Qed.

Lemma run_tasks_sinv order : forall fuel st, SInv st -> SInv (run_tasks fuel st order).
Proof.
  induction fuel as [|f IH]; intros st H; cbn [run_tasks]; [exact H|].
  destruct (tasks st) as [|t rest]; [exact H|].
  apply IH, run_task_sinv. eapply SInv_same; [apply same_s_set_tasks | exact H].
Qed.

(* ---------- backend replies ---------- *)
Lemma skipn_cons_inv {A} : forall n (l : list A) x r, skipn n l = x :: r -> skipn (S n) l = r /\ (n < length l)%nat.
Proof.
  induction n as [|n IH]; intros l x r H.
  - destruct l as [|y l]; [discriminate|]. cbn [skipn] in *. inversion H; subst. split; [reflexivity | cbn [length]; lia].
  - destruct l as [|y l]; [discriminate|]. cbn [skipn] in H. destruct (IH _ _ _ H) as [K1 K2].
    split; [exact K1 | cbn [length]; lia].
Qed.

Lemma on_moved_sinv st f mid ty addr : SInv st -> SInv (on_moved st f mid ty addr).
Proof.
  intro H. unfold on_moved.
  assert (Hm : SInv (mark_moved st mid (frag_slot f))) by (eapply SInv_same; [apply same_s_mark_moved | exact H]).
  set (stm := mark_moved st mid (frag_slot f)) in *.
  destruct (find_pool stm addr) as [p|].
  - destruct (pool_get stm p) as [st1 [s|]] eqn:Eg; destruct (pool_get_sinv _ _ _ _ Hm Eg) as (A & B & C).
    + assert (Hop : forall sv, lookup s (servers st1) = Some sv -> ps_open sv = true).
      { intros sv Hl. destruct (B s eq_refl) as (sv' & Hs & Ho). congruence. }
      destruct (N.eqb ty RspAsk).
      * apply enqueue_out_sinv; [apply enqueue_out_sinv; [exact A | exact Hop]|].
        intros sv Hl. destruct (enqueue_out_open _ _ _ _ Hl) as (sv0 & Hl0 & Eo & _). rewrite Eo. apply Hop, Hl0.
      * apply enqueue_out_sinv; [exact A | exact Hop].
    + eapply SInv_same; [apply same_s_fail_and_flush | exact A].
  - eapply SInv_same; [apply same_s_fail_and_flush | exact Hm].
Qed.

Lemma on_reply_sinv st s ty rsp st' : SInv st -> on_reply st s ty rsp = ROk st' -> SInv st'.
Proof.
  intros H. unfold on_reply. destruct (lookup s (servers st)) as [sv|] eqn:Hs; [|intro E; inversion E; subst; exact H].
  destruct (ps_inq sv) as [|f inq'] eqn:Einq; [discriminate|].
  match goal with |- context [set_inflight ?a ?b] => set (st0 := set_inflight a b) end.
  assert (H0 : SInv st0).
  { unfold st0. eapply SInv_same; [apply same_s_set_inflight|].
    apply SInv_set_server; [exact H | eauto|].
    destruct H as [H1 _]. destruct (H1 s sv Hs) as [A B C D].
    destruct (ps_open sv) eqn:Ho; [|destruct (D eq_refl) as [D1 _]; congruence].
    specialize (C eq_refl). rewrite Einq in C.
    destruct (skipn (ps_taken sv) (ps_written sv)) as [|w ws] eqn:Esk; [discriminate|].
    destruct (skipn_cons_inv _ _ _ _ Esk) as [K1 K2].
    constructor; cbn [ps_got ps_written ps_taken ps_open ps_inq ps_outq ps_slave].
    - exact A.
    - lia.
    - intros _. rewrite K1. cbn [map] in C. inversion C; reflexivity.
    - congruence. }
  destruct f as [|mid slot].
  - destruct (is_auth_failure ty); [discriminate|]. intro E; inversion E; subst; exact H0.
  - destruct (frag_done st0 mid slot); [intro E; inversion E; subst; exact H0|].
    destruct (N.eqb ty RspMoved || N.eqb ty RspAsk)%bool.
    + intro E; inversion E; subst. apply on_moved_sinv, H0.
    + destruct (lookup mid (msgs st0)) as [m|]; [|intro E; inversion E; subst; exact H0].
      destruct (merge_step Hash (cf_limit (cfg st0)) (pm_sm m) slot ty rsp) as [[sm'|]| |]; try discriminate.
      2:{ intro E; inversion E; subst; exact H0. }
      destruct (is_auth_failure ty && ps_initializing sv)%bool; [discriminate|].
      match goal with |- context [set_msg st0 mid ?x] => set (st1 := set_msg st0 mid x) end.
      assert (H1 : SInv st1) by (eapply SInv_same; [apply same_s_set_msg | exact H0]).
      destruct (lookup (pm_client m) (clients st1)) as [cl|]; [|intro E; inversion E; subst; exact H1].
      destruct (negb (pc_open cl)); [intro E; inversion E; subst; exact H1|].
      destruct (pc_queue cl); intro E; inversion E; subst.
      * eapply SInv_same; [apply same_s_close_client | exact H1].
      * eapply SInv_same; [apply same_s_flush_done | exact H1].
Qed.

Lemma with_left_sinv st s b : SInv st -> SInv (with_left st s b).
Proof.
  intro H. unfold with_left. destruct (lookup s (servers st)) as [sv|] eqn:Hs; [|exact H].
  apply SInv_set_server; [exact H | eauto|].
  destruct H as [H1 _]. destruct (H1 s sv Hs) as [A B C D].
  constructor; cbn [ps_got ps_written ps_taken ps_open ps_inq ps_outq ps_slave]; auto.
Qed.

Definition k_sinv (k : pst -> nat -> bytes -> result pst) : Prop :=
  forall st s buf st', SInv st -> k st s buf = ROk st' -> SInv st'.

Lemma decode_reply_sinv k st s buf st' : k_sinv k -> SInv st -> decode_reply k st s buf = ROk st' -> SInv st'.
Proof.
  intros Hk H. unfold decode_reply. destruct (sdecode buf) as [| | |ty n]; try discriminate.
  - intro E; inversion E; subst. apply with_left_sinv, H.
  - destruct (on_reply st s ty (firstn n buf)) as [st1| | |] eqn:Er; try discriminate.
    intro E. eapply Hk; [eapply on_reply_sinv; eassumption | exact E].
Qed.

Lemma server_iter_sinv k st s buf st' : k_sinv k -> SInv st -> server_iter k st s buf = ROk st' -> SInv st'.
Proof.
  intros Hk H. unfold server_iter. destruct (lookup s (servers st)) as [sv|] eqn:Hs; [|intro E; inversion E; subst; exact H].
  destruct (ps_open sv) eqn:Ho; cbn [negb]; [|intro E; inversion E; subst; exact H].
  destruct (ps_initializing sv); [|apply decode_reply_sinv; assumption].
  destruct (init_decode (ps_step sv) buf) as [| |n|]; try discriminate.
  - intro E; inversion E; subst. apply with_left_sinv, H.
  - match goal with |- context [set_server st s ?x] => set (st1 := set_server st s x) end.
    assert (H1 : SInv st1).
    { apply SInv_set_server; [exact H | eauto|].
      destruct H as [K1 _]. destruct (K1 s sv Hs) as [A B C D].
      constructor; cbn [ps_got ps_written ps_taken ps_open ps_inq ps_outq ps_slave]; auto. discriminate. }
    destruct (skipn n buf); [intro E; inversion E; subst; exact H1 | apply decode_reply_sinv; assumption].
  - apply decode_reply_sinv; assumption.
Qed.

Lemma server_loop_sinv : forall fuel, k_sinv (server_loop fuel).
Proof.
  induction fuel as [|f IH]; intros st s buf st' H; cbn [server_loop].
  - intro E; inversion E; subst; exact H.
  - apply server_iter_sinv; assumption.
Qed.

Lemma server_data_sinv st s b st' : SInv st -> server_data st s b = ROk st' -> SInv st'.
Proof.
  intro H. unfold server_data. destruct (lookup s (servers st)) as [sv|]; [|intro E; inversion E; subst; exact H].
  destruct (ps_open sv); [apply server_loop_sinv, H | intro E; inversion E; subst; exact H].
Qed.

Lemma same_s_fail_frags : forall fs st0, same_s st0 (fail_frags st0 fs).
Proof.
  induction fs as [|f fs IHf]; intro st0; cbn [fail_frags]; [apply same_s_refl|].
  destruct f as [|mid slot]; [apply IHf|]. destruct (frag_done st0 mid slot); [apply IHf|].
  eapply same_s_trans; [apply (same_s_fail_and_flush st0 mid ErrUnKnownProxyPoolConnError) | apply IHf].
Qed.

Lemma same_s_expire : forall l st, same_s st (expire st l).
Proof.
  induction l as [|[s f] l IH]; intro st; cbn [expire]; [apply same_s_refl|].
  destruct f as [|mid slot]; [apply IH|]. destruct (frag_done st mid slot); [apply IH|].
  eapply same_s_trans; [apply (same_s_fail_and_flush st mid ErrMsgRequestTimeout) | apply IH].
Qed.

Lemma dial_until_sinv addr total : forall fuel st, SInv st -> SInv (dial_until fuel st addr total).
Proof.
  induction fuel as [|f IH]; intros st H; cbn [dial_until]; [exact H|].
  destruct (conns_to st addr <? total)%nat; [|exact H].
  destruct (find_pool st addr) as [p|]; [|exact H].
  apply IH. destruct (pool_get st p) as [st1 r] eqn:Eg. cbn [fst]. eapply pool_get_sinv; eassumption.
Qed.

Lemma ensure_dials_sinv totals : forall st, SInv st -> SInv (ensure_dials st totals).
Proof.
  unfold ensure_dials. induction totals as [|t ts IH]; intros st H; cbn [fold_left]; [exact H|].
  apply IH, dial_until_sinv, H.
Qed.

Lemma ROk_inj {A} (a b : A) : ROk a = ROk b -> a = b.
Proof. intro H; inversion H; reflexivity. Qed.

Theorem step_sinv st e st' : SInv st -> step st e = ROk st' -> SInv st'.
Proof.
  intros H. destruct e as [c adm|c b totals|order|s b|c|s| |s|nodes newslots|ch|da dd]; cbn [step].
  - destruct (lookup c (clients st)); intro E; apply ROk_inj in E; subst st'; [exact H|].
    eapply SInv_same; [apply same_s_set_client | exact H].
  - intro E; apply ROk_inj in E; subst st'. apply ensure_dials_sinv. unfold client_data.
    destruct (lookup c (clients st)) as [cl|]; [|exact H].
    destruct (pc_open cl && negb (pc_closing cl))%bool; [apply client_loop_sinv, H | exact H].
  - intro E; apply ROk_inj in E; subst st'. apply run_tasks_sinv, H.
  - apply server_data_sinv, H.
  - intro E; apply ROk_inj in E; subst st'. eapply SInv_same; [apply same_s_close_client | exact H].
  - intro E; apply ROk_inj in E; subst st'. apply (run_task_sinv st (fun _ => []) (TClose s)), H.
  - intro E; apply ROk_inj in E; subst st'. unfold timeout_scan.
    eapply SInv_same; [eapply same_s_trans; [apply same_s_expire | apply same_s_set_inflight] | exact H].
  - destruct (find_pool st s) as [p|]; [|intro E; apply ROk_inj in E; subst st'; exact H].
    destruct (pool_get st p) as [st1 [s1|]] eqn:Eg; destruct (pool_get_sinv _ _ _ _ H Eg) as (A & _); intro E; apply ROk_inj in E; subst st'.
    + eapply SInv_same; [apply same_s_set_tasks | exact A].
    + exact A.
  - intro E; apply ROk_inj in E; subst st'. eapply SInv_same; [|exact H]. repeat split.
  - intro E; apply ROk_inj in E; subst st'. eapply SInv_same; [|exact H]. repeat split.
  - intro E; apply ROk_inj in E; subst st'. eapply SInv_same; [apply same_s_set_pools | exact H].
Qed.

Theorem run_sinv evs : forall st st', SInv st -> run st evs = ROk st' -> SInv st'.
Proof.
  induction evs as [|e r IH]; intros st st' H; cbn [run].
  - intro E; inversion E; subst; exact H.
  - destruct (step st e) as [st1| | |] eqn:Es; try discriminate. intro E. eapply IH; [eapply step_sinv; eassumption | exact E].
Qed.

Lemma init_sinv c pools slots : SInv (init_state c pools slots).
Proof. split; intros s sv Hl; cbn in Hl; discriminate. Qed.
