(* The INFO reader looks fields up by exact key: a line contributes to a field only if its key IS
   that field's key - "async_loading:0" says nothing about "loading" (C14). *)
From RcProxy Require Import Base.Bytes Model.Info.
From Coq Require Import Lia.
Open Scope N_scope.

(* a line key ++ ":" ++ value starts with p0 ++ ":" exactly when key = p0 (neither contains ':') *)
Lemma has_prefix_key : forall (p0 k v : bytes), ~ In 58 p0 -> ~ In 58 k ->
  has_prefix (k ++ 58 :: v) (p0 ++ [58]) = beqb k p0.
Proof.
  induction p0 as [|y p0 IH]; intros k v Hp Hk.
  - destruct k as [|x k]; cbn [app has_prefix beqb].
    + rewrite N.eqb_refl. reflexivity.
    + destruct (N.eqb_spec x 58) as [->|]; [exfalso; apply Hk; left; reflexivity | reflexivity].
  - destruct k as [|x k]; cbn [app has_prefix beqb].
    + destruct (N.eqb_spec 58 y) as [<-|]; [exfalso; apply Hp; left; reflexivity | reflexivity].
    + rewrite IH; [reflexivity | intro H; apply Hp; right; exact H | intro H; apply Hk; right; exact H].
Qed.

Lemma split_colon_app k v : ~ In 58 k -> split_colon (k ++ 58 :: v) = Some (k, v).
Proof.
  induction k as [|x k IH]; intro Hk; cbn [app split_colon].
  - rewrite N.eqb_refl. reflexivity.
  - destruct (N.eqb_spec x 58) as [->|]; [exfalso; apply Hk; left; reflexivity|].
    rewrite IH by (intro H; apply Hk; right; exact H). reflexivity.
Qed.

Lemma skipn_key k v : skipn (length (k ++ [58])) (k ++ 58 :: v) = v.
Proof. induction k as [|x k IH]; cbn [app length skipn]; [reflexivity | exact IH]. Qed.

Definition field_line (kv : bytes * bytes) : bytes := fst kv ++ 58 :: snd kv.
Definition wf_field (kv : bytes * bytes) : Prop := ~ In 58 (fst kv).

(* one step of the reader on a well-formed field line *)
Lemma info_line_field i k v : ~ In 58 k ->
  info_line i (k ++ 58 :: v) =
  {| in_loading := if beqb k (bs "loading") then negb (beqb (trim_space v) (bs "0")) else in_loading i;
     in_link := if beqb k (bs "master_link_status") then trim_space v else in_link i;
     in_version := if beqb k (bs "redis_version") then trim_space v else in_version i |}.
Proof.
  intro Hk. unfold info_line.
  assert (H1 : has_prefix (k ++ 58 :: v) p_loading = beqb k (bs "loading")).
  { apply (has_prefix_key (bs "loading") k v); [vm_compute; intuition discriminate | exact Hk]. }
  assert (H2 : has_prefix (k ++ 58 :: v) p_link = beqb k (bs "master_link_status")).
  { apply (has_prefix_key (bs "master_link_status") k v); [vm_compute; intuition discriminate | exact Hk]. }
  assert (H3 : has_prefix (k ++ 58 :: v) p_version = beqb k (bs "redis_version")).
  { apply (has_prefix_key (bs "redis_version") k v); [vm_compute; intuition discriminate | exact Hk]. }
  rewrite H1, H2, H3.
  destruct (beqb k (bs "loading")) eqn:E1; destruct (beqb k (bs "master_link_status")) eqn:E2;
    destruct (beqb k (bs "redis_version")) eqn:E3; cbn [in_loading in_link in_version];
    try (apply beqb_eq in E1; subst k); try (apply beqb_eq in E2; subst k); try (apply beqb_eq in E3; subst k);
    try discriminate;
    repeat match goal with
           | |- context [skipn (length ?p) (?k ++ 58 :: v)] => change p with (k ++ [58]); rewrite (skipn_key k v)
           end; destruct i; reflexivity.
Qed.

(* the spec's running value: the field values seen so far *)
Lemma info_of_fields : forall (fields : list (bytes * bytes)) i l0 k0 v0,
  Forall wf_field fields ->
  in_loading i = match l0 with Some v => negb (beqb (trim_space v) (bs "0")) | None => false end ->
  in_link i = match k0 with Some v => trim_space v | None => [] end ->
  in_version i = match v0 with Some v => trim_space v | None => [] end ->
  fold_left info_line (map field_line fields) i =
  {| in_loading := match last_field (bs "loading") (map field_line fields) l0 with Some v => negb (beqb (trim_space v) (bs "0")) | None => false end;
     in_link := match last_field (bs "master_link_status") (map field_line fields) k0 with Some v => trim_space v | None => [] end;
     in_version := match last_field (bs "redis_version") (map field_line fields) v0 with Some v => trim_space v | None => [] end |}.
Proof.
  induction fields as [|[k v] fields IH]; intros i l0 k0 v0 Hwf A B C; cbn [map fold_left last_field].
  - destruct i; cbn in *; subst; reflexivity.
  - inversion Hwf as [|? ? Hk Hrest]; subst. unfold wf_field in Hk. cbn [fst] in Hk.
    change (field_line (k, v)) with (k ++ 58 :: v). rewrite (split_colon_app k v Hk), (info_line_field i k v Hk).
    destruct (beqb k (bs "loading")) eqn:E1; destruct (beqb k (bs "master_link_status")) eqn:E2;
      destruct (beqb k (bs "redis_version")) eqn:E3; apply IH; try exact Hrest; cbn [in_loading in_link in_version]; auto.
Qed.

(* C14, INFO part: on a text made of key:value fields the reader computes the exact-key lookup *)
Theorem info_exact_keys fields : Forall wf_field fields ->
  info_of_lines (map field_line fields) = spec_info (map field_line fields).
Proof.
  intro H. unfold info_of_lines, spec_info. apply (info_of_fields fields _ None None None H); reflexivity.
Qed.

(* in particular a field with another key never changes the three values *)
Corollary other_field_irrelevant i k v : ~ In 58 k ->
  k <> bs "loading" -> k <> bs "master_link_status" -> k <> bs "redis_version" ->
  info_line i (k ++ 58 :: v) = i.
Proof.
  intros Hk H1 H2 H3. rewrite info_line_field by exact Hk.
  apply beqb_neq in H1, H2, H3. rewrite H1, H2, H3. destruct i; reflexivity.
Qed.
