(* decode_fast (Model/ClientCodecFast.v) is decode (Model/ClientCodec.v), for every input. *)
From RcProxy Require Import Base.Bytes Base.Dec Gen.Generated Spec.RespGrammar Model.RespBuf Model.Commands Model.Crc16 Model.ClientCodec Model.ClientCodecFast.
From Coq Require Import ZifyN ZifyNat ZifyBool.
Open Scope N_scope.

Lemma take_z_spec l : forall n,
  take_z n l = if (Z.of_nat (length l) <? n)%Z then None
               else Some (firstn (Z.to_nat n) l, skipn (Z.to_nat n) l).
Proof.
  induction l as [|x r IH]; intro n; cbn [take_z length].
  - destruct (n <=? 0)%Z eqn:Hn.
    + replace (Z.to_nat n) with O by lia.
      destruct (Z.of_nat 0 <? n)%Z eqn:H0; [lia | reflexivity].
    + destruct (Z.of_nat 0 <? n)%Z eqn:H0; [reflexivity | lia].
  - destruct (n <=? 0)%Z eqn:Hn.
    + replace (Z.to_nat n) with O by lia.
      destruct (Z.of_nat (S (length r)) <? n)%Z eqn:H0; [lia | reflexivity].
    + rewrite IH.
      replace (Z.to_nat n) with (S (Z.to_nat (n - 1))) by lia.
      destruct (Z.of_nat (length r) <? n - 1)%Z eqn:H1;
        destruct (Z.of_nat (S (length r)) <? n)%Z eqn:H2; try lia; reflexivity.
Qed.

Lemma read_n_fast_eq n l : read_n_fast n l = read_n n l.
Proof.
  unfold read_n_fast, read_n. destruct l as [|x r]; [reflexivity|].
  rewrite take_z_spec. destruct (Z.of_nat (length (x :: r)) <? n)%Z; reflexivity.
Qed.

Lemma parse_line_fast_eq l : parse_line_fast l = parse_line l.
Proof.
  unfold parse_line_fast, parse_line.
  destruct (read_line l) as [[line rest]|e]; [|reflexivity].
  destruct line as [|m digits]; [reflexivity|].
  destruct (negb (m =? 36)); [reflexivity|].
  destruct (parse_len digits) as [n err].
  destruct ((n <? 0)%Z || is_some err)%bool; [reflexivity|].
  rewrite read_n_fast_eq. destruct (read_n n rest) as [[b rest1]|e]; [|reflexivity].
  rewrite read_n_fast_eq. reflexivity.
Qed.

Lemma parse_args_fast_eq fuel : forall n l, parse_args_fast fuel n l = parse_args fuel n l.
Proof.
  induction fuel as [|f IH]; intros n l; cbn [parse_args_fast parse_args].
  - reflexivity.
  - destruct (n <=? 0)%Z; [reflexivity|].
    rewrite parse_line_fast_eq. destruct (parse_line l) as [[a rest]|e]; [|reflexivity].
    rewrite IH. reflexivity.
Qed.

(* grouping: the reversed accumulation, reversed once at the end, is the appending one *)
Lemma group_add_rev_spec {A} slot (x : A) g :
  map (fun g => (fst g, rev (snd g))) (group_add_rev slot x g)
  = group_add slot x (map (fun g => (fst g, rev (snd g))) g).
Proof.
  induction g as [|[s xs] r IH]; cbn [group_add_rev group_add map fst snd].
  - reflexivity.
  - destruct (s =? slot); cbn [map fst snd rev]; [reflexivity | rewrite IH; reflexivity].
Qed.

Lemma group_fold_spec {A} (slotf : bytes -> N) (key : A -> bytes) items : forall g,
  map (fun g => (fst g, rev (snd g)))
      (fold_left (fun g x => group_add_rev (slotf (key x)) x g) items g)
  = fold_left (fun g x => group_add (slotf (key x)) x g) items
              (map (fun g => (fst g, rev (snd g))) g).
Proof.
  induction items as [|x r IH]; intro g; cbn [fold_left]; [reflexivity|].
  rewrite IH, group_add_rev_spec. reflexivity.
Qed.

Lemma group_by_fast_eq {A} slotf (key : A -> bytes) items :
  group_by_fast slotf key items = group_by slotf key items.
Proof. unfold group_by_fast, group_by. rewrite group_fold_spec. reflexivity. Qed.

Lemma build_fast_eq ty0 nargs args req : build_fast ty0 nargs args req = build ty0 nargs args req.
Proof.
  unfold build_fast, build. rewrite !group_by_fast_eq.
  destruct (ty0 =? ReqMget); [reflexivity|].
  destruct (ty0 =? ReqDel); [reflexivity|].
  destruct (ty0 =? ReqMset); reflexivity.
Qed.

Theorem decode_fast_eq limit b : decode_fast limit b = decode limit b.
Proof.
  unfold decode_fast, decode. destruct b as [|x0 b0]; [reflexivity|].
  destruct (read_line (x0 :: b0)) as [[line rest]|e]; [|reflexivity].
  destruct line as [|m digits]; [reflexivity|].
  destruct (negb (m =? 42)); [reflexivity|].
  destruct (parse_len digits) as [n err].
  destruct ((n <? 1)%Z || is_some err)%bool; [reflexivity|].
  rewrite parse_line_fast_eq. destruct (parse_line rest) as [[name rest1]|e]; [|reflexivity].
  rewrite parse_args_fast_eq.
  destruct (parse_args (S (length rest1)) (n - 1) rest1) as [[[args rest2]|e]|]; try reflexivity.
  rewrite build_fast_eq. reflexivity.
Qed.
