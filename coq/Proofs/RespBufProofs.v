(* Proofs about the line/bulk readers: inversion (what was read is a canonical encoding),
   completeness (canonical encodings are read back), and stability under extension of the
   buffer (what TCP segmentation changes). *)
From RcProxy Require Import Base.Bytes Base.Dec Spec.RespGrammar Model.RespBuf Proofs.DecProofs.
From Coq Require Import ZifyN ZifyNat ZifyBool.
Open Scope N_scope.

(* ---------- list helpers ---------- *)
Lemma index_byte_app_some l e c i : index_byte l c = Some i -> index_byte (l ++ e) c = Some i.
Proof.
  intro H. apply index_byte_some in H as (a & b & -> & <- & Hn).
  rewrite <- app_assoc. simpl. apply index_byte_app_notin, Hn.
Qed.

Lemma firstn_app_le {A} n (l e : list A) : (n <= length l)%nat -> firstn n (l ++ e) = firstn n l.
Proof.
  intro H. rewrite firstn_app. replace (n - length l)%nat with O by lia.
  simpl. apply app_nil_r.
Qed.

Lemma skipn_app_le {A} n (l e : list A) : (n <= length l)%nat -> skipn n (l ++ e) = skipn n l ++ e.
Proof.
  intro H. rewrite skipn_app. replace (n - length l)%nat with O by lia. reflexivity.
Qed.

Lemma firstn_exact {A} (a r : list A) : firstn (length a) (a ++ r) = a.
Proof. rewrite firstn_app, Nat.sub_diag, firstn_all. simpl. apply app_nil_r. Qed.

Lemma skipn_exact {A} (a r : list A) : skipn (length a) (a ++ r) = r.
Proof. rewrite skipn_app, Nat.sub_diag, skipn_all. reflexivity. Qed.

(* ---------- read_line ---------- *)
Lemma read_line_enc line rest :
  line <> [] -> ~ In LF line -> read_line (line ++ crlf ++ rest) = Ok (line, rest).
Proof.
  intros Hne Hlf. unfold read_line.
  destruct (line ++ crlf ++ rest) as [|x xs] eqn:E.
  { destruct line; [contradiction | discriminate]. }
  rewrite <- E. clear E x xs.
  assert (Hidx : index_byte (line ++ crlf ++ rest) LF = Some (S (length line))).
  { unfold crlf. change (line ++ [13; 10] ++ rest) with (line ++ [13] ++ 10 :: rest).
    rewrite app_assoc. rewrite index_byte_app_notin.
    - rewrite app_length. simpl. f_equal. lia.
    - intro H. apply in_app_or in H as [H|[H|[]]]; [contradiction | discriminate]. }
  rewrite Hidx.
  destruct (Nat.ltb_spec (S (length line)) 2) as [H|H].
  { destruct line; [contradiction | simpl in H; lia]. }
  replace (S (length line) - 1)%nat with (length line) by lia.
  replace (S (length line) + 1)%nat with (length (line ++ crlf)) by (rewrite app_length; simpl; lia).
  rewrite app_nth2, Nat.sub_diag by lia. simpl nth. simpl negb.
  rewrite firstn_exact. rewrite app_assoc, skipn_exact. reflexivity.
Qed.

Lemma read_line_ok_inv l line rest :
  read_line l = Ok (line, rest) -> l = line ++ crlf ++ rest /\ line <> [] /\ ~ In LF line.
Proof.
  unfold read_line. destruct l as [|x xs]; [discriminate|]. set (l := x :: xs).
  destruct (index_byte l LF) as [idx|] eqn:E; [|discriminate].
  destruct (Nat.ltb_spec idx 2) as [H2|H2]; [discriminate|].
  destruct (N.eqb_spec (nth (idx - 1) l 0) CR) as [Hcr|Hcr]; [|discriminate].
  simpl negb. cbv iota. intro H. inversion H; subst line rest. clear H.
  apply index_byte_some in E as (a & b & Hl & Hlen & Hn).
  rewrite Hl in *. clear Hl l.
  (* a = a' ++ [CR] *)
  assert (Ha : exists a', a = a' ++ [CR]).
  { destruct (exists_last (l := a)) as (a' & c & ->).
    - intro Ea; rewrite Ea in Hlen; simpl in Hlen; lia.
    - exists a'. f_equal. f_equal.
      rewrite app_length in Hlen. simpl in Hlen.
      rewrite <- app_assoc in Hcr. rewrite app_nth2 in Hcr by lia.
      replace (idx - 1 - length a')%nat with O in Hcr by lia. simpl in Hcr. exact Hcr. }
  destruct Ha as (a' & ->). rewrite app_length in Hlen. simpl in Hlen.
  assert (HL : (a' ++ [CR]) ++ LF :: b = a' ++ crlf ++ b) by (rewrite <- app_assoc; reflexivity).
  rewrite HL.
  replace (idx - 1)%nat with (length a') by lia.
  rewrite firstn_exact.
  replace (idx + 1)%nat with (length (a' ++ crlf)) by (rewrite app_length; simpl; lia).
  rewrite (app_assoc a' crlf b), skipn_exact.
  split; [rewrite <- app_assoc; reflexivity|].
  split.
  - intro Ea; rewrite Ea in Hlen; simpl in Hlen; lia.
  - intro Hin. apply Hn. apply in_or_app. left. exact Hin.
Qed.

Lemma read_line_mono_ok l e line rest :
  read_line l = Ok (line, rest) -> read_line (l ++ e) = Ok (line, rest ++ e).
Proof.
  intro H. apply read_line_ok_inv in H as (-> & Hne & Hlf).
  rewrite <- !app_assoc. apply read_line_enc; assumption.
Qed.

Lemma read_line_mono_err l e err :
  read_line l = Err err -> (err = EInvalidResp \/ err = EBadLine) -> read_line (l ++ e) = Err err.
Proof.
  unfold read_line. destruct l as [|x xs]; [intros H [->| ->]; discriminate|].
  set (l := x :: xs). intros H Herr.
  assert (Hl : l ++ e = x :: (xs ++ e)) by reflexivity. rewrite Hl. rewrite <- Hl.
  destruct (index_byte l LF) as [idx|] eqn:E.
  - rewrite (index_byte_app_some _ _ _ _ E).
    destruct (Nat.ltb_spec idx 2); [exact H|].
    apply index_byte_some in E as (a & b & Hab & Hlen & _).
    assert (Hlt : (idx - 1 < length l)%nat).
    { rewrite Hab, app_length. simpl. lia. }
    rewrite app_nth1 by exact Hlt.
    destruct (negb (nth (idx - 1) l 0 =? CR)); [exact H | discriminate].
  - destruct Herr as [-> | ->]; discriminate.
Qed.

(* ---------- read_n ---------- *)
Lemma read_n_enc a rest : a ++ rest <> [] -> read_n (Z.of_nat (length a)) (a ++ rest) = Ok (a, rest).
Proof.
  intro Hne. unfold read_n. destruct (a ++ rest) as [|x xs] eqn:E; [contradiction|]. rewrite <- E.
  destruct (Z.ltb_spec (Z.of_nat (length (a ++ rest))) (Z.of_nat (length a))) as [H|H].
  { rewrite app_length in H. lia. }
  rewrite Nat2Z.id, firstn_exact, skipn_exact. reflexivity.
Qed.

Lemma read_n_ok_inv n l a rest : (0 <= n)%Z ->
  read_n n l = Ok (a, rest) -> l = a ++ rest /\ n = Z.of_nat (length a).
Proof.
  intros Hn. unfold read_n. destruct l as [|x xs]; [discriminate|]. set (l := x :: xs).
  destruct (Z.ltb_spec (Z.of_nat (length l)) n) as [H|H]; [discriminate|].
  intro E. inversion E; subst a rest. split.
  - symmetry. apply firstn_skipn.
  - rewrite firstn_length. lia.
Qed.

Lemma read_n_mono_ok n l e a rest : (0 <= n)%Z ->
  read_n n l = Ok (a, rest) -> read_n n (l ++ e) = Ok (a, rest ++ e).
Proof.
  intros Hn H. pose proof H as H0. apply read_n_ok_inv in H as (-> & ->); [|exact Hn].
  rewrite <- app_assoc. apply read_n_enc.
  destruct a; [|discriminate]. simpl in *. destruct rest; [discriminate H0 | discriminate].
Qed.
