(* C08: what the read loop extracts depends only on the concatenation of the chunks. *)
From RcProxy Require Import Base.Bytes Base.Dec Gen.Generated Spec.RespGrammar
  Model.RespBuf Model.Commands Model.Crc16 Model.ClientCodec Model.ClientFeed
  Proofs.DecProofs Proofs.RespBufProofs Proofs.ClientCodecProofs.
Open Scope N_scope.

Lemma decode_ok_bounds limit b m n : decode limit b = DOk m n -> (1 <= n <= length b)%nat.
Proof.
  intro H. destruct (decode_sound _ _ _ _ H) as (name & args & _ & Hb & Hn & _).
  split.
  - rewrite Hn, enc_request_shape. simpl. lia.
  - rewrite Hb at 1. rewrite app_length, <- Hn. lia.
Qed.

Lemma extract_fuel limit : forall f g buf, (length buf < f)%nat -> (length buf < g)%nat ->
  extract f limit buf = extract g limit buf.
Proof.
  induction f as [|f IH]; intros g buf Hf Hg; [lia|].
  destruct g as [|g]; [lia|]. cbn [extract].
  destruct (decode limit buf) as [| | | |m n] eqn:E; try reflexivity.
  destruct (cm_type m =? ReqQuit); [reflexivity|].
  apply decode_ok_bounds in E. 
  rewrite (IH g (skipn n buf)); [reflexivity | |]; rewrite skipn_length; lia.
Qed.

Lemma extract_all_fuel limit f buf : (length buf < f)%nat -> extract f limit buf = extract_all limit buf.
Proof. intro H. apply extract_fuel; [exact H | lia]. Qed.

(* never stuck *)
Lemma extract_not_stuck limit : forall f buf, (length buf < f)%nat -> snd (extract f limit buf) <> FStuck.
Proof.
  induction f as [|f IH]; intros buf Hf; [lia|]. cbn [extract].
  destruct (decode_no_crash limit buf) as [Hc Hh].
  destruct (decode limit buf) as [| | | |m n] eqn:E; try discriminate; try contradiction.
  destruct (cm_type m =? ReqQuit); [discriminate|].
  apply decode_ok_bounds in E.
  specialize (IH (skipn n buf) ltac:(rewrite skipn_length; lia)).
  destruct (extract f limit (skipn n buf)) as [ms e]. exact IH.
Qed.

(* extension lemma: what was extracted stays, and extraction resumes at the leftover *)
Lemma extract_app limit : forall f buf e ms l,
  (length buf < f)%nat ->
  extract f limit buf = (ms, FWait l) ->
  extract_all limit (buf ++ e) = (let '(ms', en) := extract_all limit (l ++ e) in (ms ++ ms', en)).
Proof.
  induction f as [|f IH]; intros buf e ms l Hf H; [lia|]. cbn [extract] in H.
  destruct (decode limit buf) as [| | | |m n] eqn:E; try discriminate.
  - inversion H; subst. simpl. destruct (extract_all limit (l ++ e)). reflexivity.
  - destruct (cm_type m =? ReqQuit) eqn:Eq; [discriminate|].
    pose proof (decode_ok_bounds _ _ _ _ E) as Hb.
    destruct (extract f limit (skipn n buf)) as [ms0 e0] eqn:E0. inversion H; subst ms e0.
    unfold extract_all at 1. cbn [extract]. rewrite (decode_ok_stable _ _ e _ _ E), Eq.
    rewrite skipn_app_le by lia.
    rewrite (extract_all_fuel limit (length (buf ++ e)) (skipn n buf ++ e)).
    2:{ rewrite !app_length, skipn_length. lia. }
    rewrite (IH (skipn n buf) e ms0 l ltac:(rewrite skipn_length; lia) E0).
    destruct (extract_all limit (l ++ e)). reflexivity.
Qed.

Lemma extract_app_closed limit : forall f buf e ms,
  (length buf < f)%nat ->
  extract f limit buf = (ms, FClosed) -> extract_all limit (buf ++ e) = (ms, FClosed).
Proof.
  induction f as [|f IH]; intros buf e ms Hf H; [lia|]. cbn [extract] in H.
  destruct (decode limit buf) as [| | | |m n] eqn:E; try discriminate.
  - inversion H; subst. unfold extract_all. cbn [extract].
    rewrite (decode_close_stable _ _ e E). reflexivity.
  - pose proof (decode_ok_bounds _ _ _ _ E) as Hb.
    unfold extract_all. cbn [extract]. rewrite (decode_ok_stable _ _ e _ _ E).
    destruct (cm_type m =? ReqQuit) eqn:Eq; [exact H|].
    destruct (extract f limit (skipn n buf)) as [ms0 e0] eqn:E0. inversion H; subst ms e0.
    rewrite skipn_app_le by lia.
    rewrite (extract_all_fuel limit (length (buf ++ e)) (skipn n buf ++ e)).
    2:{ rewrite !app_length, skipn_length. lia. }
    rewrite (IH (skipn n buf) e ms0 ltac:(rewrite skipn_length; lia) E0). reflexivity.
Qed.

(* feeding chunk by chunk = extracting from the concatenation, for EVERY byte stream *)
Theorem feed_all_concat limit chunks : feed_all limit chunks = extract_all limit (concat chunks).
Proof.
  unfold feed_all.
  assert (G : forall chunks pre ms en,
             extract_all limit pre = (ms, en) ->
             fold_left (feed limit) chunks (ms, en) = extract_all limit (pre ++ concat chunks)).
  { clear chunks. induction chunks as [|c chunks IH]; intros pre ms en H.
    - simpl. rewrite app_nil_r. symmetry. exact H.
    - cbn [fold_left concat]. rewrite app_assoc.
      destruct en as [l| |].
      + unfold feed at 2. cbn [fst snd].
        pose proof (extract_app limit _ pre c ms l (Nat.lt_succ_diag_r _) H) as Happ.
        destruct (extract_all limit (l ++ c)) as [ms' en'] eqn:E'.
        apply IH. exact Happ.
      + unfold feed at 2. cbn [snd]. apply IH.
        apply (extract_app_closed limit _ pre c ms (Nat.lt_succ_diag_r _) H).
      + exfalso. pose proof (extract_not_stuck limit (S (length pre)) pre (Nat.lt_succ_diag_r _)) as Hn.
        unfold extract_all in H. rewrite H in Hn. apply Hn. reflexivity. }
  specialize (G chunks [] [] (FWait [])). simpl in G. apply G. reflexivity.
Qed.

(* well-formed pipelines: the extracted requests are exactly the encoded ones (up to QUIT) *)
Definition wf_pair (r : bytes * list bytes) : Prop := wf_req (fst r) (snd r).
Definition enc_pair (r : bytes * list bytes) : bytes := enc_request (fst r :: snd r).
Definition msg_of (limit : Z) (r : bytes * list bytes) : cmsg := build_msg limit (fst r) (snd r).
Definition is_quit (limit : Z) (r : bytes * list bytes) : bool := cm_type (msg_of limit r) =? ReqQuit.

Fixpoint upto_quit (limit : Z) (rs : list (bytes * list bytes)) : list (bytes * list bytes) * bool :=
  match rs with
  | [] => ([], false)
  | r :: rest => if is_quit limit r then ([r], true)
                 else let '(xs, q) := upto_quit limit rest in (r :: xs, q)
  end.

Lemma length_enc_pair_pos r : (0 < length (enc_pair r))%nat.
Proof. unfold enc_pair. rewrite enc_request_shape. simpl. lia. Qed.

Theorem extract_pipeline limit rs : Forall wf_pair rs ->
  extract_all limit (concat (map enc_pair rs))
  = (map (msg_of limit) (fst (upto_quit limit rs)),
     if snd (upto_quit limit rs) then FClosed else FWait []).
Proof.
  induction 1 as [|r rs Hr Hrs IH].
  - reflexivity.
  - cbn [map concat upto_quit]. unfold extract_all. cbn [extract].
    unfold enc_pair at 1. rewrite (decode_complete limit (fst r) (snd r) _ Hr).
    fold (msg_of limit r). fold (is_quit limit r).
    destruct (is_quit limit r) eqn:Eq; [reflexivity|].
    fold (enc_pair r). rewrite skipn_exact.
    pose proof (length_enc_pair_pos r) as Hpos.
    rewrite (extract_all_fuel limit _ (concat (map enc_pair rs))) by (rewrite app_length; lia).
    rewrite IH. destruct (upto_quit limit rs) as [xs q]. reflexivity.
Qed.
