(* What the decoder builds for each class of request: corollaries of decode_complete /
   decode_sound used by the property files C02, C06, C12, C17. *)
From RcProxy Require Import Base.Bytes Base.Dec Gen.Generated Spec.RespGrammar Spec.SplitSpec Spec.CommandSpec
  Model.RespBuf Model.Commands Model.Crc16 Model.ClientCodec
  Proofs.DecProofs Proofs.RespBufProofs Proofs.ClientCodecProofs Proofs.SplitProofs Proofs.CommandsProofs.
From Coq Require Import ZifyN ZifyNat ZifyBool.
Open Scope N_scope.

Definition body_reqs (m : cmsg) : list (N * bytes) := map (fun sf => (fst sf, cf_req (snd sf))) (cm_body m).

Lemma map_map_frag {A} (h : list A -> bytes) (k : list A -> bytes) (G : list (N * list A)) :
  map (fun sf : N * cfrag => (fst sf, cf_req (snd sf)))
      (map (fun g : N * list A => (fst g, {| cf_key := k (snd g); cf_req := h (snd g) |})) G)
  = map (fun g => (fst g, h (snd g))) G.
Proof. rewrite map_map. reflexivity. Qed.

Section Classes.
  Variable limit : Z.
  Variable name : bytes.
  Variable args : list bytes.
  Let n := Z.of_nat (length args).
  Let ty0 := transform2type name n.

  Lemma build_msg_mget : ty0 = ReqMget ->
    cm_keys (build_msg limit name args) = args /\
    body_reqs (build_msg limit name args) = frags1 Hash (bs "mget") args.
  Proof.
    intro H. unfold build_msg, body_reqs. fold n. fold ty0. rewrite H. unfold build.
    rewrite N.eqb_refl. cbn [cm_keys cm_body]. split; [reflexivity|].
    unfold frags1. apply (map_map_frag (frag1_req (bs "mget")) hd_key).
  Qed.

  Lemma build_msg_del : ty0 = ReqDel ->
    cm_keys (build_msg limit name args) = args /\
    body_reqs (build_msg limit name args) = frags1 Hash (bs "del") args.
  Proof.
    intro H. unfold build_msg, body_reqs. fold n. fold ty0. rewrite H. unfold build.
    replace (ReqDel =? ReqMget) with false by reflexivity.
    rewrite N.eqb_refl. cbn [cm_keys cm_body]. split; [reflexivity|].
    unfold frags1. apply (map_map_frag (frag1_req (bs "del")) hd_key).
  Qed.

  Lemma build_msg_mset : ty0 = ReqMset ->
    cm_keys (build_msg limit name args) = map fst (pairs args) /\
    body_reqs (build_msg limit name args) = frags2 Hash (pairs args).
  Proof.
    intro H. unfold build_msg, body_reqs. fold n. fold ty0. rewrite H. unfold build.
    replace (ReqMset =? ReqMget) with false by reflexivity.
    replace (ReqMset =? ReqDel) with false by reflexivity.
    rewrite N.eqb_refl. cbn [cm_keys cm_body]. split; [reflexivity|].
    unfold frags2.
    apply (map_map_frag frag2_req (fun g : list (bytes * bytes) => match g with kv :: _ => fst kv | [] => [] end)).
  Qed.

  (* every other type: one fragment carrying the client's own bytes with the name lower-cased *)
  Definition single_like (t : N) : bool :=
    negb (N.eqb t ReqMget) && negb (N.eqb t ReqDel) && negb (N.eqb t ReqMset).

  Lemma build_msg_single : single_like ty0 = true ->
    exists key, cm_body (build_msg limit name args)
                = [(Hash key, {| cf_key := key; cf_req := enc_request (to_lower name :: args) |})]
                /\ (key = nth 0 args [] \/ key = nth 2 args []).
  Proof.
    unfold single_like. intro H. apply andb_true_iff in H as [H H3]. apply andb_true_iff in H as [H1 H2].
    apply negb_true_iff in H1, H2, H3.
    unfold build_msg. fold n. fold ty0. unfold build. rewrite H1, H2, H3.
    destruct ((ty0 =? ReqEval) || (ty0 =? ReqEvalsha))%bool.
    - exists (nth 2 args []). cbn [cm_body]. auto.
    - exists (nth 0 args []). cbn [cm_body]. auto.
  Qed.
End Classes.

(* ---- MSET arity: the decoder classifies as MSET only an even, non-empty argument list ---- *)
Lemma transform2type_is name n t :
  transform2type name n = t -> t <> UNKNOWN -> t <> ReqWrongArgumentsNumber ->
  assoc_b (to_lower name) CommandStr2Type = Some t /\ check_args t n = t.
Proof.
  unfold transform2type. destruct (assoc_b (to_lower name) CommandStr2Type) as [v|]; [|congruence].
  intros H Hu Hw. destruct (check_args_cases v n) as [E|E]; rewrite E in H; [|congruence].
  subst v. auto.
Qed.

Lemma mset_even name n : (0 <= n)%Z -> transform2type name n = ReqMset -> (2 <= n)%Z /\ Z.even n = true.
Proof.
  intros Hn H. apply transform2type_is in H as [_ H]; [|discriminate|discriminate].
  rewrite (check_args_arity ReqMset NargsEvenInf n Hn eq_refl) in H by tauto.
  unfold arity_ok in H. replace (NargsEvenInf =? NargsInf)%Z with false in H by reflexivity.
  replace (NargsEvenInf =? NargsEvenInf)%Z with true in H by reflexivity.
  destruct (Z.leb_spec 2 n); [|discriminate]. destruct (Z.even n); [auto | discriminate].
Qed.

Lemma pairs_flat_n k : forall l : list bytes, length l = (2 * k)%nat -> flat (pairs l) = l.
Proof.
  induction k as [|k IH]; intros l Hl.
  - destruct l; [reflexivity | discriminate].
  - destruct l as [|a [|b l]]; try (simpl in Hl; lia).
    cbn [pairs]. unfold flat. cbn [map concat app fst snd]. f_equal. f_equal.
    apply IH. simpl in Hl. lia.
Qed.

Lemma pairs_flat (l : list bytes) : Nat.even (length l) = true -> flat (pairs l) = l.
Proof.
  intro H. apply Nat.even_spec in H as [k Hk]. apply (pairs_flat_n k), Hk.
Qed.

(* ---- every forwarded fragment is a request Redis accepts ---- *)
Lemma frags1_accept sigma nm keys s req : In (s, req) (frags1 sigma nm keys) -> redis_accepts req.
Proof.
  intro H. destruct (split1_correct sigma nm keys) as (_ & _ & Hr). rewrite (Hr _ _ H).
  eexists. split; [|reflexivity]. discriminate.
Qed.

Lemma frags2_accept sigma kvs s req : In (s, req) (frags2 sigma kvs) -> redis_accepts req.
Proof.
  intro H. destruct (split2_correct sigma kvs) as (_ & _ & Hr). rewrite (Hr _ _ H).
  eexists. split; [|reflexivity]. discriminate.
Qed.

Theorem build_msg_accept limit name args s req :
  In (s, req) (body_reqs (build_msg limit name args)) -> redis_accepts req.
Proof.
  set (ty0 := transform2type name (Z.of_nat (length args))).
  destruct (N.eqb_spec ty0 ReqMget) as [E|E1].
  { destruct (build_msg_mget limit name args E) as [_ ->]. apply frags1_accept. }
  destruct (N.eqb_spec ty0 ReqDel) as [E|E2].
  { destruct (build_msg_del limit name args E) as [_ ->]. apply frags1_accept. }
  destruct (N.eqb_spec ty0 ReqMset) as [E|E3].
  { destruct (build_msg_mset limit name args E) as [_ ->]. apply frags2_accept. }
  assert (Hs : single_like ty0 = true).
  { unfold single_like. apply N.eqb_neq in E1, E2, E3. rewrite E1, E2, E3. reflexivity. }
  destruct (build_msg_single limit name args Hs) as (key & Hb & _).
  unfold body_reqs. rewrite Hb. cbn [map fst snd cf_req]. intros [H|[]]. inversion H; subst.
  eexists. split; [|reflexivity]. discriminate.
Qed.

(* ---- classification (C17) ---- *)
Definition spec_class (limit : Z) (name : bytes) (args : list bytes) : req_class :=
  let n := Z.of_nat (length args) in
  if (limit <? Z.of_nat (length (enc_request (name :: args))))%Z then CTooLarge
  else match assoc_b (to_lower name) CommandStr2Type with
       | None => CUnknown
       | Some t =>
           match assoc_n t CommandType2ArgsNumber with
           | None => CWrongArgs
           | Some a =>
               if negb (arity_ok a n) then CWrongArgs
               else if ((N.eqb t ReqEval || N.eqb t ReqEvalsha) && (n <? 3)%Z)%bool then CWrongArgs
               else CServed t
           end
       end.

Definition class_of_type (t : N) : req_class :=
  if N.eqb t ReqTooLarge then CTooLarge
  else if N.eqb t UNKNOWN then CUnknown
  else if N.eqb t ReqWrongArgumentsNumber then CWrongArgs
  else CServed t.

(* all arity classes in the table are among the seven known ones; no command type in the name
   table is one of the three marker types *)
Lemma table_classes_ok :
  forallb (fun p : N * Z => let a := snd p in
     (Z.eqb a Nargsz || Z.eqb a Nargs0 || Z.eqb a Nargs1 || Z.eqb a Nargs2 || Z.eqb a Nargs3
      || Z.eqb a NargsInf || Z.eqb a NargsEvenInf)%bool) CommandType2ArgsNumber = true.
Proof. vm_compute. reflexivity. Qed.

Lemma table_types_ok :
  forallb (fun p : bytes * N => let t := snd p in
     negb (N.eqb t ReqTooLarge) && negb (N.eqb t UNKNOWN) && negb (N.eqb t ReqWrongArgumentsNumber)
     && negb (N.eqb t ReqMget && false)) CommandStr2Type = true.
Proof. vm_compute. reflexivity. Qed.

Lemma assoc_n_In {A} k (l : list (N * A)) v : assoc_n k l = Some v -> In (k, v) l.
Proof.
  induction l as [|[k' v'] l IH]; simpl; [discriminate|].
  destruct (N.eqb_spec k k') as [->|].
  - intro H. inversion H; subst. auto.
  - auto.
Qed.

Theorem build_msg_class limit name args :
  class_of_type (cm_type (build_msg limit name args)) = spec_class limit name args.
Proof.
  unfold build_msg, spec_class.
  set (n := Z.of_nat (length args)).
  destruct (build (transform2type name n) n args (enc_request (to_lower name :: args))) as [[ty1 keys] body] eqn:Eb.
  cbn [cm_type].
  destruct (limit <? Z.of_nat (length (enc_request (name :: args))))%Z; [reflexivity|].
  (* ty1 from build *)
  assert (Hty1 : ty1 = let t0 := transform2type name n in
                       if ((N.eqb t0 ReqEval || N.eqb t0 ReqEvalsha) && (n <? 3)%Z)%bool
                       then ReqWrongArgumentsNumber else t0).
  { unfold build in Eb. cbv zeta.
    destruct (transform2type name n =? ReqMget) eqn:E1.
    { inversion Eb; subst. apply N.eqb_eq in E1. rewrite E1. reflexivity. }
    destruct (transform2type name n =? ReqDel) eqn:E2.
    { inversion Eb; subst. apply N.eqb_eq in E2. rewrite E2. reflexivity. }
    destruct (transform2type name n =? ReqMset) eqn:E3.
    { inversion Eb; subst. apply N.eqb_eq in E3. rewrite E3. reflexivity. }
    destruct ((transform2type name n =? ReqEval) || (transform2type name n =? ReqEvalsha))%bool eqn:E4.
    - inversion Eb; subst. cbn [andb]. reflexivity.
    - inversion Eb; subst. reflexivity. }
  rewrite Hty1. clear Hty1 Eb. cbv zeta. unfold transform2type.
  destruct (assoc_b (to_lower name) CommandStr2Type) as [t|] eqn:Et; [|reflexivity].
  pose proof (assoc_b_In _ _ _ Et) as Hin.
  pose proof table_types_ok as Htt. rewrite forallb_forall in Htt. specialize (Htt _ Hin). cbn [snd] in Htt.
  rewrite andb_false_r in Htt. cbn [negb andb] in Htt. rewrite andb_true_r in Htt.
  apply andb_true_iff in Htt as [Htt Ht3]. apply andb_true_iff in Htt as [Ht1 Ht2].
  apply negb_true_iff in Ht1, Ht2, Ht3.
  destruct (assoc_n t CommandType2ArgsNumber) as [a|] eqn:Ea.
  2:{ unfold check_args. rewrite Ea. reflexivity. }
  pose proof (assoc_n_In _ _ _ Ea) as Hina.
  pose proof table_classes_ok as Htc. rewrite forallb_forall in Htc. specialize (Htc _ Hina). cbn [snd] in Htc.
  assert (Hcls : a = Nargsz \/ a = Nargs0 \/ a = Nargs1 \/ a = Nargs2 \/ a = Nargs3 \/ a = NargsInf \/ a = NargsEvenInf).
  { repeat (apply orb_true_iff in Htc as [Htc|Htc]); apply Z.eqb_eq in Htc; tauto. }
  rewrite (check_args_arity t a n ltac:(unfold n; lia) Ea Hcls).
  destruct (arity_ok a n); cbn [negb].
  - destruct (((t =? ReqEval) || (t =? ReqEvalsha)) && (n <? 3)%Z)%bool; [reflexivity|].
    unfold class_of_type. rewrite Ht1, Ht2, Ht3. reflexivity.
  - replace ((ReqWrongArgumentsNumber =? ReqEval) || (ReqWrongArgumentsNumber =? ReqEvalsha))%bool with false by reflexivity.
    reflexivity.
Qed.
