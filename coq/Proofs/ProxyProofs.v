(* Invariants of the event-loop model, proved inductive over every event:
     - every client's socket has received exactly the replies of a prefix of its requests, in
       request order, one per request, nothing else (C01);
     - no open client has a completed request at the head of its queue at the end of a step (C09);
   and their ingredients (ownership of queued requests, sequence numbering). *)
From RcProxy Require Import Base.Bytes Base.Dec Gen.Generated Spec.RespGrammar
  Model.RespBuf Model.Commands Model.Crc16 Model.ClientCodec Model.ClientFeed Model.ServerCodec Model.Route
  Model.Cluster Model.Proxy.
From Coq Require Import ZifyN ZifyNat ZifyBool.
Open Scope N_scope.

(* ---------- association lists ---------- *)
Lemma lookup_update_eq {A} k (v : A) l : lookup k (update k v l) = Some v.
Proof.
  induction l as [|[k' v'] l IH]; cbn [update lookup]; [rewrite Nat.eqb_refl; reflexivity|].
  destruct (Nat.eqb_spec k k') as [->|H]; cbn [lookup]; [rewrite Nat.eqb_refl; reflexivity|].
  destruct (Nat.eqb_spec k k'); [contradiction | exact IH].
Qed.

Lemma lookup_update_ne {A} k k' (v : A) l : k' <> k -> lookup k' (update k v l) = lookup k' l.
Proof.
  intro Hne. induction l as [|[k0 v0] l IH]; cbn [update lookup].
  - destruct (Nat.eqb_spec k' k); [contradiction | reflexivity].
  - destruct (Nat.eqb_spec k k0) as [->|H]; cbn [lookup].
    + destruct (Nat.eqb_spec k' k0); [contradiction | reflexivity].
    + destruct (Nat.eqb_spec k' k0); [reflexivity | exact IH].
Qed.

Lemma lookup_update {A} k k' (v : A) l :
  lookup k' (update k v l) = if Nat.eqb k' k then Some v else lookup k' l.
Proof.
  destruct (Nat.eqb_spec k' k) as [->|H]; [apply lookup_update_eq | apply lookup_update_ne, H].
Qed.

(* ---------- the client-side invariant ---------- *)
Definition seq_of (st : pst) (mid : nat) : nat := msg_seq st mid.

Record client_ok (st : pst) (strict : bool) (c : nat) (cl : pclient) : Prop := {
  (* what the socket has received is exactly the logged replies, and the log is requests 0..k-1 *)
  ok_hist : map fst (pc_hist cl) = seq 0 (length (pc_hist cl));
  ok_got : pc_got cl = concat (map snd (pc_hist cl));
  (* open connections: the queue holds the next requests, in order, each owned by this client *)
  ok_queue : pc_open cl = true ->
             map (seq_of st) (pc_queue cl) = seq (length (pc_hist cl)) (length (pc_queue cl)) /\
             pc_sent cl = (length (pc_hist cl) + length (pc_queue cl))%nat /\
             (forall mid, In mid (pc_queue cl) -> exists m, lookup mid (msgs st) = Some m /\ pm_client m = c);
  (* closed connections have no queue *)
  ok_closed : pc_open cl = false -> pc_queue cl = [];
  (* C09: a completed request never sits at the head of the queue at the end of a step *)
  ok_head : strict = true -> pc_open cl = true ->
            match pc_queue cl with m :: _ => msg_done st m = false | [] => True end
}.

(* CInvG st ex: the invariant, except that the head-of-queue clause may be violated for client ex
   (in the middle of a step, between completing a request and flushing its owner) *)
Definition is_ex (ex : option nat) (c : nat) : bool := match ex with Some x => Nat.eqb x c | None => false end.

Definition CInvG (st : pst) (ex : option nat) : Prop :=
  (forall c cl, lookup c (clients st) = Some cl -> client_ok st (negb (is_ex ex c)) c cl) /\
  (forall mid m, lookup mid (msgs st) = Some m -> (mid < next_mid st)%nat).

Definition CInv (st : pst) : Prop := CInvG st None.

(* operations that touch neither clients nor messages preserve the invariant *)
Definition same_cm (st st' : pst) : Prop :=
  clients st' = clients st /\ msgs st' = msgs st /\ next_mid st' = next_mid st.

Lemma same_cm_refl st : same_cm st st. Proof. repeat split. Qed.
Lemma same_cm_trans a b c : same_cm a b -> same_cm b c -> same_cm a c.
Proof. intros (H1 & H2 & H3) (H4 & H5 & H6). repeat split; congruence. Qed.

Lemma client_ok_same st st' b c cl : msgs st' = msgs st -> client_ok st b c cl -> client_ok st' b c cl.
Proof.
  intros Hm [H1 H2 H3 H4 H5].
  assert (Hseq : forall mid, seq_of st' mid = seq_of st mid) by (intro; unfold seq_of, msg_seq; rewrite Hm; reflexivity).
  assert (Hd : forall mid, msg_done st' mid = msg_done st mid) by (intro; unfold msg_done; rewrite Hm; reflexivity).
  constructor; auto.
  - intro Ho. destruct (H3 Ho) as (A & B & C). split; [|split; [exact B|]].
    + rewrite <- A. apply map_ext. intro. apply Hseq.
    + intros mid Hin. rewrite Hm. apply C, Hin.
  - intros Hs Ho. specialize (H5 Hs Ho). destruct (pc_queue cl); [exact I | rewrite Hd; exact H5].
Qed.

Lemma CInvG_same st st' ex : same_cm st st' -> CInvG st ex -> CInvG st' ex.
Proof.
  intros (Hc & Hm & Hn) [H1 H2]. split.
  - intros c cl Hl. rewrite Hc in Hl. apply (client_ok_same st st'); [exact Hm | apply H1, Hl].
  - intros mid m Hl. rewrite Hm in Hl. rewrite Hn. eapply H2, Hl.
Qed.

Lemma client_ok_weaken st c cl : client_ok st true c cl -> forall b, client_ok st b c cl.
Proof. intros [H1 H2 H3 H4 H5] b. constructor; auto. intros ->. apply H5. reflexivity. Qed.

Lemma CInvG_weaken st ex : CInvG st None -> CInvG st ex.
Proof. intros [H1 H2]. split; [|exact H2]. intros c cl Hl. apply client_ok_weaken. apply (H1 c cl Hl). Qed.

Lemma client_ok_upd st b c cl cl' :
  pc_open cl' = pc_open cl -> pc_queue cl' = pc_queue cl -> pc_got cl' = pc_got cl ->
  pc_sent cl' = pc_sent cl -> pc_hist cl' = pc_hist cl ->
  client_ok st b c cl -> client_ok st b c cl'.
Proof.
  intros E1 E2 E3 E4 E5 [A B C D E]. constructor; rewrite ?E1, ?E2, ?E3, ?E4, ?E5; auto.
Qed.

(* replacing one client's record by an equivalent one keeps the invariant *)
Lemma set_client_upd_inv st c cl cl' ex :
  lookup c (clients st) = Some cl ->
  pc_open cl' = pc_open cl -> pc_queue cl' = pc_queue cl -> pc_got cl' = pc_got cl ->
  pc_sent cl' = pc_sent cl -> pc_hist cl' = pc_hist cl ->
  CInvG st ex -> CInvG (set_client st c cl') ex.
Proof.
  intros Hl E1 E2 E3 E4 E5 [H1 H2]. split; [|exact H2].
  intros c' x Hl'. cbn [set_client clients] in Hl'. rewrite lookup_update in Hl'.
  destruct (Nat.eqb_spec c' c) as [->|].
  - inversion Hl'; subst x. apply (client_ok_same st); [reflexivity|].
    eapply client_ok_upd; try eassumption. apply H1, Hl.
  - apply (client_ok_same st); [reflexivity | apply H1, Hl'].
Qed.

(* frame facts for the setters *)
Lemma same_cm_set_server st s x : same_cm st (set_server st s x). Proof. repeat split. Qed.
Lemma same_cm_set_pools st p : same_cm st (set_pools st p). Proof. repeat split. Qed.
Lemma same_cm_set_tasks st t : same_cm st (set_tasks st t). Proof. repeat split. Qed.
Lemma same_cm_set_inflight st t : same_cm st (set_inflight st t). Proof. repeat split. Qed.
Lemma same_cm_bump_sid st : same_cm st (bump_sid st). Proof. repeat split. Qed.
Lemma same_cm_set_choices st ch : same_cm st (set_choices st ch). Proof. repeat split. Qed.

Lemma same_cm_enqueue_out st s f : same_cm st (enqueue_out st s f).
Proof.
  unfold enqueue_out. destruct (lookup s (servers st)); [|apply same_cm_refl].
  eapply same_cm_trans; [apply same_cm_set_server | apply same_cm_set_tasks].
Qed.

Lemma same_cm_asking st s ty : same_cm st (if N.eqb ty RspAsk then enqueue_out st s (FProbe true) else st).
Proof. destruct (N.eqb ty RspAsk); [apply same_cm_enqueue_out | apply same_cm_refl]. Qed.

Lemma same_cm_dial st p st' s : dial st p = Some (st', s) -> same_cm st st'.
Proof.
  unfold dial. destruct (pp_dialable p); [|discriminate].
  destruct (on_s_opened _ _) as [hs step]. intro H. inversion H; subst.
  eapply same_cm_trans; [apply same_cm_set_server | apply same_cm_bump_sid].
Qed.

Lemma same_cm_pool_get st p : same_cm st (fst (pool_get st p)).
Proof.
  unfold pool_get. destruct (pp_closed p); [apply same_cm_refl|].
  destruct (length (pp_conns p) <? cf_max_active (cfg st))%nat.
  - destruct (dial st p) as [[st' s]|] eqn:E; [|apply same_cm_refl]. cbn [fst].
    eapply same_cm_trans; [eapply same_cm_dial, E | apply same_cm_set_pools].
  - destruct (rotate st _ _) as [[[s conns']|] conns'']; cbn [fst]; [apply same_cm_set_pools|].
    destruct (dial st p) as [[st' s]|] eqn:E; cbn [fst]; [|apply same_cm_set_pools].
    eapply same_cm_trans; [eapply same_cm_dial, E | apply same_cm_set_pools].
Qed.

Lemma route_plan_slots st ty body : map fst (route_plan st ty body) = map fst body.
Proof. unfold route_plan. rewrite map_map. reflexivity. Qed.

Lemma same_cm_resolve body : forall st, same_cm st (fst (resolve st body)).
Proof.
  induction body as [|[slot f] rest IH]; intro st; cbn [resolve]; [apply same_cm_refl|].
  destruct f as [b|]; [|apply same_cm_refl].
  destruct (find_pool st b) as [p|]; [|apply same_cm_refl].
  pose proof (same_cm_pool_get st p) as Hp.
  destruct (pool_get st p) as [st1 [s|]]; cbn [fst] in *; [|exact Hp].
  specialize (IH st1). destruct (resolve st1 rest) as [st2 [l|e]]; cbn [fst] in *;
    eapply same_cm_trans; eassumption.
Qed.

(* ---------- flushDone ---------- *)
Lemma done_prefix_spec st q : forall d rest, done_prefix st q = (d, rest) ->
  q = d ++ rest /\ Forall (fun m => msg_done st m = true) d /\
  match rest with m :: _ => msg_done st m = false | [] => True end.
Proof.
  induction q as [|m q IH]; intros d rest H; cbn [done_prefix] in H.
  - inversion H; subst. repeat split; constructor.
  - destruct (msg_done st m) eqn:E.
    + destruct (done_prefix st q) as [d' rest'] eqn:E'. inversion H; subst.
      destruct (IH d' rest eq_refl) as (A & B & C). split; [simpl; congruence|]. split; [constructor; assumption | exact C].
    + inversion H; subst. split; [reflexivity|]. split; [constructor | exact E].
Qed.

Lemma app_eq_len {X} (a b c d : list X) : a ++ b = c ++ d -> length a = length c -> a = c /\ b = d.
Proof.
  revert c. induction a as [|x a IH]; intros [|y c] H Hl; try discriminate.
  - auto.
  - cbn [app] in H. inversion H; subst. cbn [length] in Hl. destruct (IH c H2 ltac:(lia)) as [-> ->]. auto.
Qed.

Lemma flush_done_inv st c cl : lookup c (clients st) = Some cl -> pc_open cl = true ->
  CInvG st (Some c) -> CInvG (flush_done st c) None.
Proof.
  intros Hl Ho [H1 H2]. unfold flush_done. rewrite Hl.
  destruct (done_prefix st (pc_queue cl)) as [d rest] eqn:Ed.
  destruct (done_prefix_spec st _ _ _ Ed) as (Hq & Hdone & Hhead).
  destruct (H1 c cl Hl) as [Kh Kg Kq Kc _].
  destruct (Kq Ho) as (Kseq & Ksent & Kown).
  assert (Hstrict : forall c' cl', lookup c' (clients st) = Some cl' -> c' <> c -> client_ok st true c' cl').
  { intros c' cl' Hl' Hne. pose proof (H1 c' cl' Hl') as K. cbn [is_ex] in K.
    destruct (Nat.eqb_spec c c'); [congruence | exact K]. }
  destruct d as [|d0 ds].
  - (* nothing to flush: the head is not done *)
    split; [|exact H2]. intros c' cl' Hl'. cbn [is_ex negb].
    destruct (Nat.eq_dec c' c) as [->|Hne]; [|apply Hstrict; assumption].
    rewrite Hl in Hl'. inversion Hl'; subst cl'. constructor; auto.
    intros _ _. simpl in Hq. rewrite Hq. exact Hhead.
  - cbv iota. remember (d0 :: ds) as d eqn:Hd. split; [|exact H2].
    intros c' cl' Hl'. cbn [is_ex negb]. cbn [set_client clients] in Hl'. rewrite lookup_update in Hl'.
    destruct (Nat.eqb_spec c' c) as [->|Hne].
    + inversion Hl'; subst cl'. clear Hl'.
      set (h := length (pc_hist cl)) in *.
      rewrite Hq in Kseq, Ksent, Kown. rewrite map_app, app_length, seq_app in Kseq.
      apply app_eq_len in Kseq as [Kd Kr]; [|rewrite map_length, seq_length; reflexivity].
      assert (Hlen : length (pc_hist cl ++ map (fun m => (msg_seq st m, msg_rsp st m)) d) = (h + length d)%nat).
      { rewrite app_length, map_length. reflexivity. }
      constructor; cbn [pc_hist pc_got pc_queue pc_open pc_sent].
      * rewrite Hlen, map_app, seq_app, Kh. fold h. f_equal.
        rewrite map_map. cbn [fst]. exact Kd.
      * rewrite map_app, concat_app, Kg. f_equal. rewrite map_map. reflexivity.
      * intros _. rewrite Hlen. split; [exact Kr|]. split.
        -- rewrite app_length in Ksent. lia.
        -- intros mid Hin. apply Kown. apply in_or_app. right. exact Hin.
      * destruct (pc_closing cl && match rest with [] => true | _ :: _ => false end)%bool eqn:Ecl.
        -- intros _. apply andb_true_iff in Ecl as [_ Er]. destruct rest; [reflexivity | discriminate].
        -- intro Hc. rewrite Ho in Hc. discriminate.
      * intros _ _. exact Hhead.
    + apply (client_ok_same st); [reflexivity | apply Hstrict; assumption].
Qed.

Lemma flush_if_open_inv st c : CInvG st (Some c) -> CInvG (flush_if_open st c) None.
Proof.
  intro H. unfold flush_if_open. destruct (lookup c (clients st)) as [cl|] eqn:Hl.
  - destruct (pc_open cl) eqn:Ho; [eapply flush_done_inv; eassumption|].
    (* closed: the head clause is vacuous *)
    destruct H as [H1 H2]. split; [|exact H2]. intros c' cl' Hl'. cbn [is_ex negb].
    pose proof (H1 c' cl' Hl') as K. cbn [is_ex] in K.
    destruct (Nat.eqb_spec c c') as [<-|]; [|exact K].
    rewrite Hl in Hl'. inversion Hl'; subst cl'. destruct K as [A B C D _]. constructor; auto.
    intros _ Hc. rewrite Ho in Hc. discriminate.
  - destruct H as [H1 H2]. split; [|exact H2]. intros c' cl' Hl'. cbn [is_ex negb].
    pose proof (H1 c' cl' Hl') as K. cbn [is_ex] in K.
    destruct (Nat.eqb_spec c c') as [<-|]; [congruence | exact K].
Qed.

(* ---------- updating an existing message ---------- *)
Lemma set_msg_inv st mid m m' ex :
  lookup mid (msgs st) = Some m -> pm_client m' = pm_client m -> pm_seq m' = pm_seq m ->
  (ex = None \/ ex = Some (pm_client m)) ->
  CInvG st ex -> CInvG (set_msg st mid m') (Some (pm_client m)).
Proof.
  intros Hl Hc Hs Hex [H1 H2]. split.
  - intros c cl Hcl. cbn [set_msg clients] in Hcl.
    assert (Hseq : forall x, seq_of (set_msg st mid m') x = seq_of st x).
    { intro x. unfold seq_of, msg_seq. cbn [set_msg msgs]. rewrite lookup_update.
      destruct (Nat.eqb_spec x mid) as [->|]; [rewrite Hl; exact Hs | reflexivity]. }
    pose proof (H1 c cl Hcl) as [A B C D E].
    constructor; auto.
    + intro Ho. destruct (C Ho) as (C1 & C2 & C3). split; [|split; [exact C2|]].
      * rewrite <- C1. apply map_ext. intro. apply Hseq.
      * intros x Hin. cbn [set_msg msgs]. rewrite lookup_update.
        destruct (Nat.eqb_spec x mid) as [->|]; [|apply C3, Hin].
        destruct (C3 mid Hin) as (m0 & Hm0 & Hcm). rewrite Hl in Hm0. inversion Hm0; subst m0.
        exists m'. split; [reflexivity | congruence].
    + (* head clause: only clients other than the owner keep it, and their queues do not hold mid *)
      intros Hstrict Ho. cbn [is_ex] in Hstrict. apply negb_true_iff in Hstrict.
      apply Nat.eqb_neq in Hstrict.
      assert (Hstrict0 : negb (is_ex ex c) = true).
      { destruct Hex as [-> | ->]; cbn [is_ex negb]; [reflexivity|].
        apply negb_true_iff, Nat.eqb_neq, Hstrict. }
      specialize (E Hstrict0 Ho). destruct (pc_queue cl) as [|hd q] eqn:Eq; [exact I|].
      unfold msg_done in *. cbn [set_msg msgs]. rewrite lookup_update.
      destruct (Nat.eqb_spec hd mid) as [->|]; [|exact E].
      exfalso. destruct (C Ho) as (_ & _ & C3). destruct (C3 mid) as (m0 & Hm0 & Hcm); [try rewrite Eq; left; reflexivity|].
      rewrite Hl in Hm0. inversion Hm0; subst m0. apply Hstrict. exact Hcm.
  - intros x mx Hx. cbn [set_msg msgs next_mid] in *. rewrite lookup_update in Hx.
    destruct (Nat.eqb_spec x mid) as [->|]; [eapply H2, Hl | eapply H2, Hx].
Qed.

Lemma set_msg_same_sm_inv st mid m m' ex :
  lookup mid (msgs st) = Some m -> pm_client m' = pm_client m -> pm_seq m' = pm_seq m -> pm_sm m' = pm_sm m ->
  CInvG st ex -> CInvG (set_msg st mid m') ex.
Proof.
  intros Hl Hc Hs Hsm [H1 H2]. split.
  - intros c cl Hcl. cbn [set_msg clients] in Hcl.
    assert (Hseq : forall x, seq_of (set_msg st mid m') x = seq_of st x).
    { intro x. unfold seq_of, msg_seq. cbn [set_msg msgs]. rewrite lookup_update.
      destruct (Nat.eqb_spec x mid) as [->|]; [rewrite Hl; exact Hs | reflexivity]. }
    assert (Hdone : forall x, msg_done (set_msg st mid m') x = msg_done st x).
    { intro x. unfold msg_done. cbn [set_msg msgs]. rewrite lookup_update.
      destruct (Nat.eqb_spec x mid) as [->|]; [rewrite Hl, Hsm; reflexivity | reflexivity]. }
    pose proof (H1 c cl Hcl) as [A B C D E].
    constructor; auto.
    + intro Ho. destruct (C Ho) as (C1 & C2 & C3). split; [|split; [exact C2|]].
      * rewrite <- C1. apply map_ext. intro. apply Hseq.
      * intros x Hin. cbn [set_msg msgs]. rewrite lookup_update.
        destruct (Nat.eqb_spec x mid) as [->|]; [|apply C3, Hin].
        destruct (C3 mid Hin) as (m0 & Hm0 & Hcm). rewrite Hl in Hm0. inversion Hm0; subst m0.
        exists m'. split; [reflexivity | congruence].
    + intros Hst Ho. specialize (E Hst Ho). destruct (pc_queue cl); [exact I | rewrite Hdone; exact E].
  - intros x mx Hx. cbn [set_msg msgs next_mid] in *. rewrite lookup_update in Hx.
    destruct (Nat.eqb_spec x mid) as [->|]; [eapply H2, Hl | eapply H2, Hx].
Qed.

Lemma mark_moved_inv st mid slot ex : CInvG st ex -> CInvG (mark_moved st mid slot) ex.
Proof.
  intro H. unfold mark_moved. destruct (lookup mid (msgs st)) as [m|] eqn:Hm; [|exact H].
  apply set_msg_same_sm_inv with (m := m); auto.
Qed.

Lemma fail_msg_inv st mid e : CInvG st None ->
  match lookup mid (msgs st) with
  | Some m => CInvG (fail_msg st mid e) (Some (pm_client m)) /\
              (exists m', lookup mid (msgs (fail_msg st mid e)) = Some m' /\ pm_client m' = pm_client m)
  | None => fail_msg st mid e = st
  end.
Proof.
  intro H. unfold fail_msg. destruct (lookup mid (msgs st)) as [m|] eqn:Hl; [|reflexivity].
  split.
  - apply set_msg_inv with (m := m) (ex := None); [exact Hl | reflexivity | reflexivity | left; reflexivity | exact H].
  - eexists. cbn [set_msg msgs]. rewrite lookup_update_eq. split; reflexivity.
Qed.

(* fail a request and flush its owner: back to the full invariant *)
Lemma fail_and_flush_inv st mid e : CInvG st None ->
  CInvG (let st1 := fail_msg st mid e in
         match lookup mid (msgs st1) with Some m => flush_if_open st1 (pm_client m) | None => st1 end) None.
Proof.
  intro H. cbv zeta. pose proof (fail_msg_inv st mid e H) as K.
  destruct (lookup mid (msgs st)) as [m|] eqn:Hl.
  - destruct K as [K1 (m' & Hm' & Hc)]. rewrite Hm', Hc. apply flush_if_open_inv, K1.
  - rewrite K, Hl. exact H.
Qed.

(* ---------- closing a client ---------- *)
Lemma close_client_inv st c ex : CInvG st ex -> CInvG (close_client st c) ex.
Proof.
  intros [H1 H2]. unfold close_client. destruct (lookup c (clients st)) as [cl|] eqn:Hl; [|split; assumption].
  destruct (pc_open cl) eqn:Ho; [|split; assumption].
  split; [|exact H2]. intros c' cl' Hl'. cbn [set_client clients] in Hl'. rewrite lookup_update in Hl'.
  destruct (Nat.eqb_spec c' c) as [->|].
  - inversion Hl'; subst cl'. destruct (H1 c cl Hl) as [A B C D E]. constructor; cbn [pc_hist pc_got pc_open pc_queue]; auto; try discriminate.
  - apply (client_ok_same st); [reflexivity | apply H1, Hl'].
Qed.

(* ---------- a new request ---------- *)
Lemma lookup_fresh st mid : (forall x m, lookup x (msgs st) = Some m -> (x < next_mid st)%nat) ->
  (next_mid st <= mid)%nat -> lookup mid (msgs st) = None.
Proof.
  intros H Hle. destruct (lookup mid (msgs st)) as [m|] eqn:E; [|reflexivity].
  specialize (H _ _ E). lia.
Qed.

(* appending a fresh message (sequence number = pc_sent) to the queue of an open client *)
Lemma enqueue_msg_inv st c cl pm :
  CInvG st None -> lookup c (clients st) = Some cl -> pc_open cl = true ->
  pm_client pm = c -> pm_seq pm = pc_sent cl ->
  (pc_queue cl = [] -> sm_done (pm_sm pm) = false) ->
  CInvG (set_client (bump_mid (set_msg st (next_mid st) pm)) c
           {| pc_open := pc_open cl; pc_left := pc_left cl; pc_queue := pc_queue cl ++ [next_mid st]; pc_got := pc_got cl;
              pc_sent := S (pc_sent cl); pc_hist := pc_hist cl; pc_closing := pc_closing cl |}) None.
Proof.
  intros [H1 H2] Hl Ho Hc Hs Hd.
  set (mid := next_mid st).
  assert (Hfresh : lookup mid (msgs st) = None) by (apply lookup_fresh; [exact H2 | unfold mid; lia]).
  assert (Hold : forall x, x <> mid -> lookup x (update mid pm (msgs st)) = lookup x (msgs st)) by (intros; apply lookup_update_ne; assumption).
  assert (Hin_ne : forall c' cl', lookup c' (clients st) = Some cl' -> pc_open cl' = true -> forall x, In x (pc_queue cl') -> x <> mid).
  { intros c' cl' Hl' Ho' x Hx E. subst x. destruct (H1 c' cl' Hl') as [_ _ C _ _].
    destruct (C Ho') as (_ & _ & C3). destruct (C3 mid Hx) as (m0 & Hm0 & _). congruence. }
  split.
  - intros c' cl' Hl'. cbn [is_ex negb]. cbn [set_client clients bump_mid set_msg] in Hl'. rewrite lookup_update in Hl'.
    destruct (Nat.eqb_spec c' c) as [->|Hne].
    + inversion Hl'; subst cl'. clear Hl'. destruct (H1 c cl Hl) as [A B C D E]. cbn [is_ex negb] in E.
      destruct (C Ho) as (C1 & C2 & C3).
      constructor; cbn [pc_hist pc_got pc_open pc_queue pc_sent]; auto.
      * intros _. rewrite map_app, app_length, seq_app. cbn [map length seq]. split; [|split].
        -- f_equal.
           ++ rewrite <- C1. apply map_ext_in. intros x Hx. unfold seq_of, msg_seq. cbn [set_client bump_mid set_msg msgs].
              rewrite Hold; [reflexivity | eapply Hin_ne; eauto].
           ++ unfold seq_of, msg_seq. cbn [set_client bump_mid set_msg msgs]. fold mid. rewrite lookup_update_eq. f_equal. lia.
        -- lia.
        -- intros x Hx. cbn [set_client bump_mid set_msg msgs]. fold mid. apply in_app_or in Hx as [Hx|[<-|[]]].
           ++ rewrite Hold by (eapply Hin_ne; eauto). apply C3, Hx.
           ++ rewrite lookup_update_eq. exists pm. auto.
      * intro Hc'. congruence.
      * intros _ _. specialize (E eq_refl Ho). destruct (pc_queue cl) as [|hd q] eqn:Eq; cbn [app].
        -- unfold msg_done. cbn [set_client bump_mid set_msg msgs]. fold mid. rewrite lookup_update_eq. apply Hd. reflexivity.
        -- unfold msg_done in *. cbn [set_client bump_mid set_msg msgs]. fold mid.
           rewrite Hold; [exact E|]. eapply Hin_ne; eauto; try rewrite Eq; left; reflexivity.
    + pose proof (H1 c' cl' Hl') as [A B C D E]. cbn [is_ex negb] in E.
      constructor; auto.
      * intro Ho'. destruct (C Ho') as (C1 & C2 & C3). split; [|split; [exact C2|]].
        -- rewrite <- C1. apply map_ext_in. intros x Hx. unfold seq_of, msg_seq. cbn [set_client bump_mid set_msg msgs].
           fold mid. rewrite Hold; [reflexivity | eapply Hin_ne; eauto].
        -- intros x Hx. cbn [set_client bump_mid set_msg msgs]. fold mid. rewrite Hold by (eapply Hin_ne; eauto). apply C3, Hx.
      * intros _ Ho'. specialize (E eq_refl Ho'). destruct (pc_queue cl') as [|hd q] eqn:Eq; [exact I|].
        unfold msg_done in *. cbn [set_client bump_mid set_msg msgs]. fold mid.
        rewrite Hold; [exact E|]. eapply Hin_ne; eauto; try rewrite Eq; left; reflexivity.
  - intros x mx Hx. cbn [set_client bump_mid set_msg msgs next_mid] in *. fold mid in Hx. rewrite lookup_update in Hx.
    destruct (Nat.eqb_spec x mid) as [->|]; [unfold mid; lia|]. specialize (H2 _ _ Hx). lia.
Qed.

(* ---------- OnCReact ---------- *)
Lemma local_reply_inv st c cl m out close : lookup c (clients st) = Some cl -> pc_open cl = true ->
  CInvG st None -> CInvG (local_reply st c m out close) None.
Proof.
  intros Hl Ho H. unfold local_reply. rewrite Hl.
  assert (Hmain : CInvG (match pc_queue cl with
        | [] => set_client st c {| pc_open := pc_open cl; pc_left := pc_left cl; pc_queue := []; pc_got := pc_got cl ++ out;
                                   pc_sent := S (pc_sent cl); pc_hist := pc_hist cl ++ [(pc_sent cl, out)]; pc_closing := pc_closing cl |}
        | _ =>
            let mid := next_mid st in
            let sm := {| sm_type := cm_type m; sm_keys := cm_keys m; sm_frags := []; sm_done_number := 0; sm_del_num := 0;
                         sm_done := true; sm_rsp := out; sm_error := [] |} in
            let st' := bump_mid (set_msg st mid {| pm_client := c; pm_sm := sm; pm_reqs := []; pm_seq := pc_sent cl; pm_moved := []; pm_route := [] |}) in
            set_client st' c {| pc_open := pc_open cl; pc_left := pc_left cl; pc_queue := pc_queue cl ++ [mid]; pc_got := pc_got cl;
                                pc_sent := S (pc_sent cl); pc_hist := pc_hist cl; pc_closing := pc_closing cl |}
        end) None).
  { destruct (pc_queue cl) as [|hd q] eqn:Eq.
    - (* written directly: it is the reply of request number pc_sent = length of the log *)
      destruct H as [H1 H2]. split; [|exact H2].
      intros c' cl' Hl'. cbn [is_ex negb]. cbn [set_client clients] in Hl'. rewrite lookup_update in Hl'.
      destruct (Nat.eqb_spec c' c) as [->|].
      + inversion Hl'; subst cl'. destruct (H1 c cl Hl) as [A B C D E].
        assert (Hsent : pc_sent cl = length (pc_hist cl)).
        { destruct (C Ho) as (_ & C2 & _). rewrite Eq in C2. simpl in C2. lia. }
        constructor; cbn [pc_hist pc_got pc_open pc_queue pc_sent].
        * rewrite map_app, app_length, seq_app, A. cbn [map length seq fst]. rewrite Hsent. reflexivity.
        * rewrite map_app, concat_app, B. cbn [map concat snd]. rewrite app_nil_r. reflexivity.
        * intros _. rewrite app_length. cbn [length map seq]. split; [reflexivity|]. split; [lia | intros x []].
        * intro Hc. congruence.
        * intros _ _. exact I.
      + apply (client_ok_same st); [reflexivity | apply H1, Hl'].
    - cbv zeta. rewrite <- Eq.
      apply (enqueue_msg_inv st c cl); auto. intro Hq. rewrite Eq in Hq. discriminate. }
  destruct close; [|exact Hmain].
  destruct (pc_queue cl) as [|hd q]; [apply close_client_inv; exact Hmain|].
  match goal with |- CInvG (match lookup c (clients ?s1) with _ => _ end) None => set (st1 := s1) in * end.
  destruct (lookup c (clients st1)) as [cl1|] eqn:Hl1; [|exact Hmain].
  apply (set_client_upd_inv st1 c cl1); auto.
Qed.

Lemma fold_enqueue_same targets mid : forall st,
  same_cm st (fold_left (fun s (t : N * nat) => enqueue_out s (snd t) (FReq mid (fst t))) targets st).
Proof.
  induction targets as [|t ts IH]; intro st; cbn [fold_left]; [apply same_cm_refl|].
  eapply same_cm_trans; [apply same_cm_enqueue_out | apply IH].
Qed.

Lemma smsg_of_not_done m g : sm_done (smsg_of m g) = false.
Proof. reflexivity. Qed.

Lemma on_request_inv st c cl m : lookup c (clients st) = Some cl -> pc_open cl = true ->
  CInvG st None -> CInvG (on_request st c m) None.
Proof.
  intros Hl Ho H. unfold on_request.
  do 5 match goal with
       | |- CInvG (if ?b then _ else _) None => destruct b; [eapply local_reply_inv; eassumption|]
       end.
  destruct (cm_type m =? ReqAuth).
  - (* AUTH *)
    destruct (cf_password (cfg st)) as [|p0 pw]; [eapply local_reply_inv; eassumption|].
    destruct (cm_body m) as [|[s0 f0] body]; [exact H|].
    destruct (beqb _ _); eapply local_reply_inv; eassumption.
  - (* forwarded *)
    pose proof (same_cm_resolve (route_plan st (cm_type m) (by_slot (cm_body m))) st) as Hres.
    destruct (resolve st (route_plan st (cm_type m) (by_slot (cm_body m)))) as [st1 [targets|e]]; cbn [fst] in Hres.
    2:{ eapply local_reply_inv; eassumption. }
    destruct Hres as (Rc & Rm & Rn).
    rewrite Rc, Hl.
    set (mid := next_mid st1).
    set (pm := {| pm_client := c; pm_sm := smsg_of m (groups_for m);
                  pm_reqs := map (fun sf : N * cfrag => (fst sf, cf_req (snd sf))) (cm_body m); pm_seq := pc_sent cl; pm_moved := [];
                  pm_route := route_plan st (cm_type m) (by_slot (cm_body m)) |}).
    set (st2 := bump_mid (set_msg st1 mid pm)).
    pose proof (fold_enqueue_same targets mid st2) as (Fc & Fm & Fn).
    set (st3 := fold_left (fun s (t : N * nat) => enqueue_out s (snd t) (FReq mid (fst t))) targets st2) in *.
    assert (Hcl3 : lookup c (clients st3) = Some cl).
    { rewrite Fc. unfold st2. cbn [bump_mid set_msg clients]. rewrite Rc. exact Hl. }
    rewrite Hcl3.
    (* the resulting state has the clients / messages / counter of the canonical "enqueue" state *)
    pose proof (enqueue_msg_inv st c cl pm H Hl Ho eq_refl eq_refl (fun _ => smsg_of_not_done m _)) as K.
    eapply CInvG_same; [|exact K].
    unfold same_cm. cbn [set_client bump_mid set_msg clients msgs next_mid].
    rewrite Fc, Fm, Fn. unfold st2, mid. cbn [bump_mid set_msg clients msgs next_mid].
    rewrite Rc, Rm, Rn. repeat split.
Qed.

(* ---------- the client read loop ---------- *)
Lemma client_loop_inv : forall fuel st c buf, CInvG st None -> CInvG (client_loop fuel st c buf) None.
Proof.
  induction fuel as [|f IH]; intros st c buf H; cbn [client_loop]; [exact H|].
  destruct (lookup c (clients st)) as [cl|] eqn:Hl; [|exact H].
  destruct (pc_open cl) eqn:Ho; cbn [negb orb]; [|exact H].
  destruct (pc_closing cl); [exact H|].
  destruct (decode (cf_limit (cfg st)) buf) as [| | | |m n].
  - (* wait: only the leftover changes *)
    destruct H as [H1 H2]. split; [|exact H2].
    intros c' cl' Hl'. cbn [set_client clients] in Hl'. rewrite lookup_update in Hl'.
    destruct (Nat.eqb_spec c' c) as [->|].
    + inversion Hl'; subst cl'. destruct (H1 c cl Hl) as [A B C D E]. constructor; cbn [pc_hist pc_got pc_open pc_queue pc_sent]; auto.
      * intro Hc. discriminate.
      * intros Hs _. apply E; [exact Hs | exact Ho].
    + apply (client_ok_same st); [reflexivity | apply H1, Hl'].
  - apply close_client_inv, H.
  - exact H.
  - exact H.
  - apply IH. eapply on_request_inv; eassumption.
Qed.

Lemma client_data_inv st c b : CInvG st None -> CInvG (client_data st c b) None.
Proof.
  intro H. unfold client_data. destruct (lookup c (clients st)) as [cl|]; [|exact H].
  destruct (pc_open cl && negb (pc_closing cl))%bool; [apply client_loop_inv, H | exact H].
Qed.

(* ---------- closing a backend connection ---------- *)
Lemma fail_frags_inv fs : forall st, CInvG st None -> CInvG (fail_frags st fs) None.
Proof.
  induction fs as [|f fs IH]; intros st H; cbn [fail_frags]; [exact H|].
  destruct f as [|mid slot]; [apply IH, H|].
  destruct (frag_done st mid slot); [apply IH, H|].
  apply IH. apply (fail_and_flush_inv st mid ErrUnKnownProxyPoolConnError H).
Qed.

Lemma close_server_inv st s : CInvG st None -> CInvG (close_server st s) None.
Proof.
  intro H. unfold close_server. destruct (lookup s (servers st)) as [sv|]; [|exact H].
  destruct (ps_open sv); [|exact H].
  eapply CInvG_same; [|apply (fail_frags_inv (ps_inq sv ++ ps_outq sv) st H)].
  eapply same_cm_trans; [apply same_cm_set_inflight | apply same_cm_set_server].
Qed.

(* ---------- tasks ---------- *)
Lemma run_task_inv st order t : CInvG st None -> CInvG (run_task st order t) None.
Proof.
  intro H. destruct t as [s|s|s]; cbn [run_task].
  - destruct (lookup s (servers st)) as [sv|]; [|exact H].
    destruct (ps_open sv); cbn [negb]; [|exact H].
    destruct (ps_outq sv) as [|f q]; [exact H|].
    destruct (cf_timeout (cfg st)).
    + eapply CInvG_same; [|exact H]. eapply same_cm_trans; [apply same_cm_set_server | apply same_cm_set_inflight].
    + eapply CInvG_same; [apply same_cm_set_server | exact H].
  - apply close_server_inv, H.
  - destruct (lookup s (servers st)) as [sv|]; [|exact H].
    destruct (ps_open sv); [|exact H]. eapply CInvG_same; [apply same_cm_enqueue_out | exact H].
Qed.

Lemma run_tasks_inv order : forall fuel st, CInvG st None -> CInvG (run_tasks fuel st order) None.
Proof.
  induction fuel as [|f IH]; intros st H; cbn [run_tasks]; [exact H|].
  destruct (tasks st) as [|t rest]; [exact H|].
  apply IH, run_task_inv. eapply CInvG_same; [apply same_cm_set_tasks | exact H].
Qed.

(* ---------- replies ---------- *)
Lemma on_moved_inv st f mid ty addr : CInvG st None -> CInvG (on_moved st f mid ty addr) None.
Proof.
  intro H0. unfold on_moved. set (st1 := mark_moved st mid (frag_slot f)).
  assert (H : CInvG st1 None) by (apply mark_moved_inv, H0).
  destruct (find_pool st1 addr) as [p|].
  - pose proof (same_cm_pool_get st1 p) as Hp. destruct (pool_get st1 p) as [st2 [s|]]; cbn [fst] in Hp.
    + eapply CInvG_same; [eapply same_cm_trans; [exact Hp | eapply same_cm_trans; [apply same_cm_asking | apply same_cm_enqueue_out]] | exact H].
    + apply (fail_and_flush_inv st2 mid ErrUnKnownProxyPoolConnError). eapply CInvG_same; eassumption.
  - apply (fail_and_flush_inv st1 mid ErrUnKnownProxyPoolError H).
Qed.

Lemma on_reply_inv st s ty rsp st' : CInvG st None -> on_reply st s ty rsp = ROk st' -> CInvG st' None.
Proof.
  intros H. unfold on_reply. destruct (lookup s (servers st)) as [sv|]; [|intro E; inversion E; subst; exact H].
  destruct (ps_inq sv) as [|f inq']; [discriminate|].
  match goal with |- context [set_inflight ?a ?b] => set (st0 := set_inflight a b) end.
  assert (H0 : CInvG st0 None).
  { eapply CInvG_same; [|exact H]. eapply same_cm_trans; [apply same_cm_set_server | apply same_cm_set_inflight]. }
  destruct f as [|mid slot].
  - destruct (is_auth_failure ty); [discriminate|]. intro E. inversion E; subst. exact H0.
  - destruct (frag_done st0 mid slot); [intro E; inversion E; subst; exact H0|].
    destruct (N.eqb ty RspMoved || N.eqb ty RspAsk)%bool.
    { intro E. inversion E; subst. apply on_moved_inv, H0. }
    destruct (lookup mid (msgs st0)) as [m|] eqn:Hm; [|intro E; inversion E; subst; exact H0].
    destruct (merge_step Hash (cf_limit (cfg st0)) (pm_sm m) slot ty rsp) as [[sm'|]|w|]; try discriminate.
    2:{ intro E. inversion E; subst. exact H0. }
    destruct (is_auth_failure ty && ps_initializing sv)%bool; [discriminate|].
    set (m' := {| pm_client := pm_client m; pm_sm := sm'; pm_reqs := pm_reqs m; pm_seq := pm_seq m; pm_moved := pm_moved m; pm_route := pm_route m |}).
    assert (H1 : CInvG (set_msg st0 mid m') (Some (pm_client m))).
    { apply set_msg_inv with (m := m) (ex := None); [exact Hm | reflexivity | reflexivity | left; reflexivity | exact H0]. }
    destruct (lookup (pm_client m) (clients (set_msg st0 mid m'))) as [cl|] eqn:Hcl.
    + destruct (pc_open cl) eqn:Ho; cbn [negb].
      * destruct (pc_queue cl) as [|hd q] eqn:Eq.
        -- intro E. inversion E; subst.
           (* queue empty: the clause about the head is vacuous; then the client is closed *)
           apply close_client_inv.
           destruct H1 as [K1 K2]. split; [|exact K2]. intros c' cl' Hl'. cbn [is_ex negb].
           pose proof (K1 c' cl' Hl') as K. cbn [is_ex] in K.
           destruct (Nat.eqb_spec (pm_client m) c') as [<-|]; [|exact K].
           rewrite Hcl in Hl'. inversion Hl'; subst cl'. destruct K as [A B C D _]. constructor; auto.
           intros _ _. rewrite Eq. exact I.
        -- intro E. inversion E; subst. eapply flush_done_inv; eassumption.
      * intro E. inversion E; subst.
        (* owner closed: nothing is written; the head clause is vacuous for a closed client *)
        destruct H1 as [K1 K2]. split; [|exact K2]. intros c' cl' Hl'. cbn [is_ex negb].
        pose proof (K1 c' cl' Hl') as K. cbn [is_ex] in K.
        destruct (Nat.eqb_spec (pm_client m) c') as [<-|]; [|exact K].
        rewrite Hcl in Hl'. inversion Hl'; subst cl'. destruct K as [A B C D _]. constructor; auto.
        intros _ Hc. congruence.
    + intro E. inversion E; subst.
      destruct H1 as [K1 K2]. split; [|exact K2]. intros c' cl' Hl'. cbn [is_ex negb].
      pose proof (K1 c' cl' Hl') as K. cbn [is_ex] in K.
      destruct (Nat.eqb_spec (pm_client m) c') as [<-|]; [congruence | exact K].
Qed.

Lemma with_left_same st s b : same_cm st (with_left st s b).
Proof. unfold with_left. destruct (lookup s (servers st)); [apply same_cm_set_server | apply same_cm_refl]. Qed.

Lemma decode_reply_inv k st s buf st' :
  (forall st1 s1 b1 st2, CInvG st1 None -> k st1 s1 b1 = ROk st2 -> CInvG st2 None) ->
  CInvG st None -> decode_reply k st s buf = ROk st' -> CInvG st' None.
Proof.
  intros Hk H. unfold decode_reply. destruct (sdecode buf) as [| | |ty n]; try discriminate.
  - intro E. inversion E; subst. eapply CInvG_same; [apply with_left_same | exact H].
  - destruct (on_reply st s ty (firstn n buf)) as [st3| | |] eqn:Er; try discriminate.
    intro E. eapply Hk; [eapply on_reply_inv; eassumption | exact E].
Qed.

Lemma server_iter_inv k st s buf st' :
  (forall st1 s1 b1 st2, CInvG st1 None -> k st1 s1 b1 = ROk st2 -> CInvG st2 None) ->
  CInvG st None -> server_iter k st s buf = ROk st' -> CInvG st' None.
Proof.
  intros Hk H. unfold server_iter. destruct (lookup s (servers st)) as [sv|]; [|intro E; inversion E; subst; exact H].
  destruct (ps_open sv); cbn [negb]; [|intro E; inversion E; subst; exact H].
  destruct (ps_initializing sv); [|apply decode_reply_inv; assumption].
  destruct (init_decode (ps_step sv) buf) as [| |n|]; try discriminate.
  - intro E. inversion E; subst. eapply CInvG_same; [apply with_left_same | exact H].
  - cbv zeta. destruct (skipn n buf) as [|r0 rest].
    + intro E. inversion E; subst. eapply CInvG_same; [apply same_cm_set_server | exact H].
    + apply decode_reply_inv; [exact Hk|]. eapply CInvG_same; [apply same_cm_set_server | exact H].
  - apply decode_reply_inv; assumption.
Qed.

Lemma server_loop_inv : forall fuel st s buf st', CInvG st None -> server_loop fuel st s buf = ROk st' -> CInvG st' None.
Proof.
  induction fuel as [|f IH]; intros st s buf st' H; cbn [server_loop]; [intro E; inversion E; subst; exact H|].
  apply server_iter_inv; [exact IH | exact H].
Qed.

Lemma server_data_inv st s b st' : CInvG st None -> server_data st s b = ROk st' -> CInvG st' None.
Proof.
  intro H. unfold server_data. destruct (lookup s (servers st)) as [sv|]; [|intro E; inversion E; subst; exact H].
  destruct (ps_open sv); [apply server_loop_inv, H | intro E; inversion E; subst; exact H].
Qed.

(* ---------- timeouts ---------- *)
Lemma expire_inv l : forall st, CInvG st None -> CInvG (expire st l) None.
Proof.
  induction l as [|[s f] l IH]; intros st H; cbn [expire]; [exact H|].
  destruct f as [|mid slot]; [apply IH, H|].
  destruct (frag_done st mid slot); [apply IH, H|].
  apply IH. apply (fail_and_flush_inv st mid ErrMsgRequestTimeout H).
Qed.

Lemma timeout_scan_inv st : CInvG st None -> CInvG (timeout_scan st) None.
Proof.
  intro H. unfold timeout_scan. eapply CInvG_same; [apply same_cm_set_inflight | apply expire_inv, H].
Qed.

(* ---------- every event ---------- *)
Lemma ensure_dials_same totals : forall st, same_cm st (ensure_dials st totals).
Proof.
  unfold ensure_dials. induction totals as [|t ts IH]; intro st; cbn [fold_left]; [apply same_cm_refl|].
  eapply same_cm_trans; [|apply IH].
  generalize 4%nat. intro fuel. revert st. induction fuel as [|f IHf]; intro st; cbn [dial_until]; [apply same_cm_refl|].
  destruct (conns_to st (fst t) <? snd t)%nat; [|apply same_cm_refl].
  destruct (find_pool st (fst t)) as [p|]; [|apply same_cm_refl].
  eapply same_cm_trans; [apply same_cm_pool_get | apply IHf].
Qed.

Theorem step_inv st e st' : CInvG st None -> step st e = ROk st' -> CInvG st' None.
Proof.
  intros H. destruct e as [c adm|c b totals|order|s b|c|s| |s|nodes newslots|ch|da dd]; cbn [step].
  - destruct (lookup c (clients st)) as [cl|] eqn:Hl; intro E; inversion E; subst; [exact H|].
    destruct H as [H1 H2]. split; [|exact H2].
    intros c' cl' Hl'. cbn [set_client clients] in Hl'. rewrite lookup_update in Hl'.
    destruct (Nat.eqb_spec c' c) as [->|].
    + inversion Hl'; subst cl'. constructor; cbn [pc_hist pc_got pc_open pc_queue pc_sent]; auto.
      intros _. repeat split. intros x [].
    + apply (client_ok_same st); [reflexivity | apply H1, Hl'].
  - intro E. inversion E; subst. eapply CInvG_same; [apply ensure_dials_same | apply client_data_inv, H].
  - intro E. assert (Hst : st' = run_tasks (task_fuel st) st (order_fn order)) by congruence.
    rewrite Hst. apply (run_tasks_inv (order_fn order)), H.
  - apply server_data_inv, H.
  - intro E. inversion E; subst. apply close_client_inv, H.
  - intro E. inversion E; subst. apply close_server_inv, H.
  - intro E. inversion E; subst. apply timeout_scan_inv, H.
  - destruct (find_pool st s) as [p|]; [|intro E; inversion E; subst; exact H].
    pose proof (same_cm_pool_get st p) as Hcm. destruct (pool_get st p) as [st1 [s1|]]; cbn [fst] in Hcm; intro E; inversion E; subst.
    + eapply CInvG_same; [eapply same_cm_trans; [exact Hcm | apply same_cm_set_tasks] | exact H].
    + eapply CInvG_same; [exact Hcm | exact H].
  - intro E. inversion E; subst. eapply CInvG_same; [|exact H]. repeat split.
  - intro E. inversion E; subst. eapply CInvG_same; [apply same_cm_set_choices | exact H].
  - intro E. inversion E; subst. eapply CInvG_same; [apply same_cm_set_pools | exact H].
Qed.

Theorem run_inv evs : forall st st', CInvG st None -> run st evs = ROk st' -> CInvG st' None.
Proof.
  induction evs as [|e evs IH]; intros st st' H; cbn [run]; [intro E; inversion E; subst; exact H|].
  destruct (step st e) as [st1| | |] eqn:Es; try discriminate.
  apply IH. eapply step_inv; eassumption.
Qed.

Lemma init_inv c pools slots : CInvG (init_state c pools slots) None.
Proof. split; [intros x cl H | intros mid m H]; discriminate. Qed.

(* ---------- the properties ---------- *)
(* C01: for every history of events the bytes a client has received are exactly the replies of its
   requests number 0 .. k-1, in that order, one each, nothing else *)
Theorem replies_in_order c pools slots evs st cid cl :
  run (init_state c pools slots) evs = ROk st -> lookup cid (clients st) = Some cl ->
  map fst (pc_hist cl) = seq 0 (length (pc_hist cl)) /\
  pc_got cl = concat (map snd (pc_hist cl)) /\
  (pc_open cl = true -> pc_sent cl = (length (pc_hist cl) + length (pc_queue cl))%nat /\
                        map (seq_of st) (pc_queue cl) = seq (length (pc_hist cl)) (length (pc_queue cl))).
Proof.
  intros Hrun Hl. pose proof (run_inv evs _ _ (init_inv c pools slots) Hrun) as [H1 _].
  destruct (H1 cid cl Hl) as [A B C _ _]. split; [exact A|]. split; [exact B|].
  intro Ho. destruct (C Ho) as (C1 & C2 & _). auto.
Qed.

(* C09: at the end of every event, no open client has a completed request at the head of its queue *)
Theorem no_completed_head c pools slots evs st cid cl :
  run (init_state c pools slots) evs = ROk st -> lookup cid (clients st) = Some cl -> pc_open cl = true ->
  match pc_queue cl with m :: _ => msg_done st m = false | [] => True end.
Proof.
  intros Hrun Hl Ho. pose proof (run_inv evs _ _ (init_inv c pools slots) Hrun) as [H1 _].
  destruct (H1 cid cl Hl) as [_ _ _ _ E]. apply E; [reflexivity | exact Ho].
Qed.

(* ---------- redirects (C13) ---------- *)
(* a MOVED/ASK reply for a fragment that is still open, naming a node with a pool that yields a
   connection: the fragment is re-queued at the tail of that connection's out queue; nothing is
   written to the client, and no request changes state (only the ghost mark "redirected") *)
Theorem redirect_requeues st s sv f inq' mid slot ty rsp p st1 s2 :
  lookup s (servers st) = Some sv -> ps_inq sv = f :: inq' -> f = FReq mid slot ->
  let st0 := set_inflight (set_server st s {| ps_open := ps_open sv; ps_addr := ps_addr sv; ps_slave := ps_slave sv;
                 ps_initializing := ps_initializing sv; ps_step := ps_step sv; ps_left := ps_left sv;
                 ps_outq := ps_outq sv; ps_inq := inq'; ps_got := ps_got sv; ps_written := ps_written sv;
                 ps_taken := S (ps_taken sv) |}) (remove_first_inflight s f (inflight st)) in
  let stm := mark_moved st0 mid slot in
  frag_done st0 mid slot = false -> (ty = RspMoved \/ ty = RspAsk) ->
  find_pool stm (parse_moved ty rsp) = Some p -> pool_get stm p = (st1, Some s2) ->
  let st2 := if N.eqb ty RspAsk then enqueue_out st1 s2 (FProbe true) else st1 in
  on_reply st s ty rsp = ROk (enqueue_out st2 s2 f) /\
  clients (enqueue_out st2 s2 f) = clients st /\
  (forall x, msg_done (enqueue_out st2 s2 f) x = msg_done st x /\ msg_rsp (enqueue_out st2 s2 f) x = msg_rsp st x).
Proof.
  intros Hs Hq Hf st0 stm Hnd Hty Hpool Hget st2. unfold on_reply. rewrite Hs, Hq. fold st0. subst f. rewrite Hnd.
  assert ((ty =? RspMoved) || (ty =? RspAsk) = true)%bool as ->.
  { destruct Hty as [-> | ->]; [reflexivity | apply orb_true_r]. }
  unfold on_moved. cbn [frag_slot]. fold stm. rewrite Hpool, Hget. split; [reflexivity|].
  pose proof (same_cm_pool_get stm p) as (A & B & _). rewrite Hget in A, B. cbn [fst] in A, B.
  pose proof (same_cm_enqueue_out st2 s2 (FReq mid slot)) as (C & D & _).
  assert (E2 : clients st2 = clients st1 /\ msgs st2 = msgs st1).
  { unfold st2. destruct (N.eqb ty RspAsk); [|split; reflexivity].
    pose proof (same_cm_enqueue_out st1 s2 (FProbe true)) as (C1 & D1 & _). split; assumption. }
  destruct E2 as [E2c E2m].
  split.
  - rewrite C, E2c, A. unfold stm, mark_moved. destruct (lookup mid (msgs st0)); reflexivity.
  - intro x. unfold msg_done, msg_rsp. rewrite D, E2m, B. unfold stm, mark_moved.
    destruct (lookup mid (msgs st0)) as [m|] eqn:Hm; [|split; reflexivity].
    cbn [set_msg msgs]. rewrite lookup_update. destruct (Nat.eqb_spec x mid) as [->|]; [|split; reflexivity].
    change (msgs st0) with (msgs st) in Hm. rewrite Hm. split; reflexivity.
Qed.

Lemma enqueue_out_open st s f sv' : lookup s (servers (enqueue_out st s f)) = Some sv' ->
  exists sv, lookup s (servers st) = Some sv /\ ps_open sv' = ps_open sv /\ ps_addr sv' = ps_addr sv /\ ps_slave sv' = ps_slave sv.
Proof.
  unfold enqueue_out. destruct (lookup s (servers st)) as [sv|] eqn:Hs.
  - cbn [set_tasks set_server servers]. rewrite lookup_update_eq. intro E; inversion E; subst. exists sv. cbn. auto.
  - intro E. rewrite Hs in E. discriminate.
Qed.

Lemma enqueue_out_self st s f sv : lookup s (servers st) = Some sv ->
  exists sv', lookup s (servers (enqueue_out st s f)) = Some sv' /\ ps_open sv' = ps_open sv /\ ps_addr sv' = ps_addr sv /\ ps_slave sv' = ps_slave sv.
Proof.
  intro H. unfold enqueue_out. rewrite H. eexists. cbn [set_tasks set_server servers]. rewrite lookup_update_eq.
  split; [reflexivity|]. cbn. auto.
Qed.

Lemma asking_self st s ty sv : lookup s (servers st) = Some sv ->
  exists sv', lookup s (servers (if N.eqb ty RspAsk then enqueue_out st s (FProbe true) else st)) = Some sv' /\
              ps_open sv' = ps_open sv /\ ps_addr sv' = ps_addr sv /\ ps_slave sv' = ps_slave sv.
Proof.
  intro H. destruct (N.eqb ty RspAsk); [apply enqueue_out_self, H | exists sv; auto].
Qed.

Lemma enqueue_out_tail st s f sv : lookup s (servers st) = Some sv ->
  exists sv', lookup s (servers (enqueue_out st s f)) = Some sv' /\ ps_outq sv' = ps_outq sv ++ [f] /\ ps_got sv' = ps_got sv.
Proof.
  intro H. unfold enqueue_out. rewrite H. eexists. cbn [set_tasks set_server servers]. rewrite lookup_update_eq.
  split; [reflexivity|]. split; reflexivity.
Qed.

(* ---------- a client cannot stop the proxy through a node's error reply (C12 / C11) ---------- *)
(* the reply at the head of an INITIALIZED connection that answers a client's fragment never shuts
   the proxy down, whatever its type and text - also the authentication errors a script can make a
   node say; only the handshake's own answer and the topology probe's answer can *)
Theorem client_reply_never_shuts_down st s sv mid slot inq' ty rsp :
  lookup s (servers st) = Some sv -> ps_inq sv = FReq mid slot :: inq' -> ps_initializing sv = false ->
  on_reply st s ty rsp <> RShutdown.
Proof.
  intros Hs Hq Hi. unfold on_reply. rewrite Hs, Hq, Hi, Bool.andb_false_r.
  match goal with |- context [set_inflight ?a ?b] => set (st0 := set_inflight a b) end.
  destruct (frag_done st0 mid slot); [discriminate|].
  destruct (N.eqb ty RspMoved || N.eqb ty RspAsk)%bool; [discriminate|].
  destruct (lookup mid (msgs st0)) as [m|]; [|discriminate].
  destruct (merge_step Hash (cf_limit (cfg st0)) (pm_sm m) slot ty rsp) as [[sm'|]| |]; try discriminate.
  match goal with |- context [set_msg st0 mid ?x] => set (st1 := set_msg st0 mid x) end.
  destruct (lookup (pm_client m) (clients st1)) as [cl|]; [|discriminate].
  destruct (negb (pc_open cl)); [discriminate|]. destruct (pc_queue cl); discriminate.
Qed.

(* an ASK redirect queues ASKING and then the request, next to each other, at the tail of the named
   node's connection; a MOVED redirect queues the request alone *)
Theorem redirect_queue st1 s2 f ty sv : lookup s2 (servers st1) = Some sv ->
  let st2 := if N.eqb ty RspAsk then enqueue_out st1 s2 (FProbe true) else st1 in
  exists sv', lookup s2 (servers (enqueue_out st2 s2 f)) = Some sv' /\
              ps_outq sv' = ps_outq sv ++ (if N.eqb ty RspAsk then [FProbe true; f] else [f]) /\
              ps_got sv' = ps_got sv /\ ps_inq sv' = ps_inq sv.
Proof.
  intros H st2. unfold st2. destruct (N.eqb ty RspAsk).
  - unfold enqueue_out at 2. rewrite H. unfold enqueue_out. cbn [set_tasks set_server servers]. rewrite lookup_update_eq.
    eexists. cbn [set_tasks set_server servers]. rewrite lookup_update_eq. split; [reflexivity|].
    cbn [ps_outq ps_got ps_inq]. rewrite <- app_assoc. repeat split; reflexivity.
  - unfold enqueue_out. rewrite H. eexists. cbn [set_tasks set_server servers]. rewrite lookup_update_eq.
    split; [reflexivity|]. repeat split; reflexivity.
Qed.

(* the bytes a write round puts on the wire for ASKING followed by a request *)
Lemma asking_wire st f : concat (map (frag_req st) [FProbe true; f]) = ReqAsking ++ frag_req st f.
Proof. cbn [map concat frag_req]. rewrite app_nil_r. reflexivity. Qed.

(* ---------- late replies (C16 / C11): a reply for a fragment that is already done is dropped ---------- *)
Theorem late_reply_dropped st s sv mid slot inq' ty rsp :
  lookup s (servers st) = Some sv -> ps_inq sv = FReq mid slot :: inq' ->
  frag_done st mid slot = true ->
  exists st', on_reply st s ty rsp = ROk st' /\ clients st' = clients st /\ msgs st' = msgs st.
Proof.
  intros Hs Hq Hd. unfold on_reply. rewrite Hs, Hq.
  match goal with |- context [set_inflight ?a ?b] => set (st0 := set_inflight a b) end.
  assert (Hd0 : frag_done st0 mid slot = true) by exact Hd.
  rewrite Hd0. exists st0. repeat split.
Qed.

(* ---------- timeouts (C16) ---------- *)
Lemma fail_msg_other st mid e x : x <> mid -> lookup x (msgs (fail_msg st mid e)) = lookup x (msgs st).
Proof.
  intro Hne. unfold fail_msg. destruct (lookup mid (msgs st)); [|reflexivity].
  cbn [set_msg msgs]. apply lookup_update_ne, Hne.
Qed.

Lemma flush_done_msgs st c : msgs (flush_done st c) = msgs st.
Proof.
  unfold flush_done. destruct (lookup c (clients st)) as [cl|]; [|reflexivity].
  destruct (done_prefix st (pc_queue cl)) as [d rest]. destruct d; reflexivity.
Qed.

Lemma flush_if_open_msgs st c : msgs (flush_if_open st c) = msgs st.
Proof.
  unfold flush_if_open. destruct (lookup c (clients st)) as [cl|]; [|reflexivity].
  destruct (pc_open cl); [apply flush_done_msgs | reflexivity].
Qed.

Definition timed_out (st : pst) (mid : nat) : Prop :=
  exists m, lookup mid (msgs st) = Some m /\ sm_done (pm_sm m) = true /\ sm_rsp (pm_sm m) = ErrMsgRequestTimeout.

Lemma all_frags_done_after_fail st mid e slot :
  (exists m, lookup mid (msgs st) = Some m) -> frag_done (fail_msg st mid e) mid slot = true.
Proof.
  intros (m & Hm). unfold frag_done, fail_msg. rewrite Hm. cbn [set_msg msgs]. rewrite lookup_update_eq. cbn [pm_sm].
  unfold finish_error, get_frag. cbn [sm_frags].
  destruct (find (fun f => sf_slot f =? slot) (map _ (sm_frags (pm_sm m)))) as [f|] eqn:E; [|reflexivity].
  apply find_some in E as [Hin _]. apply in_map_iff in Hin as (g & <- & _). reflexivity.
Qed.

(* once a request has been completed by the timeout it keeps the timeout error as its reply for the
   rest of the scan (other expiries and flushes do not touch it) *)
Lemma timed_out_fail st mid mid' : timed_out st mid -> timed_out (fail_msg st mid' ErrMsgRequestTimeout) mid.
Proof.
  intros (m & Hm & Hdn & Hr). destruct (Nat.eq_dec mid mid') as [<-|Hne].
  - unfold fail_msg. rewrite Hm. eexists. cbn [set_msg msgs]. rewrite lookup_update_eq. repeat split.
  - exists m. rewrite fail_msg_other by exact Hne. auto.
Qed.

Lemma timed_out_msgs st st' mid : msgs st' = msgs st -> timed_out st mid -> timed_out st' mid.
Proof. intros E (m & Hm & H). exists m. rewrite E. auto. Qed.

Lemma expire_keeps l : forall st mid, timed_out st mid -> timed_out (expire st l) mid.
Proof.
  induction l as [|[s f] l IH]; intros st mid H; cbn [expire]; [exact H|].
  destruct f as [|mid' slot]; [apply IH, H|].
  destruct (frag_done st mid' slot); [apply IH, H|].
  apply IH. pose proof (timed_out_fail st mid mid' H) as K.
  destruct (lookup mid' (msgs (fail_msg st mid' ErrMsgRequestTimeout))) as [m'|];
    [eapply timed_out_msgs; [apply flush_if_open_msgs | exact K] | exact K].
Qed.

Definition msg_exists (st : pst) (mid : nat) : Prop := exists m, lookup mid (msgs st) = Some m.

Lemma msg_exists_fail st mid mid' e : msg_exists st mid -> msg_exists (fail_msg st mid' e) mid.
Proof.
  intros (m & Hm). destruct (Nat.eq_dec mid mid') as [<-|Hne].
  - unfold fail_msg. rewrite Hm. eexists. cbn [set_msg msgs]. apply lookup_update_eq.
  - exists m. rewrite fail_msg_other by exact Hne. exact Hm.
Qed.

Lemma frag_done_fail st mid slot mid' e : msg_exists st mid ->
  frag_done st mid slot = true -> frag_done (fail_msg st mid' e) mid slot = true.
Proof.
  intros Hex Hd. destruct (Nat.eq_dec mid mid') as [<-|Hne]; [apply all_frags_done_after_fail, Hex|].
  unfold frag_done. rewrite fail_msg_other by exact Hne. exact Hd.
Qed.

(* the state after handling one expired fragment *)
Definition expire_one (st : pst) (mid : nat) : pst :=
  let st1 := fail_msg st mid ErrMsgRequestTimeout in
  match lookup mid (msgs st1) with Some m => flush_if_open st1 (pm_client m) | None => st1 end.

Lemma expire_one_msgs st mid : msgs (expire_one st mid) = msgs (fail_msg st mid ErrMsgRequestTimeout).
Proof.
  unfold expire_one. destruct (lookup mid (msgs (fail_msg st mid ErrMsgRequestTimeout))); [apply flush_if_open_msgs | reflexivity].
Qed.

Lemma expire_cons_req st s mid slot l :
  expire st ((s, FReq mid slot) :: l) = if frag_done st mid slot then expire st l else expire (expire_one st mid) l.
Proof. reflexivity. Qed.

Lemma expire_done_stays l : forall st mid slot, msg_exists st mid ->
  frag_done st mid slot = true -> frag_done (expire st l) mid slot = true.
Proof.
  induction l as [|[s f] l IH]; intros st mid slot Hex Hd; [exact Hd|].
  destruct f as [|mid' slot']; [cbn [expire]; apply IH; assumption|].
  rewrite expire_cons_req. destruct (frag_done st mid' slot'); [apply IH; assumption|].
  apply IH.
  - destruct (msg_exists_fail st mid mid' ErrMsgRequestTimeout Hex) as (m & Hm). exists m. rewrite expire_one_msgs. exact Hm.
  - unfold frag_done. rewrite expire_one_msgs. apply (frag_done_fail st mid slot mid' _ Hex Hd).
Qed.

(* C16: after the scan, every request that had an un-done fragment in flight is completed with the
   timeout error as its reply, and every in-flight fragment is done *)
Theorem timeout_completes l : forall st s mid slot,
  In (s, FReq mid slot) l -> msg_exists st mid ->
  frag_done (expire st l) mid slot = true /\
  (frag_done st mid slot = false -> timed_out (expire st l) mid).
Proof.
  induction l as [|[s0 f0] l IH]; intros st s mid slot Hin Hex; [destruct Hin|].
  destruct Hin as [E|Hin].
  - inversion E; subst s0 f0. clear E. rewrite expire_cons_req.
    destruct (frag_done st mid slot) eqn:Ed.
    + split; [apply expire_done_stays; assumption | discriminate].
    + assert (Hex1 : msg_exists (expire_one st mid) mid).
      { destruct (msg_exists_fail st mid mid ErrMsgRequestTimeout Hex) as (m & Hm). exists m. rewrite expire_one_msgs. exact Hm. }
      assert (Hto : timed_out (expire_one st mid) mid).
      { destruct Hex as (m & Hm). unfold timed_out. rewrite expire_one_msgs. unfold fail_msg. rewrite Hm.
        eexists. cbn [set_msg msgs]. rewrite lookup_update_eq. repeat split. }
      split; [|intros _; apply expire_keeps, Hto].
      apply expire_done_stays; [exact Hex1|]. unfold frag_done. rewrite expire_one_msgs.
      apply all_frags_done_after_fail, Hex.
  - destruct f0 as [|mid' slot']; [cbn [expire]; apply (IH st s); assumption|].
    rewrite expire_cons_req. destruct (frag_done st mid' slot') eqn:Ed'; [apply (IH st s); assumption|].
    assert (Hex1 : msg_exists (expire_one st mid') mid).
    { destruct (msg_exists_fail st mid mid' ErrMsgRequestTimeout Hex) as (m & Hm). exists m. rewrite expire_one_msgs. exact Hm. }
    destruct (IH (expire_one st mid') s mid slot Hin Hex1) as [A B]. split; [exact A|].
    intro Hnd. destruct (frag_done (expire_one st mid') mid slot) eqn:Ed1; [|apply B; reflexivity].
    (* it became done by the expiry of mid': then mid' = mid and the request is timed out *)
    destruct (Nat.eq_dec mid mid') as [<-|Hne].
    + apply expire_keeps. destruct Hex as (m & Hm). unfold timed_out. rewrite expire_one_msgs. unfold fail_msg. rewrite Hm.
      eexists. cbn [set_msg msgs]. rewrite lookup_update_eq. repeat split.
    + exfalso. unfold frag_done in Ed1, Hnd. rewrite expire_one_msgs, fail_msg_other in Ed1 by exact Hne. congruence.
Qed.
