(* Entry points of the executable model: one named function sx -> sx per modelled component.
   The OCaml driver (ocaml/modelrun.ml) and the in-Coq cross-check both go through dispatch. *)
From RcProxy Require Import Base.Bytes Base.Sx Base.Dec Gen.Generated Spec.KeySlot Model.Crc16
  Model.RespBuf Model.Commands Model.ClientCodec.

Definition e_hash (a : sx) : sx :=
  match a with SB k => sN (Hash k) | _ => bad end.
Definition e_keyslot (a : sx) : sx :=
  match a with SB k => sN (key_slot k) | _ => bad end.

(* ---- client decoder ---- *)
Fixpoint insert_by {A} (key : A -> N) (x : A) (l : list A) : list A :=
  match l with
  | [] => [x]
  | y :: r => if (key x <=? key y)%N then x :: l else y :: insert_by key x r
  end.
Definition sort_by {A} (key : A -> N) (l : list A) : list A := fold_right (insert_by key) [] l.

Definition sx_cmsg (m : cmsg) : list sx :=
  [ sN (cm_type m); SL (map SB (cm_keys m));
    SL (map (fun sf : N * cfrag => SL [sN (fst sf); SB (cf_key (snd sf)); SB (cf_req (snd sf))])
            (sort_by fst (cm_body m))) ].

Definition sx_dec_out (d : dec_out) : sx :=
  match d with
  | DWait => SL [SB (bs "wait")]
  | DClose => SL [SB (bs "invalid")]
  | DCrash => SL [SB (bs "nil")]
  | DHang => SL [SB (bs "hang")]
  | DOk m n => SL (SB (bs "ok") :: snat n :: sx_cmsg m)
  end.

Definition e_cdecode (a : sx) : sx :=
  match a with
  | SL [SN limit; SB b] => sx_dec_out (decode limit b)
  | _ => bad
  end.

(* oracle: spec evaluated on the implementation's own output *)
Definition ok : sx := SN 1%Z.
Definition viol (sig : string) (details : list sx) : sx := SL (SB (bs sig) :: details).
Definition o_c05 (a : sx) : sx :=
  match a with
  | SL [SB k; SN z] =>
      if Z.eqb z (Z.of_N (key_slot k)) then ok
      else viol "slot-differs-from-key-slot-spec" [sN (key_slot k); SN z]
  | _ => bad
  end.

Definition entries : list (bytes * (sx -> sx)) :=
  [ (bs "hash", e_hash);
    (bs "keyslot", e_keyslot);
    (bs "o_c05", o_c05);
    (bs "cdecode", e_cdecode) ].

Definition dispatch (name : bytes) (a : sx) : sx :=
  match assoc_b name entries with
  | Some f => f a
  | None => SL [SB (bs "unknown-entry")]
  end.
