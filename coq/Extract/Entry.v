(* Entry points of the executable model: one named function sx -> sx per modelled component.
   The OCaml driver (ocaml/modelrun.ml) and the in-Coq cross-check both go through dispatch. *)
From RcProxy Require Import Base.Bytes Base.Sx Base.Dec Gen.Generated Spec.KeySlot Model.Crc16
  Spec.RespGrammar Spec.SplitSpec Spec.CommandSpec
  Spec.RouteSpec Model.RespBuf Model.Commands Model.ClientCodec Model.ClientCodecFast Model.ClientFeed Model.ServerCodec Model.Route Model.AuthIp Model.Cluster Model.Proxy Model.Buffers Model.Info.

Definition e_hash (a : sx) : sx :=
  match a with SB k => sN (Hash k) | _ => bad end.
Definition e_keyslot (a : sx) : sx :=
  match a with SB k => sN (key_slot k) | _ => bad end.

(* ---- client decoder ---- *)
Fixpoint insert_by {A} (key : A -> N) (x : A) (l : list A) : list A :=
  match l with
  | [] => [x]
  | y :: r => if (key x <=? key y)%N then x :: l else y :: insert_by key x r
  end.
Definition sort_by {A} (key : A -> N) (l : list A) : list A := fold_right (insert_by key) [] l.

Definition sx_cmsg (m : cmsg) : list sx :=
  [ sN (cm_type m); SL (map SB (cm_keys m));
    SL (map (fun sf : N * cfrag => SL [sN (fst sf); SB (cf_key (snd sf)); SB (cf_req (snd sf))])
            (sort_by fst (cm_body m))) ].

Definition sx_dec_out (d : dec_out) : sx :=
  match d with
  | DWait => SL [SB (bs "wait")]
  | DClose => SL [SB (bs "invalid")]
  | DCrash => SL [SB (bs "nil")]
  | DHang => SL [SB (bs "hang")]
  | DOk m n => SL (SB (bs "ok") :: snat n :: sx_cmsg m)
  end.

Definition e_cdecode (a : sx) : sx :=
  match a with
  | SL [SN limit; SB b] => sx_dec_out (decode_fast limit b)   (* = decode limit b: Props/C06.v C06_evaluated_decoder_is_the_model *)
  | _ => bad
  end.

Definition e_cfeed (a : sx) : sx :=
  match a with
  | SL [SN limit; SL chunks] =>
      match map_opt get_b chunks with
      | Some cs =>
          let '(ms, en) := feed_all limit cs in
          SL [ SL (map (fun m => SL (sx_cmsg m)) ms);
               match en with FWait _ => SB (bs "wait") | FClosed => SB (bs "closed") | FStuck => SB (bs "stuck") end;
               match en with FWait l => snat (length l) | _ => SN 0%Z end ]
      | None => bad
      end
  | _ => bad
  end.

(* oracle: spec evaluated on the implementation's own output *)
Definition ok : sx := SN 1%Z.
Definition viol (sig : string) (details : list sx) : sx := SL (SB (bs sig) :: details).
Definition o_c05 (a : sx) : sx :=
  match a with
  | SL [SB k; SN z] =>
      if Z.eqb z (Z.of_N (key_slot k)) then ok
      else viol "slot-differs-from-key-slot-spec" [sN (key_slot k); SN z]
  | _ => bad
  end.

(* ---- server reply decoder, handshake decoder, merge ---- *)
Definition e_sdecode (a : sx) : sx :=
  match a with
  | SB b => match sdecode b with
            | SWait => SL [SB (bs "wait")]
            | SSpin => SL [SB (bs "invalid")]
            | SHang => SL [SB (bs "hang")]
            | SReply ty n => SL [SB (bs "nil"); sN ty; snat n]
            end
  | _ => bad
  end.

Definition e_initdecode (a : sx) : sx :=
  match a with
  | SL [SN step; SB b] =>
      match init_decode step b with
      | IWait => SL [SB (bs "wait"); SN 0%Z; SN 0%Z]
      | IInvalid => SL [SB (bs "invalid-init"); SN 0%Z; SN 0%Z]
      | IDone n => SL [SB (bs "nil"); snat n; SN 1%Z]
      | IPass => SL [SB (bs "nil"); SN 0%Z; SN 0%Z]
      end
  | _ => bad
  end.

(* groups of a decoded multi-key request, as the server side sees them (slot -> keys) *)
Definition groups_of_cmsg (m : cmsg) (args : list bytes) : list (N * list bytes) :=
  if N.eqb (cm_type m) ReqMget || N.eqb (cm_type m) ReqDel then group_by Hash (fun k => k) (cm_keys m)
  else if N.eqb (cm_type m) ReqMset then group_by Hash (fun k => k) (cm_keys m)
  else map (fun sf => (fst sf, [cf_key (snd sf)])) (cm_body m).

Fixpoint run_merge (limit : Z) (m : smsg) (replies : list (N * bytes)) (sent : bool) : list sx :=
  match replies with
  | [] => []
  | (slot, rsp) :: rest =>
      match sdecode rsp with
      | SReply rty _ =>
          match merge_step Hash limit m slot rty rsp with
          | Fine None => SB [] :: run_merge limit m rest sent
          | Fine (Some m') =>
              if (sm_done m' && negb sent)%bool then SB (sm_rsp m') :: run_merge limit m' rest true
              else SB [] :: run_merge limit m' rest sent
          | Crash w => [SL [SB (bs "crash"); SB w]]
          | Hang => [SL [SB (bs "hang")]]
          end
      | _ => [SL [SB (bs "reply-not-framed")]]
      end
  end.

Definition e_merge (a : sx) : sx :=
  match a with
  | SL [SN limit; SB req; SL replies] =>
      match decode limit req, map_opt (fun r => match r with SL [SN s; SB b] => Some (Z.to_N s, b) | _ => None end) replies with
      | DOk m _, Some rs => SL (run_merge limit (smsg_of m (groups_of_cmsg m [])) rs false)
      | _, _ => bad
      end
  | _ => bad
  end.

(* ---- route / handshake ----
   input (disable ty master ((addr pool ban liftbefore) ...) (k1 k2 ...)) where k_n = rand.Intn(n) *)
Definition get_replica (s : sx) : option replica :=
  match s with
  | SL [SB a; SN p; SN b; SN l] =>
      Some {| r_addr := a; r_pool := negb (Z.eqb p 0); r_ban := negb (Z.eqb b 0); r_lift_before_now := negb (Z.eqb l 0) |}
  | _ => None
  end.

Definition e_route (a : sx) : sx :=
  match a with
  | SL [SN disable; SN ty; SB master; SL slaves; ks] =>
      match map_opt get_replica slaves, get_zl ks with
      | Some sl, Some kl =>
          let rnd (n : nat) : nat := Z.to_nat (nth (n - 1) kl 0%Z) in
          let '(addr, is_slave) := route (negb (Z.eqb disable 0)) (Z.to_N ty) master sl rnd in
          SL [SB addr; sbool is_slave;
              SL (map (fun r => sbool (r_ban r)) (if (negb (Z.eqb disable 0) || (ReqWriteCmdStart <? Z.to_N ty)
                                                      || N.eqb (Z.to_N ty) ReqHscan || N.eqb (Z.to_N ty) ReqSscan || N.eqb (Z.to_N ty) ReqZscan)%bool
                                                  then sl else route_clears sl))]
      | _, _ => bad
      end
  | _ => bad
  end.

Definition e_onsopened (a : sx) : sx :=
  match a with
  | SL [SB pw; SN slave] => let '(out, step) := on_s_opened pw (negb (Z.eqb slave 0)) in SL [SB out; SN step]
  | _ => bad
  end.

(* o_route: C04 (member of the set, by role) and C20 (the k-th healthy replica) on the route suite *)
Definition o_route (a : sx) : sx :=
  match a with
  | SL [SL [SN disable; SN ty; SB master; SL slaves; ks]; SL [SB addr; SN is_slave; _]] =>
      match map_opt get_replica slaves, get_zl ks with
      | Some sl, Some kl =>
          let t := Z.to_N ty in
          let name_ro := existsb (fun p => N.eqb (snd p) t && mem (fst p) readonly_commands) CommandStr2Type in
          let must_master := (negb (Z.eqb disable 0) || negb name_ro
                              || existsb (fun p => N.eqb (snd p) t && (mem (fst p) master_only_reads || mem (fst p) scripts)) CommandStr2Type)%bool in
          let healthy := filter (fun r => r_pool r && negb (r_ban r && r_lift_before_now r)) sl in
          if must_master then
            (if (beqb addr master && Z.eqb is_slave 0)%bool then ok else viol "write-scan-or-script-not-routed-to-master" [SB addr])
          else match healthy with
               | [] => if (beqb addr master && Z.eqb is_slave 0)%bool then ok else viol "read-without-healthy-replica-not-routed-to-master" [SB addr]
               | _ =>
                   let k := Z.to_nat (nth (length healthy - 1) kl 0%Z) in
                   let want := r_addr (nth k healthy {| r_addr := []; r_pool := false; r_ban := false; r_lift_before_now := false |}) in
                   if negb (existsb (fun r => beqb (r_addr r) addr) healthy) then viol "read-routed-outside-the-healthy-replicas" [SB addr]
                   else if negb (beqb addr want) then viol "read-not-routed-to-the-kth-healthy-replica" [SB want; SB addr]
                   else ok
               end
      | _, _ => bad
      end
  | _ => bad
  end.

(* ---- IP whitelist ----
   input: ((enable (ip ...)) ...) history of loaded versions, then probe addresses "ip:port" *)
Fixpoint bytes_leb (a b : bytes) : bool :=
  match a, b with
  | [], _ => true
  | _ :: _, [] => false
  | x :: a', y :: b' => if N.ltb x y then true else if N.ltb y x then false else bytes_leb a' b'
  end.
Fixpoint insert_bytes (x : bytes) (l : list bytes) : list bytes :=
  match l with [] => [x] | y :: r => if bytes_leb x y then x :: l else y :: insert_bytes x r end.
Definition sort_bytes (l : list bytes) : list bytes := fold_right insert_bytes [] l.

Definition get_version (s : sx) : option (bool * list bytes) :=
  match s with
  | SL [SN e; ips] => match get_bl ips with Some l => Some (negb (Z.eqb e 0), l) | None => None end
  | _ => None
  end.

Definition e_authip (a : sx) : sx :=
  match a with
  | SL [SL versions; probes] =>
      match map_opt get_version versions, get_bl probes with
      | Some vs, Some ps =>
          let m := fold_left parse_auth_ip vs ipmap0 in
          SL [sbool (im_enable m); SL (map SB (sort_bytes (im_ips m))); SL (map (fun p => sbool (on_c_opened m p)) ps)]
      | _, _ => bad
      end
  | _ => bad
  end.

(* o_authip: the allowed set must be that of the LAST version *)
Definition o_authip (a : sx) : sx :=
  match a with
  | SL [SL [SL versions; probes]; SL [_; _; SL allowed]] =>
      match map_opt get_version versions, get_bl probes, get_zl (SL allowed) with
      | Some vs, Some ps, Some adm =>
          match rev vs with
          | [] => ok
          | (en, listed) :: _ =>
              let want := map (fun p => (negb en || memb (before_colon p) listed)%bool) ps in
              if sx_eqb (SL (map sbool want)) (SL (map (fun z => sbool (negb (Z.eqb z 0))) adm)) then ok
              else viol "allowed-set-differs-from-last-whitelist-version" [SL (map sbool want)]
          end
      | _, _, _ => bad
      end
  | _ => bad
  end.

(* ---- topology refresh ----
   input ( ((addr loading linkup err) ...)  ((addr slave) ...)  (events ...)  (probe slots ...) )
   event (0 msg) = one probe reply through loopClusterNodes, (1) = one ticker round *)
Definition sx_node (n : cnode) : sx :=
  SL [SB (cn_name n); SB (cn_addr n); sbool (cn_slave n); SB (cn_masterid n);
      SL (map (fun r => SL [SN (fst r); SN (snd r)]) (cn_slots n))].

Fixpoint insert_node (x : cnode) (l : list cnode) : list cnode :=
  match l with [] => [x] | y :: r => if Cluster.bytes_leb (cn_addr x) (cn_addr y) then x :: l else y :: insert_node x r end.
Fixpoint insert_pool (x : bytes * bool) (l : list (bytes * bool)) : list (bytes * bool) :=
  match l with [] => [x] | y :: r => if Cluster.bytes_leb (fst x) (fst y) then x :: l else y :: insert_pool x r end.

Definition sx_cluster (st : cstate) (pools : list (bytes * bool)) (table : list (cnode * list cnode)) (probes : list Z) : sx :=
  SL [ SL (map sx_node (fold_right insert_node [] (cs_servers st)));
       SL (map (fun rs => SL (SB (cn_addr (fst rs)) :: map (fun n => SB (cn_addr n)) (snd rs))) (cs_sets st));
       sbool (cs_changed st);
       SL (map (fun p => SL [SB (fst p); sbool (snd p)]) (fold_right insert_pool [] pools));
       SL (map (fun s => match table_lookup table s with
                         | Some rs => SL [SN s; SB (cn_addr (fst rs)); SL (map (fun n => SB (cn_addr n)) (snd rs))]
                         | None => SL [SN s]
                         end) probes);
       (* the addresses the ticker draws the node to probe from: the pool addresses *)
       SL (map (fun p => SB (fst p)) (fold_right insert_pool [] pools)) ].

Fixpoint run_cluster (info : info_oracle) (evs : list sx) (st : cstate) (pools : list (bytes * bool))
                     (table : list (cnode * list cnode)) (probes : list Z) : list sx :=
  match evs with
  | [] => []
  | SL [SN 0%Z; SB msg] :: rest =>
      match loop_step st info msg with
      | Some st' => sx_cluster st' pools table probes :: run_cluster info rest st' pools table probes
      | None => [SL [SB (bs "refresh-goroutine-panics")]]
      end
  | SL [SN 1%Z] :: rest =>
      if cs_changed st then
        let pools' := tick_pools pools (cs_servers st) in
        let st' := {| cs_servers := cs_servers st; cs_sets := cs_sets st; cs_last := cs_last st; cs_changed := false |} in
        sx_cluster st' pools' (cs_sets st) probes :: run_cluster info rest st' pools' (cs_sets st) probes
      else sx_cluster st pools table probes :: run_cluster info rest st pools table probes
  | _ => [bad]
  end.

Definition get_info (l : list sx) : info_oracle :=
  fun addr =>
    match find (fun e => match e with SL (SB a :: _) => beqb a addr | _ => false end) l with
    | Some (SL [_; SN loading; SN up; SN err]) =>
        if negb (Z.eqb err 0) then None else Some (negb (Z.eqb loading 0), negb (Z.eqb up 0))
    | _ => Some (false, true)
    end.

Definition e_cluster (a : sx) : sx :=
  match a with
  | SL [SL infos; SL pools0; SL evs; probes] =>
      match map_opt (fun p => match p with SL [SB a; SN s] => Some (a, negb (Z.eqb s 0)) | _ => None end) pools0, get_zl probes with
      | Some ps, Some pr => SL (run_cluster (get_info infos) evs cstate0 ps [] pr)
      | _, _ => bad
      end
  | _ => bad
  end.

Definition e_cparse (a : sx) : sx :=
  match a with
  | SL [SL infos; known; SB text] =>
      match get_bl known with
      | Some kn => match parse_nodes kn (get_info infos) text with
                   | Some nodes => SL [SN 1%Z; SL (map sx_node nodes)]
                   | None => SL [SN 0%Z; SL []]
                   end
      | None => bad
      end
  | _ => bad
  end.

(* o_cluster: spec checks on the implementation's own dumps (no model involved):
   the loop must keep reading; after every ticker round each probe slot's owner is a set of the dump
   that claims the slot with the dump's replicas, an unowned slot is claimed by nobody, and the
   pools are exactly the known servers *)
Definition dump_parts (d : sx) := match d with SL [SL servers; SL sets; SN changed; SL pools; SL owners; SL addrs] => Some (servers, sets, changed, pools, owners, addrs) | _ => None end.

Definition server_slots (servers : list sx) (addr : bytes) : list (Z * Z) :=
  match find (fun n => match n with SL [_; SB a; _; _; _] => beqb a addr | _ => false end) servers with
  | Some (SL [_; _; _; _; SL ranges]) =>
      concat (map (fun r => match r with SL [SN a; SN b] => [(a, b)] | _ => [] end) ranges)
  | _ => []
  end.

Definition owner_ok (servers sets : list sx) (o : sx) : bool :=
  let claims (maddr : bytes) (slot : Z) := existsb (fun r => (fst r <=? slot)%Z && (slot <=? snd r)%Z) (server_slots servers maddr) in
  match o with
  | SL [SN slot] =>
      negb (existsb (fun st => match st with SL (SB m :: _) => claims m slot | _ => false end) sets)
  | SL [SN slot; SB m; SL sl] =>
      claims m slot && existsb (fun st => match st with SL (SB m' :: sl') => beqb m m' && sx_eqb (SL sl') (SL sl) | _ => false end) sets
  | _ => false
  end.

Fixpoint check_dumps (evs : list sx) (dumps : list sx) : sx :=
  match evs, dumps with
  | _, SL (SB tag :: _) :: _ => viol "topology-refresh-loop-stopped-or-crashed" [SB tag]
  | ev :: evs', d :: dumps' =>
      match dump_parts d with
      | None => bad
      | Some (servers, sets, changed, pools, owners, addrs) =>
          (* the ticker probes a node drawn from addrs: at all times exactly the nodes that have a pool *)
          if negb (sx_eqb (SL addrs) (SL (map (fun p => match p with SL [SB a; _] => SB a | _ => SL [] end) pools)))
          then viol "probe-candidates-differ-from-pools" [SL addrs] else
          match ev with
          | SL [SN 1%Z] =>
              if negb (forallb (owner_ok servers sets) owners) then viol "slot-owner-inconsistent-with-adopted-topology" [SL owners]
              else if negb (Z.eqb changed 0) then viol "changed-flag-still-set-after-ticker" []
              else
                let saddrs := map (fun n => match n with SL [_; SB a; _; _; _] => a | _ => [] end) servers in
                let paddrs := map (fun p => match p with SL [SB a; _] => a | _ => [] end) pools in
                if (match servers with [] => true | _ => false end) then check_dumps evs' dumps'   (* nothing adopted yet: initial pools stay *)
                else if negb (forallb (fun a => Cluster.memb a saddrs) paddrs && forallb (fun a => Cluster.memb a paddrs) saddrs)
                     then viol "pools-differ-from-adopted-servers" []
                else check_dumps evs' dumps'
          | _ => check_dumps evs' dumps'
          end
      end
  | [], [] => ok
  | _, _ => viol "fewer-observations-than-events" []
  end.

(* at every ticker round the replica sets and slot owners must be those of the latest valid
   description (computed by the specification functions parse_nodes / set_replicaset / table_lookup) *)
Fixpoint compare_ticks (evs : list sx) (impl model : list sx) : sx :=
  match evs, impl, model with
  | SL [SN 1%Z] :: evs', SL [_; si; _; pi; oi; _] :: impl', SL [_; sm; _; pm; om; _] :: model' =>
      if negb (sx_eqb si sm && sx_eqb oi om)%bool then viol "topology-after-ticker-differs-from-latest-valid-description" [sm; om]
      else if negb (sx_eqb pi pm) then viol "pool-set-or-pool-role-differs-from-latest-valid-description" [pm; pi]
      else compare_ticks evs' impl' model'
  | _ :: evs', _ :: impl', _ :: model' => compare_ticks evs' impl' model'
  | _, _, _ => ok
  end.

Definition o_cluster (a : sx) : sx :=
  match a with
  | SL [SL [infos; pools; SL evs; probes]; SL dumps] =>
      match check_dumps evs dumps with
      | SN 1%Z =>
          match e_cluster (SL [infos; pools; SL evs; probes]) with
          | SL model => compare_ticks evs dumps model
          | _ => bad
          end
      | v => v
      end
  | _ => bad
  end.

(* ---- the event loop ----
   input ( (limit password timeout max_active) ((addr dialable) ...) ((lo hi addr) ...) (event ...) )
   events: (0 c allowed) connect | (1 c bytes) client data | (2 ((addr k (slot ...)) ...)) run tasks
           (3 addr k bytes) backend data | (4 c) client close | (5 addr k) backend close | (6) timeout scan
           (7 addr k) schedule the topology probe on that connection
   backend connections are named (address, k-th connection dialled to that address) *)
Definition servers_of (st : pst) (addr : bytes) : list nat :=
  map fst (filter (fun p => beqb (ps_addr (snd p)) addr) (rev (servers st))).

(* servers st is in creation order except that update keeps positions; creation order = ascending sid *)
Definition sids_of (st : pst) (addr : bytes) : list nat :=
  filter (fun s => match lookup s (servers st) with Some sv => beqb (ps_addr sv) addr | None => false end)
         (seq 0 (next_sid st)).

Definition find_sid (st : pst) (addr : bytes) (k : Z) : option nat := nth_error (sids_of st addr) (Z.to_nat k).

Definition sx_event (st : pst) (e : sx) : option event :=
  match e with
  | SL [SN 0%Z; SN c; SN adm] => Some (EConnect (Z.to_nat c) (negb (Z.eqb adm 0)))
  | SL [SN 1%Z; SN c; SB b; SL totals] =>
      Some (EClientData (Z.to_nat c) b
              (concat (map (fun t => match t with SL [SB a; SN n] => [(a, Z.to_nat n)] | _ => [] end) totals)))
  | SL [SN 2%Z; SL orders] =>
      Some (ETasks (concat (map (fun o => match o with
                                          | SL [SB a; SN k; SL slots] =>
                                              match find_sid st a k, get_zl (SL slots) with
                                              | Some s, Some zs => [(s, map Z.to_N zs)]
                                              | _, _ => []
                                              end
                                          | _ => [] end) orders)))
  | SL [SN 3%Z; SB a; SN k; SB b] => match find_sid st a k with Some s => Some (EServerData s b) | None => None end
  | SL [SN 4%Z; SN c] => Some (EClientClose (Z.to_nat c))
  | SL [SN 5%Z; SB a; SN k] => match find_sid st a k with Some s => Some (EServerClose s) | None => None end
  | SL [SN 6%Z] => Some ETimeout
  | SL [SN 7%Z; SB a] => Some (EProbe a)
  | SL [SN 12%Z; SB a; SN d] => Some (EDialable a (negb (Z.eqb d 0)))
  | SL [SN 10%Z; SL chs] =>
      match map_opt (fun c => match c with SL [SB q; SB a] => Some (q, a) | _ => None end) chs with
      | Some l => Some (EChoices l)
      | None => None
      end
  | SL [SN 9%Z; SL nodes; SL ranges] =>
      match map_opt (fun n => match n with SL [SB a; SN r] => Some (a, negb (Z.eqb r 0)) | _ => None end) nodes,
            map_opt (fun r => match r with SL [SN lo; SN hi; SB a] => Some (lo, hi, a) | _ => None end) ranges with
      | Some ns, Some rs => Some (ETopology ns rs)
      | _, _ => None
      end
  | _ => None
  end.

Fixpoint insert_bytes_key {A} (x : bytes * A) (l : list (bytes * A)) : list (bytes * A) :=
  match l with [] => [x] | y :: r => if Cluster.bytes_leb (fst x) (fst y) then x :: l else y :: insert_bytes_key x r end.

(* the addresses of all connections ever dialled (a pool may have been dropped by a topology change
   while its connections are still waiting to be closed), sorted, without repetition *)
Fixpoint dedup_sorted (l : list bytes) : list bytes :=
  match l with
  | a :: ((b :: _) as r) => if beqb a b then dedup_sorted r else a :: dedup_sorted r
  | _ => l
  end.
Definition addrs_of (st : pst) : list bytes :=
  dedup_sorted (map fst (fold_right insert_bytes_key [] (map (fun p => (ps_addr (snd p), tt)) (servers st)))).

Definition sx_observe (st : pst) : sx :=
  SL [ SL (map (fun p => let c := fst p in let cl := snd p in
                         SL [snat c; sbool (pc_open cl); snat (length (pc_queue cl)); SB (pc_got cl);
                             sbool (match pc_queue cl with m :: _ => msg_done st m | [] => false end)])
                (fold_right (fun x l => insert_by (fun q => N.of_nat (fst q)) x l) [] (clients st)));
       SL (concat (map (fun a =>
             map (fun ks => let k := fst ks in let s := snd ks in
                            match lookup s (servers st) with
                            | Some sv => SL [SB a; snat k; sbool (ps_open sv); snat (length (ps_inq sv)); snat (length (ps_outq sv)); SB (ps_got sv)]
                            | None => bad end)
                 (combine (seq 0 (length (sids_of st a))) (sids_of st a)))
             (addrs_of st))) ].

Fixpoint run_loop (st : pst) (evs : list sx) : list sx :=
  match evs with
  | [] => []
  | e :: rest =>
      match e with
      | SL (SN 8%Z :: _) | SL (SN 11%Z :: _) =>
          (* a peer reads what the proxy has written to it and the loop gets its writable event: nothing
             the model distinguishes (sockets deliver at once in the model; the buffers are FIFO: C19);
             (11 ..) is the record of what a readable-and-writable event flushed, for the oracle *)
          sx_observe st :: run_loop st rest
      | _ =>
      match sx_event st e with
      | None => [SL [SB (bs "bad-event")]]
      | Some ev =>
          match step st ev with
          | ROk st' => sx_observe st' :: run_loop st' rest
          | RCrash w => [SL [SB (bs "crash"); SB w]]
          | RHang w => [SL [SB (bs "hang"); SB w]]
          | RShutdown => [SL [SB (bs "shutdown")]]
          end
      end
      end
  end.

(* input: ( (limit password timeout max_active ...) ((addr dialable [is_replica]) ...)
            ((lo hi master [(replica ...)]) ...) (events ...) ); replica lists in the ranges switch
   replica reads on (suite replicas) *)
Definition e_loop (a : sx) : sx :=
  match a with
  | SL [SL (SN limit :: SB pw :: SN tmo :: SN maxa :: _); SL pls; SL sls; SL evs] =>
      match map_opt (fun p => match p with
                              | SL [SB a; SN d] =>
                                Some {| pp_addr := a; pp_slave := false; pp_conns := []; pp_closed := false; pp_dialable := negb (Z.eqb d 0) |}
                              | SL [SB a; SN d; SN sl] =>
                                Some {| pp_addr := a; pp_slave := negb (Z.eqb sl 0); pp_conns := []; pp_closed := false; pp_dialable := negb (Z.eqb d 0) |}
                              | _ => None end) pls,
            map_opt (fun r => match r with SL (SN lo :: SN hi :: SB a :: _) => Some (lo, hi, a) | _ => None end) sls with
      | Some ps, Some ss =>
          let reps := concat (map (fun r => match r with
                                            | SL [_; _; SB m; SL rs] => [(m, concat (map (fun x => match x with SB ra => [ra] | _ => [] end) rs))]
                                            | _ => [] end) sls) in
          let c := {| cf_limit := limit; cf_password := pw; cf_timeout := negb (Z.eqb tmo 0); cf_max_active := Z.to_nat maxa;
                      cf_replica_reads := match reps with [] => false | _ => true end; cf_reps := reps |} in
          SL (run_loop (init_state c ps ss) evs)
      | _, _ => bad
      end
  | _ => bad
  end.

(* the same histories, observed only at the end (suite pressure: peers read late, so intermediate
   byte streams are not comparable); the stream of a closed client is blanked - it may have
   received a prefix only *)
Definition blank_closed (o : sx) : sx :=
  match o with
  | SL [SL cs; ss] =>
      SL [SL (map (fun c => match c with
                            | SL [cid; SN op; q; SB got; hd] => if Z.eqb op 0 then SL [cid; SN op; q; SB []; hd] else c
                            | _ => c end) cs); ss]
  | _ => o
  end.
Definition e_loopfinal (a : sx) : sx :=
  match e_loop a with
  | SL obs => SL [blank_closed (last obs (SL []))]
  | other => other
  end.

(* ---- spec oracles over the client decoder's observable output ---- *)
(* parse one canonical request off the front of b (strict grammar), returning args and rest *)
Definition strict_prefix (b : bytes) : option (list bytes * bytes) :=
  match take_line b with
  | Some (mk :: digits, rest) =>
      if negb (N.eqb mk 42) then None else
      match strict_dec digits with
      | Some n => if N.eqb n 0 then None else strict_bulks (length rest) n rest
      | None => None
      end
  | _ => None
  end.

Definition class_code (c : req_class) : sx :=
  match c with
  | CServed t => SL [SB (bs "served"); sN t]
  | CUnknown => SL [SB (bs "unknown")]
  | CWrongArgs => SL [SB (bs "wrongargs")]
  | CTooLarge => SL [SB (bs "toolarge")]
  end.

Definition spec_class_of (limit : Z) (args : list bytes) : req_class :=
  match args with
  | [] => CUnknown
  | name :: rest =>
      let n := Z.of_nat (length rest) in
      if (limit <? Z.of_nat (length (enc_request args)))%Z then CTooLarge
      else match assoc_b (to_lower name) CommandStr2Type with
           | None => CUnknown
           | Some t =>
               match assoc_n t CommandType2ArgsNumber with
               | None => CWrongArgs
               | Some a =>
                   if negb (arity_ok a n) then CWrongArgs
                   else if ((N.eqb t ReqEval || N.eqb t ReqEvalsha) && (n <? 3)%Z)%bool then CWrongArgs
                   else CServed t
               end
           end
  end.

Definition type_class (t : N) : req_class :=
  if N.eqb t ReqTooLarge then CTooLarge
  else if N.eqb t UNKNOWN then CUnknown
  else if N.eqb t ReqWrongArgumentsNumber then CWrongArgs
  else CServed t.

Definition class_eqb (a b : req_class) : bool := sx_eqb (class_code a) (class_code b).

(* the body of a decoded message as printed by both sides: ((slot key req) ...) *)
Definition get_body (s : sx) : option (list (N * bytes * bytes)) :=
  match s with
  | SL l => map_opt (fun f => match f with
                              | SL [SN slot; SB k; SB r] => Some (Z.to_N slot, k, r)
                              | _ => None end) l
  | _ => None
  end.

Fixpoint nodup_n (l : list N) : bool :=
  match l with [] => true | x :: r => negb (existsb (N.eqb x) r) && nodup_n r end.

(* executable form of Spec.SplitSpec.wf_split1 / wf_split2 for the real slot function *)
Definition split_ok (multi : bytes) (items : list (list bytes)) (body : list (N * bytes * bytes)) : bool :=
  (* every item paired with its slot once (the slot function costs a table walk per key byte) *)
  let sitems := map (fun it : list bytes => (key_slot (hd [] it), it)) items in
  nodup_n (map (fun f => fst (fst f)) body)
  && forallb (fun si : N * list bytes => existsb (fun f => N.eqb (fst (fst f)) (fst si)) body) sitems
  && forallb (fun f =>
       let s := fst (fst f) in
       let mine := map snd (filter (fun si : N * list bytes => N.eqb (fst si) s) sitems) in
       negb (match mine with [] => true | _ => false end)
       && match strict_request (snd f) with
          | Some got => sx_eqb (SL (map SB got)) (SL (map SB (multi :: concat mine)))
          | None => false
          end) body.

Fixpoint chunk2 (l : list bytes) : list (list bytes) :=
  match l with k :: v :: r => [k; v] :: chunk2 r | _ => [] end.

(* o_req: all request-side oracles on one cdecode case.  input (limit b), output as printed. *)
Definition o_req (which : N) (a : sx) : sx :=
  match a with
  | SL [SL [SN limit; SB b]; out] =>
      match out with
      | SL [SB tag] =>
          if beqb tag (bs "nil") then viol "decoder-returned-nil-message-process-dies" []
          else if beqb tag (bs "hang") then viol "decoder-does-not-terminate" []
          else if beqb tag (bs "invalid") then
            (* C08: a proper prefix of a canonical request must not be an error; C17: a canonical
               request must not be rejected as invalid *)
            match strict_prefix b with
            | Some _ => viol "canonical-request-rejected-as-invalid" []
            | None => ok
            end
          else (* wait *)
            match strict_prefix b with
            | Some _ => viol "canonical-request-not-recognised" []
            | None => ok
            end
      | SL [SB tag; SN consumed; SN ty; SL keys; body] =>
          match strict_prefix b, get_body body with
          | None, _ => viol "non-canonical-request-accepted" []
          | Some (args, rest), Some frs =>
              let enc := enc_request args in
              if negb (Z.eqb consumed (Z.of_nat (length enc))) then viol "consumed-differs-from-request-size" [snat (length enc)]
              else if negb (class_eqb (type_class (Z.to_N ty)) (spec_class_of limit args))
                   then viol "classification-differs-from-spec" [class_code (spec_class_of limit args)]
              else if negb (forallb (fun f => match strict_request (snd f) with Some _ => true | None => false end) frs)
                   then viol "forwarded-fragment-not-a-redis-request" []
              else
                let t := Z.to_N ty in
                let rest_args := tl args in
                if N.eqb t ReqMget then
                  if split_ok (bs "mget") (map (fun k => [k]) rest_args) frs then ok else viol "mget-split-wrong" []
                else if N.eqb t ReqDel then
                  if split_ok (bs "del") (map (fun k => [k]) rest_args) frs then ok else viol "del-split-wrong" []
                else if N.eqb t ReqMset then
                  if split_ok (bs "mset") (chunk2 rest_args) frs then ok else viol "mset-split-wrong" []
                else if class_eqb (type_class t) (CServed t) then
                  (* single fragment: the client's own bytes, command name lower-cased, on the key's slot *)
                  match frs, args with
                  | [(slot, k, r)], name :: _ =>
                      let key := if (N.eqb t ReqEval || N.eqb t ReqEvalsha)%bool then nth 2 rest_args [] else nth 0 rest_args [] in
                      if negb (beqb r (enc_request (to_lower name :: rest_args))) then viol "forwarded-bytes-differ-from-request" []
                      else if negb (N.eqb slot (key_slot key)) then viol "fragment-on-wrong-slot" []
                      else ok
                  | _, _ => viol "single-key-request-without-exactly-one-fragment" []
                  end
                else ok
          | _, None => bad
          end
      | _ => bad
      end
  | _ => bad
  end.
Definition o_reqs := o_req 0.

(* o_feed: the read loop's result must equal extraction (by the SPEC parser) from the concatenation *)
Fixpoint spec_extract (fuel : nat) (limit : Z) (b : bytes) : list (list bytes) * bytes :=
  match fuel with
  | O => ([], b)
  | S f => match strict_prefix b with
           | Some (args, rest) =>
               if match hd [] args with nm => beqb (to_lower nm) (bs "quit") end
                  && class_eqb (spec_class_of limit args) (CServed ReqQuit)
               then ([args], [])
               else let '(rs, l) := spec_extract f limit rest in (args :: rs, l)
           | None => ([], b)
           end
  end.

Fixpoint forallb2_types (limit : Z) (msgs : list sx) (rs : list (list bytes)) : bool :=
  match msgs, rs with
  | [], [] => true
  | SL (SN ty :: _) :: ms, r :: rs' =>
      class_eqb (type_class (Z.to_N ty)) (spec_class_of limit r) && forallb2_types limit ms rs'
  | _, _ => false
  end.

Definition o_feed (a : sx) : sx :=
  match a with
  | SL [SL [SN limit; SL chunks]; SL [SL msgs; SB en; SN leftn]] =>
      match map_opt get_b chunks with
      | Some cs =>
          let stream := concat cs in
          let '(rs, l) := spec_extract (S (length stream)) limit stream in
          (* only judged when the stream is a (possibly truncated) well-formed pipeline: the
             leftover must be a proper prefix of a canonical request; approximated by: the model
             decoder is waiting on it *)
          match decode limit l with
          | DWait =>
              if negb (Nat.eqb (length msgs) (length rs)) then viol "number-of-extracted-requests-differs" [snat (length rs)]
              else if negb (forallb2_types limit msgs rs) then viol "extracted-request-classified-differently" []
              else ok
          | _ => ok
          end
      | None => bad
      end
  | _ => bad
  end.

(* ---- o_merge: C07 / C11 / C02(reply) / C17(reply size) on the merge suite ----
   input (limit req ((slot reply) ...)) ; output: client bytes after each released reply *)
Fixpoint array_elems (fuel : nat) (n : N) (l : bytes) : option (list bytes) :=
  if N.eqb n 0 then (match l with [] => Some [] | _ => None end)
  else match fuel with
       | O => None
       | S f =>
           if has_prefix l (bs "$-1" ++ crlf)
           then match array_elems f (n - 1) (skipn 5 l) with Some r => Some ((bs "$-1" ++ crlf) :: r) | None => None end
           else match strict_bulk l with
                | Some (v, rest) =>
                    match array_elems f (n - 1) rest with Some r => Some (enc_bulk v :: r) | None => None end
                | None => None
                end
       end.

Definition split_array (b : bytes) : option (list bytes) :=
  match take_line b with
  | Some (mk :: digits, rest) =>
      if negb (N.eqb mk 42) then None
      else match strict_dec digits with Some n => array_elems (length rest) n rest | None => None end
  | _ => None
  end.

Definition is_error_line (b : bytes) : bool :=
  match b with
  | 45 :: _ => match take_line b with Some (_, []) => true | _ => false end
  | _ => false
  end.

Fixpoint first_index (k : bytes) (l : list bytes) : option nat :=
  match l with [] => None | x :: r => if beqb x k then Some O else option_map S (first_index k r) end.

Definition expected_mget (keys : list bytes) (replies : list (N * bytes)) : option bytes :=
  let elem (k : bytes) : option bytes :=
    let s := key_slot k in
    match find (fun r => N.eqb (fst r) s) replies with
    | Some (_, rb) =>
        match split_array rb, first_index k (filter (fun x => N.eqb (key_slot x) s) keys) with
        | Some es, Some i => nth_error es i
        | _, _ => None
        end
    | None => None
    end in
  match map_opt elem keys with
  | Some es => Some ([42] ++ itoa_nat (length keys) ++ crlf ++ concat es)
  | None => None
  end.

Definition int_of_reply (b : bytes) : option N :=
  match take_line b with
  | Some (58 :: digits, []) => strict_dec digits
  | _ => None
  end.

Definition o_merge (a : sx) : sx :=
  match a with
  | SL [SL [SN limit; SB req; SL replies]; SL outs] =>
      match strict_prefix req,
            map_opt (fun r => match r with SL [SN s; SB b] => Some (Z.to_N s, b) | _ => None end) replies,
            map_opt get_b outs with
      | Some (args, _), Some rs, Some os =>
          let total := concat os in
          let t := match spec_class_of limit args with CServed t => t | _ => 0 end in
          let keys := tl args in
          let bad_kind (rb : bytes) : bool :=
            if N.eqb t ReqMget then negb (match split_array rb with Some _ => true | None => false end)
            else if N.eqb t ReqDel then negb (match int_of_reply rb with Some _ => true | None => false end)
            else if N.eqb t ReqMset then negb (beqb rb (bs "+OK" ++ crlf))
            else false in
          let too_big := existsb (fun r => (limit <? Z.of_nat (length (snd r)))%Z) rs in
          let early := concat (removelast os) in
          if (N.eqb t ReqMget || N.eqb t ReqDel || N.eqb t ReqMset)%bool then
            if (existsb (fun r => bad_kind (snd r)) rs || too_big)%bool then
              (* C11: exactly one reply and it is an error *)
              if is_error_line total then ok
              else if match total with [] => true | _ => false end then viol "no-reply-after-fragment-error" []
              else viol "fragment-error-not-reported-as-error" [SB total]
            else
              match early with
              | _ :: _ => viol "reply-before-all-fragments-answered" [SB early]
              | [] =>
                  let expected :=
                    if N.eqb t ReqMget then expected_mget keys rs
                    else if N.eqb t ReqDel then
                      match map_opt (fun r => int_of_reply (snd r)) rs with
                      | Some ns => Some ([58] ++ itoa (fold_right N.add 0 ns) ++ crlf)
                      | None => None
                      end
                    else Some (bs "+OK" ++ crlf) in
                  match expected with
                  | Some e =>
                      if (limit <? Z.of_nat (length e))%Z
                      then (if beqb total ErrMsgRspTooLarge then ok else viol "oversized-merged-reply-not-replaced" [])
                      else if beqb total e then ok else viol "merged-reply-differs-from-spec" [SB e; SB total]
                  | None => bad
                  end
              end
          else
            (* single-key: verbatim, or the size error *)
            match rs with
            | [(_, rb)] =>
                if (limit <? Z.of_nat (length rb))%Z
                then (if beqb total ErrMsgRspTooLarge then ok else viol "oversized-reply-not-replaced" [])
                else if beqb total rb then ok else viol "reply-not-verbatim" [SB rb; SB total]
            | _ => ok
            end
      | _, _, _ => bad
      end
  | _ => bad
  end.

(* o_sdecode: reply framing against the spec (a well-formed value is one reply of its own size) *)
(* ---- o_loop: session-level spec oracles on the implementation's own event trace ----
   The harness's fake backends answer every fragment by a fixed convention (a pure function of the
   fragment and the answering node), and every key carries "c<client>r<request number>", so the
   expected reply of every request is determined by the request alone. *)
Definition find_sub (s sub : bytes) : bool := Cluster.contains s sub.

Definition conv_value (k : bytes) : bytes :=
  enc_bulk (bs "V(" ++ k ++ bs ")" ++ if find_sub k (bs "big") then repeat 120 30 else []).

(* what the client must receive for request args, by the convention, if no fault interferes *)
Definition expected_reply (limit : Z) (password : bytes) (args : list bytes) : option bytes :=
  match spec_class_of limit args with
  | CUnknown => Some ErrUnKnownCommand
  | CWrongArgs => Some ErrMsgReqWrongArgumentsNumber
  | CTooLarge => Some ErrMsgReqTooLarge
  | CServed t =>
      let keys := tl args in
      let key := hd [] keys in
      if N.eqb t ReqPing then Some StatusPONG
      else if N.eqb t ReqQuit then Some StatusOK
      else if N.eqb t ReqAuth then
        Some (match password with [] => ErrAuthNeedNtPassword | _ => if beqb password key then StatusOK else ErrAuthInvalidPassword end)
      else if N.eqb t ReqMget then
        if existsb (fun k => find_sub k (bs "err") || find_sub k (bs "noauth"))%bool keys then Some ErrUnKnownMget
        else Some ([42] ++ itoa_nat (length keys) ++ crlf ++
                   concat (map (fun k => if find_sub k (bs "nil") then bs "$-1" ++ crlf else conv_value k) keys))
      else if ((N.eqb t ReqDel || N.eqb t ReqMset)%bool && existsb (fun k => find_sub k (bs "err") || find_sub k (bs "noauth"))%bool keys)%bool
      then None      (* a node answers one fragment with an error: the whole request fails with an error of the proxy *)
      else if N.eqb t ReqDel then Some ([58] ++ itoa_nat (length keys) ++ crlf)
      else if (N.eqb t ReqMset || N.eqb t ReqSet)%bool then Some StatusOK
      else if find_sub (if (N.eqb t ReqEval || N.eqb t ReqEvalsha)%bool then nth 3 args [] else key) (bs "noauth") then
        Some (bs "-NOAUTH Authentication required." ++ crlf)
      else if find_sub key (bs "err") then
        Some (bs "-ERR bad " ++ key ++ crlf)
      else if N.eqb t ReqGet then Some (conv_value key)
      else Some (enc_bulk (bs "R(" ++ to_lower (hd [] args) ++ bs "," ++ key ++ bs ")"))
  end.

Definition proxy_fault_errors : list bytes :=
  [ErrUnKnownSlot; ErrUnKnownProxyPoolError; ErrUnKnownProxyPoolConnError; ErrMsgRequestTimeout; ErrMsgRspTooLarge; ErrUnKnown; ErrUnKnownMget].

(* split a client's received bytes into replies with the (proved exact) reply framer *)
Fixpoint split_replies (fuel : nat) (b : bytes) : list bytes * bytes :=
  match fuel with
  | O => ([], b)
  | S f => match b with
           | [] => ([], [])
           | _ => match sdecode b with
                  | SReply _ n => let '(rs, rest) := split_replies f (skipn n b) in (firstn n b :: rs, rest)
                  | _ => ([], b)
                  end
           end
  end.

(* "c<cid>r<seq>" inside a key, after an optional {tag} *)
Fixpoint take_digits (l : bytes) (acc : N) (any : bool) : option (N * bytes) :=
  match l with
  | d :: r => if is_digit d then take_digits r (acc * 10 + (d - 48)) true else if any then Some (acc, l) else None
  | [] => if any then Some (acc, []) else None
  end.
Fixpoint drop_tag (l : bytes) : bytes :=
  match l with
  | 123 :: r => (fix skip (x : bytes) := match x with 125 :: y => y | _ :: y => skip y | [] => [] end) r
  | _ => l
  end.
Definition key_ids (k : bytes) : option (N * N) :=
  match drop_tag k with
  | 99 :: r => match take_digits r 0 false with
               | Some (cid, 114 :: r2) => match take_digits r2 0 false with Some (sq, _) => Some (cid, sq) | None => None end
               | _ => None
               end
  | _ => None
  end.

Fixpoint nondecreasing_per_client (reqs : list (list bytes)) (last : list (N * N)) : bool :=
  match reqs with
  | [] => true
  | a :: rest =>
      let key := hd [] (tl a) in
      if (find_sub key (bs "mov") || find_sub key (bs "ask"))%bool then nondecreasing_per_client rest last
      else match key_ids key with
           | Some (cid, sq) =>
               match find (fun p => N.eqb (fst p) cid) last with
               | Some (_, prev) => if sq <? prev then false
                                   else nondecreasing_per_client rest ((cid, sq) :: filter (fun p => negb (N.eqb (fst p) cid)) last)
               | None => nondecreasing_per_client rest ((cid, sq) :: last)
               end
           | None => nondecreasing_per_client rest last
           end
  end.

Fixpoint all_requests (fuel : nat) (b : bytes) : list (list bytes) :=
  match fuel with
  | O => []
  | S f => match strict_prefix b with
           | Some (args, rest) => args :: all_requests f rest
           | None => []
           end
  end.

Fixpoint check_replies (limit : Z) (pw : bytes) (reqs : list (list bytes)) (reps : list bytes) (i : nat) : sx :=
  match reps, reqs with
  | [], _ => ok
  | r :: _, [] => viol "more-replies-than-requests" [snat i; SB r]
  | r :: reps', q :: reqs' =>
      if (has_prefix r (bs "-MOVED") || has_prefix r (bs "-ASK"))%bool then viol "redirect-error-leaked-to-client" [snat i; SB r]
      else if (limit <? Z.of_nat (length r))%Z then viol "reply-larger-than-the-limit-delivered" [snat i; snat (length r)]
      else
        let good := match expected_reply limit pw q with Some e => beqb r e | None => false end in
        if (good || Cluster.memb r proxy_fault_errors)%bool then check_replies limit pw reqs' reps' (S i)
        else viol "reply-does-not-belong-to-the-request-at-its-position" [snat i; SB r; SL (map SB q)]
  end.

(* C13: "unknown proxy pool" answers a request only when a node named a node the proxy has no pool
   for (key marker movx; or a topology change took the pool away): a redirect to a known node is
   followed *)
Fixpoint redirect_refused (reqs : list (list bytes)) (reps : list bytes) (i : nat) : option sx :=
  match reqs, reps with
  | q :: qs, r :: rs =>
      let key := hd [] (tl q) in
      if ((beqb r ErrUnKnownProxyPoolError && negb (existsb (fun k => find_sub k (bs "movx")) (tl q)))
          || (beqb r ErrUnKnown && beqb (to_lower (hd [] q)) (bs "get")
              && (find_sub key (bs "mov") || find_sub key (bs "ask")) && negb (find_sub key (bs "movx"))))%bool
      then Some (viol "redirect-to-a-known-node-refused" [snat i; SL (map SB q)])
      else redirect_refused qs rs (S i)
  | _, _ => None
  end.

Definition last_obs (obs : list sx) : sx := last obs (SL []).

(* reads: the command types route may send to a replica (below the write marker, not a cursor scan) *)
Definition is_read_request (a : list bytes) : bool :=
  match assoc_b (to_lower (hd [] a)) CommandStr2Type with
  | Some t => (t <? ReqWriteCmdStart) && negb (N.eqb t ReqHscan || N.eqb t ReqSscan || N.eqb t ReqZscan)
  | None => false
  end.

(* a connection to a replica must carry READONLY (after the optional AUTH) before any request *)
Definition replica_without_readonly (ranges : list sx) (addr : bytes) (reqs : list (list bytes)) : bool :=
  let is_rep := existsb (fun r => match r with
                                  | SL [_; _; _; SL reps] => existsb (fun x => match x with SB ra => beqb ra addr | _ => false end) reps
                                  | _ => false end) ranges in
  if negb is_rep then false
  else
    let after_auth := match reqs with a :: r => if beqb (to_lower (hd [] a)) (bs "auth") then r else reqs | [] => [] end in
    match after_auth with
    | [] => false
    | a :: _ => negb (beqb (to_lower (hd [] a)) (bs "readonly"))
    end.

(* C04: a request (not redirected there by a node, not part of the handshake or the topology probe)
   must have been sent to the node that owns the slot of its first key in the configured table *)
Definition misrouted_raw (redirected_ok : bool) (ranges : list sx) (addr : bytes) (a : list bytes) : bool :=
  let cmd := to_lower (hd [] a) in
  let key := if (beqb cmd (bs "eval") || beqb cmd (bs "evalsha"))%bool then nth 3 a [] else hd [] (tl a) in
  if (beqb cmd (bs "auth") || beqb cmd (bs "readonly") || beqb cmd (bs "cluster") || beqb cmd (bs "asking"))%bool then false
  else if (redirected_ok && (find_sub key (bs "mov") || find_sub key (bs "ask")))%bool then false
  else match tl a with
       | [] => false
       | _ =>
         let slot := Z.of_N (key_slot key) in
         match find (fun r => match r with SL (SN lo :: SN hi :: SB _ :: _) => (lo <=? slot)%Z && (slot <=? hi)%Z | _ => false end) ranges with
         | Some (SL [_; _; SB owner]) => negb (beqb owner addr)
         | Some (SL [_; _; SB owner; SL reps]) =>
             (* replica reads enabled: the master, or - for a read - one of the replicas of the owning set *)
             if beqb owner addr then false
             else negb (is_read_request a && existsb (fun r => match r with SB ra => beqb ra addr | _ => false end) reps)
         | _ => true      (* unowned slot: nothing may be sent for it *)
         end
       end.

Definition misrouted := misrouted_raw true.

(* C13: a request whose key makes the first node answer -ASK, found on a connection to a node that
   owns its slot in none of the tables of the history, was re-sent there after the redirect: it must
   be immediately preceded by ASKING on that connection *)
Fixpoint ask_without_asking (tables : list (list sx)) (addr : bytes) (reqs : list (list bytes)) (prev_asking : bool) : bool :=
  match reqs with
  | [] => false
  | a :: rest =>
      let key := hd [] (tl a) in
      let is_asking := beqb (to_lower (hd [] a)) (bs "asking") in
      if (find_sub key (bs "ask") && negb prev_asking && forallb (fun t => misrouted_raw false t addr a) tables)%bool then true
      else ask_without_asking tables addr rest is_asking
  end.

(* C16: a timeout scan that follows a task round (so every routed fragment has been written) with
   every deadline passed completes every request: no open client keeps a queued request *)
Fixpoint scan_leaves_requests (prev_tasks : bool) (evs obs : list sx) : bool :=
  match evs, obs with
  | e :: evs', o :: obs' =>
      let is_tasks := match e with SL (SN 2%Z :: _) => true | _ => false end in
      let is_scan := match e with SL [SN 6%Z] => true | _ => false end in
      if (is_scan && prev_tasks &&
          match o with
          | SL [SL cs; _] => existsb (fun c => match c with SL [_; SN op; SN qlen; _; _] => negb (Z.eqb op 0) && negb (Z.eqb qlen 0) | _ => false end) cs
          | _ => false
          end)%bool
      then true else scan_leaves_requests is_tasks evs' obs'
  | _, _ => false
  end.

(* C09 / C13: at the end of the event that delivers bytes to a backend connection, every reply that
   has arrived completely has been taken off the wire: the replies delivered so far (whole ones) plus
   the fragments still awaiting a reply never exceed the requests written to that connection *)
Fixpoint reply_left_unprocessed (evs obs : list sx) (delivered : list (bytes * Z * bytes)) : option sx :=
  match evs, obs with
  | e :: evs', o :: obs' =>
      match e with
      | SL [SN 3%Z; SB a; SN k; SB b] =>
          let same (d : bytes * Z * bytes) := (beqb (fst (fst d)) a && Z.eqb (snd (fst d)) k)%bool in
          let sofar := match find same delivered with Some d => snd d ++ b | None => b end in
          let delivered' := (a, k, sofar) :: filter (fun d => negb (same d)) delivered in
          let bad_conn (sv : sx) : bool :=
            match sv with
            | SL [SB addr; SN k'; SN op; SN inq; _; SB got] =>
                if (beqb addr a && Z.eqb k' k && negb (Z.eqb op 0))%bool then
                  let whole := length (fst (split_replies (S (length sofar)) sofar)) in
                  let written := length (all_requests (S (length got)) got) in
                  ((whole <=? written)%nat && (written <? whole + Z.to_nat inq)%nat)%bool
                else false
            | _ => false
            end in
          match o with
          | SL [_; SL ss] =>
              if existsb bad_conn ss then Some (viol "backend-reply-received-but-not-processed" [SB a; SN k])
              else reply_left_unprocessed evs' obs' delivered'
          | _ => reply_left_unprocessed evs' obs' delivered'
          end
      | _ => reply_left_unprocessed evs' obs' delivered
      end
  | _, _ => None
  end.

(* C15 / C04: once the ticker has applied a topology and a task round has run, no connection to a
   node that the topology does not list is open any more (its pool was closed; whatever was queued or
   in flight there has been completed with an error) *)
Fixpoint removed_node_connection_open (evs obs : list sx) (listed : option (list bytes)) (tasks_since : bool) : option sx :=
  match evs, obs with
  | e :: evs', o :: obs' =>
      let '(listed', since') :=
        match e with
        | SL [SN 9%Z; SL nodes; _] => (Some (concat (map (fun n => match n with SL (SB a :: _) => [a] | _ => [] end) nodes)), false)
        | SL (SN 2%Z :: _) => (listed, true)
        | _ => (listed, tasks_since)
        end in
      match listed', since', o with
      | Some l, true, SL [_; SL ss] =>
          match find (fun sv => match sv with
                                | SL (SB addr :: SN _ :: SN op :: _) => negb (Z.eqb op 0) && negb (Cluster.memb addr l)
                                | _ => false end) ss with
          | Some (SL (SB addr :: SN k :: _)) => Some (viol "connection-to-removed-node-left-open" [SB addr; SN k])
          | _ => removed_node_connection_open evs' obs' listed' since'
          end
      | _, _, _ => removed_node_connection_open evs' obs' listed' since'
      end
  | _, _ => None
  end.

Definition o_loop (a : sx) : sx :=
  match a with
  | SL [SL [SL (SN limit :: SB pw :: SN tmo :: _); _; SL ranges; SL evs]; SL obs] =>
      (* the slot tables in force at some point of the history: the configured one and those applied by
         the ticker (the oracle does not know when a request was routed: the owner in any of them is
         accepted; the theorem C04_delivered_to_the_owner is exact) *)
      let tables := ranges :: concat (map (fun e => match e with SL [SN 9%Z; _; SL rs] => [rs] | _ => [] end) evs) in
      if (negb (Z.eqb tmo 0) && scan_leaves_requests false evs obs)%bool
      then viol "request-not-completed-by-the-timeout-scan" []
      else
      (* C09: one event that is readable and writable (record (11 client backlog drained got)): replies
         were piled up for the client, the client has just emptied its socket - the event must flush *)
      if existsb (fun e => match e with
                           | SL [SN 11%Z; _; SN before; SN drained; SN got] => (0 <? before)%Z && (0 <? drained)%Z && Z.eqb got 0
                           | _ => false end) evs
      then viol "backlog-not-flushed-on-a-readable-and-writable-event" []
      else
      (* (a) C09: never a completed head at the end of an event *)
      if existsb (fun o => match o with
                           | SL [SL cs; _] => existsb (fun c => match c with SL [_; SN op; _; _; SN hd] => negb (Z.eqb op 0) && negb (Z.eqb hd 0) | _ => false end) cs
                           | _ => false end) obs
      then viol "completed-reply-withheld-at-head-of-queue" []
      else
      match last_obs obs with
      | SL [SL cs; SL ss] =>
          (* per client: requests sent, replies received *)
          let client_check (c : sx) : sx :=
            match c with
            | SL [SN cid; SN op; SN qlen; SB got; _] =>
                let sent := concat (map (fun e => match e with SL [SN 1%Z; SN c'; SB b; _] => if Z.eqb c' cid then b else [] | _ => [] end) evs) in
                let '(reqs, _) := spec_extract (S (length sent)) limit sent in
                let '(reps, junk) := split_replies (S (length got)) got in
                match junk with
                | _ :: _ => viol "stray-bytes-after-the-last-reply" [SN cid; SB junk]
                | [] =>
                    match (match check_replies limit pw reqs reps 0, tables with
                           | SN 1%Z, [_] => match redirect_refused reqs reps 0 with Some v => v | None => ok end
                           | v, _ => v
                           end) with
                    | SN 1%Z =>
                        (* C15 / C01 completeness at quiescence: an open, idle client has every reply *)
                        if (negb (Z.eqb op 0) && (length reps <? length reqs)%nat
                            && negb (existsb (fun e => match e with SL [SN 4%Z; SN c'] => Z.eqb c' cid | _ => false end) evs))%bool
                        then viol "request-never-answered-and-connection-left-open" [SN cid; snat (length reps); snat (length reqs)]
                        else ok
                    | v => v
                    end
                end
            | _ => bad
            end in
          match find (fun r => negb (sx_eqb r ok)) (map client_check cs) with
          | Some v => v
          | None =>
              (* per backend connection: per-client order (C10), ASKING before an ASK re-send (C13),
                 nothing a Redis node rejects (C12) *)
              let server_check (sv : sx) : sx :=
                match sv with
                | SL [SB addr; SN k; _; _; _; SB got] =>
                    let reqs := all_requests (S (length got)) got in
                    if negb (Nat.eqb (length (concat (map enc_request reqs))) (length got)) then viol "backend-received-bytes-that-are-not-requests" [SB addr; SN k]
                    else if existsb (fun a => forallb (fun t => misrouted t addr a) tables) reqs then viol "request-delivered-to-a-node-that-does-not-own-the-slot" [SB addr; SN k]
                    else if replica_without_readonly ranges addr reqs then viol "replica-connection-used-without-readonly" [SB addr; SN k]
                    else if negb (nondecreasing_per_client reqs []) then viol "requests-of-one-client-reordered-on-a-node" [SB addr; SN k]
                    else if ask_without_asking tables addr reqs false then viol "ask-redirect-without-asking" [SB addr; SN k]
                    else ok
                | _ => bad
                end in
              match find (fun r => negb (sx_eqb r ok)) (map server_check ss) with
              | Some v => v
              | None =>
                  match (if Nat.eqb (length evs) (length obs) then reply_left_unprocessed evs obs [] else None) with
                  | Some v => v
                  | None =>
                      match (if Nat.eqb (length evs) (length obs) then removed_node_connection_open evs obs None false else None) with
                      | Some v => v
                      | None => ok
                      end
                  end
              end
          end
      | SL [SB tag] => viol "event-loop-stopped" [SB tag]
      | SL (SB tag :: _) => viol "event-loop-stopped" [SB tag]
      | _ => ok
      end
  | _ => bad
  end.


(* ---- I/O buffers (C19) ----
   input ( kind param (op ...) ): kind 0 = ring.New(param); 1 = elastic.RingBuffer; 2 = elastic.New(param)
   ops: (0 bytes cap0) Write   [cap0 = capacity of the pooled ring when this call instantiates it, else -1]
        (1 n) Peek(n)  (2 n) Discard(n)  (3 k) Read(make([]byte,k))  (4) Reset
        (5 (bytes ...) cap0) Writev   (6 c cap0) WriteByte   (7) ReadByte
   observation after every op: ( result buffered capacity empty ) *)
Inductive bufst := BRing (r : ring) | BERing (r : ering) | BEBuf (b : ebuf).

Definition nonempty_chunks (l : list bytes) : sx := SL (map SB (filter (fun b => negb (Nat.eqb (length b) 0)) l)).
Definition zcap (z : Z) : nat := if (z <? 0)%Z then 0%nat else Z.to_nat z.

Definition buf_obs (st : bufst) (res : sx) : sx :=
  match st with
  | BRing r => SL [res; snat (ring_buffered r); snat (length (rg_buf r)); sbool (rg_empty r)]
  | BERing r => SL [res; snat (er_buffered r); snat (er_len r); sbool (er_is_empty r)]
  | BEBuf b => SL [res; snat (eb_buffered b); snat (er_len (eb_ring b)); sbool (eb_is_empty b)]
  end.

Definition sopt_bytes (o : option bytes) : sx := match o with Some d => SB d | None => SL [SB (bs "empty")] end.

Definition buf_step (st : bufst) (op : sx) : option (bufst * sx) :=
  match st, op with
  | BRing r, SL [SN 0%Z; SB p; SN _] => Some (BRing (ring_write r p), snat (length p))
  | BERing r, SL [SN 0%Z; SB p; SN c] => Some (BERing (er_write r (zcap c) p), snat (length p))
  | BEBuf b, SL [SN 0%Z; SB p; SN c] => Some (BEBuf (eb_write b (zcap c) p), snat (length p))
  | BRing r, SL [SN 1%Z; SN n] => let '(h, t) := ring_peek r (0 <? n)%Z (Z.to_nat n) in Some (st, nonempty_chunks [h; t])
  | BERing r, SL [SN 1%Z; SN n] => let '(h, t) := er_peek r (0 <? n)%Z (Z.to_nat n) in Some (st, nonempty_chunks [h; t])
  | BEBuf b, SL [SN 1%Z; SN n] => Some (st, nonempty_chunks (eb_peek b (0 <? n)%Z (Z.to_nat n)))
  | BRing r, SL [SN 2%Z; SN n] => let '(d, r') := ring_discard r (Z.to_nat n) in Some (BRing r', snat d)
  | BERing r, SL [SN 2%Z; SN n] => let '(d, r') := er_discard r (Z.to_nat n) in Some (BERing r', snat d)
  | BEBuf b, SL [SN 2%Z; SN n] => let '(d, b') := eb_discard b (Z.to_nat n) in Some (BEBuf b', snat d)
  | BRing r, SL [SN 3%Z; SN k] => let '(o, r') := ring_read r (Z.to_nat k) in Some (BRing r', sopt_bytes o)
  | BERing r, SL [SN 3%Z; SN k] => let '(o, r') := er_read r (Z.to_nat k) in Some (BERing r', sopt_bytes o)
  | BEBuf b, SL [SN 3%Z; SN k] => let '(d, b') := eb_read b (Z.to_nat k) in Some (BEBuf b', SB d)
  | BRing r, SL [SN 4%Z] => Some (BRing (ring_reset r), SN 0%Z)
  | BERing r, SL [SN 4%Z] => Some (BERing (er_reset r), SN 0%Z)
  | BEBuf b, SL [SN 4%Z] => Some (BEBuf (eb_reset b 0), SN 0%Z)
  | BEBuf b, SL [SN 5%Z; SL bss; SN c] =>
      match map_opt get_b bss with
      | Some l => Some (BEBuf (eb_writev b (zcap c) l), snat (length (concat l)))
      | None => None
      end
  | BRing r, SL [SN 6%Z; SN c; SN _] =>
      match ring_write_byte r (Z.to_N c) with Some r' => Some (BRing r', SN 0%Z) | None => Some (st, SL [SB (bs "panic")]) end
  | BERing r, SL [SN 6%Z; SN c; SN c0] =>
      match ring_write_byte (er_instance r (zcap c0)) (Z.to_N c) with
      | Some r' => Some (BERing (Some r'), SN 0%Z) | None => Some (st, SL [SB (bs "panic")]) end
  | BRing r, SL [SN 7%Z] =>
      let '(o, r') := ring_read_byte r in Some (BRing r', match o with Some c => sN c | None => SL [SB (bs "empty")] end)
  | BERing (Some r), SL [SN 7%Z] =>
      let '(o, r') := ring_read_byte r in Some (BERing (er_done (Some r')), match o with Some c => sN c | None => SL [SB (bs "empty")] end)
  | BERing None, SL [SN 7%Z] => Some (st, SL [SB (bs "empty")])
  | _, _ => None
  end.

Definition is_panic (res : sx) : bool := match res with SL [SB m] => beqb m (bs "panic") | _ => false end.
Fixpoint buf_run (st : bufst) (ops : list sx) : list sx :=
  match ops with
  | [] => []
  | op :: rest =>
      match buf_step st op with
      | Some (st', res) => if is_panic res then [buf_obs st' res] else buf_obs st' res :: buf_run st' rest
      | None => [SL [SB (bs "bad-op")]]
      end
  end.

Definition e_buf (a : sx) : sx :=
  match a with
  | SL [SN kind; SN param; SL ops] =>
      if Z.eqb kind 0 then SL (buf_run (BRing (ring_new (Z.to_nat param))) ops)
      else if Z.eqb kind 1 then SL (buf_run (BERing None) ops)
      else SL (buf_run (BEBuf (eb_new (Z.to_nat param))) ops)
  | _ => bad
  end.

(* specification oracle, independent of the buffer models: an ideal FIFO byte queue run over the same
   operations must explain every result the implementation returned *)
Definition chunks_concat (c : sx) : option bytes :=
  match c with SL l => match map_opt get_b l with Some bs => Some (concat bs) | None => None end | _ => None end.

Fixpoint fifo_check (exact : bool) (q : bytes) (ops obs : list sx) : sx :=
  match ops, obs with
  | [], [] => ok
  | op :: ops', SL [res; SN buffered; _; SN emp] :: obs' =>
      let next (q' : bytes) :=
        if negb (Z.eqb buffered (Z.of_nat (length q'))) then viol "buffered-length-not-exact" [op; snat (length q'); SN buffered]
        else if negb (Bool.eqb (negb (Z.eqb emp 0)) (Nat.eqb (length q') 0)) then viol "is-empty-wrong" [op]
        else fifo_check exact q' ops' obs' in
      match op with
      | SL [SN 0%Z; SB p; _] => next (q ++ p)
      | SL [SN 5%Z; SL bss; _] => match map_opt get_b bss with Some l => next (q ++ concat l) | None => bad end
      | SL [SN 6%Z; SN c; _] =>
          match res with SL [SB _] => viol "write-byte-panics" [op] | _ => next (q ++ [Z.to_N c]) end
      | SL [SN 1%Z; SN n] =>
          (* rings return exactly the oldest min(n, buffered) bytes; the mixed buffer returns whole
             chunks: the oldest bytes, at least min(n, buffered) of them (its users write what they
             get and discard what was written) *)
          let want := if (0 <? n)%Z then firstn (Z.to_nat n) q else q in
          match chunks_concat res with
          | Some got =>
              if exact then
                if beqb got want then next q else viol "peeked-bytes-are-not-the-oldest-bytes-written" [op; SB want; SB got]
              else
                if (beqb got (firstn (length got) q) && (length want <=? length got)%nat)%bool then next q
                else viol "peeked-bytes-are-not-the-oldest-bytes-written" [op; SB want; SB got]
          | None => bad
          end
      | SL [SN 2%Z; SN n] =>
          let k := if (0 <? n)%Z then Nat.min (Z.to_nat n) (length q) else 0%nat in
          match res with
          | SN d => if Z.eqb d (Z.of_nat k) then next (skipn k q) else viol "discarded-count-wrong" [op; snat k; SN d]
          | _ => bad
          end
      | SL [SN 3%Z; SN n] =>
          let k := Nat.min (Z.to_nat n) (length q) in
          match res with
          | SB got => if beqb got (firstn k q) then next (skipn k q) else viol "read-bytes-are-not-the-oldest-bytes-written" [op; SB (firstn k q); SB got]
          | SL [SB _] => if Nat.eqb (length q) 0 then next q else viol "read-reports-empty-with-bytes-buffered" [op]
          | _ => bad
          end
      | SL [SN 4%Z] => next []
      | SL [SN 7%Z] =>
          match q, res with
          | c :: q', SN got => if Z.eqb got (Z.of_N c) then next q' else viol "read-bytes-are-not-the-oldest-bytes-written" [op]
          | [], SL [SB _] => next q
          | _, _ => viol "read-byte-wrong" [op]
          end
      | _ => bad
      end
  | _, _ => viol "fewer-observations-than-operations" []
  end.

Definition o_buf (a : sx) : sx :=
  match a with
  | SL [SL [SN kind; _; SL ops]; SL obs] => fifo_check (negb (Z.eqb kind 2)) [] ops obs
  | _ => bad
  end.

(* ---- INFO reader (C14) ---- input: payload bytes; output (err) | (loading link version) *)
Definition sx_info (o : option info) : sx :=
  match o with
  | None => SL [SB (bs "err")]
  | Some i => SL [sbool (in_loading i); SB (in_link i); SB (in_version i)]
  end.
Definition e_info (a : sx) : sx := match a with SB msg => sx_info (parse_info msg) | _ => bad end.

(* oracle: when every line after the first is empty, a "# Section" title or a key:value field, the
   three values are those of the exact-key lookup (the last field with that very key) *)
Definition is_field_line (l : bytes) : bool :=
  match l with
  | [] => true
  | c :: _ => if N.eqb c 35 then true else match split_colon l with Some _ => true | None => false end
  end.
Definition o_info (a : sx) : sx :=
  match a with
  | SL [SB msg; out] =>
      match msg with
      | [] => if sx_eqb out (SL [SB (bs "err")]) then ok else viol "info-empty-payload-accepted" []
      | c :: _ =>
          if N.eqb c 45 then (if sx_eqb out (SL [SB (bs "err")]) then ok else viol "info-error-text-accepted" [])
          else
            let lines := split_crlf (match after_lf msg with Some r => r | None => msg end) in
            let fields := filter (fun l => match l with [] => false | c :: _ => negb (N.eqb c 35) end) lines in
            if forallb is_field_line lines then
              if sx_eqb out (sx_info (Some (spec_info fields))) then ok
              else viol "info-field-not-read-by-its-exact-key" [sx_info (Some (spec_info fields)); out]
            else ok
      end
  | _ => bad
  end.

Definition entries : list (bytes * (sx -> sx)) :=
  [ (bs "hash", e_hash);
    (bs "keyslot", e_keyslot);
    (bs "o_c05", o_c05);
    (bs "cdecode", e_cdecode);
    (bs "cfeed", e_cfeed);
    (bs "sdecode", e_sdecode);
    (bs "initdecode", e_initdecode);
    (bs "merge", e_merge);
    (bs "o_reqs", o_reqs);
    (bs "o_feed", o_feed);
    (bs "o_merge", o_merge);
    (bs "route", e_route);
    (bs "onsopened", e_onsopened);
    (bs "o_route", o_route);
    (bs "authip", e_authip);
    (bs "o_authip", o_authip);
    (bs "cluster", e_cluster);
    (bs "cparse", e_cparse);
    (bs "o_cluster", o_cluster);
    (bs "loop", e_loop);
    (bs "o_loop", o_loop);
    (bs "loopfinal", e_loopfinal);
    (bs "loopspec", fun _ => SL []);
    (bs "buf", e_buf);
    (bs "o_buf", o_buf);
    (bs "info", e_info);
    (bs "o_info", o_info) ].

Definition dispatch (name : bytes) (a : sx) : sx :=
  match assoc_b name entries with
  | Some f => f a
  | None => SL [SB (bs "unknown-entry")]
  end.
