(* Entry points of the executable model: one named function sx -> sx per modelled component.
   The OCaml driver (ocaml/modelrun.ml) and the in-Coq cross-check both go through dispatch. *)
From RcProxy Require Import Base.Bytes Base.Sx Gen.Generated Spec.KeySlot Model.Crc16.

Definition e_hash (a : sx) : sx :=
  match a with SB k => sN (Hash k) | _ => bad end.
Definition e_keyslot (a : sx) : sx :=
  match a with SB k => sN (key_slot k) | _ => bad end.

(* oracle: spec evaluated on the implementation's own output *)
Definition ok : sx := SN 1%Z.
Definition viol (sig : string) (details : list sx) : sx := SL (SB (bs sig) :: details).
Definition o_c05 (a : sx) : sx :=
  match a with
  | SL [SB k; SN z] =>
      if Z.eqb z (Z.of_N (key_slot k)) then ok
      else viol "slot-differs-from-key-slot-spec" [sN (key_slot k); SN z]
  | _ => bad
  end.

Definition entries : list (bytes * (sx -> sx)) :=
  [ (bs "hash", e_hash);
    (bs "keyslot", e_keyslot);
    (bs "o_c05", o_c05) ].

Definition dispatch (name : bytes) (a : sx) : sx :=
  match assoc_b name entries with
  | Some f => f a
  | None => SL [SB (bs "unknown-entry")]
  end.
