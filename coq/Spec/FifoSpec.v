(* The specification of C19: an ideal FIFO byte queue, the operations of the buffers, and what it
   means for a buffer to conform to the queue over a whole sequence of operations. *)
From RcProxy Require Import Base.Bytes Model.Buffers.
From Coq Require Import Arith.
Local Open Scope nat_scope.

Inductive bop :=
| OWrite (p : bytes) (cap0 : nat)          (* cap0: capacity of the pooled ring if this call takes one *)
| OWritev (bs : list bytes) (cap0 : nat)
| OPeek (pos : bool) (n : nat)             (* Peek(n); pos = (n > 0); n <= 0 asks for everything *)
| ODiscard (n : nat)
| ORead (k : nat)
| OReset.

Inductive bres := RNone | RBytes (b : bytes) | RCount (n : nat).

(* the ideal queue: a list of bytes, oldest first *)
Definition fifo_step (q : bytes) (op : bop) : bytes * bres :=
  match op with
  | OWrite p _ => (q ++ p, RCount (length p))
  | OWritev bs _ => (q ++ concat bs, RCount (length (concat bs)))
  | OPeek pos n => (q, RBytes (if pos then firstn n q else q))
  | ODiscard n => (skipn n q, RCount (Nat.min n (length q)))
  | ORead k => (skipn k q, RBytes (firstn k q))
  | OReset => ([], RNone)
  end.

Definition op_bytes (op : bop) : nat :=
  match op with OWrite p _ => length p | OWritev bs _ => length (concat bs) | _ => 0 end.
Definition written (ops : list bop) : nat := fold_right (fun op n => op_bytes op + n) 0 ops.

(* ring.Buffer under these operations (it has no vectored write: Writev = the writes in order) *)
Definition ring_step (rb : ring) (op : bop) : ring * bres :=
  match op with
  | OWrite p _ => (ring_write rb p, RCount (length p))
  | OWritev bs _ => (fold_left ring_write bs rb, RCount (length (concat bs)))
  | OPeek pos n => let '(h, t) := ring_peek rb pos n in (rb, RBytes (h ++ t))
  | ODiscard n => let '(d, rb') := ring_discard rb n in (rb', RCount d)
  | ORead k => let '(o, rb') := ring_read rb k in (rb', RBytes (match o with Some d => d | None => [] end))
  | OReset => (ring_reset rb, RNone)
  end.

Definition er_step (b : ering) (op : bop) : ering * bres :=
  match op with
  | OWrite p c => (er_write b c p, RCount (length p))
  | OWritev bs c => (fold_left (fun b p => er_write b c p) bs b, RCount (length (concat bs)))
  | OPeek pos n => let '(h, t) := er_peek b pos n in (b, RBytes (h ++ t))
  | ODiscard n => let '(d, b') := er_discard b n in (b', RCount d)
  | ORead k => let '(o, b') := er_read b k in (b', RBytes (match o with Some d => d | None => [] end))
  | OReset => (er_reset b, RNone)
  end.

Definition eb_step (b : ebuf) (op : bop) : ebuf * bres :=
  match op with
  | OWrite p c => (eb_write b c p, RCount (length p))
  | OWritev bs c => (eb_writev b c bs, RCount (length (concat bs)))
  | OPeek pos n => (b, RBytes (concat (eb_peek b pos n)))
  | ODiscard n => let '(d, b') := eb_discard b n in (b', RCount d)
  | ORead k => let '(d, b') := eb_read b k in (b', RBytes d)
  | OReset => (eb_reset b 0, RNone)
  end.

(* exact conformance: every result equals the queue's, the reported length is exact *)
Fixpoint conforms {S} (step : S -> bop -> S * bres) (buffered : S -> nat) (is_empty : S -> bool)
    (s : S) (q : bytes) (ops : list bop) : Prop :=
  match ops with
  | [] => True
  | op :: rest =>
      let '(s', res) := step s op in
      let '(q', want) := fifo_step q op in
      res = want /\ buffered s' = length q' /\ (is_empty s' = true <-> q' = []) /\ conforms step buffered is_empty s' q' rest
  end.

(* the mixed buffer hands out whole chunks on Peek: the oldest bytes, at least as many as asked
   for (all of them for n <= 0); everything else is exact *)
Definition res_ok (q : bytes) (op : bop) (res : bres) : Prop :=
  match op, res with
  | OPeek pos n, RBytes x =>
      exists rest, q = x ++ rest /\ (if pos then rest = [] \/ n <= length x else rest = [])
  | OPeek _ _, _ => False
  | _, _ => res = snd (fifo_step q op)
  end.

Fixpoint eb_conforms (b : ebuf) (q : bytes) (ops : list bop) : Prop :=
  match ops with
  | [] => True
  | op :: rest =>
      let '(b', res) := eb_step b op in
      let q' := fst (fifo_step q op) in
      res_ok q op res /\ eb_buffered b' = length q' /\ (eb_is_empty b' = true <-> q' = []) /\ eb_conforms b' q' rest
  end.
