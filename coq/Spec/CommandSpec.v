(* Specification for C17: which requests are served.  Declarative; refers to the documented
   table (docs/command.md, translated into Generated.docs_commands on every run). *)
From RcProxy Require Import Base.Bytes Gen.Generated Spec.RespGrammar.
Open Scope N_scope.

(* names documented as supported ("Yes" rows), lower-cased; AUTH is answered by the proxy
   itself (the property text names it) and is not a row of the documented table *)
Definition documented : list bytes :=
  map (fun p => to_lower (fst p)) (filter (fun p => snd p) docs_commands).
Definition supported_names : list bytes := bs "auth" :: documented.

Definition mem (x : bytes) (l : list bytes) : bool := existsb (beqb x) l.

(* the arity rule, by the NArgs class of the command (n = number of arguments after the name) *)
Definition arity_ok (nargs : Z) (n : Z) : bool :=
  if (Z.eqb nargs NargsInf) then (1 <=? n)%Z
  else if (Z.eqb nargs NargsEvenInf) then ((2 <=? n)%Z && Z.even n)
  else Z.eqb nargs n.   (* Nargsz..Nargs3: exactly that many *)

Inductive req_class := CServed (ty : N) | CUnknown | CWrongArgs | CTooLarge.
