(* Specification for C04 (routing by role) and C20 (reads spread over all healthy replicas). *)
From RcProxy Require Import Base.Bytes Gen.Generated.
Open Scope N_scope.

(* commands a replica may serve: the read-only commands of the supported table (reviewed against
   the Redis command flags: every one of these carries the "readonly" flag) *)
Definition readonly_commands : list bytes := map bs
  [ "exists"; "ttl"; "pttl"; "type"; "dump"; "bitcount"; "get"; "getbit"; "getrange"; "mget"; "strlen";
    "hexists"; "hget"; "hgetall"; "hkeys"; "hlen"; "hmget"; "hscan"; "hvals";
    "lindex"; "llen"; "lrange"; "srandmember"; "sscan"; "sdiff"; "sinter"; "scard"; "sismember"; "smembers";
    "zcard"; "zcount"; "zlexcount"; "zrange"; "zrangebylex"; "zrangebyscore"; "zrank"; "zrevrange";
    "zrevrangebyscore"; "zrevrank"; "zscore"; "zscan" ]%string.

(* must go to the master even though read-only: cursor scans; and scripts *)
Definition master_only_reads : list bytes := map bs [ "hscan"; "sscan"; "zscan" ]%string.
Definition scripts : list bytes := map bs [ "eval"; "evalsha" ]%string.
