(* Specification of C06: a multi-key request is split into exactly one well-formed fragment
   per distinct slot, each containing exactly the items of that slot in original order. *)
From RcProxy Require Import Base.Bytes Spec.RespGrammar.
Open Scope N_scope.

Section Split.
  Variable sigma : bytes -> N.          (* the slot function; the spec is generic in it *)

  Definition in_slot (s : N) (k : bytes) : bool := N.eqb (sigma k) s.

  (* MGET / DEL: F maps each slot to the bytes sent for it *)
  Definition wf_split1 (name : bytes) (ks : list bytes) (F : list (N * bytes)) : Prop :=
    NoDup (map fst F) /\
    (forall s, In s (map fst F) <-> exists k, In k ks /\ sigma k = s) /\
    (forall s req, In (s, req) F -> req = enc_request (name :: filter (in_slot s) ks)).

  (* MSET: items are key/value pairs *)
  Definition flat (kvs : list (bytes * bytes)) : list bytes :=
    concat (map (fun kv => [fst kv; snd kv]) kvs).

  Definition wf_split2 (kvs : list (bytes * bytes)) (F : list (N * bytes)) : Prop :=
    NoDup (map fst F) /\
    (forall s, In s (map fst F) <-> exists kv, In kv kvs /\ sigma (fst kv) = s) /\
    (forall s req, In (s, req) F ->
       req = enc_request (bs "mset" :: flat (filter (fun kv => in_slot s (fst kv)) kvs))).
End Split.
