(* Specification: the RESP2 request grammar a Redis server accepts without a protocol error.
   A request is  *<n>\r\n  followed by n bulk strings  $<len>\r\n<len bytes>\r\n ,  n >= 1,
   every number in canonical decimal (no sign, no leading zero) — what Redis'
   processMultibulkBuffer/string2ll accept (a subset: Redis also skips "*0" and "*-1", which
   carry no command).  The spec is the ENCODER: well-formed = image of enc_request. *)
From RcProxy Require Import Base.Bytes Base.Dec.
Open Scope N_scope.

Definition enc_bulk (a : bytes) : bytes := [36] ++ itoa_nat (length a) ++ crlf ++ a ++ crlf.

Definition enc_request (args : list bytes) : bytes :=
  [42] ++ itoa_nat (length args) ++ crlf ++ concat (map enc_bulk args).

Definition redis_accepts (b : bytes) : Prop :=
  exists args, args <> [] /\ b = enc_request args.

(* executable strict recogniser, used by the oracles on the implementation's forwarded bytes
   (written independently of the proxy's decoder: own number parser, own line splitter) *)
Fixpoint strict_num (p : bytes) (acc : N) : option N :=
  match p with
  | [] => Some acc
  | b :: r => if is_digit b then strict_num r (acc * 10 + (b - 48)) else None
  end.

Definition strict_dec (p : bytes) : option N :=
  match p with
  | [] => None
  | d :: r => if N.eqb d 48 then (match r with [] => Some 0 | _ :: _ => None end)
              else strict_num p 0
  end.

(* split at the first CR LF; None when there is none *)
Fixpoint take_line (l : bytes) : option (bytes * bytes) :=
  match l with
  | [] => None
  | x :: r =>
      match r with
      | [] => None
      | y :: r' =>
          if (N.eqb x 13 && N.eqb y 10)%bool then Some ([], r')
          else match take_line r with Some (a, b) => Some (x :: a, b) | None => None end
      end
  end.

Definition strict_bulk (l : bytes) : option (bytes * bytes) :=
  match take_line l with
  | Some (mk :: digits, rest) =>
      if negb (N.eqb mk 36) then None else
      match strict_dec digits with
      | Some n =>
          if (N.of_nat (length rest) <? n + 2) then None   (* compare before converting: n may be huge *)
          else let k := N.to_nat n in
               if beqb (firstn 2 (skipn k rest)) crlf then Some (firstn k rest, skipn (k + 2) rest)
               else None
      | None => None
      end
  | _ => None
  end.

Fixpoint strict_bulks (fuel : nat) (n : N) (l : bytes) : option (list bytes * bytes) :=
  if N.eqb n 0 then Some ([], l)
  else match fuel with
       | O => None
       | S f => match strict_bulk l with
                | Some (a, rest) =>
                    match strict_bulks f (n - 1) rest with
                    | Some (args, rest') => Some (a :: args, rest')
                    | None => None
                    end
                | None => None
                end
       end.

(* Some args iff b is exactly one well-formed request *)
Definition strict_request (b : bytes) : option (list bytes) :=
  match take_line b with
  | Some (mk :: digits, rest) =>
      if negb (N.eqb mk 42) then None else
      match strict_dec digits with
      | Some n => if N.eqb n 0 then None
                  else match strict_bulks (length rest) n rest with
                       | Some (args, []) => Some args
                       | _ => None
                       end
      | None => None
      end
  | _ => None
  end.

Example strict_ok : strict_request (enc_request [bs "get"; bs "a"]) = Some [bs "get"; bs "a"].
Proof. vm_compute. reflexivity. Qed.
Example strict_rejects_null : strict_request (bs "*2" ++ crlf ++ bs "$3" ++ crlf ++ bs "get" ++ crlf ++ bs "$-1" ++ crlf) = None.
Proof. vm_compute. reflexivity. Qed.
Example strict_rejects_leading_zero : strict_request (bs "*02" ++ crlf ++ enc_bulk (bs "get") ++ enc_bulk (bs "a")) = None.
Proof. vm_compute. reflexivity. Qed.
Example strict_rejects_zero : strict_request (bs "*0" ++ crlf) = None.
Proof. vm_compute. reflexivity. Qed.
