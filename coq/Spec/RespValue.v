(* Specification: RESP2 reply values and their wire encoding. *)
From RcProxy Require Import Base.Bytes Base.Dec Gen.Generated Spec.RespGrammar.
Open Scope N_scope.

Inductive resp2 :=
| RStatus (s : bytes)          (* +s\r\n *)
| RError (s : bytes)           (* -s\r\n *)
| RInt (s : bytes)             (* :s\r\n  (s is the decimal text, sign included) *)
| RBulk (b : bytes)            (* $len\r\nb\r\n *)
| RNull                        (* $-1\r\n *)
| RArray (l : list resp2)      (* *n\r\n then n values *)
| RNullArray.                  (* *-1\r\n *)

Fixpoint enc_value (v : resp2) : bytes :=
  match v with
  | RStatus s => [43] ++ s ++ crlf
  | RError s => [45] ++ s ++ crlf
  | RInt s => [58] ++ s ++ crlf
  | RBulk b => enc_bulk b
  | RNull => bs "$-1" ++ crlf
  | RArray l => [42] ++ itoa_nat (length l) ++ crlf ++ concat (map enc_value l)
  | RNullArray => bs "*-1" ++ crlf
  end.

(* a line payload may hold anything but LF (the framing looks for the first LF) *)
Definition line_ok (s : bytes) : Prop := ~ In LF s.

Fixpoint wf_value (v : resp2) : Prop :=
  match v with
  | RStatus s | RError s | RInt s => line_ok s
  | RBulk b => (Z.of_nat (length b) < 10 ^ 18)%Z
  | RNull | RNullArray => True
  | RArray l => (Z.of_nat (length l) < 10 ^ 18)%Z /\
                (fix all (l : list resp2) : Prop := match l with [] => True | x :: r => wf_value x /\ all r end) l
  end.

(* the reply types the proxy distinguishes (constants from commands.go) *)
Definition status_type (s : bytes) : N :=
  if has_prefix (43 :: s) (bs "+OK") then RspOk
  else if has_prefix (43 :: s) (bs "+PONG") then RspPong else RspStatus.

(* redirect / authentication errors the proxy itself acts on *)
Definition acted_on_error (s : bytes) : bool :=
  has_prefix (45 :: s) (bs "-NOAUTH Authentication required")
  || has_prefix (45 :: s) (bs "-ERR invalid password")
  || has_prefix (45 :: s) (bs "-ERR Client sent AUTH, but no password is set")
  || has_prefix (45 :: s) (bs "-ERR AUTH <password> called without any password configured for the default user.")
  || has_prefix (45 :: s) (bs "-MOVED")
  || has_prefix (45 :: s) (bs "-ASK").

Definition passthrough (v : resp2) : Prop :=
  match v with RError s => acted_on_error s = false | _ => True end.

(* custom induction principle for the nested list *)
Section Resp2Ind.
  Variable P : resp2 -> Prop.
  Hypothesis Hs : forall s, P (RStatus s).
  Hypothesis He : forall s, P (RError s).
  Hypothesis Hi : forall s, P (RInt s).
  Hypothesis Hb : forall b, P (RBulk b).
  Hypothesis Hn : P RNull.
  Hypothesis Hna : P RNullArray.
  Hypothesis Ha : forall l, Forall P l -> P (RArray l).
  Fixpoint resp2_ind' (v : resp2) : P v :=
    match v with
    | RStatus s => Hs s | RError s => He s | RInt s => Hi s | RBulk b => Hb b
    | RNull => Hn | RNullArray => Hna
    | RArray l => Ha l ((fix go (l : list resp2) : Forall P l :=
                          match l with [] => Forall_nil P | x :: r => Forall_cons x (resp2_ind' x) (go r) end) l)
    end.
End Resp2Ind.
