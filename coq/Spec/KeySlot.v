(* Specification: the Redis Cluster key-slot function (cluster spec, "Keys hash tags";
   reference implementation keyHashSlot + crc16 bit-serial definition).
   CRC16/XMODEM: width 16, poly 0x1021, init 0, no reflection, no final xor. *)
From RcProxy Require Import Base.Bytes.
Open Scope N_scope.

(* one shift of the 16-bit register *)
Definition crc_shift (crc : N) : N :=
  let c := N.land (N.shiftl crc 1) 65535 in
  if N.testbit crc 15 then N.lxor c 4129 (* 0x1021 *) else c.

Fixpoint iter {A} (n : nat) (f : A -> A) (x : A) : A :=
  match n with O => x | S k => iter k f (f x) end.

(* feed one message byte: xor it into the top byte, then 8 shifts *)
Definition crc_byte (crc b : N) : N := iter 8 crc_shift (N.lxor crc (N.shiftl b 8)).

Definition crc16_bits (k : bytes) : N := fold_left crc_byte k 0.

(* the hash tag rule: the substring between the first '{' and the first '}' AFTER it,
   when that substring is non-empty; otherwise the whole key *)
Definition hashtag (k : bytes) : bytes :=
  match index_byte k 123 (* '{' *) with
  | None => k
  | Some s =>
      let rest := skipn (S s) k in
      match index_byte rest 125 (* '}' *) with
      | None => k
      | Some O => k
      | Some e => firstn e rest
      end
  end.

Definition key_slot (k : bytes) : N := crc16_bits (hashtag k) mod 16384.

(* published vectors: CRC16/XMODEM("123456789") = 0x31C3; cluster spec examples *)
Example crc_check : crc16_bits (bs "123456789") = 12739. Proof. vm_compute. reflexivity. Qed.
Example slot_foo : key_slot (bs "foo") = 12182. Proof. vm_compute. reflexivity. Qed.
Example slot_tag : key_slot (bs "{user1000}.following") = key_slot (bs "user1000").
Proof. vm_compute. reflexivity. Qed.
Example slot_empty_tag : key_slot (bs "foo{}{bar}") = crc16_bits (bs "foo{}{bar}") mod 16384.
Proof. vm_compute. reflexivity. Qed.
Example slot_first_tag : key_slot (bs "foo{{bar}}zap") = crc16_bits (bs "{bar") mod 16384.
Proof. vm_compute. reflexivity. Qed.
Example slot_first_tag2 : key_slot (bs "foo{bar}{zap}") = crc16_bits (bs "bar") mod 16384.
Proof. vm_compute. reflexivity. Qed.
