// gen: translator /repo sources -> coq/Gen/Generated.v
//
// Everything that is *data* in the Go sources (tables, constants, strings, the documented
// command table) is copied into Coq literals on every run, so that the theorems that depend
// on it are re-checked against what the code says now.  Only the Go standard library is used
// (go/parser, go/ast, go/constant-free evaluator below).
package main

import (
	"bufio"
	"fmt"
	"go/ast"
	"go/parser"
	"go/token"
	"os"
	"path/filepath"
	"sort"
	"strconv"
	"strings"
)

var repo = "/repo"
var out strings.Builder
var failed []string

func fail(format string, a ...interface{}) {
	failed = append(failed, fmt.Sprintf(format, a...))
}

func parseFile(rel string) *ast.File {
	fset := token.NewFileSet()
	f, err := parser.ParseFile(fset, filepath.Join(repo, rel), nil, 0)
	if err != nil {
		fail("parse %s: %v", rel, err)
		return nil
	}
	return f
}

// evalInt evaluates a constant integer expression made of literals, unary -, and * + - << of those,
// and identifiers found in env.
func evalInt(e ast.Expr, env map[string]int64) (int64, bool) {
	switch x := e.(type) {
	case *ast.BasicLit:
		if x.Kind == token.INT {
			v, err := strconv.ParseInt(x.Value, 0, 64)
			if err != nil {
				u, err2 := strconv.ParseUint(x.Value, 0, 64)
				if err2 != nil {
					return 0, false
				}
				return int64(u), true
			}
			return v, true
		}
		if x.Kind == token.CHAR {
			s, err := strconv.Unquote(x.Value)
			if err != nil || len(s) != 1 {
				return 0, false
			}
			return int64(s[0]), true
		}
	case *ast.ParenExpr:
		return evalInt(x.X, env)
	case *ast.UnaryExpr:
		v, ok := evalInt(x.X, env)
		if !ok {
			return 0, false
		}
		switch x.Op {
		case token.SUB:
			return -v, true
		case token.ADD:
			return v, true
		}
	case *ast.BinaryExpr:
		a, ok1 := evalInt(x.X, env)
		b, ok2 := evalInt(x.Y, env)
		if !ok1 || !ok2 {
			return 0, false
		}
		switch x.Op {
		case token.ADD:
			return a + b, true
		case token.SUB:
			return a - b, true
		case token.MUL:
			return a * b, true
		case token.SHL:
			return a << uint(b), true
		}
	case *ast.Ident:
		if v, ok := env[x.Name]; ok {
			return v, true
		}
	case *ast.CallExpr: // conversions like Command(3), int32(4)
		if len(x.Args) == 1 {
			return evalInt(x.Args[0], env)
		}
	}
	return 0, false
}

func evalString(e ast.Expr, env map[string]string) (string, bool) {
	switch x := e.(type) {
	case *ast.BasicLit:
		if x.Kind == token.STRING {
			s, err := strconv.Unquote(x.Value)
			return s, err == nil
		}
	case *ast.ParenExpr:
		return evalString(x.X, env)
	case *ast.BinaryExpr:
		if x.Op == token.ADD {
			a, ok1 := evalString(x.X, env)
			b, ok2 := evalString(x.Y, env)
			return a + b, ok1 && ok2
		}
	case *ast.Ident:
		if v, ok := env[x.Name]; ok {
			return v, true
		}
	case *ast.CallExpr:
		if len(x.Args) == 1 {
			return evalString(x.Args[0], env)
		}
	}
	return "", false
}

func coqBytes(s string) string {
	var b strings.Builder
	b.WriteString("[")
	for i := 0; i < len(s); i++ {
		if i > 0 {
			b.WriteString(";")
		}
		b.WriteString(strconv.Itoa(int(s[i])))
	}
	b.WriteString("]")
	return b.String()
}

func comment(s string) string {
	s = strings.ReplaceAll(s, "\r", "\\r")
	s = strings.ReplaceAll(s, "\n", "\\n")
	s = strings.ReplaceAll(s, "*)", "* )")
	s = strings.ReplaceAll(s, "(*", "( *")
	s = strings.ReplaceAll(s, "\"", "'")
	return s
}

func coqZ(v int64) string {
	if v < 0 {
		return fmt.Sprintf("(%d)%%Z", v)
	}
	return fmt.Sprintf("%d%%Z", v)
}

// constDecls walks all const blocks and yields (name, typeName, valueExpr, iota) in source order;
// implicit repetition of the previous expression is resolved.
type constDecl struct {
	name  string
	typ   string
	expr  ast.Expr
	iota  int64
	order int
}

func constDecls(f *ast.File) []constDecl {
	var res []constDecl
	n := 0
	for _, d := range f.Decls {
		gd, ok := d.(*ast.GenDecl)
		if !ok || gd.Tok != token.CONST {
			continue
		}
		var lastExprs []ast.Expr
		var lastTyp string
		for i, sp := range gd.Specs {
			vs := sp.(*ast.ValueSpec)
			if len(vs.Values) > 0 {
				lastExprs = vs.Values
				lastTyp = ""
				if id, ok := vs.Type.(*ast.Ident); ok {
					lastTyp = id.Name
				}
			}
			for j, nm := range vs.Names {
				var e ast.Expr
				if j < len(lastExprs) {
					e = lastExprs[j]
				}
				res = append(res, constDecl{nm.Name, lastTyp, e, int64(i), n})
				n++
			}
		}
	}
	return res
}

func findVarLit(f *ast.File, name string) *ast.CompositeLit {
	for _, d := range f.Decls {
		gd, ok := d.(*ast.GenDecl)
		if !ok || gd.Tok != token.VAR {
			continue
		}
		for _, sp := range gd.Specs {
			vs := sp.(*ast.ValueSpec)
			for i, nm := range vs.Names {
				if nm.Name == name && i < len(vs.Values) {
					if cl, ok := vs.Values[i].(*ast.CompositeLit); ok {
						return cl
					}
				}
			}
		}
	}
	return nil
}

func findVarExpr(f *ast.File, name string) ast.Expr {
	for _, d := range f.Decls {
		gd, ok := d.(*ast.GenDecl)
		if !ok || gd.Tok != token.VAR {
			continue
		}
		for _, sp := range gd.Specs {
			vs := sp.(*ast.ValueSpec)
			for i, nm := range vs.Names {
				if nm.Name == name && i < len(vs.Values) {
					return vs.Values[i]
				}
			}
		}
	}
	return nil
}

func emit(format string, a ...interface{}) { fmt.Fprintf(&out, format, a...) }

func genCrc() {
	f := parseFile("core/pkg/hashkit/crc16.go")
	if f == nil {
		return
	}
	cl := findVarLit(f, "crc16tab")
	if cl == nil {
		fail("crc16tab not found")
		return
	}
	var vals []string
	for _, e := range cl.Elts {
		v, ok := evalInt(e, nil)
		if !ok {
			fail("crc16tab: non-literal entry")
			return
		}
		vals = append(vals, strconv.FormatInt(v, 10))
	}
	emit("(* core/pkg/hashkit/crc16.go *)\nDefinition crc16tab : list N := [\n  %s].\n\n", wrap(vals, 12))
	c := parseFile("core/pkg/constant/constant.go")
	if c == nil {
		return
	}
	found := 0
	for _, d := range constDecls(c) {
		switch d.name {
		case "RedisClusterSlots":
			v, ok := evalInt(d.expr, nil)
			if !ok {
				fail("RedisClusterSlots not literal")
			}
			emit("Definition RedisClusterSlots : N := %d.\n", v)
			found++
		case "ReqClusterNodes":
			s, ok := evalString(d.expr, nil)
			if !ok {
				fail("ReqClusterNodes not literal")
			}
			emit("Definition ReqClusterNodes : list N := %s. (* %s *)\n", coqBytes(s), comment(s))
			found++
		case "ReqAsking":
			s, ok := evalString(d.expr, nil)
			if !ok {
				fail("ReqAsking not literal")
			}
			emit("Definition ReqAsking : list N := %s. (* %s *)\n", coqBytes(s), comment(s))
			found++
		}
	}
	if found != 3 {
		fail("constant.go: expected RedisClusterSlots, ReqClusterNodes and ReqAsking")
	}
	emit("\n")
}

func wrap(vals []string, per int) string {
	var b strings.Builder
	for i, v := range vals {
		if i > 0 {
			b.WriteString(";")
			if i%per == 0 {
				b.WriteString("\n  ")
			} else {
				b.WriteString(" ")
			}
		}
		b.WriteString(v)
	}
	return b.String()
}

func genCommands() {
	f := parseFile("core/codec/commands.go")
	if f == nil {
		return
	}
	decls := constDecls(f)
	cmdVal := map[string]int64{}
	nargsVal := map[string]int64{}
	var cmdOrder []string
	var nargsOrder []string
	for _, d := range decls {
		switch d.typ {
		case "Command":
			env := map[string]int64{"iota": d.iota}
			v, ok := evalInt(d.expr, env)
			if !ok {
				fail("Command const %s not evaluable", d.name)
				continue
			}
			cmdVal[d.name] = v
			cmdOrder = append(cmdOrder, d.name)
		case "NArgs":
			v, ok := evalInt(d.expr, map[string]int64{"iota": d.iota})
			if !ok {
				fail("NArgs const %s not evaluable", d.name)
				continue
			}
			nargsVal[d.name] = v
			nargsOrder = append(nargsOrder, d.name)
		}
	}
	if len(cmdOrder) == 0 {
		fail("no Command constants found")
	}
	emit("(* core/codec/commands.go: Command constants in declaration order *)\n")
	for _, n := range cmdOrder {
		emit("Definition %s : N := %d.\n", n, cmdVal[n])
	}
	emit("Definition command_consts : list (list N * N) := [\n")
	for i, n := range cmdOrder {
		sep := ";"
		if i == len(cmdOrder)-1 {
			sep = ""
		}
		emit("  (%s, %d)%s (* %s *)\n", coqBytes(n), cmdVal[n], sep, n)
	}
	emit("].\n\n")
	for _, n := range nargsOrder {
		emit("Definition %s : Z := %s.\n", n, coqZ(nargsVal[n]))
	}
	emit("\n")

	// maps
	mapLit := func(name string) []*ast.KeyValueExpr {
		cl := findVarLit(f, name)
		if cl == nil {
			fail("%s not found", name)
			return nil
		}
		var r []*ast.KeyValueExpr
		for _, e := range cl.Elts {
			kv, ok := e.(*ast.KeyValueExpr)
			if !ok {
				fail("%s: non key-value element", name)
				continue
			}
			r = append(r, kv)
		}
		return r
	}
	emit("Definition CommandStr2Type : list (list N * N) := [\n")
	kvs := mapLit("CommandStr2Type")
	for i, kv := range kvs {
		s, ok1 := evalString(kv.Key, nil)
		v, ok2 := evalInt(kv.Value, cmdVal)
		if !ok1 || !ok2 {
			fail("CommandStr2Type entry %d not evaluable", i)
		}
		sep := ";"
		if i == len(kvs)-1 {
			sep = ""
		}
		emit("  (%s, %d)%s (* %s *)\n", coqBytes(s), v, sep, comment(s))
	}
	emit("].\n\n")
	emit("Definition CommandType2Str : list (N * list N) := [\n")
	kvs = mapLit("CommandType2Str")
	for i, kv := range kvs {
		v, ok1 := evalInt(kv.Key, cmdVal)
		s, ok2 := evalString(kv.Value, nil)
		if !ok1 || !ok2 {
			fail("CommandType2Str entry %d not evaluable", i)
		}
		sep := ";"
		if i == len(kvs)-1 {
			sep = ""
		}
		emit("  (%d, %s)%s (* %s *)\n", v, coqBytes(s), sep, comment(s))
	}
	emit("].\n\n")
	emit("Definition CommandType2ArgsNumber : list (N * Z) := [\n")
	kvs = mapLit("CommandType2ArgsNumber")
	for i, kv := range kvs {
		v, ok1 := evalInt(kv.Key, cmdVal)
		a, ok2 := evalInt(kv.Value, nargsVal)
		if !ok1 || !ok2 {
			fail("CommandType2ArgsNumber entry %d not evaluable", i)
		}
		sep := ";"
		if i == len(kvs)-1 {
			sep = ""
		}
		emit("  (%d, %s)%s\n", v, coqZ(a), sep)
	}
	emit("].\n\n")
}

func genStrings() {
	f := parseFile("core/codec/codec.go")
	if f != nil {
		emit("(* core/codec/codec.go: Status / Error constants *)\n")
		n := 0
		for _, d := range constDecls(f) {
			if d.typ == "Error" || d.typ == "Status" {
				s, ok := evalString(d.expr, nil)
				if !ok {
					fail("codec const %s not literal", d.name)
					continue
				}
				name := d.name
				if d.typ == "Status" {
					name = "Status" + name
				}
				emit("Definition %s : list N := %s. (* %s *)\n", name, coqBytes(s), comment(s))
				n++
			}
		}
		if n < 10 {
			fail("codec.go: too few Error/Status constants (%d)", n)
		}
		emit("\n")
	}
	g := parseFile("core/server/server_s.go")
	if g != nil {
		ok := false
		for _, d := range constDecls(g) {
			if d.name == "ReadOnly" {
				s, ok2 := evalString(d.expr, nil)
				if ok2 {
					emit("Definition ReadOnly : list N := %s. (* %s *)\n", coqBytes(s), comment(s))
					ok = true
				}
			}
		}
		if !ok {
			fail("ReadOnly not found")
		}
	}
	h := parseFile("core/server/server.go")
	if h != nil {
		ok := false
		for _, d := range constDecls(h) {
			if d.name == "AuthCmd" {
				s, ok2 := evalString(d.expr, nil)
				if ok2 {
					emit("Definition AuthCmdFormat : list N := %s. (* %s *)\n", coqBytes(s), comment(s))
					ok = true
				}
			}
		}
		if !ok {
			fail("AuthCmd not found")
		}
	}
	e := parseFile("core/eventloop.go")
	if e != nil {
		ok := false
		for _, d := range constDecls(e) {
			if d.name == "iovMax" {
				v, ok2 := evalInt(d.expr, nil)
				if ok2 {
					emit("Definition iovMax : N := %d.\n", v)
					ok = true
				}
			}
		}
		if !ok {
			fail("iovMax not found")
		}
	}
	gn := parseFile("core/gnet.go")
	if gn != nil {
		x := findVarExpr(gn, "MaxStreamBufferCap")
		v, ok := evalInt(x, nil)
		if x == nil || !ok {
			fail("MaxStreamBufferCap not found")
		} else {
			emit("Definition MaxStreamBufferCap : N := %d.\n", v)
		}
	}
	rb := parseFile("core/pkg/buffer/ring/ring_buffer.go")
	if rb != nil {
		for _, d := range constDecls(rb) {
			if v, ok := evalInt(d.expr, nil); ok {
				emit("Definition ring_%s : N := %d.\n", d.name, v)
			}
		}
	}
	emit("\n")
}

func genDocs() {
	fh, err := os.Open(filepath.Join(repo, "docs/command.md"))
	if err != nil {
		fail("docs/command.md: %v", err)
		return
	}
	defer fh.Close()
	type row struct {
		name string
		yes  bool
	}
	var rows []row
	sc := bufio.NewScanner(fh)
	for sc.Scan() {
		line := strings.TrimSpace(sc.Text())
		if !strings.HasPrefix(line, "|") {
			continue
		}
		cols := strings.Split(line, "|")
		if len(cols) < 3 {
			continue
		}
		name := strings.TrimSpace(cols[1])
		sup := strings.TrimSpace(cols[2])
		if name == "Command" || strings.HasPrefix(name, ":") || name == "" {
			continue
		}
		switch sup {
		case "Yes":
			rows = append(rows, row{name, true})
		case "No":
			rows = append(rows, row{name, false})
		default:
			fail("docs/command.md: unrecognised Supported? value %q for %s", sup, name)
		}
	}
	if len(rows) < 50 {
		fail("docs/command.md: too few rows (%d)", len(rows))
	}
	emit("(* docs/command.md: (command name as printed, Supported? = Yes) in file order *)\n")
	emit("Definition docs_commands : list (list N * bool) := [\n")
	for i, r := range rows {
		sep := ";"
		if i == len(rows)-1 {
			sep = ""
		}
		emit("  (%s, %v)%s (* %s *)\n", coqBytes(r.name), r.yes, sep, comment(r.name))
	}
	emit("].\n\n")
}

func main() {
	outPath := ""
	args := os.Args[1:]
	for i := 0; i < len(args); i++ {
		switch args[i] {
		case "-repo":
			i++
			repo = args[i]
		case "-o":
			i++
			outPath = args[i]
		}
	}
	emit("(* GENERATED by /verif/tools/gen from the Go sources under %s.  Do not edit:\n   rewritten on every run of bin/check. *)\n", "/repo")
	emit("From Coq Require Import List NArith ZArith.\nImport ListNotations.\nOpen Scope N_scope.\n\n")
	genCrc()
	genCommands()
	genStrings()
	genDocs()
	if len(failed) > 0 {
		sort.Strings(failed)
		for _, f := range failed {
			fmt.Fprintln(os.Stderr, "gen: ERROR:", f)
		}
		os.Exit(2)
	}
	if outPath == "" {
		fmt.Print(out.String())
		return
	}
	old, err := os.ReadFile(outPath)
	if err == nil && string(old) == out.String() {
		fmt.Fprintln(os.Stderr, "gen: unchanged")
		return
	}
	if err := os.WriteFile(outPath, []byte(out.String()), 0o644); err != nil {
		fmt.Fprintln(os.Stderr, "gen:", err)
		os.Exit(2)
	}
	fmt.Fprintln(os.Stderr, "gen: wrote", outPath)
}
