module verifgen

go 1.17
